/-
The write discipline of one trie operation.  Fix the heap `hp0` at the start of the operation, the
root `r0` and the generation `g` of the trie operated on.  `Good F hp` says that the current heap
`hp` differs from `hp0` only in the way copy-on-write allows:

* cells are only added; generations of old cells never change; new cells have generation `g`;
* an old cell that is not OWNED (reachable from `r0` in `hp0` with generation `g`) keeps all its
  fields except the `MerkleValue` cache;
* the cells of the region `W` (reachable from `r0` in `hp0`, or new) only point into `W`;
* every admissible view (root cell `ρ` + closed region `P` of old cells that are not owned, with
  `r0 ∉ P`) still reads the same Merkle values (`VP`).

Every primitive write of the model preserves `Good` under side conditions that the functions of
`in_memory.go` meet (`TrieHeapOps`).
-/
import Gossamer.Lib.TrieHeapView
namespace Gossamer
namespace TrieHeap

structure Frame where
  H : Bytes → Bytes
  hp0 : Heap
  r0 : Option Nat
  g : Nat

namespace Frame

def R0 (F : Frame) (a : Nat) : Prop := ReachO F.hp0 F.r0 a
def Own0 (F : Frame) (a : Nat) : Prop := F.R0 a ∧ (F.hp0.get a).gen = F.g
def W (F : Frame) (a : Nat) : Prop := F.R0 a ∨ F.hp0.size ≤ a

/-- a view of another trie that the operation must not disturb -/
structure Adm (F : Frame) (P : Nat → Prop) (ρ : Nat) : Prop where
  view : View F.hp0 P ρ
  old : ∀ a, (P a ∨ a = ρ) → a < F.hp0.size ∧ ¬ F.Own0 a
  root : ∀ r, F.r0 = some r → ¬ P r

end Frame

/-- `x` is an address the operation may use: in the region and allocated -/
def InW (F : Frame) (hp : Heap) (x : Nat) : Prop := F.W x ∧ x < hp.size

structure Good (F : Frame) (hp : Heap) : Prop where
  size : F.hp0.size ≤ hp.size
  gen : ∀ a, a < F.hp0.size → (hp.get a).gen = (F.hp0.get a).gen
  frame : ∀ a, a < F.hp0.size → ¬ F.Own0 a →
    (hp.get a).strip = (F.hp0.get a).strip ∧ (hp.get a).dirty = (F.hp0.get a).dirty
  fresh : ∀ a, F.hp0.size ≤ a → a < hp.size → (hp.get a).gen = F.g
  kids : ∀ a, F.W a → ∀ i x, (hp.get a).kids i = some x → InW F hp x
  wf : ∀ a, a < hp.size → ∀ i x, (hp.get a).kids i = some x → x < hp.size
  views : ∀ P ρ, F.Adm P ρ → VP F.H P ρ F.hp0 hp

theorem InW.mono {F : Frame} {hp hp' : Heap} {x : Nat} (h : InW F hp x) (hs : hp.size ≤ hp'.size) :
    InW F hp' x := ⟨h.1, Nat.lt_of_lt_of_le h.2 hs⟩

/-- a cell of the region with the generation of the trie is owned or new -/
theorem Good.own_or_fresh {F : Frame} {hp : Heap} (hg : Good F hp) {a : Nat} (ha : InW F hp a)
    (hgen : (hp.get a).gen = F.g) : F.Own0 a ∨ F.hp0.size ≤ a := by
  by_cases hlt : a < F.hp0.size
  · left
    rcases ha.1 with hr | hf
    · exact ⟨hr, by rw [← hg.gen a hlt]; exact hgen⟩
    · omega
  · right; omega

/-- an owned or new cell belongs to no admissible view -/
theorem Frame.Adm.not_mem {F : Frame} {P : Nat → Prop} {ρ : Nat} (ad : F.Adm P ρ) {a : Nat}
    (h : F.Own0 a ∨ F.hp0.size ≤ a) : ¬ (P a ∨ a = ρ) := by
  intro hv
  obtain ⟨h1, h2⟩ := ad.old a hv
  rcases h with h | h
  · exact h2 h
  · omega

/-- the start of the operation -/
theorem Good.init (F : Frame) (hwf : ∀ a, a < F.hp0.size → ∀ i x, (F.hp0.get a).kids i = some x → x < F.hp0.size) :
    Good F F.hp0 where
  size := Nat.le_refl _
  gen := fun _ _ => rfl
  frame := fun _ _ _ => ⟨rfl, rfl⟩
  fresh := fun a h1 h2 => by omega
  kids := by
    intro a ha i x hk
    rcases ha with hr | hf
    · have hr' : F.R0 x := by
        unfold Frame.R0 at *
        cases hr0 : F.r0 with
        | none => rw [hr0] at hr; exact hr.elim
        | some r =>
          rw [hr0] at hr
          exact Reach.tail (hp := F.hp0) (a := r) i hr hk
      have hlt : a < F.hp0.size := by
        by_cases h : a < F.hp0.size
        · exact h
        · rw [Heap.get_of_size_le (by omega)] at hk
          simp [default, noKids] at hk
      exact ⟨Or.inl hr', hwf a hlt i x hk⟩
    · rw [Heap.get_of_size_le hf] at hk
      simp [default, noKids] at hk
  wf := hwf
  views := fun P ρ _ => VP.refl F.H P ρ F.hp0

/-- allocation of a node of the trie's generation whose children are usable addresses -/
theorem Good.alloc {F : Frame} {hp : Heap} (hg : Good F hp) (n : HNode) (hgen : n.gen = F.g)
    (hk : ∀ i x, n.kids i = some x → InW F hp x) :
    Good F (hp.alloc n).1 ∧ InW F (hp.alloc n).1 hp.size := by
  have hsz : (hp.alloc n).1.size = hp.size + 1 := Heap.size_alloc hp n
  have hge : F.hp0.size ≤ hp.size := hg.size
  refine ⟨⟨by omega, ?_, ?_, ?_, ?_, ?_, ?_⟩, Or.inr hge, by omega⟩
  · intro a ha
    rw [Heap.get_alloc_lt (by omega)]; exact hg.gen a ha
  · intro a ha ho
    rw [Heap.get_alloc_lt (by omega)]; exact hg.frame a ha ho
  · intro a h1 h2
    rw [Heap.get_alloc]
    split
    · exact hgen
    · exact hg.fresh a h1 (by omega)
  · intro a ha i x hx
    rw [Heap.get_alloc] at hx
    split at hx
    · exact (hk i x hx).mono (by omega)
    · exact (hg.kids a ha i x hx).mono (by omega)
  · intro a ha i x hx
    rw [Heap.get_alloc] at hx
    split at hx
    · have := (hk i x hx).2; omega
    · rename_i hne
      have : a < hp.size := by omega
      have := hg.wf a this i x hx; omega
  · intro P ρ ad
    refine (hg.views P ρ ad).frame (fun a ha => ?_)
    have := (ad.old a ha).1
    exact Heap.get_alloc_lt (by omega)

/-- a write through a pointer to an owned or new cell -/
theorem Good.modify {F : Frame} {hp : Heap} (hg : Good F hp) {a : Nat} (ha : InW F hp a)
    (hgen : (hp.get a).gen = F.g) (f : HNode → HNode) (hf : (f (hp.get a)).gen = (hp.get a).gen)
    (hk : ∀ i x, (f (hp.get a)).kids i = some x → InW F hp x) : Good F (hp.modify a f) := by
  have hof := hg.own_or_fresh ha hgen
  have hsz : (hp.modify a f).size = hp.size := Heap.size_modify hp a f
  refine ⟨by rw [hsz]; exact hg.size, ?_, ?_, ?_, ?_, ?_, ?_⟩
  · intro b hb
    rw [Heap.get_modify]; split
    · rename_i h; obtain ⟨rfl, _⟩ := h; rw [hf]; exact hg.gen b hb
    · exact hg.gen b hb
  · intro b hb ho
    rw [Heap.get_modify]; split
    · rename_i h
      obtain ⟨rfl, _⟩ := h
      rcases hof with h | h
      · exact absurd h ho
      · omega
    · exact hg.frame b hb ho
  · intro b h1 h2
    rw [hsz] at h2
    rw [Heap.get_modify]; split
    · rename_i h; obtain ⟨rfl, _⟩ := h; rw [hf]; exact hg.fresh b h1 h2
    · exact hg.fresh b h1 h2
  · intro b hb i x hx
    rw [Heap.get_modify] at hx
    split at hx
    · exact (hk i x hx).mono (by omega)
    · exact (hg.kids b hb i x hx).mono (by omega)
  · intro b hb i x hx
    rw [hsz] at hb ⊢
    rw [Heap.get_modify] at hx
    split at hx
    · exact (hk i x hx).2
    · exact hg.wf b hb i x hx
  · intro P ρ ad
    refine (hg.views P ρ ad).frame (fun b hb => ?_)
    have hne : b ≠ a := fun e => ad.not_mem hof (e ▸ hb)
    exact Heap.get_modify_ne f hne

/-- a step that only touches `MerkleValue` caches, with the views supplied by the caller -/
theorem Good.of_mvOnly {F : Frame} {hp hp' : Heap} (hg : Good F hp) (hm : MvOnly hp hp')
    (hv : ∀ P ρ, F.Adm P ρ → VP F.H P ρ F.hp0 hp') : Good F hp' := by
  refine ⟨by rw [hm.size]; exact hg.size, ?_, ?_, ?_, ?_, ?_, hv⟩
  · intro a ha; rw [strip_gen (hm.cell a).1]; exact hg.gen a ha
  · intro a ha ho
    obtain ⟨h1, h2⟩ := hg.frame a ha ho
    exact ⟨(hm.cell a).1.trans h1, (hm.cell a).2.trans h2⟩
  · intro a h1 h2; rw [hm.size] at h2; rw [strip_gen (hm.cell a).1]; exact hg.fresh a h1 h2
  · intro a ha i x hx
    rw [hm.kids] at hx
    exact (hg.kids a ha i x hx).mono (by rw [hm.size]; exact Nat.le_refl _)
  · intro a ha i x hx
    rw [hm.size] at ha ⊢
    rw [hm.kids] at hx
    exact hg.wf a ha i x hx

/-- a step that is a transparent cache write on every closed region (`CalculateMerkleValue`) -/
theorem Good.of_calc {F : Frame} {hp hp' : Heap} (hg : Good F hp) (hm : MvOnly hp hp')
    (ht : ∀ Q : Nat → Prop, Closed Q hp → TrP F.H Q hp hp') : Good F hp' :=
  hg.of_mvOnly hm (fun P ρ ad =>
    (hg.views P ρ ad).trans ad.view (VP.of_trp (ad.view.next (hg.views P ρ ad)) ht))

end TrieHeap
end Gossamer
