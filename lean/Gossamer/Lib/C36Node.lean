/-
C36, node level: every operation of the model appends a SAFE segment to the write log (given the node
invariant) and re-establishes the node invariant.
-/
import Gossamer.Lib.C36DB
namespace Gossamer.C36

/-- node invariant: the database invariant, every unfinalised block's state trie is stored (StoreTrie precedes
    AddBlock), the last finalised block and genesis are fully stored -/
structure NInv (n : Node) : Prop where
  dbinv : DBInv n.db
  unfin : ∀ b ∈ n.unfin, n.db.node b.root = true
  last : HdrOK n.db n.last
  gen : HdrOK n.db genesisId

/-- number of writes of the highest round / set id key in a log -/
def hrsW : W → Nat
  | .hrs _ _ => 1
  | _ => 0
def hrsE : Entry → Nat
  | .put w => hrsW w
  | .batch ws => (ws.map hrsW).sum
def hrsCount (l : List Entry) : Nat := (l.map hrsE).sum

theorem hrsCount_append (a b : List Entry) : hrsCount (a ++ b) = hrsCount a + hrsCount b := by
  simp [hrsCount, List.map_append, List.sum_append]

/-- `n'` is `n` plus a safe log segment with at most `c` writes of the highest round / set id -/
def Reach (n n' : Node) (c : Nat) : Prop :=
  ∃ seg, n'.log = n.log ++ seg ∧ n'.db = replay n.db seg ∧ SafeSeg n.db seg ∧ hrsCount seg ≤ c

theorem Reach.same {n n' : Node} (hlog : n'.log = n.log) (hdb : n'.db = n.db) : Reach n n' 0 :=
  ⟨[], by simp [hlog], by simp [hdb, replay], trivial, by simp [hrsCount]⟩

theorem Reach.trans {a b c : Node} {c1 c2 : Nat} (h1 : Reach a b c1) (h2 : Reach b c c2) :
    Reach a c (c1 + c2) := by
  obtain ⟨s1, l1, d1, f1, k1⟩ := h1
  obtain ⟨s2, l2, d2, f2, k2⟩ := h2
  refine ⟨s1 ++ s2, by simp [l2, l1], by rw [d2, d1, replay_append], SafeSeg.append f1 (d1 ▸ f2), ?_⟩
  rw [hrsCount_append]; omega

theorem Reach.mono {a b : Node} {c c' : Nat} (h : Reach a b c) (hc : c ≤ c') : Reach a b c' := by
  obtain ⟨s, l, d, f, k⟩ := h
  exact ⟨s, l, d, f, Nat.le_trans k hc⟩

theorem Reach.keeps {a b : Node} {c : Nat} (h : Reach a b c) : Keeps a.db b.db := by
  obtain ⟨s, _, d, f, _⟩ := h
  rw [d]; exact keeps_replay f

/-- an operation step: it keeps the node invariant and appends a safe segment -/
def Step (n n' : Node) (c : Nat) : Prop := NInv n → NInv n' ∧ Reach n n' c

theorem Step.trans {a b c : Node} {c1 c2 : Nat} (h1 : Step a b c1) (h2 : Step b c c2) : Step a c (c1 + c2) :=
  fun h => ⟨(h2 (h1 h).1).1, (h1 h).2.trans (h2 (h1 h).1).2⟩

theorem Step.mono {a b : Node} {c c' : Nat} (h : Step a b c) (hc : c ≤ c') : Step a b c' :=
  fun hi => ⟨(h hi).1, (h hi).2.mono hc⟩

theorem Step.refl (n : Node) : Step n n 0 := fun h => ⟨h, Reach.same rfl rfl⟩

/-- changes of the memory-only fields -/
theorem Step.same {n n' : Node} (hdb : n'.db = n.db) (hlog : n'.log = n.log)
    (hun : ∀ b ∈ n'.unfin, b ∈ n.unfin) (hl : n'.last = n.last) : Step n n' 0 :=
  fun h => ⟨⟨hdb ▸ h.dbinv, fun b hb => hdb ▸ h.unfin b (hun b hb), by rw [hdb, hl]; exact h.last,
    hdb ▸ h.gen⟩, Reach.same hlog hdb⟩

theorem Step.emit {n : Node} {e : Entry} (hs : NInv n → SafeE n.db e) : Step n (n.emit e) (hrsE e) := by
  intro h
  have k := keeps_apply (hs h)
  refine ⟨⟨k.inv h.dbinv, fun b hb => k.node _ (h.unfin b hb), k.hdrok _ h.last, k.hdrok _ h.gen⟩,
    [e], rfl, rfl, ⟨hs h, trivial⟩, by simp [hrsCount]⟩

theorem Step.put {n : Node} {w : W} (hs : NInv n → SafeW n.db w) : Step n (n.put w) (hrsW w) :=
  Step.emit (e := .put w) hs

/-! ### block tree -/

theorem getNode_id {tree : List Hdr} {h : Nat} {b : Hdr} (hb : getNode tree h = some b) : b.id = h := by
  have := List.find?_some hb
  simpa using this

theorem accumulate_mem (tree : List Hdr) (start : Nat) : ∀ (c : Nat) (cur : Hdr) (acc l : List Nat),
    accumulate tree start c cur acc = some l →
    (∀ x ∈ acc, x ∈ l.tail) ∧ (0 < c → cur.id ∈ l.tail)
  | 0, cur, acc, l, h => by
    simp only [accumulate] at h
    split at h
    · cases h; simp
    · cases h
  | c + 1, cur, acc, l, h => by
    simp only [accumulate] at h
    split at h
    · cases h
    · rename_i p _
      have ih := (accumulate_mem tree start c p (cur.id :: acc) l h).1
      exact ⟨fun x hx => ih x (List.mem_cons_of_mem _ hx), fun _ => ih _ (List.mem_cons_self ..)⟩

/-- the range from the last finalised block to a different block ends in that block -/
theorem range_mem {tree : List Hdr} {a b : Nat} {l : List Nat}
    (h : rangeInMemory tree a b = some l) (hab : b ≠ a) : b ∈ l.tail := by
  simp only [rangeInMemory] at h
  split at h
  · rename_i e s he hs
    split at h
    · cases h
    · have hid := getNode_id he
      by_cases hc : e.number - s.number = 0
      · rw [hc] at h
        simp only [accumulate] at h
        split at h
        · rename_i heq; exact absurd (hid ▸ heq) hab
        · cases h
      · have := (accumulate_mem tree a _ e [] l h).2 (Nat.pos_of_ne_zero hc)
        rwa [hid] at this
  · cases h

/-! ### handleFinalisedBlock -/

theorem hrsW_sum_zero : ∀ {ws : List W}, (∀ w ∈ ws, ∃ x y, w = W.hsh x y) → (ws.map hrsW).sum = 0
  | [], _ => rfl
  | w :: ws, h => by
    obtain ⟨x, y, rfl⟩ := h w (List.mem_cons_self ..)
    have := hrsW_sum_zero (ws := ws) (fun v hv => h v (List.mem_cons_of_mem _ hv))
    simp [hrsW, this]

theorem finLoop_spec : ∀ (chain : List Nat) (n : Node) (acc : List W),
    NInv n → (∀ w ∈ acc, ∃ x y, w = .hsh x y) →
    NInv (finLoop n acc chain).1 ∧ Reach n (finLoop n acc chain).1 0 ∧
    (finLoop n acc chain).1.last = n.last ∧
    ∀ b, (finLoop n acc chain).2 = some b →
      (∀ w ∈ b, ∃ x y, w = .hsh x y) ∧ ∀ c ∈ chain, HdrOK (finLoop n acc chain).1.db c
  | [], n, acc, h, hacc => by
    simp only [finLoop]
    exact ⟨h, Reach.same rfl rfl, by trivial, fun b hb => by cases hb; exact ⟨hacc, by simp⟩⟩
  | c :: rest, n, acc, h, hacc => by
    rw [finLoop]
    by_cases hg : c = genesisId
    · simp only [hg, if_true]
      obtain ⟨i1, i2, i3, i4⟩ := finLoop_spec rest n acc h hacc
      refine ⟨i1, i2, i3, fun b hb => ⟨(i4 b hb).1, fun x hx => ?_⟩⟩
      rcases List.mem_cons.mp hx with rfl | hx
      · exact i2.keeps.hdrok _ h.gen
      · exact (i4 b hb).2 x hx
    · simp only [hg, if_false]
      split
      · exact ⟨h, Reach.same rfl rfl, rfl, fun b hb => by cases hb⟩
      · rename_i b hfind
        have hbmem : b ∈ n.unfin := List.mem_of_find?_eq_some hfind
        have hbid : b.id = c := by simpa using List.find?_some hfind
        -- the four puts of one block
        have s1 : Step n (n.put (.hdr b)) 0 := Step.put (w := .hdr b) (fun hi => hi.unfin b hbmem)
        let n2 := if b.number = 1 then (n.put (.hdr b)).put .fsn else n.put (.hdr b)
        have s2 : Step (n.put (.hdr b)) n2 0 := by
          by_cases h1 : b.number = 1
          · simp only [n2, h1, if_true]; exact Step.put (w := .fsn) (fun _ => trivial)
          · simp only [n2, h1, if_false]; exact Step.refl _
        have s3 : Step n2 (n2.put (.blb c)) 0 := Step.put (w := .blb c) (fun _ => trivial)
        have s4 : Step (n2.put (.blb c)) ((n2.put (.blb c)).put (.arr c)) 0 :=
          Step.put (w := .arr c) (fun _ => trivial)
        let n4 := (n2.put (.blb c)).put (.arr c)
        let n5 : Node := { n4 with unfin := n4.unfin.filter (fun x => x.id ≠ c) }
        have s5 : Step n4 n5 0 := Step.same rfl rfl (fun x hx => (List.mem_filter.mp hx).1) rfl
        have s : Step n n5 0 := by
          have := (((s1.trans s2).trans s3).trans s4).trans s5
          simpa using this
        have h5 := (s h).1
        have r5 := (s h).2
        have hroot : n.db.node b.root = true := h.unfin b hbmem
        have hok : HdrOK n5.db c := by
          refine ⟨b, ?_, ?_, ?_⟩
          · by_cases h1 : b.number = 1 <;>
              simp [n5, n4, n2, h1, Node.put, Node.emit, DB.apply, DB.write, hbid]
          · by_cases h1 : b.number = 1 <;>
              simp [n5, n4, n2, h1, Node.put, Node.emit, DB.apply, DB.write, hroot]
          · by_cases h1 : b.number = 1 <;>
              simp [n5, n4, n2, h1, Node.put, Node.emit, DB.apply, DB.write]
        have hacc' : ∀ w ∈ acc ++ [W.hsh b.number c], ∃ x y, w = .hsh x y := by
          intro w hw
          rcases List.mem_append.mp hw with hw | hw
          · exact hacc w hw
          · exact ⟨b.number, c, by simpa using hw⟩
        obtain ⟨i1, i2, i3, i4⟩ := finLoop_spec rest n5 (acc ++ [W.hsh b.number c]) h5 hacc'
        have hlast : n5.last = n.last := by
          by_cases h1 : b.number = 1 <;> simp [n5, n4, n2, h1, Node.put, Node.emit]
        refine ⟨i1, r5.trans i2, by rw [i3, hlast], fun bb hb => ⟨(i4 bb hb).1, fun x hx => ?_⟩⟩
        rcases List.mem_cons.mp hx with rfl | hx
        · exact i2.keeps.hdrok _ hok
        · exact (i4 bb hb).2 x hx

theorem handleFinalised_spec (n : Node) (h : Nat) (hi : NInv n) :
    NInv (handleFinalised n h).1 ∧ Reach n (handleFinalised n h).1 0 ∧
    (handleFinalised n h).1.last = n.last ∧
    ((handleFinalised n h).2 = true → HdrOK (handleFinalised n h).1.db h) := by
  unfold handleFinalised
  by_cases hl : h = n.last
  · simp only [hl, if_true]
    exact ⟨hi, Reach.same rfl rfl, by trivial, fun _ => hi.last⟩
  · simp only [hl, if_false]
    split
    · exact ⟨hi, Reach.same rfl rfl, rfl, fun hf => by cases hf⟩
    · rename_i chain hrange
      have hmem := range_mem hrange hl
      obtain ⟨i1, i2, i3, i4⟩ := finLoop_spec chain.tail n [] hi (by simp)
      generalize hr : finLoop n [] chain.tail = r at i1 i2 i3 i4
      obtain ⟨n', ob⟩ := r
      cases ob with
      | none => exact ⟨i1, i2, i3, fun hf => by cases hf⟩
      | some batch =>
        obtain ⟨hb, hok⟩ := i4 batch rfl
        have sb : Step n' (n'.emit (.batch batch)) 0 := by
          have := Step.emit (n := n') (e := .batch batch)
            (fun _ => safeWs_of_plain _ (fun w hw => Or.inl (hb w hw)))
          have hz : hrsE (.batch batch) = 0 := hrsW_sum_zero hb
          rwa [hz] at this
        have := sb i1
        exact ⟨this.1, i2.trans this.2, i3, fun _ => this.2.keeps.hdrok _ (hok h hmem)⟩

/-! ### SetFinalisedHash -/

theorem prune_step (n : Node) (h : Nat) : Step n (prune n h) 0 := by
  unfold prune
  split
  · exact Step.refl _
  · split
    · exact Step.refl _
    · exact Step.same rfl rfl (fun x hx => (List.mem_filter.mp hx).1) rfl

theorem prune_db (n : Node) (h : Nat) : (prune n h).db = n.db := by
  unfold prune
  split
  · rfl
  · split <;> rfl

theorem setFinalisedHash_step (n : Node) (h r s : Nat) : Step n (setFinalisedHash n h r s).1 1 := by
  intro hi
  unfold setFinalisedHash
  split
  · exact ⟨hi, (Reach.same rfl rfl).mono (by omega)⟩
  split
  · exact ⟨hi, (Reach.same rfl rfl).mono (by omega)⟩
  · obtain ⟨i1, i2, i3, i4⟩ := handleFinalised_spec n h hi
    generalize hr : handleFinalised n h = res at i1 i2 i3 i4
    obtain ⟨n1, ok⟩ := res
    cases ok with
    | false => exact ⟨i1, i2.mono (by omega)⟩
    | true =>
      have hok := i4 rfl
      have sfin : Step n1 (n1.put (.fin r s h)) 0 := Step.put (w := .fin r s h) (fun _ => hok)
      have j := sfin i1
      have hok2 : HdrOK (n1.put (.fin r s h)).db h := j.2.keeps.hdrok _ hok
      simp only
      split
      · exact ⟨j.1, by simpa using (i2.trans j.2).mono (by omega)⟩
      · rename_i r0 hs hhrs
        split
        · exact ⟨j.1, by simpa using (i2.trans j.2).mono (by omega)⟩
        · rename_i hlt
          let n2 := n1.put (.fin r s h)
          have shrs : Step n2 (n2.put (.hrs r s)) 1 := by
            refine Step.put (w := .hrs r s) (fun _ => ⟨⟨h, ?_⟩, ?_⟩)
            · simp [n2, Node.put, Node.emit, DB.apply, DB.write]
            · show setOf (n1.put (.fin r s h)).db ≤ s
              simp only [setOf, hhrs]; omega
          have j2 := shrs j.1
          have sp := prune_step (n2.put (.hrs r s)) h j2.1
          have hok3 : HdrOK (prune (n2.put (.hrs r s)) h).db h := by
            rw [prune_db]; exact j2.2.keeps.hdrok _ hok2
          refine ⟨⟨sp.1.dbinv, sp.1.unfin, hok3, sp.1.gen⟩, ?_⟩
          obtain ⟨seg, l, d, f, k⟩ := ((i2.trans j.2).trans j2.2).trans sp.2
          exact ⟨seg, l, d, f, by omega⟩

/-! ### GrandpaState -/

theorem startNext_step (n : Node) (tag eff : Nat) : Step n (startNext {} n tag eff).1 0 := by
  intro hi
  unfold startNext
  split
  · exact ⟨hi, Reach.same rfl rfl⟩
  · rename_i cur hcur
    simp only [Bool.false_eq_true, if_false]
    let n1 := n.put (.auth (cur + 1) tag)
    let n2 := n1.put (.change (cur + 1) eff)
    have s1 : Step n n1 0 := Step.put (w := .auth (cur + 1) tag) (fun _ => trivial)
    have s2 : Step n1 n2 0 := Step.put (w := .change (cur + 1) eff) (fun _ => trivial)
    have hcur2 : n2.db.curSet = some cur := by
      simp [n2, n1, Node.put, Node.emit, DB.apply, DB.write, hcur]
    show NInv (match n2.db.curSet with
      | none => (n2, false)
      | some cur' => (n2.put (.curSet (cur' + 1)), true)).1 ∧ Reach n (match n2.db.curSet with
      | none => (n2, false)
      | some cur' => (n2.put (.curSet (cur' + 1)), true)).1 0
    rw [hcur2]
    have s3 : Step n2 (n2.put (.curSet (cur + 1))) 0 := by
      refine Step.put (w := .curSet (cur + 1)) (fun _ => ⟨⟨tag, ?_⟩, ⟨eff, ?_⟩⟩)
      · simp [n2, n1, Node.put, Node.emit, DB.apply, DB.write]
      · simp [n2, n1, Node.put, Node.emit, DB.apply, DB.write]
    have := ((s1.trans s2).trans s3) hi
    simpa using this

theorem startNext_mem (cfg : Cfg) (n : Node) (tag eff : Nat) :
    (startNext cfg n tag eff).1.unfin = n.unfin ∧ (startNext cfg n tag eff).1.last = n.last := by
  unfold startNext
  split
  · exact ⟨rfl, rfl⟩
  · split
    · exact ⟨rfl, rfl⟩
    · simp only
      split <;> exact ⟨rfl, rfl⟩

theorem handleDigest_step (n : Node) (b : Hdr) (spec : ChangeSpec) : Step n (handleDigest n b spec).1 0 := by
  cases spec with
  | sc d t =>
    simp only [handleDigest]
    split
    · exact Step.refl _
    · exact Step.same rfl rfl (fun _ h => h) rfl
  | fc d bf t =>
    simp only [handleDigest]
    split
    · exact Step.refl _
    · exact Step.same rfl rfl (fun _ h => h) rfl

theorem applyForced_step (n : Node) (b : Hdr) : Step n (applyForced {} n b).1 0 := by
  unfold applyForced
  simp only
  split
  · exact Step.refl _
  · exact Step.refl _
  · split
    · exact Step.refl _
    · exact Step.refl _
    · rename_i fc _ _ _
      have s2 := startNext_step n fc.tag fc.bestFin
      generalize hr : startNext {} n fc.tag fc.bestFin = res at s2
      obtain ⟨n2, ok⟩ := res
      cases ok with
      | false => exact s2
      | true =>
        have s3 : Step n2 { n2 with forced := [], sched := [] } 0 :=
          Step.same rfl rfl (fun _ h => h) rfl
        simpa using s2.trans s3

theorem applyScheduled_step (n : Node) (b : Hdr) : Step n (applyScheduled {} n b).1 0 := by
  unfold applyScheduled
  split
  · exact Step.refl _
  · rename_i forced _
    have s0 : Step n { n with forced := forced } 0 := Step.same rfl rfl (fun _ h => h) rfl
    simp only
    split
    · exact s0
    · split
      · exact s0
      · split
        · exact s0
        · rename_i roots _
          exact Step.same rfl rfl (fun _ h => h) rfl
      · rename_i p _
        have s1 : Step n { n with forced := forced, sched := p.kids } 0 :=
          Step.same rfl rfl (fun _ h => h) rfl
        have := s1.trans (startNext_step { n with forced := forced, sched := p.kids } p.change.tag b.number)
        simpa using this

/-! ### EpochState -/

theorem mem_insertSorted {x y : Nat} : ∀ {l : List Nat}, y ∈ insertSorted x l → y = x ∨ y ∈ l
  | [], h => by simpa [insertSorted] using h
  | z :: zs, h => by
    simp only [insertSorted] at h
    split at h
    · rcases List.mem_cons.mp h with h | h
      · exact Or.inl h
      · exact Or.inr h
    · split at h
      · exact Or.inr h
      · rcases List.mem_cons.mp h with h | h
        · exact Or.inr (h ▸ List.mem_cons_self ..)
        · rcases mem_insertSorted h with h | h
          · exact Or.inl h
          · exact Or.inr (List.mem_cons_of_mem _ h)

theorem mem_sortDedup {y : Nat} : ∀ {l : List Nat}, y ∈ sortDedup l → y ∈ l
  | [], h => by simp [sortDedup] at h
  | x :: xs, h => by
    have h' : y ∈ insertSorted x (sortDedup xs) := h
    rcases mem_insertSorted h' with h | h
    · exact h ▸ List.mem_cons_self ..
    · exact List.mem_cons_of_mem _ (mem_sortDedup h)

theorem hrsW_sum_zero' (f : Nat → W) (hf : ∀ h, hrsW (f h) = 0) : ∀ (hs : List Nat), ((hs.map f).map hrsW).sum = 0
  | [] => rfl
  | h :: hs => by
    have ih := hrsW_sum_zero' f hf hs
    simp only [List.map_cons, List.sum_cons, hf h, ih]

theorem einfo_apply {db : DB} (e : Entry) {x : Nat} (h : db.einfo x = true) : (db.apply e).einfo x = true := by
  cases e with
  | put w => exact einfo_write w h
  | batch ws =>
    show (ws.foldl DB.write db).einfo x = true
    induction ws generalizing db with
    | nil => exact h
    | cons w ws ih => exact ih (einfo_write w h)

theorem cinfo_apply {db : DB} (e : Entry) {x : Nat} (h : db.cinfo x = true) : (db.apply e).cinfo x = true := by
  cases e with
  | put w => exact cinfo_write w h
  | batch ws =>
    show (ws.foldl DB.write db).cinfo x = true
    induction ws generalizing db with
    | nil => exact h
    | cons w ws ih => exact ih (cinfo_write w h)

theorem handleNextEpoch_step (n : Node) (b : Hdr) : Step n (handleNextEpoch n b) 0 := by
  unfold handleNextEpoch
  simp only
  let e := epochOf b.number + 1
  let n1 : Node := { n with memNed := if n.memNed.contains (e, b.id) then n.memNed else n.memNed ++ [(e, b.id)] }
  have s1 : Step n n1 0 := Step.same rfl rfl (fun _ h => h) rfl
  have s2 : Step n1 (n1.put (.ned e b.id)) 0 := Step.put (w := .ned e b.id) (fun _ => trivial)
  exact s1.trans s2

theorem handleNextConfig_step (n : Node) (b : Hdr) : Step n (handleNextConfig n b) 0 := by
  unfold handleNextConfig
  simp only
  let e := epochOf b.number + 1
  let n1 : Node := { n with memNcd := if n.memNcd.contains (e, b.id) then n.memNcd else n.memNcd ++ [(e, b.id)] }
  have s1 : Step n n1 0 := Step.same rfl rfl (fun _ h => h) rfl
  have s2 : Step n1 (n1.put (.ncd e b.id)) 0 := Step.put (w := .ncd e b.id) (fun _ => trivial)
  exact s1.trans s2

theorem deleteLoopNed_step (mem : List (Nat × Nat)) (e' : Nat) : ∀ (epochs : List Nat) (n : Node),
    (∀ e ∈ epochs, e ≤ e') → n.db.einfo e' = true → Step n (deleteLoop .delNed mem n epochs) 0
  | [], n, _, _ => Step.refl n
  | e :: es, n, hle, hk => by
    simp only [deleteLoop]
    let hs := sortDedup ((mem.filter (fun p => p.1 = e)).map (·.2))
    have s1 : Step n (n.emit (.batch (hs.map (W.delNed e)))) 0 := by
      have := Step.emit (n := n) (e := .batch (hs.map (W.delNed e)))
        (fun _ => safeWs_delNed hs n.db e e' (hle e (List.mem_cons_self ..)) hk)
      have hz : hrsE (.batch (hs.map (W.delNed e))) = 0 := hrsW_sum_zero' (W.delNed e) (fun _ => rfl) hs
      rwa [hz] at this
    have := s1.trans (deleteLoopNed_step mem e' es (n.emit (.batch (hs.map (W.delNed e))))
      (fun x hx => hle x (List.mem_cons_of_mem _ hx)) (einfo_apply _ hk))
    simpa using this

theorem deleteLoopNcd_step (mem : List (Nat × Nat)) (e' : Nat) : ∀ (epochs : List Nat) (n : Node),
    (∀ e ∈ epochs, e ≤ e') → n.db.cinfo e' = true → Step n (deleteLoop .delNcd mem n epochs) 0
  | [], n, _, _ => Step.refl n
  | e :: es, n, hle, hk => by
    simp only [deleteLoop]
    let hs := sortDedup ((mem.filter (fun p => p.1 = e)).map (·.2))
    have s1 : Step n (n.emit (.batch (hs.map (W.delNcd e)))) 0 := by
      have := Step.emit (n := n) (e := .batch (hs.map (W.delNcd e)))
        (fun _ => safeWs_delNcd hs n.db e e' (hle e (List.mem_cons_self ..)) hk)
      have hz : hrsE (.batch (hs.map (W.delNcd e))) = 0 := hrsW_sum_zero' (W.delNcd e) (fun _ => rfl) hs
      rwa [hz] at this
    have := s1.trans (deleteLoopNcd_step mem e' es (n.emit (.batch (hs.map (W.delNcd e))))
      (fun x hx => hle x (List.mem_cons_of_mem _ hx)) (cinfo_apply _ hk))
    simpa using this

theorem epochs_le {mem : List (Nat × Nat)} {ne : Nat} :
    ∀ e ∈ sortDedup ((mem.filter (fun p => p.1 ≤ ne)).map (·.1)), e ≤ ne := by
  intro e he
  obtain ⟨p, hp, rfl⟩ := List.mem_map.mp (mem_sortDedup he)
  simpa using (List.mem_filter.mp hp).2

theorem finalizeNed_step (n : Node) (b : Hdr) : Step n (finalizeNed n b).1 0 := by
  unfold finalizeNed
  split
  · exact Step.refl _
  · simp only
    split
    · exact Step.refl _
    · split
      · exact Step.refl _
      · split
        · exact Step.refl _
        · let ne := epochOf b.number + 1
          have s1 : Step n (n.put (.einfo ne)) 0 := Step.put (w := .einfo ne) (fun _ => trivial)
          have hk : (n.put (.einfo ne)).db.einfo ne = true := by
            simp [Node.put, Node.emit, DB.apply, DB.write]
          have s2 := deleteLoopNed_step (n.put (.einfo ne)).memNed ne _ (n.put (.einfo ne))
            (epochs_le (mem := (n.put (.einfo ne)).memNed) (ne := ne)) hk
          have s3 : Step (deleteLoop .delNed (n.put (.einfo ne)).memNed (n.put (.einfo ne))
              (sortDedup (((n.put (.einfo ne)).memNed.filter (fun p => p.1 ≤ ne)).map (·.1))))
              { deleteLoop .delNed (n.put (.einfo ne)).memNed (n.put (.einfo ne))
                  (sortDedup (((n.put (.einfo ne)).memNed.filter (fun p => p.1 ≤ ne)).map (·.1))) with
                memNed := (deleteLoop .delNed (n.put (.einfo ne)).memNed (n.put (.einfo ne))
                  (sortDedup (((n.put (.einfo ne)).memNed.filter (fun p => p.1 ≤ ne)).map (·.1)))).memNed.filter
                    (fun p => ¬ p.1 ≤ ne) } 0 :=
            Step.same rfl rfl (fun _ h => h) rfl
          exact (s1.trans s2).trans s3

theorem finalizeNcd_step (n : Node) (b : Hdr) : Step n (finalizeNcd n b).1 0 := by
  unfold finalizeNcd
  split
  · exact Step.refl _
  · simp only
    split
    · exact Step.refl _
    · split
      · exact Step.refl _
      · split
        · exact Step.refl _
        · let ne := epochOf b.number + 1
          have s1 : Step n (n.put (.cinfo ne)) 0 := Step.put (w := .cinfo ne) (fun _ => trivial)
          have hk : (n.put (.cinfo ne)).db.cinfo ne = true := by
            simp [Node.put, Node.emit, DB.apply, DB.write]
          have s2 := deleteLoopNcd_step (n.put (.cinfo ne)).memNcd ne _ (n.put (.cinfo ne))
            (epochs_le (mem := (n.put (.cinfo ne)).memNcd) (ne := ne)) hk
          have s3 : Step (deleteLoop .delNcd (n.put (.cinfo ne)).memNcd (n.put (.cinfo ne))
              (sortDedup (((n.put (.cinfo ne)).memNcd.filter (fun p => p.1 ≤ ne)).map (·.1))))
              { deleteLoop .delNcd (n.put (.cinfo ne)).memNcd (n.put (.cinfo ne))
                  (sortDedup (((n.put (.cinfo ne)).memNcd.filter (fun p => p.1 ≤ ne)).map (·.1))) with
                memNcd := (deleteLoop .delNcd (n.put (.cinfo ne)).memNcd (n.put (.cinfo ne))
                  (sortDedup (((n.put (.cinfo ne)).memNcd.filter (fun p => p.1 ≤ ne)).map (·.1)))).memNcd.filter
                    (fun p => ¬ p.1 ≤ ne) } 0 :=
            Step.same rfl rfl (fun _ h => h) rfl
          exact (s1.trans s2).trans s3

theorem finHandlers_step (n : Node) (b : Hdr) : Step n (finHandlers {} n b).1 0 := by
  unfold finHandlers
  simp only
  let ne := epochOf b.number + 1
  let n0 : Node := if b.number ≠ 0 ∧ (pendingMany n.memNed ne ∨ pendingMany n.memNcd ne)
    then { n with nondet := true } else n
  have s0 : Step n n0 0 := by
    by_cases hc : b.number ≠ 0 ∧ (pendingMany n.memNed ne ∨ pendingMany n.memNcd ne)
    · have : n0 = { n with nondet := true } := if_pos hc
      rw [this]; exact Step.same rfl rfl (fun _ h => h) rfl
    · have : n0 = n := if_neg hc
      rw [this]; exact Step.refl _
  have s1 := finalizeNed_step n0 b
  have s2 := finalizeNcd_step (finalizeNed n0 b).1 b
  have s3 := applyScheduled_step (finalizeNcd (finalizeNed n0 b).1 b).1 b
  exact ((s0.trans s1).trans s2).trans s3

/-! ### scenario operations -/

theorem doImport_step (n : Node) (b : Hdr) (parentRoot : Nat) (dirty : Bool) (chg : Option ChangeSpec)
    (ne nc : Bool) (hroot : dirty = false → b.root = parentRoot) :
    Step n (doImport {} n b parentRoot dirty chg ne nc).1 0 := by
  unfold doImport
  split
  · exact Step.refl _
  · rename_i hpr
    have hpr : n.db.node parentRoot = true := by simpa using hpr
    let e : Entry := .batch (if dirty then [.node b.root] else [])
    have he : hrsE e = 0 := by cases dirty <;> rfl
    have s1 : Step n (n.emit e) 0 := by
      have := Step.emit (n := n) (e := e) (fun _ => by
        cases dirty
        · exact trivial
        · exact ⟨trivial, trivial⟩)
      rwa [he] at this
    have hnode : (n.emit e).db.node b.root = true := by
      cases hd : dirty
      · have := hroot hd
        simp [e, hd, Node.emit, DB.apply, this, hpr]
      · simp [e, hd, Node.emit, DB.apply, DB.write]
    simp only
    split
    · exact s1
    · exact s1
    · rename_i res tree _ _ _
      let n2 : Node := if res = .ok then
          { n.emit e with tree := tree, unfin := b :: (n.emit e).unfin.filter (fun x => x.id ≠ b.id) }
        else n.emit e
      have s2 : Step (n.emit e) n2 0 := by
        by_cases hres : res = .ok
        · simp only [n2, hres, if_true]
          intro hi
          refine ⟨⟨hi.dbinv, ?_, hi.last, hi.gen⟩, Reach.same rfl rfl⟩
          intro x hx
          rcases List.mem_cons.mp hx with rfl | hx
          · exact hnode
          · exact hi.unfin x (List.mem_filter.mp hx).1
        · simp only [n2, hres, if_false]; exact Step.refl _
      have s12 : Step n n2 0 := by simpa using s1.trans s2
      let r3 : Node × Bool := match chg with
        | none => (n2, true)
        | some spec => handleDigest n2 b spec
      have s3 : Step n2 r3.1 0 := by
        cases chg with
        | none => exact Step.refl _
        | some spec => exact handleDigest_step n2 b spec
      have s123 : Step n r3.1 0 := by simpa using s12.trans s3
      show Step n (match r3 with
        | (n, okDigest) =>
          if (!okDigest) = true then (n, "e-digest")
          else
            match applyForced {} (if nc = true then handleNextConfig (if ne = true then handleNextEpoch n b else n) b
                else (if ne = true then handleNextEpoch n b else n)) b with
            | (n, false) => (n, "e-forced")
            | (n, true) => (n, "ok")).1 0
      obtain ⟨n3, ok3⟩ := r3
      simp only
      split
      · exact s123
      · let n4 : Node := if ne = true then handleNextEpoch n3 b else n3
        have s4 : Step n3 n4 0 := by
          cases ne
          · exact Step.refl _
          · exact handleNextEpoch_step n3 b
        let n5 : Node := if nc = true then handleNextConfig n4 b else n4
        have s5 : Step n4 n5 0 := by
          cases nc
          · exact Step.refl _
          · exact handleNextConfig_step n4 b
        have s6 := applyForced_step n5 b
        have sall : Step n (applyForced {} n5 b).1 0 := ((s123.trans s4).trans s5).trans s6
        split <;> (rename_i heq; rw [heq] at sall; exact sall)

theorem doFin_step (n : Node) (id r s : Nat) : Step n (doFin {} n id r s).1 1 := by
  unfold doFin
  have s1 := setFinalisedHash_step n id r s
  generalize setFinalisedHash n id r s = res at s1
  obtain ⟨n1, ok⟩ := res
  cases ok with
  | false => exact s1
  | true =>
    simp only
    split
    · split
      · exact s1
      · rename_i b _
        exact s1.trans (finHandlers_step n1 b)
    · exact s1

theorem doGfin_step (n : Node) (id r s : Nat) : Step n (doGfin {} n id r s).1 1 := by
  unfold doGfin
  simp only
  let n3 := ((n.put (.jcp id)).put (.pv r s)).put (.pc r s)
  have s3 : Step n n3 0 :=
    ((Step.put (w := .jcp id) (fun _ => trivial)).trans (Step.put (w := .pv r s) (fun _ => trivial))).trans
      (Step.put (w := .pc r s) (fun _ => trivial))
  split
  · exact s3.mono (by omega)
  · have s4 := doFin_step n3 id r s
    generalize doFin {} n3 id r s = res at s4
    obtain ⟨n4, ok, str⟩ := res
    cases ok with
    | false => simpa using s3.trans s4
    | true =>
      have s5 : Step n4 (n4.put (.lfr r)) 0 := Step.put (w := .lfr r) (fun _ => trivial)
      simpa using (s3.trans s4).trans s5

theorem define_root {n : Node} {id parent k v : Nat} {b : Hdr} {pr : Nat} {dirty : Bool}
    (h : define n id parent k v = some (b, pr, dirty)) : dirty = false → b.root = pr := by
  unfold define at h
  split at h
  · cases h
  · rename_i p _
    simp only at h
    split at h
    · rename_i b' _
      split at h
      · rename_i hc
        cases h
        intro hd
        have : ¬ (setKey p.root k v ≠ p.root) := by simpa using hd
        rw [hc.2.1]; exact Classical.not_not.mp this
      · cases h
    · cases h
      intro hd
      have : ¬ (setKey p.root k v ≠ p.root) := by simpa using hd
      exact Classical.not_not.mp this

theorem step_step (n : Node) (op : Op) : Step n (step {} n op) 1 := by
  unfold step
  cases op with
  | imp id parent k v chg ne nc =>
    simp only [step?]
    cases hdef : define n id parent k v with
    | none => exact (Step.refl n).mono (by omega)
    | some t =>
      obtain ⟨b, pr, dirty⟩ := t
      simp only
      let n1 : Node := if n.defs.any (fun x => x.id = id) then n else { n with defs := n.defs ++ [b] }
      have s0 : Step n n1 0 := by
        by_cases hc : n.defs.any (fun x => x.id = id) = true
        · simp only [n1, hc, if_true]; exact Step.refl _
        · simp only [n1, hc]; exact Step.same rfl rfl (fun _ h => h) rfl
      have := s0.trans (doImport_step n1 b pr dirty chg ne nc (define_root hdef))
      exact this.mono (by omega)
  | fin id r s =>
    simp only [step?]
    exact doFin_step n id r s
  | gfin id r s =>
    simp only [step?]
    exact doGfin_step n id r s
  | just id =>
    simp only [step?]
    exact (Step.put (w := .jcp id) (fun _ => trivial)).mono (by simp [hrsW])
  | pv r s =>
    simp only [step?]
    exact (Step.put (w := .pv r s) (fun _ => trivial)).mono (by simp [hrsW])
  | pc r s =>
    simp only [step?]
    exact (Step.put (w := .pc r s) (fun _ => trivial)).mono (by simp [hrsW])
  | lr r =>
    simp only [step?]
    exact (Step.put (w := .lfr r) (fun _ => trivial)).mono (by simp [hrsW])

end Gossamer.C36
