/-
C19 helper lemmas: base selection, the GHOST walk, the visited-headers loop.
-/
import Gossamer.Model.C19
import Gossamer.Lib.C19Chain
import Gossamer.Lib.C19Voters
import Gossamer.Lib.C19Tracker
namespace Gossamer.C19

/-! ### lowest precommit -/

theorem minPre_spec : ∀ (l : List Pre) (b : Pre), minPre l = some b →
    b ∈ l ∧ ∀ p ∈ l, b.num ≤ p.num := by
  intro l
  induction l with
  | nil => intro b h; simp [minPre] at h
  | cons p ps ih =>
    intro b h
    simp only [minPre] at h
    cases hm : minPre ps with
    | none =>
      simp only [hm, Option.some.injEq] at h
      subst h
      have : ps = [] := by
        cases ps with
        | nil => rfl
        | cons q qs => simp only [minPre] at hm; split at hm <;> (try split at hm) <;> simp at hm
      subst this
      simp
    | some q =>
      simp only [hm] at h
      obtain ⟨hq, hall⟩ := ih q hm
      split at h
      · simp only [Option.some.injEq] at h; subst h
        refine ⟨by simp [hq], ?_⟩
        intro x hx
        rcases List.mem_cons.1 hx with rfl | hx
        · omega
        · exact hall x hx
      · simp only [Option.some.injEq] at h; subst h
        refine ⟨by simp, ?_⟩
        intro x hx
        rcases List.mem_cons.1 hx with rfl | hx
        · omega
        · have := hall x hx; omega

theorem minPre_none {l : List Pre} (h : minPre l = none) : l = [] := by
  cases l with
  | nil => rfl
  | cons q qs => simp only [minPre] at h; split at h <;> (try split at h) <;> simp at h

theorem minPre_isSome {l : List Pre} (h : l ≠ []) : ∃ b, minPre l = some b := by
  cases hm : minPre l with
  | none => exact absurd (minPre_none hm) h
  | some b => exact ⟨b, rfl⟩

theorem lastMin_spec : ∀ (l : List Pre) (m r : Pre), lastMin (some m) l = some r →
    (r = m ∨ r ∈ l) ∧ r.num ≤ m.num ∧ ∀ p ∈ l, r.num ≤ p.num := by
  intro l
  induction l with
  | nil => intro m r h; simp [lastMin] at h; subst h; simp
  | cons p ps ih =>
    intro m r h
    simp only [lastMin] at h
    split at h
    · obtain ⟨a, b, d⟩ := ih p r h
      refine ⟨?_, by omega, ?_⟩
      · rcases a with a | a
        · right; simp [a]
        · right; simp [a]
      · intro x hx
        rcases List.mem_cons.1 hx with rfl | hx
        · exact b
        · exact d x hx
    · obtain ⟨a, b, d⟩ := ih m r h
      refine ⟨?_, b, ?_⟩
      · rcases a with a | a
        · left; exact a
        · right; simp [a]
      · intro x hx
        rcases List.mem_cons.1 hx with rfl | hx
        · omega
        · exact d x hx

theorem lastMin_none_spec {l : List Pre} {r : Pre} (h : lastMin none l = some r) :
    r ∈ l ∧ ∀ p ∈ l, r.num ≤ p.num := by
  cases l with
  | nil => simp [lastMin] at h
  | cons p ps =>
    simp only [lastMin] at h
    obtain ⟨a, b, d⟩ := lastMin_spec ps p r h
    refine ⟨?_, ?_⟩
    · rcases a with a | a
      · simp [a]
      · simp [a]
    · intro x hx
      rcases List.mem_cons.1 hx with rfl | hx
      · exact b
      · exact d x hx

theorem lastMin_isSome : ∀ (l : List Pre) (m : Pre), ∃ r, lastMin (some m) l = some r := by
  intro l
  induction l with
  | nil => intro m; exact ⟨m, rfl⟩
  | cons p ps ih =>
    intro m
    simp only [lastMin]
    split
    · exact ih p
    · exact ih m

/-! ### visited headers -/

theorem pathTo_self (c : Chain) (b : Nat) : pathTo c b b = some [] := by
  simp [pathTo, pathAux]

theorem visitLoop_spec (c : Chain) (base : Nat) : ∀ (l : List Pre) (vis vis' : List Nat),
    visitLoop c base l vis = .ok vis' →
    (∀ p ∈ l, p.sigok = true ∧ ∃ path, pathTo c base p.blk = some path) ∧
    (∀ h, h ∈ vis' ↔ h ∈ vis ∨ ∃ p ∈ l, ∃ path, pathTo c base p.blk = some path ∧ h ∈ path) := by
  intro l
  induction l with
  | nil =>
    intro vis vis' h
    simp only [visitLoop, Except.ok.injEq] at h
    subst h
    simp
  | cons p ps ih =>
    intro vis vis' h
    simp only [visitLoop] at h
    split at h
    · simp at h
    · rename_i hsig
      have hsig : p.sigok = true := by simpa using hsig
      split at h
      · rename_i hb
        obtain ⟨a, b⟩ := ih vis vis' h
        refine ⟨?_, ?_⟩
        · intro x hx
          rcases List.mem_cons.1 hx with rfl | hx
          · exact ⟨hsig, [], by rw [← hb]; exact pathTo_self c base⟩
          · exact a x hx
        · intro hh
          rw [b hh]
          constructor
          · rintro (h1 | ⟨x, hx, path, hp, hm⟩)
            · exact Or.inl h1
            · exact Or.inr ⟨x, by simp [hx], path, hp, hm⟩
          · rintro (h1 | ⟨x, hx, path, hp, hm⟩)
            · exact Or.inl h1
            · rcases List.mem_cons.1 hx with rfl | hx
              · rw [← hb, pathTo_self] at hp
                simp only [Option.some.injEq] at hp
                subst hp; simp at hm
              · exact Or.inr ⟨x, hx, path, hp, hm⟩
      · cases hpt : pathTo c base p.blk with
        | none => simp [hpt] at h
        | some path =>
          simp only [hpt] at h
          obtain ⟨a, b⟩ := ih _ vis' h
          refine ⟨?_, ?_⟩
          · intro x hx
            rcases List.mem_cons.1 hx with rfl | hx
            · exact ⟨hsig, path, hpt⟩
            · exact a x hx
          · intro hh
            rw [b hh]
            constructor
            · rintro (h1 | ⟨x, hx, path', hp, hm⟩)
              · rcases List.mem_append.1 h1 with h1 | h1
                · exact Or.inr ⟨p, by simp, path, hpt, h1⟩
                · exact Or.inl h1
              · exact Or.inr ⟨x, by simp [hx], path', hp, hm⟩
            · rintro (h1 | ⟨x, hx, path', hp, hm⟩)
              · exact Or.inl (List.mem_append_right _ h1)
              · rcases List.mem_cons.1 hx with rfl | hx
                · rw [hpt] at hp
                  simp only [Option.some.injEq] at hp
                  subst hp
                  exact Or.inl (List.mem_append_left _ hm)
                · exact Or.inr ⟨x, hx, path', hp, hm⟩

theorem visitLoop_error (c : Chain) (base : Nat) : ∀ (l : List Pre) (vis : List Nat) (e : JRes),
    visitLoop c base l vis = .error e → e = .errSig ∨ e = .errAncestry := by
  intro l
  induction l with
  | nil => intro vis e h; simp [visitLoop] at h
  | cons p ps ih =>
    intro vis e h
    simp only [visitLoop] at h
    split at h
    · simp only [Except.error.injEq] at h; left; exact h.symm
    · split at h
      · exact ih _ _ h
      · cases hpt : pathTo c base p.blk with
        | none => simp only [hpt, Except.error.injEq] at h; right; exact h.symm
        | some path => simp only [hpt] at h; exact ih _ _ h

theorem visitLoop_ok (c : Chain) (base : Nat) : ∀ (l : List Pre) (vis : List Nat),
    (∀ p ∈ l, p.sigok = true ∧ ∃ path, pathTo c base p.blk = some path) →
    ∃ vis', visitLoop c base l vis = .ok vis' := by
  intro l
  induction l with
  | nil => intro vis _; exact ⟨vis, rfl⟩
  | cons p ps ih =>
    intro vis h
    obtain ⟨hsig, path, hpath⟩ := h p (by simp)
    have hrest : ∀ q ∈ ps, q.sigok = true ∧ ∃ path, pathTo c base q.blk = some path :=
      fun q hq => h q (by simp [hq])
    simp only [visitLoop, hsig, Bool.not_true, Bool.false_eq_true, if_false]
    split
    · exact ih vis hrest
    · simp only [hpath]; exact ih _ hrest

theorem sameSet_iff (a b : List Nat) : sameSet a b = true ↔ ∀ h, h ∈ a ↔ h ∈ b := by
  unfold sameSet
  simp only [Bool.and_eq_true, List.all_eq_true, decide_eq_true_eq]
  constructor
  · rintro ⟨h1, h2⟩ h; exact ⟨h1 h, h2 h⟩
  · intro h; exact ⟨fun x hx => (h x).1 hx, fun x hx => (h x).2 hx⟩

/-! ### the GHOST walk -/

def LegalPick (pick : List Nat → Nat) : Prop := ∀ l, l ≠ [] → pick l ∈ l

theorem mem_dedup (l : List Nat) (x : Nat) : x ∈ dedup l ↔ x ∈ l := by
  induction l with
  | nil => simp [dedup]
  | cons y ys ih =>
    simp only [dedup]
    split
    · rename_i hy
      rw [ih]
      constructor
      · intro h; simp [h]
      · intro h
        rcases List.mem_cons.1 h with rfl | h
        · exact hy
        · exact h
    · simp [ih]

theorem mem_children {c : Chain} {tr : List Tracked} {cur x : Nat} :
    x ∈ children c tr cur ↔ ∃ t ∈ tr, childToward c cur t.first.blk = some x := by
  unfold children
  rw [mem_dedup, List.mem_filterMap]

theorem mem_condChildren {vs : VoterSet} {c : Chain} {tr : List Tracked} {cur x : Nat} :
    x ∈ condChildren vs c tr cur ↔ x ∈ children c tr cur ∧ vs.threshold ≤ weightOn vs c tr x := by
  unfold condChildren
  simp [List.mem_filter]

/-- facts about where the walk ends, for a pick that returns an element of its argument -/
theorem walk_spec {pick : List Nat → Nat} (hp : LegalPick pick) (vs : VoterSet) (c : Chain)
    (tr : List Tracked) : ∀ (f start : Nat),
    let g := walk pick vs c tr f start
    desc c start g = true ∧
    (vs.threshold ≤ weightOn vs c tr start → vs.threshold ≤ weightOn vs c tr g) ∧
    (g = start ∨ ∃ t ∈ tr, desc c g t.first.blk = true) := by
  intro f
  induction f with
  | zero => intro start; simp [walk, desc_refl]
  | succ f ih =>
    intro start
    simp only [walk]
    cases hcc : condChildren vs c tr start with
    | nil => simp [desc_refl]
    | cons x xs =>
      simp only
      have hm : pick (x :: xs) ∈ condChildren vs c tr start := by
        rw [hcc]; exact hp _ (by simp)
      obtain ⟨hch, hw⟩ := mem_condChildren.1 hm
      obtain ⟨t, ht, hct⟩ := mem_children.1 hch
      obtain ⟨hstep, hdesc⟩ := childToward_spec hct
      obtain ⟨a, b, d⟩ := ih (pick (x :: xs))
      refine ⟨?_, fun _ => b hw, ?_⟩
      · exact desc_trans (desc_iff.2 (Up.step hstep (Up.refl _))) a
      · right
        rcases d with d | d
        · rw [d]; exact ⟨t, ht, hdesc⟩
        · exact d

/-- fuel needed to walk down from `cur` as far as the tree goes -/
def down (c : Chain) (cur : Nat) : Nat :=
  if cur < c.par.length then c.par.length - cur else if cur = c.par.length then c.par.length + 1 else 0

theorem down_le (c : Chain) (cur : Nat) : down c cur ≤ c.par.length + 1 := by
  unfold down; split <;> (try split) <;> omega

/-- with enough fuel the walk ends at a block without a qualifying child -/
theorem walk_terminal {pick : List Nat → Nat} (hp : LegalPick pick) (vs : VoterSet) (c : Chain)
    (tr : List Tracked) : ∀ (f cur : Nat), down c cur ≤ f →
    condChildren vs c tr (walk pick vs c tr f cur) = [] := by
  intro f
  induction f with
  | zero =>
    intro cur hd
    simp only [walk]
    apply List.eq_nil_iff_forall_not_mem.2
    intro x hx
    obtain ⟨t, _, hct⟩ := mem_children.1 (mem_condChildren.1 hx).1
    have := step_some (childToward_spec hct).1
    unfold down at hd
    split at hd <;> (try split at hd) <;> omega
  | succ f ih =>
    intro cur hd
    simp only [walk]
    cases hcc : condChildren vs c tr cur with
    | nil => simpa using hcc
    | cons y ys =>
      simp only
      have hm : pick (y :: ys) ∈ condChildren vs c tr cur := by rw [hcc]; exact hp _ (by simp)
      obtain ⟨t, _, hct⟩ := mem_children.1 (mem_condChildren.1 hm).1
      have hs := step_some (childToward_spec hct).1
      apply ih
      unfold down at hd ⊢
      split at hd <;> (try split at hd) <;> simp only [hs.1, if_true] <;> omega

end Gossamer.C19
