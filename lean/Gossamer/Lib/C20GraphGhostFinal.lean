/-
C20 layer (b), proofs: **`FindGHOST` on the compressed graph returns what `findGhost` returns on the uncompressed
one** – for monotone conditions with at most one good child per block, from no current best, from a vote-node and
from a block inside ancestor edges (the `forceConstrain` path).
-/
import Gossamer.Lib.C20GraphGhostRef
namespace Gossamer.C20

variable {t : Tree}

/-- `FindGHOST` after the start node has been determined -/
def ghostTail (g : Graph) (fuel : Nat) (cur : Option (Nat × Nat)) (cond : Mask → Bool) (start : Nat × Bool) :
    Option (Nat × Nat) :=
  match g.entries start.1 with
  | none => none
  | some active0 =>
    if !cond active0.cum then none else
    some (g.mergePoint fuel (g.bfs cur cond fuel start.1 active0 start.2).1
      (g.bfs cur cond fuel start.1 active0 start.2).2.1
      (if (g.bfs cur cond fuel start.1 active0 start.2).2.2 then cur else none) cond)

def ghostStartC (key : Nat → Nat) (fuel : Nat) (g : Graph) (cur : Option (Nat × Nat)) : Nat × Bool :=
  match cur with
  | none => (0, false)
  | some (h, n) =>
    match g.findContaining key fuel h n with
    | none => (h, false)
    | some (c :: _) =>
      match (g.entries c).bind Entry.ancestorNode with
      | some a => (a, true)
      | none => (0, false)
    | some [] => (0, false)

theorem findGhost_unfold (key : Nat → Nat) (fuel : Nat) (g : Graph) (cur : Option (Nat × Nat))
    (cond : Mask → Bool) :
    g.findGhost key fuel cur cond = ghostTail g fuel cur cond (ghostStartC key fuel g cur) := by
  unfold Graph.findGhost ghostTail ghostStartC
  rfl

/-- the search from a vote-node `v` (no constraint): `none` iff `v` fails the condition, otherwise its `Top` -/
theorem ghostTail_node (h : t.WF) {ins : Ins} {g : Graph} (inv : GInv t ins g) (key : Nat → Nat)
    {cond : Mask → Bool} (hm : MonoCond cond) (cur : Option (Nat × Nat)) (v : Nat)
    (hv : isNode ins v = true) :
    (cond (cumOf t ins v) = false ∧ ghostTail g (t.size + 1) cur cond (v, false) = none) ∨
    (cond (cumOf t ins v) = true ∧ ∃ D, ghostTail g (t.size + 1) cur cond (v, false) = some (D, t.num D) ∧
      Top t (cumOf t ins) cond v D) := by
  obtain ⟨ev, hev⟩ := inv.entry_of_node hv
  unfold ghostTail
  simp only [hev, inv.cum v ev hev]
  cases hc : cond (cumOf t ins v) with
  | false => left; simp
  | true =>
    right
    obtain ⟨b1, D, hD, hT⟩ := ghost_from_node h inv key hm cur (t.size + 1) v ev hev hc (by omega)
    refine ⟨rfl, D, ?_, hT⟩
    simp only [Bool.not_true, Bool.false_eq_true, if_false, b1]
    rw [hD]

end Gossamer.C20

namespace Gossamer.C20

variable {t : Tree}

/-- one constrained step of the breadth-first descent -/
theorem bfs_step_true (g : Graph) (ch cn : Nat) (cond : Mask → Bool) (f key : Nat) (active : Entry) :
    ∃ F : List (Nat × Entry),
      (∀ d e, (d, e) ∈ F ↔ (d ∈ active.descendants ∧ g.entries d = some e ∧
        e.inDirectAncestry ch cn = some true)) ∧
      g.bfs (some (ch, cn)) cond (f + 1) key active true =
        (match F.find? (fun p => cond p.2.cum) with
         | none => (key, active, true)
         | some (d, e) => g.bfs (some (ch, cn)) cond f d e false) := by
  refine ⟨active.descendants.filterMap (fun d =>
      match g.entries d with
      | none => none
      | some e =>
        match true, (some (ch, cn) : Option (Nat × Nat)) with
        | true, some (ch, cn) => if e.inDirectAncestry ch cn == some true then some (d, e) else none
        | _, _ => some (d, e)), ?_, rfl⟩
  intro d e
  simp only [List.mem_filterMap]
  constructor
  · rintro ⟨d', hd', hm'⟩
    cases hg : g.entries d' with
    | none => rw [hg] at hm'; cases hm'
    | some e' =>
      rw [hg] at hm'
      simp only at hm'
      split at hm'
      · rename_i hida
        have := Option.some.inj hm'
        obtain ⟨rfl, rfl⟩ := Prod.mk.inj this
        exact ⟨hd', hg, by simpa using hida⟩
      · cases hm'
  · rintro ⟨hd, hg, hida⟩
    refine ⟨d, hd, ?_⟩
    rw [hg]
    simp [hida]

/-- the entries that take part in the constrained merge -/
theorem mergePoint_constrained (g : Graph) (fuel key : Nat) (active : Entry) (fh fn : Nat) (cond : Mask → Bool) :
    ∃ L : List Entry,
      (∀ e, e ∈ L ↔ ∃ d, d ∈ active.descendants ∧ g.entries d = some e ∧
        e.inDirectAncestry fh fn = some true) ∧
      g.mergePoint fuel key active (some (fh, fn)) cond = mergeLoop cond fuel L key active.number := by
  refine ⟨active.descendants.filterMap (fun d =>
      match g.entries d with
      | none => none
      | some e =>
        match (some (fh, fn) : Option (Nat × Nat)) with
        | none => some e
        | some (fh, fn) => if e.inDirectAncestry fh fn == some true then some e else none), ?_, rfl⟩
  intro e
  simp only [List.mem_filterMap]
  constructor
  · rintro ⟨d', hd', hm'⟩
    cases hg : g.entries d' with
    | none => rw [hg] at hm'; cases hm'
    | some e' =>
      rw [hg] at hm'
      simp only at hm'
      split at hm'
      · rename_i hida
        have : e' = e := Option.some.inj hm'
        subst this
        exact ⟨d', hd', hg, by simpa using hida⟩
      · cases hm'
  · rintro ⟨d, hd, hg, hida⟩
    refine ⟨d, hd, ?_⟩
    rw [hg]
    simp [hida]

/-- the search from a block `b` inside ancestor edges (start at the vote-node above, constrained to the
vote-nodes that contain `b`) ends at the `Top` of `b` -/
theorem ghostTail_constrained (h : t.WF) {ins : Ins} {g : Graph} (inv : GInv t ins g) (key : Nat → Nat)
    {cond : Mask → Bool} (hm : MonoCond cond) (b : Nat) (hN : isNode ins b = false) (hlt : b < t.size)
    (hok : cond (cumOf t ins b) = true) (a : Nat) (ha : ancNode t (isNode ins) b = some a)
    (hex : ∃ d, Containing t ins b d) :
    ∃ D, ghostTail g (t.size + 1) (some (b, t.num b)) cond (a, true) = some (D, t.num D) ∧
      Top t (cumOf t ins) cond b D := by
  have N0 := isNode_zero ins
  have hae : a ∈ edge t (isNode ins) b := by unfold ancNode at ha; exact List.mem_of_getLast? ha
  have hab : a ∈ t.chain b := edge_mem_chain h hae
  have hbpos : 0 < b := by
    rcases Nat.eq_zero_or_pos b with hz | hz
    · subst hz; rw [N0] at hN; cases hN
    · exact hz
  obtain ⟨a', ha', haN, _⟩ := ancNode_some h N0 hbpos
  have : a' = a := by rw [ha] at ha'; exact (Option.some.inj ha').symm
  subst this
  obtain ⟨ea, hea⟩ := inv.entry_of_node haN
  have hanc_all : ∀ d, Containing t ins b d → ancNode t (isNode ins) d = some a' := by
    intro d hd
    rw [← (ancNode_add_of_mem h N0 hN hd.2).2.1]; exact ha
  have hin : inGraph (cumOf t ins) b = true := (inGraph_iff h inv b).2 (Or.inr hex)
  have haok : cond ea.cum = true := by rw [inv.cum a' ea hea]; exact cond_anc h ins hm hab hok
  -- descendants of `a'` with `b` on their edge = the vote-nodes containing `b`
  have hcont : ∀ d e, (d ∈ ea.descendants ∧ g.entries d = some e ∧
      e.inDirectAncestry b (t.num b) = some true) ↔ (Containing t ins b d ∧ g.entries d = some e) := by
    intro d e
    constructor
    · rintro ⟨_, hg, hida⟩
      exact ⟨⟨inv.node_of_entry hg,
        (inDirectAncestry_true h (inv.number d e hg) (inv.anc d e hg) b).1 hida⟩, hg⟩
    · rintro ⟨hc, hg⟩
      exact ⟨(inv.desc a' ea hea d).2 ⟨hc.1, hanc_all d hc⟩, hg,
        (inDirectAncestry_true h (inv.number d e hg) (inv.anc d e hg) b).2 hc.2⟩
  obtain ⟨F, hF, hbfs⟩ := bfs_step_true g b (t.num b) cond t.size a' ea
  unfold ghostTail
  simp only [hea, haok, Bool.not_true, Bool.false_eq_true, if_false]
  rw [hbfs]
  cases hfind : F.find? (fun p => cond p.2.cum) with
  | some p =>
    obtain ⟨d, e⟩ := p
    simp only
    obtain ⟨hc, hg⟩ := (hcont d e).1 ((hF d e).1 (List.mem_of_find?_eq_some hfind))
    have hdok : cond (cumOf t ins d) = true := by
      rw [← inv.cum d e hg]; simpa using List.find?_some hfind
    have hdpos : 0 < d := by
      rcases Nat.eq_zero_or_pos d with hz | hz
      · subst hz; have := hc.2; simp [edge_zero] at this
      · exact hz
    obtain ⟨b1, D, hD, hT⟩ := ghost_from_node h inv key hm (some (b, t.num b)) t.size d e hg hdok (by omega)
    refine ⟨D, ?_, Tree.le_trans h (edge_mem_chain h hc.2) hT.above, hT.lt, hT.inG, hT.ok, hT.stop⟩
    simp only [b1, Bool.false_eq_true, if_false]
    rw [hD]
  | none =>
    simp only [if_true]
    obtain ⟨L, hL, hmp⟩ := mergePoint_constrained g (t.size + 1) a' ea b (t.num b) cond
    rw [hmp]
    have hL' : ∀ e, e ∈ L ↔ ∃ d, Containing t ins b d ∧ g.entries d = some e := by
      intro e
      rw [hL e]
      constructor
      · rintro ⟨d, hd, hg, hida⟩; exact ⟨d, (hcont d e).1 ⟨hd, hg, hida⟩⟩
      · rintro ⟨d, hc⟩; obtain ⟨h1, h2, h3⟩ := (hcont d e).2 hc; exact ⟨d, h1, h2, h3⟩
    have ci : CInv t ins g cond b L := by
      refine ⟨fun e he => by obtain ⟨d, hc, hg⟩ := (hL' e).1 he; exact ⟨d, hg, hc⟩, fun d hd => ?_, ?_⟩
      · obtain ⟨e, he⟩ := inv.entry_of_node hd.1
        exact ⟨e, (hL' e).2 ⟨d, hd, he⟩, he⟩
      · intro e he
        obtain ⟨d, hc, hg⟩ := (hL' e).1 he
        have := List.find?_eq_none.1 hfind (d, e) ((hF d e).2 ((hcont d e).2 ⟨hc, hg⟩))
        simpa using this
    have h2 : 2 ≤ L.length := by
      have hcum := cinv_cum h inv key ci hN
      cases hLc : L with
      | nil =>
        obtain ⟨d, hd⟩ := hex
        obtain ⟨e, he, _⟩ := ci.compl d hd
        rw [hLc] at he; simp at he
      | cons e1 rest =>
        cases rest with
        | nil =>
          exfalso
          rw [hLc] at hcum
          have hc1 : e1.cum = cumOf t ins b := by rw [← hcum]; simp [orCum]
          have := ci.fail e1 (by rw [hLc]; simp)
          rw [hc1, hok] at this; cases this
        | cons e2 rest2 => simp
    obtain ⟨D, hD, hT⟩ := mergeLoop_constrained h inv key hm ci hN hlt hok hin h2 (t.size + 1) a' hab
      (fun d hd => by
        have := hanc_all d hd
        unfold ancNode at this; exact List.mem_of_getLast? this) (by omega)
    rw [inv.number a' ea hea]
    exact ⟨D, by rw [hD], hT⟩

end Gossamer.C20

namespace Gossamer.C20

variable {t : Tree}

/-- **what `FindGHOST` returns** (monotone condition; a current best block that, when it is in the graph, meets
the condition): nothing when the start block fails the condition, otherwise the `Top` of the start block with its
block number.  The start block is the one the uncompressed `findGhost` starts from. -/
theorem findGhostC_top (h : t.WF) {ins : Ins} {g : Graph} (inv : GInv t ins g) (key : Nat → Nat)
    {cond : Mask → Bool} (hm : MonoCond cond) (cur : Option Nat)
    (hcur : ∀ b, cur = some b → b < t.size ∧ (inGraph (cumOf t ins) b = true → cond (cumOf t ins b) = true)) :
    ghostStart (cumOf t ins) cur < t.size ∧ inGraph (cumOf t ins) (ghostStart (cumOf t ins) cur) = true ∧
    ((cond (cumOf t ins (ghostStart (cumOf t ins) cur)) = false ∧
        g.findGhost key (t.size + 1) (cur.map (fun b => (b, t.num b))) cond = none) ∨
     (cond (cumOf t ins (ghostStart (cumOf t ins) cur)) = true ∧
        ∃ D, g.findGhost key (t.size + 1) (cur.map (fun b => (b, t.num b))) cond = some (D, t.num D) ∧
          Top t (cumOf t ins) cond (ghostStart (cumOf t ins) cur) D)) := by
  have N0 := isNode_zero ins
  rw [findGhost_unfold]
  cases cur with
  | none =>
    simp only [Option.map_none, ghostStartC, ghostStart]
    exact ⟨h.1, by simp [inGraph], ghostTail_node h inv key hm none 0 N0⟩
  | some b =>
    obtain ⟨hblt, hbok⟩ := hcur b rfl
    simp only [Option.map_some]
    obtain ⟨c1, c2⟩ := findContaining_spec h inv key b
    cases hN : isNode ins b with
    | true =>
      have hstart : ghostStartC key (t.size + 1) g (some (b, t.num b)) = (b, false) := by
        simp only [ghostStartC, c1 hN]
      rw [hstart]
      have hbin : inGraph (cumOf t ins) b = true := (inGraph_iff h inv b).2 (Or.inl hN)
      have hs : ghostStart (cumOf t ins) (some b) = b := by simp [ghostStart, hbin]
      rw [hs]
      exact ⟨hblt, hbin, ghostTail_node h inv key hm _ b hN⟩
    | false =>
      obtain ⟨R, hR, _, hmem⟩ := c2 hN
      cases R with
      | nil =>
        have hstart : ghostStartC key (t.size + 1) g (some (b, t.num b)) = (0, false) := by
          simp only [ghostStartC, hR]
        rw [hstart]
        have hbout : inGraph (cumOf t ins) b = false := by
          cases hg : inGraph (cumOf t ins) b with
          | false => rfl
          | true =>
            rcases (inGraph_iff h inv b).1 hg with hn | ⟨d, hd⟩
            · rw [hn] at hN; cases hN
            · have := (hmem d).2 hd; simp at this
        have hs : ghostStart (cumOf t ins) (some b) = 0 := by simp [ghostStart, hbout]
        rw [hs]
        exact ⟨h.1, by simp [inGraph], ghostTail_node h inv key hm _ 0 N0⟩
      | cons c0 rest =>
        have hc0 := (hmem c0).1 List.mem_cons_self
        obtain ⟨e0, he0⟩ := inv.entry_of_node hc0.1
        have hbpos : 0 < b := by
          rcases Nat.eq_zero_or_pos b with hz | hz
          · subst hz; rw [N0] at hN; cases hN
          · exact hz
        obtain ⟨a, ha, _, _⟩ := ancNode_some h N0 hbpos
        have hanc0 : e0.ancestorNode = some a := by
          rw [inv.ancestorNode_eq he0, ← (ancNode_add_of_mem h N0 hN hc0.2).2.1]; exact ha
        have hstart : ghostStartC key (t.size + 1) g (some (b, t.num b)) = (a, true) := by
          simp only [ghostStartC, hR, he0, Option.bind_some, hanc0]
        rw [hstart]
        have hbin : inGraph (cumOf t ins) b = true := (inGraph_iff h inv b).2 (Or.inr ⟨c0, hc0⟩)
        have hok := hbok hbin
        have hs : ghostStart (cumOf t ins) (some b) = b := by simp [ghostStart, hbin]
        rw [hs]
        obtain ⟨D, hD, hT⟩ := ghostTail_constrained h inv key hm b hN hblt hok a ha ⟨c0, hc0⟩
        exact ⟨hblt, hbin, Or.inr ⟨hok, D, hD, hT⟩⟩

/-- **`FindGHOST` refines `findGhost`**: for a monotone condition with at most one good child per block, and a
current best block that (when it is in the graph) meets the condition -/
theorem findGhost_refines (h : t.WF) {ins : Ins} {g : Graph} (inv : GInv t ins g) (key : Nat → Nat)
    {cond : Mask → Bool} (hm : MonoCond cond) (hu : UniqChild t (cumOf t ins) cond) (cur : Option Nat)
    (hcur : ∀ b, cur = some b → b < t.size ∧ (inGraph (cumOf t ins) b = true → cond (cumOf t ins b) = true)) :
    g.findGhost key (t.size + 1) (cur.map (fun b => (b, t.num b))) cond =
      (findGhost t (cumOf t ins) cur cond).map (fun D => (D, t.num D)) := by
  obtain ⟨hslt, hsin, hcase⟩ := findGhostC_top h inv key hm cur hcur
  have htop := findGhost_top h (cumOf t ins) cur cond hslt hsin
  rcases hcase with ⟨hc, ht⟩ | ⟨hc, D, ht, hT⟩
  · rw [findGhost_eq, hc, ht]; rfl
  · cases hf : findGhost t (cumOf t ins) cur cond with
    | none =>
      rw [hf] at htop
      rw [hc] at htop; cases htop
    | some D' =>
      rw [hf] at htop
      have : D = D' := top_unique h ins hm hu (t.num D) _ D D' (by omega) hT htop
      rw [ht, this]; rfl

end Gossamer.C20
