/-
Driver-side text layer for the SCALE properties (C11, C12): the type / value syntax of the Go
harness (harness/C11/c11_lib_test.go) parsed into `Ty` / `Val`.  Struct fields are given in Go
declaration order with their tags and are permuted into encoding order with the MODEL's
`fieldOrder` (scale.go `fieldScaleIndices`).  Not part of any theorem.
-/
import Gossamer.Base.Proto
import Gossamer.Model.C11
namespace Gossamer.ScaleText
open Gossamer Gossamer.Scale

/-- types as written on a case line -/
inductive GTy
  | prim (p : Prim)
  | unit
  | opt (t : GTy)
  | res (a b : GTy)
  | arr (n : Nat) (t : GTy)
  | seq (t : GTy)
  | st (fields : List (GTy × C11.FieldTag))
  | en (vs : List (Nat × GTy))
deriving Inhabited

abbrev P (α : Type) := List Char → Option (α × List Char)

def eat (c : Char) : P Unit
  | d :: cs => if c = d then some ((), cs) else none
  | [] => none

def takeWhile (f : Char → Bool) (cs : List Char) : List Char × List Char := (cs.takeWhile f, cs.dropWhile f)

def lower (c : Char) : Bool := ('a' ≤ c ∧ c ≤ 'z') ∨ c.isDigit
def upperOrDigit (c : Char) : Bool := ('A' ≤ c ∧ c ≤ 'Z') ∨ c.isDigit

def natOfDigits (ds : List Char) : Nat := ds.foldl (fun a c => a * 10 + (c.toNat - 48)) 0

/-- optional sign, digits -/
def number : P Int
  | '-' :: cs =>
    let (ds, r) := takeWhile Char.isDigit cs
    if ds.isEmpty then none else some (- (natOfDigits ds : Int), r)
  | cs =>
    let (ds, r) := takeWhile Char.isDigit cs
    if ds.isEmpty then none else some ((natOfDigits ds : Int), r)

def primOfName : String → Option Prim
  | "u8" => some .u8 | "u16" => some .u16 | "u32" => some .u32 | "u64" => some .u64 | "u128" => some .u128
  | "i8" => some .i8 | "i16" => some .i16 | "i32" => some .i32 | "i64" => some .i64
  | "cu" => some .compact | "big" => some .big | "bool" => some .bool | "bytes" => some .bytes
  | "str" => some .str | _ => none

mutual
partial def pTy (cs : List Char) : Option (GTy × List Char) :=
  let (idc, r) := takeWhile lower cs
  let id := String.ofList idc
  match primOfName id with
  | some p => match r with
    | '\'' :: r' => some (.prim p, r')
    | _ => some (.prim p, r)
  | none =>
    if id = "unit" then some (.unit, r)
    else if id = "opt" ∨ id = "seq" then do
      let (_, r) ← eat '(' r
      let (t, r) ← pTy r
      let (_, r) ← eat ')' r
      pure (if id = "opt" then .opt t else .seq t, r)
    else if id = "res" then do
      let (_, r) ← eat '(' r
      let (a, r) ← pTy r
      let (_, r) ← eat ',' r
      let (b, r) ← pTy r
      let (_, r) ← eat ')' r
      pure (.res a b, r)
    else if id.startsWith "arr" then do
      let n := natOfDigits (idc.drop 3)
      let (_, r) ← eat '(' r
      let (t, r) ← pTy r
      let (_, r) ← eat ')' r
      pure (.arr n t, r)
    else if id = "st" then do
      let r := match r with | '#' :: r' => (takeWhile upperOrDigit r').2 | _ => r
      let (_, r) ← eat '(' r
      let (fs, r) ← pFields r
      pure (.st fs, r)
    else if id = "en" then do
      let r := match r with | '#' :: r' => (takeWhile upperOrDigit r').2 | _ => r
      let (_, r) ← eat '(' r
      let (vs, r) ← pVariants r
      pure (.en vs, r)
    else none

partial def pFields (cs : List Char) : Option (List (GTy × C11.FieldTag) × List Char) :=
  match cs with
  | ')' :: r => some ([], r)
  | ',' :: r => pFields r
  | _ => do
    let (t, r) ← pTy cs
    let (tag, r) ← (match r with
      | '@' :: '-' :: r' =>
        (match r' with
         | d :: _ => if d.isDigit then (number ('-' :: r')).map (fun (k, r'') => (some (some k), r''))
                     else some (some none, r')
         | [] => some (some none, r'))
      | '@' :: r' => (number r').map (fun (k, r'') => (some (some k), r''))
      | _ => some (none, r) : Option (C11.FieldTag × List Char))
    let (fs, r) ← pFields r
    pure ((t, tag) :: fs, r)

partial def pVariants (cs : List Char) : Option (List (Nat × GTy) × List Char) :=
  match cs with
  | ')' :: r => some ([], r)
  | ',' :: r => pVariants r
  | _ => do
    let (k, r) ← number cs
    let (_, r) ← eat ':' r
    let (t, r) ← pTy r
    let (vs, r) ← pVariants r
    pure ((k.toNat, t) :: vs, r)
end

/-- reorder by the model's field order (skipped fields dropped) -/
def permute {α : Type} [Inhabited α] (tags : List C11.FieldTag) (xs : List α) : List α :=
  (C11.fieldOrder tags).map (fun i => xs.getD i default)

partial def GTy.toTy : GTy → Ty
  | .prim p => .prim p
  | .unit => .unit
  | .opt t => .option t.toTy
  | .res a b => .result a.toTy b.toTy
  | .arr n t => .array n t.toTy
  | .seq t => .seq t.toTy
  | .st fs =>
    let tys := permute (fs.map (·.2)) (fs.map (fun f => f.1.toTy))
    tys.foldr Ty.pair Ty.unit
  | .en vs => vs.foldr (fun (k, t) acc => Ty.enumCons k t.toTy acc) Ty.enumNil

def hexChar (c : Char) : Bool := c.isDigit ∨ ('a' ≤ c ∧ c ≤ 'f')

mutual
/-- parse a value of the given type; struct values arrive in Go declaration order and are put
    into encoding order -/
partial def pVal (t : GTy) (cs : List Char) : Option (Val × List Char) :=
  match t with
  | .prim p =>
    match p.kind with
    | .bool => match cs with
      | 't' :: r => some (.bool true, r)
      | 'f' :: r => some (.bool false, r)
      | _ => none
    | .bytes => match cs with
      | 'x' :: r =>
        let (h, r') := takeWhile hexChar r
        (ofHexChars? h).map (fun b => (.bytes b, r'))
      | _ => none
    | .sint _ => (number cs).map (fun (k, r) => (.int k, r))
    | _ => (number cs).map (fun (k, r) => (.nat k.toNat, r))
  | .unit => (eat 'u' cs).map (fun (_, r) => (.unit, r))
  | .opt t' => match cs with
    | 'N' :: r => some (.none, r)
    | 'S' :: r => (pVal t' r).map (fun (v, r') => (.some v, r'))
    | _ => none
  | .res a b => match cs with
    | 'O' :: r => (pVal a r).map (fun (v, r') => (.ok v, r'))
    | 'E' :: r => (pVal b r).map (fun (v, r') => (.err v, r'))
    | _ => none
  | .arr _ t' | .seq t' => do
    let (_, r) ← eat '[' cs
    let (vs, r) ← pList t' r
    pure (.list vs, r)
  | .st fs => do
    let (_, r) ← eat '(' cs
    let (vs, r) ← pTuple (fs.map (·.1)) r
    let vs := permute (fs.map (·.2)) vs
    pure (vs.foldr Val.pair Val.unit, r)
  | .en vs => do
    let (_, r) ← eat 'V' cs
    let (k, r) ← number r
    let (_, r) ← eat ':' r
    let t' ← (vs.find? (fun p => p.1 = k.toNat)).map (·.2)
    let (v, r) ← pVal t' r
    pure (.variant k.toNat v, r)

partial def pList (t : GTy) (cs : List Char) : Option (List Val × List Char) :=
  match cs with
  | ']' :: r => some ([], r)
  | ',' :: r => pList t r
  | _ => do
    let (v, r) ← pVal t cs
    let (vs, r) ← pList t r
    pure (v :: vs, r)

partial def pTuple (ts : List GTy) (cs : List Char) : Option (List Val × List Char) :=
  match ts, cs with
  | [], ')' :: r => some ([], r)
  | ts, ',' :: r => pTuple ts r
  | t :: ts, cs => do
    let (v, r) ← pVal t cs
    let (vs, r) ← pTuple ts r
    pure (v :: vs, r)
  | _, _ => none
end

def parseTy (s : String) : Option GTy :=
  match pTy s.toList with
  | some (t, []) => some t
  | _ => none

def parseVal (t : GTy) (s : String) : Option Val :=
  match pVal t s.toList with
  | some (v, []) => some v
  | _ => none

end Gossamer.ScaleText
