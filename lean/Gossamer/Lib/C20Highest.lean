/-
C20: the executable specification functions of `C20Spec` (`highest`-based: "the block of highest number
with …") coincide with the relational characterisations used in the proofs.
-/
import Gossamer.Lib.C20Possible
namespace Gossamer.C20

variable {t : Tree} {ws : List Nat}

def highestStep (t : Tree) (p : Nat → Bool) (best : Option Nat) (b : Nat) : Option Nat :=
  if p b then
    match best with
    | none => some b
    | some a => if depth t b > depth t a then some b else some a
  else best

theorem highest_eq (t : Tree) (p : Nat → Bool) :
    highest t p = (List.range t.size).foldl (highestStep t p) none := rfl

theorem foldl_highest (t : Tree) (p : Nat → Bool) : ∀ (l : List Nat) (init : Option Nat),
    (match l.foldl (highestStep t p) init with
     | none => init = none ∧ ∀ b, b ∈ l → p b = false
     | some a => ((a ∈ l ∧ p a = true) ∨ init = some a) ∧
                 (∀ b, b ∈ l → p b = true → depth t b ≤ depth t a) ∧
                 (∀ i, init = some i → depth t i ≤ depth t a)) := by
  intro l
  induction l with
  | nil =>
    intro init
    cases init with
    | none => simp
    | some a => simp
  | cons x l ih =>
    intro init
    simp only [List.foldl_cons]
    have := ih (highestStep t p init x)
    cases hr : l.foldl (highestStep t p) (highestStep t p init x) with
    | none =>
      rw [hr] at this
      obtain ⟨h1, h2⟩ := this
      unfold highestStep at h1
      by_cases hp : p x = true
      · simp only [hp, if_true] at h1
        cases init with
        | none => simp at h1
        | some a => simp only at h1; split at h1 <;> simp at h1
      · have hp' : p x = false := by simpa using hp
        simp only [hp', Bool.false_eq_true, if_false] at h1
        refine ⟨h1, ?_⟩
        intro b hb
        rcases List.mem_cons.1 hb with rfl | hb
        · exact hp'
        · exact h2 b hb
    | some a =>
      rw [hr] at this
      obtain ⟨h1, h2, h3⟩ := this
      unfold highestStep at h1 h3
      by_cases hp : p x = true
      · simp only [hp, if_true] at h1 h3
        cases init with
        | none =>
          simp only at h1 h3
          have hxa := h3 x rfl
          refine ⟨?_, ?_, by simp⟩
          · rcases h1 with ⟨hm, hpa⟩ | h1
            · exact Or.inl ⟨List.mem_cons_of_mem _ hm, hpa⟩
            · have : x = a := Option.some.inj h1
              subst this; exact Or.inl ⟨List.mem_cons_self, hp⟩
          · intro b hb hpb
            rcases List.mem_cons.1 hb with rfl | hb
            · exact hxa
            · exact h2 b hb hpb
        | some i =>
          simp only at h1 h3
          by_cases hd : depth t x > depth t i
          · simp only [hd, if_true] at h1 h3
            have hxa := h3 x rfl
            refine ⟨?_, ?_, ?_⟩
            · rcases h1 with ⟨hm, hpa⟩ | h1
              · exact Or.inl ⟨List.mem_cons_of_mem _ hm, hpa⟩
              · have : x = a := Option.some.inj h1
                subst this; exact Or.inl ⟨List.mem_cons_self, hp⟩
            · intro b hb hpb
              rcases List.mem_cons.1 hb with rfl | hb
              · exact hxa
              · exact h2 b hb hpb
            · intro j hj
              have : i = j := Option.some.inj hj
              subst this; omega
          · simp only [hd, if_false] at h1 h3
            have hia := h3 i rfl
            refine ⟨?_, ?_, ?_⟩
            · rcases h1 with ⟨hm, hpa⟩ | h1
              · exact Or.inl ⟨List.mem_cons_of_mem _ hm, hpa⟩
              · exact Or.inr h1
            · intro b hb hpb
              rcases List.mem_cons.1 hb with rfl | hb
              · omega
              · exact h2 b hb hpb
            · intro j hj
              have : i = j := Option.some.inj hj
              subst this; exact hia
      · have hp' : p x = false := by simpa using hp
        simp only [hp', Bool.false_eq_true, if_false] at h1 h3
        refine ⟨?_, ?_, h3⟩
        · rcases h1 with ⟨hm, hpa⟩ | h1
          · exact Or.inl ⟨List.mem_cons_of_mem _ hm, hpa⟩
          · exact Or.inr h1
        · intro b hb hpb
          rcases List.mem_cons.1 hb with rfl | hb
          · rw [hp'] at hpb; exact Bool.noConfusion hpb
          · exact h2 b hb hpb

theorem highest_none {p : Nat → Bool} (hn : highest t p = none) : ∀ b, b < t.size → p b = false := by
  have := foldl_highest t p (List.range t.size) none
  rw [← highest_eq, hn] at this
  intro b hb
  exact this.2 b (List.mem_range.2 hb)

theorem highest_some {p : Nat → Bool} {a : Nat} (hs : highest t p = some a) :
    a < t.size ∧ p a = true ∧ ∀ b, b < t.size → p b = true → depth t b ≤ depth t a := by
  have := foldl_highest t p (List.range t.size) none
  rw [← highest_eq, hs] at this
  obtain ⟨h1, h2, _⟩ := this
  rcases h1 with ⟨hm, hp⟩ | h1
  · exact ⟨List.mem_range.1 hm, hp, fun b hb hpb => h2 b (List.mem_range.2 hb) hpb⟩
  · cases h1

/-- if the blocks with `p` are blocks of the tree and pairwise comparable, `highest` is their top element -/
theorem highest_top (h : t.WF) {p : Nat → Bool} (hlt : ∀ b, p b = true → b < t.size)
    (hcmp : ∀ a b, p a = true → p b = true → a ∈ t.chain b ∨ b ∈ t.chain a) :
    match highest t p with
    | none => ∀ b, p b = false
    | some a => p a = true ∧ ∀ b, p b = true → b ∈ t.chain a := by
  cases hh : highest t p with
  | none =>
    intro b
    cases hb : p b
    · rfl
    · have := highest_none hh b (hlt b hb); rw [hb] at this; exact Bool.noConfusion this
  | some a =>
    obtain ⟨_, hpa, hmax⟩ := highest_some hh
    refine ⟨hpa, ?_⟩
    intro b hb
    rcases hcmp a b hpa hb with hab | hba
    · by_cases hne : a = b
      · subst hne; exact t.mem_chain_self a
      · have := Tree.depth_lt h hab hne
        have := hmax b (hlt b hb) hb
        unfold depth at *
        omega
    · exact hba

end Gossamer.C20
