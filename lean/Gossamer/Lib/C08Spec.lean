/-
C08: the specification — overlay semantics as a stack of logical states over the committed state.

State: the committed (`back`) logical storage and one logical storage per open transaction
(head = innermost).  `start` pushes a copy of the current storage, `rollback` pops,
`commit` replaces the one below (the committed storage for the outermost).  Every operation acts
on the current storage (top of the stack, or the committed storage when no transaction is open).

Main storage and child storages are separate namespaces.  The main trie additionally shows one
root entry `:child_storage:default:`++key ↦ root for every child of the COMMITTED storage (child
roots are only written at commit); these entries cannot be written through the main-storage
operations (Substrate: "Refuse to directly set child storage key").

Limited removal (prefix clear with limit, child deletion with limit): the candidates are the
selected keys present in the current or in the committed storage, ascending; each processed
candidate is removed from the current storage and counted; a candidate that is present in the
committed storage consumes one unit of the limit; processing stops when no unit is left
(gossamer's documented rule: keys created during the block do not count towards the limit);
`allDeleted` = every candidate was processed.  Deletion (with or without limit) of a child that
exists neither in the current nor in the committed storage reports `(0, false)`: gossamer returns
the error `ErrChildTrieDoesNotExist` there and its own test requires that error.
Core Lean only.
-/
import Gossamer.Model.C08
namespace Gossamer.C08
open Gossamer

structure SS where
  back : Logical
  stack : List Logical

namespace SS

def top (s : SS) : Logical := s.stack.head?.getD s.back

def setTop (s : SS) (l : Logical) : SS :=
  match s.stack with
  | [] => { s with back := l }
  | _ :: r => { s with stack := l :: r }

end SS

/-- ascending union without duplicates -/
def unionKeys (a b : List Bytes) : List Bytes := (a ++ b).foldl (fun s k => KSet.ins k s) []

def specLoop (back : Entries) : List Bytes → Option Nat → Entries → Nat → Entries × Nat
  | [], _, t, n => (t, n)
  | k :: r, limit, t, n =>
    if limit = some 0 then (t, n)
    else specLoop back r (if (OMap.get k back).isSome then limit.map (· - 1) else limit)
      (OMap.erase k t) (n + 1)

/-- limited removal of the keys selected by `sel` -/
def specLimit (top back : Entries) (sel : Bytes → Bool) (limit : Option Nat) :
    Entries × Nat × Bool :=
  let cands := unionKeys ((top.map (·.1)).filter sel) ((back.map (·.1)).filter sel)
  let r := specLoop back cands limit top 0
  (r.1, r.2, r.2 == cands.length)

section spec
variable (Hc Hm : Entries → Bytes)

/-- the main trie as read inside the current storage: its main map and the committed child roots -/
def SS.mainView (s : SS) : Entries :=
  Logical.view Hc { main := s.top.main, kids := s.back.kids }

def kidOf (l : Logical) (ck : Bytes) : Entries := (KMap.find ck l.kids).getD []

def specRead (s : SS) : Op → Out
  | .get k => .val (OMap.get k (s.mainView Hc))
  | .next k => .val (OMap.nextKey k (s.mainView Hc))
  | .ents => .ents ((s.mainView Hc).map (fun e => (e.1, some e.2)))
  | .cget c k => .val (OMap.get k (kidOf s.top c))
  | .cnext c k => .val (OMap.nextKey k (kidOf s.top c))
  | .ckeys c p => .keys (OMap.keysWithPrefix p (kidOf s.top c))
  | .croot c =>
    match KMap.find c s.top.kids with
    | some es => .val (some (Hc es))
    | none => .val none
  | .const => .const childPrefix
  | _ => .bad

def specDump (s : SS) : Out :=
  let v := Logical.view Hc s.back
  .dump (v.map (fun e => (e.1, some e.2)))
    (s.back.kids.map (fun e => (e.1, some (e.2.map (fun x => (x.1, some x.2)))))) (Hm v)

def specStep (s : SS) : Op → SS × Out
  | .put k v =>
    if Logical.isChildKey k then (s, .ok)
    else (s.setTop { s.top with main := OMap.upsert k (v.getD []) s.top.main }, .ok)
  | .del k =>
    if Logical.isChildKey k then (s, .ok)
    else (s.setTop { s.top with main := OMap.erase k s.top.main }, .ok)
  | .clr p => (s.setTop { s.top with main := OMap.clearPrefix p s.top.main }, .ok)
  | .clrl p n =>
    let r := specLimit s.top.main s.back.main (fun k => p.isPrefixOf k) (some n)
    (s.setTop { s.top with main := r.1 }, .cnt r.2.1 r.2.2)
  | .cput c k v => (s.setTop (Logical.putIntoChild s.top c k v), .ok)
  | .cdel c k => (s.setTop (Logical.setKid s.top c (OMap.erase k (kidOf s.top c))), .ok)
  | .cclr c p => (s.setTop (Logical.setKid s.top c (OMap.clearPrefix p (kidOf s.top c))), .ok)
  | .cclrl c p n =>
    let r := specLimit (kidOf s.top c) (kidOf s.back c) (fun k => p.isPrefixOf k) (some n)
    (s.setTop (Logical.setKid s.top c r.1), .cnt r.2.1 r.2.2)
  | .kill c => (s.setTop { s.top with kids := KMap.del c s.top.kids }, .ok)
  | .killl c n =>
    if (KMap.find c s.top.kids).isNone && (KMap.find c s.back.kids).isNone then (s, .cnt 0 false)
    else
      let r := specLimit (kidOf s.top c) (kidOf s.back c) (fun _ => true) n
      (s.setTop (Logical.setKid s.top c r.1), .cnt r.2.1 r.2.2)
  | .start => ({ s with stack := s.top :: s.stack }, .ok)
  | .rollback =>
    match s.stack with
    | [] => (s, .panic)
    | _ :: r => ({ s with stack := r }, .ok)
  | .commit =>
    match s.stack with
    | [] => (s, .panic)
    | [l] => ({ back := l, stack := [] }, .ok)
    | l :: _ :: r => ({ s with stack := l :: r }, .ok)
  | .snap x y sep => (s, .many ((snapReads x y sep).map (specRead Hc s) ++ [specDump Hc Hm s]))
  | .bad => (s, .bad)
  | op => (s, specRead Hc s op)

def specRun (s : SS) : List Op → SS × List Out
  | [] => (s, [])
  | op :: r =>
    let x := specStep Hc Hm s op
    let y := specRun x.1 r
    (y.1, x.2 :: y.2)

end spec

end Gossamer.C08
