/-
C20: the closure `possibleToPrecommit` of `Round.update` (Go uint64 arithmetic) on the state reached by
importing a precommit-tolerant vote list = the paper's "possible to have a supermajority".
-/
import Gossamer.Lib.C20Derived
namespace Gossamer.C20

variable {t : Tree} {ws : List Nat}

theorem equivWeight_le_weightFor (t : Tree) (ws : List Nat) (ops : List Op) (ph : Bool) (B : Nat) :
    equivWeight ws ops ph ≤ weightFor t ws ops ph B := by
  unfold equivWeight weightFor
  exact wsum_mono (fun v _ hv => by simp [hv])

theorem sub64_eq {a b : Nat} (hb : b ≤ a) (ha : a < MOD) : sub64 a b = a - b := by
  unfold sub64 MOD at *
  omega

theorem add64_eq {a b : Nat} (h : a + b < MOD) : add64 a b = a + b := by
  unfold add64 MOD at *
  omega

/-- on a tolerant precommit set the Go closure decides the paper's "possible" -/
theorem possible_run (t : Tree) (ws : List Nat) (ops : List Op)
    (htol : tolerant ws ops true = true) (hov : 2 * total ws < MOD) (B : Nat) :
    possibleToPrecommit ws ((run t ws ops).cur true) (run t ws ops).eqv ((run t ws ops).cum B)
      = possible t ws ops true B := by
  unfold possibleToPrecommit possible
  simp only
  have e1 : maskWeight ws (run t ws ops).eqv 1 = equivWeight ws ops true := eqvWeight_run t ws ops true
  rw [nodeWeight_run, cur_run, e1]
  have hthr := threshold_le (total ws)
  have hW := weightFor_le_voteWeight t ws ops true B
  have hcur : voteWeight ws ops true ≤ total ws := wsum_le_total ws _
  have hsplit := voteWeight_split t ws ops true B
  have heW := equivWeight_le_weightFor t ws ops true B
  unfold tolerant faulty at htol
  simp only [decide_eq_true_eq] at htol
  unfold faulty
  generalize total ws = tot at *
  generalize threshold tot = thr at *
  generalize weightFor t ws ops true B = W at *
  generalize voteWeight ws ops true = cur at *
  generalize equivWeight ws ops true = e at *
  generalize againstWeight t ws ops true B = ag at *
  rw [sub64_eq hthr (by omega), sub64_eq htol (by omega), sub64_eq hcur (by omega), sub64_eq hW (by omega)]
  have hmin : (if cur - W ≤ tot - thr - e then cur - W else tot - thr - e) ≤ cur - W := by
    split <;> omega
  rw [add64_eq (a := W) (b := tot - cur) (by omega), add64_eq (by omega)]
  apply Bool.eq_iff_iff.2
  simp only [decide_eq_true_eq]
  split <;> omega

/-- nobody's first vote is at or below a block outside the vote graph: all voted weight that does not
equivocate is against it -/
theorem against_of_not_inGraph (t : Tree) (ws : List Nat) (ops : List Op) (ph : Bool) {c : Nat}
    (hc : inGraph (run t ws ops).cum c = false) :
    weightFor t ws ops ph c = equivWeight ws ops ph := by
  have inv := bookInv_run t ws ops
  have hz : (run t ws ops).cum c = 0 := by
    simp only [inGraph, Bool.or_eq_false_iff, bne_eq_false_iff_eq] at hc
    exact hc.2
  unfold weightFor equivWeight
  apply wsum_congr
  intro v hv
  rw [equiv_or_votesGE]
  have := inv.cum c ph v
  rw [hz, Nat.zero_testBit] at this
  have hf : firstGE t ops ph v c = false := by
    cases hfg : firstGE t ops ph v c
    · rfl
    · rw [hfg] at this; simp [hv] at this
  simp [hf]

end Gossamer.C20
