/-
C20 layer (b), proofs: `append` – a block that is neither a vote-node nor inside any ancestor edge gets a new
vote-node below the nearest vote-node above it; the structural invariant holds for the enlarged node set.
-/
import Gossamer.Lib.C20GraphAddUp
namespace Gossamer.C20

variable {t : Tree}

/-- no vote was cast for a block at or below a block that is neither a vote-node nor inside an edge -/
theorem cumOf_zero_of_free (h : t.WF) {ins : Ins} {hash : Nat} (hN : isNode ins hash = false)
    (hfree : ∀ d, ¬ Containing t ins hash d) : cumOf t ins hash = 0 := by
  apply Nat.eq_of_testBit_eq
  intro q
  rw [Nat.zero_testBit, cumOf_testBit]
  apply Bool.eq_false_iff.2
  intro hany
  obtain ⟨p, hp, hpq⟩ := List.any_eq_true.1 hany
  simp only [Bool.and_eq_true, List.contains_iff_mem] at hpq
  have hpN : isNode ins p.1 = true := by
    unfold isNode
    apply Bool.or_eq_true_iff.2
    right
    exact List.any_eq_true.2 ⟨p, hp, by simp⟩
  obtain ⟨y, hy, hye, _⟩ := below_in_edge h (isNode_zero ins) hN p.1 hpN hpq.2
  exact hfree y ⟨hy, hye⟩

theorem append_struct (h : t.WF) {ins : Ins} {g : Graph} (inv : GInv t ins g) {hash : Nat}
    (hN : isNode ins hash = false) (hfree : ∀ d, ¬ Containing t ins hash d) :
    GStruct t (addNode (isNode ins) hash) (cumOf t ins) (g.append t hash (t.num hash)) := by
  have N0 := isNode_zero ins
  have hpos : 0 < hash := by
    rcases Nat.eq_zero_or_pos hash with hz | hz
    · subst hz; rw [N0] at hN; cases hN
    · exact hz
  -- the predicate of the search is the node set
  have hp : (fun a => (g.entries a).isSome) = isNode ins := by funext a; exact inv.nodes a
  obtain ⟨a, haN, haNode, hae⟩ := ancNode_some h N0 hpos
  unfold Graph.append
  simp only [hp]
  cases hfi : (t.chain hash).tail.findIdx? (isNode ins) with
  | none =>
    exfalso
    have := List.findIdx?_eq_none_iff.1 hfi a ((edge_prefix t _ hash).subset hae)
    rw [haNode] at this; cases this
  | some i =>
    obtain ⟨htake, _⟩ := take_findIdx_eq (isNode ins) _ i hfi
    have hil : i < (t.chain hash).tail.length := (List.findIdx?_eq_some_iff_findIdx_eq.1 hfi).1
    have hedge : (t.chain hash).tail.take (i + 1) = edge t (isNode ins) hash := htake
    have hai : (t.chain hash).tail.getD i 0 = a := by
      have h1 : ancNode t (isNode ins) hash = (t.chain hash).tail[i]? := by
        unfold ancNode; rw [← hedge]; exact getLast?_take_succ hil
      rw [haN] at h1
      simp [List.getD_eq_getElem?_getD, ← h1]
    simp only [hai]
    obtain ⟨ea, hea⟩ := inv.entry_of_node haNode
    simp only [hea, hedge]
    have hah : a ≠ hash := by
      intro e; rw [e] at haNode; rw [haNode] at hN; cases hN
    -- facts about the enlarged node set
    have hNold : ∀ d, isNode ins d = true → addNode (isNode ins) hash d = true := by
      intro d hd; simp [addNode, hd]
    have hedge_old : ∀ d, isNode ins d = true → edge t (addNode (isNode ins) hash) d = edge t (isNode ins) d :=
      fun d hd => edge_add_of_not_mem (fun hm => hfree d ⟨hd, hm⟩)
    have hanc_old : ∀ d, isNode ins d = true →
        ancNode t (addNode (isNode ins) hash) d = ancNode t (isNode ins) d :=
      fun d hd => ancNode_add_of_not_mem (fun hm => hfree d ⟨hd, hm⟩)
    have hanc_new : ancNode t (addNode (isNode ins) hash) hash = some a := by
      unfold ancNode; rw [edge_add_self h]; exact haN
    have hN' : ∀ d, addNode (isNode ins) hash d = true ↔ (isNode ins d = true ∨ d = hash) := by
      intro d; simp [addNode]
    -- nobody hangs below the new node
    have hnochild : ∀ d, addNode (isNode ins) hash d = true →
        ancNode t (addNode (isNode ins) hash) d ≠ some hash := by
      intro d hd hanc
      rcases (hN' d).1 hd with hd | hd
      · rw [hanc_old d hd] at hanc
        have : isNode ins hash = true := by
          have hdpos : 0 < d := by
            rcases Nat.eq_zero_or_pos d with hz | hz
            · subst hz; simp [ancNode, edge_zero] at hanc
            · exact hz
          obtain ⟨x, hx, hxN, _⟩ := ancNode_some h N0 hdpos
          rw [hanc] at hx; rw [Option.some.inj hx]; exact hxN
        rw [this] at hN; cases hN
      · subst hd
        rw [hanc_new] at hanc
        exact hah (Option.some.inj hanc)
    have hnh : g.heads.contains hash = false := by
      apply Bool.eq_false_iff.2
      intro hc
      have hm : hash ∈ g.heads := by simpa using hc
      have := ((inv.heads hash).1 hm).1
      rw [this] at hN; cases hN
    -- the entries of the result
    have hent : ∀ b e, (if b = hash then some (⟨t.num hash, edge t (isNode ins) hash, [], 0⟩ : Entry)
        else if b = a then some { ea with descendants := ea.descendants ++ [hash] } else g.entries b) = some e →
        (b = hash ∧ e = ⟨t.num hash, edge t (isNode ins) hash, [], 0⟩) ∨
        (b = a ∧ b ≠ hash ∧ e = { ea with descendants := ea.descendants ++ [hash] }) ∨
        (b ≠ hash ∧ b ≠ a ∧ g.entries b = some e) := by
      intro b e hb
      by_cases h1 : b = hash
      · simp only [h1, if_true] at hb
        exact Or.inl ⟨h1, (Option.some.inj hb).symm⟩
      · simp only [h1, if_false] at hb
        by_cases h2 : b = a
        · simp only [h2, if_true] at hb
          exact Or.inr (Or.inl ⟨h2, h1, (Option.some.inj hb).symm⟩)
        · simp only [h2, if_false] at hb
          exact Or.inr (Or.inr ⟨h1, h2, hb⟩)
    refine ⟨?_, ?_, ?_, ?_, ?_, ?_, ?_⟩
    · intro b
      simp only [Graph.set]
      by_cases h1 : b = hash
      · subst h1; simp [addNode]
      · by_cases h2 : b = a
        · subst h2; simp [h1, addNode, haNode]
        · simp [h1, h2, addNode, inv.nodes b]
    · intro b e hb
      simp only [Graph.set] at hb
      rcases hent b e hb with ⟨rfl, rfl⟩ | ⟨rfl, _, rfl⟩ | ⟨_, _, hg⟩
      · rfl
      · exact inv.number _ ea hea
      · exact inv.number b e hg
    · intro b e hb
      simp only [Graph.set] at hb
      rcases hent b e hb with ⟨rfl, rfl⟩ | ⟨rfl, _, rfl⟩ | ⟨_, _, hg⟩
      · exact (edge_add_self h b).symm
      · rw [hedge_old _ haNode]; exact inv.anc _ ea hea
      · rw [hedge_old b (inv.node_of_entry hg)]; exact inv.anc b e hg
    · intro b e hb
      simp only [Graph.set] at hb
      rcases hent b e hb with ⟨rfl, rfl⟩ | ⟨rfl, _, rfl⟩ | ⟨_, _, hg⟩
      · exact (cumOf_zero_of_free h hN hfree).symm
      · exact inv.cum _ ea hea
      · exact inv.cum b e hg
    · intro b e hb
      simp only [Graph.set] at hb
      rcases hent b e hb with ⟨rfl, rfl⟩ | ⟨rfl, _, rfl⟩ | ⟨_, _, hg⟩
      · exact List.nodup_nil
      · rw [List.nodup_append]
        refine ⟨inv.descNodup _ ea hea, by simp, ?_⟩
        intro x hx y hy
        have : y = hash := by simpa using hy
        subst this
        intro e; subst e
        have := ((inv.desc _ ea hea x).1 hx).1
        rw [this] at hN; cases hN
      · exact inv.descNodup b e hg
    · intro b e hb d
      simp only [Graph.set] at hb
      rcases hent b e hb with ⟨rfl, rfl⟩ | ⟨rfl, hbh, rfl⟩ | ⟨hbh, hba, hg⟩
      · constructor
        · intro hd; simp at hd
        · rintro ⟨hd, hanc⟩; exact absurd hanc (hnochild d hd)
      · simp only [List.mem_append, List.mem_singleton]
        constructor
        · rintro (hd | rfl)
          · obtain ⟨d1, d2⟩ := (inv.desc _ ea hea d).1 hd
            exact ⟨hNold d d1, by rw [hanc_old d d1]; exact d2⟩
          · exact ⟨by simp [addNode], hanc_new⟩
        · rintro ⟨hd, hanc⟩
          rcases (hN' d).1 hd with hd | hd
          · left; rw [hanc_old d hd] at hanc; exact (inv.desc _ ea hea d).2 ⟨hd, hanc⟩
          · right; exact hd
      · constructor
        · intro hd
          obtain ⟨d1, d2⟩ := (inv.desc b e hg d).1 hd
          exact ⟨hNold d d1, by rw [hanc_old d d1]; exact d2⟩
        · rintro ⟨hd, hanc⟩
          rcases (hN' d).1 hd with hd | hd
          · rw [hanc_old d hd] at hanc; exact (inv.desc b e hg d).2 ⟨hd, hanc⟩
          · subst hd; rw [hanc_new] at hanc; exact absurd (Option.some.inj hanc).symm hba
    · intro x
      simp only [Graph.set, hnh, Bool.false_eq_true, if_false, List.mem_append, List.mem_filter, bne_iff_ne,
        ne_eq, List.mem_singleton]
      constructor
      · rintro (⟨hx, hxa⟩ | hx)
        · obtain ⟨x1, x2⟩ := (inv.heads x).1 hx
          refine ⟨hNold x x1, ?_⟩
          intro d hd hanc
          rcases (hN' d).1 hd with hd | hd
          · rw [hanc_old d hd] at hanc; exact x2 d hd hanc
          · subst hd; rw [hanc_new] at hanc; exact hxa (Option.some.inj hanc).symm
        · subst hx
          exact ⟨by simp [addNode], hnochild⟩
      · rintro ⟨hx, hall⟩
        rcases (hN' x).1 hx with hxN | hxh
        · left
          refine ⟨(inv.heads x).2 ⟨hxN, ?_⟩, ?_⟩
          · intro d hd hanc
            exact hall d (hNold d hd) (by rw [hanc_old d hd]; exact hanc)
          · intro e; subst e
            exact hall hash (by simp [addNode]) hanc_new
        · right; exact hxh

end Gossamer.C20
