/-
Semantics of trie nodes: `entriesN` is strictly sorted and agrees with `lookup`.
Key decomposition lemmas used by all proofs about the Go model.
-/
import Gossamer.Lib.OMapLemmas
import Gossamer.Lib.TrieMem
set_option linter.unusedSectionVars false
set_option linter.unusedSimpArgs false
namespace Gossamer
open Rank OMap

/-! ### sortedness as `Pairwise` -/

theorem OMap.sorted_iff_pairwise {α : Type} [Rank α] (es : List (List α × Bytes)) :
    OMap.Sorted es ↔ es.Pairwise (fun a b => klt a.1 b.1 = true) := by
  induction es with
  | nil => simp [OMap.Sorted]
  | cons e r ih => simp [OMap.Sorted, List.pairwise_cons, ih]

/-! ### key decomposition -/

theorem isPrefixOf_append_self (p r : Nibs) : p.isPrefixOf (p ++ r) = true := by
  induction p with
  | nil => simp
  | cons x xs ih => simp [ih]

theorem isPrefixOf_self (p : Nibs) : p.isPrefixOf p = true := by
  have := isPrefixOf_append_self p []
  simpa using this

theorem isPrefixOf_iff {p k : Nibs} : p.isPrefixOf k = true ↔ ∃ r, k = p ++ r := by
  rw [List.isPrefixOf_iff_prefix]
  constructor
  · rintro ⟨r, h⟩; exact ⟨r, h.symm⟩
  · rintro ⟨r, h⟩; exact ⟨r, h.symm⟩

/-- every key is the node key, lies below one child slot, or leaves the partial key -/
theorem key_cases (pk k : Nibs) :
    k = pk ∨ (∃ i r, k = pk ++ i :: r) ∨ pk.isPrefixOf k = false := by
  cases h : pk.isPrefixOf k with
  | false => right; right; rfl
  | true =>
    obtain ⟨r, hr⟩ := isPrefixOf_iff.mp h
    cases r with
    | nil => left; simpa using hr
    | cons i r => right; left; exact ⟨i, r, hr⟩

theorem append_cons_ne_self (pk : Nibs) (i : Nib) (r : Nibs) : pk ++ i :: r ≠ pk := by
  intro h
  have := congrArg List.length h
  simp at this

theorem isPrefixOf_false_ne {pk k : Nibs} (h : pk.isPrefixOf k = false) : k ≠ pk := by
  intro e; subst e; simp [isPrefixOf_self] at h

theorem singleton_isPrefixOf_cons (j i : Nib) (r : Nibs) :
    ([j] : Nibs).isPrefixOf (i :: r) = (j == i) := by
  simp [List.isPrefixOf]

@[simp] theorem drop_length_append (pk r : Nibs) : (pk ++ r).drop pk.length = r := by
  simp

namespace Trie

/-! ### lookup equations -/

@[simp] theorem lookup_nil (k : Nibs) : lookup nil k = none := rfl

@[simp] theorem lookup_leaf (pk : Nibs) (v : Bytes) (k : Nibs) :
    lookup (leaf pk v) k = if k = pk then some v else none := rfl

theorem lookup_branch_self (pk : Nibs) (v : Option Bytes) (cs : Nib → Trie) :
    lookup (branch pk v cs) pk = v := by
  simp [lookup]

theorem lookup_branch_child (pk : Nibs) (v : Option Bytes) (cs : Nib → Trie) (i : Nib) (r : Nibs) :
    lookup (branch pk v cs) (pk ++ i :: r) = lookup (cs i) r := by
  simp [lookup, append_cons_ne_self, isPrefixOf_append_self]

theorem lookup_branch_off (pk : Nibs) (v : Option Bytes) (cs : Nib → Trie) (k : Nibs)
    (h : pk.isPrefixOf k = false) : lookup (branch pk v cs) k = none := by
  simp [lookup, isPrefixOf_false_ne h, h]

/-! ### `entriesN` agrees with `lookup` and is sorted -/

theorem get_append {α : Type} [DecidableEq α] (k : List α) (a b : List (List α × Bytes)) :
    OMap.get k (a ++ b) = (OMap.get k a).or (OMap.get k b) := by
  induction a with
  | nil => simp [OMap.get]
  | cons e r ih =>
    simp only [List.cons_append, OMap.get]
    split <;> simp [ih]

theorem get_map_prefix (p : Nibs) (es : List (Nibs × Bytes)) (k : Nibs) :
    OMap.get (p ++ k) (es.map (fun e => (p ++ e.1, e.2))) = OMap.get k es := by
  induction es with
  | nil => rfl
  | cons e r ih => simp [OMap.get, ih]

theorem get_map_prefix_off (p : Nibs) (es : List (Nibs × Bytes)) (k : Nibs)
    (h : p.isPrefixOf k = false) :
    OMap.get k (es.map (fun e => (p ++ e.1, e.2))) = none := by
  induction es with
  | nil => rfl
  | cons e r ih =>
    simp only [List.map_cons, OMap.get, ih]
    have : p ++ e.1 ≠ k := by
      intro he; subst he; simp [isPrefixOf_append_self] at h
    simp [this]

/-- entries of the children `l`, each key prefixed by its child index -/
def childEntries (E : Nib → List (Nibs × Bytes)) (l : List Nib) : List (Nibs × Bytes) :=
  l.flatMap (fun i => (E i).map (fun e => (i :: e.1, e.2)))

theorem get_childEntries_nil (E : Nib → List (Nibs × Bytes)) (l : List Nib) :
    OMap.get [] (childEntries E l) = none := by
  induction l with
  | nil => rfl
  | cons j l ih =>
    simp only [childEntries, List.flatMap_cons] at ih ⊢
    rw [get_append, ih]
    have : OMap.get ([] : Nibs) ((E j).map (fun e => (j :: e.1, e.2))) = none :=
      get_map_prefix_off [j] (E j) [] rfl
    simp [this]

theorem get_childEntries (E : Nib → List (Nibs × Bytes)) (l : List Nib) (i : Nib) (r : Nibs) :
    OMap.get (i :: r) (childEntries E l) = if i ∈ l then OMap.get r (E i) else none := by
  induction l with
  | nil => simp [childEntries, OMap.get]
  | cons j l ih =>
    simp only [childEntries, List.flatMap_cons] at ih ⊢
    rw [get_append, ih]
    by_cases hij : i = j
    · subst hij
      have := get_map_prefix [i] (E i) r
      simp only [List.singleton_append] at this
      rw [this]
      cases h : OMap.get r (E i) <;> simp
    · have : OMap.get (i :: r) ((E j).map (fun e => (j :: e.1, e.2))) = none :=
        get_map_prefix_off [j] (E j) (i :: r) (by rw [singleton_isPrefixOf_cons]; simp; exact fun e => hij e.symm)
      simp [this, hij]

theorem entriesN_branch (pk : Nibs) (v : Option Bytes) (cs : Nib → Trie) :
    entriesN (branch pk v cs) =
      (match v with | some x => [(pk, x)] | none => []) ++
      (childEntries (fun i => entriesN (cs i)) (List.finRange 16)).map
        (fun e => (pk ++ e.1, e.2)) := by
  simp [entriesN, childEntries, List.map_flatMap, List.map_map, Function.comp_def]
  cases v <;> rfl

theorem get_entriesN (t : Trie) (k : Nibs) : OMap.get k (entriesN t) = lookup t k := by
  induction t generalizing k with
  | nil => rfl
  | leaf pk v => simp [entriesN, OMap.get, eq_comm]
  | branch pk v cs ih =>
    rw [entriesN_branch, get_append]
    rcases key_cases pk k with h | ⟨i, r, h⟩ | h
    · subst h
      rw [lookup_branch_self]
      have h2 := get_map_prefix k (childEntries (fun i => entriesN (cs i)) (List.finRange 16)) []
      simp only [List.append_nil] at h2
      rw [h2, get_childEntries_nil]
      cases v <;> simp [OMap.get]
    · subst h
      rw [lookup_branch_child, get_map_prefix, get_childEntries]
      have : OMap.get (pk ++ i :: r) (match v with | some x => [(pk, x)] | none => []) = none := by
        cases v <;> simp [OMap.get, (append_cons_ne_self pk i r).symm]
      simp [this, List.mem_finRange, ih]
    · rw [lookup_branch_off _ _ _ _ h, get_map_prefix_off _ _ _ h]
      have : OMap.get k (match v with | some x => [(pk, x)] | none => []) = none := by
        cases v <;> simp [OMap.get, (isPrefixOf_false_ne h).symm]
      simp [this]

theorem pairwise_childEntries (E : Nib → List (Nibs × Bytes)) (l : List Nib)
    (hE : ∀ i, (E i).Pairwise (fun a b => klt a.1 b.1 = true))
    (hl : l.Pairwise (fun a b => a < b)) :
    (childEntries E l).Pairwise (fun a b => klt a.1 b.1 = true) := by
  rw [childEntries, List.pairwise_flatMap]
  constructor
  · intro i _
    rw [List.pairwise_map]
    refine (hE i).imp ?_
    intro a b h
    simp [klt, h]
  · refine hl.imp ?_
    intro a b hab x hx y hy
    obtain ⟨x', _, rfl⟩ := List.mem_map.mp hx
    obtain ⟨y', _, rfl⟩ := List.mem_map.mp hy
    simp only [klt, Bool.or_eq_true, decide_eq_true_eq]
    left
    exact hab

theorem pairwise_entriesN (t : Trie) : (entriesN t).Pairwise (fun a b => klt a.1 b.1 = true) := by
  induction t with
  | nil => simp [entriesN]
  | leaf pk v => simp [entriesN]
  | branch pk v cs ih =>
    rw [entriesN_branch, List.pairwise_append]
    refine ⟨by cases v <;> simp, ?_, ?_⟩
    · rw [List.pairwise_map]
      refine (pairwise_childEntries _ _ ih (List.pairwise_lt_finRange 16)).imp ?_
      intro a b h
      simpa [klt_append_left] using h
    · intro a ha b hb
      obtain ⟨b', hb', rfl⟩ := List.mem_map.mp hb
      have ha' : a.1 = pk := by cases v <;> simp at ha; simp [ha]
      rw [ha']
      -- keys of children are non-empty
      obtain ⟨i, _, hi⟩ := List.mem_flatMap.mp hb'
      obtain ⟨c, _, rfl⟩ := List.mem_map.mp hi
      exact klt_append_cons pk i c.1

theorem sorted_entriesN (t : Trie) : OMap.Sorted (entriesN t) :=
  (OMap.sorted_iff_pairwise _).mpr (pairwise_entriesN t)

/-- two tries with the same `lookup` have the same entry list -/
theorem entriesN_ext {a b : Trie} (h : ∀ k, lookup a k = lookup b k) : entriesN a = entriesN b :=
  OMap.sorted_ext (sorted_entriesN a) (sorted_entriesN b)
    (fun k => by rw [get_entriesN, get_entriesN, h])

/-! ### common prefix split, prepending to a partial key -/

theorem lcp_split (a b : Nibs) : ∃ c a' b', a = c ++ a' ∧ b = c ++ b' ∧ lcpLen a b = c.length ∧
    (∀ x xs y ys, a' = x :: xs → b' = y :: ys → x ≠ y) := by
  induction a generalizing b with
  | nil => exact ⟨[], [], b, rfl, rfl, by cases b <;> rfl, by intros; simp_all⟩
  | cons x xs ih =>
    cases b with
    | nil => exact ⟨[], x :: xs, [], rfl, rfl, rfl, by intros; simp_all⟩
    | cons y ys =>
      by_cases hxy : x = y
      · subst hxy
        obtain ⟨c, a', b', h1, h2, h3, h4⟩ := ih ys
        refine ⟨x :: c, a', b', by simp [h1], by simp [h2], by simp [lcpLen, h3], h4⟩
      · refine ⟨[], x :: xs, y :: ys, rfl, rfl, by simp [lcpLen, hxy], ?_⟩
        intro x' xs' y' ys' h1 h2
        cases h1; cases h2; exact hxy

/-- prepend nibbles to the partial key of a node -/
def prepend (p : Nibs) : Trie → Trie
  | nil => nil
  | leaf pk v => leaf (p ++ pk) v
  | branch pk v cs => branch (p ++ pk) v cs

theorem isPrefixOf_append_left (p a b : Nibs) : (p ++ a).isPrefixOf (p ++ b) = a.isPrefixOf b := by
  induction p with
  | nil => rfl
  | cons x xs ih => simp [ih]

theorem lookup_prepend (p : Nibs) (t : Trie) (k : Nibs) :
    lookup (prepend p t) (p ++ k) = lookup t k := by
  cases t with
  | nil => rfl
  | leaf pk v => simp [prepend]
  | branch pk v cs =>
    simp only [prepend, lookup, List.append_cancel_left_eq, isPrefixOf_append_left, List.length_append]
    have : (p ++ k).drop (p.length + pk.length) = k.drop pk.length := by
      rw [← List.drop_drop]; simp
    rw [this]

theorem lookup_prepend_off (p : Nibs) (t : Trie) (k : Nibs) (h : p.isPrefixOf k = false) :
    lookup (prepend p t) k = none := by
  have hne : ∀ q : Nibs, k ≠ p ++ q := by
    intro q e; subst e; simp [isPrefixOf_append_self] at h
  have hpre : ∀ q : Nibs, (p ++ q).isPrefixOf k = false := by
    intro q
    cases h2 : (p ++ q).isPrefixOf k with
    | false => rfl
    | true =>
      obtain ⟨r, hr⟩ := isPrefixOf_iff.mp h2
      exact absurd (by rw [hr, List.append_assoc]) (hne (q ++ r))
  cases t with
  | nil => rfl
  | leaf pk v => simp [prepend, hne]
  | branch pk v cs => simp [prepend, lookup, hne, hpre]

/-! ### insert -/

theorem self_ne_append_cons (pk : Nibs) (i : Nib) (r : Nibs) : pk ≠ pk ++ i :: r :=
  fun h => append_cons_ne_self pk i r h.symm

theorem off_ne_append {pk k : Nibs} (h : pk.isPrefixOf k = false) (r : Nibs) : k ≠ pk ++ r := by
  intro e; subst e; simp [isPrefixOf_append_self] at h

@[simp] theorem setChild_same (cs : Nib → Trie) (i : Nib) (c : Trie) : setChild cs i c i = c := by
  simp [setChild]

theorem setChild_other (cs : Nib → Trie) (i j : Nib) (c : Trie) (h : j ≠ i) :
    setChild cs i c j = cs j := by
  simp [setChild, h]

theorem lookup_insertInLeaf (pk : Nibs) (lv : Bytes) (key : Nibs) (value : Bytes) (k' : Nibs) :
    lookup (insertInLeaf pk lv key value) k' =
      if k' = key then some value else lookup (leaf pk lv) k' := by
  unfold insertInLeaf
  by_cases hpk : pk = key
  · subst hpk; by_cases h : k' = pk <;> simp [h]
  · simp only [hpk, if_false]
    obtain ⟨c, ka, pa, rfl, rfl, h3, h4⟩ := lcp_split key pk
    rw [h3]
    cases ka with
    | nil =>
      cases pa with
      | nil => exact absurd rfl hpk
      | cons i rest =>
        simp only [List.append_nil, List.length_append, List.length_cons, if_true,
          Nat.lt_add_right_iff_pos, Nat.zero_lt_succ, drop_length_append, List.take_length]
        rcases key_cases c k' with rfl | ⟨x, r, rfl⟩ | hoff
        · simp [lookup_branch_self, self_ne_append_cons]
        · rw [lookup_branch_child]
          by_cases hx : x = i
          · subst hx; simp [append_cons_ne_self]
          · simp [setChild_other _ _ _ _ hx, noChildren, append_cons_ne_self, hx]
        · simp [lookup_branch_off _ _ _ _ hoff, isPrefixOf_false_ne hoff, off_ne_append hoff]
    | cons j krest =>
      cases pa with
      | nil =>
        have : ¬ (c ++ j :: krest).length = c.length := by simp
        simp only [this, if_false, List.append_nil, if_true, drop_length_append]
        have ht : (c ++ j :: krest).take c.length = c := by simp
        rw [ht]
        rcases key_cases c k' with rfl | ⟨x, r, rfl⟩ | hoff
        · simp [lookup_branch_self, self_ne_append_cons]
        · rw [lookup_branch_child]
          by_cases hx : x = j
          · subst hx; simp [append_cons_ne_self]
          · simp [setChild_other _ _ _ _ hx, noChildren, append_cons_ne_self, hx]
        · simp [lookup_branch_off _ _ _ _ hoff, isPrefixOf_false_ne hoff, off_ne_append hoff]
      | cons i rest =>
        have hij : j ≠ i := h4 j krest i rest rfl rfl
        have h1 : ¬ (c ++ j :: krest).length = c.length := by simp
        have h2 : ¬ (c ++ i :: rest).length = c.length := by simp
        simp only [h1, h2, if_false, drop_length_append]
        have ht : (c ++ j :: krest).take c.length = c := by simp
        rw [ht]
        rcases key_cases c k' with rfl | ⟨x, r, rfl⟩ | hoff
        · simp [lookup_branch_self, self_ne_append_cons]
        · rw [lookup_branch_child]
          by_cases hx : x = j
          · subst hx; simp [append_cons_ne_self, hij]
          · rw [setChild_other _ _ _ _ hx]
            by_cases hx2 : x = i
            · subst hx2; simp [hx]
            · simp [setChild_other _ _ _ _ hx2, noChildren, hx, hx2]
        · simp [lookup_branch_off _ _ _ _ hoff, isPrefixOf_false_ne hoff, off_ne_append hoff]


theorem lookup_insert (t : Trie) (key : Nibs) (value : Bytes) (k' : Nibs) :
    lookup (insert t key value) k' = if k' = key then some value else lookup t k' := by
  induction t generalizing key k' with
  | nil => simp [insert]
  | leaf pk lv => simp only [insert]; exact lookup_insertInLeaf pk lv key value k'
  | branch pk v cs ih =>
    simp only [insert]
    by_cases hk : key = pk
    · subst hk
      simp only [if_true]
      rcases key_cases key k' with rfl | ⟨x, r, rfl⟩ | hoff
      · simp [lookup_branch_self]
      · simp [lookup_branch_child, append_cons_ne_self]
      · simp [lookup_branch_off _ _ _ _ hoff, isPrefixOf_false_ne hoff]
    · simp only [hk, if_false]
      rcases key_cases pk key with rfl | ⟨i, rest, rfl⟩ | hoff
      · exact absurd rfl hk
      · simp only [isPrefixOf_append_self, if_true, drop_length_append]
        rcases key_cases pk k' with rfl | ⟨x, r, rfl⟩ | hoff
        · simp [lookup_branch_self, self_ne_append_cons]
        · rw [lookup_branch_child, lookup_branch_child]
          by_cases hx : x = i
          · subst hx; simp [ih]
          · simp [setChild_other _ _ _ _ hx, hx]
        · simp [lookup_branch_off _ _ _ _ hoff, off_ne_append hoff]
      · simp only [hoff, Bool.false_eq_true, if_false]
        -- the keys diverge inside the partial key
        obtain ⟨c, ka, pa, rfl, rfl, h3, h4⟩ := lcp_split key pk
        rw [h3]
        cases pa with
        | nil => simp [isPrefixOf_append_self] at hoff
        | cons oi orest =>
          simp only [drop_length_append]
          have hshift : ∀ r, lookup (branch (c ++ oi :: orest) v cs) (c ++ oi :: r)
              = lookup (branch orest v cs) r := by
            intro r
            have := lookup_prepend (c ++ [oi]) (branch orest v cs) r
            simpa [prepend] using this
          have hoffc : ∀ k, c.isPrefixOf k = false →
              lookup (branch (c ++ oi :: orest) v cs) k = none := by
            intro k hk'
            have := lookup_prepend_off c (branch (oi :: orest) v cs) k hk'
            simpa [prepend] using this
          have hoffx : ∀ x r, x ≠ oi → lookup (branch (c ++ oi :: orest) v cs) (c ++ x :: r) = none := by
            intro x r hx
            have := lookup_prepend_off (c ++ [oi]) (branch orest v cs) (c ++ x :: r) (by
              rw [isPrefixOf_append_left, singleton_isPrefixOf_cons]; simp; exact fun e => hx e.symm)
            simpa [prepend] using this
          have hself : lookup (branch (c ++ oi :: orest) v cs) c = none := by
            have := lookup_prepend_off (c ++ [oi]) (branch orest v cs) c (by
              cases h : (c ++ [oi]).isPrefixOf c with
              | false => rfl
              | true =>
                obtain ⟨r, hr⟩ := isPrefixOf_iff.mp h
                have := congrArg List.length hr
                simp at this)
            simpa [prepend] using this
          cases ka with
          | nil =>
            simp only [List.append_nil, List.length_append, Nat.le_refl, if_true, List.take_length]
            rcases key_cases c k' with rfl | ⟨x, r, rfl⟩ | hoff2
            · simp [lookup_branch_self]
            · rw [lookup_branch_child]
              by_cases hx : x = oi
              · subst hx; simp [append_cons_ne_self, hshift]
              · simp [setChild_other _ _ _ _ hx, noChildren, append_cons_ne_self, hoffx _ _ hx]
            · simp [lookup_branch_off _ _ _ _ hoff2, isPrefixOf_false_ne hoff2, hoffc _ hoff2]
          | cons j krest =>
            have hij : j ≠ oi := h4 j krest oi orest rfl rfl
            have h1 : ¬ (c ++ j :: krest).length ≤ c.length := by simp
            have ht : (c ++ j :: krest).take c.length = c := by simp
            simp only [h1, if_false, drop_length_append, ht]
            rcases key_cases c k' with rfl | ⟨x, r, rfl⟩ | hoff2
            · simp [lookup_branch_self, self_ne_append_cons, hself]
            · rw [lookup_branch_child]
              by_cases hx : x = j
              · subst hx; simp [hoffx _ _ hij]
              · rw [setChild_other _ _ _ _ hx]
                by_cases hx2 : x = oi
                · subst hx2; simp [hshift, hx]
                · simp [setChild_other _ _ _ _ hx2, noChildren, hx, hoffx _ _ hx2]
            · simp [lookup_branch_off _ _ _ _ hoff2, off_ne_append hoff2, hoffc _ hoff2]


/-! ### retrieve -/

theorem isNil_iff (t : Trie) : t.isNil = true ↔ t = nil := by
  cases t <;> simp [isNil]

theorem retrieve_eq_lookup (t : Trie) (key : Nibs) (h : emptyKeyHit t key = false) :
    retrieve t key = lookup t key := by
  induction t generalizing key with
  | nil => rfl
  | leaf pk v => simp [retrieve, eq_comm]
  | branch pk v cs ih =>
    cases key with
    | nil =>
      simp only [emptyKeyHit, List.isEmpty_nil, if_true, Bool.not_eq_false', List.isEmpty_iff] at h
      subst h
      simp [retrieve, lookup]
    | cons a as =>
      rcases key_cases pk (a :: as) with hk | ⟨i, rest, hk⟩ | hoff
      · rw [hk]; simp [retrieve, lookup_branch_self]
      · rw [hk] at h ⊢
        have hne : (pk ++ i :: rest).length ≠ 0 := by simp
        have hne2 : (pk == pk ++ i :: rest) = false := by
          simp [self_ne_append_cons]
        have hne3 : (pk ++ i :: rest).isEmpty = false := by simp
        simp only [emptyKeyHit, hne3, hne2, isPrefixOf_append_self, drop_length_append] at h
        simp only [retrieve, hne, hne2, isPrefixOf_append_self, drop_length_append]
        rw [lookup_branch_child]
        simpa using ih i rest (by simpa using h)
      · have hne2 : (pk == a :: as) = false := by
          simp; exact fun e => (isPrefixOf_false_ne hoff) e.symm
        simp [retrieve, hne2, hoff, lookup_branch_off _ _ _ _ hoff]

/-! ### handleDeletion -/

theorem mem_childIdx (cs : Nib → Trie) (i : Nib) : i ∈ childIdx cs ↔ cs i ≠ nil := by
  simp [childIdx, List.mem_finRange, ← isNil_iff]

theorem childIdx_nil {cs : Nib → Trie} (h : childIdx cs = []) (i : Nib) : cs i = nil := by
  by_cases hc : cs i = nil
  · exact hc
  · have := (mem_childIdx cs i).mpr hc
    simp [h] at this

theorem childIdx_single {cs : Nib → Trie} {i : Nib} (h : childIdx cs = [i]) (x : Nib) :
    cs x ≠ nil ↔ x = i := by
  rw [← mem_childIdx, h]; simp

/-- `handleDeletion` keeps the meaning of the branch (when a value is kept the caller's key
    passes through the branch partial key) -/
theorem lookup_handleDeletion (pk : Nibs) (v : Option Bytes) (cs : Nib → Trie) (key : Nibs)
    (hpre : v.isSome = true → pk.isPrefixOf key = true) (k' : Nibs) :
    lookup (handleDeletion pk v cs key) k' = lookup (branch pk v cs) k' := by
  unfold handleDeletion
  split
  · -- no child, value: leaf
    rename_i x hc
    obtain ⟨r, rfl⟩ := isPrefixOf_iff.mp (hpre rfl)
    have hl : lcpLen pk (pk ++ r) = pk.length := by
      clear hpre hc
      induction pk with
      | nil => cases r <;> simp [lcpLen]
      | cons y ys ih => simp [lcpLen, ih]
    rw [hl]
    simp only [List.take_left', lookup_leaf]
    rcases key_cases pk k' with rfl | ⟨j, q, rfl⟩ | hoff
    · simp [lookup_branch_self]
    · simp [lookup_branch_child, childIdx_nil hc, append_cons_ne_self]
    · simp [lookup_branch_off _ _ _ _ hoff, isPrefixOf_false_ne hoff]
  · -- a single child, no value: merge
    rename_i i hc
    have hmerge : ∀ c : Trie, c = cs i → lookup (prepend (pk ++ [i]) c) k' = lookup (branch pk none cs) k' := by
      intro c hci
      rcases key_cases pk k' with rfl | ⟨j, q, rfl⟩ | hoff
      · rw [lookup_branch_self, lookup_prepend_off]
        cases h : (k' ++ [i]).isPrefixOf k' with
        | false => rfl
        | true =>
          obtain ⟨r, hr⟩ := isPrefixOf_iff.mp h
          have := congrArg List.length hr
          simp at this
      · rw [lookup_branch_child]
        by_cases hj : j = i
        · subst hj
          have := lookup_prepend (pk ++ [j]) c q
          simp only [List.append_assoc, List.singleton_append] at this
          rw [this, hci]
        · have hnil : cs j = nil := by
            by_cases hcj : cs j = nil
            · exact hcj
            · exact absurd ((childIdx_single hc j).mp hcj) hj
          rw [hnil, lookup_prepend_off]
          · rfl
          · rw [isPrefixOf_append_left, singleton_isPrefixOf_cons]; simp; exact fun e => hj e.symm
      · rw [lookup_branch_off _ _ _ _ hoff, lookup_prepend_off]
        cases h : (pk ++ [i]).isPrefixOf k' with
        | false => rfl
        | true =>
          obtain ⟨r, hr⟩ := isPrefixOf_iff.mp h
          rw [hr, List.append_assoc, isPrefixOf_append_self] at hoff
          cases hoff
    split
    · rename_i cpk cv hci
      have := hmerge (leaf cpk cv) hci.symm
      simpa [prepend] using this
    · rename_i cpk cv ccs hci
      have := hmerge (branch cpk cv ccs) hci.symm
      simpa [prepend] using this
    · rfl
  · rfl


/-! ### delete -/

theorem lcpLen_prefix (pk r : Nibs) : lcpLen pk (pk ++ r) = pk.length := by
  induction pk with
  | nil => cases r <;> simp [lcpLen]
  | cons y ys ih => simp [lcpLen, ih]

theorem lcpLen_le_left (a b : Nibs) : lcpLen a b ≤ a.length := by
  induction a generalizing b with
  | nil => simp [lcpLen]
  | cons x xs ih =>
    cases b with
    | nil => simp [lcpLen]
    | cons y ys =>
      simp only [lcpLen]
      split
      · simp; exact ih ys
      · simp

/-- if `pk` is not a prefix of `key` the common prefix is shorter than `pk` -/
theorem lcpLen_lt_of_off {pk key : Nibs} (h : pk.isPrefixOf key = false) :
    lcpLen pk key < pk.length := by
  obtain ⟨c, pa, ka, rfl, rfl, h3, _⟩ := lcp_split pk key
  rw [h3]
  cases pa with
  | nil => simp [isPrefixOf_append_self] at h
  | cons x xs => simp

theorem lookup_deleteAtNode (t : Trie) (key : Nibs) (h : emptyKeyHit t key = false) :
    (∀ k', lookup (deleteAtNode t key).1 k' = if k' = key then none else lookup t k') ∧
    ((deleteAtNode t key).2 = false → lookup t key = none) := by
  induction t generalizing key with
  | nil => simp [deleteAtNode]
  | leaf pk v =>
    by_cases hk : key = pk
    · subst hk
      simp [deleteAtNode]
    · have hk' : (key == pk) = false := by simpa using hk
      have hlen : key.length > 0 := by
        cases key with
        | nil =>
          cases pk with
          | nil => exact absurd rfl hk
          | cons a as => simp [emptyKeyHit] at h
        | cons a as => simp
      simp only [deleteAtNode, hlen, decide_true, hk', Bool.not_false, Bool.and_self, if_true]
      refine ⟨fun k' => ?_, fun _ => by simp [hk]⟩
      by_cases h2 : k' = key
      · subst h2; simp [hk]
      · simp [h2]
  | branch pk v cs ih =>
    -- the key is the branch key
    have hself : ∀ k', lookup (handleDeletion pk none cs key) k' =
        if k' = pk then none else lookup (branch pk v cs) k' := by
      intro k'
      rw [lookup_handleDeletion pk none cs key (by simp)]
      rcases key_cases pk k' with rfl | ⟨j, q, rfl⟩ | hoff
      · simp [lookup_branch_self]
      · simp [lookup_branch_child, append_cons_ne_self]
      · simp [lookup_branch_off _ _ _ _ hoff, isPrefixOf_false_ne hoff]
    cases key with
    | nil =>
      simp only [emptyKeyHit, List.isEmpty_nil, if_true, Bool.not_eq_false', List.isEmpty_iff] at h
      subst h
      simp only [deleteAtNode, List.length_nil, decide_true, Bool.true_or, if_true]
      exact ⟨fun k' => by simpa using hself k', by simp⟩
    | cons a as =>
      rcases key_cases pk (a :: as) with hk | ⟨i, rest, hk⟩ | hoff
      · rw [hk] at hself ⊢
        simp only [deleteAtNode, BEq.rfl, Bool.or_true, if_true]
        exact ⟨fun k' => hself k', by simp⟩
      · rw [hk] at h ⊢
        have hne : ¬ (pk ++ i :: rest).length = 0 := by simp
        have hne2 : (pk == pk ++ i :: rest) = false := by simp [self_ne_append_cons]
        have hne3 : (pk ++ i :: rest).isEmpty = false := by simp
        simp only [emptyKeyHit, hne3, hne2, isPrefixOf_append_self, drop_length_append] at h
        have hIH := ih i rest (by simpa using h)
        have hc1 : ¬ pk.length = (pk ++ i :: rest).length := by simp
        simp only [deleteAtNode, hne, decide_false, hne2, Bool.or_self, lcpLen_prefix,
          hc1, Nat.lt_irrefl, drop_length_append, Bool.false_eq_true, if_false]
        cases hflag : (deleteAtNode (cs i) rest).2 with
        | false =>
          have hnone := hIH.2 hflag
          simp only [Bool.not_false, if_true]
          refine ⟨fun k' => ?_, fun _ => by rw [lookup_branch_child]; exact hnone⟩
          by_cases h2 : k' = pk ++ i :: rest
          · subst h2; simp [lookup_branch_child, hnone]
          · simp [h2]
        | true =>
          simp only [Bool.not_true, Bool.false_eq_true, if_false]
          refine ⟨fun k' => ?_, by simp⟩
          rw [lookup_handleDeletion _ _ _ _ (fun _ => isPrefixOf_append_self pk (i :: rest))]
          rcases key_cases pk k' with rfl | ⟨j, q, rfl⟩ | hoff
          · simp [lookup_branch_self, self_ne_append_cons]
          · rw [lookup_branch_child, lookup_branch_child]
            by_cases hj : j = i
            · subst hj; simp [hIH.1]
            · simp [setChild_other _ _ _ _ hj, hj]
          · simp [lookup_branch_off _ _ _ _ hoff, off_ne_append hoff]
      · have hne2 : (pk == a :: as) = false := by
          simp; exact fun e => (isPrefixOf_false_ne hoff) e.symm
        have hlt := lcpLen_lt_of_off hoff
        simp only [deleteAtNode, List.length_cons, Nat.add_one_ne_zero, decide_false, hne2,
          Bool.or_self, hlt, decide_true, Bool.or_true, if_true, if_false]
        refine ⟨fun k' => ?_, fun _ => lookup_branch_off _ _ _ _ hoff⟩
        by_cases h2 : k' = a :: as
        · subst h2; simp [lookup_branch_off _ _ _ _ hoff]
        · simp [h2]

end Trie
end Gossamer
