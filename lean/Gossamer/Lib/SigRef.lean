/-
Executable references for signature verification (C29): SHA-512 (FIPS 180-4), Ed25519 verification
under ZIP-215 rules and under RFC 8032 / Go standard-library rules (cofactorless, canonical R),
secp256k1 ECDSA verification (low-s) and public-key recovery.  Written from the specifications;
core Lean only; arithmetic over `Nat`.
-/
import Gossamer.Lib.HashRef
namespace Gossamer.SigRef
open Gossamer Gossamer.HashRef

/-! ### SHA-512 -/

def sha512K : Array UInt64 := #[
  0x428a2f98d728ae22, 0x7137449123ef65cd, 0xb5c0fbcfec4d3b2f, 0xe9b5dba58189dbbc,
  0x3956c25bf348b538, 0x59f111f1b605d019, 0x923f82a4af194f9b, 0xab1c5ed5da6d8118,
  0xd807aa98a3030242, 0x12835b0145706fbe, 0x243185be4ee4b28c, 0x550c7dc3d5ffb4e2,
  0x72be5d74f27b896f, 0x80deb1fe3b1696b1, 0x9bdc06a725c71235, 0xc19bf174cf692694,
  0xe49b69c19ef14ad2, 0xefbe4786384f25e3, 0x0fc19dc68b8cd5b5, 0x240ca1cc77ac9c65,
  0x2de92c6f592b0275, 0x4a7484aa6ea6e483, 0x5cb0a9dcbd41fbd4, 0x76f988da831153b5,
  0x983e5152ee66dfab, 0xa831c66d2db43210, 0xb00327c898fb213f, 0xbf597fc7beef0ee4,
  0xc6e00bf33da88fc2, 0xd5a79147930aa725, 0x06ca6351e003826f, 0x142929670a0e6e70,
  0x27b70a8546d22ffc, 0x2e1b21385c26c926, 0x4d2c6dfc5ac42aed, 0x53380d139d95b3df,
  0x650a73548baf63de, 0x766a0abb3c77b2a8, 0x81c2c92e47edaee6, 0x92722c851482353b,
  0xa2bfe8a14cf10364, 0xa81a664bbc423001, 0xc24b8b70d0f89791, 0xc76c51a30654be30,
  0xd192e819d6ef5218, 0xd69906245565a910, 0xf40e35855771202a, 0x106aa07032bbd1b8,
  0x19a4c116b8d2d0c8, 0x1e376c085141ab53, 0x2748774cdf8eeb99, 0x34b0bcb5e19b48a8,
  0x391c0cb3c5c95a63, 0x4ed8aa4ae3418acb, 0x5b9cca4f7763e373, 0x682e6ff3d6b2b8a3,
  0x748f82ee5defb2fc, 0x78a5636f43172f60, 0x84c87814a1f0ab72, 0x8cc702081a6439ec,
  0x90befffa23631e28, 0xa4506cebde82bde9, 0xbef9a3f7b2c67915, 0xc67178f2e372532b,
  0xca273eceea26619c, 0xd186b8c721c0c207, 0xeada7dd6cde0eb1e, 0xf57d4f7fee6ed178,
  0x06f067aa72176fba, 0x0a637dc5a2c898a6, 0x113f9804bef90dae, 0x1b710b35131c471b,
  0x28db77f523047d84, 0x32caab7b40c72493, 0x3c9ebe0a15c9bebc, 0x431d67c49c100d4c,
  0x4cc5d4becb3e42b6, 0x597f299cfc657e2a, 0x5fcb6fab3ad6faec, 0x6c44198c4a475817]

def sha512H0 : Array UInt64 := #[
  0x6a09e667f3bcc908, 0xbb67ae8584caa73b, 0x3c6ef372fe94f82b, 0xa54ff53a5f1d36f1, 0x510e527fade682d1, 0x9b05688c2b3e6c1f, 0x1f83d9abfb41bd6b, 0x5be0cd19137e2179]

def be64 (b : Array UInt8) (off : Nat) : UInt64 := Id.run do
  let mut r : UInt64 := 0
  for i in [0:8] do
    r := (r <<< 8) ||| (b.getD (off + i) 0).toUInt64
  return r

def sha512 (msg : Bytes) : Bytes := Id.run do
  let d : Array UInt8 := msg.toArray
  let len := d.size
  let zeros := (239 - len % 128) % 128   -- len + 1 + zeros + 16 ≡ 0 (mod 128)
  let p : Array UInt8 := d ++ #[0x80] ++ Array.replicate (zeros + 8) 0 ++ (u64be (8 * len).toUInt64).toArray
  let mut h := sha512H0
  for blk in [0:p.size / 128] do
    let mut w : Array UInt64 := Array.replicate 80 0
    for i in [0:16] do
      w := w.set! i (be64 p (blk * 128 + 8 * i))
    for i in [16:80] do
      let x := w[i - 15]!
      let y := w[i - 2]!
      let s0 := rotr64 x 1 ^^^ rotr64 x 8 ^^^ (x >>> 7)
      let s1 := rotr64 y 19 ^^^ rotr64 y 61 ^^^ (y >>> 6)
      w := w.set! i (w[i - 16]! + s0 + w[i - 7]! + s1)
    let mut a := h[0]!
    let mut b := h[1]!
    let mut c := h[2]!
    let mut dd := h[3]!
    let mut e := h[4]!
    let mut f := h[5]!
    let mut g := h[6]!
    let mut hh := h[7]!
    for i in [0:80] do
      let s1 := rotr64 e 14 ^^^ rotr64 e 18 ^^^ rotr64 e 41
      let ch := (e &&& f) ^^^ ((e ^^^ 0xFFFFFFFFFFFFFFFF) &&& g)
      let t1 := hh + s1 + ch + sha512K[i]! + w[i]!
      let s0 := rotr64 a 28 ^^^ rotr64 a 34 ^^^ rotr64 a 39
      let mj := (a &&& b) ^^^ (a &&& c) ^^^ (b &&& c)
      let t2 := s0 + mj
      hh := g; g := f; f := e; e := dd + t1; dd := c; c := b; b := a; a := t1 + t2
    h := #[h[0]! + a, h[1]! + b, h[2]! + c, h[3]! + dd, h[4]! + e, h[5]! + f, h[6]! + g, h[7]! + hh]
  return h.toList.flatMap u64be

/-! ### modular arithmetic -/

def powMod (b e m : Nat) : Nat := Id.run do
  let mut r := 1 % m
  let mut base := b % m
  let mut ex := e
  for _ in [0:e.log2 + 1] do
    if ex % 2 == 1 then r := r * base % m
    base := base * base % m
    ex := ex / 2
  return r

def subMod (a b m : Nat) : Nat := (a % m + m - b % m) % m

/-! ### Ed25519 -/

def edP : Nat := 2 ^ 255 - 19
def edL : Nat := 2 ^ 252 + 27742317777372353535851937790883648493
def edD : Nat := 37095705934669439343138083508754565189542113879843219016388785533085940283555
def edI : Nat := powMod 2 ((edP - 1) / 4) edP   -- sqrt(-1)
def edBx : Nat := 15112221349535400772501151409588531511454012693041857206046113283949847762202
def edBy : Nat := 46316835694926478169428394003475163141307993866256225615783033603165251855960

/-- extended twisted Edwards coordinates (X, Y, Z, T) -/
structure EdPt where
  x : Nat
  y : Nat
  z : Nat
  t : Nat

def edId : EdPt := ⟨0, 1, 1, 0⟩
def edB : EdPt := ⟨edBx, edBy, 1, edBx * edBy % edP⟩

def edAdd (p q : EdPt) : EdPt :=
  let m := edP
  let a := subMod p.y p.x m * subMod q.y q.x m % m
  let b := (p.y + p.x) * (q.y + q.x) % m
  let c := p.t * (2 * edD % m) % m * q.t % m
  let d := p.z * 2 % m * q.z % m
  let e := subMod b a m
  let f := subMod d c m
  let g := (d + c) % m
  let h := (b + a) % m
  ⟨e * f % m, g * h % m, f * g % m, e * h % m⟩

def edNeg (p : EdPt) : EdPt := ⟨subMod 0 p.x edP, p.y, p.z, subMod 0 p.t edP⟩

def edMul (k : Nat) (p : EdPt) : EdPt := Id.run do
  let mut r := edId
  let mut q := p
  let mut e := k
  for _ in [0:k.log2 + 1] do
    if e % 2 == 1 then r := edAdd r q
    q := edAdd q q
    e := e / 2
  return r

def edIsId (p : EdPt) : Bool := p.x % edP == 0 && subMod p.y p.z edP == 0

def edEq (p q : EdPt) : Bool :=
  (p.x * q.z) % edP == (q.x * p.z) % edP && (p.y * q.z) % edP == (q.y * p.z) % edP

/-- point decoding that accepts non-canonical y (ZIP-215 rule 1; also what Go's
    edwards25519 `Point.SetBytes` does) -/
def edDecode (b : Bytes) : Option EdPt :=
  if b.length ≠ 32 then none else
  let n := natOfLE b
  let sign := n / 2 ^ 255
  let y := (n % 2 ^ 255) % edP
  let u := subMod (y * y) 1 edP
  let v := (edD * y % edP * y + 1) % edP
  let v3 := v * v % edP * v % edP
  let v7 := v3 * v3 % edP * v % edP
  let x := u * v3 % edP * powMod (u * v7) ((edP - 5) / 8) edP % edP
  let vxx := v * x % edP * x % edP
  let x? : Option Nat :=
    if vxx == u then some x
    else if vxx == subMod 0 u edP then some (x * edI % edP)
    else none
  match x? with
  | none => none
  | some x =>
    let x := if x % 2 ≠ sign then subMod 0 x edP else x
    some ⟨x, y, 1, x * y % edP⟩

/-- canonical encoding (RFC 8032 5.1.2) -/
def edEncode (p : EdPt) : Bytes :=
  let zi := powMod p.z (edP - 2) edP
  let x := p.x * zi % edP
  let y := p.y * zi % edP
  leBytes 32 (y + 2 ^ 255 * (x % 2))

def edK (r a msg : Bytes) : Nat := natOfLE (sha512 (r ++ a ++ msg)) % edL

/-- ZIP-215: non-canonical A and R accepted, s < L required, cofactored equation -/
def ed25519VerifyZip215 (pk msg sig : Bytes) : Bool :=
  if sig.length ≠ 64 ∨ pk.length ≠ 32 then false else
  let rB := sig.take 32
  let s := natOfLE (sig.drop 32)
  match edDecode pk, edDecode rB with
  | some a, some r =>
    if s ≥ edL then false else
    let k := edK rB pk msg
    let lhs := edAdd (edMul s edB) (edNeg (edAdd r (edMul k a)))
    edIsId (edMul 8 lhs)
  | _, _ => false

/-- Go standard library `ed25519.Verify`: s < L, R' = [s]B − [k]A, byte comparison of the
    canonical encoding of R' with the signature's R (cofactorless; non-canonical R rejected) -/
def ed25519VerifyGo (pk msg sig : Bytes) : Bool :=
  if sig.length ≠ 64 ∨ pk.length ≠ 32 then false else
  let rB := sig.take 32
  let s := natOfLE (sig.drop 32)
  match edDecode pk with
  | some a =>
    if s ≥ edL then false else
    let k := edK rB pk msg
    let r' := edAdd (edMul s edB) (edNeg (edMul k a))
    edEncode r' == rB
  | none => false

/-! ### secp256k1 -/

def skP : Nat := 2 ^ 256 - 2 ^ 32 - 977
def skN : Nat := 0xFFFFFFFFFFFFFFFFFFFFFFFFFFFFFFFEBAAEDCE6AF48A03BBFD25E8CD0364141
def skGx : Nat := 0x79BE667EF9DCBBAC55A06295CE870B07029BFCDB2DCE28D959F2815B16F81798
def skGy : Nat := 0x483ADA7726A3C4655DA4FBFC0E1108A8FD17B448A68554199C47D08FFB10D4B8

/-- Jacobian coordinates; z = 0 is the point at infinity -/
structure SkPt where
  x : Nat
  y : Nat
  z : Nat

def skInf : SkPt := ⟨1, 1, 0⟩
def skG : SkPt := ⟨skGx, skGy, 1⟩

def skDouble (p : SkPt) : SkPt :=
  let m := skP
  if p.z == 0 || p.y == 0 then skInf else
  let yy := p.y * p.y % m
  let s := 4 * p.x % m * yy % m
  let mm := 3 * (p.x * p.x % m) % m
  let x' := subMod (mm * mm) (2 * s) m
  let y' := subMod (mm * subMod s x' m) (8 * (yy * yy % m)) m
  ⟨x', y', 2 * p.y % m * p.z % m⟩

def skAdd (p q : SkPt) : SkPt :=
  let m := skP
  if p.z == 0 then q else if q.z == 0 then p else
  let z1z1 := p.z * p.z % m
  let z2z2 := q.z * q.z % m
  let u1 := p.x * z2z2 % m
  let u2 := q.x * z1z1 % m
  let s1 := p.y * q.z % m * z2z2 % m
  let s2 := q.y * p.z % m * z1z1 % m
  if u1 == u2 then (if s1 == s2 then skDouble p else skInf) else
  let h := subMod u2 u1 m
  let r := subMod s2 s1 m
  let hh := h * h % m
  let hhh := hh * h % m
  let v := u1 * hh % m
  let x3 := subMod (subMod (r * r) hhh m) (2 * v) m
  let y3 := subMod (r * subMod v x3 m) (s1 * hhh) m
  ⟨x3, y3, h * p.z % m * q.z % m⟩

def skMul (k : Nat) (p : SkPt) : SkPt := Id.run do
  let mut r := skInf
  let mut q := p
  let mut e := k
  for _ in [0:k.log2 + 1] do
    if e % 2 == 1 then r := skAdd r q
    q := skDouble q
    e := e / 2
  return r

/-- affine coordinates of a finite point -/
def skAffine (p : SkPt) : Option (Nat × Nat) :=
  if p.z == 0 then none else
  let zi := powMod p.z (skP - 2) skP
  let zi2 := zi * zi % skP
  some (p.x * zi2 % skP, p.y * zi2 % skP * zi % skP)

def skOnCurve (x y : Nat) : Bool := x < skP && y < skP && (y * y) % skP == (x * x % skP * x + 7) % skP

/-- lift x to a curve point with the given parity of y -/
def skLift (x : Nat) (odd : Bool) : Option SkPt :=
  if x ≥ skP then none else
  let rhs := (x * x % skP * x + 7) % skP
  let y := powMod rhs ((skP + 1) / 4) skP
  if y * y % skP ≠ rhs then none else
  let y := if (y % 2 == 1) == odd then y else skP - y
  some ⟨x, y, 1⟩

/-- public key parsing: 65-byte uncompressed (0x04) or 33-byte compressed (0x02/0x03) -/
def skParsePub (b : Bytes) : Option SkPt :=
  match b with
  | 4 :: rest => if rest.length ≠ 64 then none else
      let x := natOfBE (rest.take 32)
      let y := natOfBE (rest.drop 32)
      if skOnCurve x y then some ⟨x, y, 1⟩ else none
  | 2 :: rest => if rest.length ≠ 32 then none else skLift (natOfBE rest) false
  | 3 :: rest => if rest.length ≠ 32 then none else skLift (natOfBE rest) true
  | _ => none

/-- ECDSA verification on a 32-byte digest, 64-byte (r‖s) signature; r, s in [1, n−1]; high-s rejected
    (libsecp256k1 `secp256k1_ecdsa_verify` on a parsed compact signature, as go-ethereum and Substrate v2) -/
def ecdsaVerify (pub msg sig : Bytes) : Bool :=
  if msg.length ≠ 32 ∨ sig.length ≠ 64 then false else
  match skParsePub pub with
  | none => false
  | some q =>
    let r := natOfBE (sig.take 32)
    let s := natOfBE (sig.drop 32)
    if r == 0 || s == 0 || r ≥ skN || s ≥ skN || s > skN / 2 then false else
    let z := natOfBE msg
    let w := powMod s (skN - 2) skN
    let u1 := z * w % skN
    let u2 := r * w % skN
    match skAffine (skAdd (skMul u1 skG) (skMul u2 q)) with
    | none => false
    | some (x, _) => x % skN == r

/-- public key recovery from a 65-byte (r‖s‖v) signature, v in 0..3 after the optional −27;
    returns the 64-byte x‖y -/
def ecdsaRecover (msg sig : Bytes) : Option Bytes :=
  if msg.length ≠ 32 ∨ sig.length ≠ 65 then none else
  let v0 := (sig.getD 64 0).toNat
  let v := if v0 ≥ 27 then v0 - 27 else v0
  if v > 3 then none else
  let r := natOfBE (sig.take 32)
  let s := natOfBE ((sig.drop 32).take 32)
  if r == 0 || s == 0 || r ≥ skN || s ≥ skN then none else
  let x := r + (if v ≥ 2 then skN else 0)
  match skLift x (v % 2 == 1) with
  | none => none
  | some rp =>
    let z := natOfBE msg
    let ri := powMod r (skN - 2) skN
    let u1 := subMod 0 (z * ri) skN
    let u2 := s * ri % skN
    match skAffine (skAdd (skMul u1 skG) (skMul u2 rp)) with
    | none => none
    | some (qx, qy) => some (beBytes 32 qx ++ beBytes 32 qy)

end Gossamer.SigRef
