/-
C21: with at most one third equivocators the blocks with more than two thirds of the votes lie on one chain;
the cap of a vote is the highest ancestor at or below the authority change.
-/
import Gossamer.Lib.C21Ghost
namespace Gossamer.C21

theorem countP_add_le {α : Type} (l : List α) (p q : α → Bool) (h : ∀ x ∈ l, ¬(p x = true ∧ q x = true)) :
    l.countP p + l.countP q ≤ l.length := by
  induction l with
  | nil => simp
  | cons x rest ih =>
    have ih' := ih (fun y hy => h y (List.mem_cons_of_mem _ hy))
    have hx := h x List.mem_cons_self
    rw [List.countP_cons, List.countP_cons, List.length_cons]
    by_cases hp : p x = true <;> by_cases hq : q x = true
    · exact absurd ⟨hp, hq⟩ hx
    · simp [hp, hq]; omega
    · simp [hp, hq]; omega
    · simp [hp, hq]; omega

/-- two blocks that each have more than two thirds of `n` (votes of distinct authorities plus at most `n/3`
equivocators) are on one chain -/
theorem super_comparable {c : Cfg} (hw : c.t.WF) {votes : List (Nat × Vote)} (hk : KnownVotes c votes)
    {e n : Nat} (hacc : votes.length + e ≤ n) (he : 3 * e ≤ n) {a b : Nat} (ha : a < c.t.size)
    (hb : b < c.t.size) (hat : thr n < cnt c.t votes a + e) (hbt : thr n < cnt c.t votes b + e) :
    a ∈ c.t.chain b ∨ b ∈ c.t.chain a := by
  apply Classical.byContradiction
  intro hn
  have hdis : cnt c.t votes a + cnt c.t votes b ≤ votes.length := by
    unfold cnt
    apply countP_add_le
    intro kv hkv ⟨h1, h2⟩
    have hv := (hk kv hkv).1
    have h1' : a ∈ c.t.chain kv.2.blk := (isDesc_yes_iff ha hv).1 (by simpa using h1)
    have h2' : b ∈ c.t.chain kv.2.blk := (isDesc_yes_iff hb hv).1 (by simpa using h2)
    exact hn (Tree.comparable hw h1' h2')
  unfold thr at hat hbt
  omega

/-- … hence the GRANDPA-GHOST (a deepest such block) is unique -/
theorem super_unique {c : Cfg} (hw : c.t.WF) {votes : List (Nat × Vote)} (hk : KnownVotes c votes)
    {e n : Nat} (hacc : votes.length + e ≤ n) (he : 3 * e ≤ n) {a b : Nat} (ha : a < c.t.size)
    (hb : b < c.t.size) (hat : thr n < cnt c.t votes a + e) (hbt : thr n < cnt c.t votes b + e)
    (hd : c.t.depth a = c.t.depth b) : a = b := by
  rcases super_comparable hw hk hacc he ha hb hat hbt with h | h
  · by_cases hne : a = b
    · exact hne
    · have := Tree.depth_lt' hw h hne; omega
  · by_cases hne : b = a
    · exact hne.symm
    · have := Tree.depth_lt' hw h hne; omega

/-- the first block of a chain (walking the parent links from `G`) that satisfies `p` is an ancestor of `G`
and a descendant of every other ancestor that satisfies `p` -/
theorem find_chain {t : Tree} (hw : t.WF) (p : Nat → Bool) : ∀ (G v : Nat),
    (t.chain G).find? p = some v → v ∈ t.chain G ∧ p v = true ∧ ∀ x ∈ t.chain G, p x = true → x ∈ t.chain v := by
  intro G
  induction G using Nat.strongRecOn with
  | _ G ih =>
    intro v hf
    by_cases hG0 : G = 0
    · subst hG0
      rw [Tree.chain_zero] at hf ⊢
      by_cases hp : p 0 = true
      · rw [List.find?_cons_of_pos hp] at hf
        cases hf
        refine ⟨List.mem_cons_self, hp, fun x hx _ => ?_⟩
        simp at hx; subst hx; exact t.mem_chain_self 0
      · rw [List.find?_cons_of_neg hp] at hf
        cases hf
    · have hpos : 0 < G := by omega
      rw [Tree.chain_pos hw hpos] at hf ⊢
      by_cases hp : p G = true
      · rw [List.find?_cons_of_pos hp] at hf
        cases hf
        refine ⟨List.mem_cons_self, hp, fun x hx _ => ?_⟩
        rw [← Tree.chain_pos hw hpos] at hx
        exact hx
      · rw [List.find?_cons_of_neg hp] at hf
        obtain ⟨h1, h2, h3⟩ := ih _ (Tree.parent_lt hw hpos) v hf
        refine ⟨List.mem_cons_of_mem _ h1, h2, fun x hx hpx => ?_⟩
        rcases List.mem_cons.1 hx with rfl | hx
        · exact absurd hpx hp
        · exact h3 x hx hpx

/-- a candidate of the closed form is a block of the tree with more than `th` total votes -/
theorem mem_cands_super {c : Cfg} {votes : List (Nat × Vote)} (hk : KnownVotes c votes) {e th b : Nat}
    (hb : b ∈ cands c votes e th) : b < c.t.size ∧ th < cnt c.t votes b + e := by
  unfold cands at hb
  by_cases hd : dirSel c votes e th = []
  · simp only [hd, List.isEmpty_nil, Bool.not_true, Bool.false_eq_true, if_false] at hb
    by_cases hv : votes.isEmpty = true
    · simp only [hv, if_true] at hb
      cases hb
    · simp only [hv, if_false] at hb
      exact mem_superBlocks.1 hb
  · have hde : (!(dirSel c votes e th).isEmpty) = true := by
      cases hh : dirSel c votes e th with
      | nil => exact absurd hh hd
      | cons _ _ => rfl
    simp only [hde, if_true] at hb
    obtain ⟨⟨kv, hkv, hkb⟩, ht⟩ := mem_dirSel.1 hb
    exact ⟨hkb ▸ (hk kv hkv).1, ht⟩

end Gossamer.C21
