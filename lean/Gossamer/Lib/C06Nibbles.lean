/-
C06 extension: byte-level model of `pkg/trie/triedb/nibbles` (`Nibbles`, `NodeKey`, `Prefix`,
`NibbleSlice`) and of `combineKey` (`triedb.go`): packed data plus nibble offset, as in the Go code.
Core Lean only.  The abstraction to plain nibble lists and the refinement proofs are in
`C06NibblesLemmas.lean`.

Go slices that are mutated in place (`ShiftKey`, `combineKey`, `NibbleSlice`) are values here: the
functions return the new value.  Calls are modelled for well-formed arguments (`offset ≤ 2·len(data)`,
indices in range): out-of-range indexing, which panics in Go, reads a zero byte here.
-/
import Gossamer.Model.C06
namespace Gossamer.C06.Nb
open Gossamer

/-- `nibbles.Nibbles{data, offset}` -/
structure PN where
  data : Bytes
  offset : Nat
deriving Repr, DecidableEq

/-- `nibbles.NodeKey{Offset, Data}` -/
structure NK where
  offset : Nat
  data : Bytes
deriving Repr, DecidableEq

/-- `nibbles.Prefix{Key, Padded}` -/
structure PFX where
  key : Bytes
  padded : Option UInt8
deriving Repr, DecidableEq

/-- `nibbles.Partial{First, PaddedNibble, Data}` -/
structure Partial where
  first : Nat
  paddedNibble : UInt8
  data : Bytes
deriving Repr, DecidableEq

/-- `nibbles.NibbleSlice{inner, len}` -/
structure NS where
  inner : Bytes
  len : Nat
deriving Repr, DecidableEq

def padLeft (b : UInt8) : UInt8 := b &&& 0xF0
def padRight (b : UInt8) : UInt8 := b &&& 0x0F

/-- `atLeft(ix, b)` -/
def atLeft (ix : Nat) (b : UInt8) : UInt8 := if ix = 1 then b &&& 0x0F else b >>> 4

/-- `PushAtLeft(ix, v, into)` -/
def pushAtLeft (ix : Nat) (v into : UInt8) : UInt8 := into ||| (if ix = 1 then v else v <<< 4)

namespace PN

/-- `Nibbles.At(i)` -/
def nib (n : PN) (i : Nat) : UInt8 := atLeft ((n.offset + i) % 2) (n.data.getD ((n.offset + i) / 2) 0)

/-- `Nibbles.Len()` -/
def len (n : PN) : Nat := 2 * n.data.length - n.offset

/-- `Nibbles.Mid(i)` (the data is cloned in Go) -/
def mid (n : PN) (i : Nat) : PN := { n with offset := n.offset + i }

/-- `Nibbles.Advance(i)`: `none` = panic("not enough nibbles to advance") -/
def advance (n : PN) (i : Nat) : Option PN := if n.len < i then none else some (n.mid i)

/-- `Nibbles.Left()` -/
def left (n : PN) : PFX :=
  let split := n.offset / 2
  if n.offset % 2 = 0 then { key := n.data.take split, padded := none }
  else { key := n.data.take split, padded := some (padLeft (n.data.getD split 0)) }

/-- `Nibbles.NodeKey()` -/
def nodeKey (n : PN) : NK := { offset := n.offset % 2, data := n.data.drop (n.offset / 2) }

/-- `NewNibblesFromNodeKey` -/
def ofNodeKey (k : NK) : PN := { data := k.data, offset := k.offset }

end PN

/-- `Prefix.JoinedBytes()` -/
def PFX.joined (p : PFX) : Bytes :=
  match p.padded with
  | some b => p.key ++ [b]
  | none => p.key

/-- `leftCommon` -/
def leftCommon (a b : UInt8) : Nat := if a = b then 2 else if padLeft a = padLeft b then 1 else 0

/-- `biggestDepth` -/
def biggestDepth : Bytes → Bytes → Nat
  | a :: as, b :: bs => if a ≠ b then leftCommon a b else 2 + biggestDepth as bs
  | _, _ => 0

/-- the nibble-by-nibble loop of `CommonPrefix` (offsets of different parity); `i` counts up to `s` -/
def cpLoop (n them : PN) : Nat → Nat → Nat
  | 0, i => i
  | fuel + 1, i => if n.nib i ≠ them.nib i then i else cpLoop n them fuel (i + 1)

/-- `Nibbles.CommonPrefix(them)` -/
def PN.commonPrefix (n them : PN) : Nat :=
  let selfAlign := n.offset % 2
  let themAlign := them.offset % 2
  if selfAlign = themAlign then
    let selfStart := n.offset / 2
    let themStart := them.offset / 2
    if selfAlign ≠ 0 then
      if padRight (n.data.getD selfStart 0) ≠ padRight (them.data.getD themStart 0) then 0
      else biggestDepth (n.data.drop (selfStart + 1)) (them.data.drop (themStart + 1)) + 1
    else biggestDepth (n.data.drop selfStart) (them.data.drop themStart)
  else
    cpLoop n them (min n.len them.len) 0

/-- `Nibbles.StartsWith(them)` -/
def PN.startsWith (n them : PN) : Bool := n.commonPrefix them == them.len

/-- `Nibbles.Equal(them)` -/
def PN.equal (n them : PN) : Bool := n.len == them.len && n.startsWith them

/-- the loop of `Nibbles.Compare` -/
def cmpLoop (n them : PN) : Nat → Nat → Option Int
  | 0, _ => none
  | fuel + 1, i =>
    if (n.nib i).toNat < (them.nib i).toNat then some (-1)
    else if (n.nib i).toNat > (them.nib i).toNat then some 1
    else cmpLoop n them fuel (i + 1)

/-- `Nibbles.Compare(other)` -/
def PN.compare (n them : PN) : Int :=
  match cmpLoop n them (min n.len them.len) 0 with
  | some r => r
  | none => if n.len < them.len then -1 else if n.len > them.len then 1 else 0

/-! ### `NodeKey.ShiftKey`, `NodeKeyRange`, `combineKey` -/

/-- shift left by one nibble: `data[i] = data[i]<<4 | data[i+1]>>4`, last byte `<<4` -/
def shiftLeft : Bytes → Bytes
  | [] => []
  | [a] => [a <<< 4]
  | a :: b :: r => (a <<< 4 ||| b >>> 4) :: shiftLeft (b :: r)

/-- shift right by one nibble after appending a zero byte: result has one more byte;
    `prev` is the byte before the current one (0 for the first) -/
def shiftRightFrom (prev : UInt8) : Bytes → Bytes
  | [] => [prev <<< 4]
  | a :: r => (prev <<< 4 ||| a >>> 4) :: shiftRightFrom a r

/-- `NodeKey.ShiftKey(offset)`: new key and "changed" -/
def NK.shiftKey (k : NK) (offset : Nat) : NK × Bool :=
  if k.offset > offset then ({ offset := offset, data := shiftLeft k.data }, true)
  else if k.offset < offset then ({ offset := offset, data := shiftRightFrom 0 k.data }, true)
  else ({ k with offset := offset }, false)

/-- `Nibbles.NodeKeyRange(nb)` -/
def PN.nodeKeyRange (n : PN) (nb : Nat) : NK :=
  if nb ≥ n.len then n.nodeKey
  else
    let start := n.offset / 2
    let e := (n.offset + nb) / 2
    if (n.offset + nb) % 2 = 0 then
      { offset := n.offset % 2, data := (n.data.drop start).take (e - start) }
    else
      let ea := (n.data.drop start).take (e + 1 - start)
      let r := (NK.shiftKey { offset := n.offset % 2, data := ea } (nb % 2)).1
      { r with data := r.data.dropLast }

/-- `combineKey(start, end)` (`triedb.go`) -/
def combineKey (s e : NK) : NK :=
  let finalOffset := (s.offset + e.offset) % 2
  let s1 := (s.shiftKey finalOffset).1
  if e.offset > 0 then
    let d := match s1.data.getLast? with
      | some l => s1.data.dropLast ++ [l ||| padRight (e.data.getD 0 0)]
      | none => s1.data
    { s1 with data := d ++ e.data.drop 1 }
  else { s1 with data := s1.data ++ e.data }

/-! ### `RightPartial`, `Right` -/

/-- `Nibbles.RightPartial()` -/
def PN.rightPartial (n : PN) : Partial :=
  let split := n.offset / 2
  let nb := n.len % 2
  if nb > 0 then { first := nb, paddedNibble := n.data.getD split 0, data := n.data.drop (split + 1) }
  else { first := 0, paddedNibble := 0, data := n.data.drop split }

/-- `Nibbles.Right()` -/
def PN.right (n : PN) : Bytes :=
  let p := n.rightPartial
  (if p.first > 0 then [padRight p.paddedNibble] else []) ++ p.data

/-! ### `NibbleSlice` -/

namespace NS

def empty : NS := { inner := [], len := 0 }

/-- replace the last byte -/
def setLast (l : Bytes) (b : UInt8) : Bytes := l.dropLast ++ [b]

/-- `NibbleSlice.Push(nibble)` -/
def push (n : NS) (nibble : UInt8) : NS :=
  if n.len % 2 = 0 then { inner := n.inner ++ [pushAtLeft 0 nibble 0], len := n.len + 1 }
  else { inner := setLast n.inner (pushAtLeft 1 nibble (n.inner.getLast?.getD 0)), len := n.len + 1 }

/-- `NibbleSlice.Pop()` -/
def pop (n : NS) : NS :=
  if n.len = 0 then n
  else
    let b := n.inner.getLast?.getD 0
    let inner := n.inner.dropLast
    let len := n.len - 1
    if len % 2 ≠ 0 then { inner := inner ++ [padLeft b], len := len } else { inner := inner, len := len }

/-- the unaligned copy loop of `AppendPartial`: `d[i]<<4 | d[i+1]>>4 …, d[last]<<4` -/
def shiftedTail : Bytes → Bytes
  | [] => []
  | [a] => [a <<< 4]
  | a :: b :: r => (a <<< 4 ||| b >>> 4) :: shiftedTail (b :: r)

/-- `NibbleSlice.AppendPartial(p)` -/
def appendPartial (n : NS) (p : Partial) : NS :=
  let n1 := if p.first = 1 then n.push (atLeft 1 p.paddedNibble) else n
  let pad := 2 * n1.inner.length - n1.len
  let inner :=
    if pad = 0 then n1.inner ++ p.data
    else
      match p.data with
      | [] => n1.inner
      | d0 :: _ =>
        setLast n1.inner (padLeft (n1.inner.getLast?.getD 0) ||| d0 >>> 4) ++ shiftedTail p.data
  { inner := inner, len := n1.len + 2 * p.data.length }

/-- `NibbleSlice.AppendOptionalSliceAndNibble(slice, index)`: new slice and the count returned -/
def appendOpt (n : NS) (slice : Option PN) (index : Option UInt8) : NS × Nat :=
  let (n1, r1) := match slice with
    | some s => (n.appendPartial s.rightPartial, s.len)
    | none => (n, 0)
  match index with
  | some i => (n1.push i, r1 + 1)
  | none => (n1, r1)

/-- `NibbleSlice.Prefix()` -/
def pfx (n : NS) : PFX :=
  let split := n.len / 2
  if n.len % 2 = 0 then { key := n.inner.take split, padded := none }
  else { key := n.inner.take split, padded := some (padLeft (n.inner.getD split 0)) }

/-- `NibbleSlice.DropLasts(num)` -/
def dropLasts (n : NS) (num : Nat) : NS :=
  if num = 0 then n
  else if num ≥ n.len then empty
  else
    let e := n.len - num
    let endIndex := e / 2 + e % 2
    let inner := n.inner.take endIndex
    if e % 2 ≠ 0 then { inner := setLast inner (padLeft (inner.getLast?.getD 0)), len := e }
    else { inner := inner, len := e }

end NS

end Gossamer.C06.Nb
