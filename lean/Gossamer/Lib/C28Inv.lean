/-
C28: the heap invariant (with ghost state: the blocks carved so far and the free list of every order)
and the helper lemmas of its preservation proof.
-/
import Gossamer.Lib.C28Spec
namespace Gossamer.C28
variable {S : Store}

/-- end of the block whose header is at `b.1` and whose order is `b.2` -/
def bend (b : Nat × Nat) : Nat := b.1 + 8 + osize b.2

/-- two blocks (header included) do not overlap -/
def Disj (a b : Nat × Nat) : Prop := bend a ≤ b.1 ∨ bend b ≤ a.1

/-- ghost state of the proof -/
structure Ghost where
  /-- every block ever carved by `bump`: (header address, order) -/
  blocks : List (Nat × Nat)
  /-- for every order the header addresses on its free list, head first -/
  fl : Nat → List Nat

/-- the memory holds a well-formed free list starting at raw link `h` and visiting exactly `l` -/
def Chain (b : S.σ) : Nat → List Nat → Prop
  | h, [] => h = NIL
  | h, p :: l => h = p ∧ p ≠ NIL ∧ le64 b p < U32 ∧ Chain b (le64 b p) l

/-- geometry: holds in every reachable state, poisoned or not -/
structure Geo (r : Run S) (g : Ghost) : Prop where
  base8 : r.s.base % 8 = 0
  bump8 : r.s.bumper % 8 = 0
  base_le : r.s.base ≤ r.s.bumper
  bump_lt : r.s.bumper < U32
  blk : ∀ b ∈ g.blocks, b.1 % 8 = 0 ∧ r.s.base ≤ b.1 ∧ bend b ≤ r.s.bumper ∧ b.2 < 23 ∧ bend b ≤ r.m.size
  disj : ∀ b1 ∈ g.blocks, ∀ b2 ∈ g.blocks, b1 = b2 ∨ Disj b1 b2
  live_blk : ∀ e ∈ r.live, 8 ≤ e.1 ∧ (e.1 - 8, e.2) ∈ g.blocks
  live_nodup : r.live.Pairwise (fun a b => a.1 ≠ b.1)

/-- headers and free lists: holds while the allocator is not poisoned -/
structure Heap (r : Run S) (g : Ghost) : Prop where
  live_hdr : ∀ e ∈ r.live, le64 r.m.bytes (e.1 - 8) = OCC + e.2
  chain : ∀ o, o < 23 → Chain r.m.bytes (r.s.heads o) (g.fl o)
  fl_blk : ∀ o, o < 23 → ∀ h ∈ g.fl o, (h, o) ∈ g.blocks ∧ ∀ e ∈ r.live, e.1 ≠ h + 8
  fl_nodup : ∀ o, o < 23 → (g.fl o).Nodup
  freed : ∀ p ∈ r.freed, 8 ≤ p ∧ ∃ o, o < 23 ∧ (p - 8) ∈ g.fl o

def Inv (r : Run S) (g : Ghost) : Prop := Geo r g ∧ (r.s.poisoned = false → Heap r g)

/-! ## blocks -/

theorem bend_gt (b : Nat × Nat) : b.1 + 16 ≤ bend b := by
  have := osize_pos b.2; unfold bend; omega

theorem blk_same_hdr {r : Run S} {g : Ghost} (hG : Geo r g) {b1 b2 : Nat × Nat}
    (h1 : b1 ∈ g.blocks) (h2 : b2 ∈ g.blocks) (h : b1.1 = b2.1) : b1 = b2 := by
  rcases hG.disj b1 h1 b2 h2 with h' | h'
  · exact h'
  · have := bend_gt b1; have := bend_gt b2; unfold Disj at h'; omega

theorem blk_sep {r : Run S} {g : Ghost} (hG : Geo r g) {b1 b2 : Nat × Nat}
    (h1 : b1 ∈ g.blocks) (h2 : b2 ∈ g.blocks) (h : b1.1 ≠ b2.1) : Disj b1 b2 := by
  rcases hG.disj b1 h1 b2 h2 with h' | h'
  · exact absurd (congrArg Prod.fst h') h
  · exact h'

/-! ## chains -/

theorem Chain_put64 (hS : S.Lawful) (b : S.σ) (a v : Nat) (l : List Nat) :
    ∀ hd, (∀ h ∈ l, h + 8 ≤ a ∨ a + 8 ≤ h) → Chain b hd l → Chain (put64 b a v) hd l := by
  induction l with
  | nil => intro hd _ h; exact h
  | cons p l ih =>
    intro hd hsep h
    obtain ⟨h1, h2, h3, h4⟩ := h
    have hp := hsep p (List.mem_cons_self ..)
    have e : le64 (put64 b a v) p = le64 b p := le64_put64_other hS b a v p hp
    refine ⟨h1, h2, by rw [e]; exact h3, ?_⟩
    rw [e]
    exact ih _ (fun h hh => hsep h (List.mem_cons_of_mem _ hh)) h4

theorem Chain_head {b : S.σ} {hd : Nat} {l : List Nat} (h : Chain b hd l) : hd = NIL ∨ hd ∈ l := by
  cases l with
  | nil => exact Or.inl h
  | cons p l => exact Or.inr (by rw [h.1]; exact List.mem_cons_self ..)

theorem Chain_mem_free {b : S.σ} {l : List Nat} : ∀ {hd : Nat}, Chain b hd l → ∀ h ∈ l, le64 b h < U32 := by
  induction l with
  | nil => intro _ _ h hh; cases hh
  | cons p l ih =>
    intro hd hc h hh
    obtain ⟨_, _, h3, h4⟩ := hc
    rcases List.mem_cons.mp hh with rfl | hh
    · exact h3
    · exact ih h4 h hh

theorem Chain_cons_of_ne_nil {b : S.σ} {hd : Nat} {l : List Nat} (h : Chain b hd l) (hne : hd ≠ NIL) :
    ∃ rest, l = hd :: rest ∧ le64 b hd < U32 ∧ Chain b (le64 b hd) rest := by
  cases l with
  | nil => exact absurd h hne
  | cons p l =>
    obtain ⟨h1, _, h3, h4⟩ := h
    subst h1
    exact ⟨l, rfl, h3, h4⟩

/-! ## the guest's list of live allocations -/

theorem eraseLive_sublist (p : Nat) (l : List (Nat × Nat)) : (eraseLive p l).Sublist l := by
  induction l with
  | nil => exact List.Sublist.refl _
  | cons x xs ih =>
    unfold eraseLive
    split
    · exact List.sublist_cons_self x xs
    · exact List.Sublist.cons_cons x ih

theorem mem_eraseLive {p : Nat} {l : List (Nat × Nat)} (hn : l.Pairwise (fun a b => a.1 ≠ b.1))
    {e : Nat × Nat} (he : e ∈ eraseLive p l) : e ∈ l ∧ e.1 ≠ p := by
  induction l with
  | nil => cases he
  | cons x xs ih =>
    rw [List.pairwise_cons] at hn
    unfold eraseLive at he
    split at he
    · rename_i hx
      refine ⟨List.mem_cons_of_mem _ he, ?_⟩
      have := hn.1 e he
      rw [hx] at this
      exact fun h => this h.symm
    · rename_i hx
      rcases List.mem_cons.mp he with rfl | he
      · exact ⟨List.mem_cons_self .., hx⟩
      · have := ih hn.2 he
        exact ⟨List.mem_cons_of_mem _ this.1, this.2⟩

/-! ## equations of `Run.step` -/

theorem step_alloc_ok {r : Run S} {n : Nat} {s' : St} {m' : Mem S} {p : Nat}
    (h : allocate r.s r.m n = (s', m', .ok p)) :
    (r.step (.alloc n)).1 = { s := s', m := m', live := (p, (orderFromSize n).getD 0) :: r.live,
                              freed := r.freed.filter (· ≠ p) } := by
  simp only [Run.step, h]

theorem step_alloc_err {r : Run S} {n : Nat} {s' : St} {m' : Mem S} {e : Err}
    (h : allocate r.s r.m n = (s', m', .error e)) :
    (r.step (.alloc n)).1 = { r with s := s', m := m' } := by
  simp only [Run.step, h]

theorem step_free_ok {r : Run S} {p : Nat} {s' : St} {m' : Mem S}
    (h : deallocate r.s r.m p = (s', m', .ok ())) :
    (r.step (.free p)).1 = { s := s', m := m', live := eraseLive p r.live, freed := p :: r.freed } := by
  simp only [Run.step, h]

theorem step_free_err {r : Run S} {p : Nat} {s' : St} {m' : Mem S} {e : Err}
    (h : deallocate r.s r.m p = (s', m', .error e)) :
    (r.step (.free p)).1 = { r with s := s', m := m' } := by
  simp only [Run.step, h]

theorem step_poke {r : Run S} {a v : Nat} :
    (r.step (.poke a v)).1 = if a + 8 ≤ r.m.size then { r with m := { r.m with bytes := put64 r.m.bytes a v } } else r := by
  by_cases h : a + 8 ≤ r.m.size
  · simp only [Run.step, Mem.write64, if_pos h]
  · simp only [Run.step, Mem.write64, if_neg h]

theorem step_grow {r : Run S} {d : Nat} :
    (r.step (.grow d)).1 = if r.m.pages + d ≤ r.m.maxPages then { r with m := { r.m with pages := r.m.pages + d } } else r := by
  by_cases h : r.m.pages + d ≤ r.m.maxPages
  · simp only [Run.step, Mem.grow, if_pos h]
  · simp only [Run.step, Mem.grow, if_neg h]

/-! ## transfer of the geometry to a run that differs only in irrelevant fields -/

theorem Geo_transfer {r r' : Run S} {g : Ghost} (hG : Geo r g)
    (h1 : r'.s.base = r.s.base) (h2 : r'.s.bumper = r.s.bumper) (h3 : r.m.size ≤ r'.m.size)
    (h4 : r'.live = r.live) : Geo r' g := by
  refine ⟨by rw [h1]; exact hG.base8, by rw [h2]; exact hG.bump8, by rw [h1, h2]; exact hG.base_le,
    by rw [h2]; exact hG.bump_lt, ?_, hG.disj, by rw [h4]; exact hG.live_blk, by rw [h4]; exact hG.live_nodup⟩
  intro b hb
  obtain ⟨a1, a2, a3, a4, a5⟩ := hG.blk b hb
  exact ⟨a1, by rw [h1]; exact a2, by rw [h2]; exact a3, a4, by omega⟩

end Gossamer.C28
