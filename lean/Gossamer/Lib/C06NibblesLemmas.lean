/-
C06 extension: the byte-level nibble helpers (`C06Nibbles.lean`) refine their counterparts on plain
nibble lists.  `PN.abs` / `NK.abs` / `NS.abs` / `PFX.abs` are the abstraction functions.
-/
import Gossamer.Lib.C06Nibbles
import Gossamer.Lib.TrieDBRows
set_option linter.unusedSectionVars false
set_option linter.unusedSimpArgs false
namespace Gossamer.C06.Nb
open Gossamer Gossamer.Trie

/-- a nibble as the byte the Go code passes around -/
def nv (x : Nib) : UInt8 := UInt8.ofNat x.val

/-! ### bytes and nibbles (each fact is checked on all 256 bytes / 256 nibble pairs) -/

theorem ofNat_toNat (b : UInt8) : UInt8.ofNat b.toNat = b := by simp

set_option maxRecDepth 8192 in
theorem byte_facts : ∀ n : Fin 256,
    let b := UInt8.ofNat n.val
    b >>> 4 = nv (hiNib b) ∧ b &&& 0x0F = nv (loNib b) ∧ b &&& 0xF0 = byteOf (hiNib b) 0 ∧
    b <<< 4 = byteOf (loNib b) 0 ∧ b >>> 4 = byteOf 0 (hiNib b) := by decide

theorem byte_fact (b : UInt8) :
    b >>> 4 = nv (hiNib b) ∧ b &&& 0x0F = nv (loNib b) ∧ b &&& 0xF0 = byteOf (hiNib b) 0 ∧
    b <<< 4 = byteOf (loNib b) 0 ∧ b >>> 4 = byteOf 0 (hiNib b) := by
  have := byte_facts ⟨b.toNat, b.toNat_lt⟩
  simpa using this

theorem shr4 (b : UInt8) : b >>> 4 = nv (hiNib b) := (byte_fact b).1
theorem and0F (b : UInt8) : b &&& 0x0F = nv (loNib b) := (byte_fact b).2.1
theorem andF0 (b : UInt8) : b &&& 0xF0 = byteOf (hiNib b) 0 := (byte_fact b).2.2.1
theorem shl4 (b : UInt8) : b <<< 4 = byteOf (loNib b) 0 := (byte_fact b).2.2.2.1
theorem shr4' (b : UInt8) : b >>> 4 = byteOf 0 (hiNib b) := (byte_fact b).2.2.2.2

theorem nib_pair_facts : ∀ x y : Nib,
    byteOf x 0 ||| byteOf 0 y = byteOf x y ∧ byteOf x 0 ||| nv y = byteOf x y ∧
    nv y = byteOf 0 y ∧ (nv y) <<< 4 = byteOf y 0 := by decide

theorem or_nibs (x y : Nib) : byteOf x 0 ||| byteOf 0 y = byteOf x y := (nib_pair_facts x y).1
theorem or_nv (x y : Nib) : byteOf x 0 ||| nv y = byteOf x y := (nib_pair_facts x y).2.1
theorem nv_eq (y : Nib) : nv y = byteOf 0 y := (nib_pair_facts 0 y).2.2.1
theorem nv_shl (y : Nib) : (nv y) <<< 4 = byteOf y 0 := (nib_pair_facts 0 y).2.2.2

theorem nv_inj : ∀ x y : Nib, nv x = nv y → x = y := by decide

theorem hi_byteOf (a b : Nib) : hiNib (byteOf a b) = a := (nibs_of_byteOf a b).1
theorem lo_byteOf (a b : Nib) : loNib (byteOf a b) = b := (nibs_of_byteOf a b).2

/-! ### `toNibs` -/

theorem toNibs_append (a b : Bytes) : toNibs (a ++ b) = toNibs a ++ toNibs b := by
  induction a with
  | nil => rfl
  | cons x r ih => simp [toNibs, ih]

theorem toNibs_drop (d : Bytes) (s : Nat) : (toNibs d).drop (2 * s) = toNibs (d.drop s) := by
  induction s generalizing d with
  | zero => simp
  | succ s ih =>
    cases d with
    | nil => simp [toNibs]
    | cons x r =>
      have : 2 * (s + 1) = 2 * s + 2 := by omega
      rw [this]
      simp [toNibs, ih]

theorem toNibs_take (d : Bytes) (s : Nat) : (toNibs d).take (2 * s) = toNibs (d.take s) := by
  induction s generalizing d with
  | zero => simp [toNibs]
  | succ s ih =>
    cases d with
    | nil => simp [toNibs]
    | cons x r =>
      have : 2 * (s + 1) = 2 * s + 2 := by omega
      rw [this]
      simp [toNibs, ih]

/-- the nibble at an even / odd position -/
theorem toNibs_get (d : Bytes) (j : Nat) (h : j < (toNibs d).length) :
    (toNibs d)[j] = if j % 2 = 0 then hiNib (d.getD (j / 2) 0) else loNib (d.getD (j / 2) 0) := by
  induction d generalizing j with
  | nil => simp [toNibs] at h
  | cons x r ih =>
    match j with
    | 0 => simp [toNibs]
    | 1 => simp [toNibs]
    | j + 2 =>
      have hj : j < (toNibs r).length := by simp [toNibs] at h; omega
      have := ih j hj
      simp only [toNibs, List.getElem_cons_succ]
      rw [this]
      have e1 : (j + 2) % 2 = j % 2 := by omega
      have e2 : (j + 2) / 2 = j / 2 + 1 := by omega
      simp [e1, e2]

/-! ### abstraction functions -/

/-- the nibbles a `Nibbles` view stands for -/
def PN.abs (n : PN) : Nibs := (toNibs n.data).drop n.offset

/-- the offset points into the data -/
def PN.WF (n : PN) : Prop := n.offset ≤ 2 * n.data.length

def NK.abs (k : NK) : Nibs := (toNibs k.data).drop k.offset

/-- offset 0 or 1, and offset 1 only with a first byte to skip half of -/
def NK.WF (k : NK) : Prop := k.offset ≤ 1 ∧ (k.offset = 1 → k.data ≠ [])

def PFX.abs (p : PFX) : Nibs :=
  toNibs p.key ++ (match p.padded with | some b => [hiNib b] | none => [])

/-! ### `Len`, `At`, `Mid`, `Advance`, `NodeKey` -/

theorem C06_nibbles_len_refines (n : PN) : n.len = n.abs.length := by
  simp [PN.len, PN.abs, length_toNibs]

theorem C06_nibbles_at_refines (n : PN) (i : Nat) (h : i < n.abs.length) :
    n.nib i = nv (n.abs[i]) := by
  have hlen : n.offset + i < (toNibs n.data).length := by
    simp [PN.abs] at h; omega
  simp only [PN.abs, List.getElem_drop, PN.nib, atLeft]
  rw [toNibs_get n.data (n.offset + i) hlen]
  by_cases hp : (n.offset + i) % 2 = 0
  · have : ¬ (n.offset + i) % 2 = 1 := by omega
    simp [hp, this, shr4]
  · have : (n.offset + i) % 2 = 1 := by omega
    simp [this, and0F]

theorem C06_nibbles_mid_refines (n : PN) (i : Nat) : (n.mid i).abs = n.abs.drop i := by
  simp [PN.mid, PN.abs, List.drop_drop, Nat.add_comm]

theorem C06_nibbles_advance_refines (n : PN) (i : Nat) :
    (i ≤ n.abs.length → ∃ m, n.advance i = some m ∧ m.abs = n.abs.drop i) ∧
    (n.abs.length < i → n.advance i = none) := by
  rw [← C06_nibbles_len_refines]
  constructor
  · intro h
    exact ⟨n.mid i, by simp [PN.advance]; omega, C06_nibbles_mid_refines n i⟩
  · intro h; simp [PN.advance, h]

theorem C06_nibbles_nodeKey_refines (n : PN) :
    n.nodeKey.abs = n.abs ∧ (PN.ofNodeKey n.nodeKey).abs = n.abs ∧ n.nodeKey.offset ≤ 1 := by
  have h : (toNibs (n.data.drop (n.offset / 2))).drop (n.offset % 2) = (toNibs n.data).drop n.offset := by
    rw [← toNibs_drop, List.drop_drop]
    congr 1; omega
  exact ⟨h, h, by simp [PN.nodeKey]; omega⟩

/-! ### `Left` and `Prefix.JoinedBytes`: the database-key prefix -/

theorem prefixBytes_snoc (a : Bytes) (h : Nib) : prefixBytes (toNibs a ++ [h]) = a ++ [byteOf h 0] := by
  induction a with
  | nil => rfl
  | cons x r ih => simp [toNibs, prefixBytes, ih, byteOf_hi_lo]

theorem toNibs_take_odd (d : Bytes) (s : Nat) (hs : s < d.length) :
    (toNibs d).take (2 * s + 1) = toNibs (d.take s) ++ [hiNib (d.getD s 0)] := by
  induction s generalizing d with
  | zero =>
    cases d with
    | nil => simp at hs
    | cons x r => simp [toNibs]
  | succ s ih =>
    cases d with
    | nil => simp at hs
    | cons x r =>
      have : 2 * (s + 1) + 1 = (2 * s + 1) + 2 := by omega
      rw [this]
      have hs' : s < r.length := by simpa using hs
      simp [toNibs, ih r hs']

/-- `Left()` is the packed form of the nibbles consumed so far, and `JoinedBytes()` is exactly the
    `prefixBytes` of the model's database keys -/
theorem C06_nibbles_left_refines (n : PN) (h : n.WF) :
    n.left.abs = (toNibs n.data).take n.offset ∧
    n.left.joined = prefixBytes ((toNibs n.data).take n.offset) := by
  unfold PN.WF at h
  by_cases hp : n.offset % 2 = 0
  · have ho : n.offset = 2 * (n.offset / 2) := by omega
    simp only [PN.left, hp, if_true, PFX.abs, PFX.joined, List.append_nil]
    rw [ho, toNibs_take, prefixBytes_toNibs]
    simp
  · obtain ⟨s, hs⟩ : ∃ s, n.offset = 2 * s + 1 := ⟨n.offset / 2, by omega⟩
    have hdiv : n.offset / 2 = s := by omega
    have hlt : s < n.data.length := by omega
    simp only [PN.left, hp, if_false, PFX.abs, PFX.joined, hdiv]
    have h1 : padLeft (n.data.getD s 0) = byteOf (hiNib (n.data.getD s 0)) 0 := andF0 _
    rw [h1, hi_byteOf, hs, toNibs_take_odd _ _ hlt, prefixBytes_snoc]
    simp

/-- the database-key prefix determines the nibble path up to the zero padding of an odd path:
    equal prefixes of paths of equal length come from equal paths -/
theorem C06_nibbles_prefix_injective (p q : Nibs) (h : prefixBytes p = prefixBytes q) :
    (p.length = q.length → p = q) ∧
    (p = q ∨ (q.length % 2 = 1 ∧ p = q ++ [0]) ∨ (p.length % 2 = 1 ∧ q = p ++ [0])) := by
  have := prefixBytes_eq p q h
  refine ⟨fun hl => ?_, this⟩
  rcases this with h | ⟨_, h⟩ | ⟨_, h⟩
  · exact h
  · rw [h] at hl; simp at hl
  · rw [h] at hl; simp at hl

/-! ### `CommonPrefix`, `StartsWith`, `Equal` -/

theorem nib_bytes_eq (a b : UInt8) : a = b ↔ hiNib a = hiNib b ∧ loNib a = loNib b :=
  (nib_eq_iff a b).symm

theorem biggestDepth_eq (a b : Bytes) : biggestDepth a b = Trie.lcpLen (toNibs a) (toNibs b) := by
  induction a generalizing b with
  | nil => cases b <;> simp [biggestDepth, toNibs, Trie.lcpLen]
  | cons x r ih =>
    cases b with
    | nil => simp [biggestDepth, toNibs, Trie.lcpLen]
    | cons y t =>
      simp only [biggestDepth, toNibs, Trie.lcpLen]
      by_cases hxy : x = y
      · subst hxy
        simp [ih]; omega
      · simp only [ne_eq, hxy, not_false_eq_true, if_true, leftCommon, if_false]
        have hne := hxy
        rw [nib_bytes_eq] at hne
        by_cases hh : hiNib x = hiNib y
        · have hl : ¬ loNib x = loNib y := fun e => hne ⟨hh, e⟩
          have : padLeft x = padLeft y := by simp [padLeft, andF0, hh]
          simp [this, hh, hl]
        · have : ¬ padLeft x = padLeft y := by
            intro e
            simp only [padLeft, andF0] at e
            exact hh (by have := congrArg hiNib e; simpa [hi_byteOf] using this)
          simp [this, hh]

theorem lcpLen_drop_succ (a b : Nibs) (i : Nat) (ha : i < a.length) (hb : i < b.length)
    (h : a[i] = b[i]) :
    Trie.lcpLen (a.drop i) (b.drop i) = Trie.lcpLen (a.drop (i + 1)) (b.drop (i + 1)) + 1 := by
  rw [List.drop_eq_getElem_cons ha, List.drop_eq_getElem_cons hb]
  simp [Trie.lcpLen, h]

theorem lcpLen_drop_ne (a b : Nibs) (i : Nat) (ha : i < a.length) (hb : i < b.length)
    (h : a[i] ≠ b[i]) : Trie.lcpLen (a.drop i) (b.drop i) = 0 := by
  rw [List.drop_eq_getElem_cons ha, List.drop_eq_getElem_cons hb]
  simp [Trie.lcpLen, h]

theorem lcpLen_le_min (a b : Nibs) : Trie.lcpLen a b ≤ min a.length b.length := by
  induction a generalizing b with
  | nil => cases b <;> simp [Trie.lcpLen]
  | cons x r ih =>
    cases b with
    | nil => simp [Trie.lcpLen]
    | cons y t =>
      simp only [Trie.lcpLen]
      split
      · have := ih t; simp; omega
      · simp

theorem cpLoop_eq (n them : PN) : ∀ fuel i, i + fuel = min n.abs.length them.abs.length →
    cpLoop n them fuel i = i + Trie.lcpLen (n.abs.drop i) (them.abs.drop i) := by
  intro fuel
  induction fuel with
  | zero =>
    intro i hi
    have := lcpLen_le_min (n.abs.drop i) (them.abs.drop i)
    simp at this
    simp [cpLoop]; omega
  | succ f ih =>
    intro i hi
    have h1 : i < n.abs.length := by omega
    have h2 : i < them.abs.length := by omega
    simp only [cpLoop, C06_nibbles_at_refines n i h1, C06_nibbles_at_refines them i h2]
    by_cases he : n.abs[i] = them.abs[i]
    · simp only [he, ne_eq, not_true_eq_false, if_false]
      rw [ih (i + 1) (by omega), lcpLen_drop_succ _ _ i h1 h2 he]; omega
    · have : nv n.abs[i] ≠ nv them.abs[i] := fun e => he (nv_inj _ _ e)
      simp only [ne_eq, this, not_false_eq_true, if_true]
      rw [lcpLen_drop_ne _ _ i h1 h2 he]
      omega

/-- `CommonPrefix` (both code paths: byte-wise for equal alignment, nibble-wise otherwise) is the
    length of the common prefix of the two nibble strings -/
theorem C06_nibbles_commonPrefix_refines (n them : PN) (h1 : n.WF) (h2 : them.WF) :
    n.commonPrefix them = Trie.lcpLen n.abs them.abs := by
  unfold PN.WF at h1 h2
  unfold PN.commonPrefix
  simp only
  by_cases hal : n.offset % 2 = them.offset % 2
  · simp only [hal, if_true]
    by_cases h0 : them.offset % 2 = 0
    · have hn0 : n.offset % 2 = 0 := by omega
      simp only [h0, ne_eq, not_true_eq_false, if_false]
      rw [biggestDepth_eq, ← toNibs_drop, ← toNibs_drop]
      have e1 : 2 * (n.offset / 2) = n.offset := by omega
      have e2 : 2 * (them.offset / 2) = them.offset := by omega
      rw [e1, e2]; rfl
    · have hn1 : n.offset % 2 = 1 := by omega
      have ht1 : them.offset % 2 = 1 := by omega
      simp only [h0, ne_eq, not_false_eq_true, if_true]
      have hl1 : n.offset < (toNibs n.data).length := by rw [length_toNibs]; omega
      have hl2 : them.offset < (toNibs them.data).length := by rw [length_toNibs]; omega
      have g1 := toNibs_get n.data n.offset hl1
      have g2 := toNibs_get them.data them.offset hl2
      simp only [hn1, ht1] at g1 g2
      have d1 : n.abs = loNib (n.data.getD (n.offset / 2) 0) :: toNibs (n.data.drop (n.offset / 2 + 1)) := by
        unfold PN.abs
        rw [List.drop_eq_getElem_cons hl1, g1, ← toNibs_drop]
        have : 2 * (n.offset / 2 + 1) = n.offset + 1 := by omega
        rw [this]; simp
      have d2 : them.abs = loNib (them.data.getD (them.offset / 2) 0) ::
          toNibs (them.data.drop (them.offset / 2 + 1)) := by
        unfold PN.abs
        rw [List.drop_eq_getElem_cons hl2, g2, ← toNibs_drop]
        have : 2 * (them.offset / 2 + 1) = them.offset + 1 := by omega
        rw [this]; simp
      rw [d1, d2]
      simp only [padRight, and0F, Trie.lcpLen]
      generalize loNib (n.data.getD (n.offset / 2) 0) = a
      generalize loNib (them.data.getD (them.offset / 2) 0) = b
      by_cases hq : a = b
      · subst hq; simp [biggestDepth_eq]
      · have : nv a ≠ nv b := fun e => hq (nv_inj _ _ e)
        simp [this, hq]
  · simp only [hal, if_false]
    rw [C06_nibbles_len_refines, C06_nibbles_len_refines, cpLoop_eq n them _ 0 (by simp)]
    simp

theorem lcpLen_eq_length_iff (a b : Nibs) : Trie.lcpLen a b = b.length ↔ b.isPrefixOf a = true := by
  induction a generalizing b with
  | nil => cases b <;> simp [Trie.lcpLen]
  | cons x r ih =>
    cases b with
    | nil => simp [Trie.lcpLen]
    | cons y t =>
      simp only [Trie.lcpLen, List.isPrefixOf, List.length_cons]
      by_cases hxy : x = y
      · subst hxy; simp [ih]
      · have : ¬ y = x := fun e => hxy e.symm
        simp [hxy, this]

/-- `StartsWith` and `Equal` -/
theorem C06_nibbles_startsWith_refines (n them : PN) (h1 : n.WF) (h2 : them.WF) :
    n.startsWith them = them.abs.isPrefixOf n.abs ∧ (n.equal them = true ↔ n.abs = them.abs) := by
  have hcp := C06_nibbles_commonPrefix_refines n them h1 h2
  have hsw : n.startsWith them = them.abs.isPrefixOf n.abs := by
    unfold PN.startsWith
    rw [hcp, C06_nibbles_len_refines]
    cases hp : them.abs.isPrefixOf n.abs with
    | true => simpa using (lcpLen_eq_length_iff _ _).mpr hp
    | false =>
      have : ¬ Trie.lcpLen n.abs them.abs = them.abs.length := fun e => by
        rw [(lcpLen_eq_length_iff _ _).mp e] at hp; cases hp
      simpa using this
  refine ⟨hsw, ?_⟩
  unfold PN.equal
  rw [hsw, C06_nibbles_len_refines, C06_nibbles_len_refines]
  constructor
  · intro h
    simp only [Bool.and_eq_true, beq_iff_eq] at h
    obtain ⟨r, hr⟩ := isPrefixOf_iff.mp h.2
    have := congrArg List.length hr
    simp at this
    have hr0 : r = [] := List.eq_nil_of_length_eq_zero (by omega)
    rw [hr, hr0]; simp
  · intro h
    rw [h]; simp [isPrefixOf_self]

/-! ### `Right` (the packed partial key of the node encoding) -/

theorem drop_odd (d : Bytes) (s : Nat) (hs : s < d.length) :
    (toNibs d).drop (2 * s + 1) = loNib (d.getD s 0) :: toNibs (d.drop (s + 1)) := by
  have hl : 2 * s + 1 < (toNibs d).length := by rw [length_toNibs]; omega
  rw [List.drop_eq_getElem_cons hl, toNibs_get d (2 * s + 1) hl]
  have e1 : (2 * s + 1) % 2 = 1 := by omega
  have e2 : (2 * s + 1) / 2 = s := by omega
  have e3 : 2 * s + 1 + 1 = 2 * (s + 1) := by omega
  simp only [e1, e2, e3, toNibs_drop]
  simp

/-- `Right()` is `packNibs` of the nibbles: the partial key bytes of the spec encoding -/
theorem C06_nibbles_right_refines (n : PN) (h : n.WF) : n.right = packNibs n.abs := by
  unfold PN.WF at h
  have hlen := C06_nibbles_len_refines n
  unfold PN.right PN.rightPartial
  simp only
  by_cases hp : n.offset % 2 = 0
  · have hl : n.len % 2 = 0 := by simp [PN.len]; omega
    have ho : n.offset = 2 * (n.offset / 2) := by omega
    have hab : n.abs = toNibs (n.data.drop (n.offset / 2)) := by
      unfold PN.abs; rw [← toNibs_drop, ← ho]
    simp only [hl, Nat.lt_irrefl, if_false, List.nil_append]
    rw [hab]
    unfold packNibs
    simp [length_toNibs, packEven_toNibs]
  · obtain ⟨s, hs⟩ : ∃ s, n.offset = 2 * s + 1 := ⟨n.offset / 2, by omega⟩
    have hdiv : n.offset / 2 = s := by omega
    have hlt : s < n.data.length := by omega
    have hl : n.len % 2 = 1 := by simp [PN.len]; omega
    have hab : n.abs = loNib (n.data.getD s 0) :: toNibs (n.data.drop (s + 1)) := by
      unfold PN.abs; rw [hs, drop_odd _ _ hlt]
    simp only [hl, Nat.lt_one_iff, if_true, hdiv, Nat.one_pos]
    rw [hab]
    unfold packNibs
    have : ¬ (loNib (n.data.getD s 0) :: toNibs (n.data.drop (s + 1))).length % 2 = 0 := by
      simp [length_toNibs]
    simp only [this, if_false, packEven_toNibs, padRight, and0F]
    rfl

/-! ### `ShiftKey` -/

theorem shl_or_shr (a b : UInt8) : a <<< 4 ||| b >>> 4 = byteOf (loNib a) (hiNib b) := by
  rw [shl4, shr4', or_nibs]

theorem toNibs_shiftLeft : ∀ d : Bytes, d ≠ [] → toNibs (shiftLeft d) = (toNibs d).drop 1 ++ [0]
  | [], h => absurd rfl h
  | [a], _ => by simp [shiftLeft, toNibs, shl4, hi_byteOf, lo_byteOf]
  | a :: b :: r, _ => by
    have ih := toNibs_shiftLeft (b :: r) (by simp)
    simp only [shiftLeft, toNibs, shl_or_shr, hi_byteOf, lo_byteOf] at ih ⊢
    simp [ih]

theorem toNibs_shiftRightFrom (p : UInt8) : ∀ d : Bytes,
    toNibs (shiftRightFrom p d) = loNib p :: (toNibs d ++ [0])
  | [] => by simp [shiftRightFrom, toNibs, shl4, hi_byteOf, lo_byteOf]
  | a :: r => by
    have ih := toNibs_shiftRightFrom a r
    simp [shiftRightFrom, toNibs, shl_or_shr, hi_byteOf, lo_byteOf, ih]

theorem nk_offset_le (k : NK) (h : k.WF) : k.offset ≤ (toNibs k.data).length := by
  obtain ⟨h1, h2⟩ := h
  rw [length_toNibs]
  by_cases h0 : k.offset = 0
  · omega
  · have : k.offset = 1 := by omega
    have := h2 this
    cases hd : k.data with
    | nil => exact absurd hd this
    | cons x r => simp; omega

/-- `ShiftKey(offset)`: when the offset changes the nibbles are kept and a padding zero nibble is
    appended (the caller overwrites or drops it); the result is well formed -/
theorem C06_nibbles_shiftKey_refines (k : NK) (h : k.WF) (offset : Nat) (ho : offset ≤ 1) :
    (k.shiftKey offset).1.WF ∧ (k.shiftKey offset).1.offset = offset ∧
    (k.shiftKey offset).2 = decide (k.offset ≠ offset) ∧
    (k.shiftKey offset).1.abs = if k.offset = offset then k.abs else k.abs ++ [0] := by
  obtain ⟨h1, h2⟩ := h
  unfold NK.shiftKey
  by_cases hgt : k.offset > offset
  · have hk : k.offset = 1 := by omega
    have h0 : offset = 0 := by omega
    have hne := h2 hk
    have hsl := toNibs_shiftLeft k.data hne
    have hne' : shiftLeft k.data ≠ [] := by
      intro e; rw [e] at hsl; simp [toNibs] at hsl
    simp only [hgt, if_true]
    refine ⟨⟨by simp; omega, fun _ => hne'⟩, trivial, by simp; omega, ?_⟩
    have : ¬ k.offset = offset := by omega
    simp only [this, if_false, NK.abs, h0, hk, hsl]
    simp
  · by_cases hlt : k.offset < offset
    · have hk : k.offset = 0 := by omega
      have h1' : offset = 1 := by omega
      simp only [hgt, hlt, if_false, if_true]
      have hsr := toNibs_shiftRightFrom 0 k.data
      have hne' : shiftRightFrom 0 k.data ≠ [] := by
        intro e; rw [e] at hsr; simp [toNibs] at hsr
      refine ⟨⟨by simp; omega, fun _ => hne'⟩, trivial, by simp; omega, ?_⟩
      have : ¬ k.offset = offset := by omega
      simp only [this, if_false, NK.abs, h1', hk, hsr]
      simp
    · have he : k.offset = offset := by omega
      simp only [hgt, hlt, if_false]
      refine ⟨⟨by simp; omega, fun hx => h2 (by simpa [he] using hx)⟩, trivial, by simp [he], ?_⟩
      simp [he, NK.abs]

/-! ### `combineKey` -/

/-- filling the padding nibble of the last byte -/
theorem fill_pad (D : Bytes) (N : Nibs) (l e0 : UInt8) (hN : toNibs D = N ++ [0])
    (hl : D.getLast? = some l) :
    toNibs (D.dropLast ++ [l ||| padRight e0]) = N ++ [loNib e0] := by
  have hD : D = D.dropLast ++ [l] := by
    have hne : D ≠ [] := by intro e; rw [e] at hl; cases hl
    have := List.dropLast_concat_getLast hne
    rw [List.getLast?_eq_some_getLast hne] at hl
    cases hl
    exact this.symm
  rw [hD, toNibs_append] at hN
  simp only [toNibs, List.append_nil] at hN
  have hN' : toNibs D.dropLast ++ [hiNib l] ++ [loNib l] = N ++ [0] := by simpa using hN
  have h1 := List.append_inj_left' hN' rfl
  have h2 := List.append_inj_right' hN' rfl
  have hlo : loNib l = 0 := by simpa using h2
  have hbyte : l ||| padRight e0 = byteOf (hiNib l) (loNib e0) := by
    have : l = byteOf (hiNib l) 0 := by
      conv => lhs; rw [← byteOf_hi_lo l, hlo]
    rw [this, padRight, and0F, or_nv, hi_byteOf]
  rw [toNibs_append, hbyte]
  simp only [toNibs, hi_byteOf, lo_byteOf, List.append_nil]
  rw [← h1]; simp

theorem drop_append_of_le {α : Type} (a b : List α) (n : Nat) (h : n ≤ a.length) :
    (a ++ b).drop n = a.drop n ++ b := by
  rw [List.drop_append_of_le_length h]

/-- `combineKey(start, end)` concatenates the two partial keys -/
theorem C06_nibbles_combineKey_refines (s e : NK) (hs : s.WF) (he : e.WF) :
    (combineKey s e).abs = s.abs ++ e.abs ∧ (combineKey s e).WF := by
  have hso := nk_offset_le s hs
  obtain ⟨he1, he2⟩ := he
  unfold combineKey
  simp only
  by_cases h0 : e.offset = 0
  · -- the end key is byte aligned: no shift, plain append
    have hfin : (s.offset + e.offset) % 2 = s.offset := by have := hs.1; omega
    obtain ⟨hw, _, _, hab⟩ := C06_nibbles_shiftKey_refines s hs ((s.offset + e.offset) % 2) (by omega)
    have hne : ¬ e.offset > 0 := by omega
    simp only [hne, if_false]
    have hd : (s.shiftKey ((s.offset + e.offset) % 2)).1 = s := by
      unfold NK.shiftKey; simp [hfin]
    rw [hd]
    refine ⟨?_, ⟨hs.1, fun h1 => ?_⟩⟩
    · simp only [NK.abs, h0, toNibs_append, List.drop_zero]
      exact drop_append_of_le _ _ _ hso
    · intro e'
      simp only at e'
      have := List.append_eq_nil_iff.mp e'
      exact hs.2 h1 this.1
  · have h1 : e.offset = 1 := by omega
    have hne : e.data ≠ [] := he2 h1
    obtain ⟨e0, er, hed⟩ : ∃ e0 er, e.data = e0 :: er := by
      cases hd : e.data with
      | nil => exact absurd hd hne
      | cons a r => exact ⟨a, r, rfl⟩
    have hfin : (s.offset + e.offset) % 2 ≠ s.offset := by have := hs.1; omega
    obtain ⟨hw, hoff, _, hab⟩ := C06_nibbles_shiftKey_refines s hs ((s.offset + e.offset) % 2) (by omega)
    have hab' : (s.shiftKey ((s.offset + e.offset) % 2)).1.abs = s.abs ++ [0] := by
      rw [hab, if_neg (fun x => hfin x.symm)]
    generalize (s.shiftKey ((s.offset + e.offset) % 2)).1 = s1 at hw hoff hab'
    have hgt : e.offset > 0 := by omega
    simp only [hgt, if_true]
    have hs1o := nk_offset_le s1 hw
    -- the shifted data ends in the padding nibble
    have hsplit : toNibs s1.data = (toNibs s1.data).take s1.offset ++ (s.abs ++ [0]) := by
      rw [← hab', NK.abs, List.take_append_drop]
    have hne1 : s1.data ≠ [] := by
      intro e'
      rw [e'] at hsplit
      simp [toNibs] at hsplit
    obtain ⟨l, hl⟩ : ∃ l, s1.data.getLast? = some l := ⟨_, List.getLast?_eq_some_getLast hne1⟩
    have hfill := fill_pad s1.data ((toNibs s1.data).take s1.offset ++ s.abs) l e0
      (by rw [List.append_assoc]; exact hsplit) hl
    simp only [hl, hed, List.getD_cons_zero, List.drop_one, List.tail_cons]
    refine ⟨?_, ⟨hw.1, fun _ => by simp⟩⟩
    simp only [NK.abs, toNibs_append, hfill, h1, hed, toNibs, List.drop_succ_cons, List.drop_zero]
    have hlen : s1.offset ≤ ((toNibs s1.data).take s1.offset).length := by
      rw [List.length_take]; omega
    rw [List.append_assoc, List.append_assoc, drop_append_of_le _ _ _ hlen]
    have : ((toNibs s1.data).take s1.offset).drop s1.offset = [] := by
      apply List.drop_eq_nil_of_le; rw [List.length_take]; omega
    rw [this]
    simp

/-! ### `NodeKeyRange` -/

theorem take_drop_comm {α : Type} (l : List α) (m j : Nat) : (l.take m).drop j = (l.drop j).take (m - j) := by
  rw [List.drop_take]

theorem toNibs_dropLast (D : Bytes) : toNibs D.dropLast = (toNibs D).take (2 * (D.length - 1)) := by
  rw [List.dropLast_eq_take, toNibs_take]

/-- `NodeKeyRange(nb)`: the first `nb` nibbles (all of them when `nb ≥ Len()`), as a well-formed key -/
theorem C06_nibbles_nodeKeyRange_refines (n : PN) (h : n.WF) (nb : Nat) :
    (n.nodeKeyRange nb).abs = n.abs.take nb := by
  unfold PN.WF at h
  have hlen := C06_nibbles_len_refines n
  have habsl : n.abs.length = 2 * n.data.length - n.offset := by rw [← hlen]; rfl
  unfold PN.nodeKeyRange
  by_cases hge : nb ≥ n.len
  · simp only [hge, if_true]
    rw [(C06_nibbles_nodeKey_refines n).1, List.take_of_length_le (by omega)]
  · simp only [hge, if_false]
    have hlt : nb < 2 * n.data.length - n.offset := by simp [PN.len] at hge; omega
    by_cases hal : (n.offset + nb) % 2 = 0
    · simp only [hal, if_true, NK.abs]
      rw [← toNibs_take, ← toNibs_drop, take_drop_comm, List.drop_drop]
      unfold PN.abs
      congr 1
      · omega
      · congr 1; omega
    · simp only [hal, if_false]
      -- the range ends inside a byte: take one byte more, shift, drop the last byte
      have hwf : NK.WF (⟨n.offset % 2,
          (n.data.drop (n.offset / 2)).take ((n.offset + nb) / 2 + 1 - n.offset / 2)⟩ : NK) := by
        refine ⟨by simp; omega, fun _ => ?_⟩
        intro e
        have := congrArg List.length e
        simp at this
        omega
      have hX : NK.abs (⟨n.offset % 2,
          (n.data.drop (n.offset / 2)).take ((n.offset + nb) / 2 + 1 - n.offset / 2)⟩ : NK) =
          n.abs.take (nb + 1) := by
        simp only [NK.abs]
        rw [← toNibs_take, ← toNibs_drop, take_drop_comm, List.drop_drop]
        unfold PN.abs
        congr 1
        · omega
        · congr 1; omega
      obtain ⟨hw, hoff, _, hab⟩ := C06_nibbles_shiftKey_refines _ hwf (nb % 2) (by omega)
      have hne : ¬ (n.offset % 2 = nb % 2) := by omega
      simp only [hne, if_false, hX] at hab
      generalize (NK.shiftKey (⟨n.offset % 2,
          (n.data.drop (n.offset / 2)).take ((n.offset + nb) / 2 + 1 - n.offset / 2)⟩ : NK) (nb % 2)).1 = r
        at hw hoff hab ⊢
      simp only [NK.abs] at hab ⊢
      -- lengths: r.offset + (nb + 2) nibbles fill r.data exactly
      have hXl : (n.abs.take (nb + 1)).length = nb + 1 := by
        rw [List.length_take]; omega
      have htot : (toNibs r.data).length = r.offset + (nb + 2) := by
        have := congrArg List.length hab
        simp only [List.length_drop, List.length_append, hXl, List.length_singleton] at this
        have hro := nk_offset_le r hw
        omega
      have hrl : 2 * r.data.length = r.offset + (nb + 2) := by rw [← length_toNibs]; exact htot
      rw [toNibs_dropLast, take_drop_comm, hab]
      have e3 : 2 * (r.data.length - 1) - r.offset = nb := by omega
      rw [e3, List.take_append_of_le_length (by omega), List.take_take]
      simp

/-! ### `NibbleSlice` -/

/-- the nibbles of a `NibbleSlice` -/
def NS.abs (n : NS) : Nibs := (toNibs n.inner).take n.len

def NS.pad (n : NS) : Nibs := if n.len % 2 = 1 then [0] else []

/-- `inner` holds exactly the nibbles, an odd count padded with one zero nibble -/
def NS.WF (n : NS) : Prop := n.len ≤ 2 * n.inner.length ∧ toNibs n.inner = n.abs ++ n.pad

theorem NS.abs_length (n : NS) (h : n.WF) : n.abs.length = n.len := by
  have := h.1
  simp [NS.abs, length_toNibs]; omega

theorem NS.inner_length (n : NS) (h : n.WF) : 2 * n.inner.length = n.len + n.len % 2 := by
  have := congrArg List.length h.2
  rw [length_toNibs, List.length_append, NS.abs_length n h] at this
  unfold NS.pad at this
  split at this <;> simp at this <;> omega

theorem fill_pad' (D : Bytes) (N : Nibs) (l : UInt8) (y : Nib) (hN : toNibs D = N ++ [0])
    (hl : D.getLast? = some l) : toNibs (D.dropLast ++ [l ||| nv y]) = N ++ [y] := by
  have := fill_pad D N l (nv y) hN hl
  have e1 : padRight (nv y) = nv y := by rw [padRight, and0F]; congr 1; rw [nv_eq, lo_byteOf]
  have e2 : loNib (nv y) = y := by rw [nv_eq, lo_byteOf]
  rw [e1, e2] at this
  exact this

theorem zero_or (b : UInt8) : (0 : UInt8) ||| b = b := by simp

theorem C06_nibbles_nsEmpty : NS.empty.WF ∧ NS.empty.abs = [] := by
  refine ⟨⟨by simp [NS.empty], ?_⟩, ?_⟩ <;> simp [NS.empty, NS.abs, NS.pad, toNibs]

/-- `Push(nibble)` -/
theorem C06_nibbles_push_refines (n : NS) (h : n.WF) (x : Nib) :
    (n.push (nv x)).abs = n.abs ++ [x] ∧ (n.push (nv x)).WF := by
  have hal := NS.abs_length n h
  have hil := NS.inner_length n h
  obtain ⟨h1, h2⟩ := h
  by_cases hp : n.len % 2 = 0
  · have hpad : n.pad = [] := by simp [NS.pad, hp]
    rw [hpad, List.append_nil] at h2
    have hpush : n.push (nv x) = { inner := n.inner ++ [byteOf x 0], len := n.len + 1 } := by
      simp [NS.push, hp, pushAtLeft, nv_shl]
    rw [hpush]
    have ht : toNibs (n.inner ++ [byteOf x 0]) = (n.abs ++ [x]) ++ [0] := by
      rw [toNibs_append, h2]; simp [toNibs, hi_byteOf, lo_byteOf]
    have habs : NS.abs { inner := n.inner ++ [byteOf x 0], len := n.len + 1 } = n.abs ++ [x] := by
      show List.take (n.len + 1) (toNibs (n.inner ++ [byteOf x 0])) = n.abs ++ [x]
      rw [ht]
      exact List.take_left' (by rw [List.length_append, hal]; rfl)
    refine ⟨habs, ⟨by simp; omega, ?_⟩⟩
    have hodd : (n.len + 1) % 2 = 1 := by omega
    rw [habs]
    simp only [NS.pad, hodd, if_true]
    exact ht
  · have hodd : n.len % 2 = 1 := by omega
    have hpad : n.pad = [0] := by simp [NS.pad, hodd]
    rw [hpad] at h2
    have hne : n.inner ≠ [] := by intro e; rw [e] at h2; simp [toNibs] at h2
    obtain ⟨l, hl⟩ : ∃ l, n.inner.getLast? = some l := ⟨_, List.getLast?_eq_some_getLast hne⟩
    have hpush : n.push (nv x) = { inner := n.inner.dropLast ++ [l ||| nv x], len := n.len + 1 } := by
      simp [NS.push, hp, pushAtLeft, hl, NS.setLast]
    rw [hpush]
    have ht := fill_pad' n.inner n.abs l x h2 hl
    have hlen : (n.inner.dropLast ++ [l ||| nv x]).length = n.inner.length := by
      simp [List.length_dropLast]; omega
    have habs : NS.abs { inner := n.inner.dropLast ++ [l ||| nv x], len := n.len + 1 } = n.abs ++ [x] := by
      show List.take (n.len + 1) (toNibs (n.inner.dropLast ++ [l ||| nv x])) = n.abs ++ [x]
      rw [ht]
      exact List.take_of_length_le (by rw [List.length_append, hal]; simp)
    refine ⟨habs, ⟨by simp only [hlen]; omega, ?_⟩⟩
    have hev : ¬ (n.len + 1) % 2 = 1 := by omega
    rw [habs]
    simp only [NS.pad, hev, if_false, List.append_nil]
    exact ht

/-- `Prefix()`: the database-key prefix of the path accumulated in the slice -/
theorem C06_nibbles_nsPrefix_refines (n : NS) (h : n.WF) :
    n.pfx.abs = n.abs ∧ n.pfx.joined = prefixBytes n.abs := by
  have hil := NS.inner_length n h
  unfold NS.pfx
  by_cases hp : n.len % 2 = 0
  · have hl : n.len = 2 * (n.len / 2) := by omega
    simp only [hp, if_true, PFX.abs, PFX.joined, List.append_nil]
    have : n.abs = toNibs (n.inner.take (n.len / 2)) := by
      unfold NS.abs; rw [← toNibs_take, ← hl]
    rw [this, prefixBytes_toNibs]
    simp
  · obtain ⟨s, hs⟩ : ∃ s, n.len = 2 * s + 1 := ⟨n.len / 2, by omega⟩
    have hdiv : n.len / 2 = s := by omega
    have hlt : s < n.inner.length := by omega
    simp only [hp, if_false, PFX.abs, PFX.joined, hdiv]
    have h1 : padLeft (n.inner.getD s 0) = byteOf (hiNib (n.inner.getD s 0)) 0 := andF0 _
    have : n.abs = toNibs (n.inner.take s) ++ [hiNib (n.inner.getD s 0)] := by
      unfold NS.abs; rw [hs, toNibs_take_odd _ _ hlt]
    rw [h1, hi_byteOf, this, prefixBytes_snoc]
    simp

/-- `DropLasts(num)` -/
theorem C06_nibbles_dropLasts_refines (n : NS) (h : n.WF) (num : Nat) :
    (n.dropLasts num).abs = n.abs.take (n.len - num) ∧ (n.dropLasts num).WF := by
  have hal := NS.abs_length n h
  have hil := NS.inner_length n h
  by_cases h0 : num = 0
  · subst h0
    have : n.dropLasts 0 = n := by simp [NS.dropLasts]
    rw [this]
    exact ⟨by rw [List.take_of_length_le (by omega)], h⟩
  · by_cases hge : num ≥ n.len
    · have hd : n.dropLasts num = NS.empty := by simp [NS.dropLasts, h0, hge]
      have : n.len - num = 0 := by omega
      rw [hd, this]
      exact ⟨by simp [C06_nibbles_nsEmpty.2], C06_nibbles_nsEmpty.1⟩
    · have hle : n.len - num ≤ n.len := by omega
      have hmin : n.abs.take (n.len - num) = (toNibs n.inner).take (n.len - num) := by
        unfold NS.abs; rw [List.take_take]; congr 1; omega
      rw [hmin]
      by_cases hp : (n.len - num) % 2 = 0
      · obtain ⟨m, hm⟩ : ∃ m, n.len - num = 2 * m := ⟨(n.len - num) / 2, by omega⟩
        have hdiv : (n.len - num) / 2 = m := by omega
        have hmi : m ≤ n.inner.length := by omega
        have hd : n.dropLasts num = { inner := n.inner.take m, len := n.len - num } := by
          simp [NS.dropLasts, h0, hge, hp, hdiv]
        rw [hd]
        have ht : toNibs (n.inner.take m) = (toNibs n.inner).take (n.len - num) := by
          rw [hm, toNibs_take]
        have habs : NS.abs { inner := n.inner.take m, len := n.len - num } =
            (toNibs n.inner).take (n.len - num) := by
          simp only [NS.abs, ht, List.take_take]; simp
        refine ⟨habs, ⟨by simp; omega, ?_⟩⟩
        rw [habs]
        simp only [NS.pad, hp]
        simpa using ht
      · obtain ⟨m, hm⟩ : ∃ m, n.len - num = 2 * m + 1 := ⟨(n.len - num) / 2, by omega⟩
        have hdiv : (n.len - num) / 2 = m := by omega
        have hmi : m < n.inner.length := by omega
        have hodd : (n.len - num) % 2 = 1 := by omega
        have hlast : (n.inner.take (m + 1)).getLast? = some (n.inner.getD m 0) := by
          rw [List.getLast?_eq_getElem?]
          simp [List.length_take, Nat.min_eq_left (Nat.succ_le_of_lt hmi), List.getElem?_take, hmi]
        have hdl : (n.inner.take (m + 1)).dropLast = n.inner.take m := by
          rw [List.dropLast_eq_take, List.take_take]
          simp [List.length_take, Nat.min_eq_left (Nat.succ_le_of_lt hmi)]
        have hd : n.dropLasts num =
            { inner := n.inner.take m ++ [padLeft (n.inner.getD m 0)], len := n.len - num } := by
          simp [NS.dropLasts, h0, hge, hp, hodd, hdiv, NS.setLast, hlast, hdl]
        rw [hd]
        have ht : toNibs (n.inner.take m ++ [padLeft (n.inner.getD m 0)]) =
            (toNibs n.inner).take (n.len - num) ++ [0] := by
          rw [hm, toNibs_take_odd _ _ hmi, toNibs_append, padLeft, andF0]
          simp [toNibs, hi_byteOf, lo_byteOf]
        have hlen' : ((toNibs n.inner).take (n.len - num)).length = n.len - num := by
          rw [List.length_take, length_toNibs]; omega
        have habs : NS.abs { inner := n.inner.take m ++ [padLeft (n.inner.getD m 0)], len := n.len - num } =
            (toNibs n.inner).take (n.len - num) := by
          show List.take (n.len - num) (toNibs (n.inner.take m ++ [padLeft (n.inner.getD m 0)])) = _
          rw [ht]
          exact List.take_left' hlen'
        refine ⟨habs, ⟨by simp [List.length_take]; omega, ?_⟩⟩
        rw [habs]
        simp only [NS.pad, hodd, if_true]
        exact ht

/-! ### `AppendPartial`, `AppendOptionalSliceAndNibble` -/

/-- the data stage of `AppendPartial` -/
def NS.appendData (n : NS) (D : Bytes) : NS :=
  { inner :=
      if 2 * n.inner.length - n.len = 0 then n.inner ++ D
      else
        match D with
        | [] => n.inner
        | d0 :: _ => NS.setLast n.inner (padLeft (n.inner.getLast?.getD 0) ||| d0 >>> 4) ++ NS.shiftedTail D
    len := n.len + 2 * D.length }

theorem appendPartial_eq (n : NS) (p : Partial) :
    n.appendPartial p = (if p.first = 1 then n.push (atLeft 1 p.paddedNibble) else n).appendData p.data := rfl

theorem shiftedTail_eq : ∀ D : Bytes, NS.shiftedTail D = shiftLeft D
  | [] => rfl
  | [a] => rfl
  | a :: b :: r => by simp [NS.shiftedTail, shiftLeft, shiftedTail_eq (b :: r)]

theorem last_split (D : Bytes) (N : Nibs) (l : UInt8) (hN : toNibs D = N ++ [0])
    (hl : D.getLast? = some l) : toNibs D.dropLast ++ [hiNib l] = N ∧ loNib l = 0 := by
  have hne : D ≠ [] := by intro e; rw [e] at hl; cases hl
  have hD : D = D.dropLast ++ [l] := by
    have := List.dropLast_concat_getLast hne
    rw [List.getLast?_eq_some_getLast hne] at hl
    cases hl
    exact this.symm
  rw [hD, toNibs_append] at hN
  simp only [toNibs, List.append_nil] at hN
  have hN' : toNibs D.dropLast ++ [hiNib l] ++ [loNib l] = N ++ [0] := by simpa using hN
  exact ⟨List.append_inj_left' hN' rfl, by simpa using List.append_inj_right' hN' rfl⟩

theorem appendData_refines (n : NS) (h : n.WF) (D : Bytes) :
    (n.appendData D).abs = n.abs ++ toNibs D ∧ (n.appendData D).WF := by
  have hal := NS.abs_length n h
  have hil := NS.inner_length n h
  obtain ⟨h1, h2⟩ := h
  by_cases hp : n.len % 2 = 0
  · have hpad : n.pad = [] := by simp [NS.pad, hp]
    rw [hpad, List.append_nil] at h2
    have h0 : 2 * n.inner.length - n.len = 0 := by omega
    have hd : n.appendData D = { inner := n.inner ++ D, len := n.len + 2 * D.length } := by
      simp [NS.appendData, h0]
    rw [hd]
    have ht : toNibs (n.inner ++ D) = n.abs ++ toNibs D := by rw [toNibs_append, h2]
    have habs : NS.abs { inner := n.inner ++ D, len := n.len + 2 * D.length } = n.abs ++ toNibs D := by
      show List.take (n.len + 2 * D.length) (toNibs (n.inner ++ D)) = _
      rw [ht]
      exact List.take_of_length_le (by rw [List.length_append, hal, length_toNibs]; omega)
    refine ⟨habs, ⟨by simp; omega, ?_⟩⟩
    have hev : ¬ (n.len + 2 * D.length) % 2 = 1 := by omega
    rw [habs]
    simp only [NS.pad, hev, if_false, List.append_nil]
    exact ht
  · have hodd : n.len % 2 = 1 := by omega
    have hpad : n.pad = [0] := by simp [NS.pad, hodd]
    rw [hpad] at h2
    have h0 : ¬ 2 * n.inner.length - n.len = 0 := by omega
    cases D with
    | nil =>
      have hd : n.appendData [] = n := by simp [NS.appendData, h0]
      rw [hd]
      exact ⟨by simp [toNibs], ⟨h1, by rw [hpad]; exact h2⟩⟩
    | cons d0 r =>
      have hne : n.inner ≠ [] := by intro e; rw [e] at h2; simp [toNibs] at h2
      obtain ⟨l, hl⟩ : ∃ l, n.inner.getLast? = some l := ⟨_, List.getLast?_eq_some_getLast hne⟩
      obtain ⟨hs1, hs2⟩ := last_split n.inner n.abs l h2 hl
      have hd : n.appendData (d0 :: r) =
          (⟨(n.inner.dropLast ++ [padLeft l ||| d0 >>> 4]) ++ shiftLeft (d0 :: r),
            n.len + 2 * (d0 :: r).length⟩ : NS) := by
        simp [NS.appendData, h0, hl, NS.setLast, shiftedTail_eq]
      rw [hd]
      have hbyte : padLeft l ||| d0 >>> 4 = byteOf (hiNib l) (hiNib d0) := by
        rw [padLeft, andF0, shr4', or_nibs]
      have ht : toNibs ((n.inner.dropLast ++ [padLeft l ||| d0 >>> 4]) ++ shiftLeft (d0 :: r)) =
          (n.abs ++ toNibs (d0 :: r)) ++ [0] := by
        rw [toNibs_append, toNibs_append, hbyte, toNibs_shiftLeft (d0 :: r) (by simp)]
        simp only [toNibs, hi_byteOf, lo_byteOf, List.append_nil, List.drop_succ_cons, List.drop_zero]
        rw [← hs1]
        simp
      have habs : NS.abs (⟨(n.inner.dropLast ++ [padLeft l ||| d0 >>> 4]) ++ shiftLeft (d0 :: r),
          n.len + 2 * (d0 :: r).length⟩ : NS) = n.abs ++ toNibs (d0 :: r) := by
        show List.take (n.len + 2 * (d0 :: r).length) (toNibs _) = _
        rw [ht]
        exact List.take_left' (by rw [List.length_append, hal, length_toNibs])
      have hlen : 2 * ((n.inner.dropLast ++ [padLeft l ||| d0 >>> 4]) ++ shiftLeft (d0 :: r)).length =
          n.len + 2 * (d0 :: r).length + 1 := by
        have := congrArg List.length ht
        rw [length_toNibs] at this
        rw [this]
        simp only [List.length_append, hal, length_toNibs, List.length_singleton]
      refine ⟨habs, ⟨by
        show n.len + 2 * (d0 :: r).length ≤
          2 * ((n.inner.dropLast ++ [padLeft l ||| d0 >>> 4]) ++ shiftLeft (d0 :: r)).length
        omega, ?_⟩⟩
      have hod : (n.len + 2 * (d0 :: r).length) % 2 = 1 := by omega
      rw [habs]
      simp only [NS.pad, hod, if_true]
      exact ht

/-- `AppendPartial(s.RightPartial())` appends the nibbles of `s` -/
theorem C06_nibbles_appendPartial_refines (n : NS) (h : n.WF) (s : PN) (hs : s.WF) :
    (n.appendPartial s.rightPartial).abs = n.abs ++ s.abs ∧ (n.appendPartial s.rightPartial).WF := by
  unfold PN.WF at hs
  rw [appendPartial_eq]
  unfold PN.rightPartial
  simp only
  by_cases hp : s.offset % 2 = 0
  · have hl : s.len % 2 = 0 := by simp [PN.len]; omega
    have hab : s.abs = toNibs (s.data.drop (s.offset / 2)) := by
      unfold PN.abs; rw [← toNibs_drop]; congr 1; omega
    simp only [hl, Nat.lt_irrefl, if_false, Nat.zero_ne_one]
    rw [hab]
    exact appendData_refines n h _
  · obtain ⟨t, ht⟩ : ∃ t, s.offset = 2 * t + 1 := ⟨s.offset / 2, by omega⟩
    have hdiv : s.offset / 2 = t := by omega
    have hlt : t < s.data.length := by omega
    have hl : s.len % 2 = 1 := by simp [PN.len]; omega
    have hab : s.abs = loNib (s.data.getD t 0) :: toNibs (s.data.drop (t + 1)) := by
      unfold PN.abs; rw [ht, drop_odd _ _ hlt]
    simp only [hl, Nat.lt_one_iff, Nat.one_pos, if_true, hdiv, atLeft, and0F]
    obtain ⟨hp1, hp2⟩ := C06_nibbles_push_refines n h (loNib (s.data.getD t 0))
    obtain ⟨ha1, ha2⟩ := appendData_refines _ hp2 (s.data.drop (t + 1))
    rw [hab]
    refine ⟨?_, ha2⟩
    rw [ha1, hp1]; simp

/-- `AppendOptionalSliceAndNibble(slice, index)`: the path grows by the partial key and the child
    index; the count returned is the number of nibbles added -/
theorem C06_nibbles_appendOpt_refines (n : NS) (h : n.WF) (s : Option PN) (hs : ∀ x, s = some x → x.WF)
    (i : Option Nib) :
    (n.appendOpt s (i.map nv)).1.abs =
      n.abs ++ (match s with | some x => x.abs | none => []) ++ (match i with | some y => [y] | none => []) ∧
    (n.appendOpt s (i.map nv)).1.WF ∧
    (n.appendOpt s (i.map nv)).2 =
      (match s with | some x => x.abs.length | none => 0) + (match i with | some _ => 1 | none => 0) := by
  cases s with
  | none =>
    cases i with
    | none => simp [NS.appendOpt, h]
    | some y =>
      obtain ⟨h1, h2⟩ := C06_nibbles_push_refines n h y
      simp [NS.appendOpt, h1, h2]
  | some x =>
    obtain ⟨a1, a2⟩ := C06_nibbles_appendPartial_refines n h x (hs x rfl)
    cases i with
    | none => simp [NS.appendOpt, a1, a2, C06_nibbles_len_refines]
    | some y =>
      obtain ⟨h1, h2⟩ := C06_nibbles_push_refines _ a2 y
      simp [NS.appendOpt, h1, h2, a1, C06_nibbles_len_refines]

end Gossamer.C06.Nb
