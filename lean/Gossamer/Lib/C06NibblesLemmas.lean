/-
C06 extension: the byte-level nibble helpers (`C06Nibbles.lean`) refine their counterparts on plain
nibble lists.  `PN.abs` / `NK.abs` / `NS.abs` / `PFX.abs` are the abstraction functions.
-/
import Gossamer.Lib.C06Nibbles
import Gossamer.Lib.TrieDBRows
set_option linter.unusedSectionVars false
set_option linter.unusedSimpArgs false
namespace Gossamer.C06.Nb
open Gossamer Gossamer.Trie

/-- a nibble as the byte the Go code passes around -/
def nv (x : Nib) : UInt8 := UInt8.ofNat x.val

/-! ### bytes and nibbles (each fact is checked on all 256 bytes / 256 nibble pairs) -/

theorem ofNat_toNat (b : UInt8) : UInt8.ofNat b.toNat = b := by simp

set_option maxRecDepth 8192 in
theorem byte_facts : ∀ n : Fin 256,
    let b := UInt8.ofNat n.val
    b >>> 4 = nv (hiNib b) ∧ b &&& 0x0F = nv (loNib b) ∧ b &&& 0xF0 = byteOf (hiNib b) 0 ∧
    b <<< 4 = byteOf (loNib b) 0 ∧ b >>> 4 = byteOf 0 (hiNib b) := by decide

theorem byte_fact (b : UInt8) :
    b >>> 4 = nv (hiNib b) ∧ b &&& 0x0F = nv (loNib b) ∧ b &&& 0xF0 = byteOf (hiNib b) 0 ∧
    b <<< 4 = byteOf (loNib b) 0 ∧ b >>> 4 = byteOf 0 (hiNib b) := by
  have := byte_facts ⟨b.toNat, b.toNat_lt⟩
  simpa using this

theorem shr4 (b : UInt8) : b >>> 4 = nv (hiNib b) := (byte_fact b).1
theorem and0F (b : UInt8) : b &&& 0x0F = nv (loNib b) := (byte_fact b).2.1
theorem andF0 (b : UInt8) : b &&& 0xF0 = byteOf (hiNib b) 0 := (byte_fact b).2.2.1
theorem shl4 (b : UInt8) : b <<< 4 = byteOf (loNib b) 0 := (byte_fact b).2.2.2.1
theorem shr4' (b : UInt8) : b >>> 4 = byteOf 0 (hiNib b) := (byte_fact b).2.2.2.2

theorem nib_pair_facts : ∀ x y : Nib,
    byteOf x 0 ||| byteOf 0 y = byteOf x y ∧ byteOf x 0 ||| nv y = byteOf x y ∧
    nv y = byteOf 0 y ∧ (nv y) <<< 4 = byteOf y 0 := by decide

theorem or_nibs (x y : Nib) : byteOf x 0 ||| byteOf 0 y = byteOf x y := (nib_pair_facts x y).1
theorem or_nv (x y : Nib) : byteOf x 0 ||| nv y = byteOf x y := (nib_pair_facts x y).2.1
theorem nv_eq (y : Nib) : nv y = byteOf 0 y := (nib_pair_facts 0 y).2.2.1
theorem nv_shl (y : Nib) : (nv y) <<< 4 = byteOf y 0 := (nib_pair_facts 0 y).2.2.2

theorem nv_inj : ∀ x y : Nib, nv x = nv y → x = y := by decide

theorem hi_byteOf (a b : Nib) : hiNib (byteOf a b) = a := (nibs_of_byteOf a b).1
theorem lo_byteOf (a b : Nib) : loNib (byteOf a b) = b := (nibs_of_byteOf a b).2

/-! ### `toNibs` -/

theorem toNibs_append (a b : Bytes) : toNibs (a ++ b) = toNibs a ++ toNibs b := by
  induction a with
  | nil => rfl
  | cons x r ih => simp [toNibs, ih]

theorem toNibs_drop (d : Bytes) (s : Nat) : (toNibs d).drop (2 * s) = toNibs (d.drop s) := by
  induction s generalizing d with
  | zero => simp
  | succ s ih =>
    cases d with
    | nil => simp [toNibs]
    | cons x r =>
      have : 2 * (s + 1) = 2 * s + 2 := by omega
      rw [this]
      simp [toNibs, ih]

theorem toNibs_take (d : Bytes) (s : Nat) : (toNibs d).take (2 * s) = toNibs (d.take s) := by
  induction s generalizing d with
  | zero => simp [toNibs]
  | succ s ih =>
    cases d with
    | nil => simp [toNibs]
    | cons x r =>
      have : 2 * (s + 1) = 2 * s + 2 := by omega
      rw [this]
      simp [toNibs, ih]

/-- the nibble at an even / odd position -/
theorem toNibs_get (d : Bytes) (j : Nat) (h : j < (toNibs d).length) :
    (toNibs d)[j] = if j % 2 = 0 then hiNib (d.getD (j / 2) 0) else loNib (d.getD (j / 2) 0) := by
  induction d generalizing j with
  | nil => simp [toNibs] at h
  | cons x r ih =>
    match j with
    | 0 => simp [toNibs]
    | 1 => simp [toNibs]
    | j + 2 =>
      have hj : j < (toNibs r).length := by simp [toNibs] at h; omega
      have := ih j hj
      simp only [toNibs, List.getElem_cons_succ]
      rw [this]
      have e1 : (j + 2) % 2 = j % 2 := by omega
      have e2 : (j + 2) / 2 = j / 2 + 1 := by omega
      simp [e1, e2]

/-! ### abstraction functions -/

/-- the nibbles a `Nibbles` view stands for -/
def PN.abs (n : PN) : Nibs := (toNibs n.data).drop n.offset

/-- the offset points into the data -/
def PN.WF (n : PN) : Prop := n.offset ≤ 2 * n.data.length

def NK.abs (k : NK) : Nibs := (toNibs k.data).drop k.offset

/-- offset 0 or 1, and offset 1 only with a first byte to skip half of -/
def NK.WF (k : NK) : Prop := k.offset ≤ 1 ∧ (k.offset = 1 → k.data ≠ [])

def PFX.abs (p : PFX) : Nibs :=
  toNibs p.key ++ (match p.padded with | some b => [hiNib b] | none => [])

/-! ### `Len`, `At`, `Mid`, `Advance`, `NodeKey` -/

theorem C06_nibbles_len_refines (n : PN) : n.len = n.abs.length := by
  simp [PN.len, PN.abs, length_toNibs]

theorem C06_nibbles_at_refines (n : PN) (i : Nat) (h : i < n.abs.length) :
    n.nib i = nv (n.abs[i]) := by
  have hlen : n.offset + i < (toNibs n.data).length := by
    simp [PN.abs] at h; omega
  simp only [PN.abs, List.getElem_drop, PN.nib, atLeft]
  rw [toNibs_get n.data (n.offset + i) hlen]
  by_cases hp : (n.offset + i) % 2 = 0
  · have : ¬ (n.offset + i) % 2 = 1 := by omega
    simp [hp, this, shr4]
  · have : (n.offset + i) % 2 = 1 := by omega
    simp [this, and0F]

theorem C06_nibbles_mid_refines (n : PN) (i : Nat) : (n.mid i).abs = n.abs.drop i := by
  simp [PN.mid, PN.abs, List.drop_drop, Nat.add_comm]

theorem C06_nibbles_advance_refines (n : PN) (i : Nat) :
    (i ≤ n.abs.length → ∃ m, n.advance i = some m ∧ m.abs = n.abs.drop i) ∧
    (n.abs.length < i → n.advance i = none) := by
  rw [← C06_nibbles_len_refines]
  constructor
  · intro h
    exact ⟨n.mid i, by simp [PN.advance]; omega, C06_nibbles_mid_refines n i⟩
  · intro h; simp [PN.advance, h]

theorem C06_nibbles_nodeKey_refines (n : PN) :
    n.nodeKey.abs = n.abs ∧ (PN.ofNodeKey n.nodeKey).abs = n.abs ∧ n.nodeKey.offset ≤ 1 := by
  have h : (toNibs (n.data.drop (n.offset / 2))).drop (n.offset % 2) = (toNibs n.data).drop n.offset := by
    rw [← toNibs_drop, List.drop_drop]
    congr 1; omega
  exact ⟨h, h, by simp [PN.nodeKey]; omega⟩

/-! ### `Left` and `Prefix.JoinedBytes`: the database-key prefix -/

theorem prefixBytes_snoc (a : Bytes) (h : Nib) : prefixBytes (toNibs a ++ [h]) = a ++ [byteOf h 0] := by
  induction a with
  | nil => rfl
  | cons x r ih => simp [toNibs, prefixBytes, ih, byteOf_hi_lo]

theorem toNibs_take_odd (d : Bytes) (s : Nat) (hs : s < d.length) :
    (toNibs d).take (2 * s + 1) = toNibs (d.take s) ++ [hiNib (d.getD s 0)] := by
  induction s generalizing d with
  | zero =>
    cases d with
    | nil => simp at hs
    | cons x r => simp [toNibs]
  | succ s ih =>
    cases d with
    | nil => simp at hs
    | cons x r =>
      have : 2 * (s + 1) + 1 = (2 * s + 1) + 2 := by omega
      rw [this]
      have hs' : s < r.length := by simpa using hs
      simp [toNibs, ih r hs']

/-- `Left()` is the packed form of the nibbles consumed so far, and `JoinedBytes()` is exactly the
    `prefixBytes` of the model's database keys -/
theorem C06_nibbles_left_refines (n : PN) (h : n.WF) :
    n.left.abs = (toNibs n.data).take n.offset ∧
    n.left.joined = prefixBytes ((toNibs n.data).take n.offset) := by
  unfold PN.WF at h
  by_cases hp : n.offset % 2 = 0
  · have ho : n.offset = 2 * (n.offset / 2) := by omega
    simp only [PN.left, hp, if_true, PFX.abs, PFX.joined, List.append_nil]
    rw [ho, toNibs_take, prefixBytes_toNibs]
    simp
  · obtain ⟨s, hs⟩ : ∃ s, n.offset = 2 * s + 1 := ⟨n.offset / 2, by omega⟩
    have hdiv : n.offset / 2 = s := by omega
    have hlt : s < n.data.length := by omega
    simp only [PN.left, hp, if_false, PFX.abs, PFX.joined, hdiv]
    have h1 : padLeft (n.data.getD s 0) = byteOf (hiNib (n.data.getD s 0)) 0 := andF0 _
    rw [h1, hi_byteOf, hs, toNibs_take_odd _ _ hlt, prefixBytes_snoc]
    simp

/-- the database-key prefix determines the nibble path up to the zero padding of an odd path:
    equal prefixes of paths of equal length come from equal paths -/
theorem C06_nibbles_prefix_injective (p q : Nibs) (h : prefixBytes p = prefixBytes q) :
    (p.length = q.length → p = q) ∧
    (p = q ∨ (q.length % 2 = 1 ∧ p = q ++ [0]) ∨ (p.length % 2 = 1 ∧ q = p ++ [0])) := by
  have := prefixBytes_eq p q h
  refine ⟨fun hl => ?_, this⟩
  rcases this with h | ⟨_, h⟩ | ⟨_, h⟩
  · exact h
  · rw [h] at hl; simp at hl
  · rw [h] at hl; simp at hl

/-! ### `CommonPrefix`, `StartsWith`, `Equal` -/

theorem nib_bytes_eq (a b : UInt8) : a = b ↔ hiNib a = hiNib b ∧ loNib a = loNib b :=
  (nib_eq_iff a b).symm

theorem biggestDepth_eq (a b : Bytes) : biggestDepth a b = Trie.lcpLen (toNibs a) (toNibs b) := by
  induction a generalizing b with
  | nil => cases b <;> simp [biggestDepth, toNibs, Trie.lcpLen]
  | cons x r ih =>
    cases b with
    | nil => simp [biggestDepth, toNibs, Trie.lcpLen]
    | cons y t =>
      simp only [biggestDepth, toNibs, Trie.lcpLen]
      by_cases hxy : x = y
      · subst hxy
        simp [ih]; omega
      · simp only [ne_eq, hxy, not_false_eq_true, if_true, leftCommon, if_false]
        have hne := hxy
        rw [nib_bytes_eq] at hne
        by_cases hh : hiNib x = hiNib y
        · have hl : ¬ loNib x = loNib y := fun e => hne ⟨hh, e⟩
          have : padLeft x = padLeft y := by simp [padLeft, andF0, hh]
          simp [this, hh, hl]
        · have : ¬ padLeft x = padLeft y := by
            intro e
            simp only [padLeft, andF0] at e
            exact hh (by have := congrArg hiNib e; simpa [hi_byteOf] using this)
          simp [this, hh]

theorem lcpLen_drop_succ (a b : Nibs) (i : Nat) (ha : i < a.length) (hb : i < b.length)
    (h : a[i] = b[i]) :
    Trie.lcpLen (a.drop i) (b.drop i) = Trie.lcpLen (a.drop (i + 1)) (b.drop (i + 1)) + 1 := by
  rw [List.drop_eq_getElem_cons ha, List.drop_eq_getElem_cons hb]
  simp [Trie.lcpLen, h]

theorem lcpLen_drop_ne (a b : Nibs) (i : Nat) (ha : i < a.length) (hb : i < b.length)
    (h : a[i] ≠ b[i]) : Trie.lcpLen (a.drop i) (b.drop i) = 0 := by
  rw [List.drop_eq_getElem_cons ha, List.drop_eq_getElem_cons hb]
  simp [Trie.lcpLen, h]

theorem lcpLen_le_min (a b : Nibs) : Trie.lcpLen a b ≤ min a.length b.length := by
  induction a generalizing b with
  | nil => cases b <;> simp [Trie.lcpLen]
  | cons x r ih =>
    cases b with
    | nil => simp [Trie.lcpLen]
    | cons y t =>
      simp only [Trie.lcpLen]
      split
      · have := ih t; simp; omega
      · simp

theorem cpLoop_eq (n them : PN) : ∀ fuel i, i + fuel = min n.abs.length them.abs.length →
    cpLoop n them fuel i = i + Trie.lcpLen (n.abs.drop i) (them.abs.drop i) := by
  intro fuel
  induction fuel with
  | zero =>
    intro i hi
    have := lcpLen_le_min (n.abs.drop i) (them.abs.drop i)
    simp at this
    simp [cpLoop]; omega
  | succ f ih =>
    intro i hi
    have h1 : i < n.abs.length := by omega
    have h2 : i < them.abs.length := by omega
    simp only [cpLoop, C06_nibbles_at_refines n i h1, C06_nibbles_at_refines them i h2]
    by_cases he : n.abs[i] = them.abs[i]
    · simp only [he, ne_eq, not_true_eq_false, if_false]
      rw [ih (i + 1) (by omega), lcpLen_drop_succ _ _ i h1 h2 he]; omega
    · have : nv n.abs[i] ≠ nv them.abs[i] := fun e => he (nv_inj _ _ e)
      simp only [ne_eq, this, not_false_eq_true, if_true]
      rw [lcpLen_drop_ne _ _ i h1 h2 he]
      omega

/-- `CommonPrefix` (both code paths: byte-wise for equal alignment, nibble-wise otherwise) is the
    length of the common prefix of the two nibble strings -/
theorem C06_nibbles_commonPrefix_refines (n them : PN) (h1 : n.WF) (h2 : them.WF) :
    n.commonPrefix them = Trie.lcpLen n.abs them.abs := by
  unfold PN.WF at h1 h2
  unfold PN.commonPrefix
  simp only
  by_cases hal : n.offset % 2 = them.offset % 2
  · simp only [hal, if_true]
    by_cases h0 : them.offset % 2 = 0
    · have hn0 : n.offset % 2 = 0 := by omega
      simp only [h0, ne_eq, not_true_eq_false, if_false]
      rw [biggestDepth_eq, ← toNibs_drop, ← toNibs_drop]
      have e1 : 2 * (n.offset / 2) = n.offset := by omega
      have e2 : 2 * (them.offset / 2) = them.offset := by omega
      rw [e1, e2]; rfl
    · have hn1 : n.offset % 2 = 1 := by omega
      have ht1 : them.offset % 2 = 1 := by omega
      simp only [h0, ne_eq, not_false_eq_true, if_true]
      have hl1 : n.offset < (toNibs n.data).length := by rw [length_toNibs]; omega
      have hl2 : them.offset < (toNibs them.data).length := by rw [length_toNibs]; omega
      have g1 := toNibs_get n.data n.offset hl1
      have g2 := toNibs_get them.data them.offset hl2
      simp only [hn1, ht1] at g1 g2
      have d1 : n.abs = loNib (n.data.getD (n.offset / 2) 0) :: toNibs (n.data.drop (n.offset / 2 + 1)) := by
        unfold PN.abs
        rw [List.drop_eq_getElem_cons hl1, g1, ← toNibs_drop]
        have : 2 * (n.offset / 2 + 1) = n.offset + 1 := by omega
        rw [this]; simp
      have d2 : them.abs = loNib (them.data.getD (them.offset / 2) 0) ::
          toNibs (them.data.drop (them.offset / 2 + 1)) := by
        unfold PN.abs
        rw [List.drop_eq_getElem_cons hl2, g2, ← toNibs_drop]
        have : 2 * (them.offset / 2 + 1) = them.offset + 1 := by omega
        rw [this]; simp
      rw [d1, d2]
      simp only [padRight, and0F, Trie.lcpLen]
      generalize loNib (n.data.getD (n.offset / 2) 0) = a
      generalize loNib (them.data.getD (them.offset / 2) 0) = b
      by_cases hq : a = b
      · subst hq; simp [biggestDepth_eq]
      · have : nv a ≠ nv b := fun e => hq (nv_inj _ _ e)
        simp [this, hq]
  · simp only [hal, if_false]
    rw [C06_nibbles_len_refines, C06_nibbles_len_refines, cpLoop_eq n them _ 0 (by simp)]
    simp

theorem lcpLen_eq_length_iff (a b : Nibs) : Trie.lcpLen a b = b.length ↔ b.isPrefixOf a = true := by
  induction a generalizing b with
  | nil => cases b <;> simp [Trie.lcpLen]
  | cons x r ih =>
    cases b with
    | nil => simp [Trie.lcpLen]
    | cons y t =>
      simp only [Trie.lcpLen, List.isPrefixOf, List.length_cons]
      by_cases hxy : x = y
      · subst hxy; simp [ih]
      · have : ¬ y = x := fun e => hxy e.symm
        simp [hxy, this]

/-- `StartsWith` and `Equal` -/
theorem C06_nibbles_startsWith_refines (n them : PN) (h1 : n.WF) (h2 : them.WF) :
    n.startsWith them = them.abs.isPrefixOf n.abs ∧ (n.equal them = true ↔ n.abs = them.abs) := by
  have hcp := C06_nibbles_commonPrefix_refines n them h1 h2
  have hsw : n.startsWith them = them.abs.isPrefixOf n.abs := by
    unfold PN.startsWith
    rw [hcp, C06_nibbles_len_refines]
    cases hp : them.abs.isPrefixOf n.abs with
    | true => simpa using (lcpLen_eq_length_iff _ _).mpr hp
    | false =>
      have : ¬ Trie.lcpLen n.abs them.abs = them.abs.length := fun e => by
        rw [(lcpLen_eq_length_iff _ _).mp e] at hp; cases hp
      simpa using this
  refine ⟨hsw, ?_⟩
  unfold PN.equal
  rw [hsw, C06_nibbles_len_refines, C06_nibbles_len_refines]
  constructor
  · intro h
    simp only [Bool.and_eq_true, beq_iff_eq] at h
    obtain ⟨r, hr⟩ := isPrefixOf_iff.mp h.2
    have := congrArg List.length hr
    simp at this
    have hr0 : r = [] := List.eq_nil_of_length_eq_zero (by omega)
    rw [hr, hr0]; simp
  · intro h
    rw [h]; simp [isPrefixOf_self]

/-! ### `Right` (the packed partial key of the node encoding) -/

theorem drop_odd (d : Bytes) (s : Nat) (hs : s < d.length) :
    (toNibs d).drop (2 * s + 1) = loNib (d.getD s 0) :: toNibs (d.drop (s + 1)) := by
  have hl : 2 * s + 1 < (toNibs d).length := by rw [length_toNibs]; omega
  rw [List.drop_eq_getElem_cons hl, toNibs_get d (2 * s + 1) hl]
  have e1 : (2 * s + 1) % 2 = 1 := by omega
  have e2 : (2 * s + 1) / 2 = s := by omega
  have e3 : 2 * s + 1 + 1 = 2 * (s + 1) := by omega
  simp only [e1, e2, e3, toNibs_drop]
  simp

/-- `Right()` is `packNibs` of the nibbles: the partial key bytes of the spec encoding -/
theorem C06_nibbles_right_refines (n : PN) (h : n.WF) : n.right = packNibs n.abs := by
  unfold PN.WF at h
  have hlen := C06_nibbles_len_refines n
  unfold PN.right PN.rightPartial
  simp only
  by_cases hp : n.offset % 2 = 0
  · have hl : n.len % 2 = 0 := by simp [PN.len]; omega
    have ho : n.offset = 2 * (n.offset / 2) := by omega
    have hab : n.abs = toNibs (n.data.drop (n.offset / 2)) := by
      unfold PN.abs; rw [← toNibs_drop, ← ho]
    simp only [hl, Nat.lt_irrefl, if_false, List.nil_append]
    rw [hab]
    unfold packNibs
    simp [length_toNibs, packEven_toNibs]
  · obtain ⟨s, hs⟩ : ∃ s, n.offset = 2 * s + 1 := ⟨n.offset / 2, by omega⟩
    have hdiv : n.offset / 2 = s := by omega
    have hlt : s < n.data.length := by omega
    have hl : n.len % 2 = 1 := by simp [PN.len]; omega
    have hab : n.abs = loNib (n.data.getD s 0) :: toNibs (n.data.drop (s + 1)) := by
      unfold PN.abs; rw [hs, drop_odd _ _ hlt]
    simp only [hl, Nat.lt_one_iff, if_true, hdiv, Nat.one_pos]
    rw [hab]
    unfold packNibs
    have : ¬ (loNib (n.data.getD s 0) :: toNibs (n.data.drop (s + 1))).length % 2 = 0 := by
      simp [length_toNibs]
    simp only [this, if_false, packEven_toNibs, padRight, and0F]
    rfl

/-! ### `ShiftKey` -/

theorem shl_or_shr (a b : UInt8) : a <<< 4 ||| b >>> 4 = byteOf (loNib a) (hiNib b) := by
  rw [shl4, shr4', or_nibs]

theorem toNibs_shiftLeft : ∀ d : Bytes, d ≠ [] → toNibs (shiftLeft d) = (toNibs d).drop 1 ++ [0]
  | [], h => absurd rfl h
  | [a], _ => by simp [shiftLeft, toNibs, shl4, hi_byteOf, lo_byteOf]
  | a :: b :: r, _ => by
    have ih := toNibs_shiftLeft (b :: r) (by simp)
    simp only [shiftLeft, toNibs, shl_or_shr, hi_byteOf, lo_byteOf] at ih ⊢
    simp [ih]

theorem toNibs_shiftRightFrom (p : UInt8) : ∀ d : Bytes,
    toNibs (shiftRightFrom p d) = loNib p :: (toNibs d ++ [0])
  | [] => by simp [shiftRightFrom, toNibs, shl4, hi_byteOf, lo_byteOf]
  | a :: r => by
    have ih := toNibs_shiftRightFrom a r
    simp [shiftRightFrom, toNibs, shl_or_shr, hi_byteOf, lo_byteOf, ih]

theorem nk_offset_le (k : NK) (h : k.WF) : k.offset ≤ (toNibs k.data).length := by
  obtain ⟨h1, h2⟩ := h
  rw [length_toNibs]
  by_cases h0 : k.offset = 0
  · omega
  · have : k.offset = 1 := by omega
    have := h2 this
    cases hd : k.data with
    | nil => exact absurd hd this
    | cons x r => simp; omega

/-- `ShiftKey(offset)`: when the offset changes the nibbles are kept and a padding zero nibble is
    appended (the caller overwrites or drops it); the result is well formed -/
theorem C06_nibbles_shiftKey_refines (k : NK) (h : k.WF) (offset : Nat) (ho : offset ≤ 1) :
    (k.shiftKey offset).1.WF ∧ (k.shiftKey offset).1.offset = offset ∧
    (k.shiftKey offset).2 = decide (k.offset ≠ offset) ∧
    (k.shiftKey offset).1.abs = if k.offset = offset then k.abs else k.abs ++ [0] := by
  obtain ⟨h1, h2⟩ := h
  unfold NK.shiftKey
  by_cases hgt : k.offset > offset
  · have hk : k.offset = 1 := by omega
    have h0 : offset = 0 := by omega
    have hne := h2 hk
    have hsl := toNibs_shiftLeft k.data hne
    have hne' : shiftLeft k.data ≠ [] := by
      intro e; rw [e] at hsl; simp [toNibs] at hsl
    simp only [hgt, if_true]
    refine ⟨⟨by simp; omega, fun _ => hne'⟩, trivial, by simp; omega, ?_⟩
    have : ¬ k.offset = offset := by omega
    simp only [this, if_false, NK.abs, h0, hk, hsl]
    simp
  · by_cases hlt : k.offset < offset
    · have hk : k.offset = 0 := by omega
      have h1' : offset = 1 := by omega
      simp only [hgt, hlt, if_false, if_true]
      have hsr := toNibs_shiftRightFrom 0 k.data
      have hne' : shiftRightFrom 0 k.data ≠ [] := by
        intro e; rw [e] at hsr; simp [toNibs] at hsr
      refine ⟨⟨by simp; omega, fun _ => hne'⟩, trivial, by simp; omega, ?_⟩
      have : ¬ k.offset = offset := by omega
      simp only [this, if_false, NK.abs, h1', hk, hsr]
      simp
    · have he : k.offset = offset := by omega
      simp only [hgt, hlt, if_false]
      refine ⟨⟨by simp; omega, fun hx => h2 (by simpa [he] using hx)⟩, trivial, by simp [he], ?_⟩
      simp [he, NK.abs]

end Gossamer.C06.Nb
