/-
C23: functional forms of the Go lookups (`findApplicableChange`, `pruneChanges`, forced `findApplicable`, the
dependency check of `ApplyForcedChanges`) when ancestry answers truthfully for the blocks involved, and the
preservation of `RInv`.  Core Lean only.
-/
import Gossamer.Lib.C23Sched
namespace Gossamer.C23

/-- a root whose change is due at a finalisation of `b` (number `n`) -/
def dueOn (t : Tree) (b n : Nat) (r : Node) : Bool := decide (eff t r.ann ≤ n) && anc t r.ann.blk b

/-- a child that the finalisation of `b` would skip -/
def skipped (t : Tree) (b n : Nat) (k : Node) : Bool := decide (num t k.ann.blk ≤ n) && anc t k.ann.blk b

theorem kidsCheck_eq (t : Tree) (isD : IsD) (b n : Nat) : ∀ (ks : List Node),
    (∀ k ∈ ks, isD k.ann.blk b = some (anc t k.ann.blk b)) →
    kidsCheck t isD b n ks = if ks.any (skipped t b n) then .error .unfin else .ok true := by
  intro ks
  induction ks with
  | nil => intro _; simp [kidsCheck]
  | cons k ks ih =>
    intro h
    have hk := h k (by simp)
    have ih' := ih (fun x hx => h x (by simp [hx]))
    simp only [kidsCheck, hk, List.any_cons, skipped]
    by_cases h1 : num t k.ann.blk ≤ n
    · by_cases h2 : anc t k.ann.blk b = true
      · simp [h1, h2]
      · have h2' : anc t k.ann.blk b = false := by simpa using h2
        simpa [h1, h2', skipped] using ih'
    · simpa [h1, skipped] using ih'

theorem applicableCond_eq {t : Tree} (wf : t.WF) (isD : IsD) (b n : Nat) (r : Node)
    (hr : isD r.ann.blk b = some (anc t r.ann.blk b))
    (hk : ∀ k ∈ r.kids, isD k.ann.blk b = some (anc t k.ann.blk b)) :
    applicableCond t isD b n r =
      if dueOn t b n r then (if r.kids.any (skipped t b n) then .error .unfin else .ok true) else .ok false := by
  unfold applicableCond dueOn
  rw [kidsCheck_eq t isD b n r.kids hk]
  by_cases h1 : eff t r.ann > n
  · have : ¬ eff t r.ann ≤ n := by omega
    simp [h1, this]
  · have h1' : eff t r.ann ≤ n := by omega
    simp only [h1, if_false, h1', decide_true, Bool.true_and]
    by_cases h2 : b = r.ann.blk
    · simp [h2, anc_refl wf]
    · simp only [ne_eq, h2, not_false_eq_true, if_true, hr]
      cases anc t r.ann.blk b <;> simp

theorem lookupRoots_applicable_eq {t : Tree} (wf : t.WF) (isD : IsD) (b n : Nat) : ∀ (roots : List Node),
    (∀ r ∈ roots, isD r.ann.blk b = some (anc t r.ann.blk b) ∧
      ∀ k ∈ r.kids, isD k.ann.blk b = some (anc t k.ann.blk b)) →
    lookupRoots (applicableCond t isD b n) roots =
      match roots.find? (dueOn t b n) with
      | none => .ok none
      | some r => if r.kids.any (skipped t b n) then .error .unfin else .ok (some r) := by
  intro roots
  induction roots with
  | nil => intro _; simp [lookupRoots]
  | cons r rs ih =>
    intro h
    have hr := h r (by simp)
    have ih' := ih (fun x hx => h x (by simp [hx]))
    simp only [lookupRoots, applicableCond_eq wf isD b n r hr.1 hr.2, List.find?]
    cases hd : dueOn t b n r with
    | false => simpa using ih'
    | true =>
      simp only [if_true]
      cases r.kids.any (skipped t b n) <;> simp

theorem lookupRoots_pure (P : Node → Bool) : ∀ (roots : List Node),
    lookupRoots (fun r => .ok (P r)) roots = .ok (roots.find? P) := by
  intro roots
  induction roots with
  | nil => simp [lookupRoots]
  | cons r rs ih =>
    simp only [lookupRoots, List.find?]
    cases P r <;> simp [ih]

theorem lookupRoots_congr (f g : Node → Except Err Bool) : ∀ (roots : List Node), (∀ r ∈ roots, f r = g r) →
    lookupRoots f roots = lookupRoots g roots := by
  intro roots
  induction roots with
  | nil => intro _; simp [lookupRoots]
  | cons r rs ih =>
    intro h
    simp only [lookupRoots, h r (by simp), ih (fun x hx => h x (by simp [hx]))]

theorem lookupForced_pure (P : Ann → Bool) : ∀ (l : List Ann),
    lookupForced (fun c => .ok (P c)) l = .ok (l.find? P) := by
  intro l
  induction l with
  | nil => simp [lookupForced]
  | cons c cs ih =>
    simp only [lookupForced, List.find?]
    cases P c <;> simp [ih]

theorem lookupForced_congr (f g : Ann → Except Err Bool) : ∀ (l : List Ann), (∀ c ∈ l, f c = g c) →
    lookupForced f l = lookupForced g l := by
  intro l
  induction l with
  | nil => intro _; simp [lookupForced]
  | cons c cs ih =>
    intro h
    simp only [lookupForced, h c (by simp), ih (fun x hx => h x (by simp [hx]))]

theorem schedPrune_eq (isD : IsD) (h : Nat) (hD : ∀ a d, isD a d ≠ none) : ∀ (l : List Node),
    schedPrune isD h l =
      .ok (l.filter (fun r => isD h r.ann.blk == some true || isD r.ann.blk h == some true)) := by
  intro l
  induction l with
  | nil => rfl
  | cons r rs ih =>
    simp only [schedPrune, ih, onBranch]
    cases h1 : isD h r.ann.blk with
    | none => exact absurd h1 (hD _ _)
    | some d1 =>
      cases d1 with
      | true => simp [List.filter, h1]
      | false =>
        cases h2 : isD r.ann.blk h with
        | none => exact absurd h2 (hD _ _)
        | some d2 => cases d2 <;> simp [List.filter, h1, h2]

theorem forcedFind_eq {t : Tree} (wf : t.WF) (isD : IsD) (h n : Nat) : ∀ (l : List Ann),
    (∀ c ∈ l, isD c.blk h = some (anc t c.blk h)) →
    forcedFind t isD h n l = .ok (l.find? (fun c => anc t c.blk h && decide (eff t c = n))) := by
  intro l
  induction l with
  | nil => intro _; simp [forcedFind]
  | cons c cs ih =>
    intro hyp
    have hc := hyp c (by simp)
    have ih' := ih (fun x hx => hyp x (by simp [hx]))
    simp only [forcedFind, List.find?, hc]
    by_cases h1 : h = c.blk ∧ eff t c = n
    · have h3 : anc t c.blk h = true := by rw [h1.1]; exact anc_refl wf _
      simp only [h1, and_self, if_true]
      rw [h1.1] at h3
      simp [h3]
    · simp only [h1, if_false]
      by_cases h2 : anc t c.blk h = true ∧ eff t c = n
      · simp [h2]
      · simp only [h2, if_false]
        have : (anc t c.blk h && decide (eff t c = n)) = false := by
          cases h3 : anc t c.blk h with
          | false => simp
          | true =>
            have : ¬ eff t c = n := fun e => h2 ⟨h3, e⟩
            simp [this]
        rw [this]; exact ih'

/-! ### `RInv` through a step -/

/-- a block on an abandoned fork stays on one when the finalised block advances -/
theorem dead_stays_dead {t : Tree} (wf : t.WF) {root b x : Nat} (hx : cmp t root x = false)
    (hb : anc t root b = true) : cmp t b x = false := by
  simp only [cmp, Bool.or_eq_false_iff] at hx ⊢
  constructor
  · cases h : anc t b x with
    | false => rfl
    | true => have := anc_trans wf _ _ _ hb h; rw [hx.1] at this; exact absurd this (by simp)
  · cases h : anc t x b with
    | false => rfl
    | true =>
      rcases anc_linear wf b _ _ hb h with h1 | h1
      · rw [hx.1] at h1; exact absurd h1 (by simp)
      · rw [hx.2] at h1; exact absurd h1 (by simp)

/-- `RInv` for the state right after `SetFinalisedHash` -/
theorem rInv_setFinalised {t : Tree} (wf : t.WF) {s : St} (hr : RInv t s) {b : Nat} (hb : inBt t s b = true) :
    RInv t { s with live := s.live.filter (fun x => anc t b x || anc t x b), root := b } := by
  intro x hx
  have hb' := (inBt_iff t s b).1 hb
  rcases hr x hx with h | h
  · by_cases hc : cmp t b x = true
    · left
      simp only [List.mem_filter]
      exact ⟨h, by simpa [cmp] using hc⟩
    · right; simpa using hc
  · right; exact dead_stays_dead wf h hb'.2

theorem rInv_of_sub {t : Tree} {s s' : St} (hl : s'.live = s.live) (hro : s'.root = s.root)
    (hsub : ∀ x ∈ blocksF s'.roots, x ∈ blocksF s.roots) (h : RInv t s) : RInv t s' := by
  intro x hx
  rw [hl, hro]
  exact h x (hsub x hx)

end Gossamer.C23
