/-
C28: case analysis ("what can happen") of `bump`, `allocate`, `deallocate`, proved once so that the
invariant proof never unfolds the allocator again.
-/
import Gossamer.Lib.C28Mem
namespace Gossamer.C28
variable {S : Store}

theorem pagesFromSize_size (m : Mem S) (h : m.pages ≤ 4294967295) : pagesFromSize m.size = some m.pages := by
  unfold pagesFromSize Mem.size
  have : (PAGE - 1 + PAGE * m.pages) / PAGE = m.pages := by c28_omega
  rw [this]; simp; omega

/-- a successful `bump`: the old bumper is returned, the bumper advances by `size` without wrapping,
    the (possibly grown, never beyond 65536 pages by `bump` itself) memory covers the new block -/
theorem bump_ok (bumper size : Nat) (m : Mem S) (res b' : Nat) (m' : Mem S)
    (h : bump bumper size m = .ok (res, b', m')) :
    res = bumper ∧ b' = bumper + size ∧ bumper + size ≤ 4294967295 ∧ bumper + size ≤ m'.size ∧
    m'.bytes = m.bytes ∧ m.pages ≤ m'.pages ∧ m'.maxPages = m.maxPages ∧
    (m' = m ∨ m'.pages ≤ MAX_PAGES) := by
  unfold bump at h
  simp only at h
  split at h
  · cases h
  rename_i h32
  split at h
  · rename_i hgt
    split at h
    · cases h
    rename_i rp hrp
    split at h
    · cases h
    rename_i cp hcp
    split at h
    · cases h
    rename_i hcpm
    split at h
    · cases h
    rename_i hrpm
    split at h
    · cases h
    rename_i mg hg
    simp only [Except.ok.injEq, Prod.mk.injEq] at h
    obtain ⟨h1, h2, h3⟩ := h
    subst h1 h3
    unfold pagesFromSize at hrp hcp
    simp only at hrp hcp
    split at hrp
    · cases hrp
    split at hcp
    · cases hcp
    simp only [Option.some.injEq] at hrp hcp
    unfold Mem.grow at hg
    split at hg
    · simp only [Option.some.injEq] at hg
      subst hg
      simp only [Mem.size] at *
      refine ⟨by trivial, ?_, by omega, ?_, by trivial, by omega, by trivial, Or.inr ?_⟩
      · rw [← h2]; apply Nat.mod_eq_of_lt; c28_omega
      · c28_omega
      · c28_omega
    · cases hg
  · simp only [Except.ok.injEq, Prod.mk.injEq] at h
    obtain ⟨h1, h2, h3⟩ := h
    subst h1 h3
    refine ⟨rfl, ?_, by omega, by omega, rfl, by omega, rfl, Or.inl rfl⟩
    rw [← h2]; apply Nat.mod_eq_of_lt; c28_omega

/-! ## headers -/

theorem readHeader_free_of_lt (m : Mem S) (a : Nat) (h1 : a + 8 ≤ m.size) (h2 : le64 m.bytes a < U32) :
    readHeader m a = .ok (.free (le64 m.bytes a)) := by
  unfold readHeader Mem.read64
  rw [if_pos h1]
  simp only
  have : le64 m.bytes a / OCC = 0 := Nat.div_eq_of_lt h2
  rw [this, Nat.mod_eq_of_lt h2]
  simp

theorem readHeader_occ_of_eq (m : Mem S) (a o : Nat) (h1 : a + 8 ≤ m.size) (ho : o < 23)
    (h2 : le64 m.bytes a = OCC + o) : readHeader m a = .ok (.occupied o) := by
  unfold readHeader Mem.read64
  rw [if_pos h1]
  simp only
  rw [h2]
  have e1 : (OCC + o) / OCC % 2 = 1 := by c28_omega
  have e2 : (OCC + o) % U32 = o := by c28_omega
  rw [e1, e2]
  simp [ho]

/-- the header in front of `p` is a well-formed occupied header (what `Deallocate` accepts) -/
def OccAt (m : Mem S) (p : Nat) : Prop :=
  8 ≤ p ∧ p ≤ m.size ∧ (le64 m.bytes (p - 8) / OCC) % 2 = 1 ∧ le64 m.bytes (p - 8) % U32 < 23

theorem readHeader_occ_iff (m : Mem S) (p o : Nat) (hp : 8 ≤ p) :
    readHeader m (p - 8) = .ok (.occupied o) ↔ OccAt m p ∧ o = le64 m.bytes (p - 8) % U32 := by
  unfold readHeader Mem.read64 OccAt
  by_cases h1 : p - 8 + 8 ≤ m.size
  · rw [if_pos h1]
    simp only
    by_cases h2 : le64 m.bytes (p - 8) / OCC % 2 = 1
    · rw [if_pos h2]
      by_cases h3 : le64 m.bytes (p - 8) % U32 < NUM_ORDERS
      · rw [if_pos h3]
        simp only [Except.ok.injEq, Header.occupied.injEq]
        constructor
        · intro h; exact ⟨⟨hp, by omega, h2, h3⟩, h.symm⟩
        · intro h; exact h.2.symm
      · rw [if_neg h3]
        constructor
        · intro h; cases h
        · intro h; exact absurd h.1.2.2.2 h3
    · rw [if_neg h2]
      constructor
      · intro h; cases h
      · intro h; exact absurd h.1.2.2.1 h2
  · rw [if_neg h1]
    constructor
    · intro h; cases h
    · intro h; exact absurd h.1.2.1 (by omega)

/-! ## Allocate -/

/-- everything `Allocate` can do from a non-poisoned allocator -/
theorem allocate_cases (s : St) (m : Mem S) (n : Nat) (hp : s.poisoned = false) :
    -- (1) failure: the allocator is poisoned, nothing else that matters changes
    (∃ s' e, allocate s m n = (s', m, .error e) ∧ s'.poisoned = true ∧ s'.base = s.base ∧
        s'.bumper = s.bumper ∧ s'.heads = s.heads) ∨
    -- (2) the head of the free list of the order is handed out
    (∃ s' o next, allocate s m n = (s', { m with bytes := put64 m.bytes (s.heads o) (OCC + o) },
          .ok ((s.heads o + 8) % U32)) ∧
        orderFromSize n = some o ∧ s.heads o ≠ NIL ∧ s.heads o + osize o + 8 ≤ m.size ∧
        readHeader m (s.heads o) = .ok (.free next) ∧
        s'.poisoned = false ∧ s'.base = s.base ∧ s'.bumper = s.bumper ∧
        s'.heads = setHead s.heads o next) ∨
    -- (3) a new block is carved at the bumper
    (∃ s' m' o, allocate s m n = (s', { m' with bytes := put64 m.bytes s.bumper (OCC + o) },
          .ok ((s.bumper + 8) % U32)) ∧
        orderFromSize n = some o ∧ s.heads o = NIL ∧ s.bumper + (osize o + 8) ≤ 4294967295 ∧
        s.bumper + (osize o + 8) ≤ m'.size ∧ m.pages ≤ m'.pages ∧ m'.maxPages = m.maxPages ∧
        (m' = m ∨ m'.pages ≤ MAX_PAGES) ∧
        s'.poisoned = false ∧ s'.base = s.base ∧ s'.bumper = s.bumper + (osize o + 8) ∧
        s'.heads = s.heads) := by
  unfold allocate
  rw [hp]
  simp only [Bool.false_eq_true, if_false]
  unfold allocCore
  split
  · exact Or.inl ⟨_, _, rfl, rfl, rfl, rfl, rfl⟩
  simp only
  split
  · exact Or.inl ⟨_, _, rfl, rfl, rfl, rfl, rfl⟩
  rename_i o ho
  have hspec := orderFromSize_spec n o ho
  have hos := osize_le o hspec.2.1
  split
  · rename_i hlink
    split
    · exact Or.inl ⟨_, _, rfl, rfl, rfl, rfl, rfl⟩
    rename_i hfit
    split
    · exact Or.inl ⟨_, _, rfl, rfl, rfl, rfl, rfl⟩
    · exact Or.inl ⟨_, _, rfl, rfl, rfl, rfl, rfl⟩
    · rename_i next hrd
      refine Or.inr (Or.inl ?_)
      unfold allocFinish Mem.write64
      simp only
      rw [if_pos (by have := osize_pos o; c28_omega)]
      exact ⟨_, o, next, rfl, ho, hlink, by c28_omega, hrd, hp, rfl, rfl, rfl⟩
  · rename_i hlink
    have hnil : s.heads o = NIL := by
      apply Decidable.byContradiction; intro hn; exact hlink hn
    split
    · exact Or.inl ⟨_, _, rfl, rfl, rfl, rfl, rfl⟩
    · rename_i res b' m' hb
      have hsz : (osize o + HDR) % U32 = osize o + 8 := by
        apply Nat.mod_eq_of_lt; c28_omega
      rw [hsz] at hb
      obtain ⟨h1, h2, h3, h4, h5, h6, h7, h8⟩ := bump_ok _ _ _ _ _ _ hb
      subst h1 h2
      refine Or.inr (Or.inr ?_)
      unfold allocFinish Mem.write64
      simp only
      rw [if_pos (by have := osize_pos o; c28_omega)]
      rw [h5]
      exact ⟨_, m', o, rfl, ho, hnil, h3, h4, h6, h7, h8, hp, rfl, rfl, rfl⟩

/-! ## Deallocate -/

/-- everything `Deallocate` can do from a non-poisoned allocator -/
theorem deallocate_cases (s : St) (m : Mem S) (p : Nat) (hp : s.poisoned = false) :
    -- (1) refused before anything is written
    (∃ s' e, deallocate s m p = (s', m, .error e) ∧ s'.poisoned = true ∧ s'.base = s.base ∧
        s'.bumper = s.bumper ∧ s'.heads = s.heads ∧ (OccAt m p → e = .shrunk)) ∨
    -- (2) accepted: the block is pushed on the free list of the order found in its header
    --     (`ok = false`: the statistics underflowed afterwards; error and poison)
    (∃ s' o r, deallocate s m p =
          (s', { m with bytes := put64 m.bytes (p - 8) (s.heads o) }, r) ∧
        OccAt m p ∧ o = le64 m.bytes (p - 8) % U32 ∧
        s'.base = s.base ∧ s'.bumper = s.bumper ∧ s'.heads = setHead s.heads o (p - 8) ∧
        ((r = .ok () ∧ s'.poisoned = false) ∨ (r = .error .underflow ∧ s'.poisoned = true))) := by
  unfold deallocate
  rw [hp]
  simp only [Bool.false_eq_true, if_false]
  unfold deallocCore
  split
  · exact Or.inl ⟨_, _, rfl, rfl, rfl, rfl, rfl, fun _ => rfl⟩
  simp only
  split
  · rename_i h8
    refine Or.inl ⟨_, _, rfl, rfl, rfl, rfl, rfl, fun h => ?_⟩
    exact absurd h.1 (by c28_omega)
  rename_i h8
  have h8' : 8 ≤ p := by c28_omega
  have hsub : p - HDR = p - 8 := rfl
  rw [hsub]
  split
  · rename_i e hrd
    refine Or.inl ⟨_, _, rfl, rfl, rfl, rfl, rfl, fun h => ?_⟩
    have := (readHeader_occ_iff m p _ h8').mpr ⟨h, rfl⟩
    rw [hrd] at this; cases this
  · rename_i lk hrd
    refine Or.inl ⟨_, _, rfl, rfl, rfl, rfl, rfl, fun h => ?_⟩
    have := (readHeader_occ_iff m p _ h8').mpr ⟨h, rfl⟩
    rw [hrd] at this; cases this
  · rename_i o hrd
    obtain ⟨hocc, ho⟩ := (readHeader_occ_iff m p o h8').mp hrd
    unfold Mem.write64
    rw [if_pos (by have := hocc.2.1; omega)]
    simp only
    refine Or.inr ?_
    split
    · exact ⟨_, o, _, rfl, hocc, ho, rfl, rfl, rfl, Or.inr ⟨rfl, rfl⟩⟩
    · exact ⟨_, o, _, rfl, hocc, ho, rfl, rfl, rfl, Or.inl ⟨rfl, hp⟩⟩

end Gossamer.C28
