/-
C17 — the invariant `Inv` is preserved by `AddBlock` and by `SetFinalisedHash`.  Core Lean only.
-/
import Gossamer.Lib.C17Inv
namespace Gossamer.C17

theorem Inv_init (g : Blk) : Inv g (St.init g) where
  tree := by
    refine ⟨?_, ?_, ?_⟩
    · intro b hb
      simp only [St.init, List.mem_singleton] at hb
      subst hb
      simp [St.init, findB_cons]
    · simp [St.init, findB_cons]
    · intro b hb hr
      simp only [St.init, List.mem_singleton] at hb
      subst hb
      exact absurd rfl hr
  rootDb := by
    intro rb h
    simp only [St.init, findB_cons, if_true, Option.some.injEq] at h
    subst h
    simp [St.init, findB_cons]
  rootUnfin := rfl
  treeUnfin := by
    intro b hb hr
    simp only [St.init, List.mem_singleton] at hb
    subst hb
    exact absurd rfl hr
  unfinTree := by intro b hb; simp [St.init] at hb
  noGenesis := by
    intro b hb hr
    simp only [St.init, List.mem_singleton] at hb
    subst hb
    exact absurd rfl hr

/-- the invariant only looks at root, tree, unfinalised map and header table -/
theorem Inv_congr {g : Blk} {st st' : St} (inv : Inv g st) (h1 : st'.root = st.root) (h2 : st'.tree = st.tree)
    (h3 : st'.unfin = st.unfin) (h4 : st'.dbHdr = st.dbHdr) : Inv g st' where
  tree := ⟨by rw [h2]; exact inv.tree.uniq, by rw [h1, h2]; exact inv.tree.rootIn,
    by rw [h1, h2]; exact inv.tree.parent⟩
  rootDb := by rw [h1, h2, h4]; exact inv.rootDb
  rootUnfin := by rw [h1, h3]; exact inv.rootUnfin
  treeUnfin := by rw [h1, h2, h3]; exact inv.treeUnfin
  unfinTree := by rw [h1, h2, h3]; exact inv.unfinTree
  noGenesis := by rw [h1, h2]; exact inv.noGenesis

/-- the state after a successful `AddBlock` -/
def added (st : St) (b : Blk) : St :=
  { st with tree := st.tree ++ [b], unfin := storeB st.unfin b, tries := softSet st.tries b.sroot }

theorem addBlock_cases (st : St) (b : Blk) :
    (addBlock st b).1 = st ∨
    ∃ p, findB st.tree b.parent = some p ∧ findB st.tree b.hash = none ∧ p.number + 1 = b.number ∧
      addBlock st b = (added st b, .ok) := by
  unfold addBlock
  cases hp : findB st.tree b.parent with
  | none => exact .inl rfl
  | some p =>
    simp only
    cases hh : findB st.tree b.hash with
    | some x => simp
    | none =>
      simp only [Option.isSome_none, Bool.false_eq_true, if_false]
      by_cases hn : p.number + 1 ≠ b.number
      · simp [hn]
      · simp only [hn, if_false]
        exact .inr ⟨p, by simp, by simp, by omega, rfl⟩

theorem Inv_add {g : Blk} {st : St} (inv : Inv g st) (b : Blk) (hbg : b.hash ≠ g.hash) :
    Inv g (addBlock st b).1 := by
  rcases addBlock_cases st b with h | ⟨p, hp, hh, hn, heq⟩
  · rw [h]; exact inv
  · rw [heq]
    have hroot : st.root ≠ b.hash := by
      intro h
      have := inv.tree.rootIn
      rw [h, hh] at this
      cases this
    have hold : ∀ x ∈ st.tree, x.hash ≠ b.hash := findB_none hh
    have hfind : ∀ x, (findB st.tree x).isSome → findB (st.tree ++ [b]) x = findB st.tree x := by
      intro x hx
      rw [findB_append]
      cases h : findB st.tree x with
      | some y => rfl
      | none => rw [h] at hx; cases hx
    refine ⟨⟨?_, ?_, ?_⟩, ?_, ?_, ?_, ?_, ?_⟩
    · intro x hx
      show findB (st.tree ++ [b]) x.hash = some x
      rcases List.mem_append.mp hx with hx | hx
      · rw [hfind _ (findB_isSome_of_mem hx)]; exact inv.tree.uniq x hx
      · simp only [List.mem_singleton] at hx
        subst hx
        rw [findB_append, hh]
        simp [findB_cons]
    · show (findB (st.tree ++ [b]) st.root).isSome
      rw [hfind _ inv.tree.rootIn]; exact inv.tree.rootIn
    · intro x hx hr
      show ∃ q, findB (st.tree ++ [b]) x.parent = some q ∧ _
      rcases List.mem_append.mp hx with hx | hx
      · obtain ⟨q, hq, hqn⟩ := inv.tree.parent x hx hr
        exact ⟨q, by rw [hfind _ (by rw [hq]; rfl)]; exact hq, hqn⟩
      · simp only [List.mem_singleton] at hx
        subst hx
        exact ⟨p, by rw [hfind _ (by rw [hp]; rfl)]; exact hp, hn⟩
    · intro rb hrb
      have : findB (st.tree ++ [b]) st.root = some rb := hrb
      rw [hfind _ inv.tree.rootIn] at this
      exact inv.rootDb rb this
    · show findB (storeB st.unfin b) st.root = none
      rw [findB_storeB]; simp [hroot, inv.rootUnfin]
    · intro x hx hr
      show findB (storeB st.unfin b) x.hash = some x
      rw [findB_storeB]
      rcases List.mem_append.mp hx with hx | hx
      · simp [hold x hx, inv.treeUnfin x hx hr]
      · simp only [List.mem_singleton] at hx
        subst hx; simp
    · intro y hy
      have hy' : y ∈ storeB st.unfin b := hy
      show y ∈ st.tree ++ [b] ∧ y.hash ≠ st.root
      rcases mem_storeB.mp hy' with ⟨h1, _⟩ | h1
      · exact ⟨List.mem_append_left _ (inv.unfinTree y h1).1, (inv.unfinTree y h1).2⟩
      · subst h1; exact ⟨by simp, Ne.symm hroot⟩
    · intro x hx hr
      rcases List.mem_append.mp hx with hx | hx
      · exact inv.noGenesis x hx hr
      · simp only [List.mem_singleton] at hx
        subst hx; exact hbg

/-- on a list with strictly increasing numbers, the number determines the element -/
theorem pairwise_lt_inj : ∀ (l : List Blk), l.Pairwise (fun a b => a.number < b.number) →
    ∀ x ∈ l, ∀ y ∈ l, x.number = y.number → x = y
  | [], _, x, hx, _, _, _ => by simp at hx
  | a :: t, hp, x, hx, y, hy, he => by
    rw [List.pairwise_cons] at hp
    rcases List.mem_cons.mp hx with hxa | hxt
    · rcases List.mem_cons.mp hy with hya | hyt
      · rw [hxa, hya]
      · have := hp.1 y hyt; rw [hxa] at he; omega
    · rcases List.mem_cons.mp hy with hya | hyt
      · have := hp.1 x hxt; rw [hya] at he; omega
      · exact pairwise_lt_inj t hp.2 x hxt y hyt he

/-- facts about a move that the preservation proof and the property theorems share -/
structure MoveFacts (st : St) (h : Nat) (rb hn : Blk) (rest : List Blk) : Prop where
  hnh : hn.hash = h
  rbh : rb.hash = st.root
  hnTree : hn ∈ st.tree
  hnRest : hn ∈ rest
  restTree : ∀ b ∈ rest, b ∈ st.tree ∧ b.hash ≠ st.root
  upHead : up st hn = ((rb :: rest).map (·.hash)).reverse
  restLt : ∀ b ∈ rest, b ≠ hn → b.number < hn.number
  rootLt : ∀ b ∈ rest, rb.number < b.number

theorem Moved.facts {g : Blk} {st st' : St} (inv : Inv g st) {h r s : Nat} {rb hn : Blk} {rest : List Blk}
    (m : Moved st h r s rb hn rest st') (hne : h ≠ st.root) : MoveFacts st h rb hn rest := by
  have hnh : hn.hash = h := (findB_some m.headB).2
  have rbh : rb.hash = st.root := (findB_some m.rootB).2
  have hnt : hn ∈ st.tree := (findB_some m.headB).1
  have hnrest : hn ∈ rest := hn_mem_rest m.path (by rw [hnh, rbh]; exact hne)
  refine ⟨hnh, rbh, hnt, hnrest, ?_, ?_, ?_, ?_⟩
  · intro b hb
    exact ⟨(m.path.mem b (List.mem_cons_of_mem _ hb)).1, m.path.tailNonRoot b (by simpa using hb)⟩
  · exact upList_of_path inv.tree _ hn _ rb rest hnt m.walk rfl rbh _ (by omega)
  · intro b hb hbn
    have hle := (m.path.mem b (List.mem_cons_of_mem _ hb)).2
    have : b.number ≠ hn.number := fun he =>
      hbn (pairwise_lt_inj _ m.path.incr b (List.mem_cons_of_mem _ hb) hn (List.mem_cons_of_mem _ hnrest) he)
    omega
  · intro b hb
    have := m.path.incr
    rw [List.pairwise_cons] at this
    exact this.1 b hb

/-- a kept node other than the new head is not the old root, and its parent is kept too -/
theorem kept_parent {g : Blk} {st : St} (inv : Inv g st) {hn b : Blk} (hb : b ∈ kept st hn)
    (hbh : b.hash ≠ hn.hash) :
    b.hash ≠ st.root ∧ ∃ p, findB st.tree b.parent = some p ∧ p.number + 1 = b.number ∧ p ∈ kept st hn := by
  have hbm := List.mem_filter.mp hb
  have hbt := hbm.1
  have hup : hn.hash ∈ up st b := by simpa using hbm.2
  have hbr : b.hash ≠ st.root := by
    intro hr
    rw [up_root hr] at hup
    exact hbh (List.mem_singleton.mp hup).symm
  obtain ⟨p, hp⟩ := parentNode_nonroot inv.tree hbt hbr
  obtain ⟨_, hfp, hpt, hpn⟩ := parentNode_some inv.tree hbt hp
  rw [up_step inv.tree hbt hp] at hup
  rcases List.mem_cons.mp hup with hup | hup
  · exact absurd hup.symm hbh
  · exact ⟨hbr, p, hfp, hpn, List.mem_filter.mpr ⟨hpt, by simpa using hup⟩⟩

theorem Inv_moved {g : Blk} {st st' : St} (inv : Inv g st) {h r s : Nat} {rb hn : Blk} {rest : List Blk}
    (m : Moved st h r s rb hn rest st') (hne : h ≠ st.root) : Inv g st' := by
  have f := m.facts inv hne
  have hnKept : hn ∈ kept st hn := List.mem_filter.mpr ⟨f.hnTree, by simpa using self_mem_up st hn⟩
  have hrootFind : findB st'.tree st'.root = some hn := by
    rw [m.tree, m.root, ← f.hnh]
    exact findB_filter_of_uniq inv.tree.uniq _ f.hnTree (by simpa using self_mem_up st hn)
  have hInRest : h ∈ rest.map (·.hash) := List.mem_map.mpr ⟨hn, f.hnRest, f.hnh⟩
  refine ⟨⟨?_, ?_, ?_⟩, ?_, ?_, ?_, ?_, ?_⟩
  · rw [m.tree]; exact inv.tree.uniq.filter _
  · rw [hrootFind]; rfl
  · intro b hb hbr
    rw [m.tree] at hb
    rw [m.root, ← f.hnh] at hbr
    obtain ⟨_, p, hfp, hpn, hpk⟩ := kept_parent inv hb hbr
    refine ⟨p, ?_, hpn⟩
    rw [m.tree, ← (findB_some hfp).2]
    exact findB_filter_of_uniq inv.tree.uniq _ (List.mem_filter.mp hpk).1 (List.mem_filter.mp hpk).2
  · intro rb' hrb'
    rw [hrootFind] at hrb'
    cases hrb'
    rw [m.root, ← f.hnh]
    exact m.dbNew hn f.hnRest
  · rw [m.root, m.unfinFind h]
    simp [hInRest]
  · intro b hb hbr
    rw [m.tree] at hb
    rw [m.root, ← f.hnh] at hbr
    obtain ⟨hbroot, _⟩ := kept_parent inv hb hbr
    have hbm := List.mem_filter.mp hb
    have hup : hn.hash ∈ up st b := by simpa using hbm.2
    rw [m.unfinFind b.hash]
    have h1 : b.hash ∉ (pruned st hn).map (·.hash) := by
      intro hm
      obtain ⟨c, hc, hch⟩ := List.mem_map.mp hm
      have hcm := List.mem_filter.mp hc
      have : c = b := inv.tree.uniq.eq_of_hash hcm.1 hbm.1 hch
      subst this
      simp only [Bool.and_eq_true, Bool.not_eq_true', decide_eq_false_iff_not] at hcm
      exact hcm.2.1 hup
    have h2 : b.hash ∉ rest.map (·.hash) := by
      intro hm
      obtain ⟨c, hc, hch⟩ := List.mem_map.mp hm
      have : c = b := inv.tree.uniq.eq_of_hash (f.restTree c hc).1 hbm.1 hch
      subst this
      have hcn : c ≠ hn := fun he => hbr (by rw [he])
      exact not_mem_up_of_lt inv.tree hbm.1 f.hnTree (f.restLt c hc hcn) hup
    simp only [h1, h2, if_false]
    exact inv.treeUnfin b hbm.1 hbroot
  · intro y hy
    obtain ⟨⟨hyu, hyr⟩, hyp⟩ := (m.unfinMem y).mp hy
    obtain ⟨hyt, hyroot⟩ := inv.unfinTree y hyu
    have hup : hn.hash ∈ up st y := by
      by_cases hk : hn.hash ∈ up st y
      · exact hk
      · exfalso
        by_cases hk2 : y.hash ∈ up st hn
        · rw [f.upHead, List.mem_reverse, List.map_cons, List.mem_cons] at hk2
          rcases hk2 with hk2 | hk2
          · exact hyroot (hk2.trans f.rbh)
          · exact hyr hk2
        · apply hyp
          refine List.mem_map.mpr ⟨y, List.mem_filter.mpr ⟨hyt, ?_⟩, rfl⟩
          simp [hk, hk2]
    refine ⟨?_, ?_⟩
    · rw [m.tree]; exact List.mem_filter.mpr ⟨hyt, by simpa using hup⟩
    · rw [m.root]; intro he; exact hyr (he ▸ hInRest)
  · intro b hb hbr
    rw [m.tree] at hb
    rw [m.root, ← f.hnh] at hbr
    obtain ⟨hbroot, _⟩ := kept_parent inv hb hbr
    exact inv.noGenesis b (List.mem_filter.mp hb).1 hbroot

/-- `SetFinalisedHash` preserves the invariant -/
theorem Inv_fin {g : Blk} {st : St} (inv : Inv g st) (h r s : Nat) : Inv g (setFinalised g.hash st h r s).1 := by
  rcases setFinalised_cases inv h r s with ⟨h1, _⟩ | ⟨_, _, h1⟩ | ⟨hne, _, rb, hn, rest, m⟩
  · rw [h1]; exact inv
  · rw [h1]; exact Inv_congr inv rfl rfl rfl rfl
  · exact Inv_moved inv m hne

end Gossamer.C17
