/-
C08: ClearPrefixInChild inside a transaction on the logical content of the level.
-/
import Gossamer.Lib.C08Writes2
set_option linter.unusedSectionVars false
set_option linter.unusedSimpArgs false
namespace Gossamer.C08
open Gossamer

/-- the keys of the committed child trie `ck` that start with `p`, as trie.go collects them -/
def kidKeysOn (b : Logical) (ck p : Bytes) : List Bytes :=
  keysWithPrefixOn (fun k => OMap.get k (kidOf b ck)) (Logical.keysAfterE (kidOf b ck)) p

/-- the child change set after the clear -/
def clearedKid (d : Diff) (ck p : Bytes) (tk : List Bytes) : CDiff :=
  (clearKeys (d.kid ck).upserts p tk).foldl CDiff.delete (d.kid ck)

theorem clearPrefixInChild_fst (d : Diff) (ck p : Bytes) (tk : List Bytes) :
    (d.clearPrefixInChild ck p tk none).1 =
      { d with kids := KMap.ins ck (clearedKid d ck p tk) d.kids } := by
  unfold clearedKid
  unfold Diff.clearPrefixInChild
  simp only
  rw [clearPrefixG_none]

section lemmas
variable {CK : Bytes → Bool} {b : Logical} {d : Diff}

/-- child maps of a level, through `Diff.kid` -/
theorem eff_kid' (hb : BaseInv CK b) (hd : DiffInv CK d) (ck k : Bytes) :
    OMap.get k (kidOf (effL b d) ck) =
      if ck ∈ d.c.deletes then none
      else if k ∈ (d.kid ck).deletes then none
      else ov (KMap.find k (d.kid ck).upserts) (OMap.get k (kidOf b ck)) := by
  rw [eff_kid hb hd]
  unfold Diff.kid
  cases KMap.find ck d.kids with
  | none => simp [CDiff.empty, KMap.find]
  | some c => simp

theorem inv_setKidFold (hd : DiffInv CK d) (ck : Bytes) (hck : CK ck = true) (K : List Bytes) :
    DiffInv CK { d with kids := KMap.ins ck (K.foldl CDiff.delete (d.kid ck)) d.kids } := by
  have hs := Diff.sorted_setKid hd.sorted ck (sorted_fold_delete K (Diff.sorted_kid hd.sorted ck))
  refine ⟨hs, hd.upsCK, hd.upsDel, hd.delsNoChild, ?_, ?_, hd.sk, ?_⟩
  · intro ck' h'
    simp only [KMap.find_ins]
    have : ck' ≠ ck := by rintro rfl; rw [hck] at h'; cases h'
    simp [this, hd.kidsCK ck' h']
  · intro ck' c hf k' hk'
    simp only [KMap.find_ins] at hf
    by_cases h : ck' = ck
    · simp only [h, if_true, Option.some.injEq] at hf
      subst hf
      rw [mem_fold_dels] at hk'
      rw [find_fold_ups]
      rcases hk' with hk' | hk'
      · simp [hk']
      · simp [kid_disj hd ck k' hk']
    · simp only [h, if_false] at hf
      exact hd.kidDisj ck' c hf k' hk'
  · intro ck' c hf
    simp only [KMap.find_ins] at hf
    by_cases h : ck' = ck
    · simp only [h, if_true, Option.some.injEq] at hf
      subst hf
      exact sk_fold_delete K (kid_sk hd ck)
    · simp only [h, if_false] at hf
      exact hd.kidSk ck' c hf

/-- `ClearPrefixInChild` inside a transaction -/
theorem eff_clearChild (hb : BaseInv CK b) (hd : DiffInv CK d) (ck p : Bytes) (hck : CK ck = true) :
    effL b (d.clearPrefixInChild ck p (kidKeysOn b ck p) none).1 =
        Logical.setKid (effL b d) ck (OMap.clearPrefix p (kidOf (effL b d) ck)) ∧
      DiffInv CK (d.clearPrefixInChild ck p (kidKeysOn b ck p) none).1 := by
  rw [clearPrefixInChild_fst]
  unfold clearedKid
  have hd' := inv_setKidFold hd ck hck (clearKeys (d.kid ck).upserts p (kidKeysOn b ck p))
  refine ⟨?_, hd'⟩
  have hw := effL_wf (d := d) hb.wf
  have hks : ∀ x, x ∈ kidKeysOn b ck p ↔ (OMap.get x (kidOf b ck) ≠ none ∧ p.isPrefixOf x = true) :=
    fun x => mem_keysWithPrefixOn (kidOf b ck) (kidOf_sorted hb.wf ck) p x
  apply Logical.ext (effL_wf hb.wf)
    (wf_setKid hw _ _ (OMap.sorted_clearPrefix _ (kidOf_sorted hw ck)))
  · intro k'
    rw [main_setKid, eff_main hb hd', eff_main hb hd]
  · intro ck' k'
    rw [kidOf_setKid, eff_kid hb hd']
    simp only [KMap.find_ins]
    by_cases h : ck' = ck
    · subst h
      simp only [if_true, OMap.get_clearPrefix, eff_kid' hb hd]
      by_cases hdel : ck' ∈ d.c.deletes
      · simp [hdel]
      · simp only [hdel, if_false]
        simp only [mem_fold_dels, find_fold_ups]
        by_cases hK : k' ∈ clearKeys (d.kid ck').upserts p (kidKeysOn b ck' p)
        · have := ((mem_clearKeys _ _ _ _).mp hK).1
          simp [hK, this]
        · by_cases hp : p.isPrefixOf k' = true
          · have h1 : k' ∉ KMap.keys (d.kid ck').upserts :=
              fun h => hK ((mem_clearKeys _ _ _ _).mpr ⟨hp, Or.inl h⟩)
            have h2 : k' ∉ kidKeysOn b ck' p :=
              fun h => hK ((mem_clearKeys _ _ _ _).mpr ⟨hp, Or.inr h⟩)
            have f1 : KMap.find k' (d.kid ck').upserts = none := by
              cases hf : KMap.find k' (d.kid ck').upserts with
              | none => rfl
              | some v => exact absurd ((mem_keys_iff _ _).mpr (by rw [hf]; simp)) h1
            have f2 : OMap.get k' (kidOf b ck') = none := by
              cases hg : OMap.get k' (kidOf b ck') with
              | none => rfl
              | some v =>
                exfalso; apply h2; rw [hks]; exact ⟨by rw [hg]; simp, hp⟩
            simp [hK, hp, f1, f2]
          · have hp' : p.isPrefixOf k' = false := by
              cases hq : p.isPrefixOf k' with
              | false => rfl
              | true => exact absurd hq hp
            simp [hK, hp']
    · simp only [h, if_false]
      rw [eff_kid hb hd]

end lemmas

section step
variable (Hc Hm : Entries → Bytes) {CK : Bytes → Bool} {b : Logical}

theorem keysWithPrefixOn_nil (p : Bytes) :
    keysWithPrefixOn (fun k => OMap.get k ([] : Entries)) (Logical.keysAfterE []) p = [] := by
  simp [keysWithPrefixOn, OMap.get, Logical.keysAfterE]

/-- what the model does for `ClearPrefixInChild` inside a transaction, in one expression -/
theorem clearPrefixInChildTS_tx (d : Diff) (r : List Diff) (ck p : Bytes) :
    clearPrefixInChildTS (idealBackend Hc Hm) { base := b, txs := d :: r } ck p =
      ({ base := b, txs := (d.clearPrefixInChild ck p (kidKeysOn b ck p) none).1 :: r }, .ok) := by
  simp only [clearPrefixInChildTS]
  rw [getChild_ideal]
  unfold kidKeysOn
  cases hf : KMap.find ck b.kids with
  | none =>
    simp only [kidOf_none hf, keysWithPrefixOn_nil]
  | some es =>
    simp only [kidOf_some hf]
    rfl

end step

end Gossamer.C08
