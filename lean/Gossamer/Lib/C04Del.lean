/-
C04, incremental writes: `Delete` and `ClearPrefix` on the heap refine `Trie.deleteAtNode` and
`Trie.clearPrefixAtNode` and keep the tree view (`TI`) of the handle.
-/
import Gossamer.Lib.C04Put
namespace Gossamer
namespace TrieHeap
open Trie TrieCodec

/-- result of a mutator that may remove the whole sub-trie -/
def OutO (H : Bytes → Bytes) (G : Bytes → Bytes → Prop) (hp : Heap) (g : Nat) (r : Bool) (fp : List Nat)
    (hp' : Heap) (t' : Trie) : Option Nat → Prop
  | none => t' = .nil ∧ FR (Wr hp fp) hp hp'
  | some y => Out H G hp g r fp hp' t' y

theorem outO_fr {H : Bytes → Bytes} {G : Bytes → Bytes → Prop} {hp : Heap} {g : Nat} {r : Bool} {fp : List Nat}
    {hp' : Heap} {t' : Trie} {y : Option Nat} (h : OutO H G hp g r fp hp' t' y) : FR (Wr hp fp) hp hp' := by
  cases y with
  | none => exact h.2
  | some y => exact Out.fr h

theorem kidIdx_eq {H : Bytes → Bytes} {G : Bytes → Bytes → Prop} {hp : Heap} {g : Nat} {ks : Nib → Option Nat}
    {cs : Nib → Trie} {kn : Nib → Node} {fps : Nib → List Nat}
    (hk : ∀ i, KidTI H G hp g (cs i) (kn i) (fps i) (ks i)) : kidIdx ks = childIdx cs := by
  unfold kidIdx childIdx
  apply List.filter_congr
  intro i _
  have := hk i
  cases hki : ks i with
  | none => rw [hki] at this; rw [this.1]; rfl
  | some c =>
    rw [hki] at this
    cases hc : cs i with
    | nil => exact absurd hc this.1
    | leaf _ _ => rfl
    | branch _ _ _ => rfl

theorem mem_childIdx {cs : Nib → Trie} {i : Nib} {l : List Nib} (h : childIdx cs = i :: l) : cs i ≠ .nil := by
  have : i ∈ childIdx cs := by rw [h]; simp
  unfold childIdx at this
  have := (List.mem_filter.mp this).2
  intro e; rw [e] at this; simp [Trie.isNil] at this

/-- `handleDeletion` on a prepared (own, dirty) branch cell -/
theorem handleDeletion_tree (H : Bytes → Bytes) (hH : ∀ m, (H m).length = 32) (G : Bytes → Bytes → Prop) (c : Ctx)
    (hcH : c.H = H) {g : Nat} {hp : Heap} {fp : List Nat} {r : Bool} {hp2 : Heap} {b : Nat} {pk : Nibs}
    {v : Option Bytes} {cs : Nib → Trie} {kn : Nib → Node} {fps : Nib → List Nat}
    (hfr : FR (Wr hp fp) hp hp2) (hlt : b < hp2.size) (hb : (hp2.get b).isBranch = true)
    (hpk : (hp2.get b).pk = pk) (hv : (hp2.get b).val = v) (hd : (hp2.get b).dirty = true)
    (hg : (hp2.get b).gen = g)
    (hk : ∀ i, KidTI H G hp2 g (cs i) (kn i) (fps i) ((hp2.get b).kids i))
    (hfam : Fam b (Wr hp fp) fps) (hwb : Wr hp fp b)
    (hfl : ∀ i ch, (hp2.get b).kids i = some ch → (c.troot == some ch) = false)
    (hdep : ∀ i, depth (cs i) ≤ bigFuel + 1) (key : Nibs) :
    Out H G hp g r fp (handleDeletion c hp2 b key).1 (Trie.handleDeletion pk v cs key)
      (handleDeletion c hp2 b key).2 ∧
    ((handleDeletion c hp2 b key).2 = b ∨ hp.size ≤ (handleDeletion c hp2 b key).2) := by
  have hidx := kidIdx_eq hk
  have hdef : Out H G hp g r fp hp2 (.branch pk v cs) b := out_branch hfr hlt hb hpk hv hd hg hk hfam hwb
  unfold handleDeletion Trie.handleDeletion
  simp only []
  rw [hidx, hv, hpk]
  rcases hci : childIdx cs with _ | ⟨i, _ | ⟨j, rest⟩⟩
  · cases v with
    | none => exact ⟨hdef, Or.inl rfl⟩
    | some x =>
      dsimp only
      refine ⟨?_, Or.inr (by simp; exact hfr.size)⟩
      refine out_leaf (hfr.trans (FR.alloc _ _ _)) (by simp) ?_ ?_ ?_ ?_ ?_ ?_ (Or.inr (by simp; exact hfr.size))
      · simp only [Heap.alloc_snd, Heap.get_alloc_self]
      · simp only [Heap.alloc_snd, Heap.get_alloc_self]
      · simp only [Heap.alloc_snd, Heap.get_alloc_self]
      · intro m; simp only [Heap.alloc_snd, Heap.get_alloc_self]; rfl
      · simp only [Heap.alloc_snd, Heap.get_alloc_self]
      · simp only [Heap.alloc_snd, Heap.get_alloc_self]; exact hg
  · cases v with
    | some x => exact ⟨hdef, Or.inl rfl⟩
    | none =>
      dsimp only
      have hne := mem_childIdx hci
      have hki := hk i
      cases hkid : (hp2.get b).kids i with
      | none => rw [hkid] at hki; exact absurd hki.1 hne
      | some ch =>
        dsimp only
        rw [hkid] at hki
        obtain ⟨_, htich⟩ := hki
        have hdf : DFrame hp2 (registerDeleted c hp2 ch) :=
          ensureMV_dframe H hH G c hcH htich.rep htich.coh (hfl i ch hkid) (hdep i)
        have hs := (hdf.strip ch).1
        have hsz : (registerDeleted c hp2 ch).size = hp2.size := hdf.size
        have hfr1 : FR (Wr hp fp) hp (registerDeleted c hp2 ch) := hfr.trans (FR.of_dframe hdf)
        have hfresh : hp.size ≤ (registerDeleted c hp2 ch).size := hfr1.size
        cases hcsi : cs i with
        | nil => exact absurd hcsi hne
        | leaf cpk cv =>
          rw [hcsi] at htich
          obtain ⟨_, hb', hpk', hv', hk', _⟩ := ti_leaf_elim htich
          have hbr : ((registerDeleted c hp2 ch).get ch).isBranch = false := (strip_isBranch hs).trans hb'
          simp only [hbr, Bool.not_false, if_true]
          refine ⟨?_, Or.inr (by simp; exact hfresh)⟩
          refine out_leaf (hfr1.trans (FR.alloc _ _ _)) (by simp) ?_ ?_ ?_ ?_ ?_ ?_ (Or.inr (by simp; exact hfresh))
          · simp only [Heap.alloc_snd, Heap.get_alloc_self]
          · simp only [Heap.alloc_snd, Heap.get_alloc_self]; rw [strip_pk hs, hpk']
          · simp only [Heap.alloc_snd, Heap.get_alloc_self]; rw [strip_val hs, hv']
          · intro m; simp only [Heap.alloc_snd, Heap.get_alloc_self]; rfl
          · simp only [Heap.alloc_snd, Heap.get_alloc_self]
          · simp only [Heap.alloc_snd, Heap.get_alloc_self]; exact hg
        | branch cpk cv ccs =>
          rw [hcsi] at htich
          obtain ⟨hltc, hb', hpk', hv', kn2, fps2, _, hfp2, hno2, hk2⟩ := ti_branch_elim htich
          have bf2 := brFacts hfp2 (hfam.nd i) hno2 hk2
          have hbr : ((registerDeleted c hp2 ch).get ch).isBranch = true := (strip_isBranch hs).trans hb'
          simp only [hbr, Bool.not_true, Bool.false_eq_true, if_false]
          refine ⟨?_, Or.inr (by simp; exact hfresh)⟩
          refine out_branch (kn := kn2) (fps := fps2) (hfr1.trans (FR.alloc _ _ _)) (by simp)
            ?_ ?_ ?_ ?_ ?_ ?_ ?_ (Or.inr (by simp; exact hfresh))
          · simp only [Heap.alloc_snd, Heap.get_alloc_self]
          · simp only [Heap.alloc_snd, Heap.get_alloc_self]; rw [strip_pk hs, hpk']
          · simp only [Heap.alloc_snd, Heap.get_alloc_self]; rw [strip_val hs, hv']
          · simp only [Heap.alloc_snd, Heap.get_alloc_self]
          · simp only [Heap.alloc_snd, Heap.get_alloc_self]; exact hg
          · intro m
            simp only [Heap.alloc_snd, Heap.get_alloc_self]
            rw [strip_kids hs]
            exact kid_frame (S := fun _ => False) ((FR.of_dframe hdf).trans (FR.alloc _ _ _))
              (fun x hx => hx.elim) (hk2 m)
          · refine ⟨bf2.nd, bf2.dis, fun m hm => ?_, fun m x hx => hfam.bd i x (bf2.sub m x hx)⟩
            have := bf2.lt m _ hm
            simp only [Heap.alloc_snd] at this
            omega
  · cases v <;> exact ⟨hdef, Or.inl rfl⟩

/-! ### depth does not grow under deletion -/

theorem maxKids_le {f : Nib → Nat} {n : Nat} (h : ∀ i, f i ≤ n) : maxKids f ≤ n := by
  unfold maxKids
  have key : ∀ (l : List Nib) (m : Nat), m ≤ n → l.foldl (fun m i => max m (f i)) m ≤ n := by
    intro l
    induction l with
    | nil => intro m hm; exact hm
    | cons x xs ih =>
      intro m hm
      simp only [List.foldl_cons]
      exact ih _ (Nat.max_le.mpr ⟨hm, h x⟩)
  exact key _ 0 (Nat.zero_le _)

theorem depth_branch_mono (pk pk' : Nibs) (v v' : Option Bytes) {cs cs' : Nib → Trie}
    (h : ∀ i, depth (cs' i) ≤ depth (cs i)) : depth (.branch pk' v' cs') ≤ depth (.branch pk v cs) := by
  show maxKids (fun i => depth (cs' i)) + 1 ≤ maxKids (fun i => depth (cs i)) + 1
  exact Nat.succ_le_succ (maxKids_le (fun i => Nat.le_trans (h i) (le_maxKids (fun i => depth (cs i)) i)))

theorem depth_handleDeletion_le (pk : Nibs) (v : Option Bytes) (cs : Nib → Trie) (key : Nibs) :
    depth (Trie.handleDeletion pk v cs key) ≤ depth (.branch pk v cs) := by
  have h1 : 1 ≤ depth (.branch pk v cs) := Nat.succ_le_succ (Nat.zero_le _)
  unfold Trie.handleDeletion
  split
  · exact h1
  · rename_i i _
    split
    · exact h1
    · rename_i cpk cv ccs hci
      have := depth_kid pk none cs i
      rw [hci] at this
      exact Nat.le_of_lt this
    · exact Nat.le_refl _
  · exact Nat.le_refl _

theorem depth_setChild_le {cs : Nib → Trie} {i : Nib} {t : Trie} (h : depth t ≤ depth (cs i)) (m : Nib) :
    depth (setChild cs i t m) ≤ depth (cs m) := by
  unfold setChild
  split
  · rename_i e; rw [e]; exact h
  · exact Nat.le_refl _

theorem depth_deleteAtNode_le : ∀ (t : Trie) (key : Nibs), depth (deleteAtNode t key).1 ≤ depth t
  | .nil, _ => Nat.le_refl _
  | .leaf pk v, key => by
    unfold deleteAtNode; split
    · exact Nat.le_refl _
    · exact Nat.zero_le _
  | .branch pk v cs, key => by
    unfold deleteAtNode
    split
    · exact Nat.le_trans (depth_handleDeletion_le pk none cs key) (depth_branch_mono _ _ _ _ (fun _ => Nat.le_refl _))
    · dsimp only
      split
      · exact Nat.le_refl _
      · split
        · rename_i i rest _
          split
          · exact Nat.le_refl _
          · exact Nat.le_trans (depth_handleDeletion_le _ _ _ _)
              (depth_branch_mono _ _ _ _ (depth_setChild_le (depth_deleteAtNode_le (cs i) rest)))
        · exact Nat.le_refl _

theorem depth_clearPrefixAtNode_le : ∀ (t : Trie) (pre : Nibs), depth (clearPrefixAtNode t pre).1 ≤ depth t
  | .nil, _ => Nat.le_refl _
  | .leaf pk v, pre => by
    unfold clearPrefixAtNode; split
    · exact Nat.zero_le _
    · exact Nat.le_refl _
  | .branch pk v cs, pre => by
    unfold clearPrefixAtNode
    split
    · exact Nat.zero_le _
    · split
      · split
        · split
          · exact Nat.le_refl _
          · exact Nat.le_trans (depth_handleDeletion_le _ _ _ _)
              (depth_branch_mono _ _ _ _ (depth_setChild_le (Nat.zero_le _)))
        · exact Nat.le_refl _
      · split
        · exact Nat.le_refl _
        · split
          · rename_i i rest _
            dsimp only
            split
            · exact Nat.le_refl _
            · exact Nat.le_trans (depth_handleDeletion_le _ _ _ _)
                (depth_branch_mono _ _ _ _ (depth_setChild_le (depth_clearPrefixAtNode_le (cs i) rest)))
          · exact Nat.le_refl _

/-! ### shared steps of the branch cases -/

/-- a child of a represented branch is not the root node of the trie -/
theorem kid_notroot {c : Ctx} {hp : Heap} {pk : Nibs} {v : Option Bytes} {cs : Nib → Trie} {i : Nib} {k : Node}
    {ch : Nat} (hra : RootAbove c hp (.branch pk v cs)) (hr : HRep hp (cs i) k ch) :
    (c.troot == some ch) = false := by
  cases htr : c.troot == some ch with
  | false => rfl
  | true =>
    exfalso
    have := hra ch (cs i) k (eq_of_beq htr) hr
    have := depth_kid pk v cs i
    omega

theorem outO_kid {H : Bytes → Bytes} {G : Bytes → Bytes → Prop} {hp : Heap} {g : Nat} {l : List Nat}
    {hp' : Heap} {t' : Trie} {y : Option Nat} (h : OutO H G hp g false l hp' t' y) :
    ∃ Ni fpi, KidTI H G hp' g t' Ni fpi y ∧ fpi.Nodup ∧ (∀ z, z ∈ fpi → Wr hp l z) := by
  cases y with
  | none => exact ⟨.empty, [], ⟨h.1, rfl, rfl⟩, List.nodup_nil, fun _ hz => (nomatch hz)⟩
  | some y =>
    obtain ⟨N', fp', hti, hnd, hbd⟩ := h.ti
    exact ⟨N', fp', ⟨ti_ne_nil hti, hti⟩, hnd, hbd⟩

/-- the prepared branch after one of its children was replaced by the result of a recursive call -/
structure Rebuilt (H : Bytes → Bytes) (G : Bytes → Bytes → Prop) (hp : Heap) (g : Nat) (fp : List Nat) (a : Nat)
    (pk : Nibs) (v : Option Bytes) (cs' : Nib → Trie) (kn' : Nib → Node) (fps' : Nib → List Nat)
    (ks' : Nib → Option Nat) (hp2 : Heap) (b : Nat) : Prop where
  fr : FR (Wr hp fp) hp hp2
  lt : b < hp2.size
  isBranch : (hp2.get b).isBranch = true
  pk : (hp2.get b).pk = pk
  val : (hp2.get b).val = v
  dirty : (hp2.get b).dirty = true
  gen : (hp2.get b).gen = g
  kidsEq : (hp2.get b).kids = ks'
  kids : ∀ m, KidTI H G hp2 g (cs' m) (kn' m) (fps' m) (ks' m)
  fam : Fam b (Wr hp fp) fps'
  wb : Wr hp fp b
  loc : b = a ∨ hp.size ≤ b

theorem rebuild_kid (H : Bytes → Bytes) (hH : ∀ m, (H m).length = 32) (G : Bytes → Bytes → Prop) (c : Ctx)
    (hcH : c.H = H) {g : Nat} (hcg : c.g = g) {hp : Heap} {pk : Nibs} {v : Option Bytes} {cs : Nib → Trie}
    {N : Node} {a : Nat} {fp : List Nat} {r : Bool} (h : TI H G hp g r (.branch pk v cs) N a fp)
    (hflav : (c.troot == some a) = r) (hd : depth (.branch pk v cs) ≤ bigFuel + 1)
    {kn : Nib → Node} {fps : Nib → List Nat} (hlt : a < hp.size) (hb : (hp.get a).isBranch = true)
    (hpk : (hp.get a).pk = pk) (hv : (hp.get a).val = v)
    (hno : (hp.get a).gen ≠ g → ∀ i, fps i = [])
    (hk : ∀ i, KidTI H G hp g (cs i) (kn i) (fps i) ((hp.get a).kids i))
    (bf : BrFacts hp g a fp fps) (i : Nib) {h1 : Heap} {y' : Option Nat} {ti : Trie} {Ni : Node}
    {fpi : List Nat} (hkid1 : KidTI H G h1 g ti Ni fpi y') (hndi : fpi.Nodup)
    (hbdi : ∀ z, z ∈ fpi → Wr hp (fps i) z) (hfri : FR (Wr hp (fps i)) hp h1) :
    Rebuilt H G hp g fp a pk v (setChild cs i ti) (upd kn i Ni) (upd fps i fpi)
      (setKid (hp.get a).kids i y')
      ((prepForMutation c true h1 a).1.modify (prepForMutation c true h1 a).2
        (fun x => { x with kids := setKid x.kids i y' }))
      (prepForMutation c true h1 a).2 := by
  have hnwa : ¬ Wr hp (fps i) a := by
    intro hw
    rcases hw with hw | hw
    · exact bf.na i hw
    · omega
  obtain ⟨hs1, _, _⟩ := hfri.strip hlt hnwa
  have hlt1 : a < h1.size := Nat.lt_of_lt_of_le hlt hfri.size
  have hpp := prep_tree H hH G c hcH hcg true hlt1 (r := r) (fun hg => by
    have hg0 : (hp.get a).gen ≠ g := by rw [← strip_gen hs1]; exact hg
    have hnil := hno hg0 i
    have h1' := ti_frame hfri _ _ _ _ _ h (fun x hx => by
      rcases hx with hx | hx
      · rw [hnil] at hx; cases hx
      · exact Or.inl hx)
    exact ⟨_, _, h1'.rep, h1'.coh, hd⟩) hflav
  generalize prepForMutation c true h1 a = p at hpp ⊢
  obtain ⟨p1, b⟩ := p
  dsimp only at hpp ⊢
  have sa1 : ∀ x, SA h1 g a x → SA hp g a x := by
    intro x hx
    rcases hx with ⟨e, hg⟩ | hx
    · rw [strip_gen hs1] at hg; exact Or.inl ⟨e, hg⟩
    · exact Or.inr (Nat.le_trans hfri.size hx)
  have sab : SA hp g a b := sa1 b (prepped_sa hpp)
  have hgetb : (p1.modify b (fun x => { x with kids := setKid x.kids i y' })).get b =
      { p1.get b with kids := setKid (p1.get b).kids i y' } := by
    rw [Heap.get_modify, if_pos ⟨rfl, hpp.lt⟩]
  have hfr1 : FR (SA h1 g a) h1 (p1.modify b (fun x => { x with kids := setKid x.kids i y' })) :=
    hpp.fr.trans (FR.modify p1 b _ (prepped_sa hpp))
  have hfr : FR (fun x => x ∈ fps i ∨ SA hp g a x) hp
      (p1.modify b (fun x => { x with kids := setKid x.kids i y' })) :=
    (hfri.mono (fun x hx => by
      rcases hx with hx | hx
      · exact Or.inl hx
      · exact Or.inr (Or.inr hx))).trans (hfr1.mono (fun x hx => Or.inr (sa1 x hx)))
  have hwr : ∀ x, (x ∈ fps i ∨ SA hp g a x) → Wr hp fp x := by
    intro x hx
    rcases hx with hx | hx
    · exact Or.inl (bf.sub i x hx)
    · exact sa_wr bf.self x hx
  have hkeq : (p1.get b).kids = (hp.get a).kids := by rw [hpp.kids, strip_kids hs1]
  have hkidi : KidTI H G (p1.modify b (fun x => { x with kids := setKid x.kids i y' })) g ti Ni fpi y' := by
    refine kid_frame hfr1 (fun x hx => ?_) hkid1
    rcases hx with ⟨e, hg⟩ | hx
    · refine Or.inr ⟨by rw [e]; exact hg, fun hm => hnwa ?_⟩
      rw [e] at hm; exact hbdi a hm
    · exact Or.inl hx
  have hfpilt : ∀ x, x ∈ fpi → x < h1.size := by
    intro x hx
    cases y' with
    | none => rw [hkid1.2.2] at hx; cases hx
    | some y => exact fp_lt _ _ _ hkid1.2.fp x hx
  refine ⟨hfr.mono hwr, by simpa using hpp.lt, ?_, ?_, ?_, ?_, ?_, ?_, ?_, ?_, sa_wr bf.self b sab, ?_⟩
  · rw [hgetb]; exact hpp.isBranch.trans ((strip_isBranch hs1).trans hb)
  · rw [hgetb]; exact hpp.pk.trans ((strip_pk hs1).trans hpk)
  · rw [hgetb]; exact (hpp.val rfl).trans ((strip_val hs1).trans hv)
  · rw [hgetb]; exact hpp.dirty
  · rw [hgetb]; exact hpp.gen
  · rw [hgetb]; show setKid (p1.get b).kids i y' = _; rw [hkeq]
  · intro m
    refine kidTI_upd (fun m hm => kid_frame hfr (fun x hx => ?_) (hk m)) hkidi m
    rcases hx with hx | ⟨e, hg⟩ | hx
    · exact Or.inr ⟨bf.own i x hx, bf.dis i m (fun e => hm e.symm) x hx⟩
    · rw [e]; exact Or.inr ⟨hg, bf.na m⟩
    · exact Or.inl hx
  · refine (bf.fam sab).set i fpi hndi (fun x hx => ⟨?_, ?_, fun m hm hxm => ?_⟩)
    · rcases hbdi x hx with h' | h'
      · exact Or.inl (bf.sub i x h')
      · exact Or.inr h'
    · intro e
      have hxlt : x < h1.size := hfpilt x hx
      rcases hpp.place with ⟨eb, _, _⟩ | ⟨eb, _, _⟩
      · rw [e, eb] at hx; exact hnwa (hbdi a hx)
      · omega
    · rcases hbdi x hx with h' | h'
      · exact bf.dis i m (fun e => hm e.symm) x h' hxm
      · have := bf.lt m x hxm; omega
  · rcases sab with ⟨e, _⟩ | hx
    · exact Or.inl e
    · exact Or.inr hx

/-- post-condition of `deleteF` / `clearPrefixF` -/
structure PostD (H : Bytes → Bytes) (G : Bytes → Bytes → Prop) (hp : Heap) (g : Nat) (r : Bool) (fp : List Nat)
    (a : Nat) (t : Trie) (sp : Trie × Bool) (res : Heap × Option Nat × Bool) : Prop where
  out : OutO H G hp g r fp res.1 sp.1 res.2.1
  loc : ∀ y, res.2.1 = some y → y = a ∨ hp.size ≤ y
  flag : res.2.2 = sp.2
  same : res.2.2 = false → res.1 = hp ∧ res.2.1 = some a ∧ sp.1 = t

/-- `handleDeletion` after a rebuilt branch -/
theorem rebuilt_handle (H : Bytes → Bytes) (hH : ∀ m, (H m).length = 32) (G : Bytes → Bytes → Prop) (c : Ctx)
    (hcH : c.H = H) {g : Nat} {hp : Heap} {fp : List Nat} {r : Bool} {a : Nat} {pk : Nibs} {v : Option Bytes}
    {cs' : Nib → Trie} {kn' : Nib → Node} {fps' : Nib → List Nat} {ks' : Nib → Option Nat} {hp2 : Heap} {b : Nat}
    (rb : Rebuilt H G hp g fp a pk v cs' kn' fps' ks' hp2 b)
    (hfl : ∀ i ch, ks' i = some ch → (c.troot == some ch) = false)
    (hdep : ∀ i, depth (cs' i) ≤ bigFuel + 1) (key : Nibs) :
    Out H G hp g r fp (handleDeletion c hp2 b key).1 (Trie.handleDeletion pk v cs' key)
      (handleDeletion c hp2 b key).2 ∧
    ((handleDeletion c hp2 b key).2 = a ∨ hp.size ≤ (handleDeletion c hp2 b key).2) := by
  have := handleDeletion_tree H hH G c hcH (r := r) rb.fr rb.lt rb.isBranch rb.pk rb.val rb.dirty rb.gen
    (fun i => by rw [rb.kidsEq]; exact rb.kids i) rb.fam rb.wb
    (fun i ch hk => hfl i ch (by rw [rb.kidsEq] at hk; exact hk)) hdep key
  refine ⟨this.1, ?_⟩
  rcases this.2 with e | e
  · rw [e]; exact rb.loc
  · exact Or.inr e

/-- the prepared branch itself, one of its own fields rewritten (`f` keeps kind, key, children) -/
theorem rebuild_self (H : Bytes → Bytes) (hH : ∀ m, (H m).length = 32) (G : Bytes → Bytes → Prop) (c : Ctx)
    (hcH : c.H = H) {g : Nat} (hcg : c.g = g) {hp : Heap} {pk : Nibs} {v : Option Bytes} {cs : Nib → Trie}
    {N : Node} {a : Nat} {fp : List Nat} {r : Bool} (h : TI H G hp g r (.branch pk v cs) N a fp)
    (hflav : (c.troot == some a) = r) (hd : depth (.branch pk v cs) ≤ bigFuel + 1)
    {kn : Nib → Node} {fps : Nib → List Nat} (hlt : a < hp.size) (hb : (hp.get a).isBranch = true)
    (hpk : (hp.get a).pk = pk)
    (hk : ∀ i, KidTI H G hp g (cs i) (kn i) (fps i) ((hp.get a).kids i))
    (bf : BrFacts hp g a fp fps) (cv : Bool) (f : HNode → HNode) (v' : Option Bytes)
    (hf1 : ∀ x, (f x).isBranch = x.isBranch) (hf2 : ∀ x, (f x).pk = x.pk) (hf3 : ∀ x, (f x).val = v')
    (hf4 : ∀ x, (f x).kids = x.kids) (hf5 : ∀ x, (f x).dirty = x.dirty) (hf6 : ∀ x, (f x).gen = x.gen) :
    Rebuilt H G hp g fp a pk v' cs kn fps (hp.get a).kids
      ((prepForMutation c cv hp a).1.modify (prepForMutation c cv hp a).2 f)
      (prepForMutation c cv hp a).2 := by
  have hpp := prep_tree H hH G c hcH hcg cv hlt (fun _ => ⟨_, _, h.rep, h.coh, hd⟩) hflav
  generalize prepForMutation c cv hp a = p at hpp ⊢
  obtain ⟨p1, b⟩ := p
  dsimp only at hpp ⊢
  have hgetb : (p1.modify b f).get b = f (p1.get b) := by rw [Heap.get_modify, if_pos ⟨rfl, hpp.lt⟩]
  have hfr : FR (SA hp g a) hp (p1.modify b f) := hpp.fr.trans (FR.modify p1 b _ (prepped_sa hpp))
  refine ⟨hfr.mono (sa_wr bf.self), by simpa using hpp.lt, ?_, ?_, ?_, ?_, ?_, ?_, fun m => bf.kids hfr hk m,
    bf.fam (prepped_sa hpp), prepped_wr hpp bf.self, ?_⟩
  · rw [hgetb, hf1]; exact hpp.isBranch.trans hb
  · rw [hgetb, hf2]; exact hpp.pk.trans hpk
  · rw [hgetb, hf3]
  · rw [hgetb, hf5]; exact hpp.dirty
  · rw [hgetb, hf6]; exact hpp.gen
  · rw [hgetb, hf4]; exact hpp.kids
  · rcases prepped_sa hpp with ⟨e, _⟩ | hx
    · exact Or.inl e
    · exact Or.inr hx

theorem deleteF_tree (H : Bytes → Bytes) (hH : ∀ m, (H m).length = 32) (G : Bytes → Bytes → Prop) (c : Ctx)
    (hcH : c.H = H) {g : Nat} (hcg : c.g = g) :
    ∀ (f : Nat) (hp : Heap) (t : Trie) (N : Node) (a : Nat) (fp : List Nat) (r : Bool) (key : Nibs),
      TI H G hp g r t N a fp → fp.Nodup → (c.troot == some a) = r → RootAbove c hp t →
      (∀ x, c.troot = some x → x < hp.size) → depth t ≤ bigFuel + 1 → key.length < f →
      PostD H G hp g r fp a t (deleteAtNode t key) (deleteF c f hp (some a) key)
  | 0, _, _, _, _, _, _, _, _, _, _, _, _, _, hf => absurd hf (Nat.not_lt_zero _)
  | f + 1, hp, .nil, N, a, fp, r, key, h, _, _, _, _, _, _ => h.rep.elim
  | f + 1, hp, .leaf pk lv, N, a, fp, r, key, h, hnd, hflav, hra, htr, hd, hf => by
    have hb : (hp.get a).isBranch = false := h.rep.1
    have hpk : (hp.get a).pk = pk := h.rep.2.1
    unfold deleteF deleteAtNode
    simp only [hb, Bool.not_false, if_true]
    rw [hpk]
    by_cases e : (decide (key.length > 0) && !(key == pk)) = true
    · simp only [if_pos e]
      exact ⟨⟨⟨N, fp, h, hnd, fun z hz => Or.inl hz⟩, FR.refl _ _⟩, fun y hy => by
        injection hy with hy; exact Or.inl hy.symm, rfl, fun _ => ⟨rfl, rfl, rfl⟩⟩
    · simp only [if_neg e]
      refine ⟨⟨rfl, FR.of_dframe (ensureMV_dframe H hH G c hcH h.rep h.coh hflav hd)⟩,
        fun y hy => (nomatch hy), rfl, fun hf => Bool.noConfusion hf⟩
  | f + 1, hp, .branch pk v cs, N, a, fp, r, key, h, hnd, hflav, hra, htr, hd, hf => by
    obtain ⟨hlt, hb, hpk, hv, kn, fps, hN, hfp, hno, hk⟩ := ti_branch_elim h
    have bf := brFacts hfp hnd hno hk
    have hsame : PostD H G hp g r fp a (.branch pk v cs) (.branch pk v cs, false) (hp, some a, false) :=
      ⟨⟨⟨N, fp, h, hnd, fun z hz => Or.inl hz⟩, FR.refl _ _⟩, fun y hy => by
        injection hy with hy; exact Or.inl hy.symm, rfl, fun _ => ⟨rfl, rfl, rfl⟩⟩
    have hflk : ∀ i ch, (hp.get a).kids i = some ch → (c.troot == some ch) = false := by
      intro i ch hkc
      have := hk i; rw [hkc] at this
      exact kid_notroot hra this.2.rep
    have hdk : ∀ i, depth (cs i) ≤ bigFuel + 1 := fun i => by
      have := depth_kid pk v cs i; omega
    unfold deleteF deleteAtNode
    simp only [hb, Bool.not_true, Bool.false_eq_true, if_false]
    rw [hpk]
    by_cases e1 : (decide (key.length = 0) || pk == key) = true
    · simp only [if_pos e1]
      have rb := rebuild_self H hH G c hcH hcg h hflav hd hlt hb hpk hk bf false
        (fun x => { x with val := none }) none (fun _ => rfl) (fun _ => rfl) (fun _ => rfl) (fun _ => rfl)
        (fun _ => rfl) (fun _ => rfl)
      obtain ⟨ho, hl⟩ := rebuilt_handle H hH G c hcH (r := r) rb hflk hdk key
      exact ⟨ho, fun y hy => by injection hy with hy; rw [← hy]; exact hl, rfl, fun hf => Bool.noConfusion hf⟩
    · simp only [if_neg e1]
      by_cases e2 : (decide (lcpLen pk key = key.length) || decide (lcpLen pk key < pk.length)) = true
      · simp only [if_pos e2]; exact hsame
      · simp only [if_neg e2]
        rcases hdk' : key.drop (lcpLen pk key) with _ | ⟨i, rest⟩
        · exact hsame
        dsimp only
        have hlen : rest.length < f := by
          have := congrArg List.length hdk'
          simp only [List.length_drop, List.length_cons] at this
          omega
        have hki := hk i
        cases hkid : (hp.get a).kids i with
        | none =>
          rw [hkid] at hki
          have hdn : deleteF c f hp none rest = (hp, none, false) := by cases f <;> rfl
          rw [hdn, hki.1]
          simp only [deleteAtNode, Bool.not_false, if_true]
          exact hsame
        | some ch =>
          rw [hkid] at hki
          obtain ⟨_, htich⟩ := hki
          have ih := deleteF_tree H hH G c hcH hcg f hp (cs i) (kn i) ch (fps i) false rest htich
            (bf.nd i) (hflk i ch hkid) (rootAbove_mono hra (Nat.le_of_lt (depth_kid pk v cs i))) htr (hdk i) hlen
          have hdep0 := depth_deleteAtNode_le (cs i) rest
          generalize deleteF c f hp (some ch) rest = res at ih ⊢
          generalize deleteAtNode (cs i) rest = sp at ih hdep0 ⊢
          obtain ⟨h1, y', mflag⟩ := res
          obtain ⟨ti, sflag⟩ := sp
          have hfl := ih.flag
          dsimp only at hfl ih ⊢
          subst hfl
          cases mflag with
          | false =>
            simp only [Bool.not_false, if_true]
            obtain ⟨e1', _, _⟩ := ih.same rfl
            dsimp only at e1'
            rw [e1']; exact hsame
          | true =>
            simp only [Bool.not_true, Bool.false_eq_true, if_false]
            obtain ⟨Ni, fpi, hkid1, hndi, hbdi⟩ := outO_kid ih.out
            have rb := rebuild_kid H hH G c hcH hcg h hflav hd hlt hb hpk hv hno hk bf i hkid1 hndi hbdi
              (outO_fr ih.out)
            have hdti : depth ti ≤ depth (cs i) := hdep0
            obtain ⟨ho, hl⟩ := rebuilt_handle H hH G c hcH (r := r) rb (fun m ch' hk' => by
                unfold setKid at hk'
                split at hk'
                · rcases ih.loc ch' hk' with e | e
                  · rw [e]; exact hflk i ch hkid
                  · cases htr' : c.troot == some ch' with
                    | false => rfl
                    | true => have := htr ch' (eq_of_beq htr'); omega
                · exact hflk m ch' hk')
              (fun m => Nat.le_trans (depth_setChild_le hdti m) (hdk m)) key
            exact ⟨ho, fun y hy => by injection hy with hy; rw [← hy]; exact hl, rfl,
              fun hf => Bool.noConfusion hf⟩

/-- the prepared branch after one of its children was cut off (`ClearPrefix` of a whole child) -/
theorem rebuild_drop (H : Bytes → Bytes) (hH : ∀ m, (H m).length = 32) (G : Bytes → Bytes → Prop) (c : Ctx)
    (hcH : c.H = H) {g : Nat} (hcg : c.g = g) {hp : Heap} {pk : Nibs} {v : Option Bytes} {cs : Nib → Trie}
    {N : Node} {a : Nat} {fp : List Nat} {r : Bool} (h : TI H G hp g r (.branch pk v cs) N a fp)
    (hflav : (c.troot == some a) = r) (hd : depth (.branch pk v cs) ≤ bigFuel + 1)
    {kn : Nib → Node} {fps : Nib → List Nat} (hlt : a < hp.size) (hb : (hp.get a).isBranch = true)
    (hpk : (hp.get a).pk = pk) (hv : (hp.get a).val = v)
    (hk : ∀ i, KidTI H G hp g (cs i) (kn i) (fps i) ((hp.get a).kids i))
    (bf : BrFacts hp g a fp fps) (i : Nib) {ch : Nat} (hkid : (hp.get a).kids i = some ch)
    (hflch : (c.troot == some ch) = false) (hdch : depth (cs i) ≤ bigFuel + 1) :
    Rebuilt H G hp g fp a pk v (setChild cs i .nil) (upd kn i .empty) (upd fps i []) (setKid (hp.get a).kids i none)
      ((registerDeleted c (prepForMutation c true hp a).1 ch).modify (prepForMutation c true hp a).2
        (fun x => { x with kids := setKid x.kids i none }))
      (prepForMutation c true hp a).2 := by
  have hpp := prep_tree H hH G c hcH hcg true hlt (fun _ => ⟨_, _, h.rep, h.coh, hd⟩) hflav
  generalize prepForMutation c true hp a = p at hpp ⊢
  obtain ⟨p1, b⟩ := p
  dsimp only at hpp ⊢
  have hkc := bf.kids hpp.fr hk i
  rw [hkid] at hkc
  have hdf : DFrame p1 (registerDeleted c p1 ch) :=
    ensureMV_dframe H hH G c hcH hkc.2.rep hkc.2.coh hflch hdch
  have hsb := (hdf.strip b)
  have hlt1 : b < (registerDeleted c p1 ch).size := by rw [hdf.size]; exact hpp.lt
  have hgetb : ((registerDeleted c p1 ch).modify b (fun x => { x with kids := setKid x.kids i none })).get b =
      { (registerDeleted c p1 ch).get b with kids := setKid ((registerDeleted c p1 ch).get b).kids i none } := by
    rw [Heap.get_modify, if_pos ⟨rfl, hlt1⟩]
  have hfr : FR (SA hp g a) hp
      ((registerDeleted c p1 ch).modify b (fun x => { x with kids := setKid x.kids i none })) :=
    (hpp.fr.trans (FR.of_dframe hdf)).trans (FR.modify _ b _ (prepped_sa hpp))
  refine ⟨hfr.mono (sa_wr bf.self), by simpa using hlt1, ?_, ?_, ?_, ?_, ?_, ?_, ?_, ?_, prepped_wr hpp bf.self, ?_⟩
  · rw [hgetb]; exact (strip_isBranch hsb.1).trans (hpp.isBranch.trans hb)
  · rw [hgetb]; exact (strip_pk hsb.1).trans (hpp.pk.trans hpk)
  · rw [hgetb]; exact (strip_val hsb.1).trans ((hpp.val rfl).trans hv)
  · rw [hgetb]; exact hsb.2.trans hpp.dirty
  · rw [hgetb]; exact (strip_gen hsb.1).trans hpp.gen
  · rw [hgetb]
    show setKid ((registerDeleted c p1 ch).get b).kids i none = _
    rw [strip_kids hsb.1, hpp.kids]
  · intro m
    exact kidTI_upd (x := none) (fun m _ => bf.kids hfr hk m)
      (show KidTI H G _ g .nil .empty [] none from ⟨rfl, rfl, rfl⟩) m
  · exact (bf.fam (prepped_sa hpp)).set i [] List.nodup_nil (fun x hx => (nomatch hx))
  · rcases prepped_sa hpp with ⟨e, _⟩ | hx
    · exact Or.inl e
    · exact Or.inr hx

theorem clearPrefixF_tree (H : Bytes → Bytes) (hH : ∀ m, (H m).length = 32) (G : Bytes → Bytes → Prop) (c : Ctx)
    (hcH : c.H = H) {g : Nat} (hcg : c.g = g) :
    ∀ (f : Nat) (hp : Heap) (t : Trie) (N : Node) (a : Nat) (fp : List Nat) (r : Bool) (pre : Nibs),
      TI H G hp g r t N a fp → fp.Nodup → (c.troot == some a) = r → RootAbove c hp t →
      (∀ x, c.troot = some x → x < hp.size) → depth t ≤ bigFuel + 1 → pre.length < f →
      PostD H G hp g r fp a t (clearPrefixAtNode t pre) (clearPrefixF c f hp (some a) pre)
  | 0, _, _, _, _, _, _, _, _, _, _, _, _, _, hf => absurd hf (Nat.not_lt_zero _)
  | f + 1, hp, .nil, N, a, fp, r, pre, h, _, _, _, _, _, _ => h.rep.elim
  | f + 1, hp, .leaf pk lv, N, a, fp, r, pre, h, hnd, hflav, hra, htr, hd, hf => by
    have hb : (hp.get a).isBranch = false := h.rep.1
    have hpk : (hp.get a).pk = pk := h.rep.2.1
    unfold clearPrefixF clearPrefixAtNode
    simp only []
    rw [hpk]
    by_cases e : pre.isPrefixOf pk = true
    · simp only [if_pos e]
      exact ⟨⟨rfl, FR.of_dframe (ensureMV_dframe H hH G c hcH h.rep h.coh hflav hd)⟩,
        fun y hy => (nomatch hy), rfl, fun hf => Bool.noConfusion hf⟩
    · simp only [if_neg e, hb, Bool.not_false, if_true]
      exact ⟨⟨⟨N, fp, h, hnd, fun z hz => Or.inl hz⟩, FR.refl _ _⟩, fun y hy => by
        injection hy with hy; exact Or.inl hy.symm, rfl, fun _ => ⟨rfl, rfl, rfl⟩⟩
  | f + 1, hp, .branch pk v cs, N, a, fp, r, pre, h, hnd, hflav, hra, htr, hd, hf => by
    obtain ⟨hlt, hb, hpk, hv, kn, fps, hN, hfp, hno, hk⟩ := ti_branch_elim h
    have bf := brFacts hfp hnd hno hk
    have hsame : PostD H G hp g r fp a (.branch pk v cs) (.branch pk v cs, false) (hp, some a, false) :=
      ⟨⟨⟨N, fp, h, hnd, fun z hz => Or.inl hz⟩, FR.refl _ _⟩, fun y hy => by
        injection hy with hy; exact Or.inl hy.symm, rfl, fun _ => ⟨rfl, rfl, rfl⟩⟩
    have hflk : ∀ i ch, (hp.get a).kids i = some ch → (c.troot == some ch) = false := by
      intro i ch hkc
      have := hk i; rw [hkc] at this
      exact kid_notroot hra this.2.rep
    have hdk : ∀ i, depth (cs i) ≤ bigFuel + 1 := fun i => by
      have := depth_kid pk v cs i; omega
    unfold clearPrefixF clearPrefixAtNode
    simp only []
    rw [hpk]
    by_cases e0 : pre.isPrefixOf pk = true
    · simp only [if_pos e0]
      exact ⟨⟨rfl, FR.of_dframe (ensureMV_dframe H hH G c hcH h.rep h.coh hflav hd)⟩,
        fun y hy => (nomatch hy), rfl, fun hf => Bool.noConfusion hf⟩
    simp only [if_neg e0, hb, Bool.not_true, Bool.false_eq_true, if_false]
    by_cases e1 : (decide (pre.length = pk.length + 1) && pre.dropLast == pk) = true
    · simp only [if_pos e1]
      rcases hdp : pre.drop pk.length with _ | ⟨i, rest⟩
      · exact hsame
      dsimp only
      have hki := hk i
      cases hkid : (hp.get a).kids i with
      | none =>
        rw [hkid] at hki
        dsimp only
        rw [hki.1]
        simp only [Trie.isNil, if_true]
        exact hsame
      | some ch =>
        rw [hkid] at hki
        dsimp only
        have hnn : (cs i).isNil = false := by
          cases hc : cs i with
          | nil => exact absurd hc hki.1
          | leaf _ _ => rfl
          | branch _ _ _ => rfl
        simp only [hnn, Bool.false_eq_true, if_false]
        have rb := rebuild_drop H hH G c hcH hcg h hflav hd hlt hb hpk hv hk bf i hkid (hflk i ch hkid) (hdk i)
        obtain ⟨ho, hl⟩ := rebuilt_handle H hH G c hcH (r := r) rb (fun m ch' hk' => by
            unfold setKid at hk'
            split at hk'
            · cases hk'
            · exact hflk m ch' hk')
          (fun m => Nat.le_trans (depth_setChild_le (Nat.zero_le _) m) (hdk m)) pre
        exact ⟨ho, fun y hy => by injection hy with hy; rw [← hy]; exact hl, rfl,
          fun hf => Bool.noConfusion hf⟩
    · simp only [if_neg e1]
      by_cases e2 : (decide (pre.length ≤ pk.length) || decide (lcpLen pk pre < pk.length)) = true
      · simp only [if_pos e2]; exact hsame
      · simp only [if_neg e2]
        rcases hdp : pre.drop pk.length with _ | ⟨i, rest⟩
        · exact hsame
        dsimp only
        have hlen : rest.length < f := by
          have := congrArg List.length hdp
          simp only [List.length_drop, List.length_cons] at this
          omega
        have hki := hk i
        cases hkid : (hp.get a).kids i with
        | none =>
          rw [hkid] at hki
          have hdn : clearPrefixF c f hp none rest = (hp, none, false) := by cases f <;> rfl
          rw [hdn, hki.1]
          simp only [clearPrefixAtNode, Bool.not_false, if_true]
          exact hsame
        | some ch =>
          rw [hkid] at hki
          obtain ⟨_, htich⟩ := hki
          have ih := clearPrefixF_tree H hH G c hcH hcg f hp (cs i) (kn i) ch (fps i) false rest htich
            (bf.nd i) (hflk i ch hkid) (rootAbove_mono hra (Nat.le_of_lt (depth_kid pk v cs i))) htr (hdk i) hlen
          have hdep0 := depth_clearPrefixAtNode_le (cs i) rest
          generalize clearPrefixF c f hp (some ch) rest = res at ih ⊢
          generalize clearPrefixAtNode (cs i) rest = sp at ih hdep0 ⊢
          obtain ⟨h1, y', mflag⟩ := res
          obtain ⟨ti, sflag⟩ := sp
          have hfl := ih.flag
          dsimp only at hfl ih hdep0 ⊢
          subst hfl
          cases mflag with
          | false =>
            simp only [Bool.not_false, if_true]
            obtain ⟨e1', _, _⟩ := ih.same rfl
            dsimp only at e1'
            rw [e1']; exact hsame
          | true =>
            simp only [Bool.not_true, Bool.false_eq_true, if_false]
            obtain ⟨Ni, fpi, hkid1, hndi, hbdi⟩ := outO_kid ih.out
            have rb := rebuild_kid H hH G c hcH hcg h hflav hd hlt hb hpk hv hno hk bf i hkid1 hndi hbdi
              (outO_fr ih.out)
            obtain ⟨ho, hl⟩ := rebuilt_handle H hH G c hcH (r := r) rb (fun m ch' hk' => by
                unfold setKid at hk'
                split at hk'
                · rcases ih.loc ch' hk' with e | e
                  · rw [e]; exact hflk i ch hkid
                  · cases htr' : c.troot == some ch' with
                    | false => rfl
                    | true => have := htr ch' (eq_of_beq htr'); omega
                · exact hflk m ch' hk')
              (fun m => Nat.le_trans (depth_setChild_le hdep0 m) (hdk m)) pre
            exact ⟨ho, fun y hy => by injection hy with hy; rw [← hy]; exact hl, rfl,
              fun hf => Bool.noConfusion hf⟩

end TrieHeap
end Gossamer
