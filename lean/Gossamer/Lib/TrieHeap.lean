/-
Heap model of the Go in-memory trie (`pkg/trie/inmemory/in_memory.go`, `database.go`,
`pkg/trie/node/{copy,hash,dirty,encode}.go`) with EXPLICIT node addresses, so that the sharing of
nodes between a trie and its snapshots (copy-on-write by generation) is part of the model.
Used by C03 (snapshot isolation) and C04 (persistence).  Core Lean only.

* `HNode` = the fields of `node.Node` that any observable depends on (`Descendants` is dropped: it
  only feeds counters; the one control-flow use, `nodesRemoved == 0`, is carried as a boolean as
  in `TrieMem`).  `kids i = none` is a nil child pointer, `isBranch` is `Children != nil`.
* `Heap` = an array of cells; an address is an index; Go's `&node.Node{…}` is `alloc` (push);
  a write through a pointer is `set`.  Nothing is ever freed (Go: garbage collection of
  unreachable nodes is unobservable).
* Every function follows the Go function of the same name statement by statement, INCLUDING the
  writes that are made in place on nodes that may be shared: `SetDirty` / field writes after
  `prepForMutation`, the `MerkleValue` caching of `EncodeAndHash(Root)`, `SetClean` of
  `writeDirtyNode`.  `Ctx.troot` is `t.root` during the operation (the Go code compares node
  pointers with it to choose root / non-root hashing).
* Recursions that follow the key are structural on a fuel argument initialised with the key
  length; traversals of whole sub-tries use the constant `bigFuel`; a Merkle value computation
  that runs out of fuel reports `none` and writes nothing (it never does on an acyclic heap).
-/
import Gossamer.Lib.TrieMem
import Gossamer.Lib.TrieCodec
namespace Gossamer
namespace TrieHeap
open Trie

-- (an address is an index into the array of cells: a `Nat`)

structure HNode where
  pk : Nibs
  val : Option Bytes
  isBranch : Bool
  kids : Nib → Option Nat
  mbh : Bool
  ihv : Bool
  gen : Nat
  dirty : Bool
  mv : Option Bytes

def noKids : Nib → Option Nat := fun _ => none

def setKid (ks : Nib → Option Nat) (i : Nib) (c : Option Nat) : Nib → Option Nat :=
  fun j => if j = i then c else ks j

instance : Inhabited HNode :=
  ⟨{ pk := [], val := none, isBranch := false, kids := noKids, mbh := false, ihv := false,
     gen := 0, dirty := false, mv := none }⟩

/-- `n.SetDirty()` -/
def HNode.setDirty (n : HNode) : HNode := { n with dirty := true, mv := none }

structure Heap where
  cells : Array HNode

namespace Heap

def empty : Heap := ⟨#[]⟩
def size (h : Heap) : Nat := h.cells.size
def get? (h : Heap) (a : Nat) : Option HNode := h.cells[a]?
/-- dereference (a dangling address — never produced by the model — reads a zero node) -/
def get (h : Heap) (a : Nat) : HNode := (h.cells[a]?).getD default
def alloc (h : Heap) (n : HNode) : Heap × Nat := (⟨h.cells.push n⟩, h.cells.size)
def set (h : Heap) (a : Nat) (n : HNode) : Heap := ⟨h.cells.setIfInBounds a n⟩
def modify (h : Heap) (a : Nat) (f : HNode → HNode) : Heap := h.set a (f (h.get a))

end Heap

/-- the context of one trie operation: hash function, `t.generation`, `t.version`, `t.root` -/
structure Ctx where
  H : Bytes → Bytes
  g : Nat
  ver : Ver
  troot : Option Nat

/-! ### node encoding (`Node.Encode`) and Merkle values with their caching -/

/-- a partial key as Go holds it: one byte per nibble -/
def nibBytes (k : Nibs) : Bytes := k.map (fun i => UInt8.ofNat i.val)

/-- which child slots are non-nil (`ChildrenBitmap`) -/
def presentKids (ks : Nib → Option Nat) : List Bool := (List.finRange 16).map (fun i => (ks i).isSome)

/-- everything of `Node.Encode` before the children, with the codec functions of `TrieCodec` (C07):
    header (variant chosen by `MustBeHashed`), partial key, children bitmap, storage value (hashed
    iff `MustBeHashed`) -/
def encodeHead (H : Bytes → Bytes) (n : HNode) : Bytes :=
  if !n.isBranch then
    TrieCodec.encodeHeader (TrieCodec.leafVariantOf n.mbh) n.pk.length
      ++ TrieCodec.nibblesToKeyLE (nibBytes n.pk) ++ TrieCodec.valueEnc H n.val n.mbh
  else
    TrieCodec.encodeHeader (TrieCodec.branchVariantOf n.val n.mbh) n.pk.length
      ++ TrieCodec.nibblesToKeyLE (nibBytes n.pk) ++ TrieCodec.bitmapBytes (presentKids n.kids)
      ++ TrieCodec.valueEnc H n.val n.mbh

/-- `encodeChildren…`: for every non-nil child, in index order, the SCALE bytes of its Merkle value
    (`rec` = `CalculateMerkleValue` on the child, which may write caches; `none` = the model ran
    out of fuel, which stops the computation without any further write) -/
def encodeKids (rec : Heap → Nat → Heap × Option Bytes) (ks : Nib → Option Nat) (hp : Heap) :
    Heap × Option Bytes :=
  (List.finRange 16).foldl (fun (acc : Heap × Option Bytes) i =>
    match ks i, acc.2 with
    | some c, some bs => let r := rec acc.1 c; (r.1, r.2.map (fun m => bs ++ TrieCodec.scaleEncBytes m))
    | _, _ => acc) (hp, some [])

theorem encodeKids_eq (rec : Heap → Nat → Heap × Option Bytes) (ks : Nib → Option Nat) (hp : Heap) :
    encodeKids rec ks hp = (List.finRange 16).foldl (fun (acc : Heap × Option Bytes) i =>
    match ks i, acc.2 with
    | some c, some bs => let r := rec acc.1 c; (r.1, r.2.map (fun m => bs ++ TrieCodec.scaleEncBytes m))
    | _, _ => acc) (hp, some []) := rfl

attribute [irreducible] encodeKids

/-- the children a node encodes: a leaf has none -/
def HNode.encKids (n : HNode) : Nib → Option Nat := if n.isBranch then n.kids else noKids

/-- the end of `EncodeAndHash(Root)` on the node `n` at `a`, given the heap and the encoded children
    `r`: the encoding and the Merkle value (root: always hashed), which is stored in the node;
    nothing is written when the children ran out of fuel -/
def hashFinish (H : Bytes → Bytes) (root : Bool) (n : HNode) (a : Nat) (r : Heap × Option Bytes) :
    Heap × Option (Bytes × Bytes) :=
  match r.2 with
  | none => (r.1, none)
  | some ks =>
    (r.1.modify a (fun x => { x with mv := some (if root then H (encodeHead H n ++ ks)
                                                  else merkleValue H (encodeHead H n ++ ks)) }),
     some (encodeHead H n ++ ks, if root then H (encodeHead H n ++ ks)
                                 else merkleValue H (encodeHead H n ++ ks)))

/-- `Node.CalculateMerkleValue` (non-root): the cached value when the node is clean and has one;
    otherwise `EncodeAndHash`, which stores the value in `n.MerkleValue`.
    `none` = out of fuel (nothing is written at this node then). -/
def calcMV (H : Bytes → Bytes) : Nat → Heap → Nat → Heap × Option Bytes
  | 0, hp, _ => (hp, none)
  | f + 1, hp, a =>
    let n := hp.get a
    if n.dirty = false ∧ n.mv.isSome then (hp, n.mv)
    else
      let r := hashFinish H false n a (encodeKids (calcMV H f) n.encKids hp)
      (r.1, r.2.map (·.2))

/-- fuel of the traversals of whole sub-tries (hashing, `Entries`, `WriteDirty`, `deleteNodesLimit`):
    far above the depth of any trie (depth ≤ number of key nibbles + 1) -/
def bigFuel : Nat := 100000

/-- `Node.EncodeAndHash` / `EncodeAndHashRoot` on the node at `a`: encoding and Merkle value; the
    Merkle value is stored in the node -/
def encodeAndHash (H : Bytes → Bytes) (root : Bool) (hp : Heap) (a : Nat) :
    Heap × Option (Bytes × Bytes) :=
  hashFinish H root (hp.get a) a (encodeKids (calcMV H bigFuel) (hp.get a).encKids hp)

/-- `Node.CalculateRootMerkleValue` -/
def calcRootMV (H : Bytes → Bytes) (hp : Heap) (a : Nat) : Heap × Option Bytes :=
  let n := hp.get a
  if !n.dirty && (n.mv.getD []).length == 32 then (hp, n.mv)
  else let r := encodeAndHash H true hp a; (r.1, r.2.map (·.2))

/-- `t.ensureMerkleValueIsCalculated(node)` -/
def ensureMV (c : Ctx) (hp : Heap) : Option Nat → Heap
  | none => hp
  | some a =>
    if c.troot = some a then (calcRootMV c.H hp a).1
    else (calcMV c.H (bigFuel + 1) hp a).1

/-- `t.registerDeletedNodeHash(node, …)`: only its effect on the heap (Merkle value caching);
    the delta tracker is not modelled -/
def registerDeleted (c : Ctx) (hp : Heap) (a : Nat) : Heap := ensureMV c hp (some a)

/-- `t.prepForMutation(node, copySettings, …)`; `copyVal` = `copySettings.CopyStorageValue`
    (the partial key is always copied, children pointers are copied, the Merkle value is not) -/
def prepForMutation (c : Ctx) (copyVal : Bool) (hp : Heap) (a : Nat) : Heap × Nat :=
  let n := hp.get a
  if n.gen = c.g then (hp.set a n.setDirty, a)
  else
    let hp1 := registerDeleted c hp a
    let n1 := hp1.get a
    hp1.alloc { n1 with val := if copyVal then n1.val else none, gen := c.g, dirty := true,
                        mv := none }

/-- `t.Hash()` -/
def hashRoot (H : Bytes → Bytes) (hp : Heap) : Option Nat → Heap × Option Bytes
  | none => (hp, some (H [0]))
  | some a => calcRootMV H hp a

/-! ### insert -/

def newLeaf (c : Ctx) (key : Nibs) (value : Bytes) : HNode :=
  { pk := key, val := some value, isBranch := false, kids := noKids,
    mbh := mustBeHashed c.ver value, ihv := false, gen := c.g, dirty := true, mv := none }

def newBranch (c : Ctx) (pk : Nibs) : HNode :=
  { pk := pk, val := none, isBranch := true, kids := noKids, mbh := false, ihv := false,
    gen := c.g, dirty := true, mv := none }

/-- `t.insertInLeaf(parentLeaf, key, value, …)`: new parent and `mutated`
    (after the `fix:` that writes `MustBeHashed` only after `prepForMutation`) -/
def insertInLeaf (c : Ctx) (hp : Heap) (a : Nat) (key : Nibs) (value : Bytes) :
    Heap × Nat × Bool :=
  let n := hp.get a
  if n.pk = key then
    let needs := mustBeHashed c.ver value
    if n.mbh = needs ∧ n.val = some value then (hp, a, false)
    else
      let p := prepForMutation c false hp a
      (p.1.modify p.2 (fun x => { x with mbh := needs, val := some value }), p.2, true)
  else
    let cl := lcpLen key n.pk
    let nb := newBranch c (key.take cl)
    if key.length = cl then
      -- key is included in parent leaf key
      let nb := { nb with mbh := mustBeHashed c.ver value, val := some value }
      if key.length < n.pk.length then
        match n.pk.drop cl with
        | i :: rest =>
          let p := prepForMutation c true hp a
          let hp2 := p.1.modify p.2 (fun x => { x with pk := rest })
          let r := hp2.alloc { nb with kids := setKid noKids i (some p.2) }
          (r.1, r.2, true)
        | [] => (hp, a, true)  -- unreachable: cl < n.pk.length
      else
        let r := hp.alloc nb
        (r.1, r.2, true)
    else if n.pk.length = cl then
      -- the key of the parent leaf is at this new branch
      match key.drop cl with
      | j :: krest =>
        let l := hp.alloc (newLeaf c krest value)
        let r := l.1.alloc { nb with val := n.val, mbh := n.mbh, ihv := n.ihv,
                                     kids := setKid noKids j (some l.2) }
        (r.1, r.2, true)
      | [] => (hp, a, true)  -- unreachable: cl < key.length
    else
      match n.pk.drop cl, key.drop cl with
      | i :: rest, j :: krest =>
        let p := prepForMutation c true hp a
        let hp2 := p.1.modify p.2 (fun x => { x with pk := rest })
        let l := hp2.alloc (newLeaf c krest value)
        let r := l.1.alloc { nb with kids := setKid (setKid noKids i (some p.2)) j (some l.2) }
        (r.1, r.2, true)
      | _, _ => (hp, a, true)  -- unreachable: cl < both lengths

/-- `StorageValueEqual` for a non-nil argument (`Put` never passes nil) -/
def svEqual (nv : Option Bytes) (value : Bytes) : Bool := nv == some value

/-- `t.insert` / `t.insertInBranch`: new parent and `mutated` -/
def insertF (c : Ctx) : Nat → Heap → Option Nat → Nibs → Bytes → Heap × Option Nat × Bool
  | _, hp, none, key, value =>
    let r := hp.alloc (newLeaf c key value)
    (r.1, some r.2, true)
  | 0, hp, some a, _, _ => (hp, some a, false)
  | f + 1, hp, some a, key, value =>
    let n := hp.get a
    if !n.isBranch then
      let r := insertInLeaf c hp a key value
      (r.1, some r.2.1, r.2.2)
    else if key = n.pk then
      let needs := mustBeHashed c.ver value
      if n.mbh = needs ∧ svEqual n.val value then (hp, some a, false)
      else
        let p := prepForMutation c true hp a
        (p.1.modify p.2 (fun x => { x with mbh := needs, val := some value }), some p.2, true)
    else if n.pk.isPrefixOf key then
      -- key is included in parent branch key
      match key.drop n.pk.length with
      | i :: rest =>
        match n.kids i with
        | none =>
          let l := hp.alloc (newLeaf c rest value)
          let p := prepForMutation c true l.1 a
          (p.1.modify p.2 (fun x => { x with kids := setKid x.kids i (some l.2) }), some p.2, true)
        | some ch =>
          let r := insertF c f hp (some ch) rest value
          if !r.2.2 then (r.1, some a, false)
          else
            let p := prepForMutation c true r.1 a
            (p.1.modify p.2 (fun x => { x with kids := setKid x.kids i r.2.1 }), some p.2, true)
      | [] => (hp, some a, false)  -- unreachable: pk is a proper prefix of key
    else
      -- branch out at the point where the keys diverge
      let cl := lcpLen key n.pk
      match n.pk.drop cl with
      | oi :: orest =>
        let p := prepForMutation c true hp a
        let hp2 := p.1.modify p.2 (fun x => { x with pk := orest })
        let nb := { newBranch c (key.take cl) with kids := setKid noKids oi (some p.2) }
        if key.length ≤ cl then
          let r := hp2.alloc { nb with val := some value, mbh := mustBeHashed c.ver value }
          (r.1, some r.2, true)
        else
          match key.drop cl with
          | j :: krest =>
            let l := hp2.alloc (newLeaf c krest value)
            let r := l.1.alloc { nb with kids := setKid nb.kids j (some l.2) }
            (r.1, some r.2, true)
          | [] => (hp, some a, false)  -- unreachable
      | [] => (hp, some a, false)  -- unreachable: pk is not a prefix of key

/-! ### delete -/

/-- indices of the non-nil children -/
def kidIdx (ks : Nib → Option Nat) : List Nib := (List.finRange 16).filter (fun i => (ks i).isSome)

/-- `t.handleDeletion(branch, key, …)` on the (already prepared) branch at `b` -/
def handleDeletion (c : Ctx) (hp : Heap) (b : Nat) (key : Nibs) : Heap × Nat :=
  let n := hp.get b
  match kidIdx n.kids, n.val with
  | [], some x =>
    hp.alloc { pk := key.take (lcpLen n.pk key), val := some x, isBranch := false, kids := noKids,
               mbh := n.mbh, ihv := false, gen := n.gen, dirty := true, mv := none }
  | [i], none =>
    match n.kids i with
    | some ch =>
      let hp1 := registerDeleted c hp ch
      let cn := hp1.get ch
      if !cn.isBranch then
        hp1.alloc { pk := n.pk ++ i :: cn.pk, val := cn.val, isBranch := false, kids := noKids,
                    mbh := cn.mbh, ihv := cn.ihv, gen := n.gen, dirty := true, mv := none }
      else
        hp1.alloc { pk := n.pk ++ i :: cn.pk, val := cn.val, isBranch := true, kids := cn.kids,
                    mbh := cn.mbh, ihv := false, gen := n.gen, dirty := true, mv := none }
    | none => (hp, b)  -- unreachable
  | _, _ => (hp, b)

/-- `t.deleteAtNode` / `deleteLeaf` / `deleteBranch`: new parent and `deleted` -/
def deleteF (c : Ctx) : Nat → Heap → Option Nat → Nibs → Heap × Option Nat × Bool
  | _, hp, none, _ => (hp, none, false)
  | 0, hp, some a, _ => (hp, some a, false)
  | f + 1, hp, some a, key =>
    let n := hp.get a
    if !n.isBranch then
      if key.length > 0 && !(key == n.pk) then (hp, some a, false)
      else (registerDeleted c hp a, none, true)
    else if key.length = 0 || n.pk == key then
      let p := prepForMutation c false hp a
      let hp2 := p.1.modify p.2 (fun x => { x with val := none })
      let d := handleDeletion c hp2 p.2 key
      (d.1, some d.2, true)
    else
      let cl := lcpLen n.pk key
      if cl = key.length || cl < n.pk.length then (hp, some a, false)
      else
        match key.drop cl with
        | i :: rest =>
          let r := deleteF c f hp (n.kids i) rest
          if !r.2.2 then (r.1, some a, false)
          else
            let p := prepForMutation c true r.1 a
            let hp2 := p.1.modify p.2 (fun x => { x with kids := setKid x.kids i r.2.1 })
            let d := handleDeletion c hp2 p.2 key
            (d.1, some d.2, true)
        | [] => (hp, some a, false)  -- unreachable: cl < key.length

/-! ### ClearPrefix -/

/-- `t.clearPrefixAtNode`: new parent and `nodesRemoved > 0` -/
def clearPrefixF (c : Ctx) : Nat → Heap → Option Nat → Nibs → Heap × Option Nat × Bool
  | _, hp, none, _ => (hp, none, false)
  | 0, hp, some a, _ => (hp, some a, false)
  | f + 1, hp, some a, pre =>
    let n := hp.get a
    if pre.isPrefixOf n.pk then (ensureMV c hp (some a), none, true)
    else if !n.isBranch then (hp, some a, false)
    else if pre.length = n.pk.length + 1 && pre.dropLast == n.pk then
      -- the prefix is one of the children of the branch
      match pre.drop n.pk.length with
      | i :: _ =>
        match n.kids i with
        | none => (hp, some a, false)
        | some ch =>
          let p := prepForMutation c true hp a
          let hp1 := registerDeleted c p.1 ch
          let hp2 := hp1.modify p.2 (fun x => { x with kids := setKid x.kids i none })
          let d := handleDeletion c hp2 p.2 pre
          (d.1, some d.2, true)
      | [] => (hp, some a, false)  -- unreachable
    else if pre.length ≤ n.pk.length || lcpLen n.pk pre < n.pk.length then (hp, some a, false)
    else
      match pre.drop n.pk.length with
      | i :: rest =>
        let r := clearPrefixF c f hp (n.kids i) rest
        if !r.2.2 then (r.1, some a, false)
        else
          let p := prepForMutation c true r.1 a
          let hp2 := p.1.modify p.2 (fun x => { x with kids := setKid x.kids i r.2.1 })
          let d := handleDeletion c hp2 p.2 pre
          (d.1, some d.2, true)
      | [] => (hp, some a, false)  -- unreachable

/-! ### ClearPrefixLimit -/

/-- `deleteNodesLimit` panics on a branch without children ("got branch with all nil children");
    the model reports it as this impossible count (the Go counters are `uint32`) -/
def panicMark : Nat := 4294967296

/-- loop state of `deleteNodesLimit` over the children of one (prepared) branch -/
structure DnlSt where
  hp : Heap
  limit : Nat
  deleted : Nat
  result : Option (Option Nat × Nat)   -- `some` once the Go loop has returned

/-- the end of one iteration of the loop of `deleteNodesLimit` on the prepared branch at `b`, after
    `branch.Children[i]` was replaced: `handleDeletion`, then the two early returns -/
def dnlTail (c : Ctx) (b : Nat) (hp1 : Heap) (limit' deleted' : Nat) : DnlSt :=
  let nb := hp1.get b
  let d := handleDeletion c hp1 b nb.pk
  if (kidIdx nb.kids).isEmpty && nb.val.isNone then
    { hp := d.1, limit := limit', deleted := deleted', result := some (none, deleted') }
  else if limit' = 0 then
    { hp := d.1, limit := limit', deleted := deleted', result := some (some d.2, deleted') }
  else { hp := d.1, limit := limit', deleted := deleted', result := none }

/-- one iteration of `for i, child := range branch.Children` of `deleteNodesLimit` on the prepared
    branch at `b`; `rec` is the recursive call -/
def dnlStep (c : Ctx) (b : Nat) (rec : Heap → Option Nat → Nat → Heap × Option Nat × Nat)
    (s : DnlSt) (i : Nib) : DnlSt :=
  if s.result.isSome then s
  else
    match (s.hp.get b).kids i with
    | none => s
    | some ch =>
      let r := rec s.hp (some ch) s.limit
      if r.2.2 ≥ panicMark then { s with hp := r.1, result := some (none, panicMark) }
      else
        dnlTail c b (r.1.modify b (fun x => { x with kids := setKid x.kids i r.2.1 }))
          (s.limit - r.2.2) (s.deleted + r.2.2)

def dnlLoop (c : Ctx) (b : Nat) (rec : Heap → Option Nat → Nat → Heap × Option Nat × Nat)
    (hp : Heap) (limit : Nat) : DnlSt :=
  (List.finRange 16).foldl (dnlStep c b rec) { hp := hp, limit := limit, deleted := 0, result := none }

theorem dnlLoop_eq (c : Ctx) (b : Nat) (rec : Heap → Option Nat → Nat → Heap × Option Nat × Nat)
    (hp : Heap) (limit : Nat) :
    dnlLoop c b rec hp limit = (List.finRange 16).foldl (dnlStep c b rec)
      { hp := hp, limit := limit, deleted := 0, result := none } := rfl

attribute [irreducible] dnlLoop

/-- `t.deleteNodesLimit`: new parent and values deleted -/
def dnlF (c : Ctx) : Nat → Heap → Option Nat → Nat → Heap × Option Nat × Nat
  | _, hp, none, _ => (hp, none, 0)
  | 0, hp, some a, _ => (hp, some a, 0)
  | f + 1, hp, some a, limit =>
    if limit = 0 then (hp, some a, 0)
    else
      let n := hp.get a
      if !n.isBranch then (registerDeleted c hp a, none, 1)
      else if (kidIdx n.kids).isEmpty then (hp, some a, panicMark)
      else
        let p := prepForMutation c true hp a
        let fin := dnlLoop c p.2 (dnlF c f) p.1 limit
        match fin.result with
        | some r => (fin.hp, r.1, r.2)
        | none => (fin.hp, none, fin.deleted + (if (fin.hp.get p.2).val.isSome then 1 else 0))

/-- `t.clearPrefixLimitAtNode` / `clearPrefixLimitBranch` / `clearPrefixLimitChild`:
    new parent, values deleted, allDeleted -/
def cplF (c : Ctx) : Nat → Heap → Option Nat → Nibs → Nat → Heap × Option Nat × Nat × Bool
  | _, hp, none, _, _ => (hp, none, 0, true)
  | 0, hp, some a, _, _ => (hp, some a, 0, true)
  | f + 1, hp, some a, pre, limit =>
    let n := hp.get a
    if !n.isBranch then
      if pre.isPrefixOf n.pk then (registerDeleted c hp a, none, 1, true)
      else (hp, some a, 0, true)
    else if pre.isPrefixOf n.pk then
      let r := dnlF c bigFuel hp (some a) limit
      (r.1, r.2.1, r.2.2, r.2.1.isNone)
    else if pre.length = n.pk.length + 1 && pre.dropLast == n.pk then
      -- clearPrefixLimitChild
      match pre.drop n.pk.length with
      | i :: _ =>
        match n.kids i with
        | none => (hp, some a, 0, true)
        | some ch =>
          let r := dnlF c bigFuel hp (some ch) limit
          if r.2.2 = 0 then (r.1, some a, 0, false)
          else
            let p := prepForMutation c true r.1 a
            let hp2 := p.1.modify p.2 (fun x => { x with kids := setKid x.kids i r.2.1 })
            let d := handleDeletion c hp2 p.2 pre
            (d.1, some d.2, r.2.2, r.2.1.isNone)
      | [] => (hp, some a, 0, true)  -- unreachable
    else if pre.length ≤ n.pk.length || lcpLen n.pk pre < n.pk.length then (hp, some a, 0, true)
    else
      match pre.drop n.pk.length with
      | i :: rest =>
        let r := cplF c f hp (n.kids i) rest limit
        if r.2.2.1 = 0 then (r.1, some a, 0, r.2.2.2)
        else
          let p := prepForMutation c true r.1 a
          let hp2 := p.1.modify p.2 (fun x => { x with kids := setKid x.kids i r.2.1 })
          let d := handleDeletion c hp2 p.2 pre
          (d.1, some d.2, r.2.2.1, r.2.2.2)
      | [] => (hp, some a, 0, true)  -- unreachable

/-! ### reads -/

/-- `retrieve` (`IsHashedValue` nodes exist only transiently inside `Load`/`GetFromDB`, so the
    database look-up of `retrieveFromLeaf` is not modelled) -/
def retrieveF : Nat → Heap → Option Nat → Nibs → Option Bytes
  | _, _, none, _ => none
  | 0, _, some _, _ => none
  | f + 1, hp, some a, key =>
    let n := hp.get a
    if !n.isBranch then (if n.pk = key then n.val else none)
    else if key.length = 0 || n.pk == key then n.val
    else if !(n.pk.isPrefixOf key) then none
    else
      match key.drop n.pk.length with
      | i :: rest => retrieveF f hp (n.kids i) rest
      | [] => none

/-- the full nibble keys visited by `buildEntriesMap`, in visiting order -/
def keysF : Nat → Heap → Option Nat → Nibs → List Nibs
  | _, _, none, _ => []
  | 0, _, some _, _ => []
  | f + 1, hp, some a, pre =>
    let n := hp.get a
    if !n.isBranch then [pre ++ n.pk]
    else
      (if n.val.isSome then [pre ++ n.pk] else []) ++
      (List.finRange 16).flatMap (fun i => keysF f hp (n.kids i) (pre ++ n.pk ++ [i]))

/-- `t.Get(keyLE)` -/
def get (hp : Heap) (root : Option Nat) (k : Bytes) : Option Bytes :=
  let key := keyLEToNibbles k
  retrieveF (key.length + 1) hp root key

/-- `t.Entries()`: for every node with a value, its little-endian key and `t.Get` of that key
    (a Go map: the harness sorts it; a repeated key collapses) -/
def entries (hp : Heap) (root : Option Nat) : List (Bytes × Option Bytes) :=
  (keysF bigFuel hp root []).map (fun k =>
    let kle := nibblesToKeyLE k
    (kle, get hp root kle))

/-! ### WriteDirty -/

/-- the database: an association list, newest first -/
abbrev DB := List (Bytes × Bytes)

def dbPut (db : DB) (k v : Bytes) : DB := (k, v) :: db

def dbGet (db : DB) (k : Bytes) : Option Bytes :=
  match db.find? (fun e => e.1 == k) with
  | some e => some e.2
  | none => none

def wdKids (rec : Heap × DB → Option Nat → Heap × DB) (ks : Nib → Option Nat) (s : Heap × DB) :
    Heap × DB :=
  (List.finRange 16).foldl (fun s i => rec s (ks i)) s

theorem wdKids_eq (rec : Heap × DB → Option Nat → Heap × DB) (ks : Nib → Option Nat)
    (s : Heap × DB) : wdKids rec ks s = (List.finRange 16).foldl (fun s i => rec s (ks i)) s := rfl

attribute [irreducible] wdKids

/-- `t.writeDirtyNode(db, n)` without the loop over the child tries (modelled by the caller) -/
def writeDirtyF (c : Ctx) : Nat → Heap × DB → Option Nat → Heap × DB
  | _, s, none => s
  | 0, s, some _ => s
  | f + 1, s, some a =>
    let n := s.1.get a
    if !n.dirty then s
    else
      let e := encodeAndHash c.H (c.troot == some a) s.1 a
      match e.2 with
      | none => (e.1, s.2)
      | some (enc, m) =>
        let db1 := if n.mbh then dbPut s.2 (nibBytes n.pk ++ c.H (n.val.getD [])) (n.val.getD [])
                   else s.2
        if m.length < 32 then (e.1.modify a (fun x => { x with dirty := false }), db1)
        else
          let db2 := dbPut db1 m enc
          if !n.isBranch then (e.1.modify a (fun x => { x with dirty := false }), db2)
          else
            let s' := wdKids (writeDirtyF c f) n.kids (e.1, db2)
            (s'.1.modify a (fun x => { x with dirty := false }), s'.2)

/-! ### the exported methods of `InMemoryTrie` on a handle `(root, generation, version)` -/

structure Handle where
  root : Option Nat
  gen : Nat
  ver : Ver

def Handle.ctx (H : Bytes → Bytes) (t : Handle) : Ctx :=
  { H := H, g := t.gen, ver := t.ver, troot := t.root }

def put (H : Bytes → Bytes) (hp : Heap) (t : Handle) (k v : Bytes) : Heap × Handle :=
  let key := keyLEToNibbles k
  let r := insertF (t.ctx H) (key.length + 1) hp t.root key v
  (r.1, { t with root := r.2.1 })

def delete (H : Bytes → Bytes) (hp : Heap) (t : Handle) (k : Bytes) : Heap × Handle :=
  let key := keyLEToNibbles k
  let r := deleteF (t.ctx H) (key.length + 1) hp t.root key
  (r.1, { t with root := r.2.1 })

def clearPrefix (H : Bytes → Bytes) (hp : Heap) (t : Handle) (p : Bytes) : Heap × Handle :=
  if p.length = 0 then (ensureMV (t.ctx H) hp t.root, { t with root := none })
  else
    let pre := trimZero (keyLEToNibbles p)
    let r := clearPrefixF (t.ctx H) (pre.length + 1) hp t.root pre
    (r.1, { t with root := r.2.1 })

def clearPrefixLimit (H : Bytes → Bytes) (hp : Heap) (t : Handle) (p : Bytes) (limit : Nat) :
    Heap × Handle × Nat × Bool :=
  if limit = 0 then (hp, t, 0, false)
  else
    let pre := trimZero (keyLEToNibbles p)
    let r := cplF (t.ctx H) (pre.length + 1) hp t.root pre limit
    (r.1, { t with root := r.2.1 }, r.2.2.1, r.2.2.2)

/-- `t.Snapshot()` (child tries are not part of this model) -/
def snapshot (t : Handle) : Handle := { t with gen := t.gen + 1 }

/-- `t.Hash()` -/
def hash (H : Bytes → Bytes) (hp : Heap) (t : Handle) : Heap × Option Bytes := hashRoot H hp t.root

/-- print a hash (`fuel` when the model ran out of fuel: never on an acyclic heap) -/
def showHash : Option Bytes → String
  | some m => toHex m
  | none => "fuel"

/-- `t.WriteDirty(db)` (main trie only) -/
def writeDirty (H : Bytes → Bytes) (hp : Heap) (db : DB) (t : Handle) : Heap × DB :=
  writeDirtyF (t.ctx H) bigFuel (hp, db) t.root

end TrieHeap
end Gossamer
