/-
Static facts: the flat view `specOfNode t` of a tree with unique hashes against the tree traversals.
-/
import Gossamer.Lib.BlockTreePrune

namespace Gossamer.BlockTree

theorem inj_of_nodup_map {α β : Type} (g : α → β) : ∀ (l : List α), (l.map g).Nodup →
    ∀ x y, x ∈ l → y ∈ l → g x = g y → x = y := by
  intro l
  induction l with
  | nil => simp
  | cons a as ih =>
    intro hd x y hx hy hg
    simp only [List.map_cons, List.nodup_cons, List.mem_map, not_exists, not_and] at hd
    simp only [List.mem_cons] at hx hy
    rcases hx with rfl | hx <;> rcases hy with rfl | hy
    · rfl
    · exact absurd hg.symm (hd.1 y hy)
    · exact absurd hg (hd.1 x hx)
    · exact ih hd.2 x y hx hy hg

theorem addChildF_absent {ph : Hash} {c : Node} : ∀ f, ph ∉ descF f → addChildF ph c f = f := by
  intro f
  induction f using forest_ind with
  | nil => simp [addChildF]
  | cons i cs rest ih1 ih2 =>
    intro h
    simp only [descF, List.mem_cons, List.mem_append, not_or] at h
    have h1 : ¬ i.hash = ph := fun e => h.1 e.symm
    have h2 : occF ph cs = false := by
      cases ho : occF ph cs
      · rfl
      · exact absurd ((occF_iff ph cs).1 ho) h.2.1
    simp [addChildF, h1, h2, ih2 h.2.2]

theorem addChild_eq (t : Node) (ph : Hash) (c : Node) : [t.addChild ph c] = addChildF ph c [t] := by
  cases t with
  | mk i cs =>
    simp only [Node.addChild, addChildF]
    split
    · rfl
    · split
      · rfl
      · next h =>
        have : ph ∉ descF cs := by
          intro hm; exact h ((occF_iff ph cs).2 hm)
        rw [addChildF_absent cs this]

theorem findF_root (i : Info) (cs : Forest) (h : Hash) :
    findF h [.mk i cs] = if i.hash = h then some (.mk i cs) else findF h cs := by
  simp only [findF]
  split
  · rfl
  · cases findF h cs <;> rfl

/-- payload lookups agree -/
theorem infoOf_eq {t : Node} (hd : (descF [t]).Nodup) (h : Hash) :
    (specOfNode t).infoOf h = (findF h [t]).map (·.info) := by
  cases t with
  | mk i cs =>
    obtain ⟨hn, hr⟩ := spec_nodup hd
    simp only [Spec.infoOf, specOfNode, Node.info_mk, Node.children_mk, findF_root]
    by_cases hi : h = i.hash
    · simp [hi]
    · have hi' : ¬ i.hash = h := fun e => hi e.symm
      simp only [hi, hi', if_false]
      cases hf : findF h cs with
      | none =>
        have := (findF_none cs).1 hf
        rw [← blocksF_map_hash cs i.hash] at this
        simp [lookup_none.2 this]
      | some n =>
        obtain ⟨hns, hnh⟩ := findF_some cs n hf
        have hin : n.info ∈ infosF cs := by rw [← subsF_map_info]; exact List.mem_map.2 ⟨n, hns, rfl⟩
        rw [← blocksF_map_info cs i.hash] at hin
        obtain ⟨b, hb, hbi⟩ := List.mem_map.1 hin
        have hbh : b.hash = h := by rw [← hnh, ← hbi]; rfl
        have := lookup_of_mem hn hb
        rw [hbh] at this
        simp [this, hbi]

theorem present_iff {t : Node} (h : Hash) : (specOfNode t).present h ↔ h ∈ descF [t] := by
  cases t with
  | mk i cs =>
    simp only [Spec.present, specOfNode, Node.info_mk, Node.children_mk, descF, List.append_nil, List.mem_cons]
    rw [← blocksF_map_hash cs i.hash]
    simp

/-- ancestry read off the flat view = occurrence in the subtree -/
theorem isAnc_iff {t : Node} (hd : (descF [t]).Nodup) {a d : Hash} (hdm : d ∈ descF [t]) :
    (specOfNode t).isAnc a d ↔ ∃ na, findF a [t] = some na ∧ d ∈ descF [na] := by
  unfold Spec.isAnc
  rw [ancestors_eq_up hd hdm]
  unfold upN
  cases hq : pathF d [t] with
  | none => exact absurd hdm ((pathF_none [t]).1 hq)
  | some q => simpa using path_mem_iff [t] q hd hq

theorem parent_mem {b : Block} : ∀ f p, b ∈ blocksF p f → b.parent = p ∨ b.parent ∈ descF f := by
  intro f
  induction f using forest_ind with
  | nil => simp [blocksF]
  | cons i cs rest ih1 ih2 =>
    intro p hb
    simp only [blocksF, List.mem_cons, List.mem_append] at hb
    simp only [descF, List.mem_cons, List.mem_append]
    rcases hb with rfl | hb | hb
    · simp
    · have := ih1 _ hb; grind
    · have := ih2 _ hb; grind

theorem exists_child_block (p : Hash) : ∀ f : Forest, f ≠ [] → ∃ b ∈ blocksF p f, b.parent = p := by
  intro f hf
  cases f with
  | nil => exact absurd rfl hf
  | cons c rest => cases c with
    | mk i cs => exact ⟨i.block p, by simp [blocksF], rfl⟩

/-- leaves = held blocks that are nobody's parent -/
theorem mem_leaves_iff {h : Hash} : ∀ f p, (descF f).Nodup → p ∉ descF f →
    (h ∈ (leavesF f).map (·.hash) ↔ h ∈ descF f ∧ ∀ b ∈ blocksF p f, b.parent ≠ h) := by
  intro f
  induction f using forest_ind with
  | nil => simp [leavesF, descF]
  | cons i cs rest ih1 ih2 =>
    intro p hd hp
    simp only [descF, List.nodup_cons, List.mem_append, List.nodup_append, List.mem_cons, not_or] at hd hp
    obtain ⟨hi, hcs, hrest, hdis⟩ := hd
    have i1 := ih1 i.hash hcs hi.1
    have i2 := ih2 p hrest hp.2.2
    have pc : ∀ b ∈ blocksF i.hash cs, b.parent = i.hash ∨ b.parent ∈ descF cs := fun b hb => parent_mem cs _ hb
    have pr : ∀ b ∈ blocksF p rest, b.parent = p ∨ b.parent ∈ descF rest := fun b hb => parent_mem rest _ hb
    have lc : ∀ y, y ∈ leavesF cs → y.hash ∈ descF cs := fun y hy => leaf_hash_mem hy
    have lr : ∀ y, y ∈ leavesF rest → y.hash ∈ descF rest := fun y hy => leaf_hash_mem hy
    simp only [leavesF, List.map_append, List.mem_append, descF, List.mem_cons, blocksF]
    by_cases hce : cs = []
    · subst hce
      simp only [List.isEmpty_nil, if_true, List.map_cons, List.map_nil, List.mem_singleton, leavesF,
        List.not_mem_nil, false_or, descF, blocksF, List.nil_append] at i1 i2 lc pc ⊢
      constructor
      · rintro (h1 | h1)
        · subst h1
          refine ⟨Or.inl rfl, ?_⟩
          rintro b (rfl | hb)
          · simp only [Info.block_parent]; exact fun e => hp.1 e
          · rcases pr b hb with e | e
            · rw [e]; exact fun e => hp.1 e
            · exact fun e' => hi.2 (e' ▸ e)
        · have := i2.1 h1
          refine ⟨Or.inr this.1, ?_⟩
          rintro b (rfl | hb)
          · simp only [Info.block_parent]; exact fun e => hp.2.2 (e ▸ this.1)
          · exact this.2 b hb
      · rintro ⟨h1 | h1, h2⟩
        · exact Or.inl h1
        · exact Or.inr (i2.2 ⟨h1, fun b hb => h2 b (Or.inr hb)⟩)
    · have hne : cs.isEmpty = false := by cases cs <;> simp_all
      obtain ⟨b0, hb0, hb0p⟩ := exists_child_block i.hash cs hce
      simp only [hne, Bool.false_eq_true, if_false, List.map_nil, List.not_mem_nil, false_or]
      constructor
      · rintro (h1 | h1)
        · have := i1.1 h1
          refine ⟨Or.inr (Or.inl this.1), ?_⟩
          rintro b (rfl | hb | hb)
          · simp only [Info.block_parent]; exact fun e => hp.2.1 (e ▸ this.1)
          · exact this.2 b hb
          · rcases pr b hb with e | e
            · rw [e]; exact fun e => hp.2.1 (e ▸ this.1)
            · exact fun e' => hdis _ this.1 _ e e'.symm
        · have := i2.1 h1
          refine ⟨Or.inr (Or.inr this.1), ?_⟩
          rintro b (rfl | hb | hb)
          · simp only [Info.block_parent]; exact fun e => hp.2.2 (e ▸ this.1)
          · rcases pc b hb with e | e
            · rw [e]; exact fun e => hi.2 (e ▸ this.1)
            · exact fun e' => hdis _ e _ this.1 e'
          · exact this.2 b hb
      · rintro ⟨h1 | h1 | h1, h2⟩
        · exact absurd (h1 ▸ hb0p) (h2 b0 (Or.inr (Or.inl hb0)))
        · exact Or.inl (i1.2 ⟨h1, fun b hb => h2 b (Or.inr (Or.inl hb))⟩)
        · exact Or.inr (i2.2 ⟨h1, fun b hb => h2 b (Or.inr (Or.inr hb))⟩)

theorem isLeaf_iff {t : Node} (hd : (descF [t]).Nodup) (h : Hash) :
    (specOfNode t).isLeaf h ↔ h ∈ (leavesF [t]).map (·.hash) := by
  cases t with
  | mk i cs =>
    have hroot : i.hash ∉ descF cs := by
      simp only [descF, List.append_nil, List.nodup_cons] at hd; exact hd.1
    have hcs : (descF cs).Nodup := by
      simp only [descF, List.append_nil, List.nodup_cons] at hd; exact hd.2
    unfold Spec.isLeaf
    rw [present_iff]
    simp only [specOfNode, Node.info_mk, Node.children_mk]
    have key := mem_leaves_iff (h := h) cs i.hash hcs hroot
    simp only [leavesF, List.append_nil, List.map_append, List.mem_append, descF, List.mem_cons]
    by_cases hce : cs = []
    · subst hce; simp [leavesF, blocksF, descF]
    · have hne : cs.isEmpty = false := by cases cs <;> simp_all
      obtain ⟨b0, hb0, hb0p⟩ := exists_child_block i.hash cs hce
      simp only [hne, Bool.false_eq_true, if_false, List.map_nil, List.not_mem_nil, false_or]
      rw [key]
      constructor
      · rintro ⟨h1 | h1, h2⟩
        · exact absurd (h1 ▸ hb0p) (h2 b0 hb0)
        · exact ⟨h1, h2⟩
      · rintro ⟨h1, h2⟩; exact ⟨Or.inr h1, h2⟩

end Gossamer.BlockTree
