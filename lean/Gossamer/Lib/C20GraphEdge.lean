/-
C20 layer (b), proofs: the canonical ancestor edge of a block w.r.t. a vote-node set, and what
`ancestorBlock` / `inDirectAncestry` compute on an entry that carries it.
-/
import Gossamer.Lib.C20GraphBase
namespace Gossamer.C20

variable {t : Tree}

/-- blocks from the parent of `b` up to and including the nearest vote-node above `b` -/
def edge (t : Tree) (N : Nat → Bool) (b : Nat) : List Nat := takeThrough N (t.chain b).tail

/-- the nearest vote-node strictly above `b` -/
def ancNode (t : Tree) (N : Nat → Bool) (b : Nat) : Option Nat := (edge t N b).getLast?

theorem edge_zero (t : Tree) (N : Nat → Bool) : edge t N 0 = [] := rfl

theorem edge_prefix (t : Tree) (N : Nat → Bool) (b : Nat) : edge t N b <+: (t.chain b).tail :=
  takeThrough_prefix N _

theorem edge_shape (h : t.WF) {N : Nat → Bool} (h0 : N 0 = true) {b : Nat} (hb : 0 < b) :
    ∃ pre a, edge t N b = pre ++ [a] ∧ N a = true ∧ ∀ x, x ∈ pre → N x = false := by
  unfold edge
  apply takeThrough_spec
  rw [Tree.chain_tail_pos h hb]
  exact ⟨0, Tree.zero_mem_chain h _, h0⟩

theorem ancNode_some (h : t.WF) {N : Nat → Bool} (h0 : N 0 = true) {b : Nat} (hb : 0 < b) :
    ∃ a, ancNode t N b = some a ∧ N a = true ∧ a ∈ edge t N b := by
  obtain ⟨pre, a, e, ha, _⟩ := edge_shape h h0 hb
  exact ⟨a, by simp [ancNode, e], ha, by simp [e]⟩

theorem edge_getElem (h : t.WF) {N : Nat → Bool} {b i x : Nat} (hx : (edge t N b)[i]? = some x) :
    (t.chain b)[i + 1]? = some x := by
  obtain ⟨s, hs⟩ := edge_prefix t N b
  have hi : i < (edge t N b).length := by
    rcases Nat.lt_or_ge i (edge t N b).length with h1 | h1
    · exact h1
    · rw [List.getElem?_eq_none h1] at hx; cases hx
  have : (t.chain b).tail[i]? = some x := by
    rw [← hs, List.getElem?_append_left hi]; exact hx
  cases hc : t.chain b with
  | nil => exact absurd hc (t.chain_ne_nil b)
  | cons y ys => rw [hc] at this; simpa using this

theorem edge_mem_chain (h : t.WF) {N : Nat → Bool} {b x : Nat} (hx : x ∈ edge t N b) : x ∈ t.chain b := by
  obtain ⟨i, hi⟩ := List.getElem?_of_mem hx
  exact List.mem_of_getElem? (edge_getElem h hi)

theorem edge_num (h : t.WF) {N : Nat → Bool} {b i x : Nat} (hx : (edge t N b)[i]? = some x) :
    t.num x + i + 1 = t.num b := by
  have := Tree.num_getElem h (edge_getElem h hx)
  omega

theorem edge_ne_self (h : t.WF) {N : Nat → Bool} {b x : Nat} (hx : x ∈ edge t N b) : x ≠ b := by
  obtain ⟨i, hi⟩ := List.getElem?_of_mem hx
  have := edge_num h hi
  intro e; subst e; omega

/-- the edge has as many blocks as the numbers between `b` and its ancestor vote-node -/
theorem edge_length (h : t.WF) {N : Nat → Bool} {b a : Nat} (ha : ancNode t N b = some a) :
    (edge t N b).length + t.num a = t.num b := by
  unfold ancNode at ha
  have hne : edge t N b ≠ [] := by intro e; rw [e] at ha; simp at ha
  have hl : (edge t N b)[(edge t N b).length - 1]? = some a := by
    rw [List.getLast?_eq_getElem?] at ha; exact ha
  have := edge_num h hl
  have := List.length_pos_iff.2 hne
  omega

/-- a block of the edge is determined by its number -/
theorem edge_mem_iff_getElem (h : t.WF) {N : Nat → Bool} {b x : Nat} (hx : x ∈ edge t N b) :
    (edge t N b)[t.num b - t.num x - 1]? = some x := by
  obtain ⟨i, hi⟩ := List.getElem?_of_mem hx
  have := edge_num h hi
  have : t.num b - t.num x - 1 = i := by omega
  rw [this]; exact hi

/-- `ancestorBlock` on an entry with the canonical number and edge -/
theorem ancestorBlock_spec (h : t.WF) {N : Nat → Bool} {b : Nat} {e : Entry}
    (hn : e.number = t.num b) (he : e.ancestors = edge t N b) (n x : Nat) :
    e.ancestorBlock n = some x ↔ x ∈ edge t N b ∧ t.num x = n := by
  unfold Entry.ancestorBlock
  rw [hn, he]
  constructor
  · intro hx
    split at hx
    · cases hx
    · have := edge_num h hx
      exact ⟨List.mem_of_getElem? hx, by omega⟩
  · rintro ⟨hx, hnx⟩
    have hi := edge_mem_iff_getElem h hx
    obtain ⟨i, hi'⟩ := List.getElem?_of_mem hx
    have := edge_num h hi'
    have hlt : ¬ n ≥ t.num b := by omega
    simp only [hlt, if_false]
    rw [← hnx]; exact hi

/-- `inDirectAncestry(hash, number of hash)` answers "is the block on my edge" -/
theorem inDirectAncestry_true (h : t.WF) {N : Nat → Bool} {b : Nat} {e : Entry}
    (hn : e.number = t.num b) (he : e.ancestors = edge t N b) (hash : Nat) :
    e.inDirectAncestry hash (t.num hash) = some true ↔ hash ∈ edge t N b := by
  unfold Entry.inDirectAncestry
  constructor
  · intro hx
    cases hab : e.ancestorBlock (t.num hash) with
    | none => rw [hab] at hx; cases hx
    | some x =>
      rw [hab] at hx
      have : x = hash := by simpa using hx
      subst this
      exact ((ancestorBlock_spec h hn he _ _).1 hab).1
  · intro hx
    rw [(ancestorBlock_spec h hn he (t.num hash) hash).2 ⟨hx, rfl⟩]
    simp

/-- a definite answer means the number lies within the span of the edge -/
theorem inDirectAncestry_isSome (h : t.WF) {N : Nat → Bool} {b a : Nat} {e : Entry}
    (hn : e.number = t.num b) (he : e.ancestors = edge t N b) (ha : ancNode t N b = some a) (hash n : Nat) :
    (e.inDirectAncestry hash n).isSome ↔ (t.num a ≤ n ∧ n < t.num b) := by
  unfold Entry.inDirectAncestry
  rw [Option.isSome_map]
  have hlen := edge_length h ha
  constructor
  · intro hs
    obtain ⟨x, hx⟩ := Option.isSome_iff_exists.1 hs
    obtain ⟨hm, hnx⟩ := (ancestorBlock_spec h hn he n x).1 hx
    obtain ⟨i, hi⟩ := List.getElem?_of_mem hm
    have := edge_num h hi
    have : i < (edge t N b).length := by
      rcases Nat.lt_or_ge i (edge t N b).length with h1 | h1
      · exact h1
      · rw [List.getElem?_eq_none h1] at hi; cases hi
    omega
  · rintro ⟨h1, h2⟩
    have hi : t.num b - n - 1 < (edge t N b).length := by omega
    have hx : (edge t N b)[t.num b - n - 1]? = some ((edge t N b)[t.num b - n - 1]) :=
      List.getElem?_eq_getElem hi
    have := edge_num h hx
    apply Option.isSome_iff_exists.2
    exact ⟨_, (ancestorBlock_spec h hn he n _).2 ⟨List.mem_of_getElem? hx, by omega⟩⟩

end Gossamer.C20
