/-
What another trie sees: a view is the root cell `ρ` of a trie together with a region `P` that is
closed under child pointers and contains the children of `ρ`.  `VP P ρ hp hp'` says that, on the
cells of the view, `hp'` differs from `hp` only by transparent cache writes (`TrP` on `P`; at `ρ` a
Merkle value of either flavour that is correct for its reader).  Then the root hash read through
the view is unchanged (`VP.rval_iff`).
-/
import Gossamer.Lib.TrieHeapCache
namespace Gossamer
namespace TrieHeap

theorem hnode_ext {n n' : HNode} (hs : n'.strip = n.strip) (hd : n'.dirty = n.dirty) (hm : n'.mv = n.mv) :
    n' = n := by
  cases n; cases n'
  simp only [HNode.strip, HNode.mk.injEq] at hs
  simp only at hd hm
  simp only [HNode.mk.injEq]
  exact ⟨hs.1, hs.2.1, hs.2.2.1, hs.2.2.2.1, hs.2.2.2.2.1, hs.2.2.2.2.2.1, hs.2.2.2.2.2.2.1, hd, hm⟩

theorem merkle_len32 (H : Bytes → Bytes) (e : Bytes) (h : (merkleValue H e).length = 32) :
    merkleValue H e = H e := by
  unfold merkleValue at *
  split
  · rename_i hl; rw [if_pos hl] at h; omega
  · rfl

structure View (hp : Heap) (P : Nat → Prop) (ρ : Nat) : Prop where
  closed : Closed P hp
  kids : ∀ i c, (hp.get ρ).kids i = some c → P c

/-- `m` is what SOME reader (non-root or root) of the cell `ρ` obtains -/
def Flav (H : Bytes → Bytes) (hp : Heap) (ρ : Nat) (m : Bytes) : Prop := Val H hp ρ m ∨ RVal H hp ρ m

structure CellR (H : Bytes → Bytes) (ρ : Nat) (hp hp' : Heap) : Prop where
  strip : (hp'.get ρ).strip = (hp.get ρ).strip
  cell : hp'.get ρ = hp.get ρ ∨
    ∃ m, (hp'.get ρ).mv = some m ∧
      ((hp'.get ρ).dirty = (hp.get ρ).dirty ∨ (hp'.get ρ).dirty = false) ∧ Flav H hp ρ m

structure VP (H : Bytes → Bytes) (P : Nat → Prop) (ρ : Nat) (hp hp' : Heap) : Prop where
  trp : TrP H P hp hp'
  root : CellR H ρ hp hp'

theorem VP.refl (H : Bytes → Bytes) (P : Nat → Prop) (ρ : Nat) (hp : Heap) : VP H P ρ hp hp :=
  ⟨TrP.refl H P hp, ⟨rfl, Or.inl rfl⟩⟩

theorem View.enc_iff {H : Bytes → Bytes} {P : Nat → Prop} {ρ : Nat} {hp hp' : Heap} (v : View hp P ρ)
    (t : VP H P ρ hp hp') (e : Bytes) : Enc H hp ρ e ↔ Enc H hp' ρ e :=
  t.trp.enc_iff v.closed t.root.strip v.kids e

theorem View.next {H : Bytes → Bytes} {P : Nat → Prop} {ρ : Nat} {hp hp' : Heap} (v : View hp P ρ)
    (t : VP H P ρ hp hp') : View hp' P ρ :=
  ⟨t.trp.closed v.closed, fun i c hk => v.kids i c (by rw [← strip_kids t.root.strip]; exact hk)⟩

private theorem usable_mv {n : HNode} {m : Bytes} (h : n.mv = some m) (hl : (n.mv.getD []).length = 32) :
    m.length = 32 := by rw [h] at hl; simpa using hl

/-- the root hash read through a view is unchanged by `VP` -/
theorem VP.rval_iff {H : Bytes → Bytes} {P : Nat → Prop} {ρ : Nat} {hp hp' : Heap} (v : View hp P ρ)
    (t : VP H P ρ hp hp') (m : Bytes) : RVal H hp ρ m ↔ RVal H hp' ρ m := by
  have henc := v.enc_iff t
  rcases t.root.cell with he | ⟨m', hm', hd', hf⟩
  · unfold RVal
    rw [he]
    constructor
    · rintro (h | ⟨h1, e, h2, h3⟩)
      · exact Or.inl h
      · exact Or.inr ⟨h1, e, (henc e).mp h2, h3⟩
    · rintro (h | ⟨h1, e, h2, h3⟩)
      · exact Or.inl h
      · exact Or.inr ⟨h1, e, (henc e).mpr h2, h3⟩
  · -- the cell was written with `m'`
    have key : ∀ e, Enc H hp ρ e → ¬ ((hp.get ρ).dirty = false ∧ ((hp.get ρ).mv.getD []).length = 32) →
        (m' = H e ∨ m' = merkleValue H e) → (RVal H hp ρ m ↔ RVal H hp' ρ m) := by
      intro e he hnu hme
      have h0 : RVal H hp ρ m ↔ m = H e := by
        constructor
        · rintro (⟨hu, _⟩ | ⟨_, e', he', rfl⟩)
          · exact absurd hu hnu
          · rw [he'.functional he]
        · rintro rfl; exact Or.inr ⟨hnu, e, he, rfl⟩
      have h1 : RVal H hp' ρ m ↔ m = H e := by
        constructor
        · rintro (⟨hu, hmv⟩ | ⟨_, e', he', rfl⟩)
          · rw [hm'] at hmv
            cases hmv
            rcases hme with rfl | hme
            · rfl
            · have hl : m.length = 32 := usable_mv hm' hu.2
              rw [hme] at hl ⊢
              exact merkle_len32 H e hl
          · rw [((henc e').mpr he').functional he]
        · rintro rfl
          by_cases hu : (hp'.get ρ).dirty = false ∧ ((hp'.get ρ).mv.getD []).length = 32
          · refine Or.inl ⟨hu, ?_⟩
            rw [hm']
            rcases hme with rfl | hme
            · rfl
            · have hl : m'.length = 32 := usable_mv hm' hu.2
              rw [hme] at hl
              rw [hme, merkle_len32 H e hl]
          · exact Or.inr ⟨hu, e, (henc e).mp he, rfl⟩
      rw [h0, h1]
    rcases hf with hv | hr
    · -- non-root flavour
      cases hv with
      | cached hd hm =>
        have : hp'.get ρ = hp.get ρ := by
          apply hnode_ext t.root.strip
          · rcases hd' with h | h
            · exact h
            · rw [h, hd]
          · rw [hm', hm]
        unfold RVal
        rw [this]
        constructor
        · rintro (h | ⟨h1, e, h2, h3⟩)
          · exact Or.inl h
          · exact Or.inr ⟨h1, e, (henc e).mp h2, h3⟩
        · rintro (h | ⟨h1, e, h2, h3⟩)
          · exact Or.inl h
          · exact Or.inr ⟨h1, e, (henc e).mpr h2, h3⟩
      | comp ms hcnd hk =>
        refine key _ ⟨ms, hk, rfl⟩ ?_ (Or.inr rfl)
        rintro ⟨h1, h2⟩
        rcases hcnd with h | h
        · rw [h] at h1; cases h1
        · rw [h] at h2; simp at h2
    · -- root flavour
      rcases hr with ⟨hu, hmv⟩ | ⟨hnu, e, he, rfl⟩
      · -- the old cache was usable and is rewritten with its own value
        have : hp'.get ρ = hp.get ρ := by
          apply hnode_ext t.root.strip
          · rcases hd' with h | h
            · exact h
            · rw [h, hu.1]
          · rw [hm', hmv]
        unfold RVal
        rw [this]
        constructor
        · rintro (h | ⟨h1, e, h2, h3⟩)
          · exact Or.inl h
          · exact Or.inr ⟨h1, e, (henc e).mp h2, h3⟩
        · rintro (h | ⟨h1, e, h2, h3⟩)
          · exact Or.inl h
          · exact Or.inr ⟨h1, e, (henc e).mpr h2, h3⟩
      · exact key e he hnu (Or.inl rfl)

/-- a flavour-correct value after a step was flavour-correct before it -/
theorem VP.flav_bwd {H : Bytes → Bytes} {P : Nat → Prop} {ρ : Nat} {hp hp' : Heap} (v : View hp P ρ)
    (t : VP H P ρ hp hp') {m : Bytes} (h : Flav H hp' ρ m) : Flav H hp ρ m := by
  rcases h with hv | hr
  · have hcomp : ∀ ms : Nib → Bytes, ((hp.get ρ).dirty = true ∨ (hp.get ρ).mv = none) →
        (∀ i c, (hp'.get ρ).encKids i = some c → Val H hp' c (ms i)) →
        Val H hp ρ (merkleValue H (encodeHead H (hp'.get ρ) ++ kidsBytes (hp'.get ρ).encKids ms)) := by
      intro ms hc hk
      rw [encodeHead_strip H t.root.strip, encKids_strip t.root.strip]
      refine Val.comp ms hc ?_
      intro i c hic
      have hic' : (hp'.get ρ).encKids i = some c := by rw [encKids_strip t.root.strip]; exact hic
      exact t.trp.val_bwd v.closed (hk i c hic') (v.kids i c (encKids_sub _ i c hic))
    rcases t.root.cell with he | ⟨m', hm', hd', hf⟩
    · cases hv with
      | cached hd hm => exact Or.inl (Val.cached (by rw [← he]; exact hd) (by rw [← he]; exact hm))
      | comp ms hc hk => exact Or.inl (hcomp ms (by rw [← he]; exact hc) hk)
    · cases hv with
      | cached hd hm => rw [hm] at hm'; cases hm'; exact hf
      | comp ms hc hk =>
        have hdt : (hp'.get ρ).dirty = true := by
          rcases hc with h | h
          · exact h
          · rw [hm'] at h; cases h
        have hd0 : (hp.get ρ).dirty = true := by
          rcases hd' with h | h
          · rw [← h]; exact hdt
          · rw [hdt] at h; cases h
        exact Or.inl (hcomp ms (Or.inl hd0) hk)
  · exact Or.inr ((t.rval_iff v m).mpr hr)

theorem VP.trans {H : Bytes → Bytes} {P : Nat → Prop} {ρ : Nat} {hp hp1 hp2 : Heap} (v : View hp P ρ)
    (t1 : VP H P ρ hp hp1) (t2 : VP H P ρ hp1 hp2) : VP H P ρ hp hp2 := by
  refine ⟨t1.trp.trans t2.trp v.closed, t2.root.strip.trans t1.root.strip, ?_⟩
  rcases t2.root.cell with e2 | ⟨m, hm, hd, hf⟩
  · rw [e2]; exact t1.root.cell
  · right
    refine ⟨m, hm, ?_, t1.flav_bwd v hf⟩
    rcases hd with h | h
    · rcases t1.root.cell with e1 | ⟨_, _, hd1, _⟩
      · left; rw [h, e1]
      · rcases hd1 with h1 | h1
        · left; rw [h, h1]
        · right; rw [h, h1]
    · right; exact h

/-- cells of the view untouched -/
theorem VP.frame {H : Bytes → Bytes} {P : Nat → Prop} {ρ : Nat} {hp hp1 hp2 : Heap}
    (t : VP H P ρ hp hp1) (h : ∀ a, (P a ∨ a = ρ) → hp2.get a = hp1.get a) : VP H P ρ hp hp2 := by
  refine ⟨⟨fun a ha => ?_⟩, ?_, ?_⟩
  · rw [h a (Or.inl ha)]; exact t.trp.cell a ha
  · rw [h ρ (Or.inr rfl)]; exact t.root.strip
  · rw [h ρ (Or.inr rfl)]; exact t.root.cell

/-- a step that is transparent on every closed region -/
theorem VP.of_trp {H : Bytes → Bytes} {P : Nat → Prop} {ρ : Nat} {hp hp' : Heap} (v : View hp P ρ)
    (t : ∀ Q : Nat → Prop, Closed Q hp → TrP H Q hp hp') : VP H P ρ hp hp' := by
  have hq : Closed (fun a => P a ∨ a = ρ) hp := by
    intro a ha i c hk
    rcases ha with ha | rfl
    · exact Or.inl (v.closed a ha i c hk)
    · exact Or.inl (v.kids i c hk)
  have tq := t _ hq
  refine ⟨tq.mono (fun a ha => Or.inl ha), (tq.cell ρ (Or.inr rfl)).1, ?_⟩
  rcases (tq.cell ρ (Or.inr rfl)).2 with h | ⟨m, hm, hd, hv⟩
  · exact Or.inl h
  · exact Or.inr ⟨m, hm, hd, Or.inl hv⟩

/-- a Merkle value written at `a` that is correct for the readers of the view -/
theorem VP.write_mv {H : Bytes → Bytes} {P : Nat → Prop} {ρ : Nat} {hp hp1 : Heap}
    (t : VP H P ρ hp hp1) (a : Nat) (m : Bytes) (hv : P a → Val H hp a m) (hf : a = ρ → Flav H hp ρ m) :
    VP H P ρ hp (hp1.modify a (fun x => { x with mv := some m })) := by
  refine ⟨t.trp.write_mv a m hv, ?_, ?_⟩
  · rw [Heap.get_modify]; split
    · rename_i h; obtain ⟨rfl, _⟩ := h; exact t.root.strip
    · exact t.root.strip
  · rw [Heap.get_modify]; split
    · rename_i h
      obtain ⟨rfl, _⟩ := h
      refine Or.inr ⟨m, rfl, ?_, hf rfl⟩
      rcases t.root.cell with he | ⟨_, _, hd, _⟩
      · left; show (hp1.get ρ).dirty = _; rw [he]
      · exact hd
    · exact t.root.cell

/-- `SetClean` on a cell whose cached Merkle value is correct for the readers of the view -/
theorem VP.write_clean {H : Bytes → Bytes} {P : Nat → Prop} {ρ : Nat} {hp hp1 : Heap}
    (t : VP H P ρ hp hp1) (a : Nat)
    (hv : P a → ∃ m, (hp1.get a).mv = some m ∧ Val H hp a m)
    (hf : a = ρ → ∃ m, (hp1.get ρ).mv = some m ∧ Flav H hp ρ m) :
    VP H P ρ hp (hp1.modify a (fun x => { x with dirty := false })) := by
  refine ⟨⟨fun b hb => ?_⟩, ?_, ?_⟩
  · rw [Heap.get_modify]; split
    · rename_i h
      obtain ⟨rfl, _⟩ := h
      obtain ⟨m, hm, hval⟩ := hv hb
      exact ⟨(t.trp.cell b hb).1, Or.inr ⟨m, hm, Or.inr rfl, hval⟩⟩
    · exact t.trp.cell b hb
  · rw [Heap.get_modify]; split
    · rename_i h; obtain ⟨rfl, _⟩ := h; exact t.root.strip
    · exact t.root.strip
  · rw [Heap.get_modify]; split
    · rename_i h
      obtain ⟨rfl, _⟩ := h
      obtain ⟨m, hm, hfl⟩ := hf rfl
      exact Or.inr ⟨m, hm, Or.inr rfl, hfl⟩
    · exact t.root.cell

end TrieHeap
end Gossamer
