/-
C21: facts about the block tree (`chain`, `le`, `depth`, `lca`) under `Tree.WF`
(the chain lemmas follow the development of Lib/C20Tree.lean).
-/
import Gossamer.Model.C21
namespace Gossamer.C21

theorem Tree.parent_lt {t : Tree} (h : t.WF) {b : Nat} (hb : 0 < b) : t.parent b < b := by
  by_cases hs : b < t.size
  · exact h.2 b hb hs
  · have : t.parent b = 0 := by
      unfold Tree.parent Tree.size at *
      simp [List.getD, List.getElem?_eq_none (Nat.le_of_not_lt hs)]
    omega

theorem chainUp_fuel {t : Tree} (h : t.WF) : ∀ (f b : Nat), b ≤ f → chainUp t f b = chainUp t b b := by
  intro f
  induction f using Nat.strongRecOn with
  | _ f ih =>
    intro b hb
    cases f with
    | zero => have : b = 0 := by omega
              subst this; rfl
    | succ f =>
      by_cases hb0 : b = 0
      · subst hb0; simp [chainUp]
      · obtain ⟨b', rfl⟩ : ∃ b', b = b' + 1 := ⟨b - 1, by omega⟩
        have hp := Tree.parent_lt h (b := b' + 1) (by omega)
        simp only [chainUp, hb0, if_false]
        rw [ih f (by omega) _ (by omega), ih b' (by omega) _ (by omega)]

theorem Tree.chain_zero (t : Tree) : t.chain 0 = [0] := rfl

theorem Tree.chain_pos {t : Tree} (h : t.WF) {b : Nat} (hb : 0 < b) :
    t.chain b = b :: t.chain (t.parent b) := by
  obtain ⟨b', rfl⟩ : ∃ b', b = b' + 1 := ⟨b - 1, by omega⟩
  have hp := Tree.parent_lt h (b := b' + 1) (by omega)
  unfold Tree.chain
  simp only [chainUp, Nat.succ_ne_zero, if_false]
  rw [chainUp_fuel h _ _ (by omega)]

theorem Tree.mem_chain_self (t : Tree) (b : Nat) : b ∈ t.chain b := by
  unfold Tree.chain
  cases b with
  | zero => simp [chainUp]
  | succ b => simp [chainUp]

/-- every element of the chain of `b` is numerically ≤ `b` -/
theorem Tree.mem_chain_le {t : Tree} (h : t.WF) : ∀ (b a : Nat), a ∈ t.chain b → a ≤ b := by
  intro b
  induction b using Nat.strongRecOn with
  | _ b ih =>
    intro a ha
    by_cases hb : b = 0
    · subst hb; simp [Tree.chain_zero] at ha; omega
    · rw [Tree.chain_pos h (by omega)] at ha
      have hp := Tree.parent_lt h (b := b) (by omega)
      rcases List.mem_cons.1 ha with rfl | ha
      · exact Nat.le_refl _
      · have := ih _ hp a ha; omega

theorem Tree.zero_mem_chain {t : Tree} (h : t.WF) : ∀ b, 0 ∈ t.chain b := by
  intro b
  induction b using Nat.strongRecOn with
  | _ b ih =>
    by_cases hb : b = 0
    · subst hb; simp [Tree.chain_zero]
    · rw [Tree.chain_pos h (by omega)]
      exact List.mem_cons_of_mem _ (ih _ (Tree.parent_lt h (by omega)))

/-- the chain of an element of a chain is a suffix of that chain -/
theorem Tree.chain_suffix {t : Tree} (h : t.WF) : ∀ (b a : Nat), a ∈ t.chain b → t.chain a <:+ t.chain b := by
  intro b
  induction b using Nat.strongRecOn with
  | _ b ih =>
    intro a ha
    by_cases hb : b = 0
    · subst hb; simp [Tree.chain_zero] at ha; subst ha; exact List.suffix_refl _
    · have hb' : 0 < b := by omega
      rw [Tree.chain_pos h hb'] at ha
      rcases List.mem_cons.1 ha with rfl | ha
      · exact List.suffix_refl _
      · rw [Tree.chain_pos h hb']
        exact (ih _ (Tree.parent_lt h hb') a ha).trans (List.suffix_cons _ _)

theorem Tree.le_iff {t : Tree} {a b : Nat} : t.le a b = true ↔ a ∈ t.chain b := by
  simp [Tree.le]

theorem Tree.le_refl (t : Tree) (b : Nat) : t.le b b = true := Tree.le_iff.2 (t.mem_chain_self b)

theorem Tree.le_trans {t : Tree} (h : t.WF) {a b c : Nat} (hab : a ∈ t.chain b) (hbc : b ∈ t.chain c) :
    a ∈ t.chain c := (Tree.chain_suffix h c b hbc).subset hab

theorem Tree.le_antisymm {t : Tree} (h : t.WF) {a b : Nat} (hab : a ∈ t.chain b) (hba : b ∈ t.chain a) :
    a = b := by
  have := Tree.mem_chain_le h _ _ hab
  have := Tree.mem_chain_le h _ _ hba
  omega

/-- two ancestors of the same block are comparable -/
theorem Tree.comparable {t : Tree} (h : t.WF) {a b c : Nat} (ha : a ∈ t.chain c) (hb : b ∈ t.chain c) :
    a ∈ t.chain b ∨ b ∈ t.chain a := by
  have sa := Tree.chain_suffix h c a ha
  have sb := Tree.chain_suffix h c b hb
  rcases Nat.le_total (t.chain a).length (t.chain b).length with hl | hl
  · exact Or.inl ((List.suffix_of_suffix_length_le sa sb hl).subset (t.mem_chain_self a))
  · exact Or.inr ((List.suffix_of_suffix_length_le sb sa hl).subset (t.mem_chain_self b))

theorem Tree.parent_mem_chain {t : Tree} (h : t.WF) {b : Nat} (hb : 0 < b) : t.parent b ∈ t.chain b := by
  rw [Tree.chain_pos h hb]
  exact List.mem_cons_of_mem _ (t.mem_chain_self _)

/-- below a strict ancestor `B` of `b` there is a child of `B` on the chain of `b` -/
theorem Tree.child_towards {t : Tree} (h : t.WF) : ∀ (b B : Nat), B ∈ t.chain b → B ≠ b →
    ∃ c, c ∈ t.chain b ∧ c ≠ 0 ∧ t.parent c = B := by
  intro b
  induction b using Nat.strongRecOn with
  | _ b ih =>
    intro B hB hne
    by_cases hb : b = 0
    · subst hb; simp [Tree.chain_zero] at hB; omega
    · have hB' := hB
      rw [Tree.chain_pos h (by omega)] at hB'
      rcases List.mem_cons.1 hB' with rfl | hB'
      · exact absurd rfl hne
      · by_cases hp : B = t.parent b
        · exact ⟨b, t.mem_chain_self b, hb, hp.symm⟩
        · obtain ⟨c, hc, hc0, hcp⟩ := ih _ (Tree.parent_lt h (by omega)) B hB' hp
          exact ⟨c, Tree.le_trans h hc (Tree.parent_mem_chain h (by omega)), hc0, hcp⟩

/-- `depth` is strictly monotone along chains -/
theorem Tree.depth_lt {t : Tree} (h : t.WF) {a b : Nat} (hab : a ∈ t.chain b) (hne : a ≠ b) :
    (t.chain a).length < (t.chain b).length := by
  have s := Tree.chain_suffix h b a hab
  rcases Nat.lt_or_ge (t.chain a).length (t.chain b).length with hl | hl
  · exact hl
  · exfalso
    have := List.IsSuffix.eq_of_length_le s hl
    have h1 : b ∈ t.chain a := by rw [this]; exact t.mem_chain_self b
    exact hne (Tree.le_antisymm h hab h1)

/-! ### depth -/

theorem Tree.chain_ne_nil (t : Tree) (b : Nat) : t.chain b ≠ [] := by
  intro h
  have := t.mem_chain_self b
  rw [h] at this
  cases this

theorem Tree.depth_le {t : Tree} (h : t.WF) {a b : Nat} (hab : a ∈ t.chain b) : t.depth a ≤ t.depth b := by
  unfold Tree.depth
  have := (Tree.chain_suffix h b a hab).length_le
  omega

theorem Tree.depth_lt' {t : Tree} (h : t.WF) {a b : Nat} (hab : a ∈ t.chain b) (hne : a ≠ b) :
    t.depth a < t.depth b := by
  unfold Tree.depth
  have := Tree.depth_lt h hab hne
  have h1 : 0 < (t.chain a).length := List.length_pos_iff.2 (t.chain_ne_nil a)
  omega

/-- on one chain there is one block per depth -/
theorem Tree.eq_of_depth_eq {t : Tree} (h : t.WF) {a b c : Nat} (ha : a ∈ t.chain c) (hb : b ∈ t.chain c)
    (hd : t.depth a = t.depth b) : a = b := by
  rcases Tree.comparable h ha hb with hab | hba
  · by_cases hne : a = b
    · exact hne
    · have := Tree.depth_lt' h hab hne; omega
  · by_cases hne : b = a
    · exact hne.symm
    · have := Tree.depth_lt' h hba hne; omega

theorem Tree.depth_parent {t : Tree} (h : t.WF) {b : Nat} (hb : 0 < b) : t.depth b = t.depth (t.parent b) + 1 := by
  unfold Tree.depth
  rw [Tree.chain_pos h hb]
  have h1 : 0 < (t.chain (t.parent b)).length := List.length_pos_iff.2 (t.chain_ne_nil _)
  simp
  omega

theorem Tree.depth_zero_iff {t : Tree} (h : t.WF) {b : Nat} : t.depth b = 0 ↔ b = 0 := by
  constructor
  · intro hd
    by_cases hb : b = 0
    · exact hb
    · have := Tree.depth_parent h (b := b) (by omega); omega
  · intro hb; subst hb; simp [Tree.depth, Tree.chain_zero]

/-! ### lowest common ancestor -/

theorem lca_known {t : Tree} {a b p : Nat} (hl : lca t a b = some p) : a < t.size ∧ b < t.size := by
  unfold lca at hl
  split at hl
  · assumption
  · cases hl

/-- the lowest common ancestor of two blocks of the tree: it is on both chains and every common ancestor is
one of its ancestors -/
theorem lca_spec {t : Tree} (h : t.WF) : ∀ (a b : Nat), a < t.size → b < t.size →
    ∃ p, lca t a b = some p ∧ p ∈ t.chain a ∧ p ∈ t.chain b ∧
      ∀ q, q ∈ t.chain a → q ∈ t.chain b → q ∈ t.chain p := by
  intro a
  induction a using Nat.strongRecOn with
  | _ a ih =>
    intro b ha hb
    by_cases hab : a ∈ t.chain b
    · refine ⟨a, ?_, t.mem_chain_self a, hab, fun q hq _ => hq⟩
      have hc : t.chain a = a :: (t.chain a).tail := by
        cases a with
        | zero => simp [Tree.chain_zero]
        | succ a => rw [Tree.chain_pos h (by omega)]; simp
      unfold lca
      rw [if_pos ⟨ha, hb⟩, hc, List.find?_cons_of_pos]
      exact Tree.le_iff.2 hab
    · have ha0 : 0 < a := by
        rcases Nat.eq_zero_or_pos a with h0 | h0
        · subst h0; exact absurd (Tree.zero_mem_chain h b) hab
        · exact h0
      have hp := Tree.parent_lt h ha0
      obtain ⟨p, hl, hpa, hpb, hq⟩ := ih _ hp b (by omega) hb
      refine ⟨p, ?_, ?_, hpb, ?_⟩
      · unfold lca at hl ⊢
        rw [if_pos ⟨by omega, hb⟩] at hl
        rw [if_pos ⟨ha, hb⟩, Tree.chain_pos h ha0, List.find?_cons_of_neg]
        · exact hl
        · intro hle; exact hab (Tree.le_iff.1 hle)
      · rw [Tree.chain_pos h ha0]; exact List.mem_cons_of_mem _ hpa
      · intro q hqa hqb
        rw [Tree.chain_pos h ha0] at hqa
        rcases List.mem_cons.1 hqa with rfl | hqa
        · exact absurd hqb hab
        · exact hq q hqa hqb

theorem lca_mem {t : Tree} (h : t.WF) {a b p : Nat} (hl : lca t a b = some p) :
    p ∈ t.chain a ∧ p ∈ t.chain b ∧ ∀ q, q ∈ t.chain a → q ∈ t.chain b → q ∈ t.chain p := by
  obtain ⟨ha, hb⟩ := lca_known hl
  obtain ⟨p', hl', h1, h2, h3⟩ := lca_spec h a b ha hb
  rw [hl] at hl'
  cases hl'
  exact ⟨h1, h2, h3⟩

/-- the early `return` of `getPossibleSelectedAncestors`: the common ancestor is the current block exactly
when the vote descends from it -/
theorem lca_eq_right_iff {t : Tree} (h : t.WF) {v c : Nat} (hv : v < t.size) (hc : c < t.size) :
    lca t v c = some c ↔ c ∈ t.chain v := by
  constructor
  · intro hl; exact (lca_mem h hl).1
  · intro hcv
    obtain ⟨p, hl, _, hpc, hq⟩ := lca_spec h v c hv hc
    have : c ∈ t.chain p := hq c hcv (t.mem_chain_self c)
    rw [hl, Tree.le_antisymm h hpc this]

/-- two votes below different children of `G` meet in `G` -/
theorem lca_of_split {t : Tree} (h : t.WF) {x y G c : Nat} (hx : x < t.size) (hy : y < t.size)
    (hc0 : 0 < c) (hcp : t.parent c = G) (hcx : c ∈ t.chain x) (hGy : G ∈ t.chain y) (hcy : c ∉ t.chain y) :
    lca t y x = some G := by
  obtain ⟨p, hl, hpy, hpx, hq⟩ := lca_spec h y x hy hx
  have hGc : G ∈ t.chain c := hcp ▸ Tree.parent_mem_chain h hc0
  have hGx : G ∈ t.chain x := Tree.le_trans h hGc hcx
  have hGp : G ∈ t.chain p := hq G hGy hGx
  rcases Tree.comparable h hpx hcx with hpc | hcp'
  · -- p is c or an ancestor of c
    rw [Tree.chain_pos h hc0] at hpc
    rcases List.mem_cons.1 hpc with rfl | hpG
    · exact absurd hpy hcy
    · rw [hcp] at hpG
      rw [hl, Tree.le_antisymm h hpG hGp]
  · exact absurd (Tree.le_trans h hcp' hpy) hcy

end Gossamer.C21
