/-
C17 — the parent walk over the flat block tree (`pathUp`, `upList`, `up`) under the structural invariant
`TreeOK`.  Core Lean only.
-/
import Gossamer.Lib.C17Basics
namespace Gossamer.C17

structure TreeOK (st : St) : Prop where
  uniq : Uniq st.tree
  rootIn : (findB st.tree st.root).isSome
  parent : ∀ b ∈ st.tree, b.hash ≠ st.root →
    ∃ p, findB st.tree b.parent = some p ∧ p.number + 1 = b.number

theorem parentNode_some {st : St} (ht : TreeOK st) {b p : Blk} (hb : b ∈ st.tree)
    (hp : parentNode st b = some p) :
    b.hash ≠ st.root ∧ findB st.tree b.parent = some p ∧ p ∈ st.tree ∧ p.number + 1 = b.number := by
  unfold parentNode at hp
  by_cases hr : b.hash = st.root
  · simp [hr] at hp
  · simp only [hr, if_false] at hp
    obtain ⟨p', hp', hn⟩ := ht.parent b hb hr
    rw [hp] at hp'
    cases hp'
    exact ⟨hr, hp, (findB_some hp).1, hn⟩

theorem parentNode_root {st : St} {b : Blk} (hr : b.hash = st.root) : parentNode st b = none := by
  unfold parentNode; simp [hr]

theorem parentNode_nonroot {st : St} (ht : TreeOK st) {b : Blk} (hb : b ∈ st.tree) (hr : b.hash ≠ st.root) :
    ∃ p, parentNode st b = some p := by
  obtain ⟨p, hp, _⟩ := ht.parent b hb hr
  exact ⟨p, by unfold parentNode; simp [hr, hp]⟩

/-! ### pathUp -/

/-- what a successful `k`-step walk from `e` looks like -/
structure PathOK (st : St) (e : Blk) (l : List Blk) : Prop where
  mem : ∀ x ∈ l, x ∈ st.tree ∧ x.number ≤ e.number
  last : l.getLast? = some e
  incr : l.Pairwise (fun a b => a.number < b.number)
  tailNonRoot : ∀ x ∈ l.tail, x.hash ≠ st.root
  /-- consecutive nodes are linked by the parent hash -/
  linked : ∀ x ∈ l.tail, ∃ y ∈ l, y.hash = x.parent ∧ y.number + 1 = x.number

theorem pathUp_ok {st : St} (ht : TreeOK st) : ∀ (k : Nat) (e : Blk) (l : List Blk),
    e ∈ st.tree → pathUp st k e = some l → PathOK st e l
  | 0, e, l, he, h => by
    simp only [pathUp, Option.some.injEq] at h
    subst h
    exact ⟨by simp [he], rfl, by simp, by simp, by simp⟩
  | k + 1, e, l, he, h => by
    unfold pathUp at h
    cases hp : parentNode st e with
    | none => simp [hp] at h
    | some p =>
      simp only [hp] at h
      obtain ⟨hr, _, hpt, hn⟩ := parentNode_some ht he hp
      cases hl : pathUp st k p with
      | none => simp [hl] at h
      | some l' =>
        simp only [hl, Option.map_some, Option.some.injEq] at h
        subst h
        have ih := pathUp_ok ht k p l' hpt hl
        have hne : l' ≠ [] := by
          intro hnil
          have := ih.last
          simp [hnil] at this
        have hplast : p ∈ l' := by
          have := ih.last
          exact List.mem_of_getLast? this
        refine ⟨?_, by simp, ?_, ?_, ?_⟩
        · intro x hx
          rcases List.mem_append.mp hx with hx | hx
          · exact ⟨(ih.mem x hx).1, by have := (ih.mem x hx).2; omega⟩
          · simp at hx; subst hx; exact ⟨he, Nat.le_refl _⟩
        · rw [List.pairwise_append]
          refine ⟨ih.incr, by simp, ?_⟩
          intro a ha b hb
          simp at hb; subst hb
          have := (ih.mem a ha).2; omega
        · intro x hx
          rw [List.tail_append_of_ne_nil hne] at hx
          rcases List.mem_append.mp hx with hx | hx
          · exact ih.tailNonRoot x hx
          · simp at hx; subst hx; exact hr
        · intro x hx
          rw [List.tail_append_of_ne_nil hne] at hx
          rcases List.mem_append.mp hx with hx | hx
          · obtain ⟨y, hy, h1, h2⟩ := ih.linked x hx
            exact ⟨y, List.mem_append_left _ hy, h1, h2⟩
          · simp at hx; subst hx
            refine ⟨p, List.mem_append_left _ hplast, ?_, hn⟩
            exact (findB_some (parentNode_some ht he hp).2.1).2

/-- the hashes on a path are pairwise different -/
theorem PathOK.nodup_hash {st : St} (ht : TreeOK st) {e : Blk} {l : List Blk} (h : PathOK st e l) :
    (l.map (·.hash)).Nodup := by
  rw [List.nodup_iff_pairwise_ne, List.pairwise_map]
  refine h.incr.imp_of_mem ?_
  intro a b ha hb hlt heq
  have := ht.uniq.eq_of_hash (h.mem a ha).1 (h.mem b hb).1 heq
  subst this
  omega

theorem PathOK.nodup_number {st : St} {e : Blk} {l : List Blk} (h : PathOK st e l) :
    (l.map (·.number)).Nodup := by
  rw [List.nodup_iff_pairwise_ne, List.pairwise_map]
  exact h.incr.imp (fun hlt heq => by omega)

/-! ### upList -/

theorem upList_mem {st : St} (ht : TreeOK st) : ∀ (fuel : Nat) (b : Blk) (x : Nat),
    b ∈ st.tree → x ∈ upList st fuel b → ∃ c ∈ st.tree, c.hash = x ∧ c.number ≤ b.number
  | 0, _, _, _, hx => by simp [upList] at hx
  | fuel + 1, b, x, hb, hx => by
    unfold upList at hx
    cases hp : parentNode st b with
    | none =>
      simp only [hp, List.mem_singleton] at hx
      exact ⟨b, hb, hx.symm, Nat.le_refl _⟩
    | some p =>
      simp only [hp, List.mem_cons] at hx
      rcases hx with hx | hx
      · exact ⟨b, hb, hx.symm, Nat.le_refl _⟩
      · obtain ⟨_, _, hpt, hn⟩ := parentNode_some ht hb hp
        obtain ⟨c, hc, h1, h2⟩ := upList_mem ht fuel p x hpt hx
        exact ⟨c, hc, h1, by omega⟩

theorem self_mem_up (st : St) (b : Blk) : b.hash ∈ up st b := by
  unfold up upList
  cases parentNode st b <;> simp

/-- unfolding `up` one step -/
theorem up_step {st : St} (ht : TreeOK st) {b p : Blk} (hb : b ∈ st.tree) (hp : parentNode st b = some p) :
    up st b = b.hash :: up st p := by
  obtain ⟨_, _, _, hn⟩ := parentNode_some ht hb hp
  unfold up
  rw [← hn]
  show upList st (p.number + 1 + 1) b = _
  rw [upList]
  simp [hp]

theorem up_root {st : St} {b : Blk} (hr : b.hash = st.root) : up st b = [b.hash] := by
  unfold up upList
  simp [parentNode_root hr]

/-- a strict ancestor's `up` does not contain the descendant -/
theorem not_mem_up_of_lt {st : St} (ht : TreeOK st) {a b : Blk} (ha : a ∈ st.tree) (hb : b ∈ st.tree)
    (hlt : a.number < b.number) : b.hash ∉ up st a := by
  intro hm
  obtain ⟨c, hc, h1, h2⟩ := upList_mem ht _ a b.hash ha hm
  have := ht.uniq.eq_of_hash hc hb h1
  subst this
  omega

/-- the walk to the root and `upList` visit the same nodes -/
theorem upList_of_path {st : St} (ht : TreeOK st) : ∀ (k : Nat) (e : Blk) (l : List Blk) (top : Blk) (rest : List Blk),
    e ∈ st.tree → pathUp st k e = some l → l = top :: rest → top.hash = st.root →
    ∀ fuel, k < fuel → upList st fuel e = (l.map (·.hash)).reverse
  | 0, e, l, top, rest, _, h, hl, hr, fuel, hf => by
    simp only [pathUp, Option.some.injEq] at h
    subst h
    cases hl
    cases fuel with
    | zero => omega
    | succ f => simp [upList, parentNode_root hr]
  | k + 1, e, l, top, rest, he, h, hl, hr, fuel, hf => by
    unfold pathUp at h
    cases hp : parentNode st e with
    | none => simp [hp] at h
    | some p =>
      simp only [hp] at h
      obtain ⟨_, _, hpt, _⟩ := parentNode_some ht he hp
      cases hl' : pathUp st k p with
      | none => simp [hl'] at h
      | some l' =>
        simp only [hl', Option.map_some, Option.some.injEq] at h
        subst h
        cases fuel with
        | zero => omega
        | succ f =>
          cases hl'' : l' with
          | nil =>
            have := (pathUp_ok ht k p l' hpt hl').last
            simp [hl''] at this
          | cons t r =>
            rw [hl''] at hl
            simp only [List.cons_append, List.cons.injEq] at hl
            have ih := upList_of_path ht k p l' t r hpt hl' hl'' (hl.1 ▸ hr) f (by omega)
            rw [upList]
            simp only [hp]
            rw [ih, hl'']
            simp

end Gossamer.C17
