/-
C20 layer (b), proofs: the breadth-first descent of `FindGHOST` and `FindGHOST` from a vote-node.
-/
import Gossamer.Lib.C20GraphMergeLoop2
namespace Gossamer.C20

variable {t : Tree}

/-- a vote-node on an ancestor edge is its last block -/
theorem node_in_edge_is_anc (h : t.WF) {N : Nat → Bool} (h0 : N 0 = true) {d x : Nat}
    (hx : x ∈ edge t N d) (hN : N x = true) : ancNode t N d = some x := by
  have hdpos : 0 < d := by
    rcases Nat.eq_zero_or_pos d with hz | hz
    · subst hz; simp [edge_zero] at hx
    · exact hz
  obtain ⟨pre, l, hsh, _, hpre⟩ := edge_shape h h0 hdpos
  have hxl : x = l := by
    rw [hsh] at hx
    rcases List.mem_append.1 hx with hp | hl
    · rw [hpre x hp] at hN; cases hN
    · simpa using hl
  unfold ancNode; rw [hsh, hxl]; simp

/-- the unconstrained breadth-first descent ends at a vote-node none of whose descendants meets the condition -/
theorem bfs_free (h : t.WF) {ins : Ins} {g : Graph} (inv : GInv t ins g) (cond : Mask → Bool)
    (cur : Option (Nat × Nat)) : ∀ (f v : Nat) (ev : Entry), g.entries v = some ev → t.size ≤ f + v →
    (g.bfs cur cond f v ev false).2.2 = false ∧
    g.entries (g.bfs cur cond f v ev false).1 = some (g.bfs cur cond f v ev false).2.1 ∧
    v ∈ t.chain (g.bfs cur cond f v ev false).1 ∧
    (cond ev.cum = true → cond (g.bfs cur cond f v ev false).2.1.cum = true) ∧
    ∀ d, d ∈ (g.bfs cur cond f v ev false).2.1.descendants → ∀ ed, g.entries d = some ed →
      cond ed.cum = false := by
  have N0 := isNode_zero ins
  intro f
  induction f with
  | zero =>
    intro v ev hv hf
    have := inv.node_lt h (inv.node_of_entry hv)
    omega
  | succ f ih =>
    intro v ev hv hf
    have hfilt : ∀ (d : Nat) (e : Entry),
        (d, e) ∈ ev.descendants.filterMap (fun d =>
          match g.entries d with
          | none => none
          | some e =>
            match false, cur with
            | true, some (ch, cn) => if e.inDirectAncestry ch cn == some true then some (d, e) else none
            | _, _ => some (d, e)) ↔ (d ∈ ev.descendants ∧ g.entries d = some e) := by
      intro d e
      simp only [List.mem_filterMap]
      constructor
      · rintro ⟨d', hd', hm⟩
        cases hg : g.entries d' with
        | none => rw [hg] at hm; cases hm
        | some e' =>
          rw [hg] at hm
          cases cur <;> simp at hm <;> obtain ⟨rfl, rfl⟩ := hm <;> exact ⟨hd', hg⟩
      · rintro ⟨hd, hg⟩
        refine ⟨d, hd, ?_⟩
        rw [hg]
        try (cases cur <;> simp)
    simp only [Graph.bfs]
    cases hfind : (ev.descendants.filterMap (fun d =>
          match g.entries d with
          | none => none
          | some e =>
            match false, cur with
            | true, some (ch, cn) => if e.inDirectAncestry ch cn == some true then some (d, e) else none
            | _, _ => some (d, e))).find? (fun p => cond p.2.cum) with
    | none =>
      refine ⟨rfl, hv, t.mem_chain_self v, fun hc => hc, ?_⟩
      intro d hd ed hed
      have hmem := (hfilt d ed).2 ⟨hd, hed⟩
      have := List.find?_eq_none.1 hfind (d, ed) hmem
      simpa using this
    | some p =>
      obtain ⟨d, e⟩ := p
      have hmem := List.mem_of_find?_eq_some hfind
      have hcond := List.find?_some hfind
      obtain ⟨hd, hg⟩ := (hfilt d e).1 hmem
      have hanc := ((inv.desc v ev hv d).1 hd).2
      have hve : v ∈ edge t (isNode ins) d := by unfold ancNode at hanc; exact List.mem_of_getLast? hanc
      have hvc : v ∈ t.chain d := edge_mem_chain h hve
      have hvd : v < d := by
        have := Tree.mem_chain_le h _ _ hvc
        have := edge_ne_self h hve
        omega
      obtain ⟨i1, i2, i3, i4, i5⟩ := ih d e hg (by omega)
      exact ⟨i1, i2, Tree.le_trans h hvc i3, fun _ => i4 (by simpa using hcond), i5⟩

/-- **`FindGHOST` from a vote-node that meets the condition** (breadth-first descent, then the merge point)
returns the `Top` of that vote-node with its block number -/
theorem ghost_from_node (h : t.WF) {ins : Ins} {g : Graph} (inv : GInv t ins g) (key : Nat → Nat)
    {cond : Mask → Bool} (hm : MonoCond cond) (cur : Option (Nat × Nat)) (fb v : Nat) (ev : Entry)
    (hv : g.entries v = some ev) (hok : cond (cumOf t ins v) = true) (hfb : t.size ≤ fb + v) :
    (g.bfs cur cond fb v ev false).2.2 = false ∧
    ∃ D, g.mergePoint (t.size + 1) (g.bfs cur cond fb v ev false).1
        (g.bfs cur cond fb v ev false).2.1 none cond = (D, t.num D) ∧
      Top t (cumOf t ins) cond v D := by
  have N0 := isNode_zero ins
  obtain ⟨b1, b2, b3, b4, b5⟩ := bfs_free h inv cond cur fb v ev hv hfb
  refine ⟨b1, ?_⟩
  generalize (g.bfs cur cond fb v ev false).1 = k at *
  generalize (g.bfs cur cond fb v ev false).2.1 = ek at *
  have hkN := inv.node_of_entry b2
  have hklt := inv.node_lt h hkN
  have hkok : cond (cumOf t ins k) = true := by
    rw [← inv.cum k ek b2]; exact b4 (by rw [inv.cum v ev hv]; exact hok)
  have hkin : inGraph (cumOf t ins) k = true := (inGraph_iff h inv k).2 (Or.inl hkN)
  unfold Graph.mergePoint
  simp only
  have hmemL : ∀ e, e ∈ ek.descendants.filterMap (fun d =>
      match g.entries d with
      | none => none
      | some e => match (none : Option (Nat × Nat)) with
        | none => some e
        | some (fh, fn) => if e.inDirectAncestry fh fn == some true then some e else none) ↔
      ∃ d, d ∈ ek.descendants ∧ g.entries d = some e := by
    intro e
    simp only [List.mem_filterMap]
    constructor
    · rintro ⟨d, hd, hm'⟩
      cases hg : g.entries d with
      | none => rw [hg] at hm'; cases hm'
      | some e' => rw [hg] at hm'; simp at hm'; subst hm'; exact ⟨d, hd, hg⟩
    · rintro ⟨d, hd, hg⟩
      exact ⟨d, hd, by rw [hg]⟩
  have ml : MLInv t ins g cond k (ek.descendants.filterMap (fun d =>
      match g.entries d with
      | none => none
      | some e => match (none : Option (Nat × Nat)) with
        | none => some e
        | some (fh, fn) => if e.inDirectAncestry fh fn == some true then some e else none)) := by
    refine ⟨?_, ?_, ?_⟩
    · intro e he
      obtain ⟨d, hd, hg⟩ := (hmemL e).1 he
      have hanc := ((inv.desc k ek b2 d).1 hd).2
      exact ⟨d, hg, by unfold ancNode at hanc; exact List.mem_of_getLast? hanc⟩
    · intro d hdN hkd
      have hanc := node_in_edge_is_anc h N0 hkd hkN
      obtain ⟨e, he⟩ := inv.entry_of_node hdN
      exact ⟨e, (hmemL e).2 ⟨d, (inv.desc k ek b2 d).2 ⟨hdN, hanc⟩, he⟩, he⟩
    · intro e he
      obtain ⟨d, hd, hg⟩ := (hmemL e).1 he
      exact b5 d hd e hg
  obtain ⟨D, hD, hT⟩ := mergeLoop_top h inv key hm (t.size + 1) k _ ml hklt hkin hkok (by omega)
  rw [inv.number k ek b2]
  exact ⟨D, hD, Tree.le_trans h b3 hT.above, hT.lt, hT.inG, hT.ok, hT.stop⟩

end Gossamer.C20
