/-
C22 trace validation, Lean side (core only, executable): the schedule simulator.

Two layers per honest decision:
* the CODE's decision in closed form (what lib/grandpa's tally functions answer for the votes the Service
  has stored: `sel` = getPossibleSelectedBlocks, `preVoted` = getPreVotedBlock / determinePreCommit,
  `bestFinal` = getBestFinalCandidate, the three comparisons with `State.threshold()`), which the
  differential run compares with the real code;
* the ABSTRACT RULE of the protocol model (Model/C22: `hasSuper`, `possibleW` over the votes RECEIVED,
  with the very definitions the theorems are about), which every code decision must satisfy:
    precommit b : b has a supermajority of the received prevotes and descends from the finalised head
    finalise  b : b has a supermajority of the received precommits
    prevote / precommit b in a later round : the previous round was completable for the voter and
                  b descends from its estimate (paper: E_{r-1,v})
    all blocks finalised by honest voters lie on one chain (when every set keeps 3·|byz ∩ set| < |set|)
  A decision outside the rule is reported as `spec=…` (and `kf=` in the known region).

Authority sets: set 0 = keys 0..n-1; `chg b ids` makes block b the handover block of the newest set and `ids`
the voters of the next one.  A voter's Service counts with the voter list of ITS current set (threshold,
membership, primary), caps its votes at the pending handover block and enters the next set when it finalises
that block or a descendant.  The rule checks use the voter set of the round they are about.
-/
import Gossamer.Lib.C22Tree
namespace Gossamer.C22.Sim
open Gossamer.C22

structure Cfg where
  n : Nat
  byz : List Nat
  ps : List Nat
  deriving Repr

def Cfg.size (c : Cfg) : Nat := c.ps.length + 1
/-- the weighted voter set (weights 1) of a list of member keys -/
def Cfg.voters (c : Cfg) (mem : List Nat) : Voters := ⟨mem, fun _ => 1, fun v => c.byz.contains v⟩
def Cfg.order (c : Cfg) : BlockOrder Nat := parentOrder c.ps
/-- the Byzantine members of a set are less than a third of it -/
def Cfg.minority (c : Cfg) (mem : List Nat) : Bool :=
  decide (3 * (mem.filter (fun v => c.byz.contains v)).length < mem.length)

/-! ### association lists standing for the Service's vote maps -/

def aget (l : List (Nat × Nat)) (k : Nat) : Option Nat :=
  match l with
  | [] => none
  | (k', v) :: rest => if k' = k then some v else aget rest k

def aset : List (Nat × Nat) → Nat → Nat → List (Nat × Nat)
  | [], k, v => [(k, v)]
  | (k', v') :: rest, k, v => if k' = k then (k, v) :: rest else (k', v') :: aset rest k v

def adel (l : List (Nat × Nat)) (k : Nat) : List (Nat × Nat) := l.filter (fun p => p.1 != k)

/-! ### the code's tallies (closed form) -/

/-- `getTotalVotesForBlock`: stored votes for the block or a descendant, plus the number of equivocators -/
def total (c : Cfg) (votes : List (Nat × Nat)) (eqs : List Nat) (b : Nat) : Nat :=
  (votes.filter (fun p => anc c.ps b p.2)).length + eqs.length

/-- `getPossibleSelectedBlocks`: the directly voted blocks with more than `threshold` votes if there are any,
    otherwise (common ancestors) every block with more than `threshold` votes -/
def sel (c : Cfg) (n : Nat) (votes : List (Nat × Nat)) (eqs : List Nat) : List Nat :=
  let d := ((votes.map (·.2)).filter (fun b => libSelects n (total c votes eqs b))).eraseDups
  if !d.isEmpty then d
  else if votes.isEmpty then []
  else (List.range c.size).filter (fun b => libSelects n (total c votes eqs b))

/-- the loops `if n > highest.Number { highest = … }` -/
def highest (c : Cfg) (init : Nat) (cands : List Nat) : Nat :=
  cands.foldl (fun hi b => if depth c.ps hi < depth c.ps b then b else hi) init

/-- `blocktree.LowestCommonAncestor` -/
def lca (c : Cfg) (a b : Nat) : Nat :=
  match (List.range (a + 1)).find? (fun k => anc c.ps (up c.ps k a) b) with
  | some k => up c.ps k a
  | none => 0

/-! ### voters -/

structure Voter where
  set : Nat := 0                   -- the authority set of the Service
  round : Nat := 1
  head : Nat := 0
  best : Nat := 0
  pv : List (Nat × Nat) := []      -- Service.prevotes   (authority → block)
  pc : List (Nat × Nat) := []      -- Service.precommits
  pve : List Nat := []             -- Service.pvEquivocations (keys)
  pce : List Nat := []             -- Service.pcEquivocations
  prevoted : Bool := false
  precommitted : Bool := false
  fins : List Nat := []            -- blocks finalised, latest first
  rawPv : Votes Nat := []          -- every prevote received (or cast) in the current round
  rawPc : Votes Nat := []
  prevPv : Votes Nat := []         -- the same for the previous round, as of the moment it was left
  prevPc : Votes Nat := []
  lastPP : Option (Nat × Nat × Nat) := none   -- (set, round, block) of the primaryProposal it gossiped last
  hiRound : Nat := 0               -- GetHighestRoundAndSetID: the round of the latest finalisation (any set)
  hasPrev : Bool := false          -- the voter has left a round
  prevSet : Nat := 0               -- the authority set of that round
  deriving Repr

structure VMsg where
  set : Nat
  round : Nat
  stage : Nat     -- 0 prevote, 1 precommit
  voter : Nat
  block : Nat
  deriving Repr

inductive Op where
  | best (v b : Nat)
  | pv (v : Nat)
  | pc (v : Nat)
  | pp (v : Nat)
  | bv (stage v t r b : Nat)
  | chg (b : Nat) (ids : List Nat)
  | d (id v : Nat)
  | fin (v : Nat)
  deriving Repr

structure World where
  vs : List Voter                    -- index = voter id (entries of Byzantine ids are unused)
  sets : List (List Nat)             -- sets[t] = the voters of set t in order
  changes : List Nat := []           -- changes[t] = the block at which set t hands over to set t+1
  msgs : List (Option VMsg) := []    -- message id → vote, oldest first
  outs : List String := []           -- reversed
  spec : List String := []           -- reversed: the same, with rule violations marked
  estViol : Bool := false            -- a decision ignored the estimate of the previous round
  otherViol : Bool := false          -- any other rule was broken
  deriving Repr

def getV (w : World) (i : Nat) : Voter := w.vs.getD i {}
def setV (w : World) (i : Nat) (v : Voter) : World := { w with vs := w.vs.set i v }

def emit (w : World) (o : String) : World := { w with outs := o :: w.outs, spec := o :: w.spec }
def emitViol (w : World) (o : String) (est : Bool) : World :=
  { w with outs := o :: w.outs, spec := (o ++ "!rule") :: w.spec,
           estViol := w.estViol || est, otherViol := w.otherViol || !est }

def members (w : World) (t : Nat) : List Nat := w.sets.getD t []

/-- the handover block a voter still has ahead of its finalised head -/
def pending? (c : Cfg) (w : World) (v : Voter) : Option Nat :=
  match w.changes[v.set]? with
  | some x => if anc c.ps x v.head then none else some x
  | none => none

/-- the cap of determinePreVote / determinePreCommit: `q` is the block NextGrandpaAuthorityChange is asked about,
    `b` the vote; the header found by walking up from `b` to the number of the handover block -/
def capVote (c : Cfg) (w : World) (v : Voter) (q b : Nat) : Nat :=
  match pending? c w v with
  | some x => if anc c.ps x q && depth c.ps x < depth c.ps b then up c.ps (depth c.ps b - depth c.ps x) b else b
  | none => b

/-! ### the abstract rule, evaluated with the definitions of Model/C22 -/

def superB (c : Cfg) (mem : List Nat) (S : Votes Nat) (b : Nat) : Bool :=
  decide (hasSuper (c.voters mem) c.order S b)

/-- the prevote-GHOST of the paper: the highest block with a supermajority -/
def ghost? (c : Cfg) (mem : List Nat) (S : Votes Nat) : Option Nat :=
  match (List.range c.size).filter (superB c mem S) with
  | [] => none
  | b :: rest => some (highest c b rest)

/-- the paper's estimate and completability for the votes of the previous round -/
def estimate? (c : Cfg) (mem : List Nat) (pvs pcs : Votes Nat) : Option (Nat × Bool) :=
  match ghost? c mem pvs with
  | none => none
  | some g =>
    let chain := (List.range (g + 1)).map (fun k => up c.ps k g)      -- g, parent g, …, 0, 0, …
    let e := match chain.find? (fun x => possibleW (c.voters mem) c.order pcs x) with
      | some x => x
      | none => 0
    let children := (List.range c.size).filter (fun x => x != g && x != 0 && par c.ps x == g)
    let completable := e != g || children.all (fun x => !possibleW (c.voters mem) c.order pcs x)
    some (e, completable)

/-- may a voter that is in round `round` vote for `b`?  (round 1 is the first round) -/
def extendsEstimate (c : Cfg) (w : World) (v : Voter) (b : Nat) : Bool :=
  if !v.hasPrev then true
  else match estimate? c (members w v.prevSet) v.prevPv v.prevPc with
    | none => false
    | some (e, completable) => completable && anc c.ps e b

/-- the rules that tie a vote to the handover blocks (Lib/C22Sets `okVote`): never strictly above the handover
    block of its own set, and above the handover block of the previous set -/
def okHandover (c : Cfg) (w : World) (v : Voter) (b : Nat) : Bool :=
  (match pending? c w v with          -- (a change announced at a block the voter has already finalised is not
   | some x => !anc c.ps x b || anc c.ps b x     --  a pending one: schedules do that only after shrinking)
   | none => true) &&
  (match v.set with
   | 0 => true
   | p + 1 => match w.changes[p]? with
     | some x => anc c.ps x b
     | none => false)

/-! ### steps -/

/-- `checkRoundCompletable`: "a block was finalised in a higher round" — the code compares the round number of the
    latest finalisation with the current round even when that finalisation belongs to the previous authority set -/
def roundOver (v : Voter) : Bool := decide (v.round < v.hiRound)

/-- the ephemeral services end and `initiateRound` starts the next round with empty vote maps -/
def skipRound (v : Voter) : Voter :=
  { v with round := v.round + 1, pv := [], pc := [], pve := [], pce := [], prevoted := false,
           precommitted := false, rawPv := [], rawPc := [] }

def showB (b : Nat) : String := s!"b{b}"

def stepBest (c : Cfg) (w : World) (i b : Nat) : World :=
  let v := getV w i
  if anc c.ps v.head b then emit (setV w i { v with best := b }) "ok" else emit w "nobest"

/-- votingRoundHandler(determinePrevote): handleIsPrimary, determinePreVote, store, gossip -/
def stepPv (c : Cfg) (w : World) (i : Nat) : World :=
  let v := getV w i
  let mem := members w v.set
  if !mem.contains i then { emit w "notauth" with msgs := w.msgs ++ [none] }
  else if v.prevoted then { emit w "skip" with msgs := w.msgs ++ [none] }
  else if roundOver v then { emit (setV w i (skipRound v)) "done" with msgs := w.msgs ++ [none] }
  else
    let primary := mem.getD (v.round % mem.length) 0
    -- the primary stores its proposal (the best block, not capped) before determinePreVote reads it back
    let choice := match aget v.pv primary with
      | some b => if depth c.ps v.head ≤ depth c.ps b then b else v.best
      | none => v.best
    let vote := capVote c w v v.best choice
    let stored := if primary = i then (match aget v.pv i with | some b => b | none => v.best) else vote
    let v' := { v with pv := aset v.pv i stored, prevoted := true, rawPv := (i, vote) :: v.rawPv,
                       lastPP := if primary = i then some (v.set, v.round, v.best) else v.lastPP }
    let w' := { setV w i v' with msgs := w.msgs ++ [some ⟨v.set, v.round, 0, i, vote⟩] }
    let o := s!"pv={showB vote}"
    -- (the handover rules are demanded of precommits only: a primary's block on another chain than the voter's best
    --  block is copied uncapped by determinePreVote)
    if extendsEstimate c w v vote then emit w' o else emitViol w' o true

/-- the gate of finalisationEngine.defineRoundVotes, then votingRoundHandler(determinePrecommit) -/
def stepPc (c : Cfg) (w : World) (i : Nat) : World :=
  let v := getV w i
  let mem := members w v.set
  if !mem.contains i then { emit w "notauth" with msgs := w.msgs ++ [none] }
  else if !v.prevoted || v.precommitted then { emit w "skip" with msgs := w.msgs ++ [none] }
  else if roundOver v then { emit (setV w i (skipRound v)) "done" with msgs := w.msgs ++ [none] }
  else
    let cands := sel c mem.length v.pv v.pve
    if cands.isEmpty then { emit w "wait" with msgs := w.msgs ++ [none] }
    else
      let pvb := highest c v.head cands
      if !libGate mem.length (total c v.pv v.pve pvb) then { emit w "wait" with msgs := w.msgs ++ [none] }
      else
        let vote := capVote c w v pvb pvb
        let v' := { v with pc := aset v.pc i vote, precommitted := true, rawPc := (i, vote) :: v.rawPc }
        let w' := { setV w i v' with msgs := w.msgs ++ [some ⟨v.set, v.round, 1, i, vote⟩] }
        let o := s!"pc={showB vote}"
        if !(superB c mem v.rawPv vote && anc c.ps v.head vote && okHandover c w v vote) then emitViol w' o false
        else if !extendsEstimate c w v vote then emitViol w' o true
        else emit w' o

/-- the primaryProposal (stage 2) message a primary gossiped in its current round: its best block, not capped -/
def stepPp (w : World) (i : Nat) : World :=
  let v := getV w i
  match v.lastPP with
  | some (t, r, b) =>
    if t = v.set && r = v.round then emit { w with msgs := w.msgs ++ [some ⟨t, r, 2, i, b⟩] } "ok"
    else emit { w with msgs := w.msgs ++ [none] } "nopp"
  | none => emit { w with msgs := w.msgs ++ [none] } "nopp"

def stepBv (w : World) (stage j t r b : Nat) : World :=
  emit { w with msgs := w.msgs ++ [some ⟨t, r, stage, j, b⟩] } "ok"

def stepChg (w : World) (b : Nat) (ids : List Nat) : World :=
  emit { w with changes := w.changes ++ [b], sets := w.sets ++ [ids] } "ok"

/-- validateVoteMessage -/
def stepD (c : Cfg) (w : World) (id i : Nat) : World :=
  match w.msgs.getD id none with
  | none => emit w "nomsg"
  | some m =>
    let v := getV w i
    if m.set ≠ v.set then emit w "set"
    else if m.round + 1 < v.round || v.round + 1 < m.round then emit w "round"
    else if m.round < v.round then emit w (if m.round = 0 then "err" else "round")
    else if v.round < m.round then emit w "round"
    else if !(members w v.set).contains m.voter then emit w "notvoter"
    else if m.voter = i then emit w "self"
    else if !anc c.ps v.head m.block then emit w "notdesc"
    else if m.stage = 0 ∨ m.stage = 2 then   -- a primary proposal goes to the prevote map (loadVote / the final store)
      let v := { v with rawPv := (m.voter, m.block) :: v.rawPv }
      if v.pve.contains m.voter then emit (setV w i v) "eq"
      else match aget v.pv m.voter with
        | some old =>
          if old ≠ m.block then
            emit (setV w i { v with pve := m.voter :: v.pve, pv := adel v.pv m.voter }) "eq"
          else emit (setV w i v) "ok"
        | none => emit (setV w i { v with pv := aset v.pv m.voter m.block }) "ok"
    else
      let v := { v with rawPc := (m.voter, m.block) :: v.rawPc }
      if v.pce.contains m.voter then emit (setV w i v) "eq"
      else match aget v.pc m.voter with
        | some old =>
          if old ≠ m.block then
            emit (setV w i { v with pce := m.voter :: v.pce, pc := adel v.pc m.voter }) "eq"
          else emit (setV w i v) "ok"
        | none => emit (setV w i { v with pc := aset v.pc m.voter m.block }) "ok"

/-- `getBestFinalCandidate` -/
def bestFinal (c : Cfg) (n : Nat) (v : Voter) : Nat :=
  let prevoted := highest c v.head (sel c n v.pv v.pve)
  let blocks := sel c n v.pc v.pce
  if blocks.isEmpty then prevoted
  else highest c 0 (blocks.map (fun h => if anc c.ps h prevoted then h else lca c h prevoted))

/-- attemptToFinalize, finalise, initiateRound -/
def stepFin (c : Cfg) (w : World) (i : Nat) : World :=
  let v := getV w i
  let mem := members w v.set
  if !mem.contains i then emit w "notauth"
  else if !v.precommitted then emit w "skip"
  else
    let bfc := bestFinal c mem.length v
    if !libFinalises mem.length (total c v.pc v.pce bfc) then emit w "no"
    else
      -- finalising the handover block (or a descendant) enacts the change: updateAuthorities restarts at round 1
      let moves := match w.changes[v.set]? with
        | some x => anc c.ps x bfc
        | none => false
      let v' : Voter :=
        { set := if moves then v.set + 1 else v.set, round := if moves then 1 else v.round + 1,
          head := bfc, best := if anc c.ps bfc v.best then v.best else bfc,
          fins := bfc :: v.fins, prevPv := v.rawPv, prevPc := v.rawPc, hiRound := v.round, hasPrev := true,
          prevSet := v.set }
      let o := s!"fin={showB bfc}"
      if superB c mem v.rawPc bfc then emit (setV w i v') o else emitViol (setV w i v') o false

def step (c : Cfg) (w : World) : Op → World
  | .best i b => stepBest c w i b
  | .pv i => stepPv c w i
  | .pc i => stepPc c w i
  | .pp i => stepPp w i
  | .bv st j t r b => stepBv w st j t r b
  | .chg b ids => stepChg w b ids
  | .d id i => stepD c w id i
  | .fin i => stepFin c w i

def allFins (c : Cfg) (w : World) : List Nat :=
  (List.range c.n).foldl (fun acc i => if c.byz.contains i then acc else acc ++ (getV w i).fins) []

def safeB (c : Cfg) (w : World) : Bool :=
  let fs := allFins c w
  fs.all (fun a => fs.all (fun b => anc c.ps a b || anc c.ps b a))

structure Result where
  model : String
  spec : String
  kf : Option String

def run (c : Cfg) (ops : List Op) : Result :=
  let w0 : World := { vs := List.replicate c.n {}, sets := [List.range c.n] }
  let w := ops.foldl (step c) w0
  let safe := safeB c w
  let cnt := String.intercalate "," (((List.range c.n).filter (fun i => !c.byz.contains i)).map (fun i =>
    let v := getV w i
    s!"{i}:{v.pv.length}.{v.pc.length}.{v.pve.length}.{v.pce.length}"))
  let model := String.intercalate ";" (w.outs.reverse ++ [if safe then "safe=1" else "safe=0", s!"cnt={cnt}"])
  -- what the property demands: every decision inside the rule, and safety under a Byzantine minority
  let specSafe := if w.sets.all c.minority then "safe=1" else (if safe then "safe=1" else "safe=0")
  let spec := String.intercalate ";" (w.spec.reverse ++ [specSafe, s!"cnt={cnt}"])
  let kf := if w.estViol && !w.otherViol then some "c22-prevote-ignores-estimate" else none
  ⟨model, spec, kf⟩

end Gossamer.C22.Sim
