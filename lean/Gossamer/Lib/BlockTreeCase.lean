/-
Case-line parsing and rendering shared by the C15 and C16 drivers (see harness/C15/c15_test.go for the format).
-/
import Gossamer.Base.Proto
import Gossamer.Lib.BlockTree

namespace Gossamer.BlockTreeCase
open Gossamer Gossamer.BlockTree

structure Def where
  parent : Nat
  kind : Option Bool
  arr : Nat
  hash : Nat
  number : Nat
deriving Repr, Inhabited

def kindOf (s : String) : Option (Option Bool) :=
  if s = "p" then some (some true)
  else if s = "s" ∨ s = "v" then some (some false)
  else if s = "n" ∨ s = "x" ∨ s = "g" then some none
  else none

def hash8? (s : String) : Option Nat :=
  if s.length ≠ 8 then none else (ofHex? s).map natOfBE

def parseDef (acc : Array Def) (s : String) : Option Def :=
  match s.splitOn "." with
  | ["r", n, h] => if acc.size ≠ 0 then none else do
      let n ← n.toNat?
      let h ← hash8? h
      pure ⟨0, some false, 0, h, n⟩
  | p :: k :: a :: h :: rest => do
      let p ← p.toNat?
      let k ← kindOf k
      let a ← a.toNat?
      let h ← hash8? h
      if acc.size = 0 ∨ p ≥ acc.size then none
      let num ← match rest with
        | [] => some (acc[p]!.number + 1)
        | [n] => n.toNat?
        | _ => none
      pure ⟨p, k, a, h, num⟩
  | _ => none

def parseDefs (s : String) : Option (Array Def) :=
  (s.splitOn ",").foldlM (fun acc d => do let x ← parseDef acc d; pure (acc.push x)) #[]

def insertSorted (x : Nat) : List Nat → List Nat
  | [] => [x]
  | y :: ys => if x ≤ y then x :: y :: ys else y :: insertSorted x ys

def sortNat (l : List Nat) : List Nat := l.foldr insertSorted []

structure Env where
  defs : Array Def
  bt : BT

def Env.name (e : Env) (h : Hash) : String :=
  match e.defs.findIdx? (fun d => d.hash = h) with
  | some i => toString i
  | none => "?"

def joinOr (sep : String) (l : List String) : String := if l.isEmpty then "-" else sep.intercalate l

def Env.names (e : Env) (hs : List Hash) : String := joinOr "." (hs.map e.name)

def Env.namesSorted (e : Env) (hs : List Hash) : String :=
  let ix := hs.filterMap (fun h => e.defs.findIdx? (fun d => d.hash = h))
  joinOr "." ((sortNat ix).map toString)

def Env.header (e : Env) (i : Nat) : Header :=
  let d := e.defs[i]!
  ⟨d.hash, e.defs[d.parent]!.hash, d.number, d.kind⟩

def Env.best (e : Env) : String :=
  match e.bt.bestBlockHash with
  | .ok h => e.name h
  | .panic => "panic"

def parseIds (s : String) (n : Nat) : Option (List Nat) :=
  if s = "*" then some (List.range n)
  else (s.splitOn ".").mapM (fun f => do let i ← f.toNat?; if i < n then some i else none)

def initEnv (defs : Array Def) : Env :=
  let r := defs[0]!
  ⟨defs, NewBlockTreeFromRoot r.hash r.number 0⟩

/-- first character and the rest of an op -/
def opParts (op : String) : Option (Char × String) :=
  match op.toList with
  | c :: rest => if rest.isEmpty then none else some (c, String.ofList rest)
  | [] => none

end Gossamer.BlockTreeCase
