/-
C20 layer (b), proofs: the loop of `introduceBranch` over the containing vote-nodes.
-/
import Gossamer.Lib.C20GraphAppend
namespace Gossamer.C20

/-- one iteration of the loop of `introduceBranch` -/
def branchStep (ancNum : Nat) (acc : BranchAcc) (d : Nat) : BranchAcc :=
  match acc.entries d with
  | none => acc
  | some e =>
    let prevAnc := e.ancestorNode
    let offset := e.number - ancNum
    let newAnc := e.ancestors.drop offset
    let e' := { e with ancestors := e.ancestors.take offset }
    let ents := fun x => if x = d then some e' else acc.entries x
    let m : Entry × Option Nat := match acc.maybe with
      | none => (⟨ancNum, newAnc, [], 0⟩, prevAnc)
      | some m => m
    { entries := ents,
      maybe := some ({ m.1 with descendants := m.1.descendants ++ [d], cum := m.1.cum ||| e.cum }, m.2) }

/-- the part of `introduceBranch` after the loop -/
def branchFinish (g : Graph) (ancHash : Nat) (acc : BranchAcc) : Graph :=
  match acc.maybe with
  | none => { g with entries := acc.entries }
  | some (ne, prev) =>
    let ents1 : Nat → Option Entry := match prev with
      | none => acc.entries
      | some p =>
        match acc.entries p with
        | none => acc.entries
        | some pe =>
          let ds := pe.descendants.filter (fun d => !ne.descendants.contains d) ++ [ancHash]
          fun x => if x = p then some { pe with descendants := ds } else acc.entries x
    { g with entries := fun x => if x = ancHash then some ne else ents1 x }

theorem introduceBranch_eq (g : Graph) (ds : List Nat) (ancHash ancNum : Nat) :
    g.introduceBranch ds ancHash ancNum =
      branchFinish g ancHash (ds.foldl (branchStep ancNum) ⟨g.entries, none⟩) := rfl

/-- cut the ancestor array at the new vote-node -/
def truncAt (ancNum : Nat) (e : Entry) : Entry :=
  { e with ancestors := e.ancestors.take (e.number - ancNum) }

/-- the loop, once the new entry has been started -/
theorem branch_fold_some (ancNum : Nat) : ∀ (l : List Nat) (acc : BranchAcc) (m : Entry × Option Nat),
    acc.maybe = some m → l.Nodup → (∀ d, d ∈ l → (acc.entries d).isSome = true) →
    (∀ x, (l.foldl (branchStep ancNum) acc).entries x =
        if x ∈ l then (acc.entries x).map (truncAt ancNum) else acc.entries x) ∧
    ∃ ne, (l.foldl (branchStep ancNum) acc).maybe = some (ne, m.2) ∧
      ne.number = m.1.number ∧ ne.ancestors = m.1.ancestors ∧ ne.descendants = m.1.descendants ++ l ∧
      ∀ q, ne.cum.testBit q = (m.1.cum.testBit q ||
        l.any (fun d => match acc.entries d with | some e => e.cum.testBit q | none => false)) := by
  intro l
  induction l with
  | nil =>
    intro acc m hm _ _
    exact ⟨fun x => by simp, m.1, by simp [hm], rfl, rfl, by simp, fun q => by simp⟩
  | cons d l ih =>
    intro acc m hm hnd hex
    obtain ⟨e, he⟩ := Option.isSome_iff_exists.1 (hex d List.mem_cons_self)
    have hdl : d ∉ l := (List.nodup_cons.1 hnd).1
    simp only [List.foldl_cons]
    have hstep : branchStep ancNum acc d =
        { entries := fun x => if x = d then some (truncAt ancNum e) else acc.entries x,
          maybe := some ({ m.1 with descendants := m.1.descendants ++ [d], cum := m.1.cum ||| e.cum }, m.2) } := by
      simp [branchStep, he, hm, truncAt]
    rw [hstep]
    obtain ⟨i1, ne, i2, i3, i4, i5, i6⟩ := ih
      { entries := fun x => if x = d then some (truncAt ancNum e) else acc.entries x,
        maybe := some ({ m.1 with descendants := m.1.descendants ++ [d], cum := m.1.cum ||| e.cum }, m.2) }
      ({ m.1 with descendants := m.1.descendants ++ [d], cum := m.1.cum ||| e.cum }, m.2) rfl
      (List.nodup_cons.1 hnd).2
      (by
        intro x hx
        have : x ≠ d := fun e => hdl (e ▸ hx)
        simp only [this, if_false]
        exact hex x (List.mem_cons_of_mem _ hx))
    refine ⟨?_, ne, i2, i3, i4, by rw [i5]; simp, ?_⟩
    · intro x
      rw [i1 x]
      by_cases hxd : x = d
      · subst hxd
        simp [hdl, he]
      · by_cases hxl : x ∈ l
        · simp [hxd, hxl]
        · simp [hxd, hxl]
    · intro q
      rw [i6 q]
      simp only [Nat.testBit_or, List.any_cons, he]
      have : (l.any fun d' => match (if d' = d then some (truncAt ancNum e) else acc.entries d') with
          | some e => e.cum.testBit q | none => false) =
          (l.any fun d' => match acc.entries d' with | some e => e.cum.testBit q | none => false) := by
        apply Bool.eq_iff_iff.2
        simp only [List.any_eq_true]
        constructor
        · rintro ⟨x, hx, hp⟩
          have : x ≠ d := fun e => hdl (e ▸ hx)
          simp only [this, if_false] at hp
          exact ⟨x, hx, hp⟩
        · rintro ⟨x, hx, hp⟩
          have : x ≠ d := fun e => hdl (e ▸ hx)
          exact ⟨x, hx, by simpa only [this, if_false] using hp⟩
      rw [this, Bool.or_assoc]

/-- the whole loop for a non-empty list of containing vote-nodes -/
theorem branch_fold (ancNum : Nat) (ents : Nat → Option Entry) (d0 : Nat) (l : List Nat) (e0 : Entry)
    (he0 : ents d0 = some e0) (hnd : (d0 :: l).Nodup) (hex : ∀ d, d ∈ d0 :: l → (ents d).isSome = true) :
    (∀ x, ((d0 :: l).foldl (branchStep ancNum) ⟨ents, none⟩).entries x =
        if x ∈ d0 :: l then (ents x).map (truncAt ancNum) else ents x) ∧
    ∃ ne, ((d0 :: l).foldl (branchStep ancNum) ⟨ents, none⟩).maybe = some (ne, e0.ancestorNode) ∧
      ne.number = ancNum ∧ ne.ancestors = e0.ancestors.drop (e0.number - ancNum) ∧
      ne.descendants = d0 :: l ∧
      ∀ q, ne.cum.testBit q =
        (d0 :: l).any (fun d => match ents d with | some e => e.cum.testBit q | none => false) := by
  have hdl : d0 ∉ l := (List.nodup_cons.1 hnd).1
  simp only [List.foldl_cons]
  have hstep : branchStep ancNum ⟨ents, none⟩ d0 =
      { entries := fun x => if x = d0 then some (truncAt ancNum e0) else ents x,
        maybe := some (⟨ancNum, e0.ancestors.drop (e0.number - ancNum), [d0], 0 ||| e0.cum⟩, e0.ancestorNode) } := by
    simp [branchStep, he0, truncAt]
  rw [hstep]
  obtain ⟨i1, ne, i2, i3, i4, i5, i6⟩ := branch_fold_some ancNum l
    { entries := fun x => if x = d0 then some (truncAt ancNum e0) else ents x,
      maybe := some (⟨ancNum, e0.ancestors.drop (e0.number - ancNum), [d0], 0 ||| e0.cum⟩, e0.ancestorNode) }
    (⟨ancNum, e0.ancestors.drop (e0.number - ancNum), [d0], 0 ||| e0.cum⟩, e0.ancestorNode) rfl
    (List.nodup_cons.1 hnd).2
    (by
      intro x hx
      have : x ≠ d0 := fun e => hdl (e ▸ hx)
      simp only [this, if_false]
      exact hex x (List.mem_cons_of_mem _ hx))
  refine ⟨?_, ne, i2, i3, i4, by rw [i5]; simp, ?_⟩
  · intro x
    rw [i1 x]
    by_cases hxd : x = d0
    · subst hxd; simp [hdl, he0]
    · by_cases hxl : x ∈ l
      · simp [hxd, hxl]
      · simp [hxd, hxl]
  · intro q
    rw [i6 q]
    simp only [Nat.testBit_or, Nat.zero_testBit, Bool.false_or, List.any_cons, he0]
    congr 1
    apply Bool.eq_iff_iff.2
    simp only [List.any_eq_true]
    constructor
    · rintro ⟨x, hx, hp⟩
      have : x ≠ d0 := fun e => hdl (e ▸ hx)
      simp only [this, if_false] at hp
      exact ⟨x, hx, hp⟩
    · rintro ⟨x, hx, hp⟩
      have : x ≠ d0 := fun e => hdl (e ▸ hx)
      exact ⟨x, hx, by simpa only [this, if_false] using hp⟩

end Gossamer.C20
