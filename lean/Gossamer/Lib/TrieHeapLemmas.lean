/-
Basic facts about the heap of `TrieHeap`: reads after writes, sizes, reachability.
-/
import Gossamer.Lib.TrieHeap
namespace Gossamer
namespace TrieHeap

namespace Heap

theorem get_of_size_le {hp : Heap} {a : Nat} (h : hp.size ≤ a) : hp.get a = default := by
  unfold get size at *
  rw [Array.getElem?_eq_none (by omega)]; rfl

@[simp] theorem size_alloc (hp : Heap) (n : HNode) : (hp.alloc n).1.size = hp.size + 1 := by
  simp [alloc, size]

@[simp] theorem alloc_snd (hp : Heap) (n : HNode) : (hp.alloc n).2 = hp.size := rfl

theorem get_alloc (hp : Heap) (n : HNode) (a : Nat) :
    (hp.alloc n).1.get a = if a = hp.size then n else hp.get a := by
  unfold alloc get size
  simp only [Array.getElem?_push]
  split <;> simp

theorem get_alloc_lt {hp : Heap} {n : HNode} {a : Nat} (h : a < hp.size) :
    (hp.alloc n).1.get a = hp.get a := by
  rw [get_alloc, if_neg (Nat.ne_of_lt h)]

@[simp] theorem get_alloc_self (hp : Heap) (n : HNode) : (hp.alloc n).1.get hp.size = n := by
  rw [get_alloc, if_pos rfl]

@[simp] theorem size_set (hp : Heap) (a : Nat) (n : HNode) : (hp.set a n).size = hp.size := by
  simp [set, size]

theorem get_set (hp : Heap) (a : Nat) (n : HNode) (b : Nat) :
    (hp.set a n).get b = if b = a ∧ a < hp.size then n else hp.get b := by
  unfold set get size
  simp only [Array.getElem?_setIfInBounds]
  by_cases h : a = b
  · subst h
    by_cases h2 : a < hp.cells.size
    · simp [h2]
    · simp only [h2, and_false, if_false, if_true]
      rw [Array.getElem?_eq_none (Nat.le_of_not_lt h2)]
  · have : ¬ (b = a) := fun e => h e.symm
    simp [h, this]

theorem get_set_ne {hp : Heap} {a b : Nat} (n : HNode) (h : b ≠ a) : (hp.set a n).get b = hp.get b := by
  rw [get_set, if_neg (fun c => h c.1)]

theorem get_set_self {hp : Heap} {a : Nat} (n : HNode) (h : a < hp.size) : (hp.set a n).get a = n := by
  rw [get_set, if_pos ⟨rfl, h⟩]

theorem set_oob {hp : Heap} {a : Nat} (n : HNode) (h : hp.size ≤ a) : hp.set a n = hp := by
  cases hp with
  | mk cells =>
    have h3 : cells.size ≤ a := h
    show Heap.mk (cells.setIfInBounds a n) = Heap.mk cells
    congr 1
    apply Array.ext
    · simp
    · intro i h1 h2
      have : ¬ (a = i) := fun e => by subst e; exact absurd h2 (Nat.not_lt.mpr h3)
      rw [Array.getElem_setIfInBounds (hj := h2)]
      simp [this]

@[simp] theorem size_modify (hp : Heap) (a : Nat) (f : HNode → HNode) : (hp.modify a f).size = hp.size := by
  simp [modify]

theorem get_modify (hp : Heap) (a : Nat) (f : HNode → HNode) (b : Nat) :
    (hp.modify a f).get b = if b = a ∧ a < hp.size then f (hp.get a) else hp.get b := by
  simp [modify, get_set]

theorem get_modify_ne {hp : Heap} {a b : Nat} (f : HNode → HNode) (h : b ≠ a) :
    (hp.modify a f).get b = hp.get b := by
  rw [get_modify, if_neg (fun c => h c.1)]

theorem modify_oob {hp : Heap} {a : Nat} (f : HNode → HNode) (h : hp.size ≤ a) : hp.modify a f = hp := by
  simp [modify, set_oob _ h]

end Heap

/-- the fields of a cell other than the hashing caches `Dirty` and `MerkleValue` -/
def HNode.strip (n : HNode) : HNode := { n with dirty := false, mv := none }

@[simp] theorem strip_mv (n : HNode) (m : Option Bytes) : ({ n with mv := m } : HNode).strip = n.strip := rfl
@[simp] theorem strip_dirty (n : HNode) (d : Bool) : ({ n with dirty := d } : HNode).strip = n.strip := rfl
@[simp] theorem strip_setDirty (n : HNode) : n.setDirty.strip = n.strip := rfl

theorem strip_gen {n m : HNode} (h : n.strip = m.strip) : n.gen = m.gen := by
  have := congrArg HNode.gen h; simpa [HNode.strip] using this
theorem strip_kids {n m : HNode} (h : n.strip = m.strip) : n.kids = m.kids := by
  have := congrArg HNode.kids h; simpa [HNode.strip] using this
theorem strip_isBranch {n m : HNode} (h : n.strip = m.strip) : n.isBranch = m.isBranch := by
  have := congrArg HNode.isBranch h; simpa [HNode.strip] using this
theorem strip_pk {n m : HNode} (h : n.strip = m.strip) : n.pk = m.pk := by
  have := congrArg HNode.pk h; simpa [HNode.strip] using this
theorem strip_val {n m : HNode} (h : n.strip = m.strip) : n.val = m.val := by
  have := congrArg HNode.val h; simpa [HNode.strip] using this
theorem strip_mbh {n m : HNode} (h : n.strip = m.strip) : n.mbh = m.mbh := by
  have := congrArg HNode.mbh h; simpa [HNode.strip] using this

/-- `b` is reachable from `a` through child pointers (reflexive) -/
inductive Reach (hp : Heap) : Nat → Nat → Prop where
  | refl (a : Nat) : Reach hp a a
  | step {a c b : Nat} (i : Nib) : (hp.get a).kids i = some c → Reach hp c b → Reach hp a b

theorem Reach.trans {hp : Heap} {a b c : Nat} (h1 : Reach hp a b) (h2 : Reach hp b c) : Reach hp a c := by
  induction h1 with
  | refl => exact h2
  | step i hk _ ih => exact Reach.step i hk (ih h2)

theorem Reach.tail {hp : Heap} {a b c : Nat} (i : Nib) (h1 : Reach hp a b)
    (hk : (hp.get b).kids i = some c) : Reach hp a c :=
  h1.trans (Reach.step i hk (Reach.refl c))

/-- reachability from an optional root -/
def ReachO (hp : Heap) : Option Nat → Nat → Prop
  | none, _ => False
  | some r, a => Reach hp r a

/-- reachability only depends on the child pointers of the cells passed through -/
theorem Reach.mono {hp hp' : Heap} {a b : Nat} (h : Reach hp a b)
    (hk : ∀ x, Reach hp a x → (hp'.get x).kids = (hp.get x).kids) : Reach hp' a b := by
  induction h with
  | refl => exact Reach.refl _
  | @step a c b i hki _ ih =>
    have h1 : (hp'.get a).kids i = some c := by rw [hk a (Reach.refl a)]; exact hki
    exact Reach.step i h1 (ih (fun x hx => hk x (Reach.step i hki hx)))

end TrieHeap
end Gossamer
