/-
C20 layer (b), proofs: the merge loop under the `forceConstrain` of `FindGHOST` (only the vote-nodes that contain
the current best block take part): it climbs to the current best block and continues from there.
-/
import Gossamer.Lib.C20GraphMergeLoop
namespace Gossamer.C20

variable {t : Tree}

/-- `L` = the entries of the vote-nodes that contain the non-node `hb`; none meets the condition alone -/
structure CInv (t : Tree) (ins : Ins) (g : Graph) (cond : Mask → Bool) (hb : Nat) (L : List Entry) : Prop where
  sound : ∀ e, e ∈ L → ∃ d, g.entries d = some e ∧ Containing t ins hb d
  compl : ∀ d, Containing t ins hb d → ∃ e, e ∈ L ∧ g.entries d = some e
  fail : ∀ e, e ∈ L → cond e.cum = false

theorem cinv_cum (h : t.WF) {ins : Ins} {g : Graph} (inv : GInv t ins g) (key : Nat → Nat)
    {cond : Mask → Bool} {hb : Nat} {L : List Entry} (ci : CInv t ins g cond hb L)
    (hN : isNode ins hb = false) : orCum L 0 = cumOf t ins hb := by
  obtain ⟨R, _, _, hR⟩ := (findContaining_spec h inv key hb).2 hN
  apply Nat.eq_of_testBit_eq
  intro q
  rw [orCum_testBit, Nat.zero_testBit, Bool.false_or, cum_containing h inv hN R hR q]
  apply Bool.eq_iff_iff.2
  simp only [List.any_eq_true]
  constructor
  · rintro ⟨e, he, hq⟩
    obtain ⟨d, hd, hc⟩ := ci.sound e he
    exact ⟨d, (hR d).2 hc, by rw [← inv.cum d e hd]; exact hq⟩
  · rintro ⟨d, hdR, hq⟩
    obtain ⟨e, heL, hd⟩ := ci.compl d ((hR d).1 hdR)
    exact ⟨e, heL, by rw [inv.cum d e hd]; exact hq⟩

/-- the blocks of an edge are numbered from the nearest vote-node above upwards -/
theorem edge_num_ge (h : t.WF) {N : Nat → Bool} {d a x : Nat} (ha : ancNode t N d = some a)
    (hx : x ∈ edge t N d) : t.num a ≤ t.num x := by
  have hlen := edge_length h ha
  obtain ⟨i, hi⟩ := List.getElem?_of_mem hx
  have := edge_num h hi
  have hil : i < (edge t N d).length := by
    rcases Nat.lt_or_ge i (edge t N d).length with h1 | h1
    · exact h1
    · rw [List.getElem?_eq_none h1] at hi; cases hi
  omega

theorem mergeLoop_constrained (h : t.WF) {ins : Ins} {g : Graph} (inv : GInv t ins g) (key : Nat → Nat)
    {cond : Mask → Bool} (hm : MonoCond cond) {hb : Nat} {L : List Entry} (ci : CInv t ins g cond hb L)
    (hN : isNode ins hb = false) (hlt : hb < t.size) (hok : cond (cumOf t ins hb) = true)
    (hin : inGraph (cumOf t ins) hb = true) (h2 : 2 ≤ L.length) :
    ∀ (f B : Nat), B ∈ t.chain hb → (∀ d, Containing t ins hb d → B ∈ edge t (isNode ins) d) →
    t.size ≤ f + t.num B →
    ∃ D, mergeLoop cond f L B (t.num B) = (D, t.num D) ∧ Top t (cumOf t ins) cond hb D := by
  have N0 := isNode_zero ins
  intro f
  induction f with
  | zero =>
    intro B hB _ hf
    have := Tree.num_le_self h B
    have := Tree.mem_chain_le h _ _ hB
    omega
  | succ f ih =>
    intro B hB hall hf
    by_cases hBh : B = hb
    · subst hBh
      have ml : MLInv t ins g cond B L := by
        refine ⟨?_, ?_, ci.fail⟩
        · intro e he
          obtain ⟨d, hd, hc⟩ := ci.sound e he
          exact ⟨d, hd, hc.2⟩
        · intro d hd hBd
          exact ci.compl d ⟨hd, hBd⟩
      exact mergeLoop_top h inv key hm (f + 1) B L ml hlt hin hok hf
    · obtain ⟨X, hXc, hX0, hXp⟩ := Tree.child_towards h hb B hB hBh
      have hXpos : 0 < X := by omega
      have hXn : t.num X = t.num B + 1 := by rw [Tree.num_pos h hXpos, hXp]
      -- every entry of `L` passes through `X`
      have hXall : ∀ d, Containing t ins hb d → X ∈ edge t (isNode ins) d := by
        intro d hc
        have hdpos : 0 < d := by
          rcases Nat.eq_zero_or_pos d with hz | hz
          · subst hz; have := hc.2; simp [edge_zero] at this
          · exact hz
        obtain ⟨a, ha, _, _⟩ := ancNode_some h N0 hdpos
        have hhd : hb ∈ t.chain d := edge_mem_chain h hc.2
        have hXd : X ∈ t.chain d := Tree.le_trans h hXc hhd
        have hne : X ≠ d := by
          intro e
          have h1 := Tree.num_le_of_mem h hXc
          have h3 := containing_num h hc
          rw [e] at h1; omega
        have := edge_num_ge h ha (hall d hc)
        exact mem_edge_of_between h ha hXd hne (by omega)
      have hab : ∀ e, e ∈ L → e.ancestorBlock (t.num B + 1) = some X := by
        intro e he
        obtain ⟨d, hd, hc⟩ := ci.sound e he
        exact (ancestorBlock_spec h (inv.number d e hd) (inv.anc d e hd) _ X).2 ⟨hXall d hc, hXn⟩
      have hthru : thru (t.num B + 1) X L = L := by
        unfold thru
        apply List.filter_eq_self.2
        intro e he
        rw [hab e he]; simp
      have hcorr : BlocksCorr [] (fun _ => none) := fun x => by simp
      simp only [mergeLoop]
      rw [mergePass_eq cond (t.num B + 1) L [] (fun _ => none) hcorr]
      cases hmp : mergePassF cond (t.num B + 1) L (fun _ => none) with
      | none =>
        exfalso
        have := mergePassF_none (cond := cond) (t.num B + 1) L (fun _ => none) hmp X
          (Or.inr (by rw [hthru]; exact h2))
        simp only [Option.getD_none] at this
        rw [hthru, cinv_cum h inv key ci hN, hok] at this
        cases this
      | some X' =>
        obtain ⟨e, heL, heX⟩ := mergePassF_origin cond _ L _ X' hmp
        rw [hab e heL] at heX
        have hXX : X = X' := Option.some.inj heX
        subst hXX
        simp only
        have hfil : L.filter (fun d => d.inDirectAncestry X (t.num B + 1) == some true) = L := by
          apply List.filter_eq_self.2
          intro e' he'
          obtain ⟨d, hd, hc⟩ := ci.sound e' he'
          have := (inDirectAncestry_true h (inv.number d e' hd) (inv.anc d e' hd) X).2 (hXall d hc)
          rw [hXn] at this
          simp [this]
        rw [hfil]
        have := ih X hXc hXall (by omega)
        rw [hXn] at this
        exact this

end Gossamer.C20
