/-
C20: the bookkeeping of the round (vote trackers, current weights, equivocation bits, cumulative vote bits)
after importing ANY list of votes, characterised by membership facts about that list.
-/
import Gossamer.Lib.C20Spec
import Gossamer.Lib.C20Sum
import Gossamer.Lib.C20Tree
namespace Gossamer.C20

/-! ### masks -/

theorem testBit_setBit (m p i : Nat) : (setBit m p).testBit i = (m.testBit i || decide (p = i)) := by
  simp [setBit, Nat.testBit_or, Nat.one_shiftLeft, Nat.testBit_two_pow]

theorem bitPos_inj {v v' : Nat} {ph ph' : Bool} :
    bitPos v (phN ph) = bitPos v' (phN ph') ↔ v = v' ∧ ph = ph' := by
  unfold bitPos phN
  cases ph <;> cases ph' <;> simp <;> omega

theorem mask_ne_zero {m : Nat} : m ≠ 0 ↔ ∃ i, m.testBit i = true := by
  constructor
  · intro h
    apply Classical.byContradiction
    intro hn
    apply h
    apply Nat.eq_of_testBit_eq
    intro i
    rw [Nat.zero_testBit]
    cases hb : m.testBit i
    · rfl
    · exact absurd ⟨i, hb⟩ hn
  · rintro ⟨i, hi⟩ h0
    subst h0
    simp at hi

/-- every bit position is the position of some voter in some phase -/
theorem pos_as_bitPos (i : Nat) : ∃ v ph, i = bitPos v (phN ph) := by
  refine ⟨i / 2, decide (i % 2 = 1), ?_⟩
  unfold bitPos phN
  by_cases h : i % 2 = 1 <;> simp [h] <;> omega

/-! ### one voter's tracker slot as a function of its votes in import order -/

def trkOf (l : List SV) : Option VM := l.foldl (fun s sv => (addVote s sv).2) none

theorem trkOf_append (l : List SV) (sv : SV) : trkOf (l ++ [sv]) = (addVote (trkOf l) sv).2 := by
  simp [trkOf, List.foldl_append]

/-- two different elements -/
def distinct2 (l : List SV) : Prop := ∃ a, a ∈ l ∧ ∃ b, b ∈ l ∧ a ≠ b

def TrkSpec (l : List SV) : Option VM → Prop
  | none => l = []
  | some (.single a) => l.head? = some a ∧ ∀ x, x ∈ l → x = a
  | some (.equiv a b) => l.head? = some a ∧ a ≠ b ∧ b ∈ l

theorem TrkSpec_step {l : List SV} {s : Option VM} (h : TrkSpec l s) (sv : SV) :
    TrkSpec (l ++ [sv]) (addVote s sv).2 := by
  match s, h with
  | none, h =>
    simp only [TrkSpec] at h
    subst h
    simp [addVote, TrkSpec]
  | some (.single a), h =>
    obtain ⟨hh, hall⟩ := h
    simp only [addVote]
    by_cases heq : a = sv
    · subst heq
      simp only [if_true, TrkSpec]
      refine ⟨by simp [List.head?_append, hh], ?_⟩
      intro x hx
      rcases List.mem_append.1 hx with hx | hx
      · exact hall x hx
      · simpa using hx
    · simp only [heq, if_false, TrkSpec]
      exact ⟨by simp [List.head?_append, hh], heq, by simp⟩
  | some (.equiv a b), h =>
    obtain ⟨hh, hne, hb⟩ := h
    simp only [addVote]
    by_cases heq : a = sv ∨ b = sv
    · simp only [heq, if_true, TrkSpec]
      exact ⟨by simp [List.head?_append, hh], hne, List.mem_append_left _ hb⟩
    · simp only [heq, if_false, TrkSpec]
      exact ⟨by simp [List.head?_append, hh], hne, List.mem_append_left _ hb⟩

theorem trkOf_spec (l : List SV) : TrkSpec l (trkOf l) := by
  have key : ∀ (rest pre : List SV) (s : Option VM), TrkSpec pre s →
      TrkSpec (pre ++ rest) (rest.foldl (fun s sv => (addVote s sv).2) s) := by
    intro rest
    induction rest with
    | nil => intro pre s h; simpa using h
    | cons x rest ih =>
      intro pre s h
      have := ih (pre ++ [x]) _ (TrkSpec_step h x)
      simpa [List.append_assoc] using this
  have := key l [] none (by simp [TrkSpec])
  simpa [trkOf] using this

theorem trkOf_none {l : List SV} : trkOf l = none ↔ l = [] := by
  constructor
  · intro h; have := trkOf_spec l; rw [h] at this; exact this
  · intro h; subst h; rfl

/-- the head of the list is what the slot remembers as first vote -/
theorem trkOf_head {l : List SV} {a : SV} (h : l.head? = some a) :
    (∃ b, trkOf l = some (.equiv a b)) ∨ trkOf l = some (.single a) := by
  have hs := trkOf_spec l
  match hl : trkOf l, hs with
  | none, hs => simp only [TrkSpec] at hs; subst hs; simp at h
  | some (.single a'), hs =>
    have : a' = a := by have := hs.1; rw [h] at this; exact (Option.some.inj this).symm
    subst this; exact Or.inr rfl
  | some (.equiv a' b), hs =>
    have : a' = a := by have := hs.1; rw [h] at this; exact (Option.some.inj this).symm
    subst this; exact Or.inl ⟨b, rfl⟩

theorem trkOf_equiv_iff (l : List SV) : (∃ a b, trkOf l = some (.equiv a b)) ↔ distinct2 l := by
  have hs := trkOf_spec l
  constructor
  · rintro ⟨a, b, h⟩
    rw [h] at hs
    obtain ⟨hh, hne, hb⟩ := hs
    have ha : a ∈ l := by
      cases l with
      | nil => simp at hh
      | cons x xs => simp at hh; subst hh; simp
    exact ⟨a, ha, b, hb, hne⟩
  · rintro ⟨a, ha, b, hb, hne⟩
    match hl : trkOf l, hs with
    | none, hs => simp only [TrkSpec] at hs; subst hs; simp at ha
    | some (.single c), hs =>
      exact absurd ((hs.2 a ha).trans (hs.2 b hb).symm) hne
    | some (.equiv c d), _ => exact ⟨c, d, rfl⟩

/-! ### spec-side list facts -/

theorem votesOf_append (ops : List Op) (o : Op) (ph : Bool) (v : Nat) :
    votesOf (ops ++ [o]) ph v = votesOf ops ph v ++ (if o.ph = ph ∧ o.v = v then [o.sv] else []) := by
  unfold votesOf
  rw [List.filter_append, List.map_append]
  congr 1
  by_cases h : o.ph = ph ∧ o.v = v
  · simp [h]
  · have : (o.ph == ph && o.v == v) = false := by
      rcases Classical.not_and_iff_not_or_not.1 h with h | h <;> simp [h]
    simp [h, this]

theorem isEquiv_iff (ops : List Op) (ph : Bool) (v : Nat) :
    isEquiv ops ph v = true ↔ distinct2 (votesOf ops ph v) := by
  simp [isEquiv, distinct2, List.any_eq_true]

theorem hasVote_iff (ops : List Op) (ph : Bool) (v : Nat) :
    hasVote ops ph v = true ↔ votesOf ops ph v ≠ [] := by
  simp [hasVote]

/-- the voter's first imported vote of the phase is for a block ≥ B -/
def firstGE (t : Tree) (ops : List Op) (ph : Bool) (v B : Nat) : Bool :=
  match (votesOf ops ph v).head? with
  | some sv => decide (sv.blk < t.size) && t.le B sv.blk
  | none => false

/-- "equivocates or votes ≥ B" only needs the first vote -/
theorem equiv_or_votesGE (t : Tree) (ops : List Op) (ph : Bool) (v B : Nat) :
    (isEquiv ops ph v || votesGE t ops ph v B) = (isEquiv ops ph v || firstGE t ops ph v B) := by
  cases he : isEquiv ops ph v
  · simp only [Bool.false_or]
    have hne : ¬ distinct2 (votesOf ops ph v) := by
      intro h; rw [(isEquiv_iff ops ph v).2 h] at he; exact Bool.noConfusion he
    unfold votesGE firstGE
    cases hl : votesOf ops ph v with
    | nil => simp
    | cons a l =>
      have hall : ∀ x, x ∈ a :: l → x = a := by
        intro x hx
        apply Classical.byContradiction
        intro hxa
        exact hne ⟨x, hl ▸ hx, a, hl ▸ List.mem_cons_self, hxa⟩
      simp only [List.head?_cons]
      apply Bool.eq_iff_iff.2
      rw [List.any_eq_true]
      constructor
      · rintro ⟨x, hx, hp⟩
        rw [hall x hx] at hp; exact hp
      · intro hp
        exact ⟨a, List.mem_cons_self, hp⟩
  · simp

/-! ### projections of `importVote` on the bookkeeping fields -/

theorem update_book (t : Tree) (ws : List Nat) (r : Round) :
    (update t ws r).trk = r.trk ∧ (update t ws r).cur = r.cur ∧ (update t ws r).eqv = r.eqv ∧
    (update t ws r).cum = r.cum ∧ (update t ws r).ghost = r.ghost ∧ (update t ws r).pcGhost = r.pcGhost := by
  unfold update
  simp only
  split
  · simp
  · split
    · simp
    · split <;> simp

theorem ghostStep_book (t : Tree) (ws : List Nat) (ph : Bool) (r : Round) :
    (ghostStep t ws ph r).trk = r.trk ∧ (ghostStep t ws ph r).cur = r.cur ∧
    (ghostStep t ws ph r).eqv = r.eqv ∧ (ghostStep t ws ph r).cum = r.cum := by
  unfold ghostStep
  split <;> simp

/-- is the slot a `single` whose vote differs from `sv` (⇒ this import is the first equivocation) -/
def firstEquivocation (s : Option VM) (sv : SV) : Bool :=
  match s with
  | some (.single a) => decide (a ≠ sv)
  | _ => false

theorem importVote_book (t : Tree) (ws : List Nat) (r : Round) (ph : Bool) (v : Nat) (sv : SV)
    (hv : v < ws.length) :
    let r' := (importVote t ws r ph v sv).2
    r'.trk = (fun p u => if p = ph ∧ u = v then (addVote (r.trk ph v) sv).2 else r.trk p u) ∧
    r'.cur = (fun p => if p = ph ∧ r.trk ph v = none then r.cur p + ws.getD v 0 else r.cur p) ∧
    r'.eqv = (if firstEquivocation (r.trk ph v) sv then setBit r.eqv (bitPos v (phN ph)) else r.eqv) ∧
    r'.cum = (if r.trk ph v = none ∧ sv.blk < t.size then insert t r.cum sv.blk (bitPos v (phN ph)) else r.cum) := by
  have hv' : ¬ v ≥ ws.length := by omega
  simp only [importVote, hv', if_false]
  match hs : r.trk ph v with
  | none =>
    simp only [addVote, firstEquivocation]
    by_cases hb : sv.blk ≥ t.size
    · have hb' : ¬ sv.blk < t.size := by omega
      simp [hb, hb']
    · have hb' : sv.blk < t.size := by omega
      simp only [hb, if_false]
      obtain ⟨h1, h2, h3, h4, _, _⟩ := update_book t ws (ghostStep t ws ph
        { r with trk := fun p u => if p = ph ∧ u = v then some (.single sv) else r.trk p u,
                 cur := fun p => if p = ph then r.cur p + ws.getD v 0 else r.cur p,
                 cum := insert t r.cum sv.blk (bitPos v (phN ph)) })
      obtain ⟨g1, g2, g3, g4⟩ := ghostStep_book t ws ph
        { r with trk := fun p u => if p = ph ∧ u = v then some (.single sv) else r.trk p u,
                 cur := fun p => if p = ph then r.cur p + ws.getD v 0 else r.cur p,
                 cum := insert t r.cum sv.blk (bitPos v (phN ph)) }
      rw [h1, h2, h3, h4, g1, g2, g3, g4]
      simp [hb']
  | some (.single a) =>
    simp only [addVote, firstEquivocation]
    by_cases heq : a = sv
    · subst heq
      simp only [if_true]
      refine ⟨?_, by simp, by simp, by simp⟩
      funext p u
      by_cases hpu : p = ph ∧ u = v
      · obtain ⟨rfl, rfl⟩ := hpu; simp [hs]
      · simp [hpu]
    · simp only [heq, if_false]
      obtain ⟨h1, h2, h3, h4, _, _⟩ := update_book t ws (ghostStep t ws ph
        { r with trk := fun p u => if p = ph ∧ u = v then some (.equiv a sv) else r.trk p u,
                 eqv := setBit r.eqv (bitPos v (phN ph)) })
      obtain ⟨g1, g2, g3, g4⟩ := ghostStep_book t ws ph
        { r with trk := fun p u => if p = ph ∧ u = v then some (.equiv a sv) else r.trk p u,
                 eqv := setBit r.eqv (bitPos v (phN ph)) }
      rw [h1, h2, h3, h4, g1, g2, g3, g4]
      simp [heq]
  | some (.equiv a b) =>
    simp only [addVote, firstEquivocation]
    by_cases heq : a = sv ∨ b = sv
    · simp only [heq, if_true]
      refine ⟨?_, by simp, by simp, by simp⟩
      funext p u
      by_cases hpu : p = ph ∧ u = v
      · obtain ⟨rfl, rfl⟩ := hpu; simp [hs]
      · simp [hpu]
    · simp only [heq, if_false]
      refine ⟨?_, by simp, by simp, by simp⟩
      funext p u
      by_cases hpu : p = ph ∧ u = v
      · obtain ⟨rfl, rfl⟩ := hpu; simp [hs]
      · simp [hpu]

theorem importVote_notVoter (t : Tree) (ws : List Nat) (r : Round) (ph : Bool) (v : Nat) (sv : SV)
    (hv : ¬ v < ws.length) : (importVote t ws r ph v sv).2 = r := by
  have : v ≥ ws.length := by omega
  simp [importVote, this]

end Gossamer.C20
