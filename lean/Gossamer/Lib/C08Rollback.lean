/-
C08: rollback restores the state exactly — for EVERY backend (the proof never looks at the trie):
inside a transaction every operation changes only the innermost diff; `start` pushes a copy,
`commit` of an inner transaction replaces the parent, `rollback` pops.
-/
import Gossamer.Model.C08
namespace Gossamer.C08
open Gossamer

/-- transaction-control operations -/
def isTx : Op → Bool
  | .start => true
  | .commit => true
  | .rollback => true
  | _ => false

/-- nesting depth after `xs`, relative to a transaction that is open when `xs` starts (depth 0 =
    that transaction is the innermost); `none` when `xs` closes that transaction itself -/
def walk : Nat → List Op → Option Nat
  | d, [] => some d
  | d, op :: r =>
    match op with
    | .start => walk (d + 1) r
    | .commit => match d with | 0 => none | d' + 1 => walk d' r
    | .rollback => match d with | 0 => none | d' + 1 => walk d' r
    | _ => walk d r

/-- every `start` in `xs` is closed inside `xs`, nothing else is closed -/
def Balanced (xs : List Op) : Prop := walk 0 xs = some 0

section
variable {β τ : Type} (B : Backend β τ) (D : Dumper β) (ord : Diff → ApplyOrder)

/-- inside a transaction an operation other than start/commit/rollback only touches the
    innermost diff -/
theorem stepTS_frame (base : β) (t : Diff) (r : List Diff) (op : Op) (hop : isTx op = false) :
    ∃ t', (stepTS B D ord { base := base, txs := t :: r } op).1 = { base := base, txs := t' :: r } := by
  cases op <;> simp only [isTx] at hop <;> try (exact absurd hop (by decide))
  all_goals simp only [stepTS, putTS, deleteTS, clearPrefixTS, clearPrefixLimitTS,
    setChildStorageTS, clearChildStorageTS, clearPrefixInChildTS, clearPrefixInChildLimitTS,
    deleteChildTS, deleteChildLimitTS]
  all_goals first
    | exact ⟨_, rfl⟩
    | (split <;> first | exact ⟨_, rfl⟩ | (split <;> exact ⟨_, rfl⟩))

theorem step_start (base : β) (txs : List Diff) :
    (stepTS B D ord { base := base, txs := txs } .start).1 =
      { base := base, txs := (txs.head?.getD Diff.empty) :: txs } := rfl

theorem step_rollback (base : β) (t : Diff) (r : List Diff) :
    (stepTS B D ord { base := base, txs := t :: r } .rollback).1 = { base := base, txs := r } := rfl

theorem step_commit_inner (base : β) (t u : Diff) (r : List Diff) :
    (stepTS B D ord { base := base, txs := t :: u :: r } .commit).1 =
      { base := base, txs := t :: r } := rfl

/-- frame lemma for whole op lists: while the walk stays inside the transaction that was
    innermost-but-`d` at the beginning, the committed trie and the transactions below it are
    untouched and exactly `d' + 1` diffs sit on top of them -/
theorem run_frame (xs : List Op) : ∀ (d d' : Nat) (base : β) (pre rest : List Diff),
    pre.length = d + 1 → walk d xs = some d' →
    ∃ pre', pre'.length = d' + 1 ∧
      (runTS B D ord { base := base, txs := pre ++ rest } xs).1 = { base := base, txs := pre' ++ rest } := by
  induction xs with
  | nil =>
    intro d d' base pre rest hl hw
    simp only [walk, Option.some.injEq] at hw
    subst hw
    exact ⟨pre, hl, rfl⟩
  | cons op r ih =>
    intro d d' base pre rest hl hw
    match pre, hl with
    | t :: pre0, hl =>
      simp only [List.length_cons, Nat.add_right_cancel_iff] at hl
      cases hop : isTx op with
      | false =>
        -- ordinary operation
        have hw' : walk d r = some d' := by
          cases op <;> first | exact hw | (simp [isTx] at hop)
        obtain ⟨t', ht'⟩ := stepTS_frame B D ord base t (pre0 ++ rest) op hop
        obtain ⟨pre', hl', hr⟩ := ih d d' base (t' :: pre0) rest (by simp [hl]) hw'
        refine ⟨pre', hl', ?_⟩
        simp only [runTS, List.cons_append]
        rw [ht']
        exact hr
      | true =>
        cases op <;> first | (simp [isTx] at hop; done) | skip
        · -- start
          simp only [walk] at hw
          obtain ⟨pre', hl', hr⟩ := ih (d + 1) d' base (t :: t :: pre0) rest (by simp [hl]) hw
          refine ⟨pre', hl', ?_⟩
          simp only [runTS, List.cons_append, step_start, List.head?_cons, Option.getD_some]
          exact hr
        · -- commit
          cases d with
          | zero => simp [walk] at hw
          | succ d0 =>
            simp only [walk] at hw
            match pre0, hl with
            | u :: pre1, hl =>
              simp only [List.length_cons, Nat.add_right_cancel_iff] at hl
              obtain ⟨pre', hl', hr⟩ := ih d0 d' base (t :: pre1) rest (by simp [hl]) hw
              refine ⟨pre', hl', ?_⟩
              simp only [runTS, List.cons_append, step_commit_inner]
              exact hr
        · -- rollback
          cases d with
          | zero => simp [walk] at hw
          | succ d0 =>
            simp only [walk] at hw
            obtain ⟨pre', hl', hr⟩ := ih d0 d' base pre0 rest hl hw
            refine ⟨pre', hl', ?_⟩
            simp only [runTS, List.cons_append, step_rollback]
            exact hr

/-- A rollback restores exactly the state at the matching start, at any nesting depth and
    whatever happened in between (nested transactions that were committed or rolled back,
    panicking calls, limits, child-trie operations). -/
theorem rollback_exact (s : TS β) (xs : List Op) (hb : Balanced xs) :
    (runTS B D ord s ([Op.start] ++ xs ++ [Op.rollback])).1 = s := by
  obtain ⟨base, txs⟩ := s
  have h1 : ∀ (a : TS β) (l1 l2 : List Op),
      (runTS B D ord a (l1 ++ l2)).1 = (runTS B D ord (runTS B D ord a l1).1 l2).1 := by
    intro a l1
    induction l1 generalizing a with
    | nil => intro l2; rfl
    | cons o r ih => intro l2; simp only [List.cons_append, runTS]; exact ih _ l2
  rw [h1, h1]
  simp only [runTS, step_start]
  obtain ⟨pre', hl', hr⟩ :=
    run_frame B D ord xs 0 0 base [txs.head?.getD Diff.empty] txs (by simp) hb
  simp only [List.singleton_append] at hr
  rw [hr]
  match pre', hl' with
  | [t], _ => simp only [List.singleton_append, step_rollback]

end

end Gossamer.C08
