/-
C04, write side: `writeDirtyNode` on a represented, cache-coherent sub-trie stores it (`wd_main`).
-/
import Gossamer.Lib.C04Write
namespace Gossamer
namespace TrieHeap
open Trie TrieCodec

theorem wdF_none (c : Ctx) (f : Nat) (s : Heap × DB) : writeDirtyF c f s none = s := by
  cases f <;> rfl

/-- what is known after the encoding phase of `writeDirtyNode` at the dirty cell `a` -/
structure AfterEnc (H : Bytes → Bytes) (c : Ctx) (s : Heap × DB) (t : Trie) (N : Node) (a : Nat)
    (hpA : Heap) : Prop where
  dt : DT s.1 hpA (depth t)
  mv : (hpA.get a).mv = some (flav H c a N)
  lt : a < hpA.size

theorem afterEnc_of {H : Bytes → Bytes} {c : Ctx} {s : Heap × DB} {t : Trie} {N : Node} {a : Nat} {hp1 : Heap}
    (hr : HRep s.1 t N a) (hd : (s.1.get a).dirty = true) (hdt : DT s.1 hp1 (depth t)) :
    AfterEnc H c s t N a (hp1.modify a (fun x => { x with mv := some (flav H c a N) })) := by
  have hlt : a < hp1.size := by rw [hdt.frame.size]; exact dirty_lt hd
  have hd1 : (hp1.get a).dirty = true := by rw [(hdt.frame.strip a).2]; exact hd
  refine ⟨hdt.trans (DT.modify_mv hd1 _ (hrep_dframe hdt.frame _ _ _ hr) (Nat.le_refl _)), ?_, by simpa using hlt⟩
  rw [Heap.get_modify, if_pos ⟨rfl, hlt⟩]

/-- the cell `a` is not touched by work on strictly lower sub-tries -/
theorem untouched_of_lower {hp hp' : Heap} {t : Trie} {N : Node} {a : Nat} {d : Nat} (hr : HRep hp t N a)
    (tc : Touch hp hp' d) (hd : d < depth t) : hp'.get a = hp.get a := by
  rcases tc a with e | ⟨t', N', h1, h2⟩
  · exact e
  · obtain ⟨rfl, _⟩ := HRep.func _ _ _ _ _ h1 hr
    omega

/-- the loop of `writeDirtyNode` over the children of a branch -/
theorem wd_fold (H : Bytes → Bytes) (c : Ctx) (ks : Nib → Option Nat) (cs : Nib → Trie) (kn : Nib → Node)
    (dk : Nat) (rec : Heap × DB → Option Nat → Heap × DB) (sA : Heap × DB)
    (hkid : ∀ i x, ks i = some x → HRep sA.1 (cs i) (kn i) x ∧ Coh H (Mem sA.2) sA.1 false (cs i) (kn i) x ∧
      depth (cs i) ≤ dk ∧ (c.troot == some x) = false ∧ RootAbove c sA.1 (cs i))
    (hrec : ∀ i x (s : Heap × DB), ks i = some x → HRep s.1 (cs i) (kn i) x →
      Coh H (Mem s.2) s.1 false (cs i) (kn i) x → RootAbove c s.1 (cs i) →
      WD H c s (rec s (some x)) ∧ Touch s.1 (rec s (some x)).1 (depth (cs i)) ∧
        ((rec s (some x)).1.get x).dirty = false)
    (hnone : ∀ s, rec s none = s) :
    WD H c sA (wdKids rec ks sA) ∧ Touch sA.1 (wdKids rec ks sA).1 dk ∧
      ∀ i x, ks i = some x → ((wdKids rec ks sA).1.get x).dirty = false := by
  rw [wdKids_eq]
  have key : ∀ (l : List Nib) (D : Nib → Prop) (sj : Heap × DB), WD H c sA sj → Touch sA.1 sj.1 dk →
      (∀ i x, D i → ks i = some x → (sj.1.get x).dirty = false) →
      WD H c sA (l.foldl (fun s i => rec s (ks i)) sj) ∧
      Touch sA.1 (l.foldl (fun s i => rec s (ks i)) sj).1 dk ∧
      ∀ i x, (D i ∨ i ∈ l) → ks i = some x → ((l.foldl (fun s i => rec s (ks i)) sj).1.get x).dirty = false := by
    intro l
    induction l with
    | nil =>
      intro D sj w tc hD
      exact ⟨w, tc, fun i x hi hk => by
        rcases hi with hi | hi
        · exact hD i x hi hk
        · cases hi⟩
    | cons j l ih =>
      intro D sj w tc hD
      simp only [List.foldl_cons]
      cases hkj : ks j with
      | none =>
        rw [hnone]
        obtain ⟨h1, h2, h3⟩ := ih (fun i => D i ∨ i = j) sj w tc (fun i x hi hk => by
          rcases hi with hi | rfl
          · exact hD i x hi hk
          · rw [hkj] at hk; cases hk)
        refine ⟨h1, h2, fun i x hi hk => h3 i x ?_ hk⟩
        rcases hi with hi | hi
        · exact Or.inl (Or.inl hi)
        · rcases List.mem_cons.mp hi with rfl | hi
          · exact Or.inl (Or.inr rfl)
          · exact Or.inr hi
      | some y =>
        obtain ⟨k1, k2, k3, k4, k5⟩ := hkid j y hkj
        have hrj := (hrep_cacheOnly w.cache (cs j) (kn j) y).mpr k1
        have hcj := coh_wd w (cs j) false (kn j) y k1 k2 k4 k5
        obtain ⟨r1, r2, r3⟩ := hrec j y sj hkj hrj hcj (rootAbove_cache w.cache k5)
        obtain ⟨h1, h2, h3⟩ := ih (fun i => D i ∨ i = j) (rec sj (some y)) (w.trans r1)
          (Touch.trans w.cache tc (r2.mono k3)) (fun i x hi hk => by
            rcases hi with hi | rfl
            · have hcl := hD i x hi hk
              rcases r1.cell x with e | ⟨hd, _⟩
              · rw [e]; exact hcl
              · rw [hcl] at hd; cases hd
            · rw [hkj] at hk; cases hk; exact r3)
        refine ⟨h1, h2, fun i x hi hk => h3 i x ?_ hk⟩
        rcases hi with hi | hi
        · exact Or.inl (Or.inl hi)
        · rcases List.mem_cons.mp hi with rfl | hi
          · exact Or.inl (Or.inr rfl)
          · exact Or.inr hi
  obtain ⟨h1, h2, h3⟩ := key (List.finRange 16) (fun _ => False) sA (WD.refl _ _ _) (Touch.refl _ _)
    (fun _ _ h _ => h.elim)
  exact ⟨h1, h2, fun i x hk => h3 i x (Or.inr (List.mem_finRange i)) hk⟩

theorem wd_main (H : Bytes → Bytes) (hH : ∀ m, (H m).length = 32) (c : Ctx) (hcH : c.H = H) :
    ∀ (t : Trie) (N : Node) (a : Nat) (f : Nat) (s : Heap × DB) (r : Bool),
      HRep s.1 t N a → Coh H (Mem s.2) s.1 r t N a → (c.troot == some a) = r → RootAbove c s.1 t →
      depth t ≤ f → depth t ≤ bigFuel + 1 →
      WD H c s (writeDirtyF c f s (some a)) ∧ Touch s.1 (writeDirtyF c f s (some a)).1 (depth t) ∧
      ((writeDirtyF c f s (some a)).1.get a).dirty = false
  | .nil, _, _, _, _, _, h, _, _, _, _, _ => h.elim
  | .leaf pk v, N, a, f, s, r, h, hc, hr, hab, hf, hbig => by
    subst hcH
    cases f with
    | zero => simp [depth] at hf
    | succ f =>
      unfold writeDirtyF
      simp only []
      by_cases hdirty : (!(s.1.get a).dirty) = true
      · rw [if_pos hdirty]
        exact ⟨WD.refl _ _ _, Touch.refl _ _, by simpa using hdirty⟩
      · rw [if_neg hdirty]
        have hd : (s.1.get a).dirty = true := by simpa using hdirty
        obtain ⟨hp1, hdt, he⟩ := encodeAndHash_pure c.H (Mem s.2) (c.troot == some a) _ N a s.1 r h hd hc hbig
        rw [he]
        simp only []
        have hA := afterEnc_of (H := c.H) (c := c) h hd hdt
        have hflav : (if (c.troot == some a) = true then c.H (encode c.H N)
            else Gossamer.merkleValue c.H (encode c.H N)) = flav c.H c a N := rfl
        rw [hflav] at he ⊢
        have hwA : WD c.H c s (hp1.modify a (fun x => { x with mv := some (flav c.H c a N) }), s.2) :=
          WD.of_dframe s.2 hA.dt.frame
        obtain ⟨hbr, hpk, hval, _, hN⟩ := h
        -- the value goes to the database when it is hashed
        have hvalput : ∀ db1 : DB,
            db1 = (if (s.1.get a).mbh = true then
              dbPut s.2 (nibBytes (s.1.get a).pk ++ c.H ((s.1.get a).val.getD [])) ((s.1.get a).val.getD [])
              else s.2) →
            (∀ k w, Mem s.2 k w → Mem db1 k w) ∧
            ((s.1.get a).mbh = true → Mem db1 (nibBytes pk ++ c.H v) v) := by
          intro db1 hdb
          subst hdb
          by_cases hm : (s.1.get a).mbh = true
          · rw [if_pos hm, hpk, hval]
            exact ⟨fun k w hkw => mem_dbPut _ _ _ _ _ hkw, fun _ => mem_dbPut_self _ _ _⟩
          · rw [if_neg hm]
            exact ⟨fun _ _ h => h, fun h => absurd h hm⟩
        obtain ⟨hmono1, hput1⟩ := hvalput _ rfl
        have hsto : ∀ db' : DB, (∀ k w, Mem (if (s.1.get a).mbh = true then
              dbPut s.2 (nibBytes (s.1.get a).pk ++ c.H ((s.1.get a).val.getD [])) ((s.1.get a).val.getD [])
              else s.2) k w → Mem db' k w) → StoG c.H (Mem db') (.leaf pk v) N := by
          intro db' hm
          rw [hN]
          exact ⟨nibBytes pk, (s.1.get a).mbh, rfl, nibBytes_toNib pk, fun hmb => hm _ _ (hput1 hmb)⟩
        have hrep : HRep s.1 (.leaf pk v) N a := ⟨hbr, hpk, hval, ‹_›, hN⟩
        by_cases hlen : (flav c.H c a N).length < 32
        · rw [if_pos hlen]
          have hnr : (c.troot == some a) = false := by
            cases hb : (c.troot == some a) with
            | false => rfl
            | true => unfold flav at hlen; rw [hb, if_pos rfl, hH] at hlen; omega
          have hsmall : (encode c.H N).length < 32 := by
            unfold flav at hlen
            rw [hnr] at hlen
            simp only [Bool.false_eq_true, if_false] at hlen
            by_cases hl : (encode c.H N).length < 32
            · exact hl
            · unfold Gossamer.merkleValue at hlen; rw [if_neg hl, hH] at hlen; omega
          exact wd_clean_step (hwA.trans (WD.db_grow _ hmono1)) hA.dt.touch hA.mv hd hrep (Nat.le_refl _)
            (hsto _ (fun _ _ h => h))
            (fun hcnd => by
              rcases hcnd with h1 | h1
              · rw [hnr] at h1; cases h1
              · omega)
        · rw [if_neg hlen]
          have hM : flav c.H c a N = c.H (encode c.H N) := by
            unfold flav at hlen ⊢
            cases hb : (c.troot == some a) with
            | true => simp
            | false =>
              rw [hb] at hlen
              simp only [Bool.false_eq_true, if_false] at hlen ⊢
              unfold Gossamer.merkleValue at hlen ⊢
              by_cases hl : (encode c.H N).length < 32
              · rw [if_pos hl] at hlen; exact absurd hl hlen
              · rw [if_neg hl]
          have hnb : (!(s.1.get a).isBranch) = true := by rw [hbr]; rfl
          rw [if_pos hnb]
          refine wd_clean_step ((hwA.trans (WD.db_grow _ hmono1)).trans
              (WD.db_grow _ (fun k w h => mem_dbPut _ _ _ _ _ h))) hA.dt.touch hA.mv hd hrep (Nat.le_refl _)
            (hsto _ (fun k w h => mem_dbPut _ _ _ _ _ h)) (fun _ => ?_)
          rw [← hM]
          exact mem_dbPut_self _ _ _
  | .branch pk v cs, N, a, f, s, r, h, hc, hr, hab, hf, hbig => by
    have ih := fun i => wd_main H hH c hcH (cs i)
    subst hcH
    cases f with
    | zero => simp [depth] at hf
    | succ f =>
      unfold writeDirtyF
      simp only []
      by_cases hdirty : (!(s.1.get a).dirty) = true
      · rw [if_pos hdirty]
        exact ⟨WD.refl _ _ _, Touch.refl _ _, by simpa using hdirty⟩
      · rw [if_neg hdirty]
        have hd : (s.1.get a).dirty = true := by simpa using hdirty
        obtain ⟨hp1, hdt, he⟩ := encodeAndHash_pure c.H (Mem s.2) (c.troot == some a) _ N a s.1 r h hd hc hbig
        rw [he]
        simp only []
        have hA := afterEnc_of (H := c.H) (c := c) h hd hdt
        have hflav : (if (c.troot == some a) = true then c.H (encode c.H N)
            else Gossamer.merkleValue c.H (encode c.H N)) = flav c.H c a N := rfl
        rw [hflav] at he ⊢
        have hwA : WD c.H c s (hp1.modify a (fun x => { x with mv := some (flav c.H c a N) }), s.2) :=
          WD.of_dframe s.2 hA.dt.frame
        have hrep := h
        obtain ⟨hbr, hpk, hval, kn, hN, hkids⟩ := h
        have hvalput : ∀ db1 : DB,
            db1 = (if (s.1.get a).mbh = true then
              dbPut s.2 (nibBytes (s.1.get a).pk ++ c.H ((s.1.get a).val.getD [])) ((s.1.get a).val.getD [])
              else s.2) →
            (∀ k w, Mem s.2 k w → Mem db1 k w) ∧
            ((s.1.get a).mbh = true → ∀ x, v = some x → Mem db1 (nibBytes pk ++ c.H x) x) := by
          intro db1 hdb
          subst hdb
          by_cases hm : (s.1.get a).mbh = true
          · rw [if_pos hm, hpk, hval]
            exact ⟨fun k w hkw => mem_dbPut _ _ _ _ _ hkw, fun _ x hx => by subst hx; exact mem_dbPut_self _ _ _⟩
          · rw [if_neg hm]
            exact ⟨fun _ _ h => h, fun h => absurd h hm⟩
        obtain ⟨hmono1, hput1⟩ := hvalput _ rfl
        by_cases hlen : (flav c.H c a N).length < 32
        · rw [if_pos hlen]
          have hnr : (c.troot == some a) = false := by
            cases hb : (c.troot == some a) with
            | false => rfl
            | true => unfold flav at hlen; rw [hb, if_pos rfl, hH] at hlen; omega
          have hsmall : (encode c.H N).length < 32 := by
            unfold flav at hlen
            rw [hnr] at hlen
            simp only [Bool.false_eq_true, if_false] at hlen
            by_cases hl : (encode c.H N).length < 32
            · exact hl
            · unfold Gossamer.merkleValue at hlen; rw [if_neg hl, hH] at hlen; omega
          exact wd_clean_step (hwA.trans (WD.db_grow _ hmono1)) hA.dt.touch hA.mv hd hrep (Nat.le_refl _)
            (sto_of_small c.H hH _ _ N a hrep hsmall)
            (fun hcnd => by
              rcases hcnd with h1 | h1
              · rw [hnr] at h1; cases h1
              · omega)
        · rw [if_neg hlen]
          have hM : flav c.H c a N = c.H (encode c.H N) := by
            unfold flav at hlen ⊢
            cases hb : (c.troot == some a) with
            | true => simp
            | false =>
              rw [hb] at hlen
              simp only [Bool.false_eq_true, if_false] at hlen ⊢
              unfold Gossamer.merkleValue at hlen ⊢
              by_cases hl : (encode c.H N).length < 32
              · rw [if_pos hl] at hlen; exact absurd hl hlen
              · rw [if_neg hl]
          have hnb : ¬ ((!(s.1.get a).isBranch) = true) := by rw [hbr]; simp
          rw [if_neg hnb]
          -- the state before the loop over the children
          have hwB : WD c.H c s (hp1.modify a (fun x => { x with mv := some (flav c.H c a N) }),
              dbPut (if (s.1.get a).mbh = true then
                dbPut s.2 (nibBytes (s.1.get a).pk ++ c.H ((s.1.get a).val.getD [])) ((s.1.get a).val.getD [])
                else s.2) (flav c.H c a N) (encode c.H N)) :=
            (hwA.trans (WD.db_grow _ hmono1)).trans (WD.db_grow _ (fun k w h => mem_dbPut _ _ _ _ _ h))
          have hdk : ∀ i, depth (cs i) ≤ depth (.branch pk v cs) - 1 := fun i => by
            have := depth_kid pk v cs i; omega
          have hkfacts : ∀ i x, (s.1.get a).kids i = some x →
              HRep s.1 (cs i) (kn i) x ∧ Coh c.H (Mem s.2) s.1 false (cs i) (kn i) x ∧
              (c.troot == some x) = false ∧ RootAbove c s.1 (cs i) := by
            intro i x hk
            have hki := hkids i
            rw [hk] at hki
            have hcx := hc.2 i x hk
            rw [hN, kidAt_map] at hcx
            have hlt := depth_kid pk v cs i
            refine ⟨hki.2, hcx, ?_, rootAbove_mono hab (Nat.le_of_lt hlt)⟩
            cases hb : (c.troot == some x) with
            | false => rfl
            | true =>
              have := hab x (cs i) (kn i) (by simpa using hb) hki.2
              omega
          obtain ⟨f1, f2, f3⟩ := wd_fold c.H c (s.1.get a).kids cs kn (depth (.branch pk v cs) - 1)
            (writeDirtyF c f) _
            (fun i x hk => by
              obtain ⟨k1, k2, k3, k4⟩ := hkfacts i x hk
              exact ⟨(hrep_cacheOnly hwB.cache _ _ _).mpr k1, coh_wd hwB _ _ _ _ k1 k2 k3 k4, hdk i, k3,
                rootAbove_cache hwB.cache k4⟩)
            (fun i x sj hk h1 h2 h3 => by
              have hlt := depth_kid pk v cs i
              have hk3 := (hkfacts i x hk).2.2.1
              exact ih i (kn i) x f sj false h1 h2 hk3 h3 (by omega) (by omega))
            (fun sj => wdF_none c f sj)
          -- the cell `a` itself was not touched by the loop
          have hrepA : HRep (hp1.modify a (fun x => { x with mv := some (flav c.H c a N) })) (.branch pk v cs) N a :=
            (hrep_cacheOnly hwB.cache _ _ _).mpr hrep
          have hun := untouched_of_lower hrepA f2 (by have := depth_pos (HRep.ne_nil hrep); omega)
          have hw := hwB.trans f1
          have htc : Touch s.1 (wdKids (writeDirtyF c f) (s.1.get a).kids
              (hp1.modify a (fun x => { x with mv := some (flav c.H c a N) }),
               dbPut (if (s.1.get a).mbh = true then
                 dbPut s.2 (nibBytes (s.1.get a).pk ++ c.H ((s.1.get a).val.getD [])) ((s.1.get a).val.getD [])
                 else s.2) (flav c.H c a N) (encode c.H N))).1 (depth (.branch pk v cs)) :=
            Touch.trans hwB.cache hA.dt.touch (f2.mono (Nat.sub_le _ _))
          refine wd_clean_step hw htc (by rw [hun]; exact hA.mv) hd hrep (Nat.le_refl _) ?_ (fun _ => ?_)
          · -- everything below is stored
            suffices hsuf : ∀ N', N' = Node.branch (nibBytes pk) v (s.1.get a).mbh ((List.finRange 16).map kn) →
                StoG c.H (Mem (wdKids (writeDirtyF c f) (s.1.get a).kids
                  (hp1.modify a (fun x => { x with mv := some (flav c.H c a N) }),
                   dbPut (if (s.1.get a).mbh = true then
                     dbPut s.2 (nibBytes (s.1.get a).pk ++ c.H ((s.1.get a).val.getD [])) ((s.1.get a).val.getD [])
                     else s.2) (flav c.H c a N) (encode c.H N))).2) (.branch pk v cs) N' from hsuf N hN
            intro N' hN'
            subst hN'
            refine ⟨nibBytes pk, (s.1.get a).mbh, _, rfl, nibBytes_toNib pk,
              fun hm x hx => f1.dbmono _ _ (mem_dbPut _ _ _ _ _ (hput1 hm x hx)), fun i => ?_⟩
            rw [getElem?_finRange_map]
            simp only [Option.getD_some]
            have hki := hkids i
            cases hk : (s.1.get a).kids i with
            | none =>
              rw [hk] at hki
              rw [hki.1, hki.2]
              exact ⟨rfl, fun hne => absurd rfl hne⟩
            | some x =>
              obtain ⟨k1, k2, k3, k4⟩ := hkfacts i x hk
              have hcoh := coh_wd hw _ _ _ _ k1 k2 k3 k4
              have hcl := Coh.clean hcoh (HRep.ne_nil k1) (f3 i x hk)
              exact ⟨hcl.2.1, fun _ h32 => hcl.2.2 (Or.inr h32)⟩
          · apply f1.dbmono
            rw [← hM]
            exact mem_dbPut_self _ _ _

/-! ### `WriteDirty` -/

/-- `WriteDirty` on a represented trie with coherent caches: afterwards the store holds the whole
    trie and its root encoding, and the heap is again coherent (everything clean) -/
theorem writeDirty_stoG (H : Bytes → Bytes) (hH : ∀ m, (H m).length = 32) (hp : Heap) (db : DB)
    (t : Handle) (r0 : Nat) (ht : t.root = some r0) (T : Trie) (N : Node) (hr : HRep hp T N r0)
    (hc : Coh H (Mem db) hp true T N r0) (hd : depth T ≤ bigFuel) :
    StoG H (Mem (writeDirty H hp db t).2) T N ∧
    Mem (writeDirty H hp db t).2 (H (encode H N)) (encode H N) ∧
    HRep (writeDirty H hp db t).1 T N r0 ∧
    Coh H (Mem (writeDirty H hp db t).2) (writeDirty H hp db t).1 true T N r0 ∧
    ((writeDirty H hp db t).1.get r0).dirty = false ∧
    (∀ k v, Mem db k v → Mem (writeDirty H hp db t).2 k v) := by
  have hroot : ((t.ctx H).troot == some r0) = true := by simp [Handle.ctx, ht]
  have hab : RootAbove (t.ctx H) hp T := by
    intro x t' N' hx hrx
    have : x = r0 := by
      have h1 : (t.ctx H).troot = some r0 := ht
      rw [h1] at hx; exact (Option.some.inj hx).symm
    subst this
    obtain ⟨rfl, _⟩ := HRep.func _ _ _ _ _ hrx hr
    exact Nat.le_refl _
  have hmain := wd_main H hH (t.ctx H) rfl T N r0 bigFuel (hp, db) true hr hc hroot hab hd (by omega)
  unfold writeDirty
  rw [ht]
  obtain ⟨w, _, hclean⟩ := hmain
  have hcoh := coh_wd w T true N r0 hr hc hroot hab
  have hcl := Coh.clean hcoh (HRep.ne_nil hr) hclean
  exact ⟨hcl.2.1, hcl.2.2 (Or.inl rfl), (hrep_cacheOnly w.cache T N r0).mpr hr, hcoh, hclean, w.dbmono⟩

/-! ### from entries of the association list to `db.Get` -/

/-- every entry is content-addressed: its key ends in the hash of its value -/
def DBOK (H : Bytes → Bytes) (db : DB) : Prop := ∀ k v, Mem db k v → ∃ pk, k = pk ++ H v

/-- no key is bound to two different values -/
def NoColl (db : DB) : Prop := ∀ k v v', Mem db k v → Mem db k v' → v = v'

/-- two DIFFERENT values stored in the database have the same hash -/
def Collision (H : Bytes → Bytes) (db : DB) : Prop :=
  ∃ k v v', Mem db k v ∧ Mem db k v' ∧ v ≠ v' ∧ H v = H v'

theorem noColl_or_collision (H : Bytes → Bytes) (hH : ∀ m, (H m).length = 32) (db : DB) (hok : DBOK H db) :
    NoColl db ∨ Collision H db := by
  by_cases h : NoColl db
  · exact Or.inl h
  · right
    unfold NoColl at h
    have h' : ∃ k v v', Mem db k v ∧ Mem db k v' ∧ v ≠ v' := by
      apply Classical.byContradiction
      intro hn
      apply h
      intro k v v' h1 h2
      apply Classical.byContradiction
      intro hne
      exact hn ⟨k, v, v', h1, h2, hne⟩
    obtain ⟨k, v, v', h1, h2, hne⟩ := h'
    obtain ⟨pk, e1⟩ := hok k v h1
    obtain ⟨pk', e2⟩ := hok k v' h2
    refine ⟨k, v, v', h1, h2, hne, ?_⟩
    have e := e1.symm.trans e2
    have hl : pk.length = pk'.length := by
      have := congrArg List.length e
      simp only [List.length_append, hH] at this
      omega
    exact (List.append_inj e hl).2

theorem dbGet_of_mem {db : DB} (hn : NoColl db) {k v : Bytes} (h : Mem db k v) : dbGet db k = some v := by
  unfold dbGet
  cases hf : db.find? (fun e => e.1 == k) with
  | none =>
    have := List.find?_eq_none.mp hf (k, v) h
    simp at this
  | some e =>
    have hmem : e ∈ db := List.mem_of_find?_eq_some hf
    have hk : (e.1 == k) = true := List.find?_some (p := fun e : Bytes × Bytes => e.1 == k) hf
    have hk' : e.1 = k := by simpa using hk
    have : Mem db k e.2 := by
      show (k, e.2) ∈ db
      rw [← hk']; exact hmem
    simp only
    rw [hn k e.2 v this h]

theorem sto_of_mem (H : Bytes → Bytes) {db : DB} (hn : NoColl db) (t : Trie) (N : Node)
    (h : StoG H (Mem db) t N) : Sto H db t N :=
  StoG.mono (fun _ _ hm => dbGet_of_mem hn hm) t N h

/-! ### `WriteDirty` only adds content-addressed entries -/

theorem dbok_put {H : Bytes → Bytes} {db : DB} (h : DBOK H db) (k v : Bytes) (hk : ∃ pk, k = pk ++ H v) :
    DBOK H (dbPut db k v) := by
  intro k' v' hm
  rcases List.mem_cons.mp hm with e | hm
  · cases e; exact hk
  · exact h k' v' hm

theorem writeDirtyF_dbok (c : Ctx) : ∀ (f : Nat) (s : Heap × DB) (x : Option Nat), DBOK c.H s.2 →
    DBOK c.H (writeDirtyF c f s x).2
  | f, s, none, h => by rw [wdF_none]; exact h
  | 0, s, some a, h => h
  | f + 1, s, some a, h => by
    have ih := writeDirtyF_dbok c f
    unfold writeDirtyF
    simp only []
    split
    · exact h
    · obtain ⟨_, hspec⟩ := encodeAndHash_spec c.H (c.troot == some a) s.1 a
      cases he : (encodeAndHash c.H (c.troot == some a) s.1 a).2 with
      | none => exact h
      | some em =>
        obtain ⟨enc, m⟩ := em
        rw [he] at hspec
        obtain ⟨_, hm, _⟩ := hspec
        simp only []
        have h1 : DBOK c.H (if (s.1.get a).mbh = true then
            dbPut s.2 (nibBytes (s.1.get a).pk ++ c.H ((s.1.get a).val.getD [])) ((s.1.get a).val.getD [])
            else s.2) := by
          split
          · exact dbok_put h _ _ ⟨_, rfl⟩
          · exact h
        split
        · exact h1
        · rename_i hlen
          have hme : m = c.H enc := by
            rw [hm]
            split
            · rfl
            · rename_i hr
              rw [hm, if_neg hr] at hlen
              unfold Gossamer.merkleValue at hlen ⊢
              by_cases hl : enc.length < 32
              · rw [if_pos hl] at hlen; exact absurd hl hlen
              · rw [if_neg hl]
          have h2 := dbok_put h1 m enc ⟨[], by rw [hme]; rfl⟩
          split
          · exact h2
          · exact wdKids_inv (M := fun t => DBOK c.H t.2) _ (fun t x ht => ih t x ht) _ _ h2

/-! ### well-formedness of the codec node of a represented trie -/

/-- partial keys of at most 65535 nibbles, values shorter than 2^30 bytes (the limits of the codec) -/
def SizeOK : Trie → Prop
  | .nil => True
  | .leaf pk v => pk.length ≤ 65535 ∧ v.length < 1073741824
  | .branch pk v cs => pk.length ≤ 65535 ∧ (∀ x, v = some x → x.length < 1073741824) ∧ ∀ i, SizeOK (cs i)

theorem wfKids_map (kn : Nib → Node) (h : ∀ i, KidOK (kn i)) : ∀ l : List Nib, C07.WFKids (l.map kn)
  | [] => by simp [C07.WFKids]
  | i :: l => by
    simp only [List.map_cons]
    unfold C07.WFKids
    refine ⟨?_, wfKids_map kn h l⟩
    have := h i
    cases hk : kn i <;> rw [hk] at this <;> exact this

theorem hrep_wf {hp : Heap} : ∀ (t : Trie) (N : Node) (a : Nat), HRep hp t N a → SizeOK t → C07.WF N
  | .nil, _, _, h, _ => h.elim
  | .leaf pk v, N, a, h, hs => by
    obtain ⟨_, _, _, _, rfl⟩ := h
    unfold C07.WF
    exact ⟨nibBytes_isNib pk, by rw [nibBytes_length]; exact hs.1, rfl,
      fun x hx => by cases hx; exact hs.2⟩
  | .branch pk v cs, N, a, h, hs => by
    obtain ⟨_, _, _, kn, rfl, hk⟩ := h
    unfold C07.WF
    refine ⟨nibBytes_isNib pk, by rw [nibBytes_length]; exact hs.1, hs.2.1, by simp, ?_⟩
    apply wfKids_map
    intro i
    have hki := hk i
    cases hkk : (hp.get a).kids i with
    | none => rw [hkk] at hki; rw [hki.2]; trivial
    | some x =>
      rw [hkk] at hki
      have hw := hrep_wf (cs i) (kn i) x hki.2 (hs.2.2 i)
      rcases hki.2.real with ⟨_, _, _, e⟩ | ⟨_, _, _, _, e⟩ <;> rw [e] at hw ⊢ <;> exact hw

end TrieHeap
end Gossamer
