/-
C04, incremental writes: the invariant of ONE line of trie handles (`Put`* ; `WriteDirty` ;
`Snapshot` ; `Put`* ; `WriteDirty` ; …) on the heap model: the handle's view is a tree (`TI`:
representation of a pure trie `T`, footprint of own cells without sharing, coherent caches relative
to the database).  `Put` refines `Trie.put` and keeps it (`insertF_tree`); `Snapshot` keeps it (the
new generation owns nothing); `WriteDirty` keeps it and makes the database represent `T`.
-/
import Gossamer.Lib.C04Put
import Gossamer.Lib.C04Del
namespace Gossamer
namespace TrieHeap
open Trie TrieCodec

theorem fp_cacheOnly {hp hp' : Heap} {g : Nat} (hc : CacheOnly hp hp') :
    ∀ (t : Trie) (a : Nat) (fp : List Nat), FP hp g t a fp → FP hp' g t a fp
  | .nil, _, _, h => h.elim
  | .leaf _ _, a, fp, h => by
    refine ⟨by rw [hc.size]; exact h.1, ?_⟩
    rw [h.2]; unfold ownL; rw [strip_gen (hc.cell a)]
  | .branch _ _ cs, a, fp, h => by
    obtain ⟨hlt, fps, hfp, hk, hno⟩ := h
    refine ⟨by rw [hc.size]; exact hlt, fps, ?_, fun i => ?_, by rw [strip_gen (hc.cell a)]; exact hno⟩
    · rw [hfp]; unfold ownL; rw [strip_gen (hc.cell a)]
    · rw [strip_kids (hc.cell a)]
      have := hk i
      cases hkk : (hp.get a).kids i with
      | none => rw [hkk] at this; exact this
      | some c => rw [hkk] at this; exact fp_cacheOnly hc (cs i) c (fps i) this

/-- a newer generation owns nothing of an existing tree -/
theorem fp_snap {hp : Heap} {g : Nat} (hg : ∀ x, (hp.get x).gen ≤ g) :
    ∀ (t : Trie) (a : Nat) (fp : List Nat), FP hp g t a fp → FP hp (g + 1) t a []
  | .nil, _, _, h => h.elim
  | .leaf _ _, a, fp, h => by
    refine ⟨h.1, ?_⟩
    rw [ownL_not]; have := hg a; omega
  | .branch _ _ cs, a, fp, h => by
    obtain ⟨hlt, fps, _, hk, _⟩ := h
    refine ⟨hlt, fun _ => [], ?_, fun i => ?_, fun _ _ => rfl⟩
    · rw [ownL_not (by have := hg a; omega)]; simp
    · have := hk i
      cases hkk : (hp.get a).kids i with
      | none => rfl
      | some c => rw [hkk] at this; exact fp_snap hg (cs i) c (fps i) this

/-- the root of the handle represents `T` as a tree with coherent caches -/
def RootTI (H : Bytes → Bytes) (G : Bytes → Bytes → Prop) (hp : Heap) (g : Nat) (T : Trie) : Option Nat → Prop
  | none => T = .nil
  | some a => ∃ N fp, TI H G hp g true T N a fp ∧ fp.Nodup

/-- invariant of a line of handles: heap, database, current handle, the pure trie it stands for -/
structure CInv (H : Bytes → Bytes) (hp : Heap) (db : DB) (h : Handle) (T : Trie) : Prop where
  wf : HeapWF hp
  gens : ∀ x, (hp.get x).gen ≤ h.gen
  dbok : DBOK H db
  root : RootTI H (Mem db) hp h.gen T h.root

theorem cinv_init (H : Bytes → Bytes) (ver : Ver) :
    CInv H Heap.empty [] { root := none, gen := 0, ver := ver } .nil := by
  refine ⟨fun a ha => ?_, fun x => ?_, ?_, rfl⟩
  · exact absurd ha (Nat.not_lt_zero _)
  · rw [Heap.get_of_size_le (Nat.zero_le _)]; exact Nat.le_refl _
  · intro k v h; cases h

theorem put_cinv (H : Bytes → Bytes) (hH : ∀ m, (H m).length = 32) {hp : Heap} {db : DB} {h : Handle} {T : Trie}
    (inv : CInv H hp db h T) (hd : depth T ≤ bigFuel + 1) (k v : Bytes) :
    CInv H (put H hp h k v).1 db (put H hp h k v).2 (Trie.put T k v) := by
  have hrlt : ∀ r, h.root = some r → r < hp.size := by
    intro r hr
    have := inv.root; rw [hr] at this
    obtain ⟨N, fp, hti, _⟩ := this
    cases T with
    | nil => exact hti.rep.elim
    | leaf _ _ => exact hti.fp.1
    | branch _ _ _ => exact hti.fp.1
  have ok := put_ok H hp h inv.wf hrlt k v
  refine ⟨ok.good.wf, fun x => ?_, inv.dbok, ?_⟩
  · show ((put H hp h k v).1.get x).gen ≤ h.gen
    by_cases h1 : x < hp.size
    · rw [ok.good.gen x h1]; exact inv.gens x
    · by_cases h2 : x < (put H hp h k v).1.size
      · rw [ok.good.fresh x (by show hp.size ≤ x; omega) h2]; exact Nat.le_refl _
      · rw [Heap.get_of_size_le (by omega)]; exact Nat.zero_le _
  · unfold put Trie.put
    dsimp only
    cases hr : h.root with
    | none =>
      have hT : T = .nil := by have := inv.root; rw [hr] at this; exact this
      subst hT
      have hins : insertF (h.ctx H) ((Trie.keyLEToNibbles k).length + 1) hp none (Trie.keyLEToNibbles k) v =
          ((hp.alloc (newLeaf (h.ctx H) (Trie.keyLEToNibbles k) v)).1, some hp.size, true) := rfl
      rw [hins]
      show RootTI H (Mem db) (hp.alloc (newLeaf (h.ctx H) (Trie.keyLEToNibbles k) v)).1 h.gen
        (.leaf (Trie.keyLEToNibbles k) v) (some hp.size)
      have hcell : (hp.alloc (newLeaf (h.ctx H) (Trie.keyLEToNibbles k) v)).1.get hp.size =
          newLeaf (h.ctx H) (Trie.keyLEToNibbles k) v := Heap.get_alloc_self _ _
      have hg : ((hp.alloc (newLeaf (h.ctx H) (Trie.keyLEToNibbles k) v)).1.get hp.size).gen = h.gen := by
        rw [hcell]; rfl
      refine ⟨_, _, @ti_leaf_cell H (Mem db) _ h.gen true hp.size (Trie.keyLEToNibbles k) v (by simp)
        (by rw [hcell]; rfl) (by rw [hcell]; rfl) (by rw [hcell]; rfl) (fun i => by rw [hcell]; rfl)
        (by rw [hcell]; rfl), ?_⟩
      rw [ownL_own hg]; simp
    | some a =>
      have := inv.root; rw [hr] at this
      obtain ⟨N, fp, hti, hnd⟩ := this
      have hflav : ((h.ctx H).troot == some a) = true := by simp [Handle.ctx, hr]
      have hra : RootAbove (h.ctx H) hp T := by
        intro x t' N' hx hrx
        have : x = a := by
          have : some x = some a := by rw [← hx]; exact hr
          injection this
        subst this
        rw [(HRep.func _ _ _ _ _ hti.rep hrx).1]; exact Nat.le_refl _
      have post := insertF_tree H hH (Mem db) (h.ctx H) rfl rfl ((Trie.keyLEToNibbles k).length + 1) hp T N a fp true
        (Trie.keyLEToNibbles k) v hti hnd hflav hra hd (Nat.lt_succ_self _) _ rfl
      obtain ⟨y, hy, ⟨N', fp', hti', hnd', _⟩, _⟩ := post.ex
      show RootTI H (Mem db) _ h.gen _ (insertF (h.ctx H) ((Trie.keyLEToNibbles k).length + 1) hp (some a)
        (Trie.keyLEToNibbles k) v).2.1
      rw [hy]
      exact ⟨N', fp', hti', hnd'⟩

theorem cinv_root_lt {H : Bytes → Bytes} {hp : Heap} {db : DB} {h : Handle} {T : Trie}
    (inv : CInv H hp db h T) : ∀ r, h.root = some r → r < hp.size := by
  intro r hr
  have := inv.root; rw [hr] at this
  obtain ⟨N, fp, hti, _⟩ := this
  cases T with
  | nil => exact hti.rep.elim
  | leaf _ _ => exact hti.fp.1
  | branch _ _ _ => exact hti.fp.1

/-- wellformedness and the generation bound after a mutating method -/
theorem topOK_gens {H : Bytes → Bytes} {hp : Heap} {h : Handle} {hp' : Heap} {h' : Handle}
    (ok : TopOK H hp h hp' h') (hg : ∀ x, (hp.get x).gen ≤ h.gen) : ∀ x, (hp'.get x).gen ≤ h.gen := by
  intro x
  by_cases h1 : x < hp.size
  · rw [ok.good.gen x h1]; exact hg x
  · by_cases h2 : x < hp'.size
    · rw [ok.good.fresh x (by show hp.size ≤ x; omega) h2]; exact Nat.le_refl _
    · rw [Heap.get_of_size_le (by omega)]; exact Nat.zero_le _

theorem rootTI_of_outO {H : Bytes → Bytes} {G : Bytes → Bytes → Prop} {hp : Heap} {g : Nat} {fp : List Nat}
    {hp' : Heap} {t' : Trie} {y : Option Nat} (h : OutO H G hp g true fp hp' t' y) : RootTI H G hp' g t' y := by
  cases y with
  | none => exact h.1
  | some y =>
    obtain ⟨N', fp', hti, hnd, _⟩ := h.ti
    exact ⟨N', fp', hti, hnd⟩

theorem delete_cinv (H : Bytes → Bytes) (hH : ∀ m, (H m).length = 32) {hp : Heap} {db : DB} {h : Handle} {T : Trie}
    (inv : CInv H hp db h T) (hd : depth T ≤ bigFuel + 1) (k : Bytes) :
    CInv H (delete H hp h k).1 db (delete H hp h k).2 (Trie.delete T k) := by
  have ok := delete_ok H hp h inv.wf (cinv_root_lt inv) k
  refine ⟨ok.good.wf, fun x => by rw [ok.gen]; exact topOK_gens (h := h) ok inv.gens x, inv.dbok, ?_⟩
  unfold delete Trie.delete
  dsimp only
  cases hr : h.root with
  | none =>
    have hT : T = .nil := by have := inv.root; rw [hr] at this; exact this
    subst hT
    have hdn : deleteF (h.ctx H) ((Trie.keyLEToNibbles k).length + 1) hp none (Trie.keyLEToNibbles k) =
        (hp, none, false) := rfl
    rw [hdn]
    show RootTI H (Mem db) hp h.gen (deleteAtNode .nil (Trie.keyLEToNibbles k)).1 none
    rfl
  | some a =>
    have := inv.root; rw [hr] at this
    obtain ⟨N, fp, hti, hnd⟩ := this
    have hflav : ((h.ctx H).troot == some a) = true := by simp [Handle.ctx, hr]
    have hroot : ∀ x, (h.ctx H).troot = some x → x = a := by
      intro x hx
      have : some x = some a := by rw [← hx]; exact hr
      injection this
    have hra : RootAbove (h.ctx H) hp T := by
      intro x t' N' hx hrx
      rw [hroot x hx] at hrx
      rw [(HRep.func _ _ _ _ _ hti.rep hrx).1]; exact Nat.le_refl _
    have post := deleteF_tree H hH (Mem db) (h.ctx H) rfl rfl ((Trie.keyLEToNibbles k).length + 1) hp T N a fp
      true (Trie.keyLEToNibbles k) hti hnd hflav hra
      (fun x hx => by rw [hroot x hx]; exact cinv_root_lt inv a hr) hd (Nat.lt_succ_self _)
    exact rootTI_of_outO post.out

theorem clearPrefix_cinv (H : Bytes → Bytes) (hH : ∀ m, (H m).length = 32) {hp : Heap} {db : DB} {h : Handle}
    {T : Trie} (inv : CInv H hp db h T) (hd : depth T ≤ bigFuel + 1) (p : Bytes) :
    CInv H (clearPrefix H hp h p).1 db (clearPrefix H hp h p).2 (Trie.clearPrefix T p) := by
  have ok := clearPrefix_ok H hp h inv.wf (cinv_root_lt inv) p
  refine ⟨ok.good.wf, fun x => by rw [ok.gen]; exact topOK_gens (h := h) ok inv.gens x, inv.dbok, ?_⟩
  unfold clearPrefix Trie.clearPrefix
  by_cases hp0 : p.length = 0
  · simp only [if_pos hp0]
    rfl
  · simp only [if_neg hp0]
    cases hr : h.root with
    | none =>
      have hT : T = .nil := by have := inv.root; rw [hr] at this; exact this
      subst hT
      have hdn : clearPrefixF (h.ctx H) ((trimZero (Trie.keyLEToNibbles p)).length + 1) hp none
          (trimZero (Trie.keyLEToNibbles p)) = (hp, none, false) := rfl
      rw [hdn]
      show RootTI H (Mem db) hp h.gen (clearPrefixAtNode .nil (trimZero (Trie.keyLEToNibbles p))).1 none
      rfl
    | some a =>
      have := inv.root; rw [hr] at this
      obtain ⟨N, fp, hti, hnd⟩ := this
      have hflav : ((h.ctx H).troot == some a) = true := by simp [Handle.ctx, hr]
      have hroot : ∀ x, (h.ctx H).troot = some x → x = a := by
        intro x hx
        have : some x = some a := by rw [← hx]; exact hr
        injection this
      have hra : RootAbove (h.ctx H) hp T := by
        intro x t' N' hx hrx
        rw [hroot x hx] at hrx
        rw [(HRep.func _ _ _ _ _ hti.rep hrx).1]; exact Nat.le_refl _
      have post := clearPrefixF_tree H hH (Mem db) (h.ctx H) rfl rfl
        ((trimZero (Trie.keyLEToNibbles p)).length + 1) hp T N a fp
        true (trimZero (Trie.keyLEToNibbles p)) hti hnd hflav hra
        (fun x hx => by rw [hroot x hx]; exact cinv_root_lt inv a hr) hd (Nat.lt_succ_self _)
      exact rootTI_of_outO post.out

theorem snapshot_cinv (H : Bytes → Bytes) {hp : Heap} {db : DB} {h : Handle} {T : Trie}
    (inv : CInv H hp db h T) : CInv H hp db (snapshot h) T := by
  refine ⟨inv.wf, fun x => Nat.le_succ_of_le (inv.gens x), inv.dbok, ?_⟩
  show RootTI H (Mem db) hp (h.gen + 1) T h.root
  have := inv.root
  cases hr : h.root with
  | none => rw [hr] at this; exact this
  | some a =>
    rw [hr] at this
    obtain ⟨N, fp, hti, _⟩ := this
    exact ⟨N, [], ⟨hti.rep, fp_snap inv.gens T a fp hti.fp, hti.coh⟩, List.nodup_nil⟩

theorem setVersion_cinv (H : Bytes → Bytes) {hp : Heap} {db : DB} {h : Handle} {T : Trie}
    (inv : CInv H hp db h T) (ver : Ver) : CInv H hp db { h with ver := ver } T :=
  ⟨inv.wf, inv.gens, inv.dbok, inv.root⟩

/-- `WriteDirty` keeps the invariant and makes the database represent the trie -/
theorem writeDirty_cinv (H : Bytes → Bytes) (hH : ∀ m, (H m).length = 32) {hp : Heap} {db : DB} {h : Handle}
    {T : Trie} (inv : CInv H hp db h T) (hd : depth T ≤ bigFuel) :
    CInv H (writeDirty H hp db h).1 (writeDirty H hp db h).2 h T := by
  have hco : CacheOnly hp (writeDirty H hp db h).1 := writeDirtyF_cacheOnly (h.ctx H) bigFuel (hp, db) h.root
  refine ⟨fun a ha i x hk => ?_, fun x => ?_, writeDirtyF_dbok (h.ctx H) bigFuel (hp, db) h.root inv.dbok, ?_⟩
  · rw [hco.size] at ha ⊢
    rw [strip_kids (hco.cell a)] at hk
    exact inv.wf a ha i x hk
  · rw [strip_gen (hco.cell x)]; exact inv.gens x
  · have := inv.root
    cases hr : h.root with
    | none =>
      rw [hr] at this
      exact this
    | some a =>
      rw [hr] at this
      obtain ⟨N, fp, hti, hnd⟩ := this
      obtain ⟨_, _, h3, h4, _, _⟩ := writeDirty_stoG H hH hp db h a hr T N hti.rep hti.coh hd
      exact ⟨N, fp, ⟨h3, fp_cacheOnly hco T a fp hti.fp, h4⟩, hnd⟩

/-! ### the model's own `Get` on a represented trie -/

theorem retrieveF_hrep : ∀ (f : Nat) (hp : Heap) (t : Trie) (N : Node) (a : Nat) (key : Nibs),
    HRep hp t N a → key.length < f → retrieveF f hp (some a) key = Trie.retrieve t key
  | 0, _, _, _, _, _, _, hf => absurd hf (Nat.not_lt_zero _)
  | f + 1, hp, .nil, _, _, _, h, _ => h.elim
  | f + 1, hp, .leaf pk v, N, a, key, h, _ => by
    obtain ⟨h1, h2, h3, _, _⟩ := h
    unfold retrieveF Trie.retrieve
    simp only [h1, Bool.not_false, if_true, h2, h3]
  | f + 1, hp, .branch pk v cs, N, a, key, h, hf => by
    obtain ⟨h1, h2, h3, kn, _, hk⟩ := h
    unfold retrieveF Trie.retrieve
    simp only [h1, Bool.not_true, Bool.false_eq_true, if_false, h2, h3]
    split
    · rfl
    · split
      · rfl
      · rcases hdk : key.drop pk.length with _ | ⟨i, rest⟩
        · rfl
        · dsimp only
          have hlen : rest.length < f := by
            have := congrArg List.length hdk
            simp only [List.length_drop, List.length_cons] at this
            omega
          have := hk i
          cases hkid : (hp.get a).kids i with
          | none =>
            rw [hkid] at this
            rw [this.1]
            cases f <;> rfl
          | some ch =>
            rw [hkid] at this
            exact retrieveF_hrep f hp (cs i) (kn i) ch rest this.2 hlen

/-- in every state of a line, `Get` of the heap trie is `Get` of the pure trie -/
theorem cinv_get {H : Bytes → Bytes} {hp : Heap} {db : DB} {h : Handle} {T : Trie} (inv : CInv H hp db h T)
    (k : Bytes) : get hp h.root k = Trie.get T k := by
  unfold get Trie.get
  have := inv.root
  cases hr : h.root with
  | none =>
    rw [hr] at this
    have hT : T = .nil := this
    subst hT
    rfl
  | some a =>
    rw [hr] at this
    obtain ⟨N, fp, hti, _⟩ := this
    exact retrieveF_hrep _ hp T N a _ hti.rep (Nat.lt_succ_self _)

end TrieHeap
end Gossamer
