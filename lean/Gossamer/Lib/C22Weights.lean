/-
C22 library: weighted sums over voter lists and the quorum-intersection arithmetic.
-/
import Gossamer.Model.C22
namespace Gossamer.C22

theorem wsum_mono (w : Nat → Nat) (p q : Nat → Bool) :
    ∀ l : List Nat, (∀ v ∈ l, p v = true → q v = true) → wsum w p l ≤ wsum w q l := by
  intro l
  induction l with
  | nil => intro _; simp [wsum]
  | cons a t ih =>
    intro h
    have ht := ih (fun v hv => h v (List.mem_cons_of_mem a hv))
    have ha := h a (List.mem_cons_self)
    simp only [wsum]
    by_cases hp : p a = true
    · simp [hp, ha hp]; exact ht
    · have hp' : p a = false := by simpa using hp
      simp only [hp']
      by_cases hq : q a = true
      · simp [hq]; omega
      · have hq' : q a = false := by simpa using hq
        simp [hq']; exact ht

theorem wsum_congr (w : Nat → Nat) (p q : Nat → Bool) (l : List Nat)
    (h : ∀ v ∈ l, p v = q v) : wsum w p l = wsum w q l := by
  apply Nat.le_antisymm
  · exact wsum_mono w p q l (fun v hv hp => by rw [← h v hv]; exact hp)
  · exact wsum_mono w q p l (fun v hv hq => by rw [h v hv]; exact hq)

theorem wsum_or_and (w : Nat → Nat) (p q : Nat → Bool) (l : List Nat) :
    wsum w p l + wsum w q l =
      wsum w (fun v => p v || q v) l + wsum w (fun v => p v && q v) l := by
  induction l with
  | nil => simp [wsum]
  | cons a t ih =>
    simp only [wsum]
    by_cases hp : p a = true <;> by_cases hq : q a = true <;> simp [hp, hq] <;> omega

theorem wsum_split (w : Nat → Nat) (p q : Nat → Bool) (l : List Nat) :
    wsum w p l = wsum w (fun v => p v && q v) l + wsum w (fun v => p v && !q v) l := by
  induction l with
  | nil => simp [wsum]
  | cons a t ih =>
    simp only [wsum]
    by_cases hp : p a = true <;> by_cases hq : q a = true <;> simp [hp, hq] <;> omega

theorem wsum_eq_zero (w : Nat → Nat) (p : Nat → Bool) (l : List Nat)
    (h : ∀ v ∈ l, p v = false) : wsum w p l = 0 := by
  induction l with
  | nil => simp [wsum]
  | cons a t ih =>
    simp only [wsum]
    rw [h a List.mem_cons_self, ih (fun v hv => h v (List.mem_cons_of_mem a hv))]
    simp

theorem wsum_pos_exists (w : Nat → Nat) (p : Nat → Bool) (l : List Nat)
    (h : 0 < wsum w p l) : ∃ v ∈ l, p v = true := by
  cases hall : l.all (fun v => !p v) with
  | true =>
    have hz : wsum w p l = 0 := by
      apply wsum_eq_zero
      intro v hv
      have := List.all_eq_true.mp hall v hv
      simpa using this
    omega
  | false =>
    have : ¬ (l.all (fun v => !p v) = true) := by simp [hall]
    rw [List.all_eq_true] at this
    have ⟨v, hv⟩ := Classical.not_forall.mp this
    have ⟨hm, hp⟩ := Classical.not_imp.mp hv
    exact ⟨v, hm, by simpa using hp⟩

theorem Voters.weight_mono (vs : Voters) (p q : Nat → Bool)
    (h : ∀ v ∈ vs.ids, p v = true → q v = true) : vs.weight p ≤ vs.weight q :=
  wsum_mono vs.w p q vs.ids h

theorem Voters.weight_le_total (vs : Voters) (p : Nat → Bool) : vs.weight p ≤ vs.total :=
  wsum_mono vs.w p (fun _ => true) vs.ids (fun _ _ _ => rfl)

/-- the arithmetic core of quorum intersection: two predicates that hold for more than two thirds of the
    weight each, against a third predicate holding for less than a third, meet outside the third -/
theorem Voters.two_super_meet (vs : Voters) (a b z : Nat → Bool)
    (hz : 3 * vs.weight z < vs.total)
    (ha : supermajority vs.total (vs.weight a)) (hb : supermajority vs.total (vs.weight b)) :
    ∃ v ∈ vs.ids, a v = true ∧ b v = true ∧ z v = false := by
  unfold supermajority at ha hb
  have h1 := wsum_or_and vs.w a b vs.ids
  have h2 : vs.weight (fun v => a v || b v) ≤ vs.total := vs.weight_le_total _
  have h3 := wsum_split vs.w (fun v => a v && b v) z vs.ids
  have h4 : wsum vs.w (fun v => (a v && b v) && z v) vs.ids ≤ vs.weight z :=
    wsum_mono vs.w _ z vs.ids (fun v _ hv => by simp at hv; exact hv.2)
  have hpos : 0 < wsum vs.w (fun v => (a v && b v) && !z v) vs.ids := by
    unfold Voters.weight at *
    omega
  have ⟨v, hm, hv⟩ := wsum_pos_exists _ _ _ hpos
  simp at hv
  exact ⟨v, hm, hv.1.1, hv.1.2, hv.2⟩

/-- a supermajority contains an honest voter -/
theorem Voters.super_has_honest (vs : Voters) (a : Nat → Bool) (hmin : vs.minority)
    (ha : supermajority vs.total (vs.weight a)) :
    ∃ v ∈ vs.ids, a v = true ∧ vs.byz v = false := by
  have ⟨v, hm, h1, _, h3⟩ := vs.two_super_meet a a vs.byz hmin ha ha
  exact ⟨v, hm, h1, h3⟩

/-- the honest voters alone are a supermajority -/
theorem Voters.honest_super (vs : Voters) (hmin : vs.minority) :
    supermajority vs.total (vs.weight (fun v => !vs.byz v)) := by
  unfold supermajority Voters.minority at *
  have h : vs.total = vs.weight vs.byz + vs.weight (fun v => !vs.byz v) := by
    have := wsum_split vs.w (fun _ => true) vs.byz vs.ids
    simpa [Voters.total, Voters.weight] using this
  omega

end Gossamer.C22
