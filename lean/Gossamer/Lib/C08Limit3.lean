/-
C08: limited prefix clear of an ordered map (what the ideal trie does with no transaction open)
equals the specification's limited removal when current and committed storage coincide — except
for the finding `limit0-reports-remaining` (limit 0 and no key with the prefix).
-/
import Gossamer.Lib.C08Limit2
set_option linter.unusedSectionVars false
set_option linter.unusedSimpArgs false
namespace Gossamer.C08
open Gossamer

theorem keysWithPrefix_eq (p : Bytes) (es : Entries) :
    OMap.keysWithPrefix p es = (es.map (·.1)).filter (fun k => p.isPrefixOf k) := by
  unfold OMap.keysWithPrefix
  induction es with
  | nil => rfl
  | cons e r ih =>
    simp only [List.filter_cons, List.map_cons]
    by_cases h : p.isPrefixOf e.1 = true
    · simp only [h, if_true, List.map_cons]; rw [ih]
    · simp only [h, Bool.false_eq_true, if_false]; exact ih

theorem filter_const_true {α : Type} (l : List α) : l.filter (fun _ => true) = l := by
  induction l with
  | nil => rfl
  | cons a r ih => simp [List.filter_cons, ih]

theorem takeLim_allOld (ks : List Bytes) (n : Nat) :
    takeLim (fun _ => true) ks (some n) = ks.take n := by
  induction ks generalizing n with
  | nil => simp [takeLim]
  | cons k r ih =>
    cases n with
    | zero => simp [takeLim]
    | succ m =>
      simp only [takeLim, List.take_succ_cons]
      have : ¬ (some (m + 1) = some 0) := by simp
      simp only [this, if_false, if_true, Option.map_some, Nat.add_sub_cancel]
      rw [ih]

theorem unionKeys_self {l : List Bytes} (h : KSet.Sorted l) : unionKeys l l = l := by
  apply kset_ext (sorted_unionKeys _ _) h
  intro x
  rw [mem_unionKeys]
  simp

/-- `dropMatching` removes exactly the first `n` keys with the prefix -/
theorem dropMatching_eq (p : Bytes) : ∀ (es : Entries), OMap.Sorted es → ∀ n,
    OMap.dropMatching p n es =
      es.filter (fun e => !(((OMap.keysWithPrefix p es).take n).contains e.1)) := by
  intro es
  induction es with
  | nil => intro _ n; cases n <;> simp [OMap.dropMatching]
  | cons e r ih =>
    intro hs n
    cases n with
    | zero => simp [OMap.dropMatching, filter_const_true]
    | succ m =>
      simp only [OMap.dropMatching]
      have hr : ∀ x ∈ r, x.1 ≠ e.1 := fun x hx => (klt_ne (hs.1 x hx)).symm
      by_cases hp : p.isPrefixOf e.1 = true
      · have hM : OMap.keysWithPrefix p (e :: r) = e.1 :: OMap.keysWithPrefix p r := by
          unfold OMap.keysWithPrefix; simp [List.filter_cons, hp]
        simp only [hp, if_true, hM, List.take_succ_cons, List.filter_cons, List.contains_cons,
          beq_self_eq_true, Bool.true_or, Bool.not_true, Bool.false_eq_true, if_false]
        rw [ih hs.2 m]
        apply List.filter_congr
        intro x hx
        have : (x.1 == e.1) = false := by simpa using hr x hx
        simp [this]
      · have hM : OMap.keysWithPrefix p (e :: r) = OMap.keysWithPrefix p r := by
          unfold OMap.keysWithPrefix; simp [List.filter_cons, hp]
        have hne : ((OMap.keysWithPrefix p r).take (m + 1)).contains e.1 = false := by
          cases hc : ((OMap.keysWithPrefix p r).take (m + 1)).contains e.1 with
          | false => rfl
          | true =>
            have hm : e.1 ∈ OMap.keysWithPrefix p r :=
              (List.take_sublist _ _).subset (by simpa using hc)
            unfold OMap.keysWithPrefix at hm
            obtain ⟨y, hy, hye⟩ := List.mem_map.mp hm
            have := (List.mem_filter.mp hy).2
            rw [hye] at this
            exact absurd this hp
        simp only [hp, Bool.false_eq_true, if_false, hM, List.filter_cons, hne, Bool.not_false,
          if_true]
        rw [ih hs.2 (m + 1)]

/-- limited prefix clear with no transaction open -/
theorem clearPrefixLimit_spec (p : Bytes) (n : Nat) {es : Entries} (hs : OMap.Sorted es)
    (h0 : n ≠ 0 ∨ OMap.keysWithPrefix p es ≠ []) :
    OMap.clearPrefixLimit p n es = specLimit es es (fun k => p.isPrefixOf k) (some n) := by
  have hM : KSet.Sorted (OMap.keysWithPrefix p es) := keysWithPrefix_sorted hs p
  have hc : unionKeys ((es.map (·.1)).filter (fun k => p.isPrefixOf k))
      ((es.map (·.1)).filter (fun k => p.isPrefixOf k)) = OMap.keysWithPrefix p es := by
    rw [← keysWithPrefix_eq, unionKeys_self hM]
  have hold : ∀ k ∈ OMap.keysWithPrefix p es, (OMap.get k es).isSome = (fun _ => true) k := by
    intro k hk
    rw [keysWithPrefix_eq] at hk
    have := (omap_mem_keys es k).mp (List.mem_filter.mp hk).1
    cases hg : OMap.get k es with
    | none => exact absurd hg this
    | some v => rfl
  have hl := specLoop_take es (fun _ => true) (OMap.keysWithPrefix p es) hold (some n) es 0
  unfold specLimit
  simp only []
  rw [hc, hl, takeLim_allOld, foldl_erase_eq_filter _ hs]
  unfold OMap.clearPrefixLimit
  by_cases hn : n = 0
  · subst hn
    have hne : OMap.keysWithPrefix p es ≠ [] := by
      rcases h0 with h | h
      · exact absurd rfl h
      · exact h
    have hlen : (OMap.keysWithPrefix p es).length ≠ 0 := fun h => hne (List.length_eq_zero_iff.mp h)
    simp only [if_true, List.take_zero, List.contains_nil, Bool.not_false, filter_const_true,
      List.length_nil, Nat.zero_add]
    have : ((0 : Nat) == (OMap.keysWithPrefix p es).length) = false := by
      cases h : (OMap.keysWithPrefix p es).length with
      | zero => exact absurd h hlen
      | succ m => rfl
    rw [this]
  · simp only [hn, if_false, Nat.zero_add, List.length_take]
    rw [dropMatching_eq p es hs n]
    congr 2
    by_cases hle : (OMap.keysWithPrefix p es).length ≤ n
    · have : min n (OMap.keysWithPrefix p es).length = (OMap.keysWithPrefix p es).length := by omega
      simp [hle, this]
    · have : min n (OMap.keysWithPrefix p es).length = n := by omega
      have hne : ¬ n = (OMap.keysWithPrefix p es).length := by omega
      simp [hle, this, hne]

end Gossamer.C08
