/-
C17 — the invariant of reachable block states and the closed form of a successful `SetFinalisedHash`.
Core Lean only.
-/
import Gossamer.Lib.C17Fin
namespace Gossamer.C17

/-- invariant of every reachable state (`C17_inv_reachable`); `g` is the genesis block -/
structure Inv (g : Blk) (st : St) : Prop where
  tree : TreeOK st
  /-- the root (last finalised block) is in the header table, with the same record as in the tree -/
  rootDb : ∀ rb, findB st.tree st.root = some rb → findB st.dbHdr st.root = some rb
  rootUnfin : findB st.unfin st.root = none
  /-- every other node of the tree is in `unfinalisedBlocks`, and nothing else is -/
  treeUnfin : ∀ b ∈ st.tree, b.hash ≠ st.root → findB st.unfin b.hash = some b
  unfinTree : ∀ b ∈ st.unfin, b ∈ st.tree ∧ b.hash ≠ st.root
  noGenesis : ∀ b ∈ st.tree, b.hash ≠ st.root → b.hash ≠ g.hash

/-- `handleFinalisedBlock` succeeded along `rb :: rest` -/
structure Handled (st : St) (h : Nat) (rb hn : Blk) (rest : List Blk) (st1 : St) : Prop where
  rootB : findB st.tree st.root = some rb
  headB : findB st.tree h = some hn
  path : PathOK st hn (rb :: rest)
  walk : pathUp st (hn.number - rb.number) hn = some (rb :: rest)
  done : ChainDone h rest st st1

theorem handleFinalised_cases {g : Blk} {st : St} (inv : Inv g st) {h : Nat} (hne : h ≠ st.root) :
    (∃ e, handleFinalised g.hash st h = (st, some (.errRange e))) ∨
    ∃ rb hn rest st1, Handled st h rb hn rest st1 ∧
      handleFinalised g.hash st h =
        ({ st1 with dbNum := (rest.map (fun b => (b.number, b.hash))).foldl (fun m p => putN m p.1 p.2) st1.dbNum },
          none) := by
  unfold handleFinalised
  simp only [hne, if_false]
  unfold rangeInMemory
  cases hh : findB st.tree h with
  | none => exact .inl ⟨_, rfl⟩
  | some hn =>
    simp only
    cases hr : findB st.tree st.root with
    | none => exact .inl ⟨_, rfl⟩
    | some rb =>
      simp only
      by_cases hgt : rb.number > hn.number
      · simp only [hgt, if_true]; exact .inl ⟨_, rfl⟩
      · simp only [hgt, if_false]
        cases hp : pathUp st (hn.number - rb.number) hn with
        | none => exact .inl ⟨_, rfl⟩
        | some l =>
          cases l with
          | nil => exact .inl ⟨_, rfl⟩
          | cons top rest =>
            simp only
            by_cases htop : top.hash = rb.hash
            · simp only [htop, if_true]
              have hnt := (findB_some hh).1
              have pok := pathUp_ok inv.tree _ hn _ hnt hp
              have : top = rb := inv.tree.uniq.eq_of_hash (pok.mem top (List.mem_cons_self ..)).1
                (findB_some hr).1 htop
              subst this
              have hrest : ∀ b ∈ rest, b.hash ≠ g.hash ∧ findB st.unfin b.hash = some b := by
                intro b hb
                have hbt := (pok.mem b (List.mem_cons_of_mem _ hb)).1
                have hbr := pok.tailNonRoot b (by simpa using hb)
                exact ⟨inv.noGenesis b hbt hbr, inv.treeUnfin b hbt hbr⟩
              have hnd : (rest.map (·.hash)).Nodup := by
                have := pok.nodup_hash inv.tree
                rw [List.map_cons, List.nodup_cons] at this
                exact this.2
              obtain ⟨st1, hrun, hd⟩ := finaliseChain_ok g.hash h rest st [] hrest hnd
              refine .inr ⟨top, hn, rest, st1, ⟨hr, hh, pok, hp, hd⟩, ?_⟩
              simp only [List.tail_cons, hrun, List.nil_append]
            · simp only [htop, if_false]; exact .inl ⟨_, rfl⟩

/-- closed form of a successful `SetFinalisedHash(h, r, s)` with `h ≠ root` -/
structure Moved (st : St) (h r s : Nat) (rb hn : Blk) (rest : List Blk) (st' : St) : Prop where
  rootB : findB st.tree st.root = some rb
  headB : findB st.tree h = some hn
  path : PathOK st hn (rb :: rest)
  walk : pathUp st (hn.number - rb.number) hn = some (rb :: rest)
  root : st'.root = h
  tree : st'.tree = kept st hn
  unfinFind : ∀ x, findB st'.unfin x =
    if x ∈ (pruned st hn).map (·.hash) then none else if x ∈ rest.map (·.hash) then none else findB st.unfin x
  unfinMem : ∀ y, y ∈ st'.unfin ↔ (y ∈ st.unfin ∧ y.hash ∉ rest.map (·.hash)) ∧ y.hash ∉ (pruned st hn).map (·.hash)
  triesSub : ∀ x, x ∈ st'.tries → x ∈ st.tries
  triesPath : ∀ b ∈ rest, b.hash ≠ h → b.sroot ∉ st'.tries
  triesPruned : ∀ b ∈ pruned st hn, b.sroot ∉ st'.tries
  triesRoot : rb.sroot ∉ st'.tries
  /-- a trie survives unless it is the root of the old head, of a finalised ancestor or of a pruned block -/
  triesKeep : ∀ x, x ∈ st.tries → x ≠ rb.sroot → (∀ b ∈ rest, b.hash ≠ h → b.sroot ≠ x) →
    (∀ b ∈ pruned st hn, b.sroot ≠ x) → x ∈ st'.tries
  dbNew : ∀ b ∈ rest, findB st'.dbHdr b.hash = some b
  dbOld : ∀ x, x ∉ rest.map (·.hash) → findB st'.dbHdr x = findB st.dbHdr x
  numNew : ∀ b ∈ rest, lookupN st'.dbNum b.number = some b.hash
  numOld : ∀ n, (∀ b ∈ rest, b.number ≠ n) → lookupN st'.dbNum n = lookupN st.dbNum n
  highest : st'.highest = (r, s)
  finKey : lookupK st'.finKey (r, s) = some h

theorem lookupK_cons_self (m : List ((Nat × Nat) × Nat)) (k : Nat × Nat) (v : Nat) :
    lookupK ((k, v) :: m) k = some v := by
  unfold lookupK; simp

theorem hn_mem_rest {st : St} {hn rb : Blk} {rest : List Blk} (p : PathOK st hn (rb :: rest))
    (hne : hn.hash ≠ rb.hash) : hn ∈ rest := by
  have := p.last
  cases rest with
  | nil => simp at this; subst this; exact absurd rfl hne
  | cons a t =>
    rw [List.getLast?_cons_cons] at this
    exact List.mem_of_getLast? this

/-- under the invariant `SetFinalisedHash` either leaves the state alone and reports an error, or re-confirms
    the current head, or moves the head as `Moved` describes -/
theorem setFinalised_cases {g : Blk} {st : St} (inv : Inv g st) (h r s : Nat) :
    let out := setFinalised g.hash st h r s
    (out.1 = st ∧ (out.2 = .errUnknown ∨ out.2 = .errSetID ∨ ∃ e, out.2 = .errRange e)) ∨
    (h = st.root ∧ out.2 = .ok ∧ out.1 = { st with
        finKey := ((r, s), h) :: st.finKey.filter (fun p => p.1 ≠ (r, s)), highest := (r, s) }) ∨
    (h ≠ st.root ∧ out.2 = .ok ∧ ∃ rb hn rest, Moved st h r s rb hn rest out.1) := by
  intro out
  show (_ ∧ _) ∨ _
  have hout : out = setFinalised g.hash st h r s := rfl
  unfold setFinalised at hout
  cases hg : getHeader st h with
  | none => simp only [hg] at hout; rw [hout]; exact .inl ⟨rfl, .inl rfl⟩
  | some hb =>
    simp only [hg] at hout
    by_cases hs : s < st.highest.2
    · simp only [hs, if_true] at hout; rw [hout]; exact .inl ⟨rfl, .inr (.inl rfl)⟩
    · simp only [hs, if_false] at hout
      by_cases hroot : h = st.root
      · have hh : handleFinalised g.hash st h = (st, none) := by unfold handleFinalised; simp [hroot]
        rw [hh] at hout
        simp only [hroot, if_true] at hout
        rw [hout]
        exact .inr (.inl ⟨hroot, rfl, by simp [hroot]⟩)
      · rcases handleFinalised_cases inv hroot with ⟨e, he⟩ | ⟨rb, hn, rest, st1, hd, he⟩
        · rw [he] at hout; rw [hout]; exact .inl ⟨rfl, .inr (.inr ⟨e, rfl⟩)⟩
        · rw [he] at hout
          simp only [hroot, if_false, hd.headB] at hout
          -- the state after the round/set-id writes
          let s2 : St := { st1 with
            dbNum := (rest.map (fun b => (b.number, b.hash))).foldl (fun m p => putN m p.1 p.2) st1.dbNum
            finKey := ((r, s), h) :: st1.finKey.filter (fun p => p.1 ≠ (r, s))
            highest := (r, s) }
          have pd := dropPruned_spec (pruned st hn) s2
          have hnh : hn.hash = h := (findB_some hd.headB).2
          have hrbh : rb.hash = st.root := (findB_some hd.rootB).2
          have hnrest : hn ∈ rest := hn_mem_rest hd.path (by rw [hnh, hrbh]; exact hroot)
          have hroot_notin : st.root ∉ rest.map (·.hash) := by
            intro hm
            obtain ⟨b, hb, hbh⟩ := List.mem_map.mp hm
            exact hd.path.tailNonRoot b (by simpa using hb) hbh
          -- GetHeader(hash) after the cleanup: from the header table
          have hget3 : getHeader (dropPruned s2 (pruned st hn)) h = some hn := by
            unfold getHeader
            rw [pd.unfinFind h]
            have : findB s2.unfin h = none := by
              show findB st1.unfin h = none
              rw [hd.done.unfinFind h]
              have : h ∈ rest.map (·.hash) := List.mem_map.mpr ⟨hn, hnrest, hnh⟩
              simp [this]
            simp only [this, ite_self]
            rw [pd.dbHdr]
            show findB st1.dbHdr h = some hn
            rw [← hnh]; exact hd.done.dbNew hn hnrest
          have hgetr : getHeader (dropPruned s2 (pruned st hn)) st.root = some rb := by
            unfold getHeader
            rw [pd.unfinFind st.root]
            have : findB s2.unfin st.root = none := by
              show findB st1.unfin st.root = none
              rw [hd.done.unfinFind st.root]
              simp [hroot_notin, inv.rootUnfin]
            simp only [this, ite_self]
            rw [pd.dbHdr]
            show findB st1.dbHdr st.root = some rb
            rw [hd.done.dbOld _ hroot_notin]
            exact inv.rootDb rb hd.rootB
          change out = (match getHeader (dropPruned s2 (pruned st hn)) h with
            | none => (dropPruned s2 (pruned st hn), FinRes.errHeader)
            | some _ =>
              ({ (match getHeader (dropPruned s2 (pruned st hn)) st.root with
                    | some rb => { dropPruned s2 (pruned st hn) with
                        tries := triesDelete (dropPruned s2 (pruned st hn)).tries rb.sroot }
                    | none => dropPruned s2 (pruned st hn)) with root := h, tree := kept st hn }, FinRes.ok)) at hout
          rw [hget3, hgetr] at hout
          simp only at hout
          rw [hout]
          refine .inr (.inr ⟨hroot, rfl, rb, hn, rest, ?_⟩)
          refine ⟨hd.rootB, hd.headB, hd.path, hd.walk, rfl, rfl, ?_, ?_, ?_, ?_, ?_, ?_, ?_, ?_, ?_, ?_, ?_, ?_, ?_⟩
          · intro x
            show findB (dropPruned s2 (pruned st hn)).unfin x = _
            rw [pd.unfinFind x]
            show (if _ then none else findB st1.unfin x) = _
            rw [hd.done.unfinFind x]
          · intro y
            show y ∈ (dropPruned s2 (pruned st hn)).unfin ↔ _
            rw [pd.unfinMem y]
            show (y ∈ st1.unfin ∧ _) ↔ _
            rw [hd.done.unfinMem y]
          · intro x hx
            have : x ∈ (dropPruned s2 (pruned st hn)).tries := (mem_triesDelete.mp hx).1
            have := pd.triesSub x this
            exact ((hd.done.triesMem x).mp this).1
          · intro b hb hbh hm
            have : b.sroot ∈ (dropPruned s2 (pruned st hn)).tries := (mem_triesDelete.mp hm).1
            have := pd.triesSub _ this
            exact ((hd.done.triesMem _).mp this).2 b hb hbh rfl
          · intro b hb hm
            have hm' : b.sroot ∈ (dropPruned s2 (pruned st hn)).tries := (mem_triesDelete.mp hm).1
            refine pd.triesGone b hb ?_ hm'
            -- a pruned node is a non-root tree node off the path, so it is still in the map
            have hbm := List.mem_filter.mp hb
            have hbt : b ∈ st.tree := hbm.1
            simp only [Bool.and_eq_true, Bool.not_eq_true', decide_eq_false_iff_not] at hbm
            have hnt : hn ∈ st.tree := (findB_some hd.headB).1
            have hup : up st hn = ((rb :: rest).map (·.hash)).reverse :=
              upList_of_path inv.tree _ hn _ rb rest hnt hd.walk rfl hrbh _ (by omega)
            have hbnot : b.hash ∉ (rb :: rest).map (·.hash) := by
              intro hmm
              apply hbm.2.2
              rw [hup]; exact List.mem_reverse.mpr hmm
            have hbroot : b.hash ≠ st.root := by
              intro hbr; apply hbnot; rw [List.map_cons, hrbh, hbr]; exact List.mem_cons_self ..
            show findB st1.unfin b.hash = some b
            rw [hd.done.unfinFind b.hash]
            have : b.hash ∉ rest.map (·.hash) := fun hmm => hbnot (by rw [List.map_cons]; exact List.mem_cons_of_mem _ hmm)
            simp only [this, if_false]
            exact inv.treeUnfin b hbt hbroot
          · exact fun hm => (mem_triesDelete.mp hm).2 rfl
          · intro x hx hxr hpath hpr
            refine mem_triesDelete.mpr ⟨?_, hxr⟩
            refine pd.triesKeep x ((hd.done.triesMem x).mpr ⟨hx, hpath⟩) ?_
            intro b hb hdr hfb
            -- the record found in the map for a pruned node is that node
            have hfb' : findB st1.unfin b.hash = some hdr := hfb
            rw [hd.done.unfinFind b.hash] at hfb'
            by_cases hin : b.hash ∈ rest.map (·.hash)
            · simp [hin] at hfb'
            · simp only [hin, if_false] at hfb'
              have hbt : b ∈ st.tree := (List.mem_filter.mp hb).1
              have hdt := inv.unfinTree hdr (findB_some hfb').1
              have : hdr = b := inv.tree.uniq.eq_of_hash hdt.1 hbt (findB_some hfb').2
              rw [this]
              exact hpr b hb
          · intro b hb
            show findB (dropPruned s2 (pruned st hn)).dbHdr b.hash = some b
            rw [pd.dbHdr]; exact hd.done.dbNew b hb
          · intro x hx
            show findB (dropPruned s2 (pruned st hn)).dbHdr x = _
            rw [pd.dbHdr]; exact hd.done.dbOld x hx
          · intro b hb
            show lookupN (dropPruned s2 (pruned st hn)).dbNum b.number = some b.hash
            rw [pd.dbNum]
            have hndn : ((rest.map (fun b => (b.number, b.hash))).map (·.1)).Nodup := by
              rw [List.map_map]
              have := hd.path.nodup_number
              rw [List.map_cons, List.nodup_cons] at this
              exact this.2
            exact lookupN_flush_mem _ st1.dbNum hndn (p := (b.number, b.hash)) (List.mem_map.mpr ⟨b, hb, rfl⟩)
          · intro n hn'
            show lookupN (dropPruned s2 (pruned st hn)).dbNum n = _
            rw [pd.dbNum]
            show lookupN ((rest.map (fun b => (b.number, b.hash))).foldl (fun m p => putN m p.1 p.2) st1.dbNum) n = _
            rw [lookupN_flush_other, hd.done.dbNum]
            intro p hp
            obtain ⟨b, hb, rfl⟩ := List.mem_map.mp hp
            exact hn' b hb
          · show (dropPruned s2 (pruned st hn)).highest = (r, s)
            rw [pd.highest]
          · show lookupK (dropPruned s2 (pruned st hn)).finKey (r, s) = some h
            rw [pd.finKey]
            exact lookupK_cons_self _ _ _

end Gossamer.C17
