/-
C27 helper lemmas: the association-map database of Model/C27 (get/put/del/flush read-back laws) and
the byte keys of dot/state/slot.go (injectivity of `slotKey` on uint64, `slotKey ≠ startKey`, le64
round trip).  Core Lean only.
-/
import Gossamer.Model.C27
open Gossamer Gossamer.C27
namespace Gossamer.C27

/-! ### database lemmas -/

theorem del_nil (k : Bytes) : DB.del [] k = [] := rfl

theorem del_cons (e : Bytes × Bytes) (r : DB) (k : Bytes) :
    DB.del (e :: r) k = if e.1 = k then DB.del r k else e :: DB.del r k := by
  by_cases h : e.1 = k <;> simp [DB.del, List.filter, h]

theorem get_cons (e : Bytes × Bytes) (r : DB) (k : Bytes) :
    DB.get (e :: r) k = if e.1 = k then some e.2 else DB.get r k := by
  obtain ⟨a, b⟩ := e; rfl

theorem get_del_self (db : DB) (k : Bytes) : (db.del k).get k = none := by
  induction db with
  | nil => rfl
  | cons e r ih =>
    rw [del_cons]
    by_cases h : e.1 = k
    · simp [h, ih]
    · simp [h, get_cons, ih]

theorem get_del_ne (db : DB) (k k' : Bytes) (h : k' ≠ k) : (db.del k').get k = db.get k := by
  induction db with
  | nil => rfl
  | cons e r ih =>
    rw [del_cons]
    by_cases h2 : e.1 = k'
    · have : e.1 ≠ k := by rw [h2]; exact h
      simp [h2, get_cons, ih, h]
    · simp [h2, get_cons, ih]

theorem get_put (db : DB) (k k' v : Bytes) :
    (db.put k' v).get k = if k' = k then some v else db.get k := by
  by_cases h : k' = k
  · simp [DB.put, get_cons, h]
  · simp [DB.put, get_cons, h, get_del_ne db k k' h]

theorem get_flush_dels (db : DB) (ks : List Bytes) (k : Bytes) :
    (db.flush (ks.map BatchOp.del)).get k = if k ∈ ks then none else db.get k := by
  induction ks generalizing db with
  | nil => simp [DB.flush]
  | cons a r ih =>
    simp only [List.map_cons, DB.flush, List.foldl_cons, BatchOp.apply]
    have := ih (db.del a)
    simp only [DB.flush] at this
    rw [this]
    by_cases h1 : k ∈ r
    · simp [h1]
    · by_cases h2 : k = a
      · subst h2; simp [get_del_self]
      · simp [h1, h2, get_del_ne db k a (Ne.symm h2)]

/-- the effect of the batch written by CheckEquivocation, read back through `get` -/
theorem get_flush_batch (db : DB) (k1 v1 k2 v2 : Bytes) (ks : List Bytes) (k : Bytes) :
    (db.flush ([BatchOp.put k1 v1, BatchOp.put k2 v2] ++ ks.map BatchOp.del)).get k =
      if k ∈ ks then none else if k2 = k then some v2 else if k1 = k then some v1 else db.get k := by
  have : db.flush ([BatchOp.put k1 v1, BatchOp.put k2 v2] ++ ks.map BatchOp.del) =
      ((db.put k1 v1).put k2 v2).flush (ks.map BatchOp.del) := by
    simp [DB.flush, BatchOp.apply]
  rw [this, get_flush_dels, get_put, get_put]

/-! ### keys -/

theorem le64_leBytes (n : Nat) (h : n < 2 ^ 64) : le64 (leBytes 8 n) = n := by
  have hl : (leBytes 8 n).take 8 = leBytes 8 n := by
    apply List.take_of_length_le; rw [length_leBytes]; exact Nat.le_refl _
  rw [le64, hl, natOfLE_leBytes]
  have : (256:Nat) ^ 8 = 2 ^ 64 := by decide
  rw [this]; exact Nat.mod_eq_of_lt h

theorem leBytes8_inj {a b : Nat} (ha : a < 2 ^ 64) (hb : b < 2 ^ 64)
    (h : leBytes 8 a = leBytes 8 b) : a = b := by
  rw [← le64_leBytes a ha, ← le64_leBytes b hb, h]

theorem slotKey_inj {a b : Nat} (ha : a < 2 ^ 64) (hb : b < 2 ^ 64) (h : slotKey a = slotKey b) :
    a = b := by
  simp only [slotKey] at h
  exact leBytes8_inj ha hb (List.append_cancel_left (List.append_cancel_left h))

theorem slotKey_ne_startKey (n : Nat) : slotKey n ≠ startKey := by
  intro h
  have := congrArg List.length h
  simp [slotKey, startKey, length_leBytes, tablePrefix, slotHeaderMapKey, slotHeaderStartKey] at this

theorem leBytes8_ne_nil (n : Nat) : (leBytes 8 n).length > 0 := by rw [length_leBytes]; decide

end Gossamer.C27
