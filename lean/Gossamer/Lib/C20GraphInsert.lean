/-
C20 layer (b), proofs: `Insert` preserves the representation invariant, for every history of inserts.
-/
import Gossamer.Lib.C20GraphBranch
namespace Gossamer.C20

variable {t : Tree}

theorem init_inv (t : Tree) : GInv t [] Graph.init := by
  have hN : ∀ b, isNode [] b = (b == 0) := by intro b; simp [isNode]
  have hanc : ∀ d b, isNode [] d = true → ancNode t (isNode []) d ≠ some b := by
    intro d b hd
    have : d = 0 := by simpa [hN] using hd
    subst this; simp [ancNode, edge_zero]
  refine ⟨?_, ?_, ?_, ?_, ?_, ?_, ?_, ?_⟩
  · intro b; rw [hN]; by_cases hb : b = 0 <;> simp [Graph.init, hb]
  · intro b e hb
    by_cases h0 : b = 0
    · subst h0; simp [Graph.init] at hb; subst hb; rfl
    · simp [Graph.init, h0] at hb
  · intro b e hb
    by_cases h0 : b = 0
    · subst h0; simp [Graph.init] at hb; subst hb; rfl
    · simp [Graph.init, h0] at hb
  · intro b e hb
    by_cases h0 : b = 0
    · subst h0; simp [Graph.init] at hb; subst hb; rfl
    · simp [Graph.init, h0] at hb
  · intro b e hb
    by_cases h0 : b = 0
    · subst h0; simp [Graph.init] at hb; subst hb; exact List.nodup_nil
    · simp [Graph.init, h0] at hb
  · intro b e hb d
    by_cases h0 : b = 0
    · subst h0; simp [Graph.init] at hb; subst hb
      constructor
      · intro hd; simp at hd
      · rintro ⟨hd, ha⟩; exact absurd ha (hanc d 0 hd)
    · simp [Graph.init, h0] at hb
  · intro x
    simp only [Graph.init, List.mem_singleton]
    constructor
    · intro hx; subst hx
      exact ⟨by simp [isNode], fun d hd => hanc d 0 hd⟩
    · rintro ⟨hx, _⟩; simpa [hN] using hx
  · intro p hp; simp at hp

theorem insert_inv (h : t.WF) {ins : Ins} {g : Graph} (inv : GInv t ins g) (key : Nat → Nat)
    (hash pos : Nat) (hlt : hash < t.size) :
    GInv t (ins ++ [(hash, pos)]) (g.insert key t hash pos) := by
  have N0 := isNode_zero ins
  have hvalid : ∀ p, p ∈ ins ++ [(hash, pos)] → p.1 < t.size := by
    intro p hp
    rcases List.mem_append.1 hp with hp | hp
    · exact inv.valid p hp
    · have : p = (hash, pos) := by simpa using hp
      subst this; exact hlt
  have hcum : cumOf t (ins ++ [(hash, pos)]) = insert t (cumOf t ins) hash pos := cumOf_append t ins (hash, pos)
  have hnode : isNode (ins ++ [(hash, pos)]) = addNode (isNode ins) hash := isNode_append_eq ins (hash, pos)
  have hN'0 : addNode (isNode ins) hash 0 = true := by simp [addNode, N0]
  have hN'h : addNode (isNode ins) hash hash = true := by simp [addNode]
  obtain ⟨c1, c2⟩ := findContaining_spec h inv key hash
  apply GStruct.toInv _ hvalid
  rw [hcum, hnode]
  unfold Graph.insert
  simp only
  cases hN : isNode ins hash with
  | true =>
    rw [c1 hN]
    have hsame : addNode (isNode ins) hash = isNode ins := by
      funext b
      by_cases hb : b = hash
      · subst hb; simp [addNode, hN]
      · simp [addNode, hb]
    rw [hsame]
    exact addUp_struct h N0 inv.toStruct hash pos (t.size + 1) hN (by omega)
  | false =>
    obtain ⟨R, hR, hnd, hmem⟩ := c2 hN
    rw [hR]
    cases R with
    | nil =>
      have hfree : ∀ d, ¬ Containing t ins hash d := fun d hd => by
        have := (hmem d).2 hd; simp at this
      exact addUp_struct h hN'0 (append_struct h inv hN hfree) hash pos (t.size + 1) hN'h (by omega)
    | cons d0 l =>
      exact addUp_struct h hN'0 (branch_struct h inv hN d0 l hnd hmem) hash pos (t.size + 1) hN'h (by omega)

/-- the compressed graph after a history of inserts -/
def graphOf (key : Nat → Nat) (t : Tree) (ins : Ins) : Graph :=
  ins.foldl (fun g p => g.insert key t p.1 p.2) Graph.init

theorem graphOf_append (key : Nat → Nat) (t : Tree) (ins : Ins) (p : Nat × Nat) :
    graphOf key t (ins ++ [p]) = (graphOf key t ins).insert key t p.1 p.2 := by
  simp [graphOf, List.foldl_append]

/-- **representation invariant for every history of inserts** (targets inside the tree) -/
theorem graphOf_inv (h : t.WF) (key : Nat → Nat) : ∀ (ins : Ins), (∀ p, p ∈ ins → p.1 < t.size) →
    GInv t ins (graphOf key t ins) := by
  have keyl : ∀ (rest pre : Ins), (∀ p, p ∈ pre ++ rest → p.1 < t.size) →
      GInv t pre (graphOf key t pre) → GInv t (pre ++ rest) (graphOf key t (pre ++ rest)) := by
    intro rest
    induction rest with
    | nil => intro pre _ hi; simpa using hi
    | cons x rest ih =>
      intro pre hv hi
      have hx : x.1 < t.size := hv x (by simp)
      have h1 : GInv t (pre ++ [x]) (graphOf key t (pre ++ [x])) := by
        rw [graphOf_append]
        exact insert_inv h hi key x.1 x.2 hx
      have := ih (pre ++ [x]) (by simpa [List.append_assoc] using hv) h1
      simpa [List.append_assoc] using this
  intro ins hv
  have := keyl ins [] (by simpa using hv) (init_inv t)
  simpa using this

/-- the cumulative vote of a block inside ancestor edges = the votes of the vote-nodes that contain it -/
theorem cum_containing (h : t.WF) {ins : Ins} {g : Graph} (inv : GInv t ins g) {hash : Nat}
    (hN : isNode ins hash = false) (R : List Nat) (hR : ∀ d, d ∈ R ↔ Containing t ins hash d) (q : Nat) :
    (cumOf t ins hash).testBit q = R.any (fun d => (cumOf t ins d).testBit q) := by
  have N0 := isNode_zero ins
  rw [cumOf_testBit]
  apply Bool.eq_iff_iff.2
  simp only [List.any_eq_true]
  constructor
  · rintro ⟨p', hp', hpq⟩
    simp only [Bool.and_eq_true, List.contains_iff_mem] at hpq
    have hpN' : isNode ins p'.1 = true := by
      unfold isNode
      apply Bool.or_eq_true_iff.2
      right
      exact List.any_eq_true.2 ⟨p', hp', by simp⟩
    obtain ⟨y, hy, hye, hyc⟩ := below_in_edge h N0 hN p'.1 hpN' hpq.2
    refine ⟨y, (hR y).2 ⟨hy, hye⟩, ?_⟩
    rw [cumOf_testBit]
    exact List.any_eq_true.2 ⟨p', hp', by simp [hpq.1, hyc]⟩
  · rintro ⟨d, hd, hq⟩
    rw [cumOf_testBit] at hq
    obtain ⟨p', hp', hpq⟩ := List.any_eq_true.1 hq
    simp only [Bool.and_eq_true, List.contains_iff_mem] at hpq
    refine ⟨p', hp', ?_⟩
    simp only [Bool.and_eq_true, List.contains_iff_mem]
    exact ⟨hpq.1, Tree.le_trans h (edge_mem_chain h ((hR d).1 hd).2) hpq.2⟩

end Gossamer.C20
