/-
C21: `getPossibleSelectedBlocks` (`psb`) for every iteration order: what it selects.
-/
import Gossamer.Lib.C21Select
namespace Gossamer.C21

/-! ### iteration orders are permutations -/

def Perms.Valid (p : Perms) : Prop :=
  (∀ l, (p.votes l).Perm l) ∧ (∀ l, (p.keys l).Perm l) ∧ (∀ l, (p.blocks l).Perm l)

def Ord.Valid (o : Ord) : Prop := ∀ path, (o path).Valid

theorem Ord.Valid.sub {o : Ord} (h : o.Valid) (i : Nat) : (o.sub i).Valid := fun p => h (i :: p)

/-! ### the pair of votes that meets in a highest block with more than `th` votes -/

theorem exists_split {c : Cfg} (hw : c.t.WF) {votes : List (Nat × Vote)} (hk : KnownVotes c votes)
    {e th G : Nat} (hG : G < c.t.size) (hGt : th < cnt c.t votes G + e)
    (hD : ∀ kv ∈ votes, cnt c.t votes kv.2.blk + e ≤ th)
    (hmax : ∀ b, b < c.t.size → th < cnt c.t votes b + e → c.t.depth b ≤ c.t.depth G)
    (hne : votes ≠ []) :
    ∃ kx ∈ votes, ∃ ky ∈ votes, ky.2.blk ≠ kx.2.blk ∧ lca c.t ky.2.blk kx.2.blk = some G ∧
      ∀ kv ∈ votes, kv.2.blk ≠ kx.2.blk → lca c.t kv.2.blk kx.2.blk ≠ some kx.2.blk := by
  -- the votes below G
  have hU : votes.filter (fun kv => isDesc c.t G kv.2.blk = .yes) ≠ [] := by
    intro hnil
    have h0 : cnt c.t votes G = 0 := by
      unfold cnt
      rw [List.countP_eq_length_filter, hnil]; rfl
    obtain ⟨kv0, hkv0⟩ := List.exists_mem_of_ne_nil _ hne
    have := hD kv0 hkv0
    omega
  obtain ⟨x, hxU, hxmax⟩ := exists_max (fun kv : Nat × Vote => c.t.depth kv.2.blk) _ hU
  have hxv : x ∈ votes := (List.mem_filter.1 hxU).1
  have hxs := (hk x hxv).1
  have hGx : G ∈ c.t.chain x.2.blk :=
    (isDesc_yes_iff hG hxs).1 (by simpa using (List.mem_filter.1 hxU).2)
  have hGne : G ≠ x.2.blk := by
    intro h
    have := hD x hxv
    rw [← h] at this
    omega
  obtain ⟨c', hc'x, hc'0, hc'p⟩ := Tree.child_towards hw x.2.blk G hGx hGne
  have hc's : c' < c.t.size := by
    have := Tree.mem_chain_le hw _ _ hc'x
    omega
  have hdep : c.t.depth c' = c.t.depth G + 1 := by
    rw [Tree.depth_parent hw (b := c') (by omega), hc'p]
  have hc't : cnt c.t votes c' + e ≤ th := by
    apply Classical.byContradiction
    intro hn
    have := hmax c' hc's (by omega)
    omega
  obtain ⟨y, hyv, hyG, hyc⟩ := exists_vote_of_cnt_lt (t := c.t) (votes := votes) (a := G) (b := c') (by omega)
  have hys := (hk y hyv).1
  have hGy : G ∈ c.t.chain y.2.blk := (isDesc_yes_iff hG hys).1 hyG
  have hc'y : c' ∉ c.t.chain y.2.blk := fun h => hyc ((isDesc_yes_iff hc's hys).2 h)
  refine ⟨x, hxv, y, hyv, ?_, lca_of_split hw hxs hys (by omega) hc'p hc'x hGy hc'y, ?_⟩
  · intro h; rw [h] at hc'y; exact hc'y hc'x
  · intro kv hkv hne' hl
    have hkvs := (hk kv hkv).1
    have hxk : x.2.blk ∈ c.t.chain kv.2.blk := (lca_mem hw hl).1
    have hGk : G ∈ c.t.chain kv.2.blk := Tree.le_trans hw hGx hxk
    have hkU : kv ∈ votes.filter (fun kv => isDesc c.t G kv.2.blk = .yes) :=
      List.mem_filter.2 ⟨hkv, by simpa using (isDesc_yes_iff hG hkvs).2 hGk⟩
    have h1 := hxmax kv hkU
    have h2 := Tree.depth_lt' hw hxk (fun h => hne' h.symm)
    omega

/-! ### the first loop of `getPossibleSelectedBlocks` -/

theorem dirFold_mem {tot : Nat → Nat} {th : Nat} : ∀ (L : List (Vote × Nat)) (bl : Sel) (q : Nat × Nat),
    q ∈ L.foldl (dirStep tot th) bl → q ∈ bl ∨ ∃ p ∈ L, th < tot p.1.blk ∧ q = (p.1.blk, p.1.num) := by
  intro L
  induction L with
  | nil => intro bl q h; exact Or.inl h
  | cons p rest ih =>
    intro bl q h
    rw [List.foldl_cons] at h
    rcases ih _ q h with h | ⟨p', hp', ht, hq⟩
    · unfold dirStep at h
      split at h
      · rename_i ht
        rcases mem_aset h with h | h
        · exact Or.inr ⟨p, List.mem_cons_self, ht, h⟩
        · exact Or.inl h
      · exact Or.inl h
    · exact Or.inr ⟨p', List.mem_cons_of_mem _ hp', ht, hq⟩

theorem dirFold_keep {c : Cfg} {tot : Nat → Nat} {th G : Nat} : ∀ (L : List (Vote × Nat)) (bl : Sel),
    (∀ p ∈ L, p.1.num = c.number p.1.blk) →
    ((G, c.number G) ∈ bl ∨ ∃ p ∈ L, p.1.blk = G ∧ th < tot G) →
    (G, c.number G) ∈ L.foldl (dirStep tot th) bl := by
  intro L
  induction L with
  | nil =>
    intro bl _ h
    rcases h with h | ⟨p, hp, _⟩
    · exact h
    · cases hp
  | cons p rest ih =>
    intro bl hnum h
    rw [List.foldl_cons]
    apply ih _ (fun p' hp' => hnum p' (List.mem_cons_of_mem _ hp'))
    have hpn := hnum p List.mem_cons_self
    rcases h with h | ⟨p', hp', hpb, ht⟩
    · left
      unfold dirStep
      split
      · rw [hpn]; exact mem_aset_keep c.number h
      · exact h
    · rcases List.mem_cons.1 hp' with rfl | hp'
      · left
        unfold dirStep
        rw [hpb, if_pos ht, hpn, hpb]
        exact mem_aset_self _ _ _
      · exact Or.inr ⟨p', hp', hpb, ht⟩

/-! ### the second loop: `getPossibleSelectedAncestors` from every direct vote -/

theorem ancFold_sound {c : Cfg} (hw : c.t.WF) {tot : Nat → Nat} {th : Nat} {va : List Vote}
    (hva : KnownKeys c va) (f : Nat) : ∀ (L : List (Vote × Nat)) (bl : Sel),
    (∀ p ∈ L, c.fin ∈ c.t.chain p.1.blk) → SelOK c tot th bl →
    SelOK c tot th (L.foldl (fun bl p => psa c tot th va f p.1.blk bl) bl) := by
  intro L
  induction L with
  | nil => intro bl _ h; exact h
  | cons p rest ih =>
    intro bl hk h
    rw [List.foldl_cons]
    exact ih _ (fun p' hp' => hk p' (List.mem_cons_of_mem _ hp'))
      (psa_sound hw hva f _ _ (hk p List.mem_cons_self) h)

theorem ancFold_keep {c : Cfg} {tot : Nat → Nat} {th G : Nat} {va : List Vote} (f : Nat) :
    ∀ (L : List (Vote × Nat)) (bl : Sel), (G, c.number G) ∈ bl →
    (G, c.number G) ∈ L.foldl (fun bl p => psa c tot th va f p.1.blk bl) bl := by
  intro L
  induction L with
  | nil => intro bl h; exact h
  | cons p rest ih =>
    intro bl h
    rw [List.foldl_cons]
    exact ih _ (psa_keep f _ _ h)

theorem ancFold_complete {c : Cfg} {tot : Nat → Nat} {th x G : Nat} {va : List Vote} (hG : th < tot G)
    (hne : ∀ v ∈ va, v.blk ≠ x → lca c.t v.blk x ≠ some x)
    {y : Vote} (hy : y ∈ va) (hyx : y.blk ≠ x) (hl : lca c.t y.blk x = some G) (f : Nat) :
    ∀ (L : List (Vote × Nat)) (bl : Sel), (∃ p ∈ L, p.1.blk = x) →
    (G, c.number G) ∈ L.foldl (fun bl p => psa c tot th va (f + 1) p.1.blk bl) bl := by
  intro L
  induction L with
  | nil => intro bl h; obtain ⟨p, hp, _⟩ := h; cases hp
  | cons p rest ih =>
    intro bl h
    rw [List.foldl_cons]
    obtain ⟨p', hp', hpx⟩ := h
    rcases List.mem_cons.1 hp' with rfl | hp'
    · apply ancFold_keep
      rw [hpx]
      exact psa_complete hG hne hy hyx hl f bl
    · exact ih _ ⟨p', hp', hpx⟩

/-! ### `getPossibleSelectedBlocks` -/

/-- what `getPossibleSelectedBlocks` returns, whatever the iteration orders -/
structure PsbChar (c : Cfg) (votes : List (Nat × Vote)) (e th : Nat) (sel : Sel) : Prop where
  /-- only blocks of the tree with more than `th` total votes, stored with their own number -/
  ok : SelOK c (fun b => cnt c.t votes b + e) th sel
  /-- every directly voted block with more than `th` total votes -/
  direct : ∀ kv ∈ votes, th < cnt c.t votes kv.2.blk + e → (kv.2.blk, c.number kv.2.blk) ∈ sel
  /-- and nothing else as soon as there is one (the early return) -/
  onlyDirect : (∃ kv ∈ votes, th < cnt c.t votes kv.2.blk + e) → ∀ q ∈ sel, ∃ kv ∈ votes, kv.2.blk = q.1
  /-- otherwise every block of maximal depth among those with more than `th` total votes -/
  complete : (∀ kv ∈ votes, cnt c.t votes kv.2.blk + e ≤ th) → votes ≠ [] → ∀ G, G < c.t.size →
    th < cnt c.t votes G + e → (∀ b, b < c.t.size → th < cnt c.t votes b + e → c.t.depth b ≤ c.t.depth G) →
    (G, c.number G) ∈ sel
  /-- nothing without votes -/
  nil : votes = [] → sel = []

theorem psb_nil (c : Cfg) (o : Ord) (ho : o.Valid) (e th : Nat) : psb c o [] e th = [] := by
  have h0 : (o [0]).votes ([] : List (Vote × Nat)) = [] := List.Perm.eq_nil ((ho [0]).1 [])
  have h1 : (o [1]).votes ([] : List (Vote × Nat)) = [] := List.Perm.eq_nil ((ho [1]).1 [])
  simp [psb, directVotes, h0, h1]

theorem total_fun_eq (t : Tree) (votes : List (Nat × Vote)) (e : Nat) :
    total t (directVotes votes) e = fun b => cnt t votes b + e := funext (total_eq t votes e)

theorem mem_dv_of_vote {votes : List (Nat × Vote)} {kv : Nat × Vote} (h : kv ∈ votes) :
    ∃ p ∈ directVotes votes, p.1 = kv.2 := by
  have : kv.2 ∈ (directVotes votes).map (·.1) := mem_keys_directVotes.2 ⟨kv, h, rfl⟩
  obtain ⟨p, hp, he⟩ := List.mem_map.1 this
  exact ⟨p, hp, he⟩

theorem vote_of_mem_dv {votes : List (Nat × Vote)} {p : Vote × Nat} (h : p ∈ directVotes votes) :
    ∃ kv ∈ votes, kv.2 = p.1 :=
  mem_keys_directVotes.1 (List.mem_map.2 ⟨p, h, rfl⟩)

theorem psb_char {c : Cfg} (hw : c.t.WF) {votes : List (Nat × Vote)} (hg : GoodVotes c votes) {o : Ord}
    (ho : o.Valid) (e th : Nat) : PsbChar c votes e th (psb c o votes e th) := by
  have hL0 : ∀ p, p ∈ (o [0]).votes (directVotes votes) ↔ p ∈ directVotes votes :=
    fun p => ((ho [0]).1 _).mem_iff
  have hL1 : ∀ p, p ∈ (o [1]).votes (directVotes votes) ↔ p ∈ directVotes votes :=
    fun p => ((ho [1]).1 _).mem_iff
  have hva : ∀ v, v ∈ (o [2]).keys ((directVotes votes).map (·.1)) ↔ ∃ kv ∈ votes, kv.2 = v :=
    fun v => (((ho [2]).2.1 _).mem_iff).trans mem_keys_directVotes
  have hnum : ∀ p ∈ (o [0]).votes (directVotes votes), p.1.num = c.number p.1.blk := by
    intro p hp
    obtain ⟨kv, hkv, he⟩ := vote_of_mem_dv ((hL0 p).1 hp)
    rw [← he]; exact (hg kv hkv).2.2
  unfold psb
  simp only [total_fun_eq]
  by_cases hb : ((o [0]).votes (directVotes votes)).foldl
      (dirStep (fun b => cnt c.t votes b + e) th) [] = []
  · -- nothing selected directly: the ancestor search
    rw [hb]
    simp only [List.isEmpty_nil, Bool.not_true, Bool.false_eq_true, if_false]
    have hD : ∀ kv ∈ votes, cnt c.t votes kv.2.blk + e ≤ th := by
      intro kv hkv
      apply Classical.byContradiction
      intro hn
      obtain ⟨p, hp, he⟩ := mem_dv_of_vote hkv
      have := dirFold_keep (c := c) (tot := fun b => cnt c.t votes b + e) (th := th) (G := kv.2.blk)
        _ [] hnum (Or.inr ⟨p, (hL0 p).2 hp, by rw [he], by omega⟩)
      rw [hb] at this
      cases this
    have hkeys : KnownKeys c ((o [2]).keys ((directVotes votes).map (·.1))) := by
      intro v hv
      obtain ⟨kv, hkv, he⟩ := (hva v).1 hv
      rw [← he]; exact ⟨(hg kv hkv).1, (hg kv hkv).2.1⟩
    refine ⟨?_, ?_, ?_, ?_, ?_⟩
    · apply ancFold_sound hw hkeys
      · intro p hp
        obtain ⟨kv, hkv, he⟩ := vote_of_mem_dv ((hL1 p).1 hp)
        rw [← he]; exact (hg kv hkv).2.1
      · intro q hq; cases hq
    · intro kv hkv ht
      have := hD kv hkv
      omega
    · rintro ⟨kv, hkv, ht⟩
      have := hD kv hkv
      omega
    · intro _ hne G hG hGt hmax
      obtain ⟨kx, hkx, ky, hky, hyx, hl, hnr⟩ := exists_split hw hg.known hG hGt hD hmax hne
      obtain ⟨p, hp, hpe⟩ := mem_dv_of_vote hkx
      apply ancFold_complete (x := kx.2.blk) (y := ky.2) (tot := fun b => cnt c.t votes b + e) hGt
      · intro v hv hvx
        obtain ⟨kv, hkv, he⟩ := (hva v).1 hv
        rw [← he] at hvx ⊢
        exact hnr kv hkv hvx
      · exact (hva _).2 ⟨ky, hky, rfl⟩
      · exact hyx
      · exact hl
      · exact ⟨p, (hL1 p).2 hp, by rw [hpe]⟩
    · intro hv
      subst hv
      have := psb_nil c o ho e th
      unfold psb at this
      simp only [total_fun_eq] at this
      rw [hb] at this
      simpa using this
  · -- the first loop selected something: early return
    have hne : (!(((o [0]).votes (directVotes votes)).foldl
        (dirStep (fun b => cnt c.t votes b + e) th) []).isEmpty) = true := by
      cases hfold : ((o [0]).votes (directVotes votes)).foldl
        (dirStep (fun b => cnt c.t votes b + e) th) [] with
      | nil => exact absurd hfold hb
      | cons _ _ => rfl
    rw [if_pos hne]
    have hmem : ∀ q ∈ ((o [0]).votes (directVotes votes)).foldl
        (dirStep (fun b => cnt c.t votes b + e) th) [],
        ∃ kv ∈ votes, th < cnt c.t votes kv.2.blk + e ∧ q = (kv.2.blk, kv.2.num) := by
      intro q hq
      rcases dirFold_mem _ _ q hq with h | ⟨p, hp, ht, he⟩
      · cases h
      · obtain ⟨kv, hkv, hke⟩ := vote_of_mem_dv ((hL0 p).1 hp)
        exact ⟨kv, hkv, by rw [hke]; exact ht, by rw [hke]; exact he⟩
    refine ⟨?_, ?_, ?_, ?_, ?_⟩
    · intro q hq
      obtain ⟨kv, hkv, ht, he⟩ := hmem q hq
      subst he
      exact ⟨(hg kv hkv).1, (hg kv hkv).2.2, ht, (hg kv hkv).2.1⟩
    · intro kv hkv ht
      obtain ⟨p, hp, he⟩ := mem_dv_of_vote hkv
      exact dirFold_keep _ [] hnum (Or.inr ⟨p, (hL0 p).2 hp, by rw [he], ht⟩)
    · intro _ q hq
      obtain ⟨kv, hkv, _, he⟩ := hmem q hq
      exact ⟨kv, hkv, by rw [he]⟩
    · intro hD _ G _ _ _
      obtain ⟨q, hq⟩ := List.exists_mem_of_ne_nil _ hb
      obtain ⟨kv, hkv, ht, _⟩ := hmem q hq
      have := hD kv hkv
      omega
    · intro hv
      obtain ⟨q, hq⟩ := List.exists_mem_of_ne_nil _ hb
      obtain ⟨kv, hkv, _, _⟩ := hmem q hq
      subst hv
      cases hkv

end Gossamer.C21
