/-
C06, step 1: the trie-level shadow of the `triedb` operations.

`tInsert` / `tRemove` are the insert and remove inspectors of `triedb.go` written on the plain
`Trie` type (no handles, no database).  They are shown to be the in-memory trie's `insert`
(C01/C02 development) resp. to have the `lookup`/`Canon` behaviour of a map erase, so the whole
C01 development (`Canon`, `canon_unique`, `eq_buildN_of_canon`, `Rep`) carries over.
-/
import Gossamer.Lib.TrieRefine
import Gossamer.Model.C06
set_option linter.unusedSectionVars false
set_option linter.unusedSimpArgs false
namespace Gossamer.C06
open Gossamer Gossamer.Trie

/-! ### insert -/

def tInsertLeaf (pk : Nibs) (lv : Bytes) (key : Nibs) (value : Bytes) : Trie :=
  let common := C06.lcpLen pk key
  if common = pk.length ∧ common = key.length then leaf pk value
  else if common < pk.length then
    match pk.drop common with
    | idx :: prest =>
      if key.length = common then
        branch (key.take common) (some value) (setChild noChildren idx (leaf prest lv))
      else
        (match key.drop common with
          | j :: krest =>
            branch (key.take common) none
              (setChild (setChild noChildren idx (leaf prest lv)) j (leaf krest value))
          | [] => nil)
    | [] => nil
  else
    match key.drop common with
    | j :: krest => branch pk (some lv) (setChild noChildren j (leaf krest value))
    | [] => nil

def tInsert : Trie → Nibs → Bytes → Trie
  | nil, key, value => leaf key value
  | leaf pk lv, key, value => tInsertLeaf pk lv key value
  | branch pk bv cs, key, value =>
    let common := C06.lcpLen key pk
    if common = pk.length ∧ common = key.length then branch pk (some value) cs
    else if common < pk.length then
      match pk.drop common with
      | ix :: prest =>
        if key.length = common then
          branch (pk.take common) (some value) (setChild noChildren ix (branch prest bv cs))
        else
          (match key.drop common with
            | j :: krest =>
              branch (pk.take common) none
                (setChild (setChild noChildren ix (branch prest bv cs)) j (leaf krest value))
            | [] => nil)
      | [] => nil
    else
      match key.drop common with
      | idx :: krest => branch pk bv (setChild cs idx (tInsert (cs idx) krest value))
      | [] => nil

theorem lcpLen_eq (a b : Nibs) : C06.lcpLen a b = Trie.lcpLen a b := by
  induction a generalizing b with
  | nil => cases b <;> rfl
  | cons x xs ih => cases b with
    | nil => rfl
    | cons y ys => simp [C06.lcpLen, Trie.lcpLen, ih]

theorem lcpLen_comm (a b : Nibs) : Trie.lcpLen a b = Trie.lcpLen b a := by
  induction a generalizing b with
  | nil => cases b <;> rfl
  | cons x xs ih => cases b with
    | nil => rfl
    | cons y ys =>
      by_cases h : x = y
      · subst h; simp [Trie.lcpLen, ih]
      · have h' : ¬ y = x := fun e => h e.symm
        simp [Trie.lcpLen, h, h']

theorem lcpLen_append (c a b : Nibs) : Trie.lcpLen (c ++ a) (c ++ b) = c.length + Trie.lcpLen a b := by
  induction c with
  | nil => simp
  | cons x xs ih => simp [Trie.lcpLen, ih]; omega

theorem lcpLen_self_append (c b : Nibs) : Trie.lcpLen c (c ++ b) = c.length := by
  have := lcpLen_append c [] b
  simp at this
  rw [this]
  cases b <;> simp [Trie.lcpLen]

theorem tInsertLeaf_eq (pk : Nibs) (lv : Bytes) (key : Nibs) (value : Bytes) :
    tInsertLeaf pk lv key value = insertInLeaf pk lv key value := by
  unfold tInsertLeaf insertInLeaf
  rw [lcpLen_eq, lcpLen_comm pk key]
  obtain ⟨c, ka, pa, rfl, rfl, h3, h4⟩ := lcp_split key pk
  rw [h3]
  cases pa with
  | nil =>
    cases ka with
    | nil => simp
    | cons j krest =>
      have hne : ¬ (c ++ [] = c ++ j :: krest) := by simp
      simp [hne]
  | cons i prest =>
    cases ka with
    | nil =>
      have hne : ¬ (c ++ i :: prest = c ++ []) := by simp
      simp [hne]
    | cons j krest =>
      have hne : ¬ (c ++ i :: prest = c ++ j :: krest) := by
        intro e
        have := List.append_cancel_left e
        simp at this
        exact h4 j krest i prest rfl rfl this.1.symm
      simp [hne]

theorem tInsert_eq (t : Trie) (key : Nibs) (value : Bytes) :
    tInsert t key value = Trie.insert t key value := by
  induction t generalizing key with
  | nil => rfl
  | leaf pk lv => simp only [tInsert, Trie.insert]; exact tInsertLeaf_eq pk lv key value
  | branch pk bv cs ih =>
    simp only [tInsert, Trie.insert]
    rw [lcpLen_eq]
    obtain ⟨c, ka, pa, rfl, rfl, h3, h4⟩ := lcp_split key pk
    rw [h3]
    cases pa with
    | nil =>
      cases ka with
      | nil => simp
      | cons j krest =>
        have hne : ¬ (c ++ j :: krest = c ++ []) := by simp
        simp [hne, isPrefixOf_append_self, ih]
    | cons i prest =>
      have hpre : (c ++ i :: prest).isPrefixOf (c ++ ka) = false := by
        rw [isPrefixOf_append_left]
        cases ka with
        | nil => rfl
        | cons j krest =>
          have : i ≠ j := fun e => h4 j krest i prest rfl rfl e.symm
          simp [List.isPrefixOf, this]
      have hpre2 : ¬ (c ++ i :: prest <+: c ++ ka) := by
        rw [← List.isPrefixOf_iff_prefix]; simp [hpre]
      cases ka with
      | nil =>
        have hne : ¬ (c ++ [] = c ++ i :: prest) := by simp
        simp at hpre2
        simp [hne, hpre, hpre2]
      | cons j krest =>
        have hne : ¬ (c ++ j :: krest = c ++ i :: prest) := by
          intro e
          have := List.append_cancel_left e
          simp at this
          exact h4 j krest i prest rfl rfl this.1
        simp [hne, hpre]

/-! ### remove -/

/-- `removeInspector` + `fix` on the plain trie (`fix` is `handleDeletion` of the in-memory trie
    called with the branch's own partial key) -/
def tDropValue (pk : Nibs) (bv : Option Bytes) (cs : Nib → Trie) : Trie :=
  match bv with
  | some _ => handleDeletion pk none cs pk
  | none => branch pk none cs

def tRemove : Trie → Nibs → Trie
  | nil, _ => nil
  | leaf pk v, key => if pk = key then nil else leaf pk v
  | branch pk bv cs, key =>
    if key = pk then tDropValue pk bv cs
    else if pk.isPrefixOf key then
      match key.drop pk.length with
      | idx :: krest =>
        if (cs idx).isNil then branch pk bv cs
        else if (tRemove (cs idx) krest).isNil then handleDeletion pk bv (setChild cs idx nil) pk
        else branch pk bv (setChild cs idx (tRemove (cs idx) krest))
      | [] => branch pk bv cs
    else branch pk bv cs

theorem drop_len_append (pk : Nibs) (r : Nibs) : (pk ++ r).drop pk.length = r := by simp

theorem lookup_tRemove (t : Trie) (key k' : Nibs) :
    lookup (tRemove t key) k' = if k' = key then none else lookup t k' := by
  induction t generalizing key k' with
  | nil => simp [tRemove]
  | leaf pk v =>
    simp only [tRemove]
    by_cases h : pk = key
    · subst h; by_cases h2 : k' = pk <;> simp [h2]
    · simp only [h, if_false, lookup_leaf]
      by_cases h2 : k' = key
      · subst h2
        have : ¬ k' = pk := fun e => h e.symm
        simp [this]
      · simp [h2]
  | branch pk bv cs ih =>
    simp only [tRemove]
    rcases key_cases pk key with rfl | ⟨idx, krest, rfl⟩ | hoff
    · -- the key of the branch itself
      simp only [if_true]
      have hgen : ∀ k', lookup (branch key none cs) k' =
          if k' = key then none else lookup (branch key bv cs) k' := by
        intro k'
        rcases key_cases key k' with rfl | ⟨j, q, rfl⟩ | hoff
        · simp [lookup_branch_self]
        · simp [lookup_branch_child, append_cons_ne_self]
        · simp [lookup_branch_off _ _ _ _ hoff, isPrefixOf_false_ne hoff]
      cases bv with
      | none => exact hgen k'
      | some x =>
        simp only [tDropValue]
        rw [lookup_handleDeletion key none cs key (by simp)]
        exact hgen k'
    · -- below child `idx`
      have hne : ¬ (pk ++ idx :: krest = pk) := append_cons_ne_self pk idx krest
      simp only [hne, if_false, isPrefixOf_append_self, if_true, drop_len_append]
      have hset : ∀ (c : Trie), (∀ q, lookup c q = if q = krest then none else lookup (cs idx) q) →
          lookup (branch pk bv (setChild cs idx c)) k' =
            if k' = pk ++ idx :: krest then none else lookup (branch pk bv cs) k' := by
        intro c hc
        rcases key_cases pk k' with rfl | ⟨j, q, rfl⟩ | hoff
        · simp [lookup_branch_self, self_ne_append_cons]
        · rw [lookup_branch_child, lookup_branch_child]
          by_cases hj : j = idx
          · subst hj
            simp only [setChild, if_true, hc q]
            by_cases hq : q = krest <;> simp [hq]
          · have : ¬ (pk ++ j :: q = pk ++ idx :: krest) := by
              intro e; have := List.append_cancel_left e; simp at this; exact hj this.1
            simp [setChild_other _ _ _ _ hj, this]
        · simp [lookup_branch_off _ _ _ _ hoff, off_ne_append hoff]
      by_cases hnil : (cs idx).isNil = true
      · simp only [hnil, if_true]
        have hc : cs idx = nil := (isNil_iff _).mp hnil
        have := hset (cs idx) (by intro q; simp [hc])
        have hs : setChild cs idx (cs idx) = cs := by
          funext j; by_cases hj : j = idx <;> simp [setChild, hj]
        rw [hs] at this
        exact this
      · simp only [hnil, Bool.false_eq_true, if_false]
        by_cases hr : (tRemove (cs idx) krest).isNil = true
        · simp only [hr, if_true]
          rw [lookup_handleDeletion pk bv _ pk (fun _ => isPrefixOf_self pk)]
          refine hset nil ?_
          intro q
          have := ih idx krest q
          rw [(isNil_iff _).mp hr] at this
          simpa using this
        · simp only [hr, Bool.false_eq_true, if_false]
          exact hset _ (fun q => ih idx krest q)
    · -- the key leaves the partial key
      have hne : ¬ (key = pk) := isPrefixOf_false_ne hoff
      simp only [hne, if_false, hoff, Bool.false_eq_true]
      by_cases h2 : k' = key
      · subst h2; simp [lookup_branch_off _ _ _ _ hoff]
      · simp [h2]

theorem canon_tRemove (t : Trie) (key : Nibs) (h : Canon t) : Canon (tRemove t key) := by
  induction t generalizing key with
  | nil => simp [tRemove]
  | leaf pk v => simp only [tRemove]; split <;> simp
  | branch pk bv cs ih =>
    have h' := h
    rw [canon_branch_iff] at h'
    obtain ⟨hcs, hcount⟩ := h'
    have hsome : ∃ i, cs i ≠ nil := by
      rcases hcount with ⟨i, _, _, hi, _⟩ | ⟨_, i, hi⟩ <;> exact ⟨i, hi⟩
    simp only [tRemove]
    split
    · cases bv with
      | some x => exact (canon_handleDeletion pk none cs pk hcs (Or.inr hsome)).2
      | none => exact h
    · split
      · split
        · rename_i idx krest _
          have hrest : ∀ c : Trie, Canon c → ∀ x, Canon (setChild cs idx c x) := by
            intro c hc x
            by_cases hx : x = idx
            · subst hx; simpa [setChild] using hc
            · rw [setChild_other _ _ _ _ hx]; exact hcs x
          split
          · exact h
          · split
            · refine (canon_handleDeletion pk bv _ pk (hrest nil trivial) ?_).2
              rcases hcount with ⟨a, b, hab, ha, hb⟩ | ⟨hv, _⟩
              · right
                by_cases hai : a = idx
                · refine ⟨b, ?_⟩
                  rw [setChild_other _ _ _ _ (fun e => hab (hai.trans e.symm))]; exact hb
                · exact ⟨a, by rw [setChild_other _ _ _ _ hai]; exact ha⟩
              · exact Or.inl hv
            · rename_i hnn
              have hc' : tRemove (cs idx) krest ≠ nil := fun e => hnn (by rw [e]; rfl)
              rw [canon_branch_iff]
              refine ⟨hrest _ (ih idx krest (hcs idx)), ?_⟩
              rcases hcount with ⟨a, b, hab, ha, hb⟩ | ⟨hv, a, ha⟩
              · left
                refine ⟨a, b, hab, ?_, ?_⟩
                · by_cases hai : a = idx
                  · subst hai; simpa [setChild] using hc'
                  · rw [setChild_other _ _ _ _ hai]; exact ha
                · by_cases hbi : b = idx
                  · subst hbi; simpa [setChild] using hc'
                  · rw [setChild_other _ _ _ _ hbi]; exact hb
              · right
                refine ⟨hv, a, ?_⟩
                by_cases hai : a = idx
                · subst hai; simpa [setChild] using hc'
                · rw [setChild_other _ _ _ _ hai]; exact ha
        · exact h
      · exact h

/-! ### the in-memory image of a trie: every node a `NewStoredNode` -/

def ofTrie (ver : Ver) : Trie → Hd
  | nil => .none
  | leaf pk v => .leaf none pk (newValue ver v)
  | branch pk v cs => .branch none pk (v.map (newValue ver)) (fun i => ofTrie ver (cs i))

theorem ofTrie_kids_set (ver : Ver) (cs : Nib → Trie) (idx : Nib) (c : Trie) :
    (fun i => ofTrie ver (setChild cs idx c i)) =
      Hd.setKid (fun i => ofTrie ver (cs i)) idx (ofTrie ver c) := by
  funext i
  by_cases h : i = idx <;> simp [setChild, Hd.setKid, h]

theorem ofTrie_noChildren (ver : Ver) : (fun i => ofTrie ver (noChildren i)) = Hd.noKids := by
  funext i; rfl

theorem ofTrie_isNone (ver : Ver) (t : Trie) : (ofTrie ver t).isNone = t.isNil := by
  cases t <;> rfl

theorem ofTrie_asNew (ver : Ver) (t : Trie) : (ofTrie ver t).asNew = ofTrie ver t := by
  cases t <;> rfl

theorem ofTrie_cached (ver : Ver) (t : Trie) : (ofTrie ver t).cached = none := by
  cases t <;> rfl

theorem replaceOldValue_new (ver : Ver) (d : Death) (k : Nibs) (v : Bytes) :
    replaceOldValue d k (some (newValue ver v)) = d := by
  unfold newValue; split <;> rfl

theorem replaceOldValue_map_new (ver : Ver) (d : Death) (k : Nibs) (v : Option Bytes) :
    replaceOldValue d k (v.map (newValue ver)) = d := by
  cases v with
  | none => rfl
  | some x => exact replaceOldValue_new ver d k x

theorem afterInspect_new (ver : Ver) (old : Trie) (pre : Nibs) (d : Death) (ch : Bool) (t : Trie) :
    afterInspect (ofTrie ver old) pre d ch (ofTrie ver t) = (ofTrie ver t, ch, d) := by
  simp [afterInspect, ofTrie_cached, ofTrie_asNew]

theorem resolve_ofTrie (e : Env) (pre : Nibs) (t : Trie) (h : t ≠ nil) :
    e.resolve pre (ofTrie e.ver t) = .ok (ofTrie e.ver t) := by
  cases t with
  | nil => exact absurd rfl h
  | leaf pk v => rfl
  | branch pk v cs => rfl

theorem insertLeaf_ofTrie (ver : Ver) (pre pk : Nibs) (lv : Bytes) (key : Nibs) (value : Bytes)
    (d : Death) :
    (insertLeaf ver pre pk (newValue ver lv) key value d).2 =
      (ofTrie ver (tInsertLeaf pk lv key value), d) := by
  unfold insertLeaf tInsertLeaf
  rw [lcpLen_eq]
  obtain ⟨c, pa, ka, rfl, rfl, h3, h4⟩ := lcp_split pk key
  rw [h3]
  cases pa with
  | nil =>
    cases ka with
    | nil => simp [ofTrie, replaceOldValue_new]
    | cons j krest => simp [ofTrie, ofTrie_kids_set, ofTrie_noChildren]
  | cons i prest =>
    cases ka with
    | nil => simp [ofTrie, ofTrie_kids_set, ofTrie_noChildren]
    | cons j krest => simp [ofTrie, ofTrie_kids_set, ofTrie_noChildren]

/-- On an all-new in-memory tree `insertAt` computes the image of `tInsert`, never fails and
    leaves the deathRow alone. -/
theorem insertAt_ofTrie (e : Env) (t : Trie) (ht : t ≠ nil) :
    ∀ (fuel : Nat) (pre key : Nibs) (value : Bytes) (d : Death), key.length < fuel →
      ∃ ch, insertAt e fuel (ofTrie e.ver t) pre key value d =
        .ok (ofTrie e.ver (tInsert t key value), ch, d) := by
  induction t with
  | nil => exact absurd rfl ht
  | leaf pk lv =>
    intro fuel pre key value d hf
    obtain ⟨f, rfl⟩ : ∃ f, fuel = f + 1 := ⟨fuel - 1, by omega⟩
    have h2 := insertLeaf_ofTrie e.ver pre pk lv key value d
    refine ⟨(insertLeaf e.ver pre pk (newValue e.ver lv) key value d).1, ?_⟩
    have hr := resolve_ofTrie e pre (leaf pk lv) (by simp)
    simp only [insertAt, insertNode, hr]
    simp only [ofTrie]
    have h21 := congrArg Prod.fst h2
    have h22 := congrArg Prod.snd h2
    simp only at h21 h22
    rw [h21, h22]
    have := afterInspect_new e.ver (leaf pk lv) pre d
      (insertLeaf e.ver pre pk (newValue e.ver lv) key value d).1 (tInsertLeaf pk lv key value)
    simp only [ofTrie] at this
    rw [this]
    rfl
  | branch pk bv cs ih =>
    intro fuel pre key value d hf
    obtain ⟨f, rfl⟩ : ∃ f, fuel = f + 1 := ⟨fuel - 1, by omega⟩
    have hr := resolve_ofTrie e pre (branch pk bv cs) (by simp)
    have hai : ∀ ch t', afterInspect (ofTrie e.ver (branch pk bv cs)) pre d ch (ofTrie e.ver t') =
        (ofTrie e.ver t', ch, d) := fun ch t' => afterInspect_new e.ver _ pre d ch t'
    simp only [insertAt, insertNode, hr]
    simp only [ofTrie] at hai ⊢
    simp only [tInsert]
    rw [lcpLen_eq]
    obtain ⟨c, ka, pa, rfl, rfl, h3, h4⟩ := lcp_split key pk
    rw [h3]
    cases pa with
    | nil =>
      simp only [List.append_nil] at hai hf ⊢
      cases ka with
      | nil =>
        refine ⟨!(optEqual (Option.map (newValue e.ver) bv) (newValue e.ver value)), ?_⟩
        simp only [List.append_nil, and_self, if_true, replaceOldValue_map_new]
        have := hai (!(optEqual (Option.map (newValue e.ver) bv) (newValue e.ver value)))
          (branch c (some value) cs)
        simp only [ofTrie, Option.map_some] at this
        rw [this]
        rfl
      | cons idx krest =>
        have hklen : krest.length < f := by simp at hf; omega
        have hc1 : ¬ (True ∧ c.length = (c ++ idx :: krest).length) := by simp
        have hc2 : ¬ (c.length < c.length) := by simp
        simp only [hc1, hc2, if_false, List.drop_left']
        by_cases hnil : (cs idx).isNil = true
        · refine ⟨true, ?_⟩
          have hc : cs idx = nil := (isNil_iff _).mp hnil
          simp only [ofTrie_isNone, hnil, if_true]
          have := hai true (branch c bv (setChild cs idx (leaf krest value)))
          simp only [ofTrie, ofTrie_kids_set] at this
          rw [this, hc]
          simp only [tInsert, ofTrie, ofTrie_kids_set]
        · have hc : cs idx ≠ nil := fun e => hnil ((isNil_iff _).mpr e)
          obtain ⟨ch, hch⟩ := ih idx hc f (pre ++ c ++ [idx]) krest value d hklen
          refine ⟨ch, ?_⟩
          simp only [ofTrie_isNone, hnil, Bool.false_eq_true, if_false, hch]
          have := hai ch (branch c bv (setChild cs idx (tInsert (cs idx) krest value)))
          simp only [ofTrie, ofTrie_kids_set] at this
          rw [this]
          simp only [ofTrie, ofTrie_kids_set]
    | cons ix prest =>
      have hc1 : ∀ x, ¬ (c.length = (c ++ ix :: prest).length ∧ x) := by
        intro x hx; simp at hx
      have hc2 : c.length < (c ++ ix :: prest).length := by simp
      simp only [hc1, hc2, if_false, if_true, List.drop_left', List.take_left']
      cases ka with
      | nil =>
        refine ⟨true, ?_⟩
        simp only [List.append_nil, if_true]
        have := hai true (branch c (some value) (setChild noChildren ix (branch prest bv cs)))
        simp only [ofTrie, Option.map_some, ofTrie_kids_set, ofTrie_noChildren] at this
        rw [this]
        simp only [ofTrie, Option.map_some, ofTrie_kids_set, ofTrie_noChildren]
      | cons j krest =>
        refine ⟨true, ?_⟩
        have hc3 : ¬ ((c ++ j :: krest).length = c.length) := by simp
        simp only [hc3, if_false, List.drop_left']
        have := hai true (branch c none
          (setChild (setChild noChildren ix (branch prest bv cs)) j (leaf krest value)))
        simp only [ofTrie, Option.map_none, ofTrie_kids_set, ofTrie_noChildren] at this
        rw [this]
        simp only [ofTrie, Option.map_none, ofTrie_kids_set, ofTrie_noChildren]

/-! ### remove on the in-memory image -/

theorem usedIdx_ofTrie (ver : Ver) (cs : Nib → Trie) :
    usedIdx (fun i => ofTrie ver (cs i)) = childIdx cs := by
  simp [usedIdx, childIdx, ofTrie_isNone]

theorem lcpLen_self (pk : Nibs) : Trie.lcpLen pk pk = pk.length := by
  have := lcpLen_self_append pk []
  simpa using this

/-- `fix` on the image of a branch that keeps a value or a child is the image of the in-memory
    trie's `handleDeletion` -/
theorem fix_ofTrie (e : Env) (pre pk : Nibs) (bv : Option Bytes) (cs : Nib → Trie) (d : Death)
    (hne : bv.isSome = true ∨ ∃ i, cs i ≠ nil) :
    fix e pre pk (bv.map (newValue e.ver)) (fun i => ofTrie e.ver (cs i)) d =
      .ok (ofTrie e.ver (handleDeletion pk bv cs pk), d) := by
  unfold fix handleDeletion
  rw [usedIdx_ofTrie]
  rcases childIdx_cases cs with h0 | ⟨i, h1⟩ | ⟨i, j, _, _, _, r, h2⟩
  · rw [h0]
    cases bv with
    | some x => simp [ofTrie, lcpLen_self]
    | none =>
      rcases hne with h | ⟨i, hi⟩
      · simp at h
      · exact absurd (childIdx_nil h0 i) hi
  · rw [h1]
    cases bv with
    | some x => simp [ofTrie]
    | none =>
      have hci : cs i ≠ nil := (childIdx_single h1 i).mpr rfl
      simp only [Option.map_none]
      rw [resolve_ofTrie e _ (cs i) hci]
      cases hc : cs i with
      | nil => exact absurd hc hci
      | leaf cpk cv => simp [ofTrie, Hd.cached, fixMerge, childDeath]
      | branch cpk cv ccs => simp [ofTrie, Hd.cached, fixMerge, childDeath]
  · rw [h2]
    cases bv <;> simp [ofTrie]

/-- On an all-new in-memory tree of a canonical trie `removeAt` computes the image of `tRemove`
    (`none` when the node disappears), never fails and leaves the deathRow alone. -/
theorem removeAt_ofTrie (e : Env) (t : Trie) (ht : t ≠ nil) (hcan : Canon t) :
    ∀ (fuel : Nat) (pre key : Nibs) (d : Death), key.length < fuel →
      ∃ ch, removeAt e fuel (ofTrie e.ver t) pre key d =
        .ok (if (tRemove t key).isNil then none else some (ofTrie e.ver (tRemove t key), ch), d) := by
  induction t with
  | nil => exact absurd rfl ht
  | leaf pk lv =>
    intro fuel pre key d hf
    obtain ⟨f, rfl⟩ : ∃ f, fuel = f + 1 := ⟨fuel - 1, by omega⟩
    have hr := resolve_ofTrie e pre (leaf pk lv) (by simp)
    simp only [removeAt, removeNode, removeKeep, removeFixed, hr]
    simp only [ofTrie, tRemove]
    by_cases hk : pk = key
    · subst hk
      refine ⟨true, ?_⟩
      simp [afterDelete, Hd.cached, replaceOldValue_new, Trie.isNil]
    · refine ⟨false, ?_⟩
      have := afterInspect_new e.ver (leaf pk lv) pre d false (leaf pk lv)
      simp only [ofTrie] at this
      simp [hk, this, Trie.isNil, ofTrie]
  | branch pk bv cs ih =>
    intro fuel pre key d hf
    obtain ⟨f, rfl⟩ : ∃ f, fuel = f + 1 := ⟨fuel - 1, by omega⟩
    have h' := hcan
    rw [canon_branch_iff] at h'
    obtain ⟨hcs, hcount⟩ := h'
    have hsome : ∃ i, cs i ≠ nil := by
      rcases hcount with ⟨i, _, _, hi, _⟩ | ⟨_, i, hi⟩ <;> exact ⟨i, hi⟩
    have hr := resolve_ofTrie e pre (branch pk bv cs) (by simp)
    have hai : ∀ ch t', afterInspect (ofTrie e.ver (branch pk bv cs)) pre d ch (ofTrie e.ver t') =
        (ofTrie e.ver t', ch, d) := fun ch t' => afterInspect_new e.ver _ pre d ch t'
    simp only [removeAt, removeNode, removeKeep, removeFixed, hr]
    simp only [ofTrie] at hai ⊢
    simp only [tRemove]
    rw [lcpLen_eq]
    rcases key_cases pk key with rfl | ⟨idx, krest, rfl⟩ | hoff
    · -- the key of the branch itself
      simp only [lcpLen_self, and_self, if_true]
      cases bv with
      | none =>
        refine ⟨false, ?_⟩
        have := hai false (branch key none cs)
        simp only [ofTrie, Option.map_none] at this
        simp [tDropValue, this, Trie.isNil, ofTrie]
      | some x =>
        refine ⟨true, ?_⟩
        have hfix := fix_ofTrie e pre key none cs d (Or.inr hsome)
        have hnn := (canon_handleDeletion key none cs key hcs (Or.inr hsome)).1
        simp only [Option.map_none] at hfix
        simp only [Option.map_some] at hai
        simp only [Option.map_some, replaceOldValue_new, hfix, tDropValue]
        have := hai true (handleDeletion key none cs key)
        rw [this]
        have : (handleDeletion key none cs key).isNil = false := by
          cases h : handleDeletion key none cs key <;> simp_all [Trie.isNil]
        simp [this]
    · -- below child `idx`
      have hklen : krest.length < f := by simp at hf; omega
      have hne : ¬ (pk ++ idx :: krest = pk) := append_cons_ne_self pk idx krest
      have hc1 : ¬ (pk.length = pk.length ∧ pk.length = (pk ++ idx :: krest).length) := by simp
      have hc1' : ¬ (True ∧ pk.length = (pk ++ idx :: krest).length) := by simp
      have hc2 : ¬ (pk.length < pk.length) := by simp
      simp only [lcpLen_self_append, hc1, hc1', hc2, if_false, List.drop_left', hne,
        isPrefixOf_append_self, if_true]
      by_cases hnil : (cs idx).isNil = true
      · refine ⟨false, ?_⟩
        have := hai false (branch pk bv cs)
        simp only [ofTrie] at this
        have hb : (branch pk bv cs).isNil = false := rfl
        simp only [ofTrie_isNone, hnil, if_true, this, hb, Bool.false_eq_true, if_false, ofTrie]
      · have hc : cs idx ≠ nil := fun e => hnil ((isNil_iff _).mpr e)
        obtain ⟨ch, hch⟩ := ih idx hc (hcs idx) f (pre ++ pk ++ [idx]) krest d hklen
        simp only [ofTrie_isNone, hnil, Bool.false_eq_true, if_false, hch]
        by_cases hr2 : (tRemove (cs idx) krest).isNil = true
        · refine ⟨true, ?_⟩
          have hne2 : bv.isSome = true ∨ ∃ i, setChild cs idx nil i ≠ nil := by
            rcases hcount with ⟨a, b, hab, ha, hb⟩ | ⟨hv, _⟩
            · right
              by_cases hai' : a = idx
              · refine ⟨b, ?_⟩
                rw [setChild_other _ _ _ _ (fun e => hab (hai'.trans e.symm))]; exact hb
              · exact ⟨a, by rw [setChild_other _ _ _ _ hai']; exact ha⟩
            · exact Or.inl hv
          have hfix := fix_ofTrie e pre pk bv (setChild cs idx nil) d hne2
          rw [ofTrie_kids_set] at hfix
          have hrest : ∀ x, Canon (setChild cs idx nil x) := by
            intro x
            by_cases hx : x = idx
            · subst hx; simp [setChild]
            · rw [setChild_other _ _ _ _ hx]; exact hcs x
          have hnn := (canon_handleDeletion pk bv (setChild cs idx nil) pk hrest hne2).1
          simp only [hr2, if_true]
          have h0 : ofTrie e.ver nil = Hd.none := rfl
          rw [h0] at hfix
          rw [hfix]
          have := hai true (handleDeletion pk bv (setChild cs idx nil) pk)
          simp only [this]
          have : (handleDeletion pk bv (setChild cs idx nil) pk).isNil = false := by
            cases h : handleDeletion pk bv (setChild cs idx nil) pk <;> simp_all [Trie.isNil]
          simp [this]
        · refine ⟨ch, ?_⟩
          simp only [hr2, Bool.false_eq_true, if_false]
          have := hai ch (branch pk bv (setChild cs idx (tRemove (cs idx) krest)))
          simp only [ofTrie, ofTrie_kids_set] at this
          cases ch <;> simp [this, Trie.isNil, ofTrie, ofTrie_kids_set]
    · -- the key leaves the partial key
      refine ⟨false, ?_⟩
      have hlt := lcpLen_lt_of_off hoff
      have hne : ¬ (key = pk) := isPrefixOf_false_ne hoff
      have hc1 : ¬ (Trie.lcpLen pk key = pk.length ∧ Trie.lcpLen pk key = key.length) := by
        intro h; omega
      have := hai false (branch pk bv cs)
      simp only [ofTrie] at this
      simp [hc1, hlt, hne, hoff, this, Trie.isNil, ofTrie]

end Gossamer.C06
