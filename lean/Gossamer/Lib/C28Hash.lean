/-
C28: the byte store used by the compiled driver (a hash map; absent = 0) and the proof that it is a
lawful store, so that every C28 theorem applies to the model the driver runs.
-/
import Std.Data.HashMap
import Gossamer.Lib.C28Mem
namespace Gossamer.C28

def hashStore : Store :=
  { σ := Std.HashMap Nat Nat, empty := {}, get := fun b a => b.getD a 0, set := fun b a v => b.insert a v }

theorem hashMap_getD_insert (b : Std.HashMap Nat Nat) (a v x : Nat) :
    (b.insert a v).getD x 0 = if x = a then v else b.getD x 0 := by
  rw [Std.HashMap.getD_insert]
  by_cases h : x = a
  · subst h; simp
  · have : ¬ a = x := fun e => h e.symm
    simp [h, this]

theorem hashStore_lawful : hashStore.Lawful := ⟨hashMap_getD_insert⟩

end Gossamer.C28
