/-
Bridge between the two developments C05 stands on (own file of C05; core Lean only):

* `TrieSpec`  : `Trie` (children as a function), `encodeNode ver H` — what C01 proves to be the
  encoding of the state;
* `TrieCodec` : `Node` (children as a list, UInt8 nibbles), `encode H`, `decode` — the codec C07
  proves to round-trip (`C07_node_roundtrip`).

`ofTrie ver t` is the codec node of a trie; `encode H (ofTrie ver t) = encodeNode ver H t`, hence
`decode (encodeNode ver H t) = view H (ofTrie ver t)`: what `node.Decode` returns for an honest
node encoding.
-/
import Gossamer.Lib.TrieSpec
import Gossamer.Lib.TrieMem
import Gossamer.Props.C07
namespace Gossamer.Bridge
open Gossamer Gossamer.TrieCodec Gossamer.C07

/-! ### nibbles as bytes -/

def nb (n : Nib) : UInt8 := UInt8.ofNat n.val

/-- a nibble key as the byte slice the Go code holds (one nibble per byte) -/
def nibB (k : Nibs) : Bytes := k.map nb

theorem nb_lt (n : Nib) : nb n < 16 := by revert n; decide

theorem nb_inj : ∀ {a b : Nib}, nb a = nb b → a = b := by decide

theorem nb_toNat (n : Nib) : (nb n).toNat = n.val := by revert n; decide

@[simp] theorem nibB_nil : nibB [] = [] := rfl
@[simp] theorem nibB_cons (a : Nib) (k : Nibs) : nibB (a :: k) = nb a :: nibB k := rfl
@[simp] theorem nibB_length (k : Nibs) : (nibB k).length = k.length := by simp [nibB]

theorem nibB_inj : ∀ {a b : Nibs}, nibB a = nibB b → a = b
  | [], [], _ => rfl
  | [], _ :: _, h => by simp at h
  | _ :: _, [], h => by simp at h
  | x :: a, y :: b, h => by
    simp only [nibB_cons, List.cons.injEq] at h
    rw [nb_inj h.1, nibB_inj h.2]

theorem nibB_eq_iff {a b : Nibs} : nibB a = nibB b ↔ a = b := ⟨nibB_inj, fun h => h ▸ rfl⟩

theorem nibB_drop (n : Nat) (k : Nibs) : (nibB k).drop n = nibB (k.drop n) := by
  simp [nibB, List.map_drop]

theorem nb_beq : ∀ a b : Nib, (nb a == nb b) = (a == b) := by decide

theorem nibB_isPrefixOf : ∀ (p k : Nibs), (nibB p).isPrefixOf (nibB k) = p.isPrefixOf k
  | [], _ => by simp
  | _ :: _, [] => by simp
  | a :: p, b :: k => by
    simp only [nibB_cons, List.isPrefixOf_cons_cons, nibB_isPrefixOf p k, nb_beq]

theorem nibbles_nibB (k : Nibs) : Nibbles (nibB k) := by
  intro x hx
  simp only [nibB, List.mem_map] at hx
  obtain ⟨n, _, rfl⟩ := hx
  exact nb_lt n

set_option maxRecDepth 8192 in
theorem byte_nibs_nat : ∀ n, n < 256 →
    [UInt8.ofNat n / 16, UInt8.ofNat n % 16] = [nb (hiNib (UInt8.ofNat n)), nb (loNib (UInt8.ofNat n))] := by
  decide

theorem byte_nibs (b : UInt8) : [b / 16, b % 16] = [nb (hiNib b), nb (loNib b)] := by
  have := byte_nibs_nat b.toNat b.toNat_lt
  rwa [UInt8.ofNat_toNat] at this

/-- `KeyLEToNibbles` of the codec model is `toNibs` -/
theorem keyLEToNibbles_eq (k : Bytes) : TrieCodec.keyLEToNibbles k = nibB (toNibs k) := by
  induction k with
  | nil => rfl
  | cons b r ih =>
    simp only [TrieCodec.keyLEToNibbles, List.flatMap_cons] at ih ⊢
    rw [ih, byte_nibs]; rfl

/-! ### header -/

theorem lenTail_lenRun : ∀ (f n : Nat), n / 255 + 1 ≤ f → lenTail f n = lenRun n := by
  intro f
  induction f with
  | zero => intro n h; omega
  | succ f ih =>
    intro n h
    rw [lenRun]
    simp only [lenTail]
    split
    · rfl
    · rw [ih (n - 255) (by omega)]

theorem bits_or_low : ∀ v ∈ nodeVariants, ∀ n, n < v.pklMask.toNat →
    v.bits ||| UInt8.ofNat n = UInt8.ofNat (v.bits.toNat + n) := by decide

theorem bits_or_mask : ∀ v ∈ nodeVariants,
    v.bits ||| v.pklMask = UInt8.ofNat (v.bits.toNat + v.pklMask.toNat) := by decide

theorem header_eq (v : Variant) (hv : v ∈ nodeVariants) (n : Nat) :
    encodeHeader v n = header v.bits.toNat v.pklMask.toNat n := by
  unfold encodeHeader header
  split
  · rw [bits_or_low v hv n (by assumption)]
  · rw [bits_or_mask v hv, lenTail_lenRun _ _ (by omega)]

/-! ### partial key -/

theorem pack_byte' : ∀ h l : Nib, ((nb h <<< 4) &&& 0xf0) ||| (nb l &&& 0x0f) = byteOf h l := by decide

theorem packPairs_nibB : ∀ k : Nibs, packPairs (nibB k) = packEven k
  | [] => rfl
  | [_] => rfl
  | h :: l :: r => by
    simp only [nibB_cons, packPairs, packEven, pack_byte', packPairs_nibB r]

theorem nibblesToKeyLE_nibB (k : Nibs) : nibblesToKeyLE (nibB k) = packNibs k := by
  unfold nibblesToKeyLE packNibs
  simp only [nibB_length]
  split
  · exact packPairs_nibB k
  · cases k with
    | nil => rfl
    | cons a r => simp only [nibB_cons, packPairs_nibB]; rfl

/-! ### SCALE byte slices -/

theorem compactEnc_eq (n : Nat) (h : n < 1073741824) : compactEnc n = compactNat n := by
  unfold compactEnc compactNat
  have e1 : (2:Nat) ^ 14 = 16384 := by decide
  have e2 : (2:Nat) ^ 30 = 1073741824 := by decide
  rw [e1, e2]
  simp [h]

theorem scaleEnc_eq (b : Bytes) (h : b.length < 1073741824) :
    scaleEncBytes b = Gossamer.scaleBytes b := by
  unfold scaleEncBytes Gossamer.scaleBytes
  rw [compactEnc_eq _ h]

theorem merkleValue_eq (H : Bytes → Bytes) (e : Bytes) :
    TrieCodec.merkleValue H e = Gossamer.merkleValue H e := rfl

theorem merkleValue_len (H : Bytes → Bytes) (hH : ∀ m, (H m).length = 32) (e : Bytes) :
    (Gossamer.merkleValue H e).length ≤ 32 := by
  unfold Gossamer.merkleValue
  split
  · omega
  · rw [hH]; omega

/-! ### the codec node of a trie -/

/-- `MustBeHashed` of a node with (optional) value `v` -/
def hashedFlag (ver : Ver) : Option Bytes → Bool
  | some x => mustBeHashed ver x
  | none => false

def ofTrie (ver : Ver) : Trie → Node
  | .nil => .empty
  | .leaf pk v => .leaf (nibB pk) (some v) (mustBeHashed ver v)
  | .branch pk v cs =>
    .branch (nibB pk) v (hashedFlag ver v) ((List.finRange 16).map fun i => ofTrie ver (cs i))

/-- sizes the node format can hold: partial keys of at most 65535 nibbles (the Go encoder panics
    beyond), values shorter than 2^30 bytes -/
def WFT : Trie → Prop
  | .nil => True
  | .leaf pk v => pk.length ≤ 65535 ∧ v.length < 1073741824
  | .branch pk v cs =>
    pk.length ≤ 65535 ∧ (∀ x, v = some x → x.length < 1073741824) ∧ ∀ i, WFT (cs i)

theorem eq_nil_of_isNil {t : Trie} (h : t.isNil = true) : t = Trie.nil := by
  cases t <;> simp [Trie.isNil] at h ⊢

theorem ofTrie_isEmpty (ver : Ver) (t : Trie) : (ofTrie ver t).isEmpty = t.isNil := by
  cases t <;> rfl

theorem ofTrie_isReal (ver : Ver) (t : Trie) : isReal (ofTrie ver t) = !t.isNil := by
  cases t <;> rfl

/-! ### children bitmap -/

theorem presentKids_map (ver : Ver) (cs : Nib → Trie) (l : List Nib) :
    presentKids (l.map fun i => ofTrie ver (cs i)) = l.map fun i => !(cs i).isNil := by
  induction l with
  | nil => rfl
  | cons a r ih => simp only [List.map_cons, presentKids, ih, ofTrie_isEmpty]

theorem finRange16 : List.finRange 16 = [0, 1, 2, 3, 4, 5, 6, 7] ++ [8, 9, 10, 11, 12, 13, 14, 15] := by
  decide

theorem bm_lo : ∀ b0 b1 b2 b3 b4 b5 b6 b7 : Bool,
    bitmapNat [!b0, !b1, !b2, !b3, !b4, !b5, !b6, !b7] =
      (if b0 then 0 else 2 ^ 0) + ((if b1 then 0 else 2 ^ 1) + ((if b2 then 0 else 2 ^ 2) +
      ((if b3 then 0 else 2 ^ 3) + ((if b4 then 0 else 2 ^ 4) + ((if b5 then 0 else 2 ^ 5) +
      ((if b6 then 0 else 2 ^ 6) + ((if b7 then 0 else 2 ^ 7) + 0))))))) := by decide

theorem bm_hi : ∀ b0 b1 b2 b3 b4 b5 b6 b7 : Bool,
    2 ^ 8 * bitmapNat [!b0, !b1, !b2, !b3, !b4, !b5, !b6, !b7] =
      (if b0 then 0 else 2 ^ 8) + ((if b1 then 0 else 2 ^ 9) + ((if b2 then 0 else 2 ^ 10) +
      ((if b3 then 0 else 2 ^ 11) + ((if b4 then 0 else 2 ^ 12) + ((if b5 then 0 else 2 ^ 13) +
      ((if b6 then 0 else 2 ^ 14) + ((if b7 then 0 else 2 ^ 15) + 0))))))) := by decide

theorem bitmapNat_present (cs : Nib → Trie) :
    bitmapNat ((List.finRange 16).map fun i => !(cs i).isNil) = bitmap cs := by
  unfold bitmap
  rw [finRange16, List.map_append, List.map_append, bitmapNat_append, List.sum_append]
  simp only [List.map_cons, List.map_nil, List.length_cons, List.length_nil, List.sum_cons, List.sum_nil]
  rw [bm_lo, bm_hi]
  rfl

theorem bitmapBytes_eq (ver : Ver) (cs : Nib → Trie) :
    bitmapBytes (presentKids ((List.finRange 16).map fun i => ofTrie ver (cs i))) = leBytes 2 (bitmap cs) := by
  rw [presentKids_map]
  have hlt : bitmapNat ((List.finRange 16).map fun i => !(cs i).isNil) < 2 ^ 16 := by
    have := bitmapNat_lt ((List.finRange 16).map fun i => !(cs i).isNil)
    simpa using this
  rw [bitmapNat_present] at hlt
  unfold bitmapBytes
  rw [bitmapNat_present]
  have e : (2:Nat) ^ 16 = 65536 := by decide
  rw [e] at hlt
  simp only [leBytes]
  rw [Nat.mod_eq_of_lt hlt, Nat.mod_eq_of_lt (a := bitmap cs / 256) (by omega)]

/-! ### `encode H (ofTrie ver t) = encodeNode ver H t` -/

theorem variant_consts :
    leafV.bits.toNat = 0x40 ∧ leafV.pklMask.toNat = 0x3f ∧ leafHashedV.bits.toNat = 0x20 ∧
    leafHashedV.pklMask.toNat = 0x1f ∧ branchV.bits.toNat = 0x80 ∧ branchV.pklMask.toNat = 0x3f ∧
    branchValV.bits.toNat = 0xc0 ∧ branchValV.pklMask.toNat = 0x3f ∧
    branchHashedV.bits.toNat = 0x10 ∧ branchHashedV.pklMask.toNat = 0x0f := by decide

theorem leaf_header (ver : Ver) (v : Bytes) (n : Nat) :
    encodeHeader (leafVariantOf (mustBeHashed ver v)) n =
      (if mustBeHashed ver v then header 0x20 0x1f n else header 0x40 0x3f n) := by
  obtain ⟨a1, a2, a3, a4, _⟩ := variant_consts
  by_cases hm : mustBeHashed ver v = true
  · simp only [leafVariantOf, hm, if_true]
    rw [header_eq leafHashedV (by decide), a3, a4]
  · have hm' : mustBeHashed ver v = false := by simpa using hm
    simp only [leafVariantOf, hm', Bool.false_eq_true, if_false]
    rw [header_eq leafV (by decide), a1, a2]

theorem branch_header (ver : Ver) (v : Option Bytes) (n : Nat) :
    encodeHeader (branchVariantOf v (hashedFlag ver v)) n =
      (match v with
        | none => header 0x80 0x3f n
        | some x => if mustBeHashed ver x then header 0x10 0x0f n else header 0xc0 0x3f n) := by
  obtain ⟨_, _, _, _, a5, a6, a7, a8, a9, a10⟩ := variant_consts
  cases v with
  | none => simp only [branchVariantOf]; rw [header_eq branchV (by decide), a5, a6]
  | some x =>
    simp only [branchVariantOf, hashedFlag]
    by_cases hm : mustBeHashed ver x = true
    · simp only [hm, if_true]; rw [header_eq branchHashedV (by decide), a9, a10]
    · have hm' : mustBeHashed ver x = false := by simpa using hm
      simp only [hm', Bool.false_eq_true, if_false]; rw [header_eq branchValV (by decide), a7, a8]

theorem valueEnc_some (ver : Ver) (H : Bytes → Bytes) (x : Bytes) (hx : x.length < 1073741824) :
    valueEnc H (some x) (mustBeHashed ver x) = encodeValue ver H x := by
  unfold valueEnc encodeValue
  cases mustBeHashed ver x
  · simp only [Bool.false_eq_true, if_false]; exact scaleEnc_eq x hx
  · simp

theorem encodeKids_map (ver : Ver) (H : Bytes → Bytes) (hH : ∀ m, (H m).length = 32)
    (cs : Nib → Trie) (l : List Nib)
    (ih : ∀ i, encode H (ofTrie ver (cs i)) = encodeNode ver H (cs i)) :
    encodeKids H (l.map fun i => ofTrie ver (cs i)) =
      l.flatMap (fun i => if (cs i).isNil then []
        else Gossamer.scaleBytes (Gossamer.merkleValue H (encodeNode ver H (cs i)))) := by
  induction l with
  | nil => simp [encodeKids]
  | cons a r ihl =>
    simp only [List.map_cons, List.flatMap_cons]
    cases hn : (cs a).isNil
    · have hr : isReal (ofTrie ver (cs a)) = true := by rw [ofTrie_isReal, hn]; rfl
      rw [encodeKids_cons_real H _ _ hr, ihl, ih a, merkleValue_eq]
      rw [scaleEnc_eq _ (by have := merkleValue_len H hH (encodeNode ver H (cs a)); omega)]
      simp
    · have : cs a = Trie.nil := eq_nil_of_isNil hn
      rw [this]
      simp only [ofTrie, encodeKids, ihl, if_true, List.nil_append]

theorem encode_ofTrie (ver : Ver) (H : Bytes → Bytes) (hH : ∀ m, (H m).length = 32) :
    ∀ t : Trie, WFT t → encode H (ofTrie ver t) = encodeNode ver H t := by
  intro t
  induction t with
  | nil => intro _; rfl
  | leaf pk v =>
    intro h
    simp only [ofTrie, encode, encodeNode, nibB_length, leaf_header, nibblesToKeyLE_nibB,
      valueEnc_some ver H v h.2]
  | branch pk v cs ih =>
    intro h
    obtain ⟨_, hv, hcs⟩ := h
    have ih' : ∀ i, encode H (ofTrie ver (cs i)) = encodeNode ver H (cs i) := fun i => ih i (hcs i)
    simp only [ofTrie, encode, encodeNode, nibB_length, branch_header, nibblesToKeyLE_nibB,
      bitmapBytes_eq, encodeKids_map ver H hH cs _ ih']
    cases v with
    | none => simp [valueEnc]
    | some x => simp only [hashedFlag, valueEnc_some ver H x (hv x rfl)]

/-! ### what `node.Decode` returns for the encoding of a trie node -/

theorem wfKids_map (ver : Ver) (cs : Nib → Trie) (l : List Nib)
    (h : ∀ i, WF (ofTrie ver (cs i))) : WFKids (l.map fun i => ofTrie ver (cs i)) := by
  induction l with
  | nil => simp [WFKids]
  | cons a r ih =>
    simp only [List.map_cons]
    cases hn : (cs a).isNil
    · have hr : isReal (ofTrie ver (cs a)) = true := by rw [ofTrie_isReal, hn]; rfl
      exact (wfKids_cons_real _ _ hr).mpr ⟨h a, ih⟩
    · rw [eq_nil_of_isNil hn]
      simp only [ofTrie, WFKids, true_and]
      exact ih

theorem wf_ofTrie (ver : Ver) : ∀ t : Trie, WFT t → WF (ofTrie ver t) := by
  intro t
  induction t with
  | nil => intro _; simp [ofTrie, WF]
  | leaf pk v =>
    intro h
    simp only [ofTrie, WF, nibB_length]
    refine ⟨nibbles_nibB pk, h.1, rfl, ?_⟩
    intro x hx; cases hx; exact h.2
  | branch pk v cs ih =>
    intro h
    simp only [ofTrie, WF, nibB_length]
    refine ⟨nibbles_nibB pk, h.1, h.2.1, by simp, wfKids_map ver cs _ fun i => ih i (h.2.2 i)⟩

/-- the decoded form of the node `t` -/
def viewT (ver : Ver) (H : Bytes → Bytes) (t : Trie) : Node := view H (ofTrie ver t)

/-- `node.Decode` on an honest node encoding -/
theorem decode_encodeNode (ver : Ver) (H : Bytes → Bytes) (hH : ∀ m, (H m).length = 32) (strict : Bool)
    (t : Trie) (h : WFT t) : decode strict (encodeNode ver H t) = .ok (viewT ver H t) := by
  rw [← encode_ofTrie ver H hH t h]
  exact C07_node_roundtrip H hH strict _ (wf_ofTrie ver t h)

/-- the stored value as decoded: the hash of a value the node holds by hash -/
def storedValue (ver : Ver) (H : Bytes → Bytes) (x : Bytes) : Bytes :=
  if mustBeHashed ver x then H x else x

/-- child slot of a decoded branch: nil, the decoded child when its encoding is inlined (shorter
    than 32 bytes), otherwise a stub that only knows the hash of the child's encoding -/
def vkid (ver : Ver) (H : Bytes → Bytes) (x : Trie) : Node :=
  if x.isNil then .empty
  else if (encodeNode ver H x).length < 32 then viewT ver H x
  else .stub (H (encodeNode ver H x))

theorem viewKids_map (ver : Ver) (H : Bytes → Bytes) (hH : ∀ m, (H m).length = 32)
    (cs : Nib → Trie) (l : List Nib) (hw : ∀ i, WFT (cs i)) :
    viewKids H (l.map fun i => ofTrie ver (cs i)) = l.map fun i => vkid ver H (cs i) := by
  induction l with
  | nil => simp [viewKids]
  | cons a r ih =>
    simp only [List.map_cons]
    cases hn : (cs a).isNil
    · have hr : isReal (ofTrie ver (cs a)) = true := by rw [ofTrie_isReal, hn]; rfl
      rw [viewKids_cons_real H _ _ hr, ih, encode_ofTrie ver H hH _ (hw a)]
      simp [vkid, hn, viewT]
    · rw [eq_nil_of_isNil hn]
      simp only [ofTrie, viewKids, ih, vkid, Trie.isNil, if_true]

theorem viewT_nil (ver : Ver) (H : Bytes → Bytes) : viewT ver H .nil = .empty := rfl

theorem viewT_leaf (ver : Ver) (H : Bytes → Bytes) (pk : Nibs) (v : Bytes) :
    viewT ver H (.leaf pk v) = .leaf (nibB pk) (some (storedValue ver H v)) (mustBeHashed ver v) := by
  simp [viewT, ofTrie, view, viewValue, storedValue]

theorem viewT_branch (ver : Ver) (H : Bytes → Bytes) (hH : ∀ m, (H m).length = 32)
    (pk : Nibs) (v : Option Bytes) (cs : Nib → Trie) (hw : ∀ i, WFT (cs i)) :
    viewT ver H (.branch pk v cs) =
      .branch (nibB pk) (v.map (storedValue ver H)) (hashedFlag ver v)
        ((List.finRange 16).map fun i => vkid ver H (cs i)) := by
  simp only [viewT, ofTrie, view, viewKids_map ver H hH cs _ hw]
  cases v with
  | none => simp [viewValue, hashedFlag]
  | some x =>
    simp only [viewValue, hashedFlag, storedValue, Option.map_some, Option.isSome_some, Bool.and_true]
    congr 2

theorem viewT_ne_empty (ver : Ver) (H : Bytes → Bytes) (t : Trie) (h : t.isNil = false) :
    viewT ver H t ≠ .empty := by
  apply view_real
  rw [ofTrie_isReal, h]; rfl

/-- element `i` of a list built over `List.finRange 16` -/
theorem getD_finRange_map {α : Type} (f : Nib → α) (i : Nib) (d : α) :
    ((List.finRange 16).map f).getD i.val d = f i := by
  simp [List.getD_eq_getElem?_getD]

end Gossamer.Bridge
