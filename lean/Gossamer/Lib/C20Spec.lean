/-
C20 specification: the GRANDPA paper definitions (Stewart & Kokoris-Kogia, "GRANDPA: a Byzantine finality
gadget", §2.3 votes / §4.1 estimate, completable) over a *set* of signed votes, with voter weights and the
supermajority threshold `thr` of the voter set (f := total − thr is the tolerated faulty weight).

* a voter *equivocates* in S if S holds two different signed votes of it;
* S has a *supermajority* for B if the weight of the voters that vote for a block ≥ B or equivocate is ≥ thr
  (an equivocator counts for every block);
* g(S) = the block with a supermajority of highest block number (nil if none);
* it is *impossible* for S to have a supermajority for B if the weight of the voters that vote for a block ≱ B
  or equivocate exceeds total + f − thr (= 2f; for n = 3f+1 unit voters this is the paper's "at least
  (n+f+1)/2 voters"); otherwise it is *possible*. (For tolerant S this says: some tolerant T ⊇ S has a
  supermajority for B.)
* finalized = the highest block with a supermajority of both prevotes and precommits;
* E = the last block on the chain of g(prevotes) for which a precommit supermajority is possible;
* completable = E is defined and (E ≠ g(V) or no child of g(V) – existing or yet unseen – can possibly get a
  precommit supermajority).

The paper states these definitions for *tolerant* vote sets (equivocating weight ≤ f); with more equivocation
g(S) is not unique. The property is claimed on tolerant sets only.

Everything here is a function of the *membership* of votes in the list, never of their order or multiplicity.
-/
import Gossamer.Model.C20
namespace Gossamer.C20

/-- the signed votes of voter `v` in phase `ph`, in list order -/
def votesOf (ops : List Op) (ph : Bool) (v : Nat) : List SV :=
  (ops.filter (fun o => o.ph == ph && o.v == v)).map (·.sv)

/-- two different signed votes of the voter exist -/
def isEquiv (ops : List Op) (ph : Bool) (v : Nat) : Bool :=
  (votesOf ops ph v).any (fun a => (votesOf ops ph v).any (fun b => a != b))

def hasVote (ops : List Op) (ph : Bool) (v : Nat) : Bool := !(votesOf ops ph v).isEmpty

/-- the voter has a vote for a block ≥ B (a descendant of B or B itself) -/
def votesGE (t : Tree) (ops : List Op) (ph : Bool) (v B : Nat) : Bool :=
  (votesOf ops ph v).any (fun sv => decide (sv.blk < t.size) && t.le B sv.blk)

/-- weight of the voters that vote for a block ≥ B or equivocate -/
def weightFor (t : Tree) (ws : List Nat) (ops : List Op) (ph : Bool) (B : Nat) : Nat :=
  wsum ws (fun v => isEquiv ops ph v || votesGE t ops ph v B)

def equivWeight (ws : List Nat) (ops : List Op) (ph : Bool) : Nat := wsum ws (fun v => isEquiv ops ph v)

def voteWeight (ws : List Nat) (ops : List Op) (ph : Bool) : Nat := wsum ws (fun v => hasVote ops ph v)

def superm (t : Tree) (ws : List Nat) (ops : List Op) (ph : Bool) (B : Nat) : Bool :=
  decide (weightFor t ws ops ph B ≥ threshold (total ws))

/-- the tolerated faulty weight f -/
def faulty (ws : List Nat) : Nat := total ws - threshold (total ws)

/-- at most f weight equivocates in the phase (the paper's "tolerant") -/
def tolerant (ws : List Nat) (ops : List Op) (ph : Bool) : Bool := decide (equivWeight ws ops ph ≤ faulty ws)

/-- weight of the voters that vote, do not equivocate, and whose vote is ≱ B -/
def againstWeight (t : Tree) (ws : List Nat) (ops : List Op) (ph : Bool) (B : Nat) : Nat :=
  wsum ws (fun v => hasVote ops ph v && !isEquiv ops ph v && !votesGE t ops ph v B)

/-- it is possible for the votes of the phase to get a supermajority for B -/
def possible (t : Tree) (ws : List Nat) (ops : List Op) (ph : Bool) (B : Nat) : Bool :=
  decide (againstWeight t ws ops ph B + equivWeight ws ops ph ≤ 2 * faulty ws)

/-- block number relative to the base -/
def depth (t : Tree) (b : Nat) : Nat := (t.chain b).length

/-- the block with `p` of highest number (first such in block order), if any -/
def highest (t : Tree) (p : Nat → Bool) : Option Nat :=
  (List.range t.size).foldl
    (fun best b => if p b then
        match best with
        | none => some b
        | some a => if depth t b > depth t a then some b else some a
      else best) none

/-- g(S) -/
def specGhost (t : Tree) (ws : List Nat) (ops : List Op) (ph : Bool) : Option Nat :=
  highest t (superm t ws ops ph)

def specFinalized (t : Tree) (ws : List Nat) (ops : List Op) : Option Nat :=
  highest t (fun b => superm t ws ops false b && superm t ws ops true b)

def specEstimate (t : Tree) (ws : List Nat) (ops : List Op) : Option Nat :=
  match specGhost t ws ops false with
  | none => none
  | some g => highest t (fun b => t.le b g && possible t ws ops true b)

/-- a block nobody voted for (an existing or a yet unseen child) cannot get a supermajority any more -/
def unseenImpossible (ws : List Nat) (ops : List Op) : Bool :=
  decide (voteWeight ws ops true > 2 * faulty ws)

def specCompletable (t : Tree) (ws : List Nat) (ops : List Op) : Bool :=
  match specGhost t ws ops false, specEstimate t ws ops with
  | some g, some e =>
    (e != g) || (unseenImpossible ws ops && (t.children g).all (fun c => !possible t ws ops true c))
  | _, _ => false

end Gossamer.C20
