/-
C06, step 10: `fix` and the remove inspector on a consistent handle tree.
-/
import Gossamer.Lib.TrieDBSimG
set_option linter.unusedSectionVars false
set_option linter.unusedSimpArgs false
namespace Gossamer.C06
open Gossamer Gossamer.Trie

theorem abs_isNil {ver : Ver} {H : Bytes → Bytes} {T0 : Trie} {hd : Hd} {q : Nibs}
    (hok : Ok ver H T0 hd q) : (abs T0 hd q).isNil = hd.isNone := by
  cases hd with
  | none => rfl
  | persisted h =>
    have := hok.1
    simp only [abs, Hd.isNone]
    cases hs : subAt T0 q with
    | nil => exact absurd hs this
    | leaf _ _ => rfl
    | branch _ _ _ => rfl
  | empty c => exact hok.elim
  | leaf c pk dv => rfl
  | branch c pk dvo cs => rfl

theorem usedIdx_abs {ver : Ver} {H : Bytes → Bytes} {T0 : Trie} {cs : Nib → Hd} {q : Nibs}
    (hk : ∀ i, Ok ver H T0 (cs i) (q ++ [i])) :
    usedIdx cs = childIdx (fun i => abs T0 (cs i) (q ++ [i])) := by
  unfold usedIdx childIdx
  congr 1
  funext i
  rw [abs_isNil (hk i)]

theorem path4 (pre pk : Nibs) (i : Nib) (cpk : Nibs) :
    pre ++ pk ++ [i] ++ cpk = pre ++ (pk ++ i :: cpk) := by simp

/-- postcondition of `fix` -/
structure FixPost (ver : Ver) (H : Bytes → Bytes) (T0 : Trie) (pre : Nibs) (old : Hd) (target : Trie)
    (n : Hd) (news : List Pos) : Prop where
  ok : Ok ver H T0 n pre
  abs : abs T0 n pre = target
  cached : n.cached = none
  mem : n.isMem = true
  fresh : ∀ pos ∈ news, Below pre pos ∧ ¬ Needs n pre pos
  mono : ∀ pos, Needs n pre pos → Needs old pre pos
  valid : ∀ pos ∈ news, ValidPos ver H T0 pos

theorem fix_sim (e : Env) (T0 : Trie) (hdb : DbOk e T0) (c : Option Bytes) (pre pk : Nibs)
    (bv : Option DVal) (cs : Nib → Hd) (d : Death)
    (hvals : ∀ dv, bv = some dv → OkV e.ver e.H T0 (pre ++ pk) dv)
    (hkids : ∀ i, Ok e.ver e.H T0 (cs i) (pre ++ pk ++ [i]))
    (hne : bv.isSome = true ∨ ∃ i, (cs i).isNone = false) :
    ∃ n news, fix e pre pk bv cs d = .ok (n, news.map (rowOf e.ver e.H T0) ++ d) ∧
      FixPost e.ver e.H T0 pre (.branch c pk bv cs)
        (handleDeletion pk (bv.map (absV T0 (pre ++ pk))) (fun i => abs T0 (cs i) (pre ++ pk ++ [i])) pk)
        n news := by
  unfold fix handleDeletion
  rw [usedIdx_abs hkids]
  have hself : FixPost e.ver e.H T0 pre (.branch c pk bv cs)
      (branch pk (bv.map (absV T0 (pre ++ pk))) (fun i => abs T0 (cs i) (pre ++ pk ++ [i])))
      (.branch none pk bv cs) [] := by
    refine ⟨⟨hvals, hkids, fun h hh => by cases hh⟩, rfl, rfl, rfl, by simp, ?_, by simp⟩
    intro pos hn
    simp only [Needs] at hn ⊢
    rcases hn with ⟨h, _⟩ | h
    · cases h
    · exact Or.inr h
  rcases childIdx_cases (fun i => abs T0 (cs i) (pre ++ pk ++ [i])) with h0 | ⟨i, h1⟩ | ⟨i, j, _, _, _, r, h2⟩
  · rw [h0]
    cases bv with
    | none =>
      rcases hne with h | ⟨i, hi⟩
      · simp at h
      · have := childIdx_nil h0 i
        have h2 := abs_isNil (hkids i)
        rw [this] at h2
        simp [Trie.isNil, hi] at h2
    | some dv =>
      refine ⟨_, [], rfl, ?_⟩
      refine ⟨⟨hvals dv rfl, fun h hh => by cases hh⟩, by simp [abs, lcpLen_self], rfl, rfl, by simp, ?_,
        by simp⟩
      intro pos hn
      simp only [Needs] at hn ⊢
      rcases hn with ⟨h, _⟩ | h
      · cases h
      · exact Or.inr (Or.inl h)
  · rw [h1]
    cases bv with
    | some dv => exact ⟨_, [], rfl, hself⟩
    | none =>
      have hci : abs T0 (cs i) (pre ++ pk ++ [i]) ≠ nil := (childIdx_single h1 i).mpr rfl
      have hnn : (cs i).isNone = false := by
        have := abs_isNil (hkids i)
        rw [← this]
        exact isNil_false_of_ne hci
      obtain ⟨stored, hres, hm, hoks, habs, hmono, _⟩ :=
        resolve_sim e T0 hdb (cs i) (pre ++ pk ++ [i]) (hkids i) hnn
      simp only [Option.map_none, hres]
      have hparent : ∀ pos, Needs stored (pre ++ pk ++ [i]) pos → Needs (.branch c pk none cs) pre pos :=
        fun pos h => Or.inr (Or.inr ⟨i, hmono pos h⟩)
      -- the row of a cached child is scheduled for deletion
      have hdeath : ∃ news : List Pos,
          childDeath stored (pre ++ pk ++ [i]) d = news.map (rowOf e.ver e.H T0) ++ d ∧
          (∀ pos ∈ news, pos = .node (pre ++ pk ++ [i])) ∧
          ∀ pos ∈ news, ValidPos e.ver e.H T0 pos := by
        unfold childDeath
        cases hc : stored.cached with
        | none => exact ⟨[], rfl, by simp, by simp⟩
        | some h =>
          obtain ⟨hh, _, _⟩ := ok_cached hoks hc hm
          refine ⟨[.node (pre ++ pk ++ [i])], by simp [rowOf, hh.2.1], by simp, ?_⟩
          intro pos hpos
          simp only [List.mem_singleton] at hpos
          subst hpos
          exact validPos_of_hashAt hh
      obtain ⟨news, hdn, hnews, hvalid⟩ := hdeath
      rw [hdn]
      cases stored with
      | none => simp [Hd.isMem] at hm
      | persisted _ => simp [Hd.isMem] at hm
      | empty _ => simp [Hd.isMem] at hm
      | leaf cc cpk cv =>
        simp only [abs] at habs
        rw [← habs]
        refine ⟨_, news, by simp only [fixMerge]; rfl, ?_⟩
        refine ⟨⟨by rw [← path4]; exact hoks.1, fun h hh => by cases hh⟩, by simp [abs, path4], rfl,
          rfl, ?_, ?_, hvalid⟩
        · intro pos hpos
          rw [hnews pos hpos]
          refine ⟨by rw [List.append_assoc]; exact List.prefix_append _ _, ?_⟩
          intro hn
          simp only [Needs] at hn
          rcases hn with ⟨h, _⟩ | ⟨_, h⟩ <;> cases h
        · intro pos hn
          apply hparent
          simp only [Needs] at hn ⊢
          rcases hn with ⟨h, _⟩ | ⟨h, hp⟩
          · cases h
          · right; rw [path4]; exact ⟨h, hp⟩
      | branch cc cpk cv ccs =>
        simp only [abs] at habs
        rw [← habs]
        obtain ⟨hv2, hk2, _⟩ := hoks
        refine ⟨_, news, by simp only [fixMerge]; rfl, ?_⟩
        refine ⟨⟨by rw [← path4]; exact hv2, fun j => by rw [← path4]; exact hk2 j,
          fun h hh => by cases hh⟩, by simp [abs, path4], rfl, rfl, ?_, ?_, hvalid⟩
        · intro pos hpos
          rw [hnews pos hpos]
          refine ⟨by rw [List.append_assoc]; exact List.prefix_append _ _, ?_⟩
          intro hn
          simp only [Needs] at hn
          rcases hn with ⟨h, _⟩ | ⟨_, h⟩ | ⟨j, hj⟩
          · cases h
          · cases h
          · have := needs_below _ _ _ hj
            obtain ⟨r, hr⟩ := this
            have := congrArg List.length hr
            simp at this
        · intro pos hn
          apply hparent
          simp only [Needs] at hn ⊢
          rcases hn with ⟨h, _⟩ | ⟨h, hp⟩ | ⟨j, hj⟩
          · cases h
          · right; left; rw [path4]; exact ⟨h, hp⟩
          · right; right; rw [path4]; exact ⟨j, hj⟩
  · rw [h2]
    cases bv <;> exact ⟨_, [], rfl, hself⟩

/-! ### remove -/

/-- postcondition of `removeAt`: the node is gone (`none`) exactly when nothing is left below it -/
def RemPost (ver : Ver) (H : Bytes → Bytes) (T0 : Trie) (pre : Nibs) (hd : Hd) (target : Trie)
    (r : Option (Hd × Bool)) (news : List Pos) : Prop :=
  match r with
  | none => target = nil ∧ ∀ pos ∈ news, Below pre pos ∧ ValidPos ver H T0 pos
  | some (hd', ch) => target ≠ nil ∧ OpPost ver H T0 pre hd target ch hd' news

def RecRemove (ver : Ver) (H : Bytes → Bytes) (T0 : Trie) (bound : Nat)
    (rec : Hd → Nibs → Nibs → Death → Res (Option (Hd × Bool) × Death)) : Prop :=
  ∀ (hd : Hd) (q k : Nibs) (d0 : Death), k.length < bound → Ok ver H T0 hd q → hd.isNone = false →
    Canon (abs T0 hd q) →
    ∃ r news, rec hd q k d0 = .ok (r, news.map (rowOf ver H T0) ++ d0) ∧
      RemPost ver H T0 q hd (tRemove (abs T0 hd q) k) r news

theorem afterInspect_refl {stored : Hd} (hm : stored.isMem = true) (pre : Nibs) (d : Death) :
    afterInspect stored pre d false stored = (stored, false, d) := by
  cases stored with
  | leaf c pk dv => cases c <;> simp [afterInspect, Hd.cached, Hd.asNew]
  | branch c pk dvo cs => cases c <;> simp [afterInspect, Hd.cached, Hd.asNew]
  | none => simp [Hd.isMem] at hm
  | persisted _ => simp [Hd.isMem] at hm
  | empty _ => simp [Hd.isMem] at hm

theorem opPost_refl {ver : Ver} {H : Bytes → Bytes} {T0 : Trie} {pre : Nibs} {stored : Hd}
    (hok : Ok ver H T0 stored pre) (hm : stored.isMem = true) :
    OpPost ver H T0 pre stored (abs T0 stored pre) false stored [] :=
  ⟨hok, rfl, hm, by simp, fun _ h => h, fun _ => ⟨rfl, fun h => ⟨h, rfl⟩⟩, by simp⟩

/-- the node stays as it is -/
theorem removeKeep_refl {ver : Ver} {H : Bytes → Bytes} {T0 : Trie} {pre : Nibs} {stored : Hd}
    (hok : Ok ver H T0 stored pre) (hm : stored.isMem = true) (d : Death) {target : Trie}
    (ht : target = abs T0 stored pre) :
    ∃ r news, removeKeep stored pre false stored d = .ok (r, news.map (rowOf ver H T0) ++ d) ∧
      RemPost ver H T0 pre stored target r news := by
  have hne : abs T0 stored pre ≠ nil := by
    cases stored <;> simp_all [Hd.isMem, abs]
  refine ⟨some (stored, false), [], by simp [removeKeep, afterInspect_refl hm], ?_⟩
  rw [ht]
  exact ⟨hne, opPost_refl hok hm⟩

/-- the node is replaced / restored by `inspect` -/
theorem removeKeep_post {ver : Ver} {H : Bytes → Bytes} {T0 : Trie} {pre : Nibs} {stored : Hd}
    (hok : Ok ver H T0 stored pre) (hm : stored.isMem = true) {target : Trie} {ch : Bool} {n : Hd}
    {newsI : List Pos} (hp : InspPost ver H T0 pre stored target ch n newsI) (hne : target ≠ nil)
    (d : Death) :
    ∃ r news, removeKeep stored pre ch n (newsI.map (rowOf ver H T0) ++ d) =
        .ok (r, news.map (rowOf ver H T0) ++ d) ∧
      RemPost ver H T0 pre stored target r news := by
  obtain ⟨news, hd2, hpost⟩ := wrap_post hok hm hp d
  refine ⟨some (_, _), news, ?_, ⟨hne, hpost⟩⟩
  simp only [removeKeep]
  rw [hd2]

theorem canon_child_exists {pk : Nibs} {v : Option Bytes} {cs : Nib → Trie}
    (h : Canon (branch pk v cs)) : ∃ i, cs i ≠ nil := by
  rw [canon_branch_iff] at h
  rcases h.2 with ⟨i, _, _, hi, _⟩ | ⟨_, i, hi⟩ <;> exact ⟨i, hi⟩

theorem removeFixed_post {ver : Ver} {H : Bytes → Bytes} {T0 : Trie} {pre : Nibs} {stored old : Hd}
    (hok : Ok ver H T0 stored pre) (hm : stored.isMem = true) {target : Trie} {n : Hd}
    {fixNews extra : List Pos} (d : Death)
    (hf : FixPost ver H T0 pre old target n fixNews) (hne : target ≠ nil)
    (hold : ∀ pos, Needs old pre pos → Needs stored pre pos)
    (hextra : ∀ pos ∈ extra, (Below pre pos ∧ ¬ Needs old pre pos) ∧ ValidPos ver H T0 pos) :
    ∃ r news, removeFixed stored pre (.ok (n, fixNews.map (rowOf ver H T0) ++ (extra.map (rowOf ver H T0) ++ d))) =
        .ok (r, news.map (rowOf ver H T0) ++ d) ∧
      RemPost ver H T0 pre stored target r news := by
  have hp : InspPost ver H T0 pre stored target true n (fixNews ++ extra) := by
    refine ⟨hf.ok, hf.abs, hf.cached, hf.mem, ?_, fun pos h => hold pos (hf.mono pos h), by simp, ?_⟩
    · intro pos hpos
      rcases List.mem_append.mp hpos with h | h
      · exact hf.fresh pos h
      · exact ⟨(hextra pos h).1.1, fun hn => (hextra pos h).1.2 (hf.mono pos hn)⟩
    · intro pos hpos
      rcases List.mem_append.mp hpos with h | h
      · exact hf.valid pos h
      · exact (hextra pos h).2
  have := removeKeep_post hok hm hp hne d
  simpa [removeFixed, List.map_append, List.append_assoc] using this

theorem removeNode_sim (e : Env) (T0 : Trie) (hdb : DbOk e T0)
    (rec : Hd → Nibs → Nibs → Death → Res (Option (Hd × Bool) × Death))
    (stored : Hd) (pre key : Nibs) (d : Death)
    (hm : stored.isMem = true) (hok : Ok e.ver e.H T0 stored pre) (hcan : Canon (abs T0 stored pre))
    (hrec : RecRemove e.ver e.H T0 key.length rec) :
    ∃ r news, removeNode e rec stored pre key d = .ok (r, news.map (rowOf e.ver e.H T0) ++ d) ∧
      RemPost e.ver e.H T0 pre stored (tRemove (abs T0 stored pre) key) r news := by
  cases stored with
  | none => simp [Hd.isMem] at hm
  | persisted _ => simp [Hd.isMem] at hm
  | empty _ => simp [Hd.isMem] at hm
  | leaf c pk lv =>
    simp only [removeNode, abs, tRemove]
    by_cases hk : pk = key
    · subst hk
      simp only [if_true]
      rw [replaceOldValue_spec e.ver e.H T0 d _ lv hok.1]
      cases hc : c with
      | none =>
        refine ⟨none, if lv.isRef then [.val (pre ++ pk)] else [], ?_, rfl, ?_⟩
        · simp only [afterDelete, Hd.cached]; congr 2; split <;> rfl
        · intro pos hpos
          split at hpos
          · rename_i hr
            simp at hpos; subst hpos
            exact ⟨List.prefix_append _ _, validPos_of_ref hok.1 hr⟩
          · cases hpos
      | some h =>
        obtain ⟨hh, _, _⟩ := hok.2 h hc
        refine ⟨none, .node pre :: (if lv.isRef then [.val (pre ++ pk)] else []), ?_, rfl, ?_⟩
        · simp only [afterDelete, Hd.cached, List.map_cons, rowOf, hh.2.1, List.cons_append]
          congr 3; split <;> rfl
        · intro pos hpos
          rcases List.mem_cons.mp hpos with rfl | hpos
          · exact ⟨List.prefix_refl _, validPos_of_hashAt hh⟩
          · split at hpos
            · rename_i hr
              simp at hpos; subst hpos
              exact ⟨List.prefix_append _ _, validPos_of_ref hok.1 hr⟩
            · cases hpos
    · simp only [hk, if_false]
      exact removeKeep_refl hok hm d rfl
  | branch c pk bv cs =>
    obtain ⟨hvals, hkids, hcl⟩ := hok
    have hok' : Ok e.ver e.H T0 (.branch c pk bv cs) pre := ⟨hvals, hkids, hcl⟩
    have hcan' := hcan
    simp only [abs] at hcan'
    rw [canon_branch_iff] at hcan'
    obtain ⟨hcs, hcount⟩ := hcan'
    have hsome : ∃ i, (cs i).isNone = false := by
      obtain ⟨i, hi⟩ := canon_child_exists hcan
      refine ⟨i, ?_⟩
      rw [← abs_isNil (hkids i)]
      exact isNil_false_of_ne hi
    simp only [removeNode, abs, tRemove]
    rw [lcpLen_eq]
    rcases key_cases pk key with rfl | ⟨idx, krest, rfl⟩ | hoff
    · -- the key of the branch itself
      simp only [lcpLen_self, and_self, if_true]
      cases bv with
      | none =>
        simp only [Option.isSome_none, Bool.false_eq_true, if_false, Option.map_none, tDropValue]
        exact removeKeep_refl hok' hm d (by simp [abs])
      | some lv =>
        simp only [Option.isSome_some, if_true, Option.map_some, tDropValue]
        rw [replaceOldValue_spec e.ver e.H T0 d _ lv (hvals lv rfl)]
        obtain ⟨n, fixNews, hfix, hf⟩ := fix_sim e T0 hdb none pre key none cs
          ((if lv.isRef then [rowOf e.ver e.H T0 (.val (pre ++ key))] else []) ++ d)
          (fun dv h => by cases h) hkids (Or.inr hsome)
        rw [hfix]
        simp only [Option.map_none] at hf
        have hne := (canon_handleDeletion key none _ key hcs (Or.inr (canon_child_exists hcan))).1
        have hex : (if lv.isRef then [rowOf e.ver e.H T0 (.val (pre ++ key))] else []) =
            (if lv.isRef then [Pos.val (pre ++ key)] else []).map (rowOf e.ver e.H T0) := by
          split <;> rfl
        rw [hex]
        refine removeFixed_post hok' hm d hf hne ?_ ?_
        · intro pos hn
          simp only [Needs] at hn ⊢
          rcases hn with ⟨h, _⟩ | ⟨h, _⟩ | h
          · cases h
          · cases h
          · exact Or.inr (Or.inr h)
        · intro pos hpos
          split at hpos
          · rename_i hr
            simp at hpos; subst hpos
            refine ⟨⟨List.prefix_append _ _, ?_⟩, validPos_of_ref (hvals lv rfl) hr⟩
            intro hn
            simp only [Needs] at hn
            rcases hn with ⟨h, _⟩ | ⟨h, _⟩ | ⟨i, hi⟩
            · cases h
            · cases h
            · exact below_child_ne_val (needs_below _ _ _ hi) rfl
          · cases hpos
    · -- below child `idx`
      have hne : ¬ (pk ++ idx :: krest = pk) := append_cons_ne_self pk idx krest
      have hc1 : ¬ (pk.length = pk.length ∧ pk.length = (pk ++ idx :: krest).length) := by simp
      have hc1' : ¬ (True ∧ pk.length = (pk ++ idx :: krest).length) := by simp
      have hc2 : ¬ (pk.length < pk.length) := by simp
      simp only [lcpLen_self_append, hc1, hc1', hc2, if_false, List.drop_left', hne,
        isPrefixOf_append_self, if_true]
      rw [abs_isNil (hkids idx)]
      by_cases hnil : (cs idx).isNone = true
      · simp only [hnil, if_true]
        exact removeKeep_refl hok' hm d (by simp [abs])
      · have hnil' : (cs idx).isNone = false := by simpa using hnil
        obtain ⟨r, newsC, hrc, hpc⟩ := hrec (cs idx) (pre ++ pk ++ [idx]) krest d
          (by simp; omega) (hkids idx) hnil' (hcs idx)
        simp only [hnil', Bool.false_eq_true, if_false, hrc]
        cases r with
        | some p =>
          obtain ⟨c', ch⟩ := p
          obtain ⟨hcne, hpc⟩ := hpc
          have hnn : (tRemove (abs T0 (cs idx) (pre ++ pk ++ [idx])) krest).isNil = false :=
            isNil_false_of_ne hcne
          simp only [hnn, Bool.false_eq_true, if_false]
          refine removeKeep_post hok' hm ?_ (by simp) d
          refine ⟨⟨hvals, ok_setKid hkids hpc.ok, fun h hh => by cases hh⟩, ?_, rfl, rfl, ?_, ?_, ?_,
            hpc.valid⟩
          · simp only [abs, abs_setKid, hpc.abs]
          · intro pos hpos
            obtain ⟨hb, hnn⟩ := hpc.fresh pos hpos
            refine ⟨below_trans (by rw [List.append_assoc]; exact List.prefix_append _ _) hb, ?_⟩
            intro hn
            simp only [Needs] at hn
            rcases hn with ⟨h, _⟩ | ⟨_, hp⟩ | ⟨i, hi⟩
            · cases h
            · exact below_child_ne_val hb hp
            · rcases needs_setKid hi with ⟨_, h⟩ | ⟨hne', h⟩
              · exact hnn h
              · exact hne' (below_disjoint (needs_below _ _ _ h) hb)
          · intro pos hn
            simp only [Needs] at hn ⊢
            rcases hn with ⟨h, _⟩ | hv | ⟨i, hi⟩
            · cases h
            · exact Or.inr (Or.inl hv)
            · rcases needs_setKid hi with ⟨rfl, h⟩ | ⟨_, h⟩
              · exact Or.inr (Or.inr ⟨_, hpc.mono pos h⟩)
              · exact Or.inr (Or.inr ⟨i, h⟩)
          · intro hch
            obtain ⟨hn0, hs⟩ := hpc.same hch
            refine ⟨hn0, fun hnf => ?_⟩
            obtain ⟨hnfv, hnfk⟩ := hnf
            obtain ⟨hnc, htc⟩ := hs (hnfk idx)
            refine ⟨⟨hnfv, noFresh_setKid hnfk hnc⟩, ?_⟩
            simp only [abs]
            rw [htc]
            congr 1
            funext i
            by_cases hi : i = idx
            · subst hi; simp [setChild]
            · simp [setChild, hi]
        | none =>
          obtain ⟨hcnil, hbel⟩ := hpc
          simp only [hcnil, Trie.isNil, if_true]
          have hkids' : ∀ i, Ok e.ver e.H T0 (Hd.setKid cs idx Hd.none i) (pre ++ pk ++ [i]) :=
            ok_setKid hkids trivial
          have hne2 : bv.isSome = true ∨ ∃ i, (Hd.setKid cs idx Hd.none i).isNone = false := by
            rcases hcount with ⟨a, b, hab, ha, hb⟩ | ⟨hv, _⟩
            · right
              by_cases hai : a = idx
              · refine ⟨b, ?_⟩
                have hbi : b ≠ idx := fun x => hab (hai.trans x.symm)
                simp only [Hd.setKid, hbi, if_false]
                rw [← abs_isNil (hkids b)]; exact isNil_false_of_ne hb
              · refine ⟨a, ?_⟩
                simp only [Hd.setKid, hai, if_false]
                rw [← abs_isNil (hkids a)]; exact isNil_false_of_ne ha
            · left; cases bv <;> simp_all
          obtain ⟨n, fixNews, hfix, hf⟩ := fix_sim e T0 hdb none pre pk bv (Hd.setKid cs idx Hd.none)
            (newsC.map (rowOf e.ver e.H T0) ++ d) hvals hkids' hne2
          rw [hfix]
          have habs : (fun i => abs T0 (Hd.setKid cs idx Hd.none i) (pre ++ pk ++ [i])) =
              setChild (fun i => abs T0 (cs i) (pre ++ pk ++ [i])) idx nil := by
            rw [abs_setKid]; rfl
          rw [habs] at hf
          have hrest : ∀ x, Canon (setChild (fun i => abs T0 (cs i) (pre ++ pk ++ [i])) idx nil x) := by
            intro x
            by_cases hx : x = idx
            · subst hx; simp [setChild]
            · rw [setChild_other _ _ _ _ hx]; exact hcs x
          have hne3 : (Option.map (absV T0 (pre ++ pk)) bv).isSome = true ∨
              ∃ i, setChild (fun i => abs T0 (cs i) (pre ++ pk ++ [i])) idx nil i ≠ nil := by
            rcases hcount with ⟨a, b, hab, ha, hb⟩ | ⟨hv, _⟩
            · right
              by_cases hai : a = idx
              · exact ⟨b, by rw [setChild_other _ _ _ _ (fun x => hab (hai.trans x.symm))]; exact hb⟩
              · exact ⟨a, by rw [setChild_other _ _ _ _ hai]; exact ha⟩
            · exact Or.inl hv
          have hnn := (canon_handleDeletion pk _ _ pk hrest hne3).1
          refine removeFixed_post hok' hm d hf hnn ?_ ?_
          · intro pos hn
            simp only [Needs] at hn ⊢
            rcases hn with ⟨h, _⟩ | h | ⟨i, hi⟩
            · cases h
            · exact Or.inr (Or.inl h)
            · rcases needs_setKid hi with ⟨_, h⟩ | ⟨_, h⟩
              · exact h.elim
              · exact Or.inr (Or.inr ⟨i, h⟩)
          · intro pos hpos
            have hb := (hbel pos hpos).1
            refine ⟨⟨below_trans (by rw [List.append_assoc]; exact List.prefix_append _ _) hb, ?_⟩,
              (hbel pos hpos).2⟩
            intro hn
            simp only [Needs] at hn
            rcases hn with ⟨h, _⟩ | ⟨_, hp⟩ | ⟨i, hi⟩
            · cases h
            · exact below_child_ne_val hb hp
            · rcases needs_setKid hi with ⟨_, h⟩ | ⟨hne', h⟩
              · exact h.elim
              · exact hne' (below_disjoint (needs_below _ _ _ h) hb)
    · -- the key leaves the partial key
      have hlt := lcpLen_lt_of_off hoff
      have hne : ¬ (key = pk) := isPrefixOf_false_ne hoff
      have hc1 : ¬ (Trie.lcpLen pk key = pk.length ∧ Trie.lcpLen pk key = key.length) := by
        intro h; omega
      simp only [hc1, hlt, hne, hoff, if_false, if_true, Bool.false_eq_true]
      exact removeKeep_refl hok' hm d (by simp [abs])

/-- **remove on a consistent handle tree** -/
theorem removeAt_sim (e : Env) (T0 : Trie) (hdb : DbOk e T0) :
    ∀ fuel, RecRemove e.ver e.H T0 fuel (removeAt e fuel) := by
  intro fuel
  induction fuel with
  | zero => intro hd q k d0 hk; omega
  | succ f ih =>
    intro hd q k d0 hk hok hn hcan
    obtain ⟨stored, hres, hm, hoks, habs, hmono, hnf⟩ := resolve_sim e T0 hdb hd q hok hn
    have hrec : RecRemove e.ver e.H T0 k.length (removeAt e f) := by
      intro hd' q' k' d' hk'
      exact ih hd' q' k' d' (by omega)
    obtain ⟨r, news, heq, hp⟩ := removeNode_sim e T0 hdb (removeAt e f) stored q k d0 hm hoks
      (by rw [habs]; exact hcan) hrec
    refine ⟨r, news, by simp only [removeAt, hres, heq], ?_⟩
    rw [habs] at hp
    cases r with
    | none => exact hp
    | some p =>
      obtain ⟨hd', ch⟩ := p
      obtain ⟨hne, hp⟩ := hp
      exact ⟨hne, ⟨hp.ok, hp.abs, hp.mem, hp.fresh, fun pos h => hmono pos (hp.mono pos h), fun hch => by
        obtain ⟨h1, h2⟩ := hp.same hch
        exact ⟨h1, fun hh => by
          obtain ⟨h3, h4⟩ := h2 (hnf hh)
          exact ⟨h3, by rw [h4, habs]⟩⟩, hp.valid⟩⟩

end Gossamer.C06
