/-
C20: model of pkg/finality-grandpa/bitfield.go – a bitfield is a list of 64-bit words, bit position `p` lives in
word `p / 64` at machine bit `63 - p % 64` (`SetBit`, `testBit`).  Core Lean only (the driver runs it).
-/
namespace Gossamer.C20.BF

abbrev Words := List Nat

/-- `bitfield.IsBlank` -/
def isBlank (b : Words) : Bool := b.isEmpty

/-- `append(b.bits, make([]uint64, n-len)...)` -/
def padTo (b : Words) (n : Nat) : Words := b ++ List.replicate (n - b.length) 0

/-- `bitfield.SetBit` -/
def setBit (b : Words) (p : Nat) : Words :=
  let b' := if p / 64 ≥ b.length then padTo b (p / 64 + 1) else b
  b'.set (p / 64) (b'.getD (p / 64) 0 ||| (1 <<< (63 - p % 64)))

/-- `b.bits[i] |= word` for the words of `other`; the rest of `b` is kept -/
def orInto : Words → Words → Words
  | [], _ => []
  | a :: as, [] => a :: as
  | a :: as, b :: bs => (a ||| b) :: orInto as bs

/-- `bitfield.Merge` -/
def merge (b other : Words) : Words :=
  orInto (if b.length < other.length then padTo b other.length else b) other

/-- `testBit(word, position)` -/
def testBitGo (word pos : Nat) : Bool :=
  let mask := 1 <<< (63 - pos)
  word &&& mask == mask

/-- the inner loop of `iter1s` for word number `i` -/
def iterWord (word i start step : Nat) : List Nat :=
  (List.range ((64 >>> step) - (start >>> step))).filterMap (fun j =>
    let bitPos := start + (j <<< step)
    if testBitGo word bitPos then some (i * 64 + bitPos) else none)

def iterFrom (start step : Nat) : Nat → Words → List Nat
  | _, [] => []
  | i, w :: ws => (if w = 0 then [] else iterWord w i start step) ++ iterFrom start step (i + 1) ws

/-- `iter1s(words, start, step)`: positions of the set bits, `start`, `start + 2^step`, … of every word -/
def iter1s (b : Words) (start step : Nat) : List Nat := iterFrom start step 0 b

/-- the `zipped` slice of `iter1sMerged`: word-wise or, length = the longer one -/
def zipOr : Words → Words → Words
  | [], bs => bs
  | as, [] => as
  | a :: as, b :: bs => (a ||| b) :: zipOr as bs

/-- `bitfield.iter1sMerged` -/
def iter1sMerged (a b : Words) (start step : Nat) : List Nat := iter1s (zipOr a b) start step

/-- `weight(bits, voters)` of context.go: Σ weight of voter `pos / 2` over the listed bit positions -/
def weight (ws : List Nat) (bits : List Nat) : Nat :=
  bits.foldl (fun tot pos => if pos / 2 < ws.length then tot + ws.getD (pos / 2) 0 else tot) 0

/-- is bit position `p` set -/
def get (b : Words) (p : Nat) : Bool := (b.getD (p / 64) 0).testBit (63 - p % 64)

end Gossamer.C20.BF
