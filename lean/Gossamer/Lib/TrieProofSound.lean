/-
C05 soundness: whatever proof items are supplied, `Verify` under the root hash of the trie `t` only
confirms what `Get` on `t` returns — provided `H` has no collision among the strings compared
(`InjOn`: no supplied item collides with a node encoding or stored value of `t`; the final theorems
turn this into an explicit collision clause).  Core Lean only.
-/
import Gossamer.Model.C05
import Gossamer.Lib.TrieProofBridge
namespace Gossamer.C05
open Gossamer Gossamer.TrieCodec Gossamer.Bridge

/-- the byte strings of the state `t` that are addressed by hash: the encoding of every node and
    every stored value -/
def Honest (ver : Ver) (H : Bytes → Bytes) : Trie → Bytes → Prop
  | .nil, b => b = encodeNode ver H .nil
  | .leaf pk v, b => b = encodeNode ver H (.leaf pk v) ∨ b = v
  | .branch pk v cs, b =>
    b = encodeNode ver H (.branch pk v cs) ∨ v = some b ∨ ∃ i, Honest ver H (cs i) b

theorem honest_self (ver : Ver) (H : Bytes → Bytes) (t : Trie) : Honest ver H t (encodeNode ver H t) := by
  cases t with
  | nil => rfl
  | leaf pk v => exact .inl rfl
  | branch pk v cs => exact .inl rfl

theorem honest_child {ver : Ver} {H : Bytes → Bytes} {pk : Nibs} {v : Option Bytes} {cs : Nib → Trie}
    {i : Nib} {b : Bytes} (h : Honest ver H (cs i) b) : Honest ver H (.branch pk v cs) b :=
  .inr (.inr ⟨i, h⟩)

/-- A collision that matters: an item `a` supplied by the prover (`S a`) and a different honest
    string `b` of the state with the same hash.  (A bare `∃ a ≠ b, H a = H b` holds for every
    hash with 32-byte digests and would make the theorems vacuous.) -/
def CollisionWith (ver : Ver) (H : Bytes → Bytes) (S : Bytes → Prop) (t : Trie) : Prop :=
  ∃ a b : Bytes, S a ∧ Honest ver H t b ∧ a ≠ b ∧ H a = H b

/-- no supplied item collides with an honest string of `t` -/
def InjOn (ver : Ver) (H : Bytes → Bytes) (S : Bytes → Prop) (t : Trie) : Prop :=
  ∀ a b : Bytes, S a → Honest ver H t b → H a = H b → a = b

theorem injOn_or_collision (ver : Ver) (H : Bytes → Bytes) (S : Bytes → Prop) (t : Trie) :
    InjOn ver H S t ∨ CollisionWith ver H S t := by
  by_cases h : CollisionWith ver H S t
  · exact .inr h
  · refine .inl fun a b ha hb hab => ?_
    by_cases e : a = b
    · exact e
    · exact absurd ⟨a, b, ha, hb, e, hab⟩ h

theorem InjOn.child {ver : Ver} {H : Bytes → Bytes} {S : Bytes → Prop} {pk : Nibs} {v : Option Bytes}
    {cs : Nib → Trie} (h : InjOn ver H S (.branch pk v cs)) (i : Nib) : InjOn ver H S (cs i) :=
  fun a b ha hb hab => h a b ha (honest_child hb) hab

/-! ### hash-keyed maps -/

/-- every key of the map is the hash of its entry (`NewMemoryDBFromProof`, `digestToEncoding`),
    and every entry is an item supplied by the prover -/
def MapOK (H : Bytes → Bytes) (S : Bytes → Prop) (m : Pairs) : Prop := ∀ p ∈ m, p.1 = H p.2 ∧ S p.2

theorem mapOK_pairsOf (H : Bytes → Bytes) (nodes : List Bytes) :
    MapOK H (· ∈ nodes) (pairsOf H nodes) := by
  intro p hp
  simp only [pairsOf, List.mem_map] at hp
  obtain ⟨e, he, rfl⟩ := hp
  exact ⟨rfl, he⟩

theorem mapGet_some {H : Bytes → Bytes} {S : Bytes → Prop} {m : Pairs} (hm : MapOK H S m) {d e : Bytes}
    (h : mapGet m d = some e) : H e = d ∧ S e := by
  unfold mapGet at h
  cases hf : m.reverse.find? (fun p => p.1 == d) with
  | none => simp [hf] at h
  | some p =>
    simp only [hf, Option.map_some, Option.some.injEq] at h
    have hmem : p ∈ m := by simpa using List.mem_of_find?_eq_some hf
    have hd : p.1 = d := by simpa using List.find?_some hf
    subst h
    exact ⟨by rw [← hd, (hm p hmem).1], (hm p hmem).2⟩

theorem mapGet_isSome_of_mem {m : Pairs} {d e : Bytes} (h : (d, e) ∈ m) : (mapGet m d).isSome = true := by
  unfold mapGet
  rw [Option.isSome_map, List.find?_isSome]
  exact ⟨(d, e), by simpa using h, by simp⟩

/-! ### what `loadProof` can leave behind for an honest subtrie -/

/-- `Res t P`: `P` is the node `t` as `Verify` may have rebuilt it — same partial key and stored
    value; every child slot is empty (nil, or cleared), an unresolved stub, or a rebuilt child;
    a branch may have been turned into a leaf after all its children were cleared. -/
def Res (ver : Ver) (H : Bytes → Bytes) : Trie → Node → Prop
  | .nil, P => P = .empty
  | .leaf pk v, P => P = .leaf (nibB pk) (some (storedValue ver H v)) (mustBeHashed ver v)
  | .branch pk v cs, P =>
    ∃ kids' : List Node,
      (∀ i : Nib, kids'.getD i.val .empty = .empty ∨ (∃ mv, kids'.getD i.val .empty = .stub mv) ∨
        Res ver H (cs i) (kids'.getD i.val .empty)) ∧
      (P = .branch (nibB pk) (v.map (storedValue ver H)) (hashedFlag ver v) kids' ∨
       P = .leaf (nibB pk) (v.map (storedValue ver H)) (hashedFlag ver v))

theorem res_viewT (ver : Ver) (H : Bytes → Bytes) (hH : ∀ m, (H m).length = 32) :
    ∀ t : Trie, WFT t → Res ver H t (viewT ver H t) := by
  intro t
  induction t with
  | nil => intro _; rfl
  | leaf pk v => intro _; simp only [Res, viewT_leaf]
  | branch pk v cs ih =>
    intro h
    rw [viewT_branch ver H hH pk v cs h.2.2]
    refine ⟨_, fun i => ?_, .inl rfl⟩
    rw [getD_finRange_map]
    unfold vkid
    split
    · exact .inl rfl
    · split
      · exact .inr (.inr (ih i (h.2.2 i)))
      · exact .inr (.inl ⟨_, rfl⟩)

/-! ### the children loop -/

/-- what `loadKids` does to slot `j` -/
def KidStep (strict : Bool) (m : Pairs) (rec : Node → Except VOut Node) (c c' : Node) : Prop :=
  match c with
  | .stub mv =>
    (mapGet m mv = none ∧ c' = .empty) ∨
    (∃ enc n, mapGet m mv = some enc ∧ decode strict enc = .ok n ∧ n ≠ .empty ∧ rec n = .ok c')
  | other => c' = other

theorem loadKids_spec (strict : Bool) (m : Pairs) (rec : Node → Except VOut Node) :
    ∀ (kids kids' : List Node), loadKids strict m rec kids = .ok kids' →
      ∀ j, KidStep strict m rec (kids.getD j .empty) (kids'.getD j .empty) := by
  intro kids
  induction kids with
  | nil =>
    intro kids' h j
    simp only [loadKids, Except.ok.injEq] at h
    subst h
    simp [KidStep]
  | cons c cs ih =>
    intro kids' h j
    -- the result for the head slot
    have key : ∃ c' cs', kids' = c' :: cs' ∧ KidStep strict m rec c c' ∧
        loadKids strict m rec cs = .ok cs' := by
      unfold loadKids at h
      cases c with
      | stub mv =>
        simp only at h
        cases hg : mapGet m mv with
        | none =>
          simp only [hg] at h
          cases hr : loadKids strict m rec cs with
          | error e => simp [hr] at h
          | ok cs' =>
            simp only [hr, Except.ok.injEq] at h
            exact ⟨.empty, cs', h.symm, .inl ⟨hg, rfl⟩, rfl⟩
        | some enc =>
          simp only [hg] at h
          cases hd : decode strict enc with
          | err e => simp [hd] at h
          | panic => simp [hd] at h
          | fuel => simp [hd] at h
          | ok n =>
            simp only [hd] at h
            cases n with
            | empty => simp at h
            | stub mv' =>
              simp only at h
              cases hrn : rec (.stub mv') with
              | error e => simp [hrn] at h
              | ok c' =>
                simp only [hrn] at h
                cases hr : loadKids strict m rec cs with
                | error e => simp [hr] at h
                | ok cs' =>
                  simp only [hr, Except.ok.injEq] at h
                  exact ⟨c', cs', h.symm, .inr ⟨enc, _, hg, hd, by simp, hrn⟩, rfl⟩
            | leaf pk v hs =>
              simp only at h
              cases hrn : rec (.leaf pk v hs) with
              | error e => simp [hrn] at h
              | ok c' =>
                simp only [hrn] at h
                cases hr : loadKids strict m rec cs with
                | error e => simp [hr] at h
                | ok cs' =>
                  simp only [hr, Except.ok.injEq] at h
                  exact ⟨c', cs', h.symm, .inr ⟨enc, _, hg, hd, by simp, hrn⟩, rfl⟩
            | branch pk v hs ks =>
              simp only at h
              cases hrn : rec (.branch pk v hs ks) with
              | error e => simp [hrn] at h
              | ok c' =>
                simp only [hrn] at h
                cases hr : loadKids strict m rec cs with
                | error e => simp [hr] at h
                | ok cs' =>
                  simp only [hr, Except.ok.injEq] at h
                  exact ⟨c', cs', h.symm, .inr ⟨enc, _, hg, hd, by simp, hrn⟩, rfl⟩
      | empty =>
        simp only at h
        cases hr : loadKids strict m rec cs with
        | error e => simp [hr] at h
        | ok cs' =>
          simp only [hr, Except.ok.injEq] at h
          exact ⟨.empty, cs', h.symm, rfl, rfl⟩
      | leaf pk v hs =>
        simp only at h
        cases hr : loadKids strict m rec cs with
        | error e => simp [hr] at h
        | ok cs' =>
          simp only [hr, Except.ok.injEq] at h
          exact ⟨_, cs', h.symm, rfl, rfl⟩
      | branch pk v hs ks =>
        simp only at h
        cases hr : loadKids strict m rec cs with
        | error e => simp [hr] at h
        | ok cs' =>
          simp only [hr, Except.ok.injEq] at h
          exact ⟨_, cs', h.symm, rfl, rfl⟩
    obtain ⟨c', cs', rfl, hstep, hrest⟩ := key
    cases j with
    | zero => simpa using hstep
    | succ j => simpa using ih cs' hrest j

/-! ### `loadProof` on an honest node -/

theorem viewT_not_stub (ver : Ver) (H : Bytes → Bytes) (hH : ∀ m, (H m).length = 32) (t : Trie)
    (hn : t.isNil = false) (hw : WFT t) : ∀ mv, viewT ver H t ≠ .stub mv := by
  intro mv
  cases t with
  | nil => simp [Trie.isNil] at hn
  | leaf pk v => rw [viewT_leaf]; intro h; cases h
  | branch pk v cs => rw [viewT_branch ver H hH pk v cs hw.2.2]; intro h; cases h

theorem kidStep_nonstub {strict : Bool} {m : Pairs} {rec : Node → Except VOut Node} {c c' : Node}
    (hc : ∀ mv, c ≠ .stub mv) (h : KidStep strict m rec c c') : c' = c := by
  cases c with
  | stub mv => exact absurd rfl (hc mv)
  | empty => simpa [KidStep] using h
  | leaf _ _ _ => simpa [KidStep] using h
  | branch _ _ _ _ => simpa [KidStep] using h

theorem load_res (ver : Ver) (H : Bytes → Bytes) (hH : ∀ m, (H m).length = 32) (S : Bytes → Prop)
    (strict : Bool) (m : Pairs) (hm : MapOK H S m) :
    ∀ (f : Nat) (t : Trie) (P : Node), WFT t → InjOn ver H S t →
      loadF strict m f (viewT ver H t) = .ok P → Res ver H t P := by
  intro f
  induction f with
  | zero => intro t P _ _ h; simp [loadF] at h
  | succ f ih =>
    intro t P hw hinj h
    cases t with
    | nil =>
      simp only [viewT_nil, loadF, Except.ok.injEq] at h
      exact h.symm
    | leaf pk v =>
      simp only [viewT_leaf, loadF, Except.ok.injEq] at h
      simp only [Res]; exact h.symm
    | branch pk v cs =>
      rw [viewT_branch ver H hH pk v cs hw.2.2] at h
      simp only [loadF] at h
      cases hk : loadKids strict m (loadF strict m f) ((List.finRange 16).map fun i => vkid ver H (cs i)) with
      | error e => simp [hk] at h
      | ok kids' =>
        simp only [hk, Except.ok.injEq] at h
        refine ⟨kids', fun i => ?_, ?_⟩
        · have hs := loadKids_spec strict m (loadF strict m f) _ _ hk i.val
          rw [getD_finRange_map] at hs
          unfold vkid at hs
          split at hs
          · exact .inl hs
          · split at hs
            · rename_i hnil hlt
              have hnil' : (cs i).isNil = false := by simpa using hnil
              rw [kidStep_nonstub (viewT_not_stub ver H hH _ hnil' (hw.2.2 i)) hs]
              exact .inr (.inr (res_viewT ver H hH _ (hw.2.2 i)))
            · simp only [KidStep] at hs
              rcases hs with ⟨_, he⟩ | ⟨enc, n, hg, hd, hne, hrec⟩
              · exact .inl he
              · have hHe := mapGet_some hm hg
                have henc : enc = encodeNode ver H (cs i) :=
                  hinj _ _ hHe.2 (honest_child (honest_self ver H (cs i))) hHe.1
                rw [henc, decode_encodeNode ver H hH strict _ (hw.2.2 i)] at hd
                cases hd
                exact .inr (.inr (ih _ _ (hw.2.2 i) (hinj.child i) hrec))
        · rw [← h]
          unfold rebuild
          split
          · exact .inr rfl
          · exact .inl rfl

/-! ### `Get` on the rebuilt trie -/

theorem pget_empty (db : Pairs) (key : Bytes) : pget db .empty key = none := by
  simp [pget]

theorem pgetKid_eq (db : Pairs) : ∀ (kids : List Node) (i : Nat) (key : Bytes),
    pgetKid db kids i key = pget db (kids.getD i .empty) key := by
  intro kids
  induction kids with
  | nil => intro i key; simp [pgetKid, pget_empty]
  | cons c cs ih =>
    intro i key
    cases i with
    | zero => simp [pgetKid]
    | succ i => simp [pgetKid, ih]

/-- the value `Get` reads from a node that stores `x` (possibly by hash) is `x` -/
theorem leafValue_sound {ver : Ver} {H : Bytes → Bytes} {S : Bytes → Prop} {db : Pairs}
    (hdb : MapOK H S db) {v : Option Bytes} {y : Bytes}
    (hinj : ∀ x, v = some x → ∀ a, S a → H a = H x → a = x)
    (h : leafValue db (v.map (storedValue ver H)) (hashedFlag ver v) = some y) : v = some y := by
  cases v with
  | none => simp [leafValue, hashedFlag] at h
  | some x =>
    simp only [leafValue, hashedFlag, Option.map_some, storedValue] at h
    by_cases hm : mustBeHashed ver x = true
    · simp only [hm, if_true] at h
      have hg := mapGet_some hdb h
      rw [hinj x rfl y hg.2 hg.1]
    · simp only [hm] at h
      have hm' : mustBeHashed ver x = false := by simpa using hm
      simpa [hm'] using h

theorem pget_res (ver : Ver) (H : Bytes → Bytes) (S : Bytes → Prop) (db : Pairs) (hdb : MapOK H S db) :
    ∀ (t : Trie) (P : Node) (key : Nibs) (y : Bytes), InjOn ver H S t → Res ver H t P →
      pget db P (nibB key) = some y → Trie.retrieve t key = some y := by
  intro t
  induction t with
  | nil => intro P key y _ hr h; simp only [Res] at hr; subst hr; simp [pget] at h
  | leaf pk v =>
    intro P key y hinj hr h
    have hinjv : ∀ x, some v = some x → ∀ a, S a → H a = H x → a = x := by
      intro x hx a ha hax
      cases hx
      exact hinj a v ha (.inr rfl) hax
    simp only [Res] at hr; subst hr
    simp only [pget, nibB_eq_iff] at h
    split at h
    · rename_i hk
      have := leafValue_sound (ver := ver) hdb (v := some v) (y := y) hinjv (by simpa [hashedFlag] using h)
      simp only [Trie.retrieve, hk, if_true]
      exact this
    · cases h
  | branch pk v cs ih =>
    intro P key y hinj hr h
    have hinjv : ∀ x, v = some x → ∀ a, S a → H a = H x → a = x := by
      intro x hx a ha hax
      exact hinj a x ha (.inr (.inl hx)) hax
    obtain ⟨kids', hkids, hP⟩ := hr
    rcases hP with rfl | rfl
    · -- still a branch
      have e2 : (nibB pk == nibB key) = (pk == key) := by
        rw [Bool.eq_iff_iff]; simp [nibB_eq_iff]
      simp only [pget, nibB_length, e2, nibB_isPrefixOf, nibB_drop] at h
      simp only [Trie.retrieve]
      split at h
      · rename_i hc
        simp only [hc, if_true]
        exact leafValue_sound hdb hinjv h
      · rename_i hc
        simp only [hc]
        split at h
        · cases h
        · rename_i hp
          simp only [hp]
          cases hd : key.drop pk.length with
          | nil => simp [hd] at h
          | cons i rest =>
            simp only [hd, nibB_cons, pgetKid_eq, nb_toNat] at h
            rcases hkids i with he | ⟨mv, hs⟩ | hres
            · rw [he] at h; simp [pget] at h
            · rw [hs] at h; simp [pget] at h
            · exact ih i _ rest y (hinj.child i) hres h
    · -- converted to a leaf: only its own key is answered
      simp only [pget, nibB_eq_iff] at h
      split at h
      · rename_i hk
        have := leafValue_sound hdb hinjv h
        simp [Trie.retrieve, hk, this]
      · cases h

/-! ### the root -/

theorem scan_found (strict : Bool) (root : Bytes) :
    ∀ (ps acc : Pairs) (n : Node) (m : Pairs), scan strict root ps acc = .found n m →
      ∃ p ∈ ps, p.1 = root ∧ decode strict p.2 = .ok n ∧ n ≠ .empty ∧ ∀ q ∈ m, q ∈ acc ∨ q ∈ ps := by
  intro ps
  induction ps with
  | nil => intro acc n m h; simp [scan] at h
  | cons p rest ih =>
    intro acc n m h
    simp only [scan] at h
    split at h
    · rename_i hp
      have hp' : p.1 = root := by simpa using hp
      cases hd : decode strict p.2 with
      | err e => simp [hd] at h
      | panic => simp [hd] at h
      | fuel => simp [hd] at h
      | ok x =>
        simp only [hd] at h
        cases x with
        | empty => simp at h
        | stub mv =>
          simp only [Scan.found.injEq] at h
          obtain ⟨rfl, rfl⟩ := h
          refine ⟨p, by simp, hp', hd, by simp, ?_⟩
          intro q hq
          simp only [List.mem_append, List.mem_reverse] at hq
          rcases hq with hq | hq
          · exact .inl hq
          · exact .inr (by simp [hq])
        | leaf pk v hs =>
          simp only [Scan.found.injEq] at h
          obtain ⟨rfl, rfl⟩ := h
          refine ⟨p, by simp, hp', hd, by simp, ?_⟩
          intro q hq
          simp only [List.mem_append, List.mem_reverse] at hq
          rcases hq with hq | hq
          · exact .inl hq
          · exact .inr (by simp [hq])
        | branch pk v hs ks =>
          simp only [Scan.found.injEq] at h
          obtain ⟨rfl, rfl⟩ := h
          refine ⟨p, by simp, hp', hd, by simp, ?_⟩
          intro q hq
          simp only [List.mem_append, List.mem_reverse] at hq
          rcases hq with hq | hq
          · exact .inl hq
          · exact .inr (by simp [hq])
    · obtain ⟨q, hq, h1, h2, h3, h4⟩ := ih _ _ _ h
      refine ⟨q, by simp [hq], h1, h2, h3, ?_⟩
      intro x hx
      rcases h4 x hx with hx | hx
      · simp only [List.mem_cons] at hx
        rcases hx with rfl | hx
        · exact .inr (by simp)
        · exact .inl hx
      · exact .inr (by simp [hx])

/-! ### soundness of `Verify` under an injective hash -/

/-- `Verify` under the root hash of `t` succeeds only if `Get` on `t` (nibble key) returns a value,
    and that value is the claimed one unless the claimed value is empty. -/
theorem verify_sound_inj (ver : Ver) (H : Bytes → Bytes) (hH : ∀ m, (H m).length = 32)
    (strict : Bool) (nodes : List Bytes) (t : Trie) (hw : WFT t) (hinj : InjOn ver H (· ∈ nodes) t)
    (key value : Bytes)
    (h : verify H strict nodes (hashTrie ver H t) key value = .ok) :
    ∃ pv, Trie.retrieve t (toNibs key) = some pv ∧ (value = [] ∨ value = pv) := by
  unfold verify verifyP at h
  split at h
  · cases h
  · have hpairs := mapOK_pairsOf H nodes
    cases hs : scan strict (hashTrie ver H t) (pairsOf H nodes) [] with
    | noRoot => simp [hs] at h
    | emptyTrie => simp [hs] at h
    | bad e =>
      simp only [hs] at h
      -- `scan` never returns `.bad .ok`
      exfalso
      have : ∀ (ps acc : Pairs), scan strict (hashTrie ver H t) ps acc ≠ .bad .ok := by
        intro ps
        induction ps with
        | nil => intro acc; simp [scan]
        | cons p rest ih =>
          intro acc
          simp only [scan]
          split
          · cases decode strict p.2 with
            | ok x => cases x <;> simp
            | err _ => simp
            | panic => simp
            | fuel => simp
          · exact ih _
      exact this _ _ (h ▸ hs)
    | found root m =>
      simp only [hs] at h
      obtain ⟨p, hp, hroot, hdec, hne, hsub⟩ := scan_found strict _ _ _ _ _ hs
      have hHp : H p.2 = H (encodeNode ver H t) := by
        rw [← (hpairs p hp).1, hroot]; rfl
      have hpe : p.2 = encodeNode ver H t := hinj _ _ (hpairs p hp).2 (honest_self ver H t) hHp
      rw [hpe, decode_encodeNode ver H hH strict t hw] at hdec
      cases hdec
      have hm : MapOK H (· ∈ nodes) m := by
        intro q hq
        rcases hsub q hq with hq | hq
        · simp at hq
        · exact hpairs q hq
      cases hl : loadF strict m ((pairsOf H nodes).length + 1) (viewT ver H t) with
      | error e =>
        simp only [hl] at h
        -- `loadF` never fails with `.ok`
        exfalso
        have hk : ∀ (rec : Node → Except VOut Node), (∀ n, rec n ≠ .error .ok) →
            ∀ kids, loadKids strict m rec kids ≠ .error .ok := by
          intro rec hrec kids
          induction kids with
          | nil => simp [loadKids]
          | cons c cs ihk =>
            unfold loadKids
            cases c with
            | stub mv =>
              simp only
              cases mapGet m mv with
              | none =>
                simp only
                cases hr : loadKids strict m rec cs with
                | ok _ => simp
                | error e => simp only []; intro he; cases he; exact ihk hr
              | some enc =>
                simp only
                cases decode strict enc with
                | err _ => simp
                | panic => simp
                | fuel => simp
                | ok n =>
                  cases n with
                  | empty => simp
                  | stub mv' =>
                    simp only
                    cases hrn : rec (.stub mv') with
                    | error e => simp only []; intro he; cases he; exact hrec _ hrn
                    | ok c' =>
                      simp only
                      cases hr : loadKids strict m rec cs with
                      | ok _ => simp
                      | error e => simp only []; intro he; cases he; exact ihk hr
                  | leaf a b c =>
                    simp only
                    cases hrn : rec (.leaf a b c) with
                    | error e => simp only []; intro he; cases he; exact hrec _ hrn
                    | ok c' =>
                      simp only
                      cases hr : loadKids strict m rec cs with
                      | ok _ => simp
                      | error e => simp only []; intro he; cases he; exact ihk hr
                  | branch a b c d =>
                    simp only
                    cases hrn : rec (.branch a b c d) with
                    | error e => simp only []; intro he; cases he; exact hrec _ hrn
                    | ok c' =>
                      simp only
                      cases hr : loadKids strict m rec cs with
                      | ok _ => simp
                      | error e => simp only []; intro he; cases he; exact ihk hr
            | empty =>
              simp only
              cases hr : loadKids strict m rec cs with
              | ok _ => simp
              | error e => simp only []; intro he; cases he; exact ihk hr
            | leaf a b c =>
              simp only
              cases hr : loadKids strict m rec cs with
              | ok _ => simp
              | error e => simp only []; intro he; cases he; exact ihk hr
            | branch a b c d =>
              simp only
              cases hr : loadKids strict m rec cs with
              | ok _ => simp
              | error e => simp only []; intro he; cases he; exact ihk hr
        have hf : ∀ f n, loadF strict m f n ≠ .error .ok := by
          intro f
          induction f with
          | zero => intro n; simp [loadF]
          | succ f ihf =>
            intro n
            cases n with
            | branch a b c d =>
              simp only [loadF]
              cases hr : loadKids strict m (loadF strict m f) d with
              | ok _ => simp
              | error e => simp only []; intro he; cases he; exact hk _ ihf _ hr
            | empty => simp [loadF]
            | stub _ => simp [loadF]
            | leaf _ _ _ => simp [loadF]
        exact hf _ _ (h ▸ hl)
      | ok P =>
        simp only [hl] at h
        have hres := load_res ver H hH _ strict m hm _ t P hw hinj hl
        rw [Bridge.keyLEToNibbles_eq] at h
        cases hg : pget (pairsOf H nodes) P (nibB (toNibs key)) with
        | none => simp [hg] at h
        | some pv =>
          simp only [hg] at h
          refine ⟨pv, pget_res ver H _ _ hpairs t P _ pv hinj hres hg, ?_⟩
          split at h
          · cases h
          · rename_i hc
            by_cases hv : value = []
            · exact .inl hv
            · right
              have hlen : value.length > 0 := by
                cases value with
                | nil => exact absurd rfl hv
                | cons _ _ => simp
              simpa [hlen] using hc

end Gossamer.C05
