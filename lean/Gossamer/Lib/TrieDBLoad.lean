/-
C06, step 7: loading a node of the committed trie `T0` from the database (`lookupNode` +
`newNodeFromEncoded`): the result is a cached in-memory node that stands for the same trie, its
inlined children decoded in place as new nodes, its hashed children still `persisted`.
-/
import Gossamer.Lib.TrieDBAbs
set_option linter.unusedSectionVars false
set_option linter.unusedSimpArgs false
namespace Gossamer.C06
open Gossamer Gossamer.Trie

/-! ### sizes -/

theorem length_flatMap_ge {α : Type} (l : List α) (f : α → Bytes) (a : α) (h : a ∈ l) :
    (f a).length ≤ (l.flatMap f).length := by
  induction l with
  | nil => simp at h
  | cons x r ih =>
    rw [List.flatMap_cons, List.length_append]
    rcases List.mem_cons.mp h with rfl | h
    · omega
    · have := ih h; omega

theorem enc_kid_le (ver : Ver) (H : Bytes → Bytes) (pk : Nibs) (v : Option Bytes) (cs : Nib → Trie)
    (i : Nib) (hn : (cs i).isNil = false) :
    (merkleValue H (encodeNode ver H (cs i))).length + 4 ≤ (encodeNode ver H (branch pk v cs)).length := by
  have h2 := compactNat_length_pos (merkleValue H (encodeNode ver H (cs i))).length
  have hh1 := header_length_pos 0x80 0x3f pk.length
  have hh2 := header_length_pos 0x10 0x0f pk.length
  have hh3 := header_length_pos 0xc0 0x3f pk.length
  simp only [encodeNode]
  rw [List.length_append]
  refine Nat.le_trans ?_ (Nat.add_le_add_left (length_flatMap_ge _ _ i (List.mem_finRange i)) _)
  simp only [hn, Bool.false_eq_true, if_false, scaleBytes, List.length_append, length_leBytes]
  cases v with
  | none => simp only []; omega
  | some x => simp only []; split <;> omega

theorem small_kid {ver : Ver} {H : Bytes → Bytes} (hlen : ∀ x, (H x).length = 32) {pk : Nibs}
    {v : Option Bytes} {cs : Nib → Trie} (hs : (encodeNode ver H (branch pk v cs)).length < 32)
    (i : Nib) (hn : (cs i).isNil = false) :
    (encodeNode ver H (cs i)).length + 4 ≤ (encodeNode ver H (branch pk v cs)).length := by
  have := enc_kid_le ver H pk v cs i hn
  unfold merkleValue at this
  split at this
  · exact this
  · rw [hlen] at this; omega

theorem small_leaf_value {ver : Ver} {H : Bytes → Bytes} (hlen : ∀ x, (H x).length = 32) {pk : Nibs}
    {v : Bytes} (hs : (encodeNode ver H (leaf pk v)).length < 32) : mustBeHashed ver v = false := by
  cases hm : mustBeHashed ver v with
  | false => rfl
  | true =>
    simp only [encodeNode, hm, if_true, List.length_append, encodeValue, hlen] at hs
    omega

theorem small_branch_value {ver : Ver} {H : Bytes → Bytes} (hlen : ∀ x, (H x).length = 32) {pk : Nibs}
    {x : Bytes} {cs : Nib → Trie} (hs : (encodeNode ver H (branch pk (some x) cs)).length < 32) :
    mustBeHashed ver x = false := by
  cases hm : mustBeHashed ver x with
  | false => rfl
  | true =>
    simp only [encodeNode, hm, if_true, List.length_append, encodeValue, hlen] at hs
    omega

theorem newValue_small {ver : Ver} {v : Bytes} (h : mustBeHashed ver v = false) :
    newValue ver v = .inl v := by
  unfold newValue; rw [exceeds_eq_mustBeHashed, h]; rfl

/-! ### decoding an inlined child in place -/

/-- a node whose encoding is shorter than a hash decodes (with all its children, which are inlined
    too) to the all-new in-memory image of the trie -/
theorem ofEncoded_inline (ver : Ver) (H : Bytes → Bytes) (dec : Bytes → Option ENode)
    (hlen : ∀ x, (H x).length = 32) (t : Trie) :
    (∀ n, NodeOf n t → dec (encodeNode ver H n) = some (viewOf ver H n)) → t ≠ nil →
    (encodeNode ver H t).length < 32 → ∀ fuel, (encodeNode ver H t).length < fuel →
      ofEncoded dec fuel none (encodeNode ver H t) = some (ofTrie ver t) := by
  induction t with
  | nil => intro _ h; exact absurd rfl h
  | leaf pk v =>
    intro hdec _ hs fuel hf
    obtain ⟨f, rfl⟩ : ∃ f, fuel = f + 1 := ⟨fuel - 1, by omega⟩
    have hd := hdec _ (nodeOf_self (by simp))
    have hm := small_leaf_value hlen hs
    simp only [ofEncoded, hd, viewOf, viewVal, hm, Bool.false_eq_true, if_false,
      NewValueFromEncoded, ofTrie, newValue_small hm]
  | branch pk v cs ih =>
    intro hdec _ hs fuel hf
    obtain ⟨f, rfl⟩ : ∃ f, fuel = f + 1 := ⟨fuel - 1, by omega⟩
    have hd := hdec _ (nodeOf_self (by simp))
    have hkid : ∀ i, kidHandle (ofEncoded dec f none) (viewKid ver H (cs i)) =
        some (ofTrie ver (cs i)) := by
      intro i
      by_cases hn : (cs i).isNil = true
      · have hc : cs i = nil := (isNil_iff _).mp hn
        rw [hc]; rfl
      · have hn' : (cs i).isNil = false := by simpa using hn
        have hc : cs i ≠ nil := fun x => hn ((isNil_iff _).mpr x)
        have hsk := small_kid hlen hs i hn'
        have hlt : (encodeNode ver H (cs i)).length < 32 := by omega
        simp only [viewKid, hn', Bool.false_eq_true, if_false, hlt, if_true, kidHandle]
        exact ih i (fun n hn => hdec n (nodeOf_child i hn)) hc hlt f (by omega)
    simp only [ofEncoded, hd, viewOf, hkid, Option.isSome_some, List.all_eq_true, implies_true,
      if_true, Option.getD_some, ofTrie]
    cases v with
    | none => rfl
    | some x =>
      have hm := small_branch_value hlen hs
      simp [viewVal, hm, NewValueFromEncoded, newValue_small hm]

theorem noFresh_ofTrie_small (ver : Ver) (H : Bytes → Bytes) (hlen : ∀ x, (H x).length = 32)
    (t : Trie) : (encodeNode ver H t).length < 32 → noFresh (ofTrie ver t) := by
  induction t with
  | nil => intro _; trivial
  | leaf pk v =>
    intro hs
    simp [ofTrie, noFresh, newValue_small (small_leaf_value hlen hs), DVal.isFresh]
  | branch pk v cs ih =>
    intro hs
    refine ⟨?_, fun i => ?_⟩
    · intro dv hdv
      cases v with
      | none => cases hdv
      | some x =>
        simp only [Option.map_some, Option.some.injEq] at hdv
        subst hdv
        simp [newValue_small (small_branch_value hlen hs), DVal.isFresh]
    · show noFresh (ofTrie ver (cs i))
      by_cases hn : (cs i).isNil = true
      · have hc : cs i = nil := (isNil_iff _).mp hn
        rw [hc]; trivial
      · have := small_kid hlen hs i (by simpa using hn)
        exact ih i (by omega)

/-! ### the database of a session -/

/-- the database holds every row that reading the committed trie `T0` needs, the decoder inverts
    the encoding on the nodes of `T0`, hashes have 32 bytes -/
structure DbOk (e : Env) (T0 : Trie) : Prop where
  root : T0 ≠ nil →
    dbGet e.H e.db (rowKey [] (e.H (encodeNode e.ver e.H T0))) = some (encodeNode e.ver e.H T0)
  stored : Stored e.ver e.H (dbGet e.H e.db) T0 []
  dec : ∀ n, NodeOf n T0 → e.dec (encodeNode e.ver e.H n) = some (viewOf e.ver e.H n)
  dec0 : e.dec [0] = some .empty
  hlen : ∀ x, (e.H x).length = 32

/-- the handle that loading makes of child `c`: nothing, the decoded new subtree of an inlined
    child, or the hash of a child that stays in the database -/
def kidImg (ver : Ver) (H : Bytes → Bytes) (c : Trie) : Hd :=
  if c.isNil then .none
  else if (encodeNode ver H c).length < 32 then ofTrie ver c
  else .persisted (H (encodeNode ver H c))

theorem kidHandle_view (e : Env) (T0 : Trie) (hdb : DbOk e T0) (c : Trie)
    (hc : c ≠ nil → NodeOf c T0) (f : Nat)
    (hf : c ≠ nil → (encodeNode e.ver e.H c).length < 32 → (encodeNode e.ver e.H c).length < f) :
    kidHandle (ofEncoded e.dec f none) (viewKid e.ver e.H c) = some (kidImg e.ver e.H c) := by
  unfold viewKid kidImg
  by_cases hn : c.isNil = true
  · simp [hn, kidHandle]
  · have hn' : c.isNil = false := by simpa using hn
    have hne : c ≠ nil := fun x => hn ((isNil_iff _).mpr x)
    simp only [hn', Bool.false_eq_true, if_false]
    by_cases hl : (encodeNode e.ver e.H c).length < 32
    · simp only [hl, if_true, kidHandle]
      refine ofEncoded_inline e.ver e.H e.dec hdb.hlen c ?_ hne hl f (hf hne hl)
      intro n hn
      -- a node of a node of `T0` is a node of `T0`
      have : ∀ (t : Trie), NodeOf c t → NodeOf n t := by
        intro t
        induction t with
        | nil => intro h; exact h.elim
        | leaf pk v => intro h; simp only [NodeOf] at h; subst h; exact hn
        | branch pk v cs ih =>
          intro h
          rcases h with h | ⟨i, h⟩
          · subst h; exact hn
          · exact Or.inr ⟨i, ih i h⟩
      exact hdb.dec n (this T0 (hc hne))
    · simp [hl, kidHandle]

theorem ok_kidImg (ver : Ver) (H : Bytes → Bytes) (T0 : Trie) (c : Trie) (q : Nibs)
    (hq : subAt T0 q = c) : Ok ver H T0 (kidImg ver H c) q := by
  unfold kidImg
  split
  · trivial
  · split
    · exact ok_ofTrie ver H T0 c q
    · rename_i hn hl
      have hne : c ≠ nil := fun x => hn ((isNil_iff _).mpr x)
      exact ⟨by rw [hq]; exact hne, by rw [hq], fun _ => by rw [hq]; omega⟩

theorem abs_kidImg (ver : Ver) (H : Bytes → Bytes) (T0 : Trie) (c : Trie) (q : Nibs)
    (hq : subAt T0 q = c) : abs T0 (kidImg ver H c) q = c := by
  unfold kidImg
  split
  · rename_i hn; exact ((isNil_iff _).mp hn).symm
  · split
    · exact abs_ofTrie ver T0 c q
    · exact hq

theorem noFresh_kidImg (ver : Ver) (H : Bytes → Bytes) (hlen : ∀ x, (H x).length = 32) (c : Trie) :
    noFresh (kidImg ver H c) := by
  unfold kidImg
  split
  · trivial
  · split
    · rename_i hl; exact noFresh_ofTrie_small ver H hlen c hl
    · trivial

/-! ### `lookupNode` -/

def loadedVal (ver : Ver) (H : Bytes → Bytes) (v : Bytes) : DVal :=
  if mustBeHashed ver v then .ref (H v) else .inl v

/-- the cached in-memory node that `lookupNode` makes of the node `n` with hash `h` -/
def loadedImg (ver : Ver) (H : Bytes → Bytes) (h : Bytes) : Trie → Hd
  | nil => .none
  | leaf pk v => .leaf (some h) pk (loadedVal ver H v)
  | branch pk v cs => .branch (some h) pk (v.map (loadedVal ver H)) (fun i => kidImg ver H (cs i))

theorem newValueFromEncoded_view (ver : Ver) (H : Bytes → Bytes) (v : Bytes) :
    NewValueFromEncoded (viewVal ver H v) = loadedVal ver H v := by
  unfold viewVal loadedVal; split <;> rfl

theorem load_eq (e : Env) (T0 : Trie) (hdb : DbOk e T0) (pre : Nibs) (h : Bytes)
    (hh : HashAt e.ver e.H T0 pre h) :
    e.load pre h = some (loadedImg e.ver e.H h (subAt T0 pre)) := by
  obtain ⟨hne, hh2, hlong⟩ := hh
  have hrow : dbGet e.H e.db (rowKey pre h) = some (encodeNode e.ver e.H (subAt T0 pre)) := by
    rw [hh2]
    by_cases hp : pre = []
    · subst hp
      simp only [subAt_nil_path] at hne ⊢
      exact hdb.root hne
    · have := stored_subAt T0 [] pre hdb.stored hne hp (hlong hp)
      simpa using this
  have hnode := nodeOf_subAt T0 pre hne
  have hd := hdb.dec _ hnode
  simp only [Env.load, hrow]
  cases hn : subAt T0 pre with
  | nil => exact absurd hn hne
  | leaf pk v =>
    rw [hn] at hd
    simp only [ofEncoded, hd, viewOf, newValueFromEncoded_view, loadedImg]
  | branch pk v cs =>
    rw [hn] at hd hnode
    have hkid : ∀ i, kidHandle (ofEncoded e.dec (encodeNode e.ver e.H (branch pk v cs)).length none)
        (viewKid e.ver e.H (cs i)) = some (kidImg e.ver e.H (cs i)) := by
      intro i
      apply kidHandle_view e T0 hdb
      · intro hc
        have : ∀ (t : Trie), NodeOf (branch pk v cs) t → NodeOf (cs i) t := by
          intro t
          induction t with
          | nil => intro h; exact h.elim
          | leaf pk' v' => intro h; simp only [NodeOf] at h; cases h
          | branch pk' v' cs' ih =>
            intro h
            rcases h with h | ⟨j, h⟩
            · cases h; exact Or.inr ⟨i, nodeOf_self hc⟩
            · exact Or.inr ⟨j, ih j h⟩
        exact this T0 hnode
      · intro hc hl
        have := enc_kid_le e.ver e.H pk v cs i (isNil_false_of_ne hc)
        simp only [merkleValue, hl, if_true] at this
        omega
    simp only [ofEncoded, hd, viewOf, hkid, Option.isSome_some, List.all_eq_true, implies_true,
      if_true, Option.getD_some, loadedImg]
    cases v with
    | none => rfl
    | some x => simp [newValueFromEncoded_view]

theorem absV_loaded (ver : Ver) (H : Bytes → Bytes) (T0 : Trie) (fk : Nibs) (v : Bytes)
    (hv : lookup T0 fk = some v) : absV T0 fk (loadedVal ver H v) = v := by
  unfold loadedVal; split <;> simp [absV, hv]

theorem okV_loaded (ver : Ver) (H : Bytes → Bytes) (T0 : Trie) (fk : Nibs) (v : Bytes)
    (hv : lookup T0 fk = some v) : OkV ver H T0 fk (loadedVal ver H v) := by
  unfold loadedVal
  cases hm : mustBeHashed ver v with
  | false => simp [OkV, hm]
  | true => exact ⟨v, hv, hm, rfl⟩

theorem loadedVal_notFresh (ver : Ver) (H : Bytes → Bytes) (v : Bytes) :
    (loadedVal ver H v).isFresh = false := by
  unfold loadedVal; split <;> rfl

/-- the loaded node stands for the node of `T0` it was read from, is consistent and unchanged -/
theorem loaded_props (ver : Ver) (H : Bytes → Bytes) (hlen : ∀ x, (H x).length = 32) (T0 : Trie)
    (pre : Nibs) (h : Bytes) (hh : HashAt ver H T0 pre h) :
    Ok ver H T0 (loadedImg ver H h (subAt T0 pre)) pre ∧
    abs T0 (loadedImg ver H h (subAt T0 pre)) pre = subAt T0 pre ∧
    noFresh (loadedImg ver H h (subAt T0 pre)) ∧
    (loadedImg ver H h (subAt T0 pre)).cached = some h := by
  have hne := hh.1
  cases hn : subAt T0 pre with
  | nil => exact absurd hn hne
  | leaf pk v =>
    have hv : lookup T0 (pre ++ pk) = some v := by
      rw [lookup_subAt T0 pre pk hne, hn]; simp
    have habs : leaf pk (absV T0 (pre ++ pk) (loadedVal ver H v)) = leaf pk v := by
      rw [absV_loaded ver H T0 _ v hv]
    refine ⟨⟨okV_loaded ver H T0 _ v hv, ?_⟩, ?_, ?_, rfl⟩
    · intro h' hh'
      cases hh'
      exact ⟨hh, by rw [habs, hn], loadedVal_notFresh ver H v⟩
    · simp only [loadedImg, abs]; exact habs
    · exact loadedVal_notFresh ver H v
  | branch pk v cs =>
    have hkid : ∀ i, subAt T0 (pre ++ pk ++ [i]) = cs i := fun i => subAt_step hn i
    have hval : ∀ x, v = some x → lookup T0 (pre ++ pk) = some x := by
      intro x hx
      rw [lookup_subAt T0 pre pk hne, hn, lookup_branch_self, hx]
    have habs : abs T0 (loadedImg ver H h (branch pk v cs)) pre = branch pk v cs := by
      simp only [loadedImg, abs]
      congr 1
      · cases v with
        | none => rfl
        | some x => simp [absV_loaded ver H T0 _ x (hval x rfl)]
      · funext i
        exact abs_kidImg ver H T0 (cs i) _ (hkid i)
    have hnf : noFresh (loadedImg ver H h (branch pk v cs)) := by
      refine ⟨?_, fun i => noFresh_kidImg ver H hlen (cs i)⟩
      intro dv hdv
      cases v with
      | none => cases hdv
      | some x =>
        simp only [Option.map_some, Option.some.injEq] at hdv
        subst hdv
        exact loadedVal_notFresh ver H x
    refine ⟨⟨?_, fun i => ok_kidImg ver H T0 (cs i) _ (hkid i), ?_⟩, habs, hnf, rfl⟩
    · intro dv hdv
      cases v with
      | none => cases hdv
      | some x =>
        simp only [Option.map_some, Option.some.injEq] at hdv
        subst hdv
        exact okV_loaded ver H T0 _ x (hval x rfl)
    · intro h' hh'
      cases hh'
      exact ⟨hh, habs.trans hn.symm, hnf⟩

end Gossamer.C06
