/-
C04, read side: what it means for the database to hold a trie (`Rep`, `RootRep`), and the proof that
`GetFromDB` (`gfdF`, `getFromDB` of `TrieHeapDB`) then returns exactly what the in-memory `Get`
(`Trie.retrieve` / `Trie.get` of `TrieMem`) returns — for present and for absent keys.
-/
import Gossamer.Lib.TrieHeapDB
namespace Gossamer
namespace TrieHeap
open Trie

/-- every byte is a nibble -/
def IsNib (k : Bytes) : Prop := ∀ x, x ∈ k → x < 16

theorem toNib_val {b : UInt8} (h : b < 16) : (toNib b).val = b.toNat := by
  unfold toNib
  have : b.toNat < 16 := by simpa using UInt8.lt_iff_toNat_lt.mp h
  simp [Fin.ofNat, Nat.mod_eq_of_lt this]

theorem toNib_inj {a b : UInt8} (ha : a < 16) (hb : b < 16) (h : toNib a = toNib b) : a = b := by
  have h1 := congrArg Fin.val h
  rw [toNib_val ha, toNib_val hb] at h1
  exact UInt8.toNat_inj.mp h1

theorem isNib_cons {x : UInt8} {k : Bytes} (h : IsNib (x :: k)) : x < 16 ∧ IsNib k :=
  ⟨h x List.mem_cons_self, fun y hy => h y (List.mem_cons_of_mem x hy)⟩

theorem isNib_drop {k : Bytes} (h : IsNib k) (n : Nat) : IsNib (k.drop n) :=
  fun x hx => h x (List.mem_of_mem_drop hx)

theorem map_toNib_inj : ∀ {a b : Bytes}, IsNib a → IsNib b → a.map toNib = b.map toNib → a = b
  | [], [], _, _, _ => rfl
  | [], _ :: _, _, _, h => nomatch h
  | _ :: _, [], _, _, h => nomatch h
  | x :: a, y :: b, ha, hb, h => by
    simp only [List.map_cons, List.cons.injEq] at h
    obtain ⟨hx, ha'⟩ := isNib_cons ha
    obtain ⟨hy, hb'⟩ := isNib_cons hb
    rw [toNib_inj hx hy h.1, map_toNib_inj ha' hb' h.2]

theorem beq_map_toNib {a b : Bytes} (ha : IsNib a) (hb : IsNib b) :
    (a.map toNib == b.map toNib) = (a == b) := by
  by_cases h : a = b
  · subst h; simp
  · have : a.map toNib ≠ b.map toNib := fun e => h (map_toNib_inj ha hb e)
    rw [beq_eq_false_iff_ne.mpr h, beq_eq_false_iff_ne.mpr this]

theorem isPrefixOf_map_toNib : ∀ {a b : Bytes}, IsNib a → IsNib b →
    (a.map toNib).isPrefixOf (b.map toNib) = a.isPrefixOf b
  | [], _, _, _ => by simp
  | _ :: _, [], _, _ => by simp
  | x :: a, y :: b, ha, hb => by
    obtain ⟨hx, ha'⟩ := isNib_cons ha
    obtain ⟨hy, hb'⟩ := isNib_cons hb
    simp only [List.map_cons, List.isPrefixOf_cons₂]
    rw [isPrefixOf_map_toNib ha' hb']
    by_cases h : x = y
    · subst h; simp
    · have : toNib x ≠ toNib y := fun e => h (toNib_inj hx hy e)
      rw [beq_eq_false_iff_ne.mpr h, beq_eq_false_iff_ne.mpr this]

/-- the storage value of a decoded node, resolved through the database, is `v` -/
def ValRep (db : DB) (pk : Bytes) (v' : Option Bytes) (hashed : Bool) (v : Option Bytes) : Prop :=
  (hashed = false ∧ v' = v) ∨ (hashed = true ∧ ∃ x, v = some x ∧ dbGet db (pk ++ v'.getD []) = some x)

theorem gfdValue_rep {db : DB} {pk : Bytes} {v' : Option Bytes} {hashed : Bool} {v : Option Bytes}
    (h : ValRep db pk v' hashed v) : gfdValue db pk v' hashed = some v := by
  unfold gfdValue
  rcases h with ⟨h1, h2⟩ | ⟨h1, x, h2, h3⟩
  · simp [h1, h2]
  · simp [h1, h3, h2]

/-- the decoded node `n` (children and hashed values resolved through `db`) is the trie `t` -/
def Rep (db : DB) : Trie → TrieCodec.Node → Prop
  | .nil, _ => False
  | .leaf pk v, n =>
    ∃ pkb v' hashed, n = .leaf pkb v' hashed ∧ IsNib pkb ∧ pkb.map toNib = pk ∧
      ValRep db pkb v' hashed (some v)
  | .branch pk v cs, n =>
    ∃ pkb v' hashed kids, n = .branch pkb v' hashed kids ∧ IsNib pkb ∧ pkb.map toNib = pk ∧
      ValRep db pkb v' hashed v ∧
      ∀ i : Nib,
        match kids[i.val]? with
        | none => cs i = .nil
        | some .empty => cs i = .nil
        | some (.stub mv) =>
          ∃ enc n', dbGet db mv = some enc ∧ decodeNode enc = some n' ∧ Rep db (cs i) n'
        | some c => Rep db (cs i) c

/-- **`getFromDBAtNode` reads what `retrieve` reads.** -/
theorem gfd_rep (db : DB) : ∀ (t : Trie) (n : TrieCodec.Node) (key : Bytes) (f : Nat),
    Rep db t n → IsNib key → key.length < f → gfdF db f n key = some (retrieve t (key.map toNib))
  | .nil, _, _, _, h, _, _ => h.elim
  | .leaf pk v, n, key, f, h, hk, hf => by
    obtain ⟨pkb, v', hashed, rfl, hpk, rfl, hv⟩ := h
    cases f with
    | zero => omega
    | succ f =>
      simp only [gfdF, retrieve]
      by_cases he : pkb = key
      · subst he; simp [gfdValue_rep hv]
      · have : ¬ (pkb.map toNib = key.map toNib) := fun e => he (map_toNib_inj hpk hk e)
        simp [he, this]
  | .branch pk v cs, n, key, f, h, hk, hf => by
    obtain ⟨pkb, v', hashed, kids, rfl, hpk, rfl, hv, hkids⟩ := h
    cases f with
    | zero => omega
    | succ f =>
      simp only [gfdF, retrieve, List.length_map]
      rw [beq_map_toNib hpk hk, isPrefixOf_map_toNib hpk hk]
      by_cases h1 : (key.length == 0 || pkb == key) = true
      · rw [if_pos h1]
        have h1' : (decide (key.length = 0) || pkb == key) = true := by simpa using h1
        rw [if_pos h1']
        exact gfdValue_rep hv
      · rw [if_neg h1]
        have h1' : ¬ (decide (key.length = 0) || pkb == key) = true := by simpa using h1
        rw [if_neg h1']
        by_cases h2 : (!pkb.isPrefixOf key) = true
        · rw [if_pos h2, if_pos h2]
        · rw [if_neg h2, if_neg h2]
          rw [← List.map_drop]
          cases hd : key.drop pkb.length with
          | nil => simp
          | cons i rest =>
            simp only [List.map_cons]
            have hi : i < 16 := hk i (List.mem_of_mem_drop (by rw [hd]; exact List.mem_cons_self))
            have hrest : IsNib rest := fun x hx =>
              hk x (List.mem_of_mem_drop (by rw [hd]; exact List.mem_cons_of_mem i hx))
            have hlen : rest.length < f := by
              have : (key.drop pkb.length).length = rest.length + 1 := by rw [hd]; rfl
              have h3 : (key.drop pkb.length).length ≤ key.length := by simp
              omega
            have hkid := hkids (toNib i)
            rw [toNib_val hi] at hkid
            cases hk0 : kids[i.toNat]? with
            | none =>
              rw [hk0] at hkid
              simp only [hkid, retrieve]
            | some c =>
              rw [hk0] at hkid
              cases c with
              | empty =>
                simp only at hkid
                simp only [hkid, retrieve]
              | stub mv =>
                simp only at hkid
                obtain ⟨enc, n', h3, h4, h5⟩ := hkid
                simp only [h3, h4]
                exact gfd_rep db (cs (toNib i)) n' rest f h5 hrest hlen
              | leaf a b c =>
                simp only at hkid
                exact gfd_rep db (cs (toNib i)) _ rest f hkid hrest hlen
              | branch a b c d =>
                simp only at hkid
                exact gfd_rep db (cs (toNib i)) _ rest f hkid hrest hlen

/-- the database holds the trie `t` under the root hash `root` -/
def RootRep (H : Bytes → Bytes) (db : DB) (root : Bytes) (t : Trie) : Prop :=
  (t = .nil ∧ root = H [0]) ∨
  (root ≠ H [0] ∧ ∃ enc n, dbGet db root = some enc ∧ decodeNode enc = some n ∧ Rep db t n)

theorem isNib_keyLE (k : Bytes) : IsNib (TrieCodec.keyLEToNibbles k) := by
  intro x hx
  unfold TrieCodec.keyLEToNibbles at hx
  rw [List.mem_flatMap] at hx
  obtain ⟨b, _, hb⟩ := hx
  simp only [List.mem_cons, List.not_mem_nil, or_false] at hb
  have hlt : b.toNat < 256 := b.toNat_lt
  rcases hb with rfl | rfl
  · rw [UInt8.lt_iff_toNat_lt, UInt8.toNat_div]
    show b.toNat / 16 < 16
    omega
  · rw [UInt8.lt_iff_toNat_lt, UInt8.toNat_mod]
    show b.toNat % 16 < 16
    omega

theorem keyLE_nibs (k : Bytes) : (TrieCodec.keyLEToNibbles k).map toNib = Trie.keyLEToNibbles k := by
  have hgen : ∀ k : Bytes, (TrieCodec.keyLEToNibbles k).map toNib = toNibs k := by
    intro k
    induction k with
    | nil => rfl
    | cons b r ih =>
      have hb : ∀ b : UInt8, toNib (b / 16) = hiNib b ∧ toNib (b % 16) = loNib b := by
        intro b
        unfold toNib hiNib loNib
        rw [UInt8.toNat_div, UInt8.toNat_mod]
        exact ⟨rfl, rfl⟩
      simp only [TrieCodec.keyLEToNibbles, List.flatMap_cons, List.map_append, List.map_cons, List.map_nil,
        toNibs] at ih ⊢
      rw [(hb b).1, (hb b).2]
      simp only [List.cons_append, List.nil_append, List.cons.injEq, true_and]
      exact ih
  rw [hgen]
  unfold Trie.keyLEToNibbles
  split
  · rename_i h; cases k with
    | nil => rfl
    | cons _ _ => simp at h
  · split
    · rename_i h
      cases k with
      | nil => simp at h
      | cons b r =>
        cases r with
        | nil =>
          simp only [List.length_cons, List.length_nil, List.head?_cons, Option.some.injEq, true_and] at h
          subst h; rfl
        | cons _ _ => simp at h
    · rfl

/-- **`GetFromDB` returns the in-memory `Get`**: for a database that holds the trie `t` under `root`,
    every key — present or absent — reads exactly as `t.Get` reads it. -/
theorem getFromDB_rep (H : Bytes → Bytes) (db : DB) (root : Bytes) (t : Trie) (h : RootRep H db root t)
    (key : Bytes) : getFromDB H db root key = some (Trie.get t key) := by
  unfold getFromDB Trie.get
  rcases h with ⟨rfl, rfl⟩ | ⟨hne, enc, n, h1, h2, h3⟩
  · simp [retrieve]
  · have : (root == H [0]) = false := by simpa using hne
    simp only [this, Bool.false_eq_true, if_false, h1, h2]
    rw [gfd_rep db t n _ _ h3 (isNib_keyLE key) (by omega), keyLE_nibs]

end TrieHeap
end Gossamer
