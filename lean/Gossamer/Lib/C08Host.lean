/-
C08: the storage host functions of `lib/runtime/wazero/imports.go` on top of a storage machine
(the `TrieState` model, or the specification): which `TrieState` call each function makes, how the
result is encoded into guest memory, and what happens on a storage error.

  ext_storage_set / clear / clear_prefix_v1 / start / commit / rollback, child set / clear /
  clear_prefix_v1 / storage_kill_v1: no result; a storage error (or Go panic) traps (`panic`),
  except child clear / clear_prefix_v1 whose error is only logged.
  ext_storage_get / next_key, child get / next_key: SCALE `Option<Vec<u8>>`; a storage error → `None`.
  ext_storage_exists, child exists: u32 0 / 1 (error → 0).
  ext_storage_read: `None`, or `Some(u32 remaining length)` after copying
  `min(remaining, len(value_out))` bytes of `value[offset..]` into `value_out`.
  ext_storage_clear_prefix_v1 / v2 refuse a prefix that starts with ":child_storage:" (v2 answers
  SomeRemaining(0)); v2 result = flag byte (0 all removed / 1 some remain) ++ u32 LE.
  child clear_prefix_v2 and storage_kill_v3 result = `Some(Vec)` wrapping variant byte ++ u32 LE
  (kill_v3: `None` when the child does not exist); storage_kill_v2 = u32 (1 = all removed).
  ext_storage_root_v1/v2: `TrieState.Root()` = commit, then panic if a transaction is still open,
  else the 32 root bytes (raw).  child root v1: 0 pointer on error, else `Some(Vec(root))`.
Core Lean only.
-/
import Gossamer.Lib.C08Spec
import Gossamer.Lib.Scale.Compact
namespace Gossamer.C08
open Gossamer

/-- a storage machine: one step per `TrieState` call, plus what `Root()` and kill_v3 look at -/
structure Mach (σ : Type) where
  step : σ → Op → σ × Out
  depth : σ → Nat
  root : σ → Bytes
  /-- `DeleteChildLimit` would return `ErrChildTrieDoesNotExist` -/
  killErr : σ → Bytes → Bool

inductive HOp where
  | put (k v : Bytes) | get (k : Bytes) | has (k : Bytes) | read (k : Bytes) (off n : Nat)
  | del (k : Bytes) | clr (p : Bytes) | clrl (p : Bytes) (lim : Option Nat) | next (k : Bytes) | root
  | cput (c k v : Bytes) | cget (c k : Bytes) | chas (c k : Bytes) | cdel (c k : Bytes)
  | cclr (c p : Bytes) | cclrl (c p : Bytes) (lim : Option Nat) | cnext (c k : Bytes)
  | croot (c : Bytes) | kill (c : Bytes) | killl2 (c : Bytes) (lim : Option Nat)
  | killl3 (c : Bytes) (lim : Option Nat)
  | start | commit | rollback
  | snap (x y : UInt8) (sep : Bool)
  | bad

/-- what the harness sees of one call -/
inductive HOut where
  | void
  | panic
  | u32 (n : Nat)
  | bytes (b : Bytes)
  | ptr0
  | readRes (res buf : Bytes)
  | snap (o : Out)
  | bad

/-- ":child_storage:" — the prefix the two clear_prefix functions refuse -/
def hostChildPrefix : Bytes := childPrefix.take 15

def maxU32 : Nat := 4294967295

/-- SCALE `Option<Vec<u8>>` -/
def optVec : Option Bytes → Bytes
  | none => [0]
  | some b => 1 :: (Scale.compactEnc b.length ++ b)

/-- variant byte ++ u32 LE -/
def killEnum (n : Nat) (all : Bool) : Bytes := (if all then 0 else 1) :: leBytes 4 n

/-- the buffer pattern the harness puts into `value_out` before a read -/
def outPattern : Bytes := List.replicate 8 0xcc

/-- the `TrieState` call made by a host function (`none` = refused / no storage call) -/
def HOp.op : HOp → Option Op
  | .put k v => some (.put k (some v))
  | .get k => some (.get k)
  | .has k => some (.get k)
  | .read k _ _ => some (.get k)
  | .del k => some (.del k)
  | .clr p => if hostChildPrefix.isPrefixOf p then none else some (.clr p)
  | .clrl p lim => if hostChildPrefix.isPrefixOf p then none else some (.clrl p (lim.getD maxU32))
  | .next k => some (.next k)
  | .root => some .commit
  | .cput c k v => some (.cput c k (some v))
  | .cget c k => some (.cget c k)
  | .chas c k => some (.cget c k)
  | .cdel c k => some (.cdel c k)
  | .cclr c p => some (.cclr c p)
  | .cclrl c p lim => some (.cclrl c p (lim.getD maxU32))
  | .cnext c k => some (.cnext c k)
  | .croot c => some (.croot c)
  | .kill c => some (.kill c)
  | .killl2 c lim => some (.killl c lim)
  | .killl3 c lim => some (.killl c lim)
  | .start => some .start
  | .commit => some .commit
  | .rollback => some .rollback
  | .snap x y sep => some (.snap x y sep)
  | .bad => none

def voidOf : Out → HOut
  | .panic => .panic
  | _ => .void

def optOf : Out → HOut
  | .val v => .bytes (optVec v)
  | .panic => .panic
  | _ => .bad

/-- result of a host function whose storage call was refused -/
def HOp.refused : HOp → HOut
  | .clrl _ _ => .bytes (killEnum 0 false)
  | .bad => .bad
  | _ => .void

/-- encoding of the result: `errBefore` = kill_v3's error test on the state before the call,
    `depth'` / `root'` = the state after it -/
def HOp.enc (h : HOp) (errBefore : Bool) (depth' : Nat) (root' : Bytes) (o : Out) : HOut :=
  match h with
  | .put _ _ | .del _ | .clr _ | .cput _ _ _ | .cdel _ _ | .cclr _ _ | .kill _
  | .start | .commit | .rollback => voidOf o
  | .get _ | .cget _ _ | .next _ | .cnext _ _ => optOf o
  | .has _ | .chas _ _ =>
    match o with
    | .val v => .u32 (if v.isSome then 1 else 0)
    | .panic => .panic
    | _ => .bad
  | .read _ off n =>
    match o with
    | .val none => .readRes [0] outPattern
    | .val (some v) =>
      let data := if off ≤ v.length then v.drop off else []
      let w := min data.length n
      .readRes (1 :: leBytes 4 data.length) (data.take w ++ outPattern.drop w)
    | .panic => .panic
    | _ => .bad
  | .clrl _ _ =>
    match o with
    | .cnt n all => .bytes (killEnum n all)
    | .panic => .panic
    | _ => .bad
  | .cclrl _ _ _ =>
    match o with
    | .cnt n all => .bytes (optVec (some (killEnum n all)))
    | .panic => .panic
    | _ => .bad
  | .killl2 _ _ =>
    match o with
    | .cnt _ all => .u32 (if all then 1 else 0)
    | .panic => .panic
    | _ => .bad
  | .killl3 _ _ =>
    match o with
    | .cnt n all => if errBefore then .bytes [0] else .bytes (optVec (some (killEnum n all)))
    | .panic => .panic
    | _ => .bad
  | .croot _ =>
    match o with
    | .val none => .ptr0
    | .val (some r) => .bytes (optVec (some r))
    | .panic => .panic
    | _ => .bad
  | .root =>
    match o with
    | .panic => .panic
    | _ => if depth' = 0 then .bytes root' else .panic
  | .snap _ _ _ => .snap o
  | .bad => .bad

def killKey : HOp → Bytes
  | .killl3 c _ => c
  | _ => []

/-- one host call -/
def hostStep {σ : Type} (M : Mach σ) (s : σ) (h : HOp) : σ × HOut :=
  match h.op with
  | none => (s, h.refused)
  | some op =>
    let x := M.step s op
    (x.1, h.enc (M.killErr s (killKey h)) (M.depth x.1) (M.root x.1) x.2)

def hostRun {σ : Type} (M : Mach σ) (s : σ) : List HOp → σ × List HOut
  | [] => (s, [])
  | h :: r =>
    let x := hostStep M s h
    let y := hostRun M x.1 r
    (y.1, x.2 :: y.2)

/-! ### the two machines -/

section machines
variable {β τ : Type} (B : Backend β τ) (D : Dumper β) (ord : Diff → ApplyOrder)

/-- `DeleteChildLimit` returns the error: the child is not in the committed trie and (inside a
    transaction) has no change set -/
def tsKillErr (s : TS β) (c : Bytes) : Bool :=
  (match B.getChild s.base c with | .missing => true | _ => false) &&
    (match s.txs with
      | d :: _ => (KMap.find c d.kids).isNone
      | [] => true)

def tsMach : Mach (TS β) where
  step := stepTS B D ord
  depth := fun s => s.txs.length
  root := fun s => B.hash s.base
  killErr := tsKillErr B

end machines

def specMach (Hc Hm : Entries → Bytes) : Mach SS where
  step := specStep Hc Hm
  depth := fun s => s.stack.length
  root := fun s => Hm (Logical.view Hc s.back)
  killErr := fun s c => (KMap.find c s.top.kids).isNone && (KMap.find c s.back.kids).isNone

end Gossamer.C08
