/-
C08: what `TrieState` / `storageDiff` call on the committed trie (`trie.Trie` interface), as a record
of functions, with two instances:

* `memBackend H` — the code as it is: `pkg/trie/inmemory` (`TrieMem`, all quirks kept) with the child
  tries of `child_storage.go`: the root hash of a child is stored in the main trie under
  `:child_storage:default:` ++ key and the child objects live in a map keyed by that HASH;
* `idealBackend Hc Hm` — a correct implementation of the same interface on ordered maps
  (main map + child maps keyed by child key; the child-root entries of the main trie are derived,
  never writable: Substrate refuses direct writes below `:child_storage:`).
The correspondence run uses the first; the theorems are about the model over the second.
Core Lean only.
-/
import Gossamer.Lib.TrieMem
import Gossamer.Lib.C08Map
namespace Gossamer.C08
open Gossamer

/-- `ChildStorageKeyPrefix` = ":child_storage:default:" -/
def childPrefix : Bytes :=
  [0x3a, 0x63, 0x68, 0x69, 0x6c, 0x64, 0x5f, 0x73, 0x74, 0x6f, 0x72, 0x61, 0x67, 0x65, 0x3a,
   0x64, 0x65, 0x66, 0x61, 0x75, 0x6c, 0x74, 0x3a]

/-- result of `GetChild`: error `ErrChildTrieDoesNotExist`, `(nil, nil)` (root hash stored but no
    object under that hash), or the child object -/
inductive ChildSt (τ : Type) where
  | missing
  | dangling
  | present (c : τ)

/-- methods of a child `trie.Trie` that `TrieState` calls -/
structure TrieOps (τ : Type) where
  get : τ → Bytes → Option Bytes
  delete : τ → Bytes → τ
  nextKey : τ → Bytes → Option Bytes
  /-- `PrefixedIter(k)` followed by `NextKey()` until exhausted -/
  keysAfter : τ → Bytes → List Bytes
  clearPrefix : τ → Bytes → τ
  clearPrefixLimit : τ → Bytes → Nat → τ × Nat × Bool
  keysWithPrefix : τ → Bytes → List Bytes
  /-- `Entries()` sorted by key -/
  entries : τ → List (Bytes × Option Bytes)
  hash : τ → Bytes

/-- methods of the committed trie `t.state` -/
structure Backend (β τ : Type) where
  T : TrieOps τ
  put : β → Bytes → Option Bytes → β
  get : β → Bytes → Option Bytes
  delete : β → Bytes → β
  nextKey : β → Bytes → Option Bytes
  keysAfter : β → Bytes → List Bytes
  clearPrefix : β → Bytes → β
  clearPrefixLimit : β → Bytes → Nat → β × Nat × Bool
  entries : β → List (Bytes × Option Bytes)
  hash : β → Bytes
  getChild : β → Bytes → ChildSt τ
  /-- the object returned by `GetChild` was mutated in place -/
  setChildObj : β → Bytes → τ → β
  /-- `PutIntoChild`; `none` = nil-pointer panic -/
  putIntoChild : β → Bytes → Bytes → Option Bytes → Option β
  deleteChild : β → Bytes → β
  /-- `ClearFromChild`; `none` = error `ErrChildTrieDoesNotExist` -/
  clearFromChild : β → Bytes → Bytes → Option β

/-! ### the in-memory trie -/

def sortEnt (es : List (Bytes × Option Bytes)) : List (Bytes × Option Bytes) :=
  es.mergeSort (fun a b => !(klt b.1 a.1))

/-- iterator: repeated `findNextNode` from the last key found -/
def iterFrom (t : Trie) : Nat → Nibs → List Bytes
  | 0, _ => []
  | f + 1, cur =>
    match Trie.findNextNode t [] cur with
    | none => []
    | some nk => Trie.nibblesToKeyLE nk :: iterFrom t f nk

def trieKeysAfter (t : Trie) (k : Bytes) : List Bytes :=
  iterFrom t ((Trie.entriesN t).length + 1) (Trie.keyLEToNibbles k)

def trieOps (H : Bytes → Bytes) : TrieOps Trie where
  get := Trie.get
  delete := Trie.delete
  nextKey := Trie.nextKey
  keysAfter := trieKeysAfter
  clearPrefix := Trie.clearPrefix
  clearPrefixLimit := Trie.clearPrefixLimit
  keysWithPrefix := Trie.keysWithPrefix
  entries := fun t => sortEnt (Trie.entries t)
  hash := fun t => hashTrie Ver.v0 H t

/-- `common.BytesToHash` -/
def toHash (v : Bytes) : Bytes :=
  if v.length > 32 then v.drop (v.length - 32) else List.replicate (32 - v.length) 0 ++ v

/-- `InMemoryTrie`: root node and `childTries map[common.Hash]*InMemoryTrie`.  The map values are
    pointers: `kids` maps a hash to an object id, `heap` holds the objects (one object can be
    reachable under several hashes after an in-place mutation that left a stale key behind). -/
structure Mem where
  main : Trie
  kids : KMap Nat
  heap : List (Nat × Trie)
  next : Nat

namespace Mem

def empty : Mem := { main := Trie.nil, kids := [], heap := [], next := 0 }

def deref (m : Mem) (id : Nat) : Trie :=
  match m.heap.find? (fun e => e.1 == id) with
  | some e => e.2
  | none => Trie.nil

def store (m : Mem) (id : Nat) (c : Trie) : Mem :=
  { m with heap := (id, c) :: m.heap.filter (fun e => !(e.1 == id)) }

/-- `getInternalChildTrie`: the object id -/
def getChildId (m : Mem) (ck : Bytes) : ChildSt Nat :=
  match Trie.get m.main (childPrefix ++ ck) with
  | none => .missing
  | some h =>
    match KMap.find (toHash h) m.kids with
    | none => .dangling
    | some id => .present id

def getChild (m : Mem) (ck : Bytes) : ChildSt Trie :=
  match getChildId m ck with
  | .missing => .missing
  | .dangling => .dangling
  | .present id => .present (deref m id)

/-- `SetChild` with the object `id` (whose content is already stored) -/
def setChild (H : Bytes → Bytes) (m : Mem) (ck : Bytes) (id : Nat) : Mem :=
  let h := hashTrie Ver.v0 H (deref m id)
  { m with main := Trie.put m.main (childPrefix ++ ck) h, kids := KMap.ins h id m.kids }

def deleteChild (m : Mem) (ck : Bytes) : Mem :=
  { m with main := Trie.delete m.main (childPrefix ++ ck) }

def putIntoChild (H : Bytes → Bytes) (m : Mem) (ck k : Bytes) (v : Option Bytes) : Option Mem :=
  let go (m : Mem) (id : Nat) : Mem :=
    let c := deref m id
    let orig := hashTrie Ver.v0 H c
    let m1 := store m id (Trie.put c k (v.getD []))
    setChild H { m1 with kids := KMap.del orig m1.kids } ck id
  match getChildId m ck with
  | .missing => some (go (store { m with next := m.next + 1 } m.next Trie.nil) m.next)
  | .dangling => none
  | .present id => some (go m id)

def clearFromChild (H : Bytes → Bytes) (m : Mem) (ck k : Bytes) : Option Mem :=
  match getChildId m ck with
  | .present id =>
    let c := deref m id
    let orig := hashTrie Ver.v0 H c
    let c' := Trie.delete c k
    let m1 := store m id c'
    let m2 := { m1 with kids := KMap.del orig m1.kids }
    if c'.isNil then some (deleteChild m2 ck) else some (setChild H m2 ck id)
  | _ => none

/-- in-place mutation of the object found by `GetChild` (no hash key is updated) -/
def setChildObj (m : Mem) (ck : Bytes) (c : Trie) : Mem :=
  match getChildId m ck with
  | .present id => store m id c
  | _ => m

end Mem

def memBackend (H : Bytes → Bytes) : Backend Mem Trie where
  T := trieOps H
  put := fun m k v => { m with main := Trie.put m.main k (v.getD []) }
  get := fun m k => Trie.get m.main k
  delete := fun m k => { m with main := Trie.delete m.main k }
  nextKey := fun m k => Trie.nextKey m.main k
  keysAfter := fun m k => trieKeysAfter m.main k
  clearPrefix := fun m p => { m with main := Trie.clearPrefix m.main p }
  clearPrefixLimit := fun m p n =>
    let r := Trie.clearPrefixLimit m.main p n
    ({ m with main := r.1 }, r.2.1, r.2.2)
  entries := fun m => sortEnt (Trie.entries m.main)
  hash := fun m => hashTrie Ver.v0 H m.main
  getChild := Mem.getChild
  setChildObj := Mem.setChildObj
  putIntoChild := Mem.putIntoChild H
  deleteChild := Mem.deleteChild
  clearFromChild := Mem.clearFromChild H

/-! ### the ideal trie -/

/-- logical content of the storage: main map (no key below `:child_storage:default:`) and the
    child maps (non-empty, ascending child keys) -/
structure Logical where
  main : Entries
  kids : KMap Entries
deriving DecidableEq

namespace Logical

def empty : Logical := { main := [], kids := [] }

def isChildKey (k : Bytes) : Bool := childPrefix.isPrefixOf k

/-- child-root entries of the main trie -/
def rootEntries (Hc : Entries → Bytes) (kids : KMap Entries) : Entries :=
  kids.map (fun e => (childPrefix ++ e.1, Hc e.2))

/-- what the main trie contains: the main map and one root entry per child -/
def view (Hc : Entries → Bytes) (l : Logical) : Entries :=
  (rootEntries Hc l.kids).foldl (fun m e => OMap.upsert e.1 e.2 m) l.main

def keysAfterE (es : Entries) (k : Bytes) : List Bytes :=
  (es.filter (fun e => klt k e.1)).map (·.1)

def putIntoChild (l : Logical) (ck k : Bytes) (v : Option Bytes) : Logical :=
  let es := (KMap.find ck l.kids).getD []
  { l with kids := KMap.ins ck (OMap.upsert k (v.getD []) es) l.kids }

/-- write a child map back; an empty child does not exist -/
def setKid (l : Logical) (ck : Bytes) (es : Entries) : Logical :=
  if es.isEmpty then { l with kids := KMap.del ck l.kids }
  else { l with kids := KMap.ins ck es l.kids }

def clearFromChild (l : Logical) (ck k : Bytes) : Option Logical :=
  match KMap.find ck l.kids with
  | none => none
  | some es => some (setKid l ck (OMap.erase k es))

end Logical

def omapOps (Hc : Entries → Bytes) : TrieOps Entries where
  get := fun es k => OMap.get k es
  delete := fun es k => OMap.erase k es
  nextKey := fun es k => OMap.nextKey k es
  keysAfter := Logical.keysAfterE
  clearPrefix := fun es p => OMap.clearPrefix p es
  clearPrefixLimit := fun es p n => OMap.clearPrefixLimit p n es
  keysWithPrefix := fun es p => OMap.keysWithPrefix p es
  entries := fun es => es.map (fun e => (e.1, some e.2))
  hash := Hc

def idealBackend (Hc Hm : Entries → Bytes) : Backend Logical Entries where
  T := omapOps Hc
  put := fun l k v =>
    if Logical.isChildKey k then l else { l with main := OMap.upsert k (v.getD []) l.main }
  get := fun l k => OMap.get k (Logical.view Hc l)
  delete := fun l k => if Logical.isChildKey k then l else { l with main := OMap.erase k l.main }
  nextKey := fun l k => OMap.nextKey k (Logical.view Hc l)
  keysAfter := fun l k => Logical.keysAfterE (Logical.view Hc l) k
  clearPrefix := fun l p => { l with main := OMap.clearPrefix p l.main }
  clearPrefixLimit := fun l p n =>
    let r := OMap.clearPrefixLimit p n l.main
    ({ l with main := r.1 }, r.2.1, r.2.2)
  entries := fun l => (Logical.view Hc l).map (fun e => (e.1, some e.2))
  hash := fun l => Hm (Logical.view Hc l)
  getChild := fun l ck =>
    match KMap.find ck l.kids with
    | none => .missing
    | some es => .present es
  setChildObj := Logical.setKid
  putIntoChild := fun l ck k v => some (Logical.putIntoChild l ck k v)
  deleteChild := fun l ck => { l with kids := KMap.del ck l.kids }
  clearFromChild := Logical.clearFromChild

end Gossamer.C08
