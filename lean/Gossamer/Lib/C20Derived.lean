/-
C20: the memoised fields of the round after importing a valid, prevote-tolerant vote list:
* `ghost` is the GHOST of the prevotes (`ghost_run`);
* `fin`, `est`, `compl` equal what `update` computes from scratch on the final bookkeeping (`coherent_run`),
  i.e. the incremental early returns / "unchanged" branches never leave a stale value behind.
-/
import Gossamer.Lib.C20Step
namespace Gossamer.C20

variable {t : Tree} {ws : List Nat}

/-- every vote targets a block of the tree -/
def ValidOps (t : Tree) (ops : List Op) : Prop := ∀ o, o ∈ ops → o.sv.blk < t.size

theorem validOps_append {ops : List Op} {o : Op} (h : ValidOps t (ops ++ [o])) :
    ValidOps t ops ∧ o.sv.blk < t.size :=
  ⟨fun x hx => h x (List.mem_append_left _ hx), h o (by simp)⟩

theorem weightFor_other_phase (t : Tree) (ws : List Nat) (ops : List Op) (o : Op) (ph : Bool) (B : Nat)
    (hne : o.ph ≠ ph) : weightFor t ws (ops ++ [o]) ph B = weightFor t ws ops ph B := by
  unfold weightFor
  apply wsum_congr
  intro v _
  have : votesOf (ops ++ [o]) ph v = votesOf ops ph v := votesOf_append_ne _ _ _ _ (fun h => hne h.1)
  simp only [isEquiv, votesGE, this]

theorem superm_mono (t : Tree) (ws : List Nat) (ops : List Op) (o : Op) (ph : Bool) (B : Nat)
    (h : superm t ws ops ph B = true) : superm t ws (ops ++ [o]) ph B = true := by
  unfold superm at *
  have := weightFor_mono t ws ops o ph B
  simp only [decide_eq_true_eq] at *
  omega

theorem voteWeight_mono (ws : List Nat) (ops : List Op) (o : Op) (ph : Bool) :
    voteWeight ws ops ph ≤ voteWeight ws (ops ++ [o]) ph := by
  unfold voteWeight
  apply wsum_mono
  intro v _ hv
  rw [hasVote_iff] at *
  cases hl : votesOf ops ph v with
  | nil => exact absurd hl hv
  | cons a l =>
    have : a ∈ votesOf (ops ++ [o]) ph v := votesOf_sublist_append _ _ _ _ a (hl ▸ List.mem_cons_self)
    exact List.ne_nil_of_mem this

/-- no block has a supermajority while less than the threshold has voted -/
theorem superm_false_of_cur (t : Tree) (ws : List Nat) (ops : List Op) (ph : Bool)
    (h : voteWeight ws ops ph < threshold (total ws)) (B : Nat) : superm t ws ops ph B = false := by
  unfold superm
  have := weightFor_le_voteWeight t ws ops ph B
  simp only [decide_eq_false_iff_not]
  omega

/-- bookkeeping of the state after an effective step = bookkeeping of `bookStep` -/
theorem step_effective (r : Round) (o : Op) (hb : o.sv.blk < t.size) (he : effective ws r o = true) :
    step t ws r o = update t ws (ghostStep t ws o.ph (bookStep t ws r o)) := by
  rw [step_eq r o hb]; simp [he]

theorem step_ineffective (r : Round) (o : Op) (hb : o.sv.blk < t.size) (he : effective ws r o = false) :
    step t ws r o = r := by
  rw [step_eq r o hb]; simp [he]

theorem step_ghost (r : Round) (o : Op) (hb : o.sv.blk < t.size) (he : effective ws r o = true) :
    (step t ws r o).ghost =
      if o.ph = false ∧ (step t ws r o).cur false ≥ threshold (total ws)
      then findGhost t (step t ws r o).cum r.ghost (supermCond ws (step t ws r o).eqv false)
      else r.ghost := by
  rw [step_effective r o hb he]
  obtain ⟨_, u2, u3, u4, u5, _⟩ := update_book t ws (ghostStep t ws o.ph (bookStep t ws r o))
  obtain ⟨_, g2, g3, g4⟩ := ghostStep_book t ws o.ph (bookStep t ws r o)
  obtain ⟨m1, _, _, _, _⟩ := bookStep_memo t ws r o
  rw [u5, u2, u3, u4, g2, g3, g4]
  unfold ghostStep
  split <;> simp_all

/-- the memoised fields of `step` in the effective case -/
theorem step_memo (r : Round) (o : Op) (hb : o.sv.blk < t.size) (he : effective ws r o = true) :
    let r3 := ghostStep t ws o.ph (bookStep t ws r o)
    r3.fin = r.fin ∧ r3.est = r.est ∧ r3.compl = r.compl ∧
    r3.cur = (step t ws r o).cur ∧ r3.ghost = (step t ws r o).ghost := by
  rw [step_effective r o hb he]
  obtain ⟨_, u2, _, _, u5, _⟩ := update_book t ws (ghostStep t ws o.ph (bookStep t ws r o))
  obtain ⟨_, _, m3, m4, m5⟩ := bookStep_memo t ws r o
  refine ⟨?_, ?_, ?_, u2.symm, u5.symm⟩
  · unfold ghostStep; split <;> simp [m3]
  · unfold ghostStep; split <;> simp [m4]
  · unfold ghostStep; split <;> simp [m5]

/-! ### the prevote GHOST -/

theorem ghost_run (h : t.WF) (h0 : 0 < total ws) : ∀ ops, ValidOps t ops → tolerant ws ops false = true →
    IsGhost t ws ops false (run t ws ops).ghost := by
  apply run_induction (fun ops r => ValidOps t ops → tolerant ws ops false = true →
    IsGhost t ws ops false r.ghost)
  · intro _ _ B
    exact superm_false_of_cur t ws [] false (by
      have : voteWeight ws [] false = 0 := by
        have := cur_run t ws [] false
        simpa [run, Round.init] using this.symm
      have := thr_gt_faulty h0
      omega) B
  · intro ops o ih hvalid htol
    obtain ⟨hv, hb⟩ := validOps_append hvalid
    have ih := ih hv (tolerant_prefix ws ops o false htol)
    have hrun : step t ws (run t ws ops) o = run t ws (ops ++ [o]) := (run_append t ws ops o).symm
    -- a memo with a supermajority keeps it
    have hmemo : ∀ m, (run t ws ops).ghost = some m → superm t ws (ops ++ [o]) false m = true := by
      intro m hm
      rw [hm] at ih
      exact superm_mono t ws ops o false m ih.1
    cases he : effective ws (run t ws ops) o
    · -- nothing changed: same state, hence same weights
      rw [step_ineffective _ o hb he] at hrun ⊢
      have hsame : ∀ B, superm t ws (ops ++ [o]) false B = superm t ws ops false B := by
        intro B
        rw [← supermCond_run, ← supermCond_run, ← hrun]
      cases hg : (run t ws ops).ghost with
      | none => rw [hg] at ih; intro B; rw [hsame]; exact ih B
      | some g =>
        rw [hg] at ih
        exact ⟨by rw [hsame]; exact ih.1, fun B hB => ih.2 B (by rw [← hsame]; exact hB)⟩
    · rw [step_ghost _ o hb he, hrun]
      by_cases hc : o.ph = false ∧ (run t ws (ops ++ [o])).cur false ≥ threshold (total ws)
      · simp only [hc, and_self, if_true]
        exact findGhost_isGhost h h0 htol _ hmemo
      · simp only [hc, if_false]
        by_cases hph : o.ph = false
        · -- below the threshold: no block has a supermajority and nothing was memoised
          have hlt : voteWeight ws (ops ++ [o]) false < threshold (total ws) := by
            rw [← cur_run t ws]
            have : ¬ (run t ws (ops ++ [o])).cur false ≥ threshold (total ws) := fun x => hc ⟨hph, x⟩
            omega
          have hno := superm_false_of_cur t ws (ops ++ [o]) false hlt
          cases hg : (run t ws ops).ghost with
          | none => exact hno
          | some g =>
            have := hmemo g hg
            rw [hno g] at this; exact Bool.noConfusion this
        · -- a precommit: the prevote weights are untouched
          have hne : o.ph ≠ false := hph
          have hsame : ∀ B, superm t ws (ops ++ [o]) false B = superm t ws ops false B := by
            intro B
            unfold superm
            rw [weightFor_other_phase t ws ops o false B hne]
          cases hg : (run t ws ops).ghost with
          | none => rw [hg] at ih; intro B; rw [hsame]; exact ih B
          | some g =>
            rw [hg] at ih
            exact ⟨by rw [hsame]; exact ih.1, fun B hB => ih.2 B (by rw [← hsame]; exact hB)⟩

/-! ### coherence of finalized / estimate / completable -/

def Coherent (t : Tree) (ws : List Nat) (r : Round) : Prop :=
  r.fin = (recompute t ws r).fin ∧ r.est = (recompute t ws r).est ∧ r.compl = (recompute t ws r).compl

theorem coherent_run (h : t.WF) (h0 : 0 < total ws) : ∀ ops, ValidOps t ops → tolerant ws ops false = true →
    Coherent t ws (run t ws ops) := by
  apply run_induction (fun ops r => ValidOps t ops → tolerant ws ops false = true → Coherent t ws r)
  · intro _ _
    have hthr := thr_gt_faulty h0
    obtain ⟨f1, f2, f3⟩ := recompute_early t ws Round.init (Or.inr rfl)
    exact ⟨f1.symm, f2.symm, f3.symm⟩
  · intro ops o ih hvalid htol
    obtain ⟨hv, hb⟩ := validOps_append hvalid
    have htol0 := tolerant_prefix ws ops o false htol
    have ih := ih hv htol0
    have hrun : step t ws (run t ws ops) o = run t ws (ops ++ [o]) := (run_append t ws ops o).symm
    cases he : effective ws (run t ws ops) o
    · rw [step_ineffective _ o hb he]; exact ih
    · have hg0 := ghost_run h h0 ops hv htol0
      have hg1 := ghost_run h h0 (ops ++ [o]) hvalid htol
      obtain ⟨m1, m2, m3, m4, m5⟩ := step_memo (run t ws ops) o hb he
      rw [hrun] at m4 m5
      have hcur : ∀ ph, (run t ws ops).cur ph ≤ (run t ws (ops ++ [o])).cur ph := by
        intro ph; rw [cur_run, cur_run]; exact voteWeight_mono ws ops o ph
      -- the old ghost is none whenever the new one is
      have hgnone : (run t ws (ops ++ [o])).ghost = none → (run t ws ops).ghost = none := by
        intro hn
        cases hg : (run t ws ops).ghost with
        | none => rfl
        | some g =>
          rw [hg] at hg0; rw [hn] at hg1
          have := superm_mono t ws ops o false g hg0.1
          rw [hg1 g] at this; exact Bool.noConfusion this
      have key := update_eq_recompute t ws (ghostStep t ws o.ph (bookStep t ws (run t ws ops) o))
        (by
          intro hearly
          rw [m1, m2, m3, ih.1, ih.2.1, ih.2.2]
          apply recompute_early
          rcases hearly with hlt | hgn
          · left; rw [m4] at hlt; have := hcur false; omega
          · right; rw [m5] at hgn; exact hgnone hgn)
        (by
          intro hlt
          rw [m1, m3, ih.1, ih.2.2]
          apply recompute_below
          rw [m4] at hlt; have := hcur true; omega)
      rw [step_effective _ o hb he]
      unfold Coherent
      unfold recompute at key ⊢
      rw [reset_update]
      exact key

end Gossamer.C20
