/-
C32 — the fragment pipeline of `Process` keeps fragments good:
absorb (join with a disjoint fragment / complete announced blocks), sort, merge, second pass,
removeIrrelevantFragments.
-/
import Gossamer.Lib.C32Chain
namespace Gossamer.C32

/-- invariant of the unready set -/
structure Inv (st : St) : Prop where
  dj : ∀ f ∈ st.disjoint, GoodFrag f
  inc : ∀ b ∈ st.incomplete, b.stated = b.id

/-! ### takeJoin / complete / absorb -/

theorem takeJoin_spec {last : BD} : ∀ {dj : List (List BD)} {f : List BD} {rest : List (List BD)},
    takeJoin last dj = some (f, rest) →
    f ∈ dj ∧ (∀ g ∈ rest, g ∈ dj) ∧ f.head?.any (isParent last) = true
  | [], f, rest, h => by simp [takeJoin] at h
  | g :: gs, f, rest, h => by
    unfold takeJoin at h
    split at h
    · rename_i hg
      simp only [Option.some.injEq, Prod.mk.injEq] at h
      obtain ⟨rfl, rfl⟩ := h
      exact ⟨List.mem_cons_self, fun x hx => List.mem_cons_of_mem _ hx, hg⟩
    · cases hj : takeJoin last gs with
      | none => simp [hj] at h
      | some p =>
        obtain ⟨f', rest'⟩ := p
        simp only [hj, Option.map_some, Option.some.injEq, Prod.mk.injEq] at h
        obtain ⟨rfl, rfl⟩ := h
        obtain ⟨h1, h2, h3⟩ := takeJoin_spec hj
        refine ⟨List.mem_cons_of_mem _ h1, ?_, h3⟩
        intro x hx
        rcases List.mem_cons.mp hx with rfl | hx'
        · exact List.mem_cons_self
        · exact List.mem_cons_of_mem _ (h2 x hx')

theorem complete_spec : ∀ (resp inc : List BD), (∀ b ∈ inc, b.stated = b.id) →
    (∀ r ∈ resp, r.hasBody = true) →
    (∀ b ∈ (complete inc resp).1, GoodBlock b) ∧ (∀ b ∈ (complete inc resp).2, b ∈ inc)
  | [], inc, _, _ => by simp [complete]
  | r :: rest, inc, hinc, hb => by
    unfold complete
    have hrest : ∀ r' ∈ rest, r'.hasBody = true := fun r' h => hb r' (List.mem_cons_of_mem _ h)
    split
    · exact complete_spec rest inc hinc hrest
    · rename_i i hi
      have hi' := List.mem_of_find?_eq_some hi
      have hfil : ∀ b ∈ inc.filter (fun x => x.stated != r.stated), b.stated = b.id :=
        fun b h => hinc b (List.mem_filter.mp h).1
      obtain ⟨h1, h2⟩ := complete_spec rest _ hfil hrest
      constructor
      · intro b hbm
        rcases List.mem_cons.mp hbm with rfl | hbm'
        · exact ⟨hinc i hi', hb r List.mem_cons_self⟩
        · exact h1 b hbm'
      · intro b hbm
        exact (List.mem_filter.mp (h2 b hbm)).1

theorem linked_of_join {bs f : List BD} {last : BD} (hl : bs.getLast? = some last)
    (hj : f.head?.any (isParent last) = true) : linked bs f = true := by
  unfold linked
  rw [hl]
  cases f with
  | nil => simp at hj
  | cons h t => simpa using hj

/-- the invariant of the first loop of `Process` -/
structure AbsInv (st0 : St) (acc : St × List (List BD)) : Prop where
  inv : Inv acc.1
  ready : ∀ f ∈ acc.2, GoodFrag f
  known : acc.1.known = st0.known
  fin : acc.1.fin = st0.fin

theorem absorb_inv {st0 : St} {fin0 : Nat} {acc : St × List (List BD)} {v : Kind × List BD}
    (h : AbsInv st0 acc) (hv : ValidResp v) : AbsInv st0 (absorb fin0 acc v) := by
  obtain ⟨st, ready⟩ := acc
  obtain ⟨k, bs⟩ := v
  unfold absorb
  simp only []
  by_cases hk : k.hdr = true
  · have hg : GoodFrag bs := hv.hdr hk
    simp only [hk, if_true]
    cases hl : bs.getLast? with
    | none => exact absurd (List.getLast?_eq_none_iff.mp hl) hv.ne
    | some last =>
      simp only []
      cases hj : takeJoin last st.disjoint with
      | none =>
        simp only []
        exact ⟨h.inv, fun f hf => by
          rcases List.mem_append.mp hf with h' | h'
          · exact h.ready f h'
          · simp at h'; subst h'; exact hg, h.known, h.fin⟩
      | some p =>
        obtain ⟨f, rest⟩ := p
        obtain ⟨hf, hrest, hjoin⟩ := takeJoin_spec hj
        have hgf : GoodFrag f := h.inv.dj f hf
        have happ : GoodFrag (bs ++ f) := goodFrag_append hg hgf (linked_of_join hl hjoin)
        simp only []
        refine ⟨⟨fun g hg' => h.inv.dj g (hrest g hg'), h.inv.inc⟩, ?_, h.known, h.fin⟩
        intro g hg'
        split at hg'
        · exact h.ready g hg'
        · rename_i hne
          rcases List.mem_append.mp hg' with h' | h'
          · exact h.ready g h'
          · simp only [List.mem_singleton] at h'
            subst h'
            obtain ⟨pre, hpre⟩ := validUnder_suffix fin0 (bs ++ f)
            rw [hpre] at happ
            exact goodFrag_suffix happ (by simpa using hne)
  · simp only [hk, Bool.false_eq_true, if_false]
    obtain ⟨h1, h2⟩ := complete_spec bs st.incomplete h.inv.inc hv.body
    refine ⟨⟨h.inv.dj, fun b hb => h.inv.inc b (h2 b hb)⟩, ?_, h.known, h.fin⟩
    intro g hg'
    rcases List.mem_append.mp hg' with h' | h'
    · exact h.ready g h'
    · obtain ⟨b, hb, rfl⟩ := List.mem_map.mp h'
      exact goodFrag_singleton (h1 b hb)

theorem foldl_absorb_inv {st0 : St} {fin0 : Nat} : ∀ (vs : List (Kind × List BD))
    (acc : St × List (List BD)), AbsInv st0 acc → (∀ v ∈ vs, ValidResp v) →
    AbsInv st0 (vs.foldl (absorb fin0) acc)
  | [], _, h, _ => h
  | v :: vs, acc, h, hv =>
    foldl_absorb_inv vs _ (absorb_inv h (hv v List.mem_cons_self))
      (fun w hw => hv w (List.mem_cons_of_mem _ hw))

/-! ### sort / merge -/

theorem mem_insertFrag {f g : List BD} : ∀ {l : List (List BD)}, g ∈ insertFrag f l → g = f ∨ g ∈ l
  | [], h => by simp [insertFrag] at h; exact Or.inl h
  | x :: xs, h => by
    unfold insertFrag at h
    split at h
    · rcases List.mem_cons.mp h with rfl | h'
      · exact Or.inl rfl
      · exact Or.inr h'
    · rcases List.mem_cons.mp h with rfl | h'
      · exact Or.inr List.mem_cons_self
      · rcases mem_insertFrag h' with h'' | h''
        · exact Or.inl h''
        · exact Or.inr (List.mem_cons_of_mem _ h'')

theorem mem_sortFrags {g : List BD} : ∀ {l : List (List BD)}, g ∈ sortFrags l → g ∈ l
  | [], h => by simp [sortFrags] at h
  | f :: fs, h => by
    unfold sortFrags at h
    rcases mem_insertFrag h with rfl | h'
    · exact List.mem_cons_self
    · exact List.mem_cons_of_mem _ (mem_sortFrags h')

theorem mergeGo_good : ∀ (fs : List (List BD)) (cur : List BD), GoodFrag cur →
    (∀ f ∈ fs, GoodFrag f) → ∀ g ∈ mergeGo cur fs, GoodFrag g
  | [], cur, hc, _, g, hg => by simp [mergeGo] at hg; subst hg; exact hc
  | f :: fs, cur, hc, hfs, g, hg => by
    have hf := hfs f List.mem_cons_self
    have hrest : ∀ x ∈ fs, GoodFrag x := fun x hx => hfs x (List.mem_cons_of_mem _ hx)
    unfold mergeGo at hg
    split at hg
    · rename_i hl
      exact mergeGo_good fs (cur ++ f) (goodFrag_append hc hf hl) hrest g hg
    · rcases List.mem_cons.mp hg with rfl | hg'
      · exact hc
      · exact mergeGo_good fs f hf hrest g hg'

theorem mergeFrags_good {l : List (List BD)} (h : ∀ f ∈ l, GoodFrag f) :
    ∀ g ∈ mergeFrags l, GoodFrag g := by
  cases l with
  | nil => intro g hg; simp [mergeFrags] at hg
  | cons f fs =>
    exact mergeGo_good fs f (h f List.mem_cons_self) (fun x hx => h x (List.mem_cons_of_mem _ hx))

/-! ### removeIrrelevantFragments -/

theorem removeIrrelevant_inv {st : St} (h : Inv st) : Inv (removeIrrelevant st) := by
  constructor
  · intro f hf
    simp only [removeIrrelevant] at hf
    obtain ⟨hm, hne⟩ := List.mem_filter.mp hf
    obtain ⟨g, hg, rfl⟩ := List.mem_map.mp hm
    obtain ⟨pre, hpre⟩ := keepAbove_suffix st.fin g
    have hgood := h.dj g hg
    rw [hpre] at hgood
    exact goodFrag_suffix hgood (by simpa using hne)
  · intro b hb
    simp only [removeIrrelevant] at hb
    exact h.inc b (List.mem_filter.mp hb).1

theorem newIncomplete_inv {st : St} (h : Inv st) (b : BD) : Inv (newIncomplete st b) := by
  constructor
  · exact h.dj
  · intro x hx
    simp only [newIncomplete] at hx
    rcases List.mem_cons.mp hx with rfl | hx'
    · rfl
    · exact h.inc x (List.mem_filter.mp hx').1

end Gossamer.C32
