/-
C17 — closed forms of the two loops of `SetFinalisedHash` (`finaliseChain` = the loop of
`handleFinalisedBlock`, `dropPruned` = the cleanup over `Prune`'s result).  Core Lean only.
-/
import Gossamer.Lib.C17Tree
namespace Gossamer.C17

/-- what a fully successful `finaliseChain` over `l` does to a state -/
structure ChainDone (head : Nat) (l : List Blk) (st st' : St) : Prop where
  root : st'.root = st.root
  tree : st'.tree = st.tree
  dbNum : st'.dbNum = st.dbNum
  finKey : st'.finKey = st.finKey
  highest : st'.highest = st.highest
  unfinFind : ∀ x, findB st'.unfin x = if x ∈ l.map (·.hash) then none else findB st.unfin x
  unfinMem : ∀ y, y ∈ st'.unfin ↔ y ∈ st.unfin ∧ y.hash ∉ l.map (·.hash)
  triesMem : ∀ r, r ∈ st'.tries ↔ r ∈ st.tries ∧ ∀ b ∈ l, b.hash ≠ head → b.sroot ≠ r
  dbNew : ∀ b ∈ l, findB st'.dbHdr b.hash = some b
  dbOld : ∀ x, x ∉ l.map (·.hash) → findB st'.dbHdr x = findB st.dbHdr x

theorem mem_triesDelete {t : List Nat} {x r : Nat} : r ∈ triesDelete t x ↔ r ∈ t ∧ r ≠ x := by
  unfold triesDelete
  simp [List.mem_filter]

theorem findB_cons_filter (b : Blk) (l : List Blk) (x : Nat) :
    findB (b :: l.filter (fun y => y.hash ≠ b.hash)) x = if x = b.hash then some b else findB l x := by
  rw [findB_cons]
  by_cases hx : x = b.hash
  · simp [hx]
  · have : ¬ b.hash = x := fun h => hx h.symm
    simp only [this, hx, if_false]
    have := findB_deleteB l b.hash x
    unfold deleteB at this
    rw [this]; simp [hx]

theorem finaliseChain_ok (genesis head : Nat) : ∀ (l : List Blk) (st : St) (batch : List (Nat × Nat)),
    (∀ b ∈ l, b.hash ≠ genesis ∧ findB st.unfin b.hash = some b) → (l.map (·.hash)).Nodup →
    ∃ st', finaliseChain genesis head st batch l = (st', batch ++ l.map (fun b => (b.number, b.hash)), true) ∧
      ChainDone head l st st'
  | [], st, batch, _, _ => by
    refine ⟨st, by simp [finaliseChain], ⟨rfl, rfl, rfl, rfl, rfl, ?_, ?_, ?_, ?_, ?_⟩⟩ <;> simp
  | b :: rest, st, batch, hall, hnd => by
    have hb := hall b (List.mem_cons_self ..)
    rw [List.map_cons, List.nodup_cons] at hnd
    let st1 : St := { st with
      dbHdr := b :: st.dbHdr.filter (fun x => x.hash ≠ b.hash)
      unfin := deleteB st.unfin b.hash
      tries := if head ≠ b.hash then triesDelete st.tries b.sroot else st.tries }
    have hrest : ∀ c ∈ rest, c.hash ≠ genesis ∧ findB st1.unfin c.hash = some c := by
      intro c hc
      have := hall c (List.mem_cons_of_mem _ hc)
      refine ⟨this.1, ?_⟩
      show findB (deleteB st.unfin b.hash) c.hash = some c
      rw [findB_deleteB]
      have hne : c.hash ≠ b.hash := fun h => hnd.1 (List.mem_map.mpr ⟨c, hc, h⟩)
      simp [hne, this.2]
    obtain ⟨st', hrun, hd⟩ := finaliseChain_ok genesis head rest st1 (batch ++ [(b.number, b.hash)]) hrest hnd.2
    refine ⟨st', ?_, ?_⟩
    · unfold finaliseChain
      simp only [hb.1, if_false, hb.2]
      rw [hrun]
      simp
    · refine ⟨hd.root, hd.tree, hd.dbNum, hd.finKey, hd.highest, ?_, ?_, ?_, ?_, ?_⟩
      · intro x
        rw [hd.unfinFind x]
        show (if x ∈ rest.map (·.hash) then none else findB (deleteB st.unfin b.hash) x) = _
        rw [findB_deleteB]
        by_cases h1 : x = b.hash
        · simp [h1]
        · by_cases h2 : x ∈ rest.map (·.hash)
          · simp [h2]
          · simp [h1, h2]
      · intro y
        rw [hd.unfinMem y]
        show (y ∈ deleteB st.unfin b.hash ∧ _) ↔ _
        rw [mem_deleteB]
        simp only [List.map_cons, List.mem_cons, not_or]
        constructor
        · rintro ⟨⟨h1, h2⟩, h3⟩; exact ⟨h1, h2, h3⟩
        · rintro ⟨h1, h2, h3⟩; exact ⟨⟨h1, h2⟩, h3⟩
      · intro r
        rw [hd.triesMem r]
        show (r ∈ (if head ≠ b.hash then triesDelete st.tries b.sroot else st.tries) ∧ _) ↔ _
        constructor
        · rintro ⟨h1, h2⟩
          by_cases hh : head ≠ b.hash
          · rw [if_pos hh, mem_triesDelete] at h1
            refine ⟨h1.1, ?_⟩
            intro c hc hne
            rcases List.mem_cons.mp hc with rfl | hc
            · exact fun h => h1.2 h.symm
            · exact h2 c hc hne
          · rw [if_neg hh] at h1
            refine ⟨h1, ?_⟩
            intro c hc hne
            rcases List.mem_cons.mp hc with rfl | hc
            · exact absurd (by simpa using hh : head = c.hash).symm hne
            · exact h2 c hc hne
        · rintro ⟨h1, h2⟩
          refine ⟨?_, fun c hc => h2 c (List.mem_cons_of_mem _ hc)⟩
          by_cases hh : head ≠ b.hash
          · rw [if_pos hh, mem_triesDelete]
            exact ⟨h1, fun h => h2 b (List.mem_cons_self ..) (Ne.symm hh) h.symm⟩
          · rw [if_neg hh]; exact h1
      · intro c hc
        rcases List.mem_cons.mp hc with rfl | hc
        · rw [hd.dbOld _ hnd.1]
          show findB (c :: st.dbHdr.filter (fun x => x.hash ≠ c.hash)) c.hash = some c
          rw [findB_cons_filter]; simp
        · exact hd.dbNew c hc
      · intro x hx
        simp only [List.map_cons, List.mem_cons, not_or] at hx
        rw [hd.dbOld x hx.2]
        show findB (b :: st.dbHdr.filter (fun y => y.hash ≠ b.hash)) x = _
        rw [findB_cons_filter]; simp [hx.1]

/-- what `dropPruned` over `l` does to a state -/
structure PrunedDone (l : List Blk) (st st' : St) : Prop where
  root : st'.root = st.root
  tree : st'.tree = st.tree
  dbHdr : st'.dbHdr = st.dbHdr
  dbNum : st'.dbNum = st.dbNum
  finKey : st'.finKey = st.finKey
  highest : st'.highest = st.highest
  unfinFind : ∀ x, findB st'.unfin x = if x ∈ l.map (·.hash) then none else findB st.unfin x
  unfinMem : ∀ y, y ∈ st'.unfin ↔ y ∈ st.unfin ∧ y.hash ∉ l.map (·.hash)
  triesSub : ∀ r, r ∈ st'.tries → r ∈ st.tries
  triesGone : ∀ b ∈ l, findB st.unfin b.hash = some b → b.sroot ∉ st'.tries
  /-- a trie survives unless a pruned block found in the map carries its root -/
  triesKeep : ∀ r, r ∈ st.tries → (∀ b ∈ l, ∀ hd, findB st.unfin b.hash = some hd → hd.sroot ≠ r) → r ∈ st'.tries

theorem dropPruned_spec : ∀ (l : List Blk) (st : St), PrunedDone l st (dropPruned st l)
  | [], st => by
    refine ⟨rfl, rfl, rfl, rfl, rfl, rfl, ?_, ?_, ?_, ?_, ?_⟩ <;> simp [dropPruned]
  | p :: rest, st => by
    have key : ∀ (st1 : St), st1.unfin = deleteB st.unfin p.hash → st1.root = st.root → st1.tree = st.tree →
        st1.dbHdr = st.dbHdr → st1.dbNum = st.dbNum → st1.finKey = st.finKey → st1.highest = st.highest →
        (∀ r, r ∈ st1.tries → r ∈ st.tries) →
        (∀ hd, findB st.unfin p.hash = some hd → hd.sroot ∉ st1.tries) →
        (∀ r, r ∈ st.tries → (∀ hd, findB st.unfin p.hash = some hd → hd.sroot ≠ r) → r ∈ st1.tries) →
        PrunedDone (p :: rest) st (dropPruned st1 rest) := by
      intro st1 hu h1 h2 h3 h4 h5 h6 hsub hgone hkeep
      have ih := dropPruned_spec rest st1
      refine ⟨ih.root.trans h1, ih.tree.trans h2, ih.dbHdr.trans h3, ih.dbNum.trans h4, ih.finKey.trans h5,
        ih.highest.trans h6, ?_, ?_, fun r hr => hsub r (ih.triesSub r hr), ?_, ?_⟩
      · intro x
        rw [ih.unfinFind x, hu, findB_deleteB]
        by_cases h1 : x = p.hash
        · simp [h1]
        · by_cases h2 : x ∈ rest.map (·.hash)
          · simp [h2]
          · simp [h1, h2]
      · intro y
        rw [ih.unfinMem y, hu, mem_deleteB]
        simp only [List.map_cons, List.mem_cons, not_or]
        constructor
        · rintro ⟨⟨a, b⟩, c⟩; exact ⟨a, b, c⟩
        · rintro ⟨a, b, c⟩; exact ⟨⟨a, b⟩, c⟩
      · intro b hb hfb
        by_cases hbp : b.hash = p.hash
        · rw [hbp] at hfb
          exact fun hm => hgone b hfb (ih.triesSub _ hm)
        · rcases List.mem_cons.mp hb with rfl | hb
          · exact absurd rfl hbp
          · refine ih.triesGone b hb ?_
            rw [hu, findB_deleteB]; simp [hbp, hfb]
      · intro r hr hall
        refine ih.triesKeep r (hkeep r hr (fun hd hf => hall p (List.mem_cons_self ..) hd hf)) ?_
        intro b hb hd hf
        rw [hu, findB_deleteB] at hf
        by_cases hbp : b.hash = p.hash
        · simp [hbp] at hf
        · simp only [hbp, if_false] at hf
          exact hall b (List.mem_cons_of_mem _ hb) hd hf
    unfold dropPruned
    cases hf : findB st.unfin p.hash with
    | none =>
      exact key _ rfl rfl rfl rfl rfl rfl rfl (fun r hr => hr) (fun hd h => by rw [hf] at h; cases h)
        (fun r hr _ => hr)
    | some hd =>
      refine key _ rfl rfl rfl rfl rfl rfl rfl ?_ ?_ ?_
      · intro r hr
        exact (mem_triesDelete.mp hr).1
      · intro hd' h
        rw [hf] at h; cases h
        exact fun hm => (mem_triesDelete.mp hm).2 rfl
      · intro r hr hne
        exact mem_triesDelete.mpr ⟨hr, Ne.symm (hne hd hf)⟩

end Gossamer.C17
