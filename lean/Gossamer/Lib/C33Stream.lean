/-
C33: the length-prefixed framing of dot/network streams — `ReadLEB128ToUint64` and `readStream`
(dot/network/utils.go), AFTER the two C33 `fix:` commits (maximum checked before the buffer is
grown; the body read stops at the end of the message).  The stream is a byte list handed out by
`Read` in pieces of at most `chunk` bytes (any libp2p stream may return short reads).

`readStreamOld` keeps the behaviour before the fixes for the counterexample theorems.
Core Lean only.
-/
import Gossamer.Lib.C33WireLemmas
namespace Gossamer.C33
open Gossamer Gossamer.Proto Gossamer.Scale

inductive LebRes
  | ok (n read : Nat) (rest : Bytes)
  | eof (read : Nat)                 -- `r.Read` returned io.EOF
  | invalid (read : Nat)             -- ErrInvalidLEB128EncodedData: a tenth continuation byte
deriving Repr, DecidableEq

/-- the loop of `ReadLEB128ToUint64`: `k` = the remaining `maxSize`, `acc` the value so far (exact;
    Go ORs `uint64(0x7f&b) << shift` into a uint64, the groups are disjoint, so the result is the
    sum modulo 2^64), `i` = shift / 7 -/
def lebLoop : Nat → Nat → Nat → Nat → Bytes → LebRes
  | 0, _, _, read, _ => .invalid read
  | _ + 1, _, _, read, [] => .eof read
  | k + 1, acc, i, read, b :: r =>
    if b.toNat < 128 then .ok ((acc + b.toNat % 128 * 128 ^ i) % 18446744073709551616) (read + 1) r
    else if k = 0 then .invalid (read + 1)
    else lebLoop k (acc + b.toNat % 128 * 128 ^ i) (i + 1) (read + 1) r

/-- `ReadLEB128ToUint64` -/
def readLEB (s : Bytes) : LebRes := lebLoop 10 0 0 0 s

inductive StreamErr
  | eof | leb | max | short
deriving Repr, DecidableEq

/-- result of one `readStream`: the returned count, the error, the message (`buf[:tot]` when there
    is no error), the length of the pooled buffer afterwards, the unread rest of the stream -/
structure StreamRes where
  tot : Nat
  err : Option StreamErr
  msg : Bytes
  bufLen : Nat
  rest : Bytes
  panic : Bool := false
deriving Repr, DecidableEq

/-- the body loop `for tot < int(length) { n, err := stream.Read(buf[tot:limit]) … }`: `need` bytes
    are still missing, `room` is what `buf[tot:limit]` can take; returns the bytes read, the rest
    of the stream, whether `Read` hit EOF -/
def readBody : Nat → Nat → Nat → Nat → Bytes → Bytes → Bytes × Bytes × Bool
  | 0, _, _, _, got, s => (got, s, false)
  | f + 1, chunk, need, room, got, s =>
    if need = 0 then (got, s, false)
    else if s = [] then (got, s, true)
    else
      let n := min (max chunk 1) (min room s.length)
      readBody f chunk (need - n) (room - n) (got ++ s.take n) (s.drop n)

/-- `readStream(stream, &buf, maxSize)` with `len(buf) = bufLen` -/
def readStream (maxSize bufLen chunk : Nat) (s : Bytes) : StreamRes :=
  match readLEB s with
  | .eof read => ⟨read, some .eof, [], bufLen, [], false⟩
  | .invalid read => ⟨read, some .leb, [], bufLen, s.drop read, false⟩
  | .ok length _ rest =>
    if length = 0 then ⟨0, none, [], bufLen, rest, false⟩
    else if length > maxSize then ⟨0, some .max, [], bufLen, rest, false⟩
    else if length > bufLen ∧ 9223372036854775808 ≤ length then
      ⟨0, none, [], bufLen, rest, true⟩                 -- `make([]byte, int(length)-len(buf))`, negative
    else
      let bufLen' := max bufLen length
      -- `stream.Read(buf[tot:length])`
      let (got, rest', eof) := readBody length chunk length length [] rest
      if eof then ⟨got.length, some .eof, [], bufLen', rest', false⟩
      else if got.length ≠ length then ⟨got.length, some .short, [], bufLen', rest', false⟩
      else ⟨got.length, none, got, bufLen', rest', false⟩

/-- before the fixes: the buffer grows before the maximum is checked, and the body is read into
    the whole buffer `buf[tot:]` -/
def readStreamOld (maxSize bufLen chunk : Nat) (s : Bytes) : StreamRes :=
  match readLEB s with
  | .eof read => ⟨read, some .eof, [], bufLen, [], false⟩
  | .invalid read => ⟨read, some .leb, [], bufLen, s.drop read, false⟩
  | .ok length _ rest =>
    if length = 0 then ⟨0, none, [], bufLen, rest, false⟩
    else if length > bufLen ∧ 9223372036854775808 ≤ length then ⟨0, none, [], bufLen, rest, true⟩
    else
      let bufLen' := max bufLen length
      if length > maxSize then ⟨0, some .max, [], bufLen', rest, false⟩
      else
        let (got, rest', eof) := readBody length chunk length bufLen' [] rest
        if eof then ⟨got.length, some .eof, [], bufLen', rest', false⟩
        else if got.length ≠ length then ⟨got.length, some .short, [], bufLen', rest', false⟩
        else ⟨got.length, none, got, bufLen', rest', false⟩

/-! ## LEB128 round trip (`Uint64ToLEB128` is `Proto.varint`) -/

theorem lebLoop_varint (k : Nat) : ∀ (n acc i read : Nat) (r : Bytes), n < 128 ^ (k + 1) →
    ∃ rd, lebLoop (k + 1) acc i read (varint n ++ r)
      = .ok ((acc + n * 128 ^ i) % 18446744073709551616) rd r := by
  induction k with
  | zero =>
    intro n acc i read r h
    have hn : n < 128 := by simpa using h
    rw [varint_lt hn]
    have e : (UInt8.ofNat n).toNat = n := toNat_ofNat_lt (by omega)
    have hm : n % 128 = n := Nat.mod_eq_of_lt hn
    exact ⟨read + 1, by simp [lebLoop, e, hn, hm]⟩
  | succ k ih =>
    intro n acc i read r h
    by_cases hn : n < 128
    · rw [varint_lt hn]
      have e : (UInt8.ofNat n).toNat = n := toNat_ofNat_lt (by omega)
      have hm : n % 128 = n := Nat.mod_eq_of_lt hn
      exact ⟨read + 1, by simp [lebLoop, e, hn, hm]⟩
    · rw [varint_ge hn]
      have e : (UInt8.ofNat (128 + n % 128)).toNat = 128 + n % 128 := toNat_ofNat_lt (by omega)
      have hge : ¬ (128 + n % 128 < 128) := by omega
      have hmod : (128 + n % 128) % 128 = n % 128 := by omega
      have hq : n / 128 < 128 ^ (k + 1) := by
        rw [Nat.pow_succ] at h
        exact Nat.div_lt_of_lt_mul (by rw [Nat.mul_comm]; exact h)
      obtain ⟨rd, hrd⟩ := ih (n / 128) (acc + n % 128 * 128 ^ i) (i + 1) (read + 1) r hq
      refine ⟨rd, ?_⟩
      have hk : ¬ (k + 1 = 0) := by omega
      simp only [List.cons_append, lebLoop, e, hge, hmod, hk, if_false, hrd]
      congr 2
      -- acc + n%128 * 128^i + n/128 * 128^(i+1) = acc + n * 128^i
      have h1 : n / 128 * 128 ^ (i + 1) = 128 * (n / 128) * 128 ^ i := by
        rw [Nat.pow_succ, Nat.mul_comm (128 ^ i) 128, ← Nat.mul_assoc, Nat.mul_comm (n / 128) 128]
      have h2 : n * 128 ^ i = 128 * (n / 128) * 128 ^ i + n % 128 * 128 ^ i := by
        rw [← Nat.add_mul, Nat.div_add_mod]
      omega

theorem readLEB_varint (n : Nat) (r : Bytes) (h : n < 18446744073709551616) :
    ∃ rd, readLEB (varint n ++ r) = .ok n rd r := by
  obtain ⟨rd, hrd⟩ := lebLoop_varint 9 n 0 0 0 r (Nat.lt_of_lt_of_le h pow128_10)
  refine ⟨rd, ?_⟩
  unfold readLEB
  rw [hrd]
  simp [Nat.mod_eq_of_lt h]

/-! ## the body loop returns exactly the message, whatever the chunking -/

theorem readBody_frame (f : Nat) : ∀ (chunk : Nat) (m got rest : Bytes), m.length ≤ f →
    readBody f chunk m.length m.length got (m ++ rest) = (got ++ m, rest, false) := by
  induction f with
  | zero =>
    intro chunk m got rest h
    have : m = [] := List.length_eq_zero_iff.mp (by omega)
    subst this; simp [readBody]
  | succ f ih =>
    intro chunk m got rest h
    by_cases hm : m = []
    · subst hm; simp [readBody]
    · have hpos : 0 < m.length := List.length_pos_iff.2 hm
      have hne : ¬ (m.length = 0) := by omega
      have hs : ¬ (m ++ rest = []) := by simp [hm]
      simp only [readBody, hne, hs, if_false]
      -- n = min (max chunk 1) m.length
      have hn : min (max chunk 1) (min m.length (m ++ rest).length)
          = min (max chunk 1) m.length := by
        rw [List.length_append]; omega
      rw [hn]
      have hle : min (max chunk 1) m.length ≤ m.length := Nat.min_le_right _ _
      have hge : 1 ≤ min (max chunk 1) m.length := by omega
      have ht : (m ++ rest).take (min (max chunk 1) m.length) = m.take (min (max chunk 1) m.length) :=
        List.take_append_of_le_length hle
      have hd : (m ++ rest).drop (min (max chunk 1) m.length)
          = m.drop (min (max chunk 1) m.length) ++ rest := List.drop_append_of_le_length hle
      have hl : (m.drop (min (max chunk 1) m.length)).length = m.length - min (max chunk 1) m.length :=
        List.length_drop
      rw [ht, hd, ← hl]
      rw [ih chunk (m.drop (min (max chunk 1) m.length)) _ rest (by rw [hl]; omega)]
      rw [List.append_assoc, List.take_append_drop]

/-! ## the property statements for the framing layer -/

/-- **no panic**: with a maximum below 2^63 (the protocol maxima are 1 MiB and 16 MiB) no length
    prefix makes `readStream` reach `make` with a negative size -/
theorem C33_stream_no_panic (maxSize bufLen chunk : Nat) (s : Bytes) (hM : maxSize < 9223372036854775808) :
    (readStream maxSize bufLen chunk s).panic = false := by
  unfold readStream
  cases readLEB s with
  | eof rd => rfl
  | invalid rd => rfl
  | ok length rd rest =>
    simp only
    split
    · rfl
    · split
      · rfl
      · rename_i h0 hmax
        have hn : ¬ (length > bufLen ∧ 9223372036854775808 ≤ length) := by omega
        simp only [hn, if_false]
        split <;> (try split) <;> rfl

/-- **framing**: a message of at most `maxSize` bytes sent as `LEB128(len) ++ msg` is returned
    exactly, and the bytes after it stay in the stream — whatever the pieces `Read` hands out -/
theorem C33_stream_frame (maxSize bufLen chunk : Nat) (m rest : Bytes) (hm : m ≠ [])
    (hM : m.length ≤ maxSize) (h63 : maxSize < 9223372036854775808) :
    readStream maxSize bufLen chunk (varint m.length ++ (m ++ rest))
      = ⟨m.length, none, m, max bufLen m.length, rest, false⟩ := by
  obtain ⟨rd, hrd⟩ := readLEB_varint m.length (m ++ rest) (by omega)
  have hpos : 0 < m.length := List.length_pos_iff.2 hm
  unfold readStream
  rw [hrd]
  have h0 : ¬ (m.length = 0) := by omega
  have h1 : ¬ (m.length > maxSize) := by omega
  have h2 : ¬ (m.length > bufLen ∧ 9223372036854775808 ≤ m.length) := by omega
  simp only [h0, h1, h2, if_false, readBody_frame m.length chunk m [] rest (Nat.le_refl _),
    List.nil_append, Bool.false_eq_true, ne_eq, not_true_eq_false]

/-- **memory**: the pooled buffer never grows beyond the protocol maximum -/
theorem C33_stream_buffer (maxSize bufLen chunk : Nat) (s : Bytes) :
    (readStream maxSize bufLen chunk s).bufLen ≤ max bufLen maxSize := by
  unfold readStream
  cases readLEB s with
  | eof rd => simp only; omega
  | invalid rd => simp only; omega
  | ok length rd rest =>
    simp only
    split
    · simp only; omega
    · split
      · simp only; omega
      · split
        · simp only; omega
        · split <;> (try split) <;> simp only <;> omega

/-- the repaired defects: a ten-byte prefix announcing 2^63 bytes panicked … -/
theorem C33_stream_old_panics :
    (readStreamOld 100 16 4 [0x80, 0x80, 0x80, 0x80, 0x80, 0x80, 0x80, 0x80, 0x80, 0x01]).panic = true ∧
    (readStream 100 16 4 [0x80, 0x80, 0x80, 0x80, 0x80, 0x80, 0x80, 0x80, 0x80, 0x01]).err = some .max := by
  refine ⟨by decide, by decide⟩

/-- … a refused length still grew the pooled buffer (here to 1 MiB for a 100-byte maximum) … -/
theorem C33_stream_old_alloc :
    (readStreamOld 100 16 4 [0x80, 0x80, 0x40]).bufLen = 1048576 ∧
    (readStream 100 16 4 [0x80, 0x80, 0x40]).bufLen = 16 := by
  refine ⟨by decide, by decide⟩

/-- … and a message swallowed the one behind it when both had arrived -/
theorem C33_stream_old_merges :
    (readStreamOld 100 16 8 [2, 0xaa, 0xbb, 2, 0xcc, 0xdd]).err = some .short ∧
    readStream 100 16 8 [2, 0xaa, 0xbb, 2, 0xcc, 0xdd] = ⟨2, none, [0xaa, 0xbb], 16, [2, 0xcc, 0xdd], false⟩ := by
  refine ⟨by decide, by decide⟩

end Gossamer.C33
