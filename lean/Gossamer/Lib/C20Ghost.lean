/-
C20: `descend` / `findGhost` / `findAncestor` of the uncompressed vote graph, and what they return for the
state reached by importing a tolerant vote list.
-/
import Gossamer.Lib.C20Chain
namespace Gossamer.C20

variable {t : Tree} {ws : List Nat}

/-- a child the GHOST descent may step to -/
def good (cum : Nat → Mask) (cond : Mask → Bool) (c : Nat) : Bool := inGraph cum c && cond (cum c)

theorem descend_spec (h : t.WF) (cum : Nat → Mask) (cond : Mask → Bool) : ∀ (f B : Nat),
    B ∈ t.chain (descend t cum cond f B) ∧
    (descend t cum cond f B = B ∨ good cum cond (descend t cum cond f B) = true) ∧
    (t.size ≤ B + f → ∀ c, c ∈ t.children (descend t cum cond f B) → good cum cond c = false) := by
  intro f
  induction f with
  | zero =>
    intro B
    refine ⟨t.mem_chain_self B, Or.inl rfl, ?_⟩
    intro hs c hc
    simp only [descend] at hc
    obtain ⟨hlt, hc0, hp⟩ := Tree.mem_children.1 hc
    have := Tree.parent_lt h (b := c) (by omega)
    omega
  | succ f ih =>
    intro B
    cases hf : (t.children B).find? (fun c => inGraph cum c && cond (cum c)) with
    | none =>
      have hd : descend t cum cond (f + 1) B = B := by simp only [descend, hf]
      rw [hd]
      refine ⟨t.mem_chain_self B, Or.inl rfl, ?_⟩
      intro _ c hc
      have := List.find?_eq_none.1 hf c hc
      simpa [good] using this
    | some c =>
      have hd : descend t cum cond (f + 1) B = descend t cum cond f c := by simp only [descend, hf]
      rw [hd]
      have hcm := List.mem_of_find?_eq_some hf
      have hcg := List.find?_some hf
      obtain ⟨hlt, hc0, hp⟩ := Tree.mem_children.1 hcm
      obtain ⟨i1, i2, i3⟩ := ih c
      have hpl := Tree.parent_lt h (b := c) (by omega)
      refine ⟨?_, ?_, ?_⟩
      · have : B ∈ t.chain c := hp ▸ Tree.parent_mem_chain h (by omega)
        exact Tree.le_trans h this i1
      · right
        rcases i2 with i2 | i2
        · rw [i2]; exact hcg
        · exact i2
      · intro hs
        exact i3 (by omega)

/-- the start block `findGhost` uses -/
def ghostStart (cum : Nat → Mask) (cur : Option Nat) : Nat :=
  match cur with
  | none => 0
  | some b => if inGraph cum b then b else 0

theorem findGhost_eq (t : Tree) (cum : Nat → Mask) (cur : Option Nat) (cond : Mask → Bool) :
    findGhost t cum cur cond =
      if cond (cum (ghostStart cum cur)) then some (descend t cum cond t.size (ghostStart cum cur)) else none := by
  cases cur <;> rfl

theorem findGhost_none {cum : Nat → Mask} {cur : Option Nat} {cond : Mask → Bool}
    (hf : findGhost t cum cur cond = none) : cond (cum (ghostStart cum cur)) = false := by
  rw [findGhost_eq] at hf
  cases hc : cond (cum (ghostStart cum cur))
  · rfl
  · rw [hc] at hf; simp at hf

theorem findGhost_some (h : t.WF) {cum : Nat → Mask} {cur : Option Nat} {cond : Mask → Bool} {D : Nat}
    (hf : findGhost t cum cur cond = some D) :
    cond (cum (ghostStart cum cur)) = true ∧ ghostStart cum cur ∈ t.chain D ∧
    (D = ghostStart cum cur ∨ good cum cond D = true) ∧
    (∀ c, c ∈ t.children D → good cum cond c = false) := by
  rw [findGhost_eq] at hf
  cases hc : cond (cum (ghostStart cum cur))
  · rw [hc] at hf; simp at hf
  · rw [hc] at hf
    simp only [if_true] at hf
    have hD : descend t cum cond t.size (ghostStart cum cur) = D := Option.some.inj hf
    obtain ⟨d1, d2, d3⟩ := descend_spec h cum cond t.size (ghostStart cum cur)
    rw [hD] at d1 d2 d3
    exact ⟨rfl, d1, d2, d3 (by omega)⟩

/-- `find?` along a chain returns the deepest block of the chain with `p` -/
theorem chain_find_some (h : t.WF) (p : Nat → Bool) : ∀ (g F : Nat), (t.chain g).find? p = some F →
    F ∈ t.chain g ∧ p F = true ∧ ∀ B, B ∈ t.chain g → p B = true → B ∈ t.chain F := by
  intro g
  induction g using Nat.strongRecOn with
  | _ g ih =>
    intro F hF
    by_cases hg : g = 0
    · subst hg
      rw [Tree.chain_zero] at hF ⊢
      simp only [List.find?_cons] at hF
      split at hF
      · rename_i hp
        have : F = 0 := (Option.some.inj hF).symm
        subst this
        refine ⟨by simp, hp, ?_⟩
        intro B hB _
        simpa [Tree.chain_zero] using hB
      · simp at hF
    · have hg' : 0 < g := by omega
      rw [Tree.chain_pos h hg'] at hF
      simp only [List.find?_cons] at hF
      split at hF
      · rename_i hp
        have : F = g := (Option.some.inj hF).symm
        subst this
        exact ⟨t.mem_chain_self F, hp, fun B hB _ => hB⟩
      · rename_i hp
        obtain ⟨i1, i2, i3⟩ := ih _ (Tree.parent_lt h hg') F hF
        refine ⟨Tree.le_trans h i1 (Tree.parent_mem_chain h hg'), i2, ?_⟩
        intro B hB hpB
        rw [Tree.chain_pos h hg'] at hB
        rcases List.mem_cons.1 hB with rfl | hB
        · rw [hpB] at hp; exact Bool.noConfusion hp
        · exact i3 B hB hpB

/-! ### the GHOST of a tolerant vote list -/

/-- `g` is g(S) of the paper for the votes of phase `ph` in `ops`: it has a supermajority and every block
with a supermajority is `g` or an ancestor of it (so `g` has the highest number); `none` = no block has one -/
def IsGhost (t : Tree) (ws : List Nat) (ops : List Op) (ph : Bool) : Option Nat → Prop
  | none => ∀ B, superm t ws ops ph B = false
  | some g => superm t ws ops ph g = true ∧ ∀ B, superm t ws ops ph B = true → B ∈ t.chain g

/-- a supermajority block without a good child is the GHOST -/
theorem ghost_maximal (h : t.WF) (h0 : 0 < total ws) {ops : List Op} {ph : Bool}
    (htol : tolerant ws ops ph = true) {D : Nat} (hD : superm t ws ops ph D = true)
    (hch : ∀ c, c ∈ t.children D →
      good (run t ws ops).cum (supermCond ws (run t ws ops).eqv ph) c = false) :
    ∀ X, superm t ws ops ph X = true → X ∈ t.chain D := by
  intro X hX
  rcases superm_comparable h h0 htol hX hD with hc | hc
  · exact hc
  · by_cases hne : D = X
    · subst hne; exact t.mem_chain_self D
    · exfalso
      obtain ⟨c, hcX, hc0, hcp⟩ := Tree.child_towards h X D hc hne
      have hXlt := superm_lt_size h h0 htol hX
      have hclt : c < t.size := by have := Tree.mem_chain_le h _ _ hcX; omega
      have hcs : superm t ws ops ph c = true := superm_anc h hcX hX
      have hcg := superm_inGraph h0 htol hcs
      have := hch c (Tree.mem_children.2 ⟨hclt, hc0, hcp⟩)
      simp [good, hcg, supermCond_run, hcs] at this

/-- `findGhost` from a memo that has a supermajority (or from none) yields the GHOST -/
theorem findGhost_isGhost (h : t.WF) (h0 : 0 < total ws) {ops : List Op} {ph : Bool}
    (htol : tolerant ws ops ph = true) (memo : Option Nat)
    (hmemo : ∀ m, memo = some m → superm t ws ops ph m = true) :
    IsGhost t ws ops ph
      (findGhost t (run t ws ops).cum memo (supermCond ws (run t ws ops).eqv ph)) := by
  have hstart : ∀ m, memo = some m → ghostStart (run t ws ops).cum memo = m := by
    intro m hm
    subst hm
    simp [ghostStart, superm_inGraph h0 htol (hmemo m rfl)]
  cases hf : findGhost t (run t ws ops).cum memo (supermCond ws (run t ws ops).eqv ph) with
  | none =>
    have hc := findGhost_none hf
    rw [supermCond_run] at hc
    cases hm : memo with
    | none =>
      intro B
      cases hB : superm t ws ops ph B
      · rfl
      · have : superm t ws ops ph 0 = true := superm_anc h (Tree.zero_mem_chain h B) hB
        rw [hm] at hc
        simp only [ghostStart] at hc
        rw [this] at hc; exact Bool.noConfusion hc
    | some m =>
      rw [hstart m hm, hmemo m hm] at hc
      exact Bool.noConfusion hc
  | some D =>
    obtain ⟨f1, f2, f3, f4⟩ := findGhost_some h hf
    rw [supermCond_run] at f1
    have hD : superm t ws ops ph D = true := by
      rcases f3 with f3 | f3
      · rw [f3]; exact f1
      · simp only [good, Bool.and_eq_true] at f3
        rw [← supermCond_run]; exact f3.2
    exact ⟨hD, ghost_maximal h h0 htol hD f4⟩

end Gossamer.C20
