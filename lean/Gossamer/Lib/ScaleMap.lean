/-
Go maps in pkg/scale (`encodeMap` / `decodeMap`); used by the C11 / C12 drivers.
A map is the top-level type of a case; its value type is a `Ty` or again a map (`MTy`).
A map value is its list of entries (iteration order is the Go runtime's: known finding map-order).
Correspondence only: no theorem is stated about maps.
-/
import Gossamer.Model.C12
import Gossamer.Lib.ScaleText
namespace Gossamer.ScaleMap
open Gossamer Gossamer.Scale

/-- map value types -/
inductive MTy
  | leaf (g : ScaleText.GTy)
  | map (k : ScaleText.GTy) (v : MTy)
deriving Inhabited

/-- map values -/
inductive MVal
  | leaf (v : Val)
  | map (es : List (Val × MVal))
deriving Inhabited, BEq

/-- order of two keys of a map key type (unsigned / signed integers, strings bytewise) -/
def keyLt : Val → Val → Bool
  | .nat a, .nat b => a < b
  | .int a, .int b => a < b
  | .bytes a, .bytes b => bytesLt a b
  | _, _ => false
where
  bytesLt : Bytes → Bytes → Bool
    | [], [] => false
    | [], _ :: _ => true
    | _ :: _, [] => false
    | x :: xs, y :: ys => if x < y then true else if y < x then false else bytesLt xs ys

/-- `SetMapIndex`: the later entry wins -/
def insertEntry (k : Val) (v : MVal) : List (Val × MVal) → List (Val × MVal)
  | [] => [(k, v)]
  | (k', v') :: rest => if k' == k then (k, v) :: rest else (k', v') :: insertEntry k v rest

def ofEntries (es : List (Val × MVal)) : List (Val × MVal) :=
  es.foldl (fun acc e => insertEntry e.1 e.2 acc) []

def insertSorted (e : Val × MVal) : List (Val × MVal) → List (Val × MVal)
  | [] => [e]
  | f :: rest => if keyLt e.1 f.1 then e :: f :: rest else f :: insertSorted e rest

def sortEntries (es : List (Val × MVal)) : List (Val × MVal) := es.foldr insertSorted []

/-- canonical encoding: compact length, entries in ascending key order -/
partial def canon : MTy → MVal → Bytes
  | .leaf g, .leaf v => encode Spec.codec g.toTy v
  | .map k vt, .map es =>
    compactEnc es.length ++
      (sortEntries es).flatMap (fun e => encode Spec.codec k.toTy e.1 ++ canon vt e.2)
  | _, _ => []

/-- does the value hold a Go `uint` in [2^32, 2^56) (known finding uint-5to7) -/
partial def hasMid : MTy → MVal → Bool
  | .leaf g, .leaf v => C12.hasMidUint g.toTy v
  | .map _ vt, .map es => es.any (fun e => hasMid vt e.2)
  | _, _ => false

mutual
/-- `unmarshal` of a map value type: a leaf through the model decoder, a map through `decodeMap`
    (a nil destination is made first).  `total` = length of the whole input: a declared byte-string
    length above `total + 65536` counts as a failure (the harness does not materialise it). -/
partial def decodeM (total : Nat) (t : MTy) (bs : Bytes) : Option (MVal × Bytes) :=
  match t with
  | .leaf g => (decode (C12.codecR .buffer total) g.toTy bs).map (fun (v, r) => (.leaf v, r))
  | .map k vt =>
    match C11.decodeUintV bs with
    | none => none
    | some (n, r) => (decodeEntries total k vt n r []).map (fun (es, r') => (.map es, r'))

/-- the loop of `decodeMap`: a fresh key and a fresh value per tuple, then `SetMapIndex` -/
partial def decodeEntries (total : Nat) (k : ScaleText.GTy) (vt : MTy) (n : Nat) (bs : Bytes)
    (acc : List (Val × MVal)) : Option (List (Val × MVal) × Bytes) :=
  match n with
  | 0 => some (acc, bs)
  | n + 1 =>
    match decode (C12.codecR .buffer total) k.toTy bs with
    | none => none
    | some (key, r1) =>
      match decodeM total vt r1 with
      | none => none
      | some (v, r2) => decodeEntries total k vt n r2 (insertEntry key v acc)
end

/-! text -/

mutual
partial def pMTy (cs : List Char) : Option (MTy × List Char) :=
  match cs with
  | 'm' :: 'a' :: 'p' :: '(' :: r => do
    let (k, r) ← ScaleText.pTy r
    let (_, r) ← ScaleText.eat ',' r
    let (v, r) ← pMTy r
    let (_, r) ← ScaleText.eat ')' r
    pure (.map k v, r)
  | _ => (ScaleText.pTy cs).map (fun (g, r) => (.leaf g, r))
end

def parseMTy (s : String) : Option MTy :=
  match pMTy s.toList with
  | some (t, []) => some t
  | _ => none

mutual
partial def pMVal (t : MTy) (cs : List Char) : Option (MVal × List Char) :=
  match t with
  | .leaf g => (ScaleText.pVal g cs).map (fun (v, r) => (.leaf v, r))
  | .map k vt =>
    match cs with
    | '{' :: r => (pEntries k vt r).map (fun (es, r') => (.map (ofEntries es), r'))
    | _ => none

partial def pEntries (k : ScaleText.GTy) (vt : MTy) (cs : List Char) :
    Option (List (Val × MVal) × List Char) :=
  match cs with
  | '}' :: r => some ([], r)
  | ',' :: r => pEntries k vt r
  | _ => do
    let (key, r) ← ScaleText.pVal k cs
    let (_, r) ← ScaleText.eat ':' r
    let (v, r) ← pMVal vt r
    let (es, r) ← pEntries k vt r
    pure ((key, v) :: es, r)
end

def parseMap (k : ScaleText.GTy) (vt : MTy) (s : String) : Option (List (Val × MVal)) :=
  match pMVal (.map k vt) s.toList with
  | some (.map es, []) => some es
  | _ => none

/-- the value a dirty destination holds (harness `c11DirtyVal`) -/
partial def dirtyM : MTy → MVal
  | .leaf g => .leaf (C12.dirtyVal g.toTy)
  | .map k vt => .map [(C12.dirtyVal k.toTy, dirtyM vt)]

/-- driver for `menc <kt> <vt> {..}` -/
def stepEnc (kts vts vals : String) : String :=
  match ScaleText.parseTy kts, parseMTy vts with
  | some kg, some vt =>
    match parseMap kg vt vals with
    | none => "bad-op"
    | some m =>
      let c := hex (canon (.map kg vt) (.map m))
      let model := s!"{c} perm=true stable={decide (m.length ≤ 1)}"
      let spec := s!"{c} perm=true stable=true"
      if model = spec then model else s!"{model}\tspec={spec}\tkf=map-order"
  | _, _ => "bad-op"

/-- driver for `mrt <kt> <vt> {..}`: Marshal, Unmarshal into a nil map, deep comparison -/
def stepRt (kts vts vals : String) : String :=
  match ScaleText.parseTy kts, parseMTy vts with
  | some kg, some vt =>
    match parseMap kg vt vals with
    | none => "bad-op"
    | some m =>
      let t := MTy.map kg vt
      let cb := canon t (.map m)
      let c := hex cb
      let spec := s!"{c} eq=true alias=false"
      let model :=
        match decodeM cb.length t cb with
        | none => s!"{c} err"
        | some (v, _) => s!"{c} eq={canon t v == cb} alias=false"
      if model = spec then model
      else s!"{model}\tspec={spec}\tkf={if hasMid t (.map m) then "uint-5to7" else "none"}"
  | _, _ => "bad-op"

/-- driver for `mdec <kt> <vt> <hex> <nil|made|dirty>` -/
def stepDec (kts vts h dst : String) : String :=
  match ScaleText.parseTy kts, parseMTy vts, ofHex? h with
  | some kg, some vt, some data =>
    let t := MTy.map kg vt
    let shw (init : List (Val × MVal)) : String :=
      match C11.decodeUintV data with
      | none => "err"
      | some (n, r) =>
        match decodeEntries data.length kg vt n r init with
        | none => "err"
        | some (es, r') => s!"ok {hex (canon t (.map es))} {data.length - r'.length}"
    let spec := shw []
    let model := if dst == "dirty" then shw [(C12.dirtyVal kg.toTy, dirtyM vt)] else spec
    if model = spec then model else s!"{model}\tspec={spec}\tkf=dirty-dst"
  | _, _, _ => "bad-op"

end Gossamer.ScaleMap
