/-
Go maps in pkg/scale (`encodeMap` / `decodeMap`), top level only; used by the C11 / C12 drivers.
A map value is its list of entries in ITERATION order (the Go runtime picks the order).
Correspondence only: no theorem is stated about maps.
-/
import Gossamer.Model.C12
import Gossamer.Lib.ScaleText
namespace Gossamer.ScaleMap
open Gossamer Gossamer.Scale

/-- order of two keys of a map key type (unsigned / signed integers, strings bytewise) -/
def keyLt : Val → Val → Bool
  | .nat a, .nat b => a < b
  | .int a, .int b => a < b
  | .bytes a, .bytes b => bytesLt a b
  | _, _ => false
where
  bytesLt : Bytes → Bytes → Bool
    | [], [] => false
    | [], _ :: _ => true
    | _ :: _, [] => false
    | x :: xs, y :: ys => if x < y then true else if y < x then false else bytesLt xs ys

/-- `SetMapIndex`: the later entry wins -/
def insertEntry (k v : Val) : List (Val × Val) → List (Val × Val)
  | [] => [(k, v)]
  | (k', v') :: rest => if k' == k then (k, v) :: rest else (k', v') :: insertEntry k v rest

def ofEntries (es : List (Val × Val)) : List (Val × Val) :=
  es.foldl (fun acc e => insertEntry e.1 e.2 acc) []

def insertSorted (e : Val × Val) : List (Val × Val) → List (Val × Val)
  | [] => [e]
  | f :: rest => if keyLt e.1 f.1 then e :: f :: rest else f :: insertSorted e rest

def sortEntries (es : List (Val × Val)) : List (Val × Val) := es.foldr insertSorted []

/-- canonical encoding of a map: compact length, entries in ascending key order -/
def canon (kt vt : Ty) (es : List (Val × Val)) : Bytes :=
  compactEnc es.length ++
    (sortEntries es).flatMap (fun e => encode Spec.codec kt e.1 ++ encode Spec.codec vt e.2)

/-- outcome of `decodeMap` -/
inductive MRes
  | ok (entries : List (Val × Val)) (rest : Bytes)
  | err

/-- the loop of `decodeMap`: key, value, `dstv.SetMapIndex` -/
def decodeEntries (kt vt : Ty) : Nat → Bytes → List (Val × Val) → MRes
  | 0, bs, acc => .ok acc bs
  | n + 1, bs, acc =>
    match (C12.decodeA kt bs).res with
    | none => .err
    | some (k, r1) =>
      match (C12.decodeA vt r1).res with
      | none => .err
      | some (v, r2) => decodeEntries kt vt n r2 (insertEntry k v acc)

/-- `decodeMap` into a nil or a made (empty) map: a nil destination is made first (after the
    fix recorded in harness/C12/findings.json), so both behave alike -/
def decodeMap (kt vt : Ty) (_isNil : Bool) (bs : Bytes) : MRes :=
  match C11.decodeUintV bs with
  | none => .err
  | some (n, r) => decodeEntries kt vt n r []

/-- text of a map value `{k:v,k:v}` -/
partial def pEntries (kt vt : ScaleText.GTy) (cs : List Char) : Option (List (Val × Val) × List Char) :=
  match cs with
  | '}' :: r => some ([], r)
  | ',' :: r => pEntries kt vt r
  | _ => do
    let (k, r) ← ScaleText.pVal kt cs
    let (_, r) ← ScaleText.eat ':' r
    let (v, r) ← ScaleText.pVal vt r
    let (es, r) ← pEntries kt vt r
    pure ((k, v) :: es, r)

def parseEntries (kt vt : ScaleText.GTy) (s : String) : Option (List (Val × Val)) :=
  match s.toList with
  | '{' :: r => match pEntries kt vt r with
    | some (es, []) => some es
    | _ => none
  | _ => none

/-- driver for `menc <kt> <vt> {..}` -/
def stepEnc (kts vts vals : String) : String :=
  match ScaleText.parseTy kts, ScaleText.parseTy vts with
  | some kg, some vg =>
    match parseEntries kg vg vals with
    | none => "bad-op"
    | some es =>
      let m := ofEntries es
      let c := hex (canon kg.toTy vg.toTy m)
      let model := s!"{c} perm=true stable={decide (m.length ≤ 1)}"
      let spec := s!"{c} perm=true stable=true"
      if model = spec then model else s!"{model}\tspec={spec}\tkf=map-order"
  | _, _ => "bad-op"

def showM (kt vt : Ty) (data : Bytes) : MRes → String
  | .ok es r => s!"ok {hex (canon kt vt es)} {data.length - r.length}"
  | .err => "err"

/-- driver for `mdec <kt> <vt> <hex> <nil|made>` -/
def stepDec (kts vts h dst : String) : String :=
  match ScaleText.parseTy kts, ScaleText.parseTy vts, ofHex? h with
  | some kg, some vg, some data =>
    let kt := kg.toTy
    let vt := vg.toTy
    showM kt vt data (decodeMap kt vt (dst == "nil") data)
  | _, _, _ => "bad-op"

end Gossamer.ScaleMap
