/-
Driver-side text layer of C14 (and reusable by C09/C33): the value syntax of harness/C14
(c14_lib_test.go) parsed into `Val`, directed by a labelled descriptor `CTy`, and printed back.
Field and variant LABELS in the text must equal the labels of the descriptor, otherwise the parse
fails (the driver then answers `bad-op`, which the orchestrator reports as a disagreement).
Not part of any theorem.

  123 | t f | x<hex> | [v,v] | (Name:v,Name:v) | N  S<v> | V<idx>#<Name>:<v>
-/
import Gossamer.Base.Proto
import Gossamer.Lib.ChainTypes
namespace Gossamer.ChainText
open Gossamer Gossamer.Scale Gossamer.Chain

abbrev P (α : Type) := List Char → Option (α × List Char)

def eat (c : Char) : P Unit
  | d :: cs => if c = d then some ((), cs) else none
  | [] => none

def span (f : Char → Bool) (cs : List Char) : List Char × List Char := (cs.takeWhile f, cs.dropWhile f)

def natOfDigits (ds : List Char) : Nat := ds.foldl (fun a c => a * 10 + (c.toNat - 48)) 0

def number : P Nat := fun cs =>
  let (ds, r) := span Char.isDigit cs
  if ds.isEmpty then none else some (natOfDigits ds, r)

def identChar (c : Char) : Bool := c.isAlphanum || c = '_'

def ident : P String := fun cs =>
  let (is, r) := span identChar cs
  some (String.ofList is, r)

def hexChar (c : Char) : Bool := c.isDigit || ('a' ≤ c && c ≤ 'f')

/-- `x<hex>` -/
def hexBytes : P Bytes := fun cs =>
  match cs with
  | 'x' :: r =>
    let (h, r') := span hexChar r
    (ofHexChars? h).map (fun b => (b, r'))
  | _ => none

def isByte : CTy → Bool
  | .prim .u8 => true
  | _ => false

/-- the payload descriptor and label of variant `idx` -/
def findVariant (idx : Nat) : CTy → Option (String × CTy)
  | .variant i n t rest => if i = idx then some (n, t) else findVariant idx rest
  | _ => none

mutual
partial def pVal (t : CTy) (cs : List Char) : Option (Val × List Char) :=
  match t with
  | .prim p =>
    match p.kind with
    | .bool =>
      match cs with
      | 't' :: r => some (.bool true, r)
      | 'f' :: r => some (.bool false, r)
      | _ => none
    | .bytes => (hexBytes cs).map (fun (b, r) => (.bytes b, r))
    | .sint _ => none
    | _ => (number cs).map (fun (n, r) => (.nat n, r))
  | .array n e =>
    if isByte e then
      match hexBytes cs with
      | some (b, r) => if b.length = n then some (.list (b.map (fun x => .nat x.toNat)), r) else none
      | none => none
    else do
      let (_, r) ← eat '[' cs
      let (vs, r) ← pList e true r
      if vs.length = n then pure (.list vs, r) else none
  | .seq e => do
    let (_, r) ← eat '[' cs
    let (vs, r) ← pList e true r
    pure (.list vs, r)
  | .unit => do
    let (_, r) ← eat '(' cs
    let (_, r) ← eat ')' r
    pure (.unit, r)
  | .field _ _ _ => do
    let (_, r) ← eat '(' cs
    pFields t true r
  | .option e =>
    match cs with
    | 'N' :: r => some (.none, r)
    | 'S' :: r => (pVal e r).map (fun (v, r') => (.some v, r'))
    | _ => none
  | .enumNil => none
  | .variant _ _ _ _ => do
    let (_, r) ← eat 'V' cs
    let (k, r) ← number r
    let (_, r) ← eat '#' r
    let (name, r) ← ident r
    let (_, r) ← eat ':' r
    let (n, pt) ← findVariant k t
    if n ≠ name then none
    else
      let (v, r) ← pVal pt r
      pure (.variant k v, r)

partial def pFields (t : CTy) (first : Bool) (cs : List Char) : Option (Val × List Char) :=
  match t with
  | .unit => (eat ')' cs).map (fun (_, r) => (.unit, r))
  | .field name ft rest => do
    let r ← if first then pure cs else (eat ',' cs).map (·.2)
    let (n, r) ← ident r
    if n ≠ name then none
    else
      let (_, r) ← eat ':' r
      let (v, r) ← pVal ft r
      let (w, r) ← pFields rest false r
      pure (.pair v w, r)
  | _ => none

partial def pList (e : CTy) (first : Bool) (cs : List Char) : Option (List Val × List Char) :=
  match cs with
  | ']' :: r => some ([], r)
  | _ => do
    let r ← if first then pure cs else (eat ',' cs).map (·.2)
    let (v, r) ← pVal e r
    let (vs, r) ← pList e false r
    pure (v :: vs, r)
end

def parseVal (t : CTy) (s : String) : Option Val :=
  match pVal t s.toList with
  | some (v, []) => some v
  | _ => none

def bytesOfNats (vs : List Val) : Bytes :=
  vs.map (fun v => match v with | .nat n => UInt8.ofNat n | _ => 0)

mutual
partial def showVal (t : CTy) (v : Val) : String :=
  match t, v with
  | .prim _, .nat n => toString n
  | .prim _, .bool b => if b then "t" else "f"
  | .prim _, .bytes b => "x" ++ toHex b
  | .array _ e, .list vs =>
    if isByte e then "x" ++ toHex (bytesOfNats vs)
    else "[" ++ ",".intercalate (vs.map (showVal e)) ++ "]"
  | .seq e, .list vs => "[" ++ ",".intercalate (vs.map (showVal e)) ++ "]"
  | .unit, _ => "()"
  | .field _ _ _, _ => "(" ++ ",".intercalate (showFields t v) ++ ")"
  | .option _, .none => "N"
  | .option e, .some w => "S" ++ showVal e w
  | .variant _ _ _ _, .variant k w =>
    match findVariant k t with
    | some (name, pt) => s!"V{k}#{name}:{showVal pt w}"
    | none => "V?"
  | _, _ => "?"

partial def showFields (t : CTy) (v : Val) : List String :=
  match t, v with
  | .field name ft rest, .pair x y => (name ++ ":" ++ showVal ft x) :: showFields rest y
  | _, _ => []
end

/-- `idx:label,…` -/
def showTable (t : CTy) : String :=
  ",".intercalate (t.table.map (fun (i, n) => s!"{i}:{n}"))

end Gossamer.ChainText
