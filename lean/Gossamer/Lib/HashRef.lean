/-
Executable reference transcriptions of the hash functions used by lib/common/hasher.go:
BLAKE2b (RFC 7693, unkeyed, digest sizes 1..64), xxHash64 (reference algorithm), Keccak-f[1600] /
legacy Keccak-256, SHA-256 (FIPS 180-4).  Core Lean only.  These are the *formal references* of C29:
they are written from the specifications, not from the Go libraries.
-/
import Gossamer.Base.Bytes
namespace Gossamer.HashRef

/-! ### helpers -/

def le64 (b : Array UInt8) (off : Nat) : UInt64 := Id.run do
  let mut r : UInt64 := 0
  for i in [0:8] do
    r := r ||| ((b.getD (off + i) 0).toUInt64 <<< (8 * i).toUInt64)
  return r

def le32 (b : Array UInt8) (off : Nat) : UInt32 := Id.run do
  let mut r : UInt32 := 0
  for i in [0:4] do
    r := r ||| ((b.getD (off + i) 0).toUInt32 <<< (8 * i).toUInt32)
  return r

def be32 (b : Array UInt8) (off : Nat) : UInt32 := Id.run do
  let mut r : UInt32 := 0
  for i in [0:4] do
    r := (r <<< 8) ||| (b.getD (off + i) 0).toUInt32
  return r

def u64le (x : UInt64) : List UInt8 := (List.range 8).map fun i => (x >>> (8 * i).toUInt64).toUInt8
def u32be (x : UInt32) : List UInt8 := (List.range 4).map fun i => (x >>> (8 * (3 - i)).toUInt32).toUInt8
def u64be (x : UInt64) : List UInt8 := (List.range 8).map fun i => (x >>> (8 * (7 - i)).toUInt64).toUInt8

def rotr64 (x : UInt64) (n : UInt64) : UInt64 := (x >>> n) ||| (x <<< (64 - n))
def rotl64 (x : UInt64) (n : UInt64) : UInt64 := if n == 0 then x else (x <<< n) ||| (x >>> (64 - n))
def rotr32 (x : UInt32) (n : UInt32) : UInt32 := (x >>> n) ||| (x <<< (32 - n))

/-! ### BLAKE2b -/

def b2IV : Array UInt64 := #[0x6a09e667f3bcc908, 0xbb67ae8584caa73b, 0x3c6ef372fe94f82b,
  0xa54ff53a5f1d36f1, 0x510e527fade682d1, 0x9b05688c2b3e6c1f, 0x1f83d9abfb41bd6b, 0x5be0cd19137e2179]

def b2Sigma : Array (Array Nat) := #[
  #[0, 1, 2, 3, 4, 5, 6, 7, 8, 9, 10, 11, 12, 13, 14, 15],
  #[14, 10, 4, 8, 9, 15, 13, 6, 1, 12, 0, 2, 11, 7, 5, 3],
  #[11, 8, 12, 0, 5, 2, 15, 13, 10, 14, 3, 6, 7, 1, 9, 4],
  #[7, 9, 3, 1, 13, 12, 11, 14, 2, 6, 5, 10, 4, 0, 15, 8],
  #[9, 0, 5, 7, 2, 4, 10, 15, 14, 1, 11, 12, 6, 8, 3, 13],
  #[2, 12, 6, 10, 0, 11, 8, 3, 4, 13, 7, 5, 15, 14, 1, 9],
  #[12, 5, 1, 15, 14, 13, 4, 10, 0, 7, 6, 3, 9, 2, 8, 11],
  #[13, 11, 7, 14, 12, 1, 3, 9, 5, 0, 15, 4, 8, 6, 2, 10],
  #[6, 15, 14, 9, 11, 3, 0, 8, 12, 2, 13, 7, 1, 4, 10, 5],
  #[10, 2, 8, 4, 7, 6, 1, 5, 15, 11, 9, 14, 3, 12, 13, 0],
  #[0, 1, 2, 3, 4, 5, 6, 7, 8, 9, 10, 11, 12, 13, 14, 15],
  #[14, 10, 4, 8, 9, 15, 13, 6, 1, 12, 0, 2, 11, 7, 5, 3]]

def b2G (v : Array UInt64) (a b c d : Nat) (x y : UInt64) : Array UInt64 :=
  let va := v[a]! + v[b]! + x
  let vd := rotr64 (v[d]! ^^^ va) 32
  let vc := v[c]! + vd
  let vb := rotr64 (v[b]! ^^^ vc) 24
  let va := va + vb + y
  let vd := rotr64 (vd ^^^ va) 16
  let vc := vc + vd
  let vb := rotr64 (vb ^^^ vc) 63
  (((v.set! a va).set! b vb).set! c vc).set! d vd

/-- compression function F; `t` is the byte counter (low 64 bits suffice for our inputs) -/
def b2Compress (h : Array UInt64) (block : Array UInt8) (off : Nat) (t : UInt64) (last : Bool) :
    Array UInt64 := Id.run do
  let mut m : Array UInt64 := Array.replicate 16 0
  for i in [0:16] do
    m := m.set! i (le64 block (off + 8 * i))
  let mut v : Array UInt64 := h ++ b2IV
  v := v.set! 12 (v[12]! ^^^ t)
  if last then v := v.set! 14 (v[14]! ^^^ 0xFFFFFFFFFFFFFFFF)
  for r in [0:12] do
    let s := b2Sigma[r]!
    v := b2G v 0 4 8 12 m[s[0]!]! m[s[1]!]!
    v := b2G v 1 5 9 13 m[s[2]!]! m[s[3]!]!
    v := b2G v 2 6 10 14 m[s[4]!]! m[s[5]!]!
    v := b2G v 3 7 11 15 m[s[6]!]! m[s[7]!]!
    v := b2G v 0 5 10 15 m[s[8]!]! m[s[9]!]!
    v := b2G v 1 6 11 12 m[s[10]!]! m[s[11]!]!
    v := b2G v 2 7 8 13 m[s[12]!]! m[s[13]!]!
    v := b2G v 3 4 9 14 m[s[14]!]! m[s[15]!]!
  let mut h' := h
  for i in [0:8] do
    h' := h'.set! i (h[i]! ^^^ v[i]! ^^^ v[i + 8]!)
  return h'

/-- unkeyed BLAKE2b with `nn`-byte digest -/
def blake2b (nn : Nat) (msg : Bytes) : Bytes := Id.run do
  let data : Array UInt8 := msg.toArray
  let len := data.size
  let mut h := b2IV
  h := h.set! 0 (h[0]! ^^^ 0x01010000 ^^^ nn.toUInt64)
  -- number of blocks: at least one; the last block is the (possibly partial or empty) tail
  let nblocks := if len == 0 then 1 else (len + 127) / 128
  let padded : Array UInt8 := data ++ Array.replicate (nblocks * 128 - len) 0
  for i in [0:nblocks - 1] do
    h := b2Compress h padded (i * 128) ((i + 1) * 128).toUInt64 false
  h := b2Compress h padded ((nblocks - 1) * 128) len.toUInt64 true
  let out : List UInt8 := (h.toList.flatMap u64le)
  return out.take nn

def blake2b256 (msg : Bytes) : Bytes := blake2b 32 msg

/-! ### xxHash64 -/

def xxP1 : UInt64 := 11400714785074694791
def xxP2 : UInt64 := 14029467366897019727
def xxP3 : UInt64 := 1609587929392839161
def xxP4 : UInt64 := 9650029242287828579
def xxP5 : UInt64 := 2870177450012600261

def xxRound (acc inp : UInt64) : UInt64 := (rotl64 (acc + inp * xxP2) 31) * xxP1
def xxMerge (acc v : UInt64) : UInt64 := (acc ^^^ xxRound 0 v) * xxP1 + xxP4

def xxh64 (seed : UInt64) (msg : Bytes) : UInt64 := Id.run do
  let d : Array UInt8 := msg.toArray
  let len := d.size
  let mut p := 0
  let mut h : UInt64 := 0
  if len ≥ 32 then
    let mut v1 := seed + xxP1 + xxP2
    let mut v2 := seed + xxP2
    let mut v3 := seed
    let mut v4 := seed - xxP1
    let stripes := len / 32
    for _ in [0:stripes] do
      v1 := xxRound v1 (le64 d p)
      v2 := xxRound v2 (le64 d (p + 8))
      v3 := xxRound v3 (le64 d (p + 16))
      v4 := xxRound v4 (le64 d (p + 24))
      p := p + 32
    h := rotl64 v1 1 + rotl64 v2 7 + rotl64 v3 12 + rotl64 v4 18
    h := xxMerge h v1
    h := xxMerge h v2
    h := xxMerge h v3
    h := xxMerge h v4
  else
    h := seed + xxP5
  h := h + len.toUInt64
  let n8 := (len - p) / 8
  for _ in [0:n8] do
    h := h ^^^ xxRound 0 (le64 d p)
    h := rotl64 h 27 * xxP1 + xxP4
    p := p + 8
  if len - p ≥ 4 then
    h := h ^^^ ((le32 d p).toUInt64 * xxP1)
    h := rotl64 h 23 * xxP2 + xxP3
    p := p + 4
  for i in [p:len] do
    h := h ^^^ ((d.getD i 0).toUInt64 * xxP5)
    h := rotl64 h 11 * xxP1
  h := h ^^^ (h >>> 33)
  h := h * xxP2
  h := h ^^^ (h >>> 29)
  h := h * xxP3
  h := h ^^^ (h >>> 32)
  return h

/-! ### Keccak-f[1600] and legacy Keccak-256 -/

def kRC : Array UInt64 := #[0x0000000000000001, 0x0000000000008082, 0x800000000000808A,
  0x8000000080008000, 0x000000000000808B, 0x0000000080000001, 0x8000000080008081,
  0x8000000000008009, 0x000000000000008A, 0x0000000000000088, 0x0000000080008009,
  0x000000008000000A, 0x000000008000808B, 0x800000000000008B, 0x8000000000008089,
  0x8000000000008003, 0x8000000000008002, 0x8000000000000080, 0x000000000000800A,
  0x800000008000000A, 0x8000000080008081, 0x8000000000008080, 0x0000000080000001,
  0x8000000080008008]

/-- rotation offsets r[x][y], indexed x + 5*y -/
def kRot : Array Nat := #[0, 1, 62, 28, 27, 36, 44, 6, 55, 20, 3, 10, 43, 25, 39, 41, 45, 15, 21, 8,
  18, 2, 61, 56, 14]

def keccakF (a0 : Array UInt64) : Array UInt64 := Id.run do
  let mut a := a0
  for rnd in [0:24] do
    -- theta
    let mut c : Array UInt64 := Array.replicate 5 0
    for x in [0:5] do
      c := c.set! x (a[x]! ^^^ a[x + 5]! ^^^ a[x + 10]! ^^^ a[x + 15]! ^^^ a[x + 20]!)
    for x in [0:5] do
      let d := c[(x + 4) % 5]! ^^^ rotl64 c[(x + 1) % 5]! 1
      for y in [0:5] do
        a := a.set! (x + 5 * y) (a[x + 5 * y]! ^^^ d)
    -- rho and pi
    let mut b : Array UInt64 := Array.replicate 25 0
    for x in [0:5] do
      for y in [0:5] do
        b := b.set! (y + 5 * ((2 * x + 3 * y) % 5)) (rotl64 a[x + 5 * y]! (kRot[x + 5 * y]!).toUInt64)
    -- chi
    for x in [0:5] do
      for y in [0:5] do
        a := a.set! (x + 5 * y)
          (b[x + 5 * y]! ^^^ ((b[(x + 1) % 5 + 5 * y]! ^^^ 0xFFFFFFFFFFFFFFFF) &&& b[(x + 2) % 5 + 5 * y]!))
    -- iota
    a := a.set! 0 (a[0]! ^^^ kRC[rnd]!)
  return a

/-- legacy Keccak-256 (pad10*1 with domain byte 0x01, rate 136) -/
def keccak256 (msg : Bytes) : Bytes := Id.run do
  let rate := 136
  let d : Array UInt8 := msg.toArray
  let len := d.size
  let padLen := rate - len % rate
  let mut p : Array UInt8 := d ++ Array.replicate padLen 0
  p := p.set! len (p[len]! ||| 0x01)
  p := p.set! (len + padLen - 1) (p[len + padLen - 1]! ||| 0x80)
  let mut a : Array UInt64 := Array.replicate 25 0
  for blk in [0:p.size / rate] do
    for i in [0:rate / 8] do
      a := a.set! i (a[i]! ^^^ le64 p (blk * rate + 8 * i))
    a := keccakF a
  return (a.toList.flatMap u64le).take 32

/-! ### SHA-256 -/

def shaK : Array UInt32 := #[
  0x428a2f98, 0x71374491, 0xb5c0fbcf, 0xe9b5dba5, 0x3956c25b, 0x59f111f1, 0x923f82a4, 0xab1c5ed5,
  0xd807aa98, 0x12835b01, 0x243185be, 0x550c7dc3, 0x72be5d74, 0x80deb1fe, 0x9bdc06a7, 0xc19bf174,
  0xe49b69c1, 0xefbe4786, 0x0fc19dc6, 0x240ca1cc, 0x2de92c6f, 0x4a7484aa, 0x5cb0a9dc, 0x76f988da,
  0x983e5152, 0xa831c66d, 0xb00327c8, 0xbf597fc7, 0xc6e00bf3, 0xd5a79147, 0x06ca6351, 0x14292967,
  0x27b70a85, 0x2e1b2138, 0x4d2c6dfc, 0x53380d13, 0x650a7354, 0x766a0abb, 0x81c2c92e, 0x92722c85,
  0xa2bfe8a1, 0xa81a664b, 0xc24b8b70, 0xc76c51a3, 0xd192e819, 0xd6990624, 0xf40e3585, 0x106aa070,
  0x19a4c116, 0x1e376c08, 0x2748774c, 0x34b0bcb5, 0x391c0cb3, 0x4ed8aa4a, 0x5b9cca4f, 0x682e6ff3,
  0x748f82ee, 0x78a5636f, 0x84c87814, 0x8cc70208, 0x90befffa, 0xa4506ceb, 0xbef9a3f7, 0xc67178f2]

def shaH0 : Array UInt32 := #[0x6a09e667, 0xbb67ae85, 0x3c6ef372, 0xa54ff53a, 0x510e527f, 0x9b05688c,
  0x1f83d9ab, 0x5be0cd19]

def sha256 (msg : Bytes) : Bytes := Id.run do
  let d : Array UInt8 := msg.toArray
  let len := d.size
  let zeros := (119 - len % 64) % 64   -- so that len + 1 + zeros + 8 ≡ 0 (mod 64)
  let p : Array UInt8 := d ++ #[0x80] ++ Array.replicate zeros 0 ++ (u64be (8 * len).toUInt64).toArray
  let mut h := shaH0
  for blk in [0:p.size / 64] do
    let mut w : Array UInt32 := Array.replicate 64 0
    for i in [0:16] do
      w := w.set! i (be32 p (blk * 64 + 4 * i))
    for i in [16:64] do
      let x := w[i - 15]!
      let y := w[i - 2]!
      let s0 := rotr32 x 7 ^^^ rotr32 x 18 ^^^ (x >>> 3)
      let s1 := rotr32 y 17 ^^^ rotr32 y 19 ^^^ (y >>> 10)
      w := w.set! i (w[i - 16]! + s0 + w[i - 7]! + s1)
    let mut a := h[0]!
    let mut b := h[1]!
    let mut c := h[2]!
    let mut dd := h[3]!
    let mut e := h[4]!
    let mut f := h[5]!
    let mut g := h[6]!
    let mut hh := h[7]!
    for i in [0:64] do
      let s1 := rotr32 e 6 ^^^ rotr32 e 11 ^^^ rotr32 e 25
      let ch := (e &&& f) ^^^ ((e ^^^ 0xFFFFFFFF) &&& g)
      let t1 := hh + s1 + ch + shaK[i]! + w[i]!
      let s0 := rotr32 a 2 ^^^ rotr32 a 13 ^^^ rotr32 a 22
      let mj := (a &&& b) ^^^ (a &&& c) ^^^ (b &&& c)
      let t2 := s0 + mj
      hh := g; g := f; f := e; e := dd + t1; dd := c; c := b; b := a; a := t1 + t2
    h := #[h[0]! + a, h[1]! + b, h[2]! + c, h[3]! + dd, h[4]! + e, h[5]! + f, h[6]! + g, h[7]! + hh]
  return h.toList.flatMap u32be

end Gossamer.HashRef
