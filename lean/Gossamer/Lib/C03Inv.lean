/-
C03: the state invariant of the snapshot forest (`Inv`) and the facts about the tree of snapshots
(`Anc`) that the isolation theorems of `Props/C03` rest on.
-/
import Gossamer.Model.C03
import Gossamer.Lib.TrieHeapTop
namespace Gossamer.C03
open Gossamer Gossamer.Trie Gossamer.TrieHeap

/-! ### lists -/

theorem getElem?_setAt {α : Type} (l : List α) (h : Nat) (x : α) (i : Nat) :
    (setAt l h x)[i]? = if i = h ∧ h < l.length then some x else l[i]? := by
  induction l generalizing h i with
  | nil => simp [setAt]
  | cons a r ih =>
    cases h with
    | zero =>
      cases i with
      | zero => simp [setAt]
      | succ i => simp [setAt]
    | succ h =>
      cases i with
      | zero => simp [setAt]
      | succ i =>
        simp only [setAt, List.getElem?_cons_succ, List.length_cons]
        rw [ih]
        by_cases hc : i = h ∧ h < r.length
        · rw [if_pos hc, if_pos ⟨by omega, by omega⟩]
        · rw [if_neg hc, if_neg (by intro hh; apply hc; exact ⟨by omega, by omega⟩)]

theorem length_setAt {α : Type} (l : List α) (h : Nat) (x : α) : (setAt l h x).length = l.length := by
  induction l generalizing h with
  | nil => rfl
  | cons a r ih => cases h <;> simp [setAt, ih]

/-! ### the tree of snapshots -/

/-- `a` is a proper ancestor of handle `i` -/
inductive Anc (hs : List HInfo) (a : Nat) : Nat → Prop where
  | parent {i : Nat} {x : HInfo} : hs[i]? = some x → x.parent = some a → Anc hs a i
  | step {p i : Nat} {x : HInfo} : hs[i]? = some x → x.parent = some p → Anc hs a p → Anc hs a i

/-- `Anc` only depends on the parent pointers -/
theorem Anc.congr {hs hs' : List HInfo} (h : ∀ i : Nat, (hs'[i]?).map HInfo.parent = (hs[i]?).map HInfo.parent)
    {a i : Nat} (ha : Anc hs a i) : Anc hs' a i := by
  induction ha with
  | @parent i x hx hp =>
    have := h i
    rw [hx] at this
    cases hx' : hs'[i]? with
    | none => rw [hx'] at this; simp at this
    | some x' =>
      rw [hx'] at this
      simp only [Option.map_some, Option.some.injEq] at this
      exact Anc.parent hx' (this.trans hp)
  | @step p i x hx hp _ ih =>
    have := h i
    rw [hx] at this
    cases hx' : hs'[i]? with
    | none => rw [hx'] at this; simp at this
    | some x' =>
      rw [hx'] at this
      simp only [Option.map_some, Option.some.injEq] at this
      exact Anc.step hx' (this.trans hp) ih

theorem Anc.congr_iff {hs hs' : List HInfo} (h : ∀ i : Nat, (hs'[i]?).map HInfo.parent = (hs[i]?).map HInfo.parent)
    (a i : Nat) : Anc hs' a i ↔ Anc hs a i :=
  ⟨fun x => x.congr (fun j => (h j).symm), fun x => x.congr h⟩

/-- the executable ancestor test finds every ancestor when parents have smaller indices -/
theorem isAncestor_of_anc {hs : List HInfo} (hlt : ∀ (i : Nat) (x : HInfo) (p : Nat), hs[i]? = some x → x.parent = some p → p < i)
    {a i : Nat} (h : Anc hs a i) : ∀ f, i < f → isAncestor hs a f i = true := by
  induction h with
  | @parent i x hx hp =>
    intro f hf
    cases f with
    | zero => omega
    | succ f => simp [isAncestor, hx, hp]
  | @step p i x hx hp _ ih =>
    intro f hf
    cases f with
    | zero => omega
    | succ f =>
      have hpi := hlt i x p hx hp
      simp only [isAncestor, hx, hp]
      rw [ih f (by omega)]
      simp

def Live (s : St) (i : Nat) (x : HInfo) : Prop := s.hs[i]? = some x ∧ x.live = true

theorem handle?_live {s : St} {h : Nat} {x : HInfo} (hh : s.handle? h = some x) : Live s h x := by
  unfold St.handle? at hh
  cases hx : s.hs[h]? with
  | none => rw [hx] at hh; simp at hh
  | some y =>
    rw [hx] at hh
    simp only at hh
    split at hh
    · rename_i hl; cases hh; exact ⟨hx, hl⟩
    · cases hh

/-- the guard: no live handle is a descendant of `h` -/
theorem no_live_desc {s : St} {h : Nat}
    (hlt : ∀ (i : Nat) (x : HInfo) (p : Nat), s.hs[i]? = some x → x.parent = some p → p < i)
    (hg : hasLiveDesc s h = false) : ∀ j y, Live s j y → ¬ Anc s.hs h j := by
  intro j y hl ha
  have hj : j < s.hs.length := by
    have := hl.1
    by_cases hlt' : j < s.hs.length
    · exact hlt'
    · rw [List.getElem?_eq_none (by omega)] at this; cases this
  have : hasLiveDesc s h = true := by
    unfold hasLiveDesc
    rw [List.any_eq_true]
    refine ⟨j, List.mem_range.mpr hj, ?_⟩
    simp only [hl.1, hl.2, Bool.true_and]
    exact isAncestor_of_anc hlt ha _ hj
  rw [hg] at this
  cases this

/-! ### the invariant -/

structure SInv (s : St) : Prop where
  wf : HeapWF s.hp
  roots : ∀ i x, Live s i x → ∀ r, x.t.root = some r → r < s.hp.size
  genBound : ∀ i x, Live s i x → ∀ a, ReachO s.hp x.t.root a → (s.hp.get a).gen ≤ x.t.gen
  sep : ∀ i x j y, Live s i x → Live s j y → i ≠ j → ¬ Anc s.hs i j →
    ∀ a, ReachO s.hp x.t.root a → (s.hp.get a).gen = x.t.gen → ¬ ReachO s.hp y.t.root a
  parentLt : ∀ (i : Nat) (x : HInfo) (p : Nat), s.hs[i]? = some x → x.parent = some p → p < i

theorem reach_lt {hp : Heap} (hwf : HeapWF hp) {r b : Nat} (hr : r < hp.size) (h : Reach hp r b) :
    b < hp.size := by
  induction h with
  | refl => exact hr
  | step i hk _ ih => exact ih (hwf _ hr i _ hk)

theorem reachO_lt {hp : Heap} (hwf : HeapWF hp) {root : Option Nat} (hr : ∀ r, root = some r → r < hp.size)
    {b : Nat} (h : ReachO hp root b) : b < hp.size := by
  cases root with
  | none => exact h.elim
  | some r => exact reach_lt hwf (hr r rfl) h

/-- reachability is unchanged when the cells reachable before keep their fields -/
theorem reach_iff_of_strip {hp hp' : Heap} {r : Nat}
    (h : ∀ a, Reach hp r a → (hp'.get a).strip = (hp.get a).strip) (b : Nat) :
    Reach hp' r b ↔ Reach hp r b := by
  constructor
  · intro hb
    induction hb with
    | refl => exact Reach.refl _
    | @step a c b i hk _ ih =>
      have hk' : (hp.get a).kids i = some c := by rw [← strip_kids (h a (Reach.refl a))]; exact hk
      exact Reach.step i hk' (ih (fun x hx => h x (Reach.step i hk' hx)))
  · intro hb
    exact hb.mono (fun x hx => strip_kids (h x hx))

theorem reachO_iff_of_strip {hp hp' : Heap} {root : Option Nat}
    (h : ∀ a, ReachO hp root a → (hp'.get a).strip = (hp.get a).strip) (b : Nat) :
    ReachO hp' root b ↔ ReachO hp root b := by
  cases root with
  | none => exact Iff.rfl
  | some r => exact reach_iff_of_strip h b

theorem SInv.init : SInv St.init where
  wf := by
    intro a ha
    simp [St.init, Heap.empty, Heap.size] at ha
  roots := by
    intro i x hl r hr
    obtain ⟨h1, _⟩ := hl
    cases i with
    | zero => simp [St.init] at h1; subst h1; simp at hr
    | succ i => simp [St.init] at h1
  genBound := by
    intro i x hl a ha
    obtain ⟨h1, _⟩ := hl
    cases i with
    | zero => simp [St.init] at h1; subst h1; exact ha.elim
    | succ i => simp [St.init] at h1
  sep := by
    intro i x j y hi _ _ _ a ha
    obtain ⟨h1, _⟩ := hi
    cases i with
    | zero => simp [St.init] at h1; subst h1; exact ha.elim
    | succ i => simp [St.init] at h1
  parentLt := by
    intro i x p hx hp
    cases i with
    | zero => simp [St.init] at hx; subst hx; simp at hp
    | succ i => simp [St.init] at hx

end Gossamer.C03
