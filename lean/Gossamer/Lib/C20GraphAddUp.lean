/-
C20 layer (b), proofs: the structural invariant w.r.t. a node set and a cumulative-vote function, and the
"update cumulative vote data" loop of `Insert`.
-/
import Gossamer.Lib.C20GraphEdge3
namespace Gossamer.C20

variable {t : Tree}

/-- `GInv` with the node set and the cumulative votes as parameters -/
structure GStruct (t : Tree) (N : Nat → Bool) (c : Nat → Mask) (g : Graph) : Prop where
  nodes : ∀ b, (g.entries b).isSome = N b
  number : ∀ b e, g.entries b = some e → e.number = t.num b
  anc : ∀ b e, g.entries b = some e → e.ancestors = edge t N b
  cum : ∀ b e, g.entries b = some e → e.cum = c b
  descNodup : ∀ b e, g.entries b = some e → e.descendants.Nodup
  desc : ∀ b e, g.entries b = some e → ∀ d, d ∈ e.descendants ↔ (N d = true ∧ ancNode t N d = some b)
  heads : ∀ x, x ∈ g.heads ↔ (N x = true ∧ ∀ d, N d = true → ancNode t N d ≠ some x)

theorem GInv.toStruct {ins : Ins} {g : Graph} (inv : GInv t ins g) :
    GStruct t (isNode ins) (cumOf t ins) g :=
  ⟨inv.nodes, inv.number, inv.anc, inv.cum, inv.descNodup, inv.desc, inv.heads⟩

theorem GStruct.toInv {ins : Ins} {g : Graph} (gs : GStruct t (isNode ins) (cumOf t ins) g)
    (hv : ∀ p, p ∈ ins → p.1 < t.size) : GInv t ins g :=
  ⟨gs.nodes, gs.number, gs.anc, gs.cum, gs.descNodup, gs.desc, gs.heads, hv⟩

def bumpCum (pos : Nat) (e : Entry) : Entry := { e with cum := setBit e.cum pos }

theorem addUp_entries (h : t.WF) {N : Nat → Bool} (h0 : N 0 = true) (pos : Nat) :
    ∀ (f : Nat) (g : Graph) (x : Nat), (∀ b, (g.entries b).isSome = N b) →
    (∀ b e, g.entries b = some e → e.ancestors = edge t N b) → x < f → N x = true →
    (Graph.addUp pos f g x).heads = g.heads ∧
    ∀ b, (Graph.addUp pos f g x).entries b =
      if N b = true ∧ b ∈ t.chain x then (g.entries b).map (bumpCum pos) else g.entries b := by
  intro f
  induction f with
  | zero => intro g x _ _ hlt; omega
  | succ f ih =>
    intro g x hnodes hanc hlt hx
    obtain ⟨e, he⟩ : ∃ e, g.entries x = some e := by
      have := hnodes x; rw [hx] at this; exact Option.isSome_iff_exists.1 this
    have hea := hanc x e he
    simp only [Graph.addUp, he]
    cases han : e.ancestorNode with
    | none =>
      have hx0 : x = 0 := by
        rcases Nat.eq_zero_or_pos x with hz | hz
        · exact hz
        · obtain ⟨a, ha, _⟩ := ancNode_some h h0 hz
          unfold Entry.ancestorNode at han; unfold ancNode at ha
          rw [hea, ha] at han; cases han
      subst hx0
      refine ⟨rfl, ?_⟩
      intro b
      simp only [Graph.set, Tree.chain_zero, List.mem_singleton]
      by_cases hb : b = 0
      · subst hb; simp [h0, he, bumpCum]
      · simp [hb]
    | some a =>
      have haN : ancNode t N x = some a := by
        unfold Entry.ancestorNode at han; unfold ancNode; rw [← hea]; exact han
      have hpos : 0 < x := by
        rcases Nat.eq_zero_or_pos x with hz | hz
        · subst hz; simp [ancNode, edge_zero] at haN
        · exact hz
      obtain ⟨a', ha', haN', hae⟩ := ancNode_some h h0 hpos
      have : a' = a := by rw [haN] at ha'; exact (Option.some.inj ha').symm
      subst this
      have hac : a' ∈ t.chain x := edge_mem_chain h hae
      have halt : a' < x := by
        have := Tree.mem_chain_le h _ _ hac
        have := edge_ne_self h hae
        omega
      have hset_nodes : ∀ b, ((g.set x { e with cum := setBit e.cum pos }).entries b).isSome = N b := by
        intro b
        simp only [Graph.set]
        by_cases hb : b = x
        · subst hb; simp [hx]
        · simp [hb, hnodes b]
      have hset_anc : ∀ b e', (g.set x { e with cum := setBit e.cum pos }).entries b = some e' →
          e'.ancestors = edge t N b := by
        intro b e' hb'
        simp only [Graph.set] at hb'
        by_cases hb : b = x
        · subst hb
          simp only [if_true] at hb'
          have : e' = { e with cum := setBit e.cum pos } := (Option.some.inj hb').symm
          rw [this]; exact hea
        · simp only [hb, if_false] at hb'
          exact hanc b e' hb'
      obtain ⟨i1, i2⟩ := ih (g.set x { e with cum := setBit e.cum pos }) a' hset_nodes hset_anc (by omega) haN'
      refine ⟨i1, ?_⟩
      intro b
      rw [i2 b]
      by_cases hb : b = x
      · subst hb
        have hnot : ¬ (N b = true ∧ b ∈ t.chain a') := by
          rintro ⟨_, hm⟩
          have := Tree.mem_chain_le h _ _ hm
          omega
        rw [if_neg hnot]
        simp [Graph.set, hx, t.mem_chain_self b, he, bumpCum]
      · have hiff : (N b = true ∧ b ∈ t.chain a') ↔ (N b = true ∧ b ∈ t.chain x) := by
          constructor
          · rintro ⟨h1, h2⟩; exact ⟨h1, Tree.le_trans h h2 hac⟩
          · rintro ⟨h1, h2⟩; exact ⟨h1, node_above h h0 haN h2 h1 hb⟩
        simp only [Graph.set, hb, if_false]
        by_cases hc : N b = true ∧ b ∈ t.chain x
        · simp [hc, hiff.2 hc]
        · have : ¬ (N b = true ∧ b ∈ t.chain a') := fun hh => hc (hiff.1 hh)
          simp [hc, this]

/-- the loop of `Insert` that adds the vote to the target's vote-node and all vote-nodes above it performs the
uncompressed `insert` on the cumulative votes -/
theorem addUp_struct (h : t.WF) {N : Nat → Bool} {c : Nat → Mask} {g : Graph} (h0 : N 0 = true)
    (gs : GStruct t N c g) (hash pos f : Nat) (hN : N hash = true) (hf : hash < f) :
    GStruct t N (insert t c hash pos) (Graph.addUp pos f g hash) := by
  obtain ⟨hh, hent⟩ := addUp_entries h h0 pos f g hash gs.nodes gs.anc hf hN
  -- every entry of the result is an old entry, possibly with the bit set
  have hold : ∀ b e', (Graph.addUp pos f g hash).entries b = some e' →
      ∃ e, g.entries b = some e ∧ e'.number = e.number ∧ e'.ancestors = e.ancestors ∧
        e'.descendants = e.descendants ∧ e'.cum = insert t c hash pos b := by
    intro b e' hb
    rw [hent b] at hb
    by_cases hc : N b = true ∧ b ∈ t.chain hash
    · simp only [hc, and_self, if_true] at hb
      cases hg : g.entries b with
      | none => rw [hg] at hb; cases hb
      | some e =>
        rw [hg] at hb
        have : e' = bumpCum pos e := (Option.some.inj hb).symm
        subst this
        refine ⟨e, rfl, rfl, rfl, rfl, ?_⟩
        simp [bumpCum, insert, hc.2, gs.cum b e hg]
    · simp only [hc, if_false] at hb
      refine ⟨e', hb, rfl, rfl, rfl, ?_⟩
      have hNb : N b = true := by have := gs.nodes b; rw [hb] at this; exact this.symm
      have hnc : b ∉ t.chain hash := fun hm => hc ⟨hNb, hm⟩
      simp [insert, hnc, gs.cum b e' hb]
  refine ⟨?_, ?_, ?_, ?_, ?_, ?_, ?_⟩
  · intro b
    rw [hent b]
    by_cases hc : N b = true ∧ b ∈ t.chain hash
    · simp only [hc, and_self, if_true, Option.isSome_map]; rw [gs.nodes b]; exact hc.1
    · simp only [hc, if_false]; exact gs.nodes b
  · intro b e' hb
    obtain ⟨e, he, h1, _, _, _⟩ := hold b e' hb
    rw [h1]; exact gs.number b e he
  · intro b e' hb
    obtain ⟨e, he, _, h2, _, _⟩ := hold b e' hb
    rw [h2]; exact gs.anc b e he
  · intro b e' hb
    obtain ⟨_, _, _, _, _, h4⟩ := hold b e' hb
    exact h4
  · intro b e' hb
    obtain ⟨e, he, _, _, h3, _⟩ := hold b e' hb
    rw [h3]; exact gs.descNodup b e he
  · intro b e' hb
    obtain ⟨e, he, _, _, h3, _⟩ := hold b e' hb
    rw [h3]; exact gs.desc b e he
  · intro x; rw [hh]; exact gs.heads x

end Gossamer.C20
