/-
`pruneF` and sub-trees.
-/
import Gossamer.Lib.BlockTreeOps

namespace Gossamer.BlockTree

theorem pruneF_sublist (fin : Node) : ∀ f, (pruneF fin f).Sublist (descF f) := by
  intro f
  induction f using forest_ind with
  | nil => simp [pruneF, descF]
  | cons i cs rest ih1 ih2 =>
    simp only [pruneF, descF]
    split
    · simp only [List.nil_append]
      exact (ih2.trans (List.sublist_append_right _ _)).trans (List.sublist_cons_self _ _)
    · split
      · simp only [List.nil_append]
        exact (List.Sublist.append ih1 ih2).trans (List.sublist_cons_self _ _)
      · simp only [List.cons_append, List.nil_append]
        exact (List.Sublist.append ih1 ih2).cons₂ _

/-- `fin` is closed in `f`: a node of `f` whose hash occurs in `fin` has its whole subtree in `fin` -/
def ClosedIn (fin : Node) (f : Forest) : Prop :=
  ∀ na ∈ subsF f, na.info.hash ∈ descF [fin] → ∀ x ∈ descF [na], x ∈ descF [fin]

theorem closedIn_of_subs {f : Forest} (hd : (descF f).Nodup) {fin : Node} (hf : fin ∈ subsF f) :
    ClosedIn fin f := by
  intro na hna hh x hx
  obtain ⟨m, hm, hmh⟩ := mem_descF_iff_subs.1 hh
  have hm' : m ∈ subsF f := subs_trans f fin m hf hm
  have : m = na := subs_unique f hd m na hm' hna hmh
  subst this
  exact subs_desc_subset hm hx

theorem mem_pruneF {fin : Node} {x : Hash} : ∀ f, (descF f).Nodup → ClosedIn fin f →
    (x ∈ pruneF fin f ↔ x ∈ descF f ∧ x ∉ descF [fin] ∧
      ¬ ∃ nx, findF x f = some nx ∧ fin.info.hash ∈ descF [nx]) := by
  intro f
  induction f using forest_ind with
  | nil => simp [pruneF, descF]
  | cons i cs rest ih1 ih2 =>
    intro hd hc
    have hcc : ClosedIn fin cs := fun na hna => hc na (by simp only [subsF, List.mem_cons, List.mem_append]; grind)
    have hcr : ClosedIn fin rest := fun na hna => hc na (by simp only [subsF, List.mem_cons, List.mem_append]; grind)
    have hself := hc (.mk i cs) (by simp [subsF])
    simp only [descF, List.nodup_cons, List.mem_append, List.nodup_append] at hd
    obtain ⟨hi, hcs, hrest, hdis⟩ := hd
    have i1 := ih1 hcs hcc
    have i2 := ih2 hrest hcr
    have fc : x ∈ descF cs → findF x (.mk i cs :: rest) = findF x cs := by
      intro hx
      have : i.hash ≠ x := by grind
      simp only [findF, this, if_false]
      have := (findF_isSome (h := x) cs).2 hx
      cases h : findF x cs <;> simp_all
    have fr : x ∈ descF rest → findF x (.mk i cs :: rest) = findF x rest := by
      intro hx
      have : i.hash ≠ x := by grind
      have h2 : findF x cs = none := (findF_none cs).2 (by grind)
      simp only [findF, this, if_false, h2]
    have fi : x = i.hash → findF x (.mk i cs :: rest) = some (.mk i cs) := by
      intro hx; simp [findF, hx]
    simp only [descF, List.append_nil, List.mem_cons, Node.info_mk] at hself
    have rhs : (x ∈ descF (.mk i cs :: rest)) ↔ (x = i.hash ∨ x ∈ descF cs ∨ x ∈ descF rest) := by
      simp [descF]
    rw [rhs]
    simp only [pruneF, Node.info_mk]
    cases hinb : occF i.hash [fin]
    · have hin : i.hash ∉ descF [fin] := by rw [← occF_iff]; simp [hinb]
      cases hfib : occF fin.info.hash [.mk i cs]
      · have hfi : fin.info.hash ∉ descF [.mk i cs] := by rw [← occF_iff]; simp [hfib]
        simp only [Bool.false_eq_true, if_false, List.mem_append, List.mem_singleton, i1, i2, List.mem_cons,
          List.not_mem_nil, or_false]
        constructor
        · rintro ((h0 | ⟨h1, h2, h3⟩) | ⟨h1, h2, h3⟩)
          · refine ⟨Or.inl h0, h0 ▸ hin, ?_⟩
            rw [fi h0]; rintro ⟨nx, hnx, hh⟩; cases hnx; exact hfi hh
          · exact ⟨Or.inr (Or.inl h1), h2, by rw [fc h1]; exact h3⟩
          · exact ⟨Or.inr (Or.inr h1), h2, by rw [fr h1]; exact h3⟩
        · rintro ⟨h1, h2, h3⟩
          rcases h1 with h1 | h1 | h1
          · exact Or.inl (Or.inl h1)
          · exact Or.inl (Or.inr ⟨h1, h2, by rw [← fc h1]; exact h3⟩)
          · exact Or.inr ⟨h1, h2, by rw [← fr h1]; exact h3⟩
      · have hfi : fin.info.hash ∈ descF [.mk i cs] := by rw [← occF_iff]; exact hfib
        simp only [Bool.false_eq_true, if_false, if_true, List.mem_append, i1, i2, List.nil_append]
        constructor
        · rintro (⟨h1, h2, h3⟩ | ⟨h1, h2, h3⟩)
          · exact ⟨Or.inr (Or.inl h1), h2, by rw [fc h1]; exact h3⟩
          · exact ⟨Or.inr (Or.inr h1), h2, by rw [fr h1]; exact h3⟩
        · rintro ⟨h1, h2, h3⟩
          rcases h1 with h1 | h1 | h1
          · exact absurd ⟨_, fi h1, hfi⟩ h3
          · exact Or.inl ⟨h1, h2, by rw [← fc h1]; exact h3⟩
          · exact Or.inr ⟨h1, h2, by rw [← fr h1]; exact h3⟩
    · have hin : i.hash ∈ descF [fin] := by rw [← occF_iff]; exact hinb
      simp only [if_true, List.nil_append, i2]
      constructor
      · rintro ⟨h1, h2, h3⟩
        exact ⟨Or.inr (Or.inr h1), h2, by rw [fr h1]; exact h3⟩
      · rintro ⟨h1, h2, h3⟩
        rcases h1 with h1 | h1 | h1
        · exact absurd (h1 ▸ hin) h2
        · exact absurd (hself hin x (Or.inr h1)) h2
        · exact ⟨h1, h2, by rw [← fr h1]; exact h3⟩

theorem numOK_subs : ∀ f pn n, numOKF pn f → n ∈ subsF f → numOKF n.info.number n.children := by
  intro f
  induction f using forest_ind with
  | nil => simp [subsF]
  | cons i cs rest ih1 ih2 =>
    intro pn n hn hm
    simp only [numOKF] at hn
    simp only [subsF, List.mem_cons, List.mem_append] at hm
    rcases hm with rfl | hm | hm
    · exact hn.2.1
    · exact ih1 _ n hn.2.1 hm
    · exact ih2 _ n hn.2.2 hm

/-- the flat view of a subtree is part of the flat view of the forest -/
theorem blocks_subs : ∀ f p n, n ∈ subsF f → ∀ b ∈ blocksF n.info.hash n.children, b ∈ blocksF p f := by
  intro f
  induction f using forest_ind with
  | nil => simp [subsF]
  | cons i cs rest ih1 ih2 =>
    intro p n hm b hb
    simp only [subsF, List.mem_cons, List.mem_append] at hm
    simp only [blocksF, List.mem_cons, List.mem_append]
    rcases hm with rfl | hm | hm
    · exact Or.inr (Or.inl hb)
    · exact Or.inr (Or.inl (ih1 _ n hm b hb))
    · exact Or.inr (Or.inr (ih2 _ n hm b hb))

/-- … and consists of exactly the blocks whose hash lies strictly below the node -/
theorem mem_blocks_subs {f : Forest} {p : Hash} (hd : (descF f).Nodup) {n : Node} (hn : n ∈ subsF f)
    {b : Block} : b ∈ blocksF n.info.hash n.children ↔ b ∈ blocksF p f ∧ b.hash ∈ descF n.children := by
  constructor
  · intro hb
    refine ⟨blocks_subs f p n hn b hb, ?_⟩
    rw [← blocksF_map_hash n.children n.info.hash]
    exact List.mem_map.2 ⟨b, hb, rfl⟩
  · rintro ⟨hb, hh⟩
    rw [← blocksF_map_hash n.children n.info.hash] at hh
    obtain ⟨b', hb', he⟩ := List.mem_map.1 hh
    have hb'' := blocks_subs f p n hn b' hb'
    have hnd : ((blocksF p f).map (·.hash)).Nodup := by rw [blocksF_map_hash]; exact hd
    have h1 := lookup_of_mem hnd hb
    have h2 := lookup_of_mem hnd hb''
    rw [he] at h2
    rw [h1] at h2
    cases h2
    exact hb'

/-- storing nodes with fresh, distinct hashes into the leaf map keeps them all -/
theorem foldl_store : ∀ (l acc : List Info), ((acc ++ l).map (·.hash)).Nodup →
    l.foldl (fun m x => leafStore x m) acc = acc ++ l := by
  intro l
  induction l with
  | nil => simp
  | cons x xs ih =>
    intro acc hd
    simp only [List.foldl_cons]
    have hx : acc.any (fun y => decide (y.hash = x.hash)) = false := by
      simp only [List.map_append, List.map_cons, List.nodup_append, List.nodup_cons, List.mem_map,
        List.mem_cons] at hd
      rw [List.any_eq_false]
      intro y hy
      have := hd.2.2 y.hash ⟨y, hy, rfl⟩ x.hash (Or.inl rfl)
      simpa using this
    have hs : leafStore x acc = acc ++ [x] := by simp [leafStore, hx]
    rw [hs, ih (acc ++ [x]) (by simpa using hd)]
    simp

end Gossamer.BlockTree
