/-
C08: ClearPrefixLimit inside a transaction equals the specification's limited removal, outside the
region of the finding `alldeleted-counts-nonmatching` (every key written in the transaction that is
not in the committed trie has the prefix) and away from the child-root keys.
-/
import Gossamer.Lib.C08Limit
set_option linter.unusedSectionVars false
set_option linter.unusedSimpArgs false
namespace Gossamer.C08
open Gossamer

theorem sorted_takeWhile {l : List Bytes} (h : KSet.Sorted l) (q : Bytes → Bool) :
    KSet.Sorted (l.takeWhile q) := by
  induction l with
  | nil => trivial
  | cons e r ih =>
    simp only [List.takeWhile_cons]
    split
    · exact ⟨fun x hx => h.1 x ((List.takeWhile_sublist _).subset hx), ih h.2⟩
    · trivial

theorem sorted_keysWithPrefixOn (es : Entries) (hs : OMap.Sorted es) (p : Bytes) :
    KSet.Sorted (keysWithPrefixOn (fun k => OMap.get k es) (Logical.keysAfterE es) p) := by
  unfold keysWithPrefixOn
  have hsA : KSet.Sorted (Logical.keysAfterE es p) := by
    unfold Logical.keysAfterE
    exact omap_sorted_keys (OMap.sorted_filter _ hs)
  have hgt : ∀ y ∈ Logical.keysAfterE es p, klt p y = true := by
    intro y hy
    unfold Logical.keysAfterE at hy
    obtain ⟨e, he, rfl⟩ := List.mem_map.mp hy
    exact (List.mem_filter.mp he).2
  have hT := sorted_takeWhile hsA (fun k => p.isPrefixOf k)
  split
  · refine ⟨?_, hT⟩
    intro x hx
    exact hgt x ((List.takeWhile_sublist _).subset hx)
  · simpa using hT

theorem sorted_filterK {l : List Bytes} (h : KSet.Sorted l) (q : Bytes → Bool) :
    KSet.Sorted (l.filter q) := by
  induction l with
  | nil => trivial
  | cons e r ih =>
    simp only [List.filter_cons]
    split
    · exact ⟨fun x hx => h.1 x (List.mem_filter.mp hx).1, ih h.2⟩
    · exact ih h.2

/-- the candidate list of `storageDiff.clearPrefix` is strictly ascending -/
theorem sorted_candidates {ups : KMap Bytes} (hu : KMap.Sorted ups) {ks : List Bytes}
    (hk : KSet.Sorted ks) :
    KSet.Sorted (sortKeys (((KMap.keys ups).filter (fun k => !ks.contains k)) ++ ks)) := by
  apply sorted_sortKeys
  rw [List.nodup_append]
  refine ⟨nodup_of_sorted (sorted_filterK (sorted_keys hu) _), nodup_of_sorted hk, ?_⟩
  intro a ha c hc hac
  subst hac
  have := (List.mem_filter.mp ha).2
  simp at this
  exact this hc

section clrl
variable (Hc Hm : Entries → Bytes) {CK : Bytes → Bool} {b : Logical} {d : Diff}

/-- `ClearPrefixLimit` inside a transaction -/
theorem eff_clearPrefixLimit (hb : BaseInv CK b) (hd : DiffInv CK d) (p : Bytes) (n : Nat)
    (hp : overlapsRegion p = false)
    (hK2 : ∀ k ∈ KMap.keys d.c.upserts,
      k ∉ keysWithPrefixOn ((idealBackend Hc Hm).get b) ((idealBackend Hc Hm).keysAfter b) p →
        p.isPrefixOf k = true) :
    let ks := keysWithPrefixOn ((idealBackend Hc Hm).get b) ((idealBackend Hc Hm).keysAfter b) p
    let x := d.clearPrefix p ks (some n)
    let r := specLimit (effL b d).main b.main (fun k => p.isPrefixOf k) (some n)
    effL b x.1 = { effL b d with main := r.1 } ∧ DiffInv CK x.1 ∧ x.2.1 = r.2.1 ∧ x.2.2 = r.2.2 := by
  intro ks x r
  have hw := effL_wf (d := d) hb.wf
  have hks : ∀ y, y ∈ ks ↔ (OMap.get y (Logical.view Hc b) ≠ none ∧ p.isPrefixOf y = true) :=
    fun y => mem_keysWithPrefixOn (Logical.view Hc b) (view_sorted Hc hb.wf.main) p y
  have hksS : KSet.Sorted ks := sorted_keysWithPrefixOn (Logical.view Hc b) (view_sorted Hc hb.wf.main) p
  have hnc : ∀ y, p.isPrefixOf y = true → Logical.isChildKey y = false := by
    intro y hy
    cases hc : Logical.isChildKey y with
    | false => rfl
    | true => rw [no_child_with_prefix hp y hc] at hy; cases hy
  -- the two candidate lists
  let nk := (KMap.keys d.c.upserts).filter (fun k => !ks.contains k)
  let G := sortKeys (nk ++ ks)
  have hG : ∀ y, y ∈ G ↔ (y ∈ KMap.keys d.c.upserts ∨ y ∈ ks) := by
    intro y
    simp only [G, nk, mem_sortKeys, List.mem_append, List.mem_filter, List.contains_eq_mem,
      Bool.not_eq_true', decide_eq_false_iff_not]
    constructor
    · rintro (⟨h, _⟩ | h)
      · exact Or.inl h
      · exact Or.inr h
    · rintro (h | h)
      · by_cases hy : y ∈ ks
        · exact Or.inr hy
        · exact Or.inl ⟨h, hy⟩
      · exact Or.inr h
  have hGp : ∀ y ∈ G, p.isPrefixOf y = true := by
    intro y hy
    rcases (hG y).mp hy with h | h
    · by_cases hyk : y ∈ ks
      · exact ((hks y).mp hyk).2
      · exact hK2 y h hyk
    · exact ((hks y).mp h).2
  have hGS : unionKeys (((effL b d).main.map (·.1)).filter (fun k => p.isPrefixOf k))
      ((b.main.map (·.1)).filter (fun k => p.isPrefixOf k)) = G := by
    apply kset_ext (sorted_unionKeys _ _) (sorted_candidates hd.sorted.c.ups hksS)
    intro y
    rw [mem_unionKeys, hG]
    simp only [List.mem_filter, omap_mem_keys]
    constructor
    · rintro (⟨h1, h2⟩ | ⟨h1, h2⟩)
      · rw [eff_main hb hd] at h1
        by_cases hdl : y ∈ d.c.deletes
        · simp [hdl] at h1
        · simp only [hdl, if_false] at h1
          cases hf : KMap.find y d.c.upserts with
          | some v => exact Or.inl ((mem_keys_iff _ _).mpr (by rw [hf]; simp))
          | none =>
            rw [hf] at h1
            simp only [ov_none] at h1
            exact Or.inr ((hks y).mpr ⟨by rw [view_get Hc b y (hnc y h2)]; exact h1, h2⟩)
      · exact Or.inr ((hks y).mpr ⟨by rw [view_get Hc b y (hnc y h2)]; exact h1, h2⟩)
    · rintro (h | h)
      · have hpy : p.isPrefixOf y = true := hGp y ((hG y).mpr (Or.inl h))
        left
        refine ⟨?_, hpy⟩
        rw [eff_main hb hd]
        have hf := (mem_keys_iff _ _).mp h
        have hdl : y ∉ d.c.deletes := fun hm => hf (hd.upsDel y hm)
        simp only [hdl, if_false]
        cases hfv : KMap.find y d.c.upserts with
        | none => exact absurd hfv hf
        | some v => simp
      · obtain ⟨h1, h2⟩ := (hks y).mp h
        right
        rw [view_get Hc b y (hnc y h2)] at h1
        exact ⟨h1, h2⟩
  -- both loops take the same initial segment
  let isOld : Bytes → Bool := fun k => ks.contains k
  have hnew : ∀ k ∈ G, nk.contains k = !isOld k := by
    intro k hk
    simp only [nk, isOld, List.contains_eq_mem, List.mem_filter, Bool.not_eq_true',
      decide_eq_false_iff_not]
    by_cases hkk : k ∈ ks
    · simp [hkk]
    · have : k ∈ KMap.keys d.c.upserts := by
        rcases (hG k).mp hk with h | h
        · exact h
        · exact absurd h hkk
      simp [hkk, this]
  have hold : ∀ k ∈ G, (OMap.get k b.main).isSome = isOld k := by
    intro k hk
    have hpk := hGp k hk
    simp only [isOld, List.contains_eq_mem]
    by_cases hkk : k ∈ ks
    · have := ((hks k).mp hkk).1
      rw [view_get Hc b k (hnc k hpk)] at this
      cases hg : OMap.get k b.main with
      | none => exact absurd hg this
      | some v => simp [hkk]
    · cases hg : OMap.get k b.main with
      | none => simp [hkk]
      | some v =>
        exfalso; apply hkk; rw [hks]
        exact ⟨by rw [view_get Hc b k (hnc k hpk), hg]; simp, hpk⟩
  have hm := limitLoop_take Diff.delete (fun k => p.isPrefixOf k) nk isOld G hGp hnew (some n) d 0
  have hs := specLoop_take b.main isOld G hold (some n) (effL b d).main 0
  let T := takeLim isOld G (some n)
  have hT : ∀ y ∈ T, y ∈ G := fun y hy => takeLim_subset isOld G _ y hy
  have hK : ∀ y ∈ T, Logical.isChildKey y = false ∧ CK y = false := by
    intro y hy
    have hyG := hT y hy
    have hpy := hGp y hyG
    refine ⟨hnc y hpy, ?_⟩
    cases hck : CK y with
    | false => rfl
    | true =>
      rcases (hG y).mp hyG with h | h
      · exact absurd (hd.upsCK y (Or.inl hck)) ((mem_keys_iff _ _).mp h)
      · have := ((hks y).mp h).1
        rw [view_get Hc b y (hnc y hpy), hb.mainCK y hck] at this
        exact absurd rfl this
  have hx1 : x.1 = T.foldl Diff.delete d := by
    show (clearPrefixG Diff.delete d.c.upserts d p ks (some n)).1 = _
    unfold clearPrefixG
    simp only []
    exact congrArg Prod.fst hm
  have hx2 : x.2.1 = T.length := by
    show (clearPrefixG Diff.delete d.c.upserts d p ks (some n)).2.1 = _
    unfold clearPrefixG
    simp only []
    have := congrArg Prod.snd hm
    simp only [Nat.zero_add] at this
    exact this
  have hx3 : x.2.2 = (T.length == G.length) := by
    show (clearPrefixG Diff.delete d.c.upserts d p ks (some n)).2.2 = _
    unfold clearPrefixG
    simp only []
    have := congrArg Prod.snd hm
    simp only [Nat.zero_add] at this
    rw [this]
  have hr1 : r.1 = T.foldl (fun t k => OMap.erase k t) (effL b d).main := by
    show (specLimit _ _ _ _).1 = _
    unfold specLimit
    simp only []
    rw [hGS]
    exact congrArg Prod.fst hs
  have hr2 : r.2.1 = T.length := by
    show (specLimit _ _ _ _).2.1 = _
    unfold specLimit
    simp only []
    rw [hGS]
    have := congrArg Prod.snd hs
    simpa using this
  have hr3 : r.2.2 = (T.length == G.length) := by
    show (specLimit _ _ _ _).2.2 = _
    unfold specLimit
    simp only []
    rw [hGS]
    have := congrArg Prod.snd hs
    simp only [Nat.zero_add] at this
    rw [this]
  refine ⟨?_, ?_, by rw [hx2, hr2], by rw [hx3, hr3]⟩
  · rw [hx1, hr1, foldl_erase_eq_filter T hw.main]
    exact eff_deleteAll hb hd T hK (fun y => T.contains y) (fun y hy => by simpa using hy)
      (fun y hy hn => by simp at hy; exact absurd hy hn)
  · rw [hx1]; exact inv_deleteAll hd T hK

end clrl

end Gossamer.C08
