/-
C08: child-storage writes, reads, and the step-by-step simulation between the model over the
ideal backend and the overlay specification.
-/
import Gossamer.Lib.C08Refine
set_option linter.unusedSectionVars false
set_option linter.unusedSimpArgs false
namespace Gossamer.C08
open Gossamer

section lemmas
variable {CK : Bytes → Bool} {b : Logical} {d : Diff}

theorem kid_disj (hd : DiffInv CK d) (ck : Bytes) :
    ∀ k, k ∈ (d.kid ck).deletes → KMap.find k (d.kid ck).upserts = none := by
  unfold Diff.kid
  cases hf : KMap.find ck d.kids with
  | none => intro k hk; simp [CDiff.empty] at hk
  | some c => exact hd.kidDisj ck c hf

theorem kid_sk (hd : DiffInv CK d) (ck : Bytes) :
    (d.kid ck).sortedKeys = KMap.keys (d.kid ck).upserts := by
  unfold Diff.kid
  cases hf : KMap.find ck d.kids with
  | none => rfl
  | some c => exact hd.kidSk ck c hf

theorem inv_upsertChild (hd : DiffInv CK d) (ck k v : Bytes) (hck : CK ck = true) :
    DiffInv CK (d.upsertChild ck k v) := by
  have hs : (d.upsertChild ck k v).SortedD := by
    have h1 := Diff.sorted_setKid hd.sorted ck (CDiff.sorted_upsert (Diff.sorted_kid hd.sorted ck) k v)
    exact ⟨⟨h1.c.ups, KSet.sorted_del _ h1.c.dels⟩, h1.kids, h1.kid⟩
  refine ⟨hs, hd.upsCK, ?_, ?_, ?_, ?_, hd.sk, ?_⟩
  · intro k' h'
    simp only [Diff.upsertChild] at h'
    rw [KSet.mem_del] at h'
    exact hd.upsDel k' h'.2
  · intro k' h'
    simp only [Diff.upsertChild] at h'
    rw [KSet.mem_del] at h'
    exact hd.delsNoChild k' h'.2
  · intro ck' h'
    simp only [Diff.upsertChild, KMap.find_ins]
    have : ck' ≠ ck := by rintro rfl; rw [hck] at h'; cases h'
    simp [this, hd.kidsCK ck' h']
  · intro ck' c hf k' hk'
    simp only [Diff.upsertChild, KMap.find_ins] at hf
    by_cases h : ck' = ck
    · simp only [h, if_true, Option.some.injEq] at hf
      subst hf
      simp only [CDiff.upsert] at hk' ⊢
      rw [KSet.mem_del] at hk'
      simp [KMap.find_ins, hk'.1, kid_disj hd ck k' hk'.2]
    · simp only [h, if_false] at hf
      exact hd.kidDisj ck' c hf k' hk'
  · intro ck' c hf
    simp only [Diff.upsertChild, KMap.find_ins] at hf
    by_cases h : ck' = ck
    · simp only [h, if_true, Option.some.injEq] at hf
      subst hf
      exact CDiff.sk_upsert (kid_sk hd ck) k v
    · simp only [h, if_false] at hf
      exact hd.kidSk ck' c hf

/-- a child write, on a child trie that was not deleted earlier in the same transaction -/
theorem eff_upsertChild (hb : BaseInv CK b) (hd : DiffInv CK d) (ck k v : Bytes)
    (hck : CK ck = true) (hnd : ck ∉ d.c.deletes) :
    effL b (d.upsertChild ck k v) = Logical.putIntoChild (effL b d) ck k (some v) := by
  have hd' := inv_upsertChild hd ck k v hck
  have hw := effL_wf (d := d) hb.wf
  apply Logical.ext (effL_wf hb.wf) (wf_putIntoChild hw _ _ _)
  · intro k'
    have e : (Logical.putIntoChild (effL b d) ck k (some v)).main = (effL b d).main := rfl
    rw [e, eff_main hb hd', eff_main hb hd]
    simp only [Diff.upsertChild, KSet.mem_del]
    by_cases h : k' ∈ d.c.deletes
    · have : k' ≠ ck := fun e => hnd (e ▸ h)
      simp [h, this]
    · simp [h]
  · intro ck' k'
    rw [kidOf_putIntoChild, eff_kid hb hd']
    simp only [Diff.upsertChild, KMap.find_ins, KSet.mem_del]
    by_cases h : ck' = ck
    · subst h
      simp only [if_true, Option.getD_some, OMap.get_upsert, eff_kid hb hd, CDiff.upsert,
        KSet.mem_del, KMap.find_ins, Diff.kid, hnd, ne_eq, not_true_eq_false, false_and, if_false]
      cases hf : KMap.find ck' d.kids with
      | none =>
        by_cases hk : k' = k
        · simp [hk, CDiff.empty]
        · simp [hk, CDiff.empty, KMap.find]
      | some c =>
        by_cases hk : k' = k
        · simp [hk]
        · simp [hk]
    · simp only [h, if_false]
      rw [eff_kid hb hd]
      simp [h]

theorem inv_deleteFromChild (hd : DiffInv CK d) (ck k : Bytes) (hck : CK ck = true) :
    DiffInv CK (d.deleteFromChild ck k) := by
  have hs : (d.deleteFromChild ck k).SortedD :=
    Diff.sorted_setKid hd.sorted ck (CDiff.sorted_delete (Diff.sorted_kid hd.sorted ck) k)
  refine ⟨hs, hd.upsCK, hd.upsDel, hd.delsNoChild, ?_, ?_, hd.sk, ?_⟩
  · intro ck' h'
    simp only [Diff.deleteFromChild, KMap.find_ins]
    have : ck' ≠ ck := by rintro rfl; rw [hck] at h'; cases h'
    simp [this, hd.kidsCK ck' h']
  · intro ck' c hf k' hk'
    simp only [Diff.deleteFromChild, KMap.find_ins] at hf
    by_cases h : ck' = ck
    · simp only [h, if_true, Option.some.injEq] at hf
      subst hf
      simp only [CDiff.delete] at hk' ⊢
      rw [KSet.mem_ins] at hk'
      simp only [KMap.find_del]
      rcases hk' with hk' | hk'
      · simp [hk']
      · simp [kid_disj hd ck k' hk']
    · simp only [h, if_false] at hf
      exact hd.kidDisj ck' c hf k' hk'
  · intro ck' c hf
    simp only [Diff.deleteFromChild, KMap.find_ins] at hf
    by_cases h : ck' = ck
    · simp only [h, if_true, Option.some.injEq] at hf
      subst hf
      exact CDiff.sk_delete (kid_sk hd ck) k
    · simp only [h, if_false] at hf
      exact hd.kidSk ck' c hf

theorem eff_deleteFromChild (hb : BaseInv CK b) (hd : DiffInv CK d) (ck k : Bytes)
    (hck : CK ck = true) :
    effL b (d.deleteFromChild ck k) =
      Logical.setKid (effL b d) ck (OMap.erase k (kidOf (effL b d) ck)) := by
  have hd' := inv_deleteFromChild hd ck k hck
  have hw := effL_wf (d := d) hb.wf
  apply Logical.ext (effL_wf hb.wf) (wf_setKid hw _ _ (OMap.sorted_erase _ (kidOf_sorted hw ck)))
  · intro k'
    rw [main_setKid, eff_main hb hd', eff_main hb hd]
    rfl
  · intro ck' k'
    rw [kidOf_setKid, eff_kid hb hd']
    simp only [Diff.deleteFromChild, KMap.find_ins]
    by_cases h : ck' = ck
    · subst h
      simp only [if_true, OMap.get_erase, eff_kid hb hd, CDiff.delete, KSet.mem_ins,
        KMap.find_del, Diff.kid]
      by_cases hdel : ck' ∈ d.c.deletes
      · simp [hdel]
      · simp only [hdel, if_false]
        cases hf : KMap.find ck' d.kids with
        | none =>
          by_cases hk : k' = k
          · simp [hk]
          · simp [hk, CDiff.empty, KMap.find]
        | some c =>
          by_cases hk : k' = k
          · simp [hk]
          · simp [hk]
    · simp only [h, if_false]
      rw [eff_kid hb hd]

end lemmas

/-! ### reads -/

section reads
variable (Hc Hm : Entries → Bytes)

theorem isChildKey_root (ck : Bytes) : Logical.isChildKey (childPrefix ++ ck) = true := by
  unfold Logical.isChildKey
  exact List.isPrefixOf_iff_prefix.mpr (List.prefix_append _ _)

theorem get_foldl_upsert_other (es : Entries) (m : Entries) (k : Bytes)
    (h : ∀ e ∈ es, e.1 ≠ k) :
    OMap.get k (es.foldl (fun m e => OMap.upsert e.1 e.2 m) m) = OMap.get k m := by
  induction es generalizing m with
  | nil => rfl
  | cons e r ih =>
    simp only [List.foldl_cons]
    rw [ih _ (fun x hx => h x (by simp [hx])), OMap.get_upsert]
    have : k ≠ e.1 := fun x => h e (by simp) x.symm
    simp [this]

/-- the child-root entries do not shadow ordinary main keys -/
theorem view_get (l : Logical) (k : Bytes) (hk : Logical.isChildKey k = false) :
    OMap.get k (Logical.view Hc l) = OMap.get k l.main := by
  unfold Logical.view
  apply get_foldl_upsert_other
  intro e he
  unfold Logical.rootEntries at he
  obtain ⟨x, _, rfl⟩ := List.mem_map.mp he
  intro h
  simp only at h
  rw [← h, isChildKey_root] at hk
  cases hk

variable {CK : Bytes → Bool} {b : Logical} {d : Diff}

/-- `get` of a change set followed by the fall-through to `x`, as an overlay -/
theorem cdiff_get_ov (c : CDiff) (k : Bytes) (x : Option Bytes)
    (h : k ∈ c.deletes → KMap.find k c.upserts = none) :
    (if ((c.get k).1.isSome || (c.get k).2) = true then (c.get k).1 else x) =
      if k ∈ c.deletes then none else ov (KMap.find k c.upserts) x := by
  unfold CDiff.get
  split
  · rename_i v hv
    have : k ∉ c.deletes := fun hm => by rw [h hm] at hv; cases hv
    simp [this, hv]
  · rename_i hv
    by_cases hdel : k ∈ c.deletes
    · simp [hdel, KSet.has, hv]
    · have : KSet.has k c.deletes = false := by simp [KSet.has, hdel]
      simp [this, hdel, hv]

theorem get_sim (hb : BaseInv CK b) (hd : DiffInv CK d) (r : List Diff) (k : Bytes)
    (hk : Logical.isChildKey k = false) :
    getTS (idealBackend Hc Hm) { base := b, txs := d :: r } k = OMap.get k (effL b d).main := by
  rw [eff_main hb hd]
  simp only [getTS]
  rw [cdiff_get_ov d.c k _ (hd.upsDel k)]
  simp only [idealBackend]
  rw [view_get Hc b k hk]

theorem getFromChildB_ideal (b : Logical) (ck k : Bytes) :
    getFromChildB (idealBackend Hc Hm) b ck k = .val (OMap.get k (kidOf b ck)) := by
  unfold getFromChildB kidOf
  simp only [idealBackend]
  cases KMap.find ck b.kids with
  | none => simp [OMap.get]
  | some es => simp [omapOps]

theorem cget_sim (hb : BaseInv CK b) (hd : DiffInv CK d) (r : List Diff) (ck k : Bytes) :
    getChildStorageTS (idealBackend Hc Hm) { base := b, txs := d :: r } ck k =
      .val (OMap.get k (kidOf (effL b d) ck)) := by
  rw [eff_kid hb hd]
  by_cases hdel : ck ∈ d.c.deletes
  · have : KSet.has ck d.c.deletes = true := (KSet.has_iff _ _).mpr hdel
    simp [getChildStorageTS, this, hdel]
  · have hnd : KSet.has ck d.c.deletes = false := by
      cases h : KSet.has ck d.c.deletes with
      | false => rfl
      | true => exact absurd ((KSet.has_iff _ _).mp h) hdel
    simp only [getChildStorageTS, hnd, Bool.false_eq_true, if_false, Diff.getFromChild,
      getFromChildB_ideal, hdel]
    split
    · rename_i c hf
      rw [← apply_ite Out.val, cdiff_get_ov c k _ (hd.kidDisj ck c hf k), hf]
    · rename_i hf
      simp [hf]

end reads

end Gossamer.C08
