/-
The flat specification (`Spec`, `chainAux`, `blocksF`) against the tree: the chain of parent links of the flat
view is the chain of parent pointers of the tree.
-/
import Gossamer.Lib.BlockTreeLemmas

namespace Gossamer.BlockTree

@[simp] theorem Info.block_hash (i : Info) (p : Hash) : (i.block p).hash = i.hash := rfl
@[simp] theorem Info.block_parent (i : Info) (p : Hash) : (i.block p).parent = p := rfl
@[simp] theorem Info.block_number (i : Info) (p : Hash) : (i.block p).number = i.number := rfl
@[simp] theorem Info.block_primary (i : Info) (p : Hash) : (i.block p).primary = i.primary := rfl
@[simp] theorem Info.block_arrival (i : Info) (p : Hash) : (i.block p).arrival = i.arrival := rfl
@[simp] theorem Info.block_info (i : Info) (p : Hash) : (i.block p).info = i := rfl

theorem blocksF_map_hash : ∀ f p, (blocksF p f).map (·.hash) = descF f := by
  intro f
  induction f using forest_ind with
  | nil => simp [blocksF, descF]
  | cons i cs rest ih1 ih2 => intro p; simp [blocksF, descF, ih1, ih2]

theorem blocksF_map_info : ∀ f p, (blocksF p f).map Block.info = infosF f := by
  intro f
  induction f using forest_ind with
  | nil => simp [blocksF, infosF]
  | cons i cs rest ih1 ih2 => intro p; simp [blocksF, infosF, ih1, ih2]

theorem lookup_some {bs : List Block} {h : Hash} {b : Block} (hl : lookup bs h = some b) :
    b ∈ bs ∧ b.hash = h := by
  unfold lookup at hl
  have h1 := List.mem_of_find?_eq_some hl
  have h2 := List.find?_some hl
  simp at h2
  exact ⟨h1, h2⟩

theorem lookup_none {bs : List Block} {h : Hash} : lookup bs h = none ↔ h ∉ bs.map (·.hash) := by
  unfold lookup
  simp [List.find?_eq_none]

theorem lookup_of_mem : ∀ {bs : List Block}, (bs.map (·.hash)).Nodup → ∀ {b : Block}, b ∈ bs →
    lookup bs b.hash = some b := by
  intro bs
  induction bs with
  | nil => simp
  | cons x xs ih =>
    intro hd b hb
    simp only [List.map_cons, List.nodup_cons, List.mem_map, not_exists, not_and] at hd
    simp only [List.mem_cons] at hb
    unfold lookup
    simp only [List.find?_cons]
    by_cases hx : x.hash = b.hash
    · simp only [hx, decide_true]
      rcases hb with rfl | hb
      · rfl
      · exact absurd hx.symm (hd.1 b hb)
    · simp only [hx, decide_false]
      rcases hb with rfl | hb
      · exact absurd rfl hx
      · exact ih hd.2 hb

/-- the blocks of a chain of payloads; every element hangs under the next one, the last under `p` -/
def linkUp : List Info → Hash → List Block
  | [], _ => []
  | x :: r, p => x.block (match r with | [] => p | y :: _ => y.hash) :: linkUp r p

theorem linkUp_snoc (q : List Info) (i : Info) (p : Hash) :
    linkUp (q ++ [i]) p = linkUp q i.hash ++ [i.block p] := by
  induction q with
  | nil => simp [linkUp]
  | cons x r ih =>
    cases r with
    | nil => simp [linkUp]
    | cons y r' => simp only [List.cons_append, linkUp] at ih ⊢; rw [ih]

theorem linkUp_length (q : List Info) (p : Hash) : (linkUp q p).length = q.length := by
  induction q with
  | nil => rfl
  | cons x r ih => simp [linkUp, ih]

theorem linkUp_map_info (q : List Info) (p : Hash) : (linkUp q p).map Block.info = q := by
  induction q with
  | nil => rfl
  | cons x r ih => simp [linkUp, ih]

theorem linkUp_map_parent (q : List Info) (p : Hash) :
    (linkUp q p).map (·.parent) = (q.map (·.hash)).tail ++ (if q.isEmpty then [] else [p]) := by
  induction q with
  | nil => rfl
  | cons x r ih =>
    cases r with
    | nil => simp [linkUp]
    | cons y r' => simp only [linkUp] at ih ⊢; simp [ih]

theorem chainAux_none {bs : List Block} {h : Hash} (hl : lookup bs h = none) (fuel : Nat) :
    chainAux bs fuel h = [] := by
  cases fuel <;> simp [chainAux, hl]

/-- following parent links in the flat list walks along the chain of parent pointers -/
theorem path_chain {bs : List Block} {h : Hash} : ∀ f p q,
    (∀ b ∈ blocksF p f, lookup bs b.hash = some b) → pathF h f = some q →
    ∀ fuel, q.length ≤ fuel → chainAux bs fuel h = linkUp q p ++ chainAux bs (fuel - q.length) p := by
  intro f
  induction f using forest_ind with
  | nil => simp [pathF]
  | cons i cs rest ih1 ih2 =>
    intro p q hb hq fuel hf
    simp only [blocksF, List.mem_cons, List.mem_append] at hb
    simp only [pathF] at hq
    have hhead : lookup bs i.hash = some (i.block p) := by simpa using hb (i.block p) (Or.inl rfl)
    split at hq
    · next hih =>
      cases hq
      simp only [List.length_cons, List.length_nil] at hf ⊢
      obtain ⟨fuel', rfl⟩ : ∃ k, fuel = k + 1 := ⟨fuel - 1, by omega⟩
      simp [chainAux, ← hih, hhead, linkUp]
    · split at hq
      · next q' hq' =>
        cases hq
        simp only [List.length_append, List.length_cons, List.length_nil] at hf ⊢
        have := ih1 i.hash q' (fun b hb' => hb b (Or.inr (Or.inl hb'))) hq' fuel (by omega)
        rw [this, linkUp_snoc]
        obtain ⟨k, hk⟩ : ∃ k, fuel - q'.length = k + 1 := ⟨fuel - q'.length - 1, by omega⟩
        rw [hk]
        simp only [chainAux, hhead, Info.block_parent, List.append_assoc, List.cons_append, List.nil_append]
        congr 3; omega
      · exact ih2 p q (fun b hb' => hb b (Or.inr (Or.inr hb'))) hq fuel hf

/-- `BT.up` on a node -/
def upN (t : Node) (h : Hash) : List Info := (pathF h [t]).getD []

theorem pathF_root (i : Info) (cs : Forest) (h : Hash) :
    pathF h [.mk i cs] = if i.hash = h then some [i] else (pathF h cs).map (· ++ [i]) := by
  simp only [pathF]
  split
  · rfl
  · cases pathF h cs <;> simp

/-- the flat view of a tree with unique hashes has unique hashes, and the root is not among its blocks -/
theorem spec_nodup {i : Info} {cs : Forest} (hd : (descF [.mk i cs]).Nodup) :
    ((blocksF i.hash cs).map (·.hash)).Nodup ∧ i.hash ∉ (blocksF i.hash cs).map (·.hash) := by
  rw [blocksF_map_hash]
  simp only [descF, List.append_nil, List.nodup_cons] at hd
  exact ⟨hd.2, hd.1⟩

theorem chain_eq_linkUp {i : Info} {cs : Forest} (hd : (descF [.mk i cs]).Nodup) {h : Hash} {q : List Info}
    (hq : pathF h cs = some q) : (specOfNode (.mk i cs)).chain h = linkUp q i.hash := by
  obtain ⟨hn, hr⟩ := spec_nodup hd
  unfold Spec.chain specOfNode
  simp only [Node.info_mk, Node.children_mk]
  have hlen : q.length ≤ (blocksF i.hash cs).length := by
    have := (pathF_shape cs q hq).2.1
    rw [← blocksF_map_hash cs i.hash] at this
    simpa using this
  rw [path_chain cs i.hash q (fun b hb => lookup_of_mem hn hb) hq _ hlen,
    chainAux_none (lookup_none.2 hr)]
  simp

theorem chain_root {i : Info} {cs : Forest} (hd : (descF [.mk i cs]).Nodup) :
    (specOfNode (.mk i cs)).chain i.hash = [] := by
  obtain ⟨_, hr⟩ := spec_nodup hd
  exact chainAux_none (lookup_none.2 hr) _

theorem chain_absent {t : Node} {h : Hash} (hh : h ∉ descF [t]) : (specOfNode t).chain h = [] := by
  cases t with
  | mk i cs =>
    apply chainAux_none
    apply lookup_none.2
    simp only [specOfNode, Node.info_mk, Node.children_mk, blocksF_map_hash]
    simp only [descF, List.append_nil, List.mem_cons, not_or] at hh
    exact hh.2

/-- hub: for a held block, the ancestors computed from the flat view are the hashes on the chain of parent
    pointers -/
theorem ancestors_eq_up {t : Node} (hd : (descF [t]).Nodup) {h : Hash} (hh : h ∈ descF [t]) :
    (specOfNode t).ancestors h = (upN t h).map (·.hash) := by
  cases t with
  | mk i cs =>
    unfold Spec.ancestors upN
    rw [pathF_root]
    by_cases hi : i.hash = h
    · subst hi; simp [chain_root hd]
    · simp only [hi, if_false]
      simp only [descF, List.append_nil, List.mem_cons] at hh
      have hcs : h ∈ descF cs := by rcases hh with h1 | h1; exact absurd h1.symm hi; exact h1
      cases hq : pathF h cs with
      | none => exact absurd hcs ((pathF_none cs).1 hq)
      | some q =>
        obtain ⟨⟨i', r, rfl, hi'⟩, _, _⟩ := pathF_shape cs q hq
        rw [chain_eq_linkUp hd hq, linkUp_map_parent]
        simp [hi']

end Gossamer.BlockTree
