/-
The flat specification as a state machine, and the simulation between the tree and it.
-/
import Gossamer.Lib.BlockTreeInv

namespace Gossamer.BlockTree

/-! ### equivalent flat views give the same answers -/

/-- same root, same set of blocks, unique hashes -/
structure SpecEq (s s' : Spec) : Prop where
  root : s.root = s'.root
  nodup : (s.blocks.map (·.hash)).Nodup
  nodup' : (s'.blocks.map (·.hash)).Nodup
  mem : ∀ b, b ∈ s.blocks ↔ b ∈ s'.blocks

theorem SpecEq.lookup {s s' : Spec} (e : SpecEq s s') (h : Hash) : lookup s.blocks h = lookup s'.blocks h := by
  cases hl : BlockTree.lookup s.blocks h with
  | none =>
    have := lookup_none.1 hl
    symm; apply lookup_none.2
    intro hm
    obtain ⟨b, hb, he⟩ := List.mem_map.1 hm
    exact this (List.mem_map.2 ⟨b, (e.mem b).2 hb, he⟩)
  | some b =>
    obtain ⟨hb, he⟩ := lookup_some hl
    have := lookup_of_mem e.nodup' ((e.mem b).1 hb)
    rw [he] at this; exact this.symm

theorem nodup_of_map {α β : Type} (g : α → β) : ∀ (l : List α), (l.map g).Nodup → l.Nodup := by
  intro l
  induction l with
  | nil => simp
  | cons a as ih =>
    intro h
    simp only [List.map_cons, List.nodup_cons, List.mem_map, not_exists, not_and] at h
    exact List.nodup_cons.2 ⟨fun hm => h.1 a hm rfl, ih h.2⟩

theorem SpecEq.length {s s' : Spec} (e : SpecEq s s') : s.blocks.length = s'.blocks.length := by
  have h1 : s.blocks.Nodup := nodup_of_map _ _ e.nodup
  have h2 : s'.blocks.Nodup := nodup_of_map _ _ e.nodup'
  exact ((List.perm_ext_iff_of_nodup h1 h2).2 e.mem).length_eq

theorem chainAux_congr {bs bs' : List Block} (hl : ∀ h, lookup bs h = lookup bs' h) :
    ∀ fuel h, chainAux bs fuel h = chainAux bs' fuel h := by
  intro fuel
  induction fuel with
  | zero => intro h; rfl
  | succ k ih => intro h; simp only [chainAux, hl h]; cases lookup bs' h <;> simp [ih]

theorem SpecEq.chain {s s' : Spec} (e : SpecEq s s') (h : Hash) : s.chain h = s'.chain h := by
  unfold Spec.chain
  rw [e.length]
  exact chainAux_congr e.lookup _ _

theorem SpecEq.present {s s' : Spec} (e : SpecEq s s') (h : Hash) : s.present h ↔ s'.present h := by
  unfold Spec.present
  rw [e.root]
  constructor
  · rintro (h1 | ⟨b, hb, he⟩)
    · exact Or.inl h1
    · exact Or.inr ⟨b, (e.mem b).1 hb, he⟩
  · rintro (h1 | ⟨b, hb, he⟩)
    · exact Or.inl h1
    · exact Or.inr ⟨b, (e.mem b).2 hb, he⟩

theorem SpecEq.ancestors {s s' : Spec} (e : SpecEq s s') (h : Hash) : s.ancestors h = s'.ancestors h := by
  unfold Spec.ancestors; rw [e.chain]

theorem SpecEq.isAnc {s s' : Spec} (e : SpecEq s s') (a d : Hash) : s.isAnc a d ↔ s'.isAnc a d := by
  unfold Spec.isAnc; rw [e.ancestors]

theorem SpecEq.infoOf {s s' : Spec} (e : SpecEq s s') (h : Hash) : s.infoOf h = s'.infoOf h := by
  unfold Spec.infoOf; rw [e.root, e.lookup]

theorem SpecEq.isLeaf {s s' : Spec} (e : SpecEq s s') (h : Hash) : s.isLeaf h ↔ s'.isLeaf h := by
  unfold Spec.isLeaf
  rw [e.present]
  constructor
  · rintro ⟨h1, h2⟩; exact ⟨h1, fun b hb => h2 b ((e.mem b).2 hb)⟩
  · rintro ⟨h1, h2⟩; exact ⟨h1, fun b hb => h2 b ((e.mem b).1 hb)⟩

theorem SpecEq.primaries {s s' : Spec} (e : SpecEq s s') (h : Hash) : s.primaries h = s'.primaries h := by
  unfold Spec.primaries; rw [e.chain]

theorem SpecEq.better {s s' : Spec} (e : SpecEq s s') (x y : Info) : s.better x y ↔ s'.better x y := by
  unfold Spec.better; rw [e.primaries, e.primaries]

theorem SpecEq.isBest {s s' : Spec} (e : SpecEq s s') (b : Info) : s.IsBest b ↔ s'.IsBest b := by
  unfold Spec.IsBest
  rw [e.isLeaf, e.infoOf]
  constructor
  · rintro ⟨h1, h2, h3⟩
    exact ⟨h1, h2, fun l hl hi hn => (e.better b l).1 (h3 l ((e.isLeaf _).2 hl) (by rw [e.infoOf]; exact hi) hn)⟩
  · rintro ⟨h1, h2, h3⟩
    exact ⟨h1, h2, fun l hl hi hn => (e.better b l).2 (h3 l ((e.isLeaf _).1 hl) (by rw [← e.infoOf]; exact hi) hn)⟩

/-! ### the specification as a state machine -/

/-- the block AddBlock must append, or why it must refuse -/
def Spec.addErr (s : Spec) (hd : Header) : Option AddErr :=
  match s.infoOf hd.parent with
  | none => some .parentNotFound
  | some pi =>
    if s.present hd.hash then some .blockExists
    else if pi.number + 1 ≠ hd.number then some .unexpectedNumber
    else if hd.kind.isNone then some .primary
    else none

def Spec.addStep (s : Spec) (hd : Header) (arrival : Nat) : Spec :=
  match s.addErr hd, hd.kind with
  | none, some prim => s.add ⟨hd.hash, hd.parent, hd.number, arrival, prim⟩
  | _, _ => s

def Spec.pruneStep (s : Spec) (h : Hash) : Spec :=
  if h = s.root.hash then s
  else match s.infoOf h with
    | some fi => s.prune fi
    | none => s

/-- the tree `bt` and the flat state `s` hold the same blocks with the same parent links -/
structure Sim (bt : BT) (s : Spec) : Prop where
  root : s.root = bt.root.info
  nodup : (s.blocks.map (·.hash)).Nodup
  mem : ∀ b, b ∈ s.blocks ↔ b ∈ bt.spec.blocks

theorem Sim.eq {bt : BT} {s : Spec} (hi : Inv bt) (hs : Sim bt s) : SpecEq s bt.spec := by
  refine ⟨hs.root, hs.nodup, ?_, hs.mem⟩
  cases hr : bt.root with
  | mk i cs =>
    have := hi.nodup
    rw [hr] at this
    simpa [BT.spec, specOfNode, hr] using (spec_nodup this).1

theorem sim_init (h n a : Nat) : Sim (NewBlockTreeFromRoot h n a) ⟨⟨h, n, a, false⟩, []⟩ := by
  constructor <;> simp [NewBlockTreeFromRoot, BT.spec, specOfNode, blocksF]

theorem addChild_info (t : Node) (ph : Hash) (c : Node) : (t.addChild ph c).info = t.info := by
  cases t; simp only [Node.addChild]; split <;> rfl

theorem mem_blocks_addChild {t : Node} {ph : Hash} {n : Info} (hp : ph ∈ descF [t]) (b : Block) :
    b ∈ (specOfNode (t.addChild ph (.mk n []))).blocks ↔ b ∈ (specOfNode t).blocks ∨ b = n.block ph := by
  cases t with
  | mk i cs =>
    simp only [specOfNode, Node.addChild]
    split
    · next he =>
      simp only [Node.info_mk, Node.children_mk, blocksF_append, List.mem_append, blocksF, he]
      simp
    · next he =>
      have : ph ∈ descF cs := by
        simp only [descF, List.append_nil, List.mem_cons] at hp
        rcases hp with h | h
        · exact absurd h.symm he
        · exact h
      simp only [Node.info_mk, Node.children_mk, mem_blocks_add, this, true_and, blocksF]
      simp

theorem sim_add {bt bt' : BT} {s : Spec} {hd : Header} {arr : Nat} (hi : Inv bt) (hs : Sim bt s)
    (h : bt.addBlock hd arr = .ok bt') :
    s.addErr hd = none ∧ Sim bt' (s.addStep hd arr) := by
  obtain ⟨p, prim, hp, hh, hnum, hk, rfl⟩ := addBlock_ok h
  have e := hs.eq hi
  obtain ⟨hps, hph⟩ := findF_some _ _ hp
  have hpm : hd.parent ∈ descF [bt.root] := hph ▸ mem_subs_hash_mem hps
  have hfresh : hd.hash ∉ descF [bt.root] := (findF_none _).1 hh
  have hinfo : s.infoOf hd.parent = some p.info := by
    rw [e.infoOf, BT.spec, infoOf_eq hi.nodup, hp]; rfl
  have hpres : ¬ s.present hd.hash := by
    rw [e.present, BT.spec, present_iff]; exact hfresh
  have herr : s.addErr hd = none := by
    simp [Spec.addErr, hinfo, hpres, hnum, hk]
  refine ⟨herr, ?_⟩
  simp only [Spec.addStep, herr, hk, Spec.add]
  constructor
  · simp only [addChild_info]; exact hs.root
  · simp only [List.map_append, List.map_cons, List.map_nil]
    rw [List.nodup_append]
    refine ⟨hs.nodup, by simp, ?_⟩
    intro a ha b hb hab
    simp only [List.mem_singleton] at hb
    subst hb; subst hab
    apply hpres
    obtain ⟨x, hx, he⟩ := List.mem_map.1 ha
    exact Or.inr ⟨x, hx, he⟩
  · intro b
    simp only [BT.spec, List.mem_append, List.mem_singleton]
    rw [mem_blocks_addChild hpm, hs.mem]
    rfl

theorem sim_add_err {bt : BT} {s : Spec} {hd : Header} {arr : Nat} {err : AddErr} (hi : Inv bt) (hs : Sim bt s)
    (h : bt.addBlock hd arr = .error err) : s.addErr hd = some err := by
  have e := hs.eq hi
  have hinfo : ∀ x, s.infoOf x = (findF x [bt.root]).map (·.info) := by
    intro x; rw [e.infoOf, BT.spec, infoOf_eq hi.nodup]
  have hpres : ∀ x, s.present x ↔ (findF x [bt.root]).isSome := by
    intro x; rw [e.present, BT.spec, present_iff, findF_isSome]
  unfold BT.addBlock BT.getNode at h
  unfold Spec.addErr
  rw [hinfo]
  cases hp : findF hd.parent [bt.root] with
  | none => simp only [hp] at h; cases h; rfl
  | some p =>
    simp only [hp, Option.map_some] at h ⊢
    by_cases hex : (findF hd.hash [bt.root]).isSome
    · simp only [hex, if_true] at h; cases h
      simp [(hpres _).2 hex]
    · have hnp : ¬ s.present hd.hash := fun hc => hex ((hpres _).1 hc)
      simp only [hex, Bool.false_eq_true, if_false, hnp] at h ⊢
      by_cases hnum : p.info.number + 1 = hd.number
      · have h0 : hd.number ≠ 0 := by omega
        simp only [hnum, ne_eq, not_true_eq_false, if_false, h0, not_false_eq_true, if_true] at h ⊢
        cases hk : hd.kind with
        | none => simp only [hk] at h; cases h; simp
        | some prim => simp [hk] at h
      · simp only [ne_eq, hnum, not_false_eq_true, if_true] at h ⊢
        cases h; rfl

theorem sim_prune {bt : BT} {s : Spec} (hi : Inv bt) (hs : Sim bt s) (fh : Hash) :
    Sim (bt.prune fh).1 (s.pruneStep fh) := by
  have e := hs.eq hi
  have hinfo : s.infoOf fh = (findF fh [bt.root]).map (·.info) := by
    rw [e.infoOf, BT.spec, infoOf_eq hi.nodup]
  unfold Spec.pruneStep
  rw [hs.root, hinfo]
  rcases prune_cases bt fh with ⟨hc, h⟩ | ⟨n, hne, hf, h⟩
  · rw [h]
    rcases hc with hc | hc
    · simp [hc, hs]
    · by_cases hr : fh = bt.root.info.hash <;> simp [hr, hc, hs]
  · rw [h]
    simp only [hne, if_false, hf, Option.map_some]
    have hns : n ∈ subsF [bt.root] := (findF_some _ _ hf).1
    have hnh : n.info.hash = fh := (findF_some _ _ hf).2
    constructor
    · rfl
    · exact (List.filter_sublist.map _).nodup hs.nodup
    · intro b
      simp only [Spec.prune, List.mem_filter, decide_eq_true_eq, BT.spec]
      rw [hs.mem, e.isAnc]
      cases hr : bt.root with
      | mk i cs =>
        rw [hr] at hf hne hns
        have hnd := hi.nodup
        rw [hr] at hnd
        obtain ⟨hfc, hnc⟩ := findF_below_root hne hf
        have hcsn : (descF cs).Nodup := by
          simp only [descF, List.append_nil, List.nodup_cons] at hnd; exact hnd.2
        show _ ↔ b ∈ blocksF n.info.hash n.children
        rw [mem_blocks_subs (p := i.hash) hcsn hnc, hnh]
        simp only [BT.spec, hr, specOfNode, Node.info_mk, Node.children_mk]
        have hdesc : descF [n] = fh :: descF n.children := by
          cases n with
          | mk ni ncs => simp only [Node.info_mk] at hnh; simp [descF, hnh]
        have hnnd : (descF [n]).Nodup := subs_nodup hns hnd
        constructor
        · rintro ⟨hb, hanc, hbne⟩
          refine ⟨hb, ?_⟩
          have hbm : b.hash ∈ descF [Node.mk i cs] := by
            have : b.hash ∈ (blocksF i.hash cs).map (·.hash) := List.mem_map.2 ⟨b, hb, rfl⟩
            rw [blocksF_map_hash] at this
            simp [descF, this]
          obtain ⟨na, hna, hd⟩ := (isAnc_iff hnd hbm).1 hanc
          rw [hf] at hna; cases hna
          rw [hdesc] at hd
          rcases List.mem_cons.1 hd with h1 | h1
          · exact absurd h1 hbne
          · exact h1
        · rintro ⟨hb, hbc⟩
          have hbm : b.hash ∈ descF [Node.mk i cs] :=
            subs_desc_subset hns (by rw [hdesc]; exact List.mem_cons_of_mem _ hbc)
          refine ⟨hb, (isAnc_iff hnd hbm).2 ⟨n, hf, by rw [hdesc]; exact List.mem_cons_of_mem _ hbc⟩, ?_⟩
          intro hbe
          rw [hdesc] at hnnd
          exact (List.nodup_cons.1 hnnd).1 (hbe ▸ hbc)

end Gossamer.BlockTree
