/-
C23: the set-id bookkeeping of the model (`setId`, the `auth` and `change` tables) along every history, and
the `GetSetIDByBlockNumber` loop.  Core Lean only.
-/
import Gossamer.Lib.C23Spec
namespace Gossamer.C23

theorem lookup_cons (k v : Nat) (m : List (Nat × Nat)) (i : Nat) :
    lookup ((k, v) :: m) i = if k = i then some v else lookup m i := by
  unfold lookup
  by_cases h : k = i <;> simp [List.find?, h]

/-- what a step may do to `setId` and the two tables -/
inductive CoreStep (s s' : St) : Prop where
  | same (h1 : s'.setId = s.setId) (h2 : s'.auths = s.auths) (h3 : s'.change = s.change)
  | next (tag n : Nat) (h1 : s'.setId = s.setId + 1) (h2 : s'.auths = (s.setId + 1, tag) :: s.auths)
      (h3 : s'.change = (s.setId + 1, n) :: s.change)

theorem handleDigests_core (t : Tree) : ∀ (ds : List Ann) (s s' : St), handleDigests t s ds = .ok s' →
    s'.setId = s.setId ∧ s'.auths = s.auths ∧ s'.change = s.change ∧ s'.live = s.live ∧ s'.root = s.root := by
  intro ds
  induction ds with
  | nil => intro s s' h; simp only [handleDigests, Except.ok.injEq] at h; subst h; simp
  | cons d ds ih =>
    intro s s' h
    simp only [handleDigests] at h
    split at h
    · split at h
      · exact absurd h (by simp)
      · have := ih _ _ h; simpa using this
    · split at h
      · exact absurd h (by simp)
      · have := ih _ _ h; simpa using this

theorem handleDigestsPartial_core (t : Tree) : ∀ (ds : List Ann) (s : St),
    (handleDigestsPartial t s ds).setId = s.setId ∧ (handleDigestsPartial t s ds).auths = s.auths ∧
    (handleDigestsPartial t s ds).change = s.change ∧ (handleDigestsPartial t s ds).live = s.live ∧
    (handleDigestsPartial t s ds).root = s.root := by
  intro ds
  induction ds with
  | nil => intro s; simp [handleDigestsPartial]
  | cons d ds ih =>
    intro s
    simp only [handleDigestsPartial]
    split
    · split
      · simp
      · have := ih { s with forced := ‹List Ann› }; simpa using this
    · split
      · simp
      · have := ih { s with roots := ‹List Node› }; simpa using this

theorem applyForced_core (t : Tree) (s s' : St) (b : Nat) (h : applyForced t s b = .ok s') : CoreStep s s' := by
  unfold applyForced at h
  split at h
  · exact absurd h (by simp)
  · simp only [Except.ok.injEq] at h; subst h; exact .same rfl rfl rfl
  · dsimp only at h
    split at h
    · exact absurd h (by simp)
    · exact absurd h (by simp)
    · simp only [Except.ok.injEq] at h; subst h
      exact .next _ _ rfl rfl rfl

theorem applyScheduled_core (t : Tree) (s s' : St) (b : Nat) (h : applyScheduled t s b = .ok s') : CoreStep s s' := by
  unfold applyScheduled at h
  split at h
  · exact absurd h (by simp)
  · dsimp only at h
    split at h
    · simp only [Except.ok.injEq] at h; subst h; exact .same rfl rfl rfl
    · split at h
      · exact absurd h (by simp)
      · simp only [Except.ok.injEq] at h; subst h; exact .same rfl rfl rfl
      · simp only [Except.ok.injEq] at h; subst h; exact .next _ _ rfl rfl rfl

theorem applyScheduledPartial_core (t : Tree) (s : St) (b : Nat) :
    (applyScheduledPartial t s b).setId = s.setId ∧ (applyScheduledPartial t s b).auths = s.auths ∧
    (applyScheduledPartial t s b).change = s.change := by
  unfold applyScheduledPartial
  split <;> simp

theorem step_core (t : Tree) (s : St) (op : Op) : CoreStep s (step t s op).1 := by
  cases op with
  | imp b =>
    simp only [step, importBlock]
    split
    · exact .same rfl rfl rfl
    · split
      · have := handleDigestsPartial_core t (filterDigests (t.anns.filter (·.blk = b)))
          (if inBt t s b = true then s else { s with live := s.live ++ [b] })
        refine .same ?_ ?_ ?_
        · rw [this.1]; split <;> rfl
        · rw [this.2.1]; split <;> rfl
        · rw [this.2.2.1]; split <;> rfl
      · rename_i s1 hd
        have hc := handleDigests_core t _ _ _ hd
        have e1 : s1.setId = s.setId := by rw [hc.1]; split <;> rfl
        have e2 : s1.auths = s.auths := by rw [hc.2.1]; split <;> rfl
        have e3 : s1.change = s.change := by rw [hc.2.2.1]; split <;> rfl
        split
        · exact .same e1 e2 e3
        · rename_i s2 hf
          cases applyForced_core t s1 s2 b hf with
          | same h1 h2 h3 => exact .same (by rw [h1, e1]) (by rw [h2, e2]) (by rw [h3, e3])
          | next tag n h1 h2 h3 =>
            exact .next tag n (by rw [h1, e1]) (by rw [h2, e1, e2]) (by rw [h3, e1, e3])
  | fin b =>
    simp only [step, finalise]
    split
    · exact .same rfl rfl rfl
    · rename_i s1 hs
      have hs1 : s1.setId = s.setId ∧ s1.auths = s.auths ∧ s1.change = s.change := by
        unfold setFinalised at hs
        split at hs
        · simp only [Option.some.injEq] at hs; subst hs; simp
        · exact absurd hs (by simp)
      split
      · have := applyScheduledPartial_core t s1 b
        exact .same (by rw [this.1, hs1.1]) (by rw [this.2.1, hs1.2.1]) (by rw [this.2.2, hs1.2.2])
      · rename_i s2 ha
        cases applyScheduled_core t s1 s2 b ha with
        | same h1 h2 h3 => exact .same (by rw [h1, hs1.1]) (by rw [h2, hs1.2.1]) (by rw [h3, hs1.2.2])
        | next tag n h1 h2 h3 =>
          exact .next tag n (by rw [h1, hs1.1]) (by rw [h2, hs1.1, hs1.2.1]) (by rw [h3, hs1.1, hs1.2.2])

/-- the tables hold exactly the set ids `0..setId` -/
def KeysOK (s : St) : Prop :=
  ∀ i, ((lookup s.auths i).isSome = decide (i ≤ s.setId)) ∧ ((lookup s.change i).isSome = decide (i ≤ s.setId))

theorem keysOK_init : KeysOK St.init := by
  intro i
  simp only [St.init, lookup_cons]
  by_cases h : 0 = i
  · subst h; simp
  · have : ¬ i ≤ 0 := by omega
    simp [h, this, lookup]

theorem keysOK_step (t : Tree) (s : St) (op : Op) (h : KeysOK s) : KeysOK (step t s op).1 := by
  cases step_core t s op with
  | same h1 h2 h3 => intro i; rw [h1, h2, h3]; exact h i
  | next tag n h1 h2 h3 =>
    intro i
    rw [h1, h2, h3, lookup_cons, lookup_cons]
    by_cases hi : s.setId + 1 = i
    · subst hi; simp
    · have hh := h i
      simp only [hi, if_false]
      by_cases hle : i ≤ s.setId
      · have : i ≤ s.setId + 1 := by omega
        simpa [hle, this] using hh
      · have : ¬ i ≤ s.setId + 1 := by omega
        simpa [hle, this] using hh

def run (t : Tree) (s : St) (ops : List Op) : St := ops.foldl (fun s op => (step t s op).1) s

theorem run_nil (t : Tree) (s : St) : run t s [] = s := rfl
theorem run_cons (t : Tree) (s : St) (op : Op) (ops : List Op) : run t s (op :: ops) = run t (step t s op).1 ops := rfl
theorem run_append (t : Tree) (s : St) (a b : List Op) : run t s (a ++ b) = run t (run t s a) b := by
  simp [run, List.foldl_append]

theorem keysOK_run (t : Tree) (ops : List Op) : ∀ s, KeysOK s → KeysOK (run t s ops) := by
  induction ops with
  | nil => intro s h; exact h
  | cons op ops ih => intro s h; exact ih _ (keysOK_step t s op h)

/-- entries of earlier sets are never rewritten -/
theorem step_keeps (t : Tree) (s : St) (op : Op) (h : KeysOK s) (i : Nat) (hi : i ≤ s.setId) :
    lookup (step t s op).1.auths i = lookup s.auths i ∧ lookup (step t s op).1.change i = lookup s.change i := by
  cases step_core t s op with
  | same h1 h2 h3 => rw [h2, h3]; exact ⟨rfl, rfl⟩
  | next tag n h1 h2 h3 =>
    rw [h2, h3, lookup_cons, lookup_cons]
    have : ¬ s.setId + 1 = i := by omega
    simp [this]

/-! ### `GetSetIDByBlockNumber` -/

theorem setIdAtLoop_succ (change : List (Nat × Nat)) (n fuel curr : Nat) :
    setIdAtLoop change n (fuel + 1) curr =
      match lookup change (curr + 1) with
      | none => if curr = 0 then some 0 else setIdAtLoop change n fuel (curr - 1)
      | some upper =>
        match lookup change curr with
        | none => none
        | some lower =>
          if n ≤ upper ∧ n > lower then some curr
          else if n > upper then some (curr + 1)
          else if curr = 0 then some 0
          else setIdAtLoop change n fuel (curr - 1) := rfl

theorem setIdAtLoop_eq (change : List (Nat × Nat)) (f : Nat → Nat) (K n : Nat)
    (hf : ∀ i, i ≤ K → lookup change i = some (f i)) :
    ∀ (c fuel : Nat), c + 1 ≤ K → c + 1 ≤ fuel → setIdAtLoop change n fuel c = some (topBelow f n (c + 1)) := by
  intro c
  induction c with
  | zero =>
    intro fuel hK hfuel
    obtain ⟨fuel', rfl⟩ : ∃ f', fuel = f' + 1 := ⟨fuel - 1, by omega⟩
    rw [setIdAtLoop_succ, hf 1 hK, hf 0 (by omega)]
    simp only [topBelow]
    by_cases h1 : f 1 < n
    · have h2 : ¬ (n ≤ f 1 ∧ n > f 0) := by omega
      have h3 : n > f 1 := h1
      simp [h1, h2, h3]
    · have h3 : ¬ n > f 1 := by omega
      by_cases h2 : (n ≤ f 1 ∧ n > f 0) <;> simp [h1, h2, h3]
  | succ c ih =>
    intro fuel hK hfuel
    obtain ⟨fuel', rfl⟩ : ∃ f', fuel = f' + 1 := ⟨fuel - 1, by omega⟩
    have ihc := ih fuel' (by omega) (by omega)
    rw [setIdAtLoop_succ, hf (c + 1 + 1) hK, hf (c + 1) (by omega)]
    rw [show topBelow f n (c + 1 + 1) = if f (c + 1 + 1) < n then c + 1 + 1 else topBelow f n (c + 1) from rfl]
    by_cases h1 : f (c + 1 + 1) < n
    · have h2 : ¬ (n ≤ f (c + 1 + 1) ∧ n > f (c + 1)) := by omega
      have h3 : n > f (c + 1 + 1) := h1
      simp [h1, h2, h3]
    · have h3 : ¬ n > f (c + 1 + 1) := by omega
      by_cases h2 : (n ≤ f (c + 1 + 1) ∧ n > f (c + 1))
      · have h4 : f (c + 1) < n := h2.2
        simp [h1, h2, topBelow, h4]
      · have h4 : ¬ f (c + 1) < n := by omega
        have e : topBelow f n (c + 1) = topBelow f n c := by
          simp [topBelow, h4]
        simp only [h1, h2, h3, if_false, Nat.add_one_ne_zero, Nat.add_sub_cancel]
        rw [ihc]

/-- `GetSetIDByBlockNumber` answers with the latest set that began below the block number -/
theorem setIdAt_eq (s : St) (h : KeysOK s) (n : Nat) :
    setIdAt s n = some (topBelow (fun i => (lookup s.change i).getD 0) n s.setId) := by
  have hf : ∀ i, i ≤ s.setId → lookup s.change i = some ((lookup s.change i).getD 0) := by
    intro i hi
    have := (h i).2
    simp only [hi, decide_true] at this
    cases hl : lookup s.change i with
    | none => simp [hl] at this
    | some v => simp
  have hnone : lookup s.change (s.setId + 1) = none := by
    have := (h (s.setId + 1)).2
    have hh : ¬ s.setId + 1 ≤ s.setId := by omega
    simp only [hh, decide_false] at this
    cases hl : lookup s.change (s.setId + 1) with
    | none => rfl
    | some v => simp [hl] at this
  unfold setIdAt
  rw [show s.setId + 2 = (s.setId + 1) + 1 from rfl, setIdAtLoop_succ, hnone]
  by_cases h0 : s.setId = 0
  · simp [h0, topBelow]
  · simp only [h0, if_false]
    obtain ⟨k, hk⟩ : ∃ k, s.setId = k + 1 := ⟨s.setId - 1, by omega⟩
    have := setIdAtLoop_eq s.change (fun i => (lookup s.change i).getD 0) s.setId n hf k (s.setId + 1)
      (by omega) (by omega)
    rw [hk] at this ⊢
    rw [Nat.add_sub_cancel]
    exact this

end Gossamer.C23
