/-
C08: host-level refinement.  A host function is one storage-machine step followed by an encoding of
its result, so the simulation between the `TrieState` model over the ideal trie and the
specification lifts to the host functions; and the encodings can be decoded back.
-/
import Gossamer.Lib.C08Host
import Gossamer.Lib.C08SimStep
set_option linter.unusedSectionVars false
set_option linter.unusedSimpArgs false
namespace Gossamer.C08
open Gossamer

/-- host functions covered by the lifted theorem: all but kill_v3 (its `None` on a missing child
    needs the error of `DeleteChildLimit`, which the observable of the storage step does not show)
    — `croot` is excluded through `StepOK` -/
def HOp.lifted : HOp → Bool
  | .killl3 _ _ => false
  | _ => true

theorem enc_err_irrelevant (h : HOp) (hl : h.lifted = true) (e1 e2 : Bool) (dp : Nat) (rt : Bytes)
    (o : Out) : h.enc e1 dp rt o = h.enc e2 dp rt o := by
  cases h <;> first | rfl | (simp [HOp.lifted] at hl)

section generic
variable {σ1 σ2 : Type} (M1 : Mach σ1) (M2 : Mach σ2) (R : σ1 → σ2 → Prop) (P : σ1 → Op → Prop)

/-- a simulation of the storage machines lifts to the host functions -/
theorem hostStep_sim
    (hstep : ∀ s1 s2 op, R s1 s2 → P s1 op →
      R (M1.step s1 op).1 (M2.step s2 op).1 ∧ (M1.step s1 op).2 = (M2.step s2 op).2)
    (hobs : ∀ s1 s2, R s1 s2 → M1.depth s1 = M2.depth s2 ∧ M1.root s1 = M2.root s2)
    (s1 : σ1) (s2 : σ2) (h : HOp) (hR : R s1 s2) (hl : h.lifted = true)
    (hP : ∀ op, h.op = some op → P s1 op) :
    R (hostStep M1 s1 h).1 (hostStep M2 s2 h).1 ∧ (hostStep M1 s1 h).2 = (hostStep M2 s2 h).2 := by
  unfold hostStep
  cases hop : h.op with
  | none => exact ⟨hR, rfl⟩
  | some op =>
    obtain ⟨h1, h2⟩ := hstep s1 s2 op hR (hP op hop)
    obtain ⟨h3, h4⟩ := hobs _ _ h1
    refine ⟨h1, ?_⟩
    simp only []
    rw [h2, h3, h4]
    exact enc_err_irrelevant h hl _ _ _ _ _

/-- every call of the run is lifted and its storage step satisfies `P` at the state reached -/
def HostSafe : σ1 → List HOp → Prop
  | _, [] => True
  | s, h :: r => h.lifted = true ∧ (∀ op, h.op = some op → P s op) ∧ HostSafe (hostStep M1 s h).1 r

theorem hostRun_sim
    (hstep : ∀ s1 s2 op, R s1 s2 → P s1 op →
      R (M1.step s1 op).1 (M2.step s2 op).1 ∧ (M1.step s1 op).2 = (M2.step s2 op).2)
    (hobs : ∀ s1 s2, R s1 s2 → M1.depth s1 = M2.depth s2 ∧ M1.root s1 = M2.root s2)
    (hs : List HOp) : ∀ (s1 : σ1) (s2 : σ2), R s1 s2 → HostSafe M1 P s1 hs →
      R (hostRun M1 s1 hs).1 (hostRun M2 s2 hs).1 ∧ (hostRun M1 s1 hs).2 = (hostRun M2 s2 hs).2 := by
  induction hs with
  | nil => intro s1 s2 hR _; exact ⟨hR, rfl⟩
  | cons h r ih =>
    intro s1 s2 hR hsafe
    obtain ⟨h1, h2⟩ := hostStep_sim M1 M2 R P hstep hobs s1 s2 h hR hsafe.1 hsafe.2.1
    obtain ⟨h3, h4⟩ := ih _ _ h1 hsafe.2.2
    simp only [hostRun]
    exact ⟨h3, by rw [h2, h4]⟩

end generic

/-! ### the `TrieState` model over the ideal trie against the specification -/

section ideal
variable (Hc Hm : Entries → Bytes) (D : Dumper Logical) (CK : Bytes → Bool)

theorem sim_obs {t : TS Logical} {s : SS} (h : Sim CK t s) :
    (tsMach (idealBackend Hc Hm) D Diff.sortedOrder).depth t = (specMach Hc Hm).depth s ∧
      (tsMach (idealBackend Hc Hm) D Diff.sortedOrder).root t = (specMach Hc Hm).root s := by
  constructor
  · show t.txs.length = s.stack.length
    rw [h.stack, List.length_map]
  · show Hm (Logical.view Hc t.base) = Hm (Logical.view Hc s.back)
    rw [h.back]

/-- host-level refinement: the bytes the host functions leave in guest memory (and their u32
    results) are those of the specification, for every history in the fragment -/
theorem host_refines (hs : List HOp) (t : TS Logical) (s : SS) (hsim : Sim CK t s)
    (hsafe : HostSafe (tsMach (idealBackend Hc Hm) D Diff.sortedOrder) (StepOK CK) t hs) :
    (hostRun (tsMach (idealBackend Hc Hm) D Diff.sortedOrder) t hs).2 =
      (hostRun (specMach Hc Hm) s hs).2 :=
  (hostRun_sim (tsMach (idealBackend Hc Hm) D Diff.sortedOrder) (specMach Hc Hm) (Sim CK) (StepOK CK)
    (fun _ _ op hR hP => sim_step Hc Hm D hR op hP) (fun _ _ hR => sim_obs Hc Hm D CK hR)
    hs t s hsim hsafe).2

end ideal

/-! ### the result encodings can be decoded -/

/-- what the guest does with an `Option<Vec<u8>>` result -/
def decOptVec : Bytes → Option (Option Bytes)
  | [] => none
  | b :: r =>
    if b = 0 then (if r.isEmpty then some none else none)
    else if b = 1 then
      match Scale.compactDec r with
      | some (n, rest) => if rest.length = n then some (some rest) else none
      | none => none
    else none

theorem decOptVec_optVec (v : Option Bytes) (h : ∀ b, v = some b → b.length < 256 ^ 67) :
    decOptVec (optVec v) = some v := by
  cases v with
  | none => rfl
  | some b =>
    have hb := h b rfl
    simp only [optVec, decOptVec]
    rw [Scale.compactDec_enc b.length hb b]
    simp

/-- flag byte ++ u32 LE → (count, allRemoved) -/
def decKillEnum : Bytes → Option (Nat × Bool)
  | f :: r => if r.length = 4 then some (natOfLE r, f == 0) else none
  | [] => none

theorem decKillEnum_killEnum (n : Nat) (all : Bool) (h : n < 4294967296) :
    decKillEnum (killEnum n all) = some (n, all) := by
  unfold killEnum decKillEnum
  simp only [length_leBytes, if_true]
  rw [Scale.natOfLE_leBytes_lt (by simpa [Scale.pow256_4] using h)]
  cases all <;> simp

end Gossamer.C08
