/-
C06, step 11: distinct positions of a committed trie have distinct database rows.
Needs: 32-byte digests, no collisions, and no cycles of hash references (`HashOK`); keys of even
nibble length (byte keys).
-/
import Gossamer.Lib.TrieDBPos
set_option linter.unusedSectionVars false
set_option linter.unusedSimpArgs false
namespace Gossamer.C06
open Gossamer Gossamer.Trie

/-- what the theorems need of the hash on the strings of `Dom` (the node encodings and hashed values
    that occur along a history, and the empty node `[0]`): 32-byte digests, no collision among
    them, and no cycle of hash references among them (the relation "the digest of `y` occurs inside
    `x`" is decreased by a rank `rk`) -/
structure HashOK (H : Bytes → Bytes) (Dom : Bytes → Prop) : Prop where
  len : ∀ x, (H x).length = 32
  inj : InjOn H Dom
  rank : ∃ rk : Bytes → Nat, ∀ x y, Dom x → Dom y → H y <:+: x → rk y < rk x
  zero : Dom [0]

theorem nodeOf_trans {a b : Trie} (hab : NodeOf a b) : ∀ {c : Trie}, NodeOf b c → NodeOf a c := by
  intro c
  induction c with
  | nil => intro h; exact h.elim
  | leaf pk v => intro h; simp only [NodeOf] at h; subst h; exact hab
  | branch pk v cs ih =>
    intro h
    rcases h with h | ⟨i, h⟩
    · subst h; exact hab
    · exact Or.inr ⟨i, ih i h⟩

/-! ### packed prefixes -/

theorem nibs_of_byteOf : ∀ a b : Nib, hiNib (byteOf a b) = a ∧ loNib (byteOf a b) = b := by decide

theorem byteOf_inj (a b a' b' : Nib) (h : byteOf a b = byteOf a' b') : a = a' ∧ b = b' := by
  have h1 := nibs_of_byteOf a b
  have h2 := nibs_of_byteOf a' b'
  rw [h] at h1
  exact ⟨h1.1.symm.trans h2.1, h1.2.symm.trans h2.2⟩

theorem prefixBytes_eq_nil : ∀ p : Nibs, prefixBytes p = [] → p = []
  | [], _ => rfl
  | [a], h => by simp [prefixBytes] at h
  | a :: b :: r, h => by simp [prefixBytes] at h

/-- two paths with the same packed prefix are equal, or the longer one is the odd-length shorter
    one followed by a zero nibble (the padding) -/
theorem prefixBytes_eq : ∀ p q : Nibs, prefixBytes p = prefixBytes q →
    p = q ∨ (q.length % 2 = 1 ∧ p = q ++ [0]) ∨ (p.length % 2 = 1 ∧ q = p ++ [0])
  | [], q, h => Or.inl (prefixBytes_eq_nil q h.symm).symm
  | [a], [], h => by simp [prefixBytes] at h
  | [a], [a'], h => by
    simp only [prefixBytes, List.cons.injEq, and_true] at h
    exact Or.inl (by rw [(byteOf_inj _ _ _ _ h).1])
  | [a], a' :: b' :: r', h => by
    simp only [prefixBytes, List.cons.injEq] at h
    obtain ⟨h1, h2⟩ := h
    obtain ⟨ha, hb⟩ := byteOf_inj _ _ _ _ h1
    have := prefixBytes_eq_nil r' h2.symm
    subst this ha
    right; right
    exact ⟨rfl, by rw [← hb]; rfl⟩
  | a :: b :: r, [], h => by simp [prefixBytes] at h
  | a :: b :: r, [a'], h => by
    simp only [prefixBytes, List.cons.injEq] at h
    obtain ⟨h1, h2⟩ := h
    obtain ⟨ha, hb⟩ := byteOf_inj _ _ _ _ h1
    have := prefixBytes_eq_nil r h2
    subst this ha
    right; left
    exact ⟨rfl, by rw [hb]; rfl⟩
  | a :: b :: r, a' :: b' :: r', h => by
    simp only [prefixBytes, List.cons.injEq] at h
    obtain ⟨h1, h2⟩ := h
    obtain ⟨ha, hb⟩ := byteOf_inj _ _ _ _ h1
    subst ha hb
    rcases prefixBytes_eq r r' h2 with h | ⟨h, h'⟩ | ⟨h, h'⟩
    · exact Or.inl (by rw [h])
    · right; left; exact ⟨by simp at h ⊢; omega, by rw [h']; rfl⟩
    · right; right; exact ⟨by simp at h ⊢; omega, by rw [h']; rfl⟩

/-! ### hash references inside encodings -/

theorem infix_flatMap {α : Type} (l : List α) (f : α → Bytes) (a : α) (h : a ∈ l) :
    f a <:+: l.flatMap f := by
  induction l with
  | nil => simp at h
  | cons x r ih =>
    rw [List.flatMap_cons]
    rcases List.mem_cons.mp h with rfl | h
    · exact ⟨[], r.flatMap f, by simp⟩
    · obtain ⟨s, t, hst⟩ := ih h
      exact ⟨f x ++ s, t, by rw [← hst]; simp⟩

theorem infix_mid (a x b : Bytes) : x <:+: a ++ x ++ b := ⟨a, b, rfl⟩

theorem value_infix_leaf (ver : Ver) (H : Bytes → Bytes) (pk : Nibs) (v : Bytes)
    (hm : mustBeHashed ver v = true) : H v <:+: encodeNode ver H (leaf pk v) := by
  simp only [encodeNode, encodeValue, hm, if_true]
  exact ⟨header 0x20 0x1f pk.length ++ packNibs pk, [], by simp⟩

theorem value_infix_branch (ver : Ver) (H : Bytes → Bytes) (pk : Nibs) (v : Bytes) (cs : Nib → Trie)
    (hm : mustBeHashed ver v = true) : H v <:+: encodeNode ver H (branch pk (some v) cs) := by
  simp only [encodeNode, encodeValue, hm, if_true]
  exact infix_mid _ _ _

theorem kid_infix (ver : Ver) (H : Bytes → Bytes) (pk : Nibs) (v : Option Bytes) (cs : Nib → Trie)
    (i : Nib) (hn : (cs i).isNil = false) (hl : 32 ≤ (encodeNode ver H (cs i)).length) :
    H (encodeNode ver H (cs i)) <:+: encodeNode ver H (branch pk v cs) := by
  have hmv : merkleValue H (encodeNode ver H (cs i)) = H (encodeNode ver H (cs i)) := by
    unfold merkleValue; split
    · omega
    · rfl
  have h2 : H (encodeNode ver H (cs i)) <:+: scaleBytes (merkleValue H (encodeNode ver H (cs i))) := by
    rw [hmv]; exact ⟨compactNat (H (encodeNode ver H (cs i))).length, [], by simp [scaleBytes]⟩
  simp only [encodeNode]
  have key : ∀ (F : Fin 16 → Bytes) (A : Bytes), F i = scaleBytes (merkleValue H (encodeNode ver H (cs i))) →
      H (encodeNode ver H (cs i)) <:+: A ++ (List.finRange 16).flatMap F := by
    intro F A hF
    have h1 := infix_flatMap (List.finRange 16) F i (List.mem_finRange i)
    rw [hF] at h1
    obtain ⟨a, b, hab⟩ := h2.trans h1
    exact ⟨A ++ a, b, by rw [← hab]; simp⟩
  exact key _ _ (by simp [hn])

/-! ### who holds a value -/

theorem holder_nil {n : Trie} {v : Bytes} (h : lookup n [] = some v) :
    n = leaf [] v ∨ ∃ cs, n = branch [] (some v) cs := by
  cases n with
  | nil => simp at h
  | leaf pk x =>
    simp only [lookup_leaf] at h
    split at h
    · rename_i hk; cases h; left; rw [← hk]
    · cases h
  | branch pk x cs =>
    rcases key_cases pk [] with hk | ⟨i, r, hk⟩ | hoff
    · subst hk
      rw [lookup_branch_self] at h
      right; exact ⟨cs, by rw [h]⟩
    · cases pk <;> simp at hk
    · rw [lookup_branch_off _ _ _ _ hoff] at h; cases h

theorem holder_zero {n : Trie} {v : Bytes} (h : lookup n [0] = some v) :
    n = leaf [0] v ∨ (∃ cs, n = branch [0] (some v) cs) ∨
      ∃ bv cs, n = branch [] bv cs ∧ lookup (cs 0) [] = some v := by
  cases n with
  | nil => simp at h
  | leaf pk x =>
    simp only [lookup_leaf] at h
    split at h
    · rename_i hk; cases h; left; rw [← hk]
    · cases h
  | branch pk x cs =>
    rcases key_cases pk [0] with hk | ⟨i, r, hk⟩ | hoff
    · subst hk
      rw [lookup_branch_self] at h
      right; left; exact ⟨cs, by rw [h]⟩
    · have hpk : pk = [] ∧ i = 0 ∧ r = [] := by
        cases pk with
        | nil => simp at hk; exact ⟨rfl, hk.1.symm, hk.2⟩
        | cons a t =>
          have := congrArg List.length hk
          simp at this
      obtain ⟨rfl, rfl, rfl⟩ := hpk
      have := lookup_branch_child [] x cs 0 []
      simp only [List.nil_append] at this
      rw [this] at h
      right; right; exact ⟨x, cs, rfl, h⟩
    · rw [lookup_branch_off _ _ _ _ hoff] at h; cases h

/-- the node at `q ++ [0]` is child 0 of the node at `q`, which has an empty partial key -/
theorem child_zero {T0 : Trie} {q : Nibs} (h1 : subAt T0 q ≠ nil) (h2 : subAt T0 (q ++ [0]) ≠ nil) :
    ∃ v cs, subAt T0 q = branch [] v cs ∧ cs 0 = subAt T0 (q ++ [0]) := by
  rw [subAt_append T0 q [0] h1] at h2 ⊢
  rcases subAt_ne_nil h2 with h | ⟨pk, v, cs, i, rest, ht, hp, hne⟩
  · cases h
  · have hpk : pk = [] ∧ i = 0 ∧ rest = [] := by
      cases pk with
      | nil => simp at hp; exact ⟨rfl, hp.1.symm, hp.2⟩
      | cons a t =>
        have := congrArg List.length hp
        simp at this
    obtain ⟨rfl, rfl, rfl⟩ := hpk
    refine ⟨v, cs, ht, ?_⟩
    rw [ht]
    have := subAt_child [] v cs 0 []
    simp only [List.nil_append] at this
    rw [this]; simp

/-! ### distinct positions, distinct rows -/

theorem rowKey_split {H : Bytes → Bytes} (hlen : ∀ x, (H x).length = 32) {p q : Nibs} {x y : Bytes}
    (h : rowKey p (H x) = rowKey q (H y)) : prefixBytes p = prefixBytes q ∧ H x = H y := by
  unfold rowKey at h
  exact List.append_inj' h (by simp [hlen])

/-- a value is never the encoding of the node that holds it, nor of that node's parent slot -/
theorem value_ne_enc {ver : Ver} {H : Bytes → Bytes} {Dom : Bytes → Prop} (hH : HashOK H Dom)
    {n : Trie} {v : Bytes} (hdv : Dom v) (hdn : ∀ m, NodeOf m n → Dom (encodeNode ver H m))
    (hm : mustBeHashed ver v = true)
    (hhold : (n = leaf [] v ∨ ∃ cs, n = branch [] (some v) cs) ∨
      (n = leaf [0] v ∨ (∃ cs, n = branch [0] (some v) cs) ∨
        ∃ bv cs, n = branch [] bv cs ∧ lookup (cs 0) [] = some v)) :
    encodeNode ver H n ≠ v := by
  obtain ⟨rk, hrk⟩ := hH.rank
  intro he
  have hdirect : ∀ m : Trie, (∃ pk, m = leaf pk v) ∨ (∃ pk cs, m = branch pk (some v) cs) →
      H v <:+: encodeNode ver H m := by
    intro m hmm
    rcases hmm with ⟨pk, rfl⟩ | ⟨pk, cs, rfl⟩
    · exact value_infix_leaf ver H pk v hm
    · exact value_infix_branch ver H pk v cs hm
  have hself : ∀ m : Trie, Dom (encodeNode ver H m) → encodeNode ver H m = v →
      ((∃ pk, m = leaf pk v) ∨ (∃ pk cs, m = branch pk (some v) cs)) → False := by
    intro m hdm hmv hmm
    have := hrk _ _ hdm hdv (hdirect m hmm)
    rw [hmv] at this
    exact Nat.lt_irrefl _ this
  have hdself := hdn n
  rcases hhold with (rfl | ⟨cs, rfl⟩) | (rfl | ⟨cs, rfl⟩ | ⟨bv, cs, rfl, hc⟩)
  · exact hself _ (hdself (nodeOf_self (by simp))) he (Or.inl ⟨_, rfl⟩)
  · exact hself _ (hdself (nodeOf_self (by simp))) he (Or.inr ⟨_, _, rfl⟩)
  · exact hself _ (hdself (nodeOf_self (by simp))) he (Or.inl ⟨_, rfl⟩)
  · exact hself _ (hdself (nodeOf_self (by simp))) he (Or.inr ⟨_, _, rfl⟩)
  · -- the value sits in child 0, whose hash is inside the encoding of `n`
    have hc' : (∃ pk, cs 0 = leaf pk v) ∨ (∃ pk ccs, cs 0 = branch pk (some v) ccs) := by
      rcases holder_nil hc with h | ⟨ccs, h⟩
      · exact Or.inl ⟨_, h⟩
      · exact Or.inr ⟨_, _, h⟩
    have h1 := hdirect (cs 0) hc'
    have hlong : 32 ≤ (encodeNode ver H (cs 0)).length := by
      obtain ⟨a, b, hab⟩ := h1
      have := congrArg List.length hab
      simp [hH.len] at this
      omega
    have hnn : (cs 0).isNil = false := by
      rcases hc' with ⟨pk, h⟩ | ⟨pk, ccs, h⟩ <;> rw [h] <;> rfl
    have h2 := kid_infix ver H [] bv cs 0 hnn hlong
    have hne0 : cs 0 ≠ nil := fun x => by rw [x] at hnn; simp [Trie.isNil] at hnn
    have hdc : Dom (encodeNode ver H (cs 0)) := hdn _ (nodeOf_child 0 (nodeOf_self hne0))
    have r1 := hrk _ _ hdc hdv h1
    have r2 := hrk _ _ (hdself (nodeOf_self (by simp))) hdc h2
    rw [he] at r2
    omega

theorem rows_inj {ver : Ver} {H : Bytes → Bytes} {Dom : Bytes → Prop} (hH : HashOK H Dom) (T0 : Trie)
    (hcov : Covers ver H Dom T0)
    (heven : ∀ k v, lookup T0 k = some v → k.length % 2 = 0) (pos1 pos2 : Pos)
    (h1 : ValidPos ver H T0 pos1) (h2 : ValidPos ver H T0 pos2)
    (heq : rowOf ver H T0 pos1 = rowOf ver H T0 pos2) : pos1 = pos2 := by
  obtain ⟨rk, hrk⟩ := hH.rank
  -- a node and its child 0 never have the same encoding
  have hnn : ∀ q : Nibs, subAt T0 q ≠ nil → subAt T0 (q ++ [0]) ≠ nil →
      32 ≤ (encodeNode ver H (subAt T0 (q ++ [0]))).length →
      encodeNode ver H (subAt T0 q) ≠ encodeNode ver H (subAt T0 (q ++ [0])) := by
    intro q hq hq0 hl he
    obtain ⟨v, cs, hb, hc⟩ := child_zero hq hq0
    rw [hb] at he
    have hd1 : Dom (encodeNode ver H (branch [] v cs)) := by
      rw [← hb]; exact hcov.1 _ (nodeOf_subAt T0 q hq)
    have hd2 : Dom (encodeNode ver H (cs 0)) := by
      rw [hc]; exact hcov.1 _ (nodeOf_subAt T0 _ hq0)
    rw [← hc] at he hl hq0
    have := hrk _ _ hd1 hd2 (kid_infix ver H [] v cs 0 (isNil_false_of_ne hq0) hl)
    rw [he] at this
    exact Nat.lt_irrefl _ this
  -- a hashed value is never the encoding of a node at the same packed prefix
  have hnv : ∀ (p k : Nibs) (v : Bytes), subAt T0 p ≠ nil → lookup T0 k = some v →
      mustBeHashed ver v = true → prefixBytes p = prefixBytes k →
      encodeNode ver H (subAt T0 p) ≠ v := by
    intro p k v hp hk hm hpre
    have hke := heven k v hk
    rcases prefixBytes_eq p k hpre with rfl | ⟨hodd, _⟩ | ⟨hodd, rfl⟩
    · have := lookup_subAt T0 p [] hp
      rw [List.append_nil, hk] at this
      exact value_ne_enc hH (hcov.2 _ _ hk hm)
        (fun m hmm => hcov.1 m (nodeOf_trans hmm (nodeOf_subAt T0 p hp))) hm
        (Or.inl (holder_nil this.symm))
    · omega
    · have := lookup_subAt T0 p [0] hp
      rw [hk] at this
      exact value_ne_enc hH (hcov.2 _ _ hk hm)
        (fun m hmm => hcov.1 m (nodeOf_trans hmm (nodeOf_subAt T0 p hp))) hm
        (Or.inr (holder_zero this.symm))
  cases pos1 with
  | node p =>
    cases pos2 with
    | node q =>
      obtain ⟨hpre, hh⟩ := rowKey_split hH.len heq
      have henc := hH.inj _ _ (hcov.1 _ (nodeOf_subAt T0 p h1.1)) (hcov.1 _ (nodeOf_subAt T0 q h2.1)) hh
      rcases prefixBytes_eq p q hpre with rfl | ⟨_, rfl⟩ | ⟨_, rfl⟩
      · rfl
      · exact absurd henc.symm (hnn q h2.1 h1.1 (h1.2 (by simp)))
      · exact absurd henc (hnn p h1.1 h2.1 (h2.2 (by simp)))
    | val k =>
      obtain ⟨v, hk, hm⟩ := h2
      simp only [rowOf, hk, Option.getD_some] at heq
      obtain ⟨hpre, hh⟩ := rowKey_split hH.len heq
      exact absurd (hH.inj _ _ (hcov.1 _ (nodeOf_subAt T0 p h1.1)) (hcov.2 _ _ hk hm) hh)
        (hnv p k v h1.1 hk hm hpre)
  | val k =>
    obtain ⟨v, hk, hm⟩ := h1
    cases pos2 with
    | node q =>
      simp only [rowOf, hk, Option.getD_some] at heq
      obtain ⟨hpre, hh⟩ := rowKey_split hH.len heq
      exact absurd (hH.inj _ _ (hcov.2 _ _ hk hm) (hcov.1 _ (nodeOf_subAt T0 q h2.1)) hh).symm
        (hnv q k v h2.1 hk hm hpre.symm)
    | val k' =>
      obtain ⟨v', hk', hm'⟩ := h2
      simp only [rowOf, hk, hk', Option.getD_some] at heq
      obtain ⟨hpre, _⟩ := rowKey_split hH.len heq
      have e1 := heven k v hk
      have e2 := heven k' v' hk'
      rcases prefixBytes_eq k k' hpre with rfl | ⟨hodd, _⟩ | ⟨hodd, _⟩
      · rfl
      · omega
      · omega

end Gossamer.C06
