/-
C06, step 11: distinct positions of a committed trie have distinct database rows.
Needs: 32-byte digests, no collisions, and no cycles of hash references (`HashOK`); keys of even
nibble length (byte keys).
-/
import Gossamer.Lib.TrieDBPos
set_option linter.unusedSectionVars false
set_option linter.unusedSimpArgs false
namespace Gossamer.C06
open Gossamer Gossamer.Trie

/-- idealised hash: 32-byte digests, injective, and the relation "the digest of `y` occurs inside
    `x`" has no cycles (`rk` is a rank that it decreases) -/
structure HashOK (H : Bytes → Bytes) : Prop where
  len : ∀ x, (H x).length = 32
  inj : ∀ a b, H a = H b → a = b
  rank : ∃ rk : Bytes → Nat, ∀ x y, H y <:+: x → rk y < rk x

/-! ### packed prefixes -/

theorem nibs_of_byteOf : ∀ a b : Nib, hiNib (byteOf a b) = a ∧ loNib (byteOf a b) = b := by decide

theorem byteOf_inj (a b a' b' : Nib) (h : byteOf a b = byteOf a' b') : a = a' ∧ b = b' := by
  have h1 := nibs_of_byteOf a b
  have h2 := nibs_of_byteOf a' b'
  rw [h] at h1
  exact ⟨h1.1.symm.trans h2.1, h1.2.symm.trans h2.2⟩

theorem prefixBytes_eq_nil : ∀ p : Nibs, prefixBytes p = [] → p = []
  | [], _ => rfl
  | [a], h => by simp [prefixBytes] at h
  | a :: b :: r, h => by simp [prefixBytes] at h

/-- two paths with the same packed prefix are equal, or the longer one is the odd-length shorter
    one followed by a zero nibble (the padding) -/
theorem prefixBytes_eq : ∀ p q : Nibs, prefixBytes p = prefixBytes q →
    p = q ∨ (q.length % 2 = 1 ∧ p = q ++ [0]) ∨ (p.length % 2 = 1 ∧ q = p ++ [0])
  | [], q, h => Or.inl (prefixBytes_eq_nil q h.symm).symm
  | [a], [], h => by simp [prefixBytes] at h
  | [a], [a'], h => by
    simp only [prefixBytes, List.cons.injEq, and_true] at h
    exact Or.inl (by rw [(byteOf_inj _ _ _ _ h).1])
  | [a], a' :: b' :: r', h => by
    simp only [prefixBytes, List.cons.injEq] at h
    obtain ⟨h1, h2⟩ := h
    obtain ⟨ha, hb⟩ := byteOf_inj _ _ _ _ h1
    have := prefixBytes_eq_nil r' h2.symm
    subst this ha
    right; right
    exact ⟨rfl, by rw [← hb]; rfl⟩
  | a :: b :: r, [], h => by simp [prefixBytes] at h
  | a :: b :: r, [a'], h => by
    simp only [prefixBytes, List.cons.injEq] at h
    obtain ⟨h1, h2⟩ := h
    obtain ⟨ha, hb⟩ := byteOf_inj _ _ _ _ h1
    have := prefixBytes_eq_nil r h2
    subst this ha
    right; left
    exact ⟨rfl, by rw [hb]; rfl⟩
  | a :: b :: r, a' :: b' :: r', h => by
    simp only [prefixBytes, List.cons.injEq] at h
    obtain ⟨h1, h2⟩ := h
    obtain ⟨ha, hb⟩ := byteOf_inj _ _ _ _ h1
    subst ha hb
    rcases prefixBytes_eq r r' h2 with h | ⟨h, h'⟩ | ⟨h, h'⟩
    · exact Or.inl (by rw [h])
    · right; left; exact ⟨by simp at h ⊢; omega, by rw [h']; rfl⟩
    · right; right; exact ⟨by simp at h ⊢; omega, by rw [h']; rfl⟩

/-! ### hash references inside encodings -/

theorem infix_flatMap {α : Type} (l : List α) (f : α → Bytes) (a : α) (h : a ∈ l) :
    f a <:+: l.flatMap f := by
  induction l with
  | nil => simp at h
  | cons x r ih =>
    rw [List.flatMap_cons]
    rcases List.mem_cons.mp h with rfl | h
    · exact ⟨[], r.flatMap f, by simp⟩
    · obtain ⟨s, t, hst⟩ := ih h
      exact ⟨f x ++ s, t, by rw [← hst]; simp⟩

theorem value_infix_leaf (ver : Ver) (H : Bytes → Bytes) (pk : Nibs) (v : Bytes)
    (hm : mustBeHashed ver v = true) : H v <:+: encodeNode ver H (leaf pk v) := by
  simp only [encodeNode, encodeValue, hm, if_true]
  exact ⟨header 0x20 0x1f pk.length ++ packNibs pk, [], by simp⟩

theorem value_infix_branch (ver : Ver) (H : Bytes → Bytes) (pk : Nibs) (v : Bytes) (cs : Nib → Trie)
    (hm : mustBeHashed ver v = true) : H v <:+: encodeNode ver H (branch pk (some v) cs) := by
  simp only [encodeNode, encodeValue, hm, if_true]
  exact ⟨header 0x10 0x0f pk.length ++ packNibs pk ++ leBytes 2 (bitmap cs), _, by simp⟩

theorem kid_infix (ver : Ver) (H : Bytes → Bytes) (pk : Nibs) (v : Option Bytes) (cs : Nib → Trie)
    (i : Nib) (hn : (cs i).isNil = false) (hl : 32 ≤ (encodeNode ver H (cs i)).length) :
    H (encodeNode ver H (cs i)) <:+: encodeNode ver H (branch pk v cs) := by
  have h1 := infix_flatMap (List.finRange 16)
    (fun i : Fin 16 => if (cs i).isNil then [] else scaleBytes (merkleValue H (encodeNode ver H (cs i))))
    i (List.mem_finRange i)
  have hmv : merkleValue H (encodeNode ver H (cs i)) = H (encodeNode ver H (cs i)) := by
    unfold merkleValue; split
    · omega
    · rfl
  simp only [hn, Bool.false_eq_true, if_false, hmv, scaleBytes] at h1
  have h2 : H (encodeNode ver H (cs i)) <:+:
      compactNat (H (encodeNode ver H (cs i))).length ++ H (encodeNode ver H (cs i)) :=
    ⟨_, [], by simp⟩
  have h3 := h2.trans h1
  simp only [encodeNode]
  obtain ⟨a, b, hab⟩ := h3
  exact ⟨_ ++ a, b, by rw [← hab]; simp⟩

/-! ### who holds a value -/

theorem holder_nil {n : Trie} {v : Bytes} (h : lookup n [] = some v) :
    n = leaf [] v ∨ ∃ cs, n = branch [] (some v) cs := by
  cases n with
  | nil => simp at h
  | leaf pk x =>
    simp only [lookup_leaf] at h
    split at h
    · rename_i hk; cases h; left; rw [← hk]
    · cases h
  | branch pk x cs =>
    rcases key_cases pk [] with hk | ⟨i, r, hk⟩ | hoff
    · subst hk
      rw [lookup_branch_self] at h
      right; exact ⟨cs, by rw [h]⟩
    · cases pk <;> simp at hk
    · rw [lookup_branch_off _ _ _ _ hoff] at h; cases h

theorem holder_zero {n : Trie} {v : Bytes} (h : lookup n [0] = some v) :
    n = leaf [0] v ∨ (∃ cs, n = branch [0] (some v) cs) ∨
      ∃ bv cs, n = branch [] bv cs ∧ lookup (cs 0) [] = some v := by
  cases n with
  | nil => simp at h
  | leaf pk x =>
    simp only [lookup_leaf] at h
    split at h
    · rename_i hk; cases h; left; rw [← hk]
    · cases h
  | branch pk x cs =>
    rcases key_cases pk [0] with hk | ⟨i, r, hk⟩ | hoff
    · subst hk
      rw [lookup_branch_self] at h
      right; left; exact ⟨cs, by rw [h]⟩
    · have hpk : pk = [] ∧ i = 0 ∧ r = [] := by
        cases pk with
        | nil => simp at hk; exact ⟨rfl, hk.1.symm, hk.2.symm⟩
        | cons a t =>
          have := congrArg List.length hk
          simp at this
          omega
      obtain ⟨rfl, rfl, rfl⟩ := hpk
      have := lookup_branch_child [] x cs 0 []
      simp only [List.nil_append] at this
      rw [this] at h
      right; right; exact ⟨x, cs, rfl, h⟩
    · rw [lookup_branch_off _ _ _ _ hoff] at h; cases h

/-- the node at `q ++ [0]` is child 0 of the node at `q`, which has an empty partial key -/
theorem child_zero {T0 : Trie} {q : Nibs} (h1 : subAt T0 q ≠ nil) (h2 : subAt T0 (q ++ [0]) ≠ nil) :
    ∃ v cs, subAt T0 q = branch [] v cs ∧ cs 0 = subAt T0 (q ++ [0]) := by
  rw [subAt_append T0 q [0] h1] at h2 ⊢
  rcases subAt_ne_nil h2 with h | ⟨pk, v, cs, i, rest, ht, hp, hne⟩
  · cases h
  · have hpk : pk = [] ∧ i = 0 ∧ rest = [] := by
      cases pk with
      | nil => simp at hp; exact ⟨rfl, hp.1.symm, hp.2.symm⟩
      | cons a t =>
        have := congrArg List.length hp
        simp at this
        omega
    obtain ⟨rfl, rfl, rfl⟩ := hpk
    refine ⟨v, cs, ht, ?_⟩
    rw [ht]
    have := subAt_child [] v cs 0 []
    simp only [List.nil_append] at this
    rw [this]; simp

end Gossamer.C06
