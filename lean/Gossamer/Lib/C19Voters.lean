/-
C19 helper lemmas: `newVoterSet` keeps, for every id, the SUM of the listed weights.
-/
import Gossamer.Model.C19
namespace Gossamer.C19

/-- total weight a raw weight list gives to `id` (partial weights summed) -/
def rawWeight : List IdW → Nat → Nat
  | [], _ => 0
  | (i, w) :: rest, id => (if i = id then w else 0) + rawWeight rest id

/-- sum of all listed weights -/
def rawTotal : List IdW → Nat
  | [] => 0
  | (_, w) :: rest => w + rawTotal rest

/-- weight of the ids selected by `f`, every list entry counted -/
def wsum (f : Nat → Bool) : List IdW → Nat
  | [] => 0
  | (i, w) :: rest => (if f i then w else 0) + wsum f rest

theorem wsum_eq_map (f : Nat → Bool) (l : List IdW) :
    (l.map (fun iw => if f iw.1 then iw.2 else 0)).sum = wsum f l := by
  induction l with
  | nil => rfl
  | cons a l ih => obtain ⟨i, w⟩ := a; simp [wsum, ih]

theorem weightOn_eq (vs : VoterSet) (c : Chain) (tr : List Tracked) (b : Nat) :
    weightOn vs c tr b = wsum (fun id => bit c tr id b) vs.voters := by
  unfold weightOn; exact wsum_eq_map (fun id => bit c tr id b) vs.voters

theorem wsum_addWeight (f : Nat → Bool) (m : List IdW) (id w : Nat) :
    wsum f (addWeight m id w) = wsum f m + (if f id then w else 0) := by
  induction m with
  | nil => simp [addWeight, wsum]
  | cons a m ih =>
    obtain ⟨i, x⟩ := a
    simp only [addWeight]
    split
    · rename_i h; subst h
      simp only [wsum]; split <;> omega
    · split
      · simp only [wsum]; omega
      · simp only [wsum, ih]; omega

theorem wsum_mono {f g : Nat → Bool} (h : ∀ i, f i = true → g i = true) (l : List IdW) :
    wsum f l ≤ wsum g l := by
  induction l with
  | nil => simp [wsum]
  | cons a l ih =>
    obtain ⟨i, w⟩ := a
    simp only [wsum]
    by_cases hf : f i = true
    · simp [hf, h i hf]; exact ih
    · have : f i = false := by simpa using hf
      simp only [this, Bool.false_eq_true, if_false]; split <;> omega

theorem wsum_congr {f g : Nat → Bool} (h : ∀ i, f i = g i) (l : List IdW) : wsum f l = wsum g l := by
  have : f = g := funext h
  rw [this]

theorem wsum_le_total (f : Nat → Bool) (l : List IdW) : wsum f l ≤ rawTotal l := by
  induction l with
  | nil => simp [wsum, rawTotal]
  | cons a l ih => obtain ⟨i, w⟩ := a; simp only [wsum, rawTotal]; split <;> omega

theorem wsum_true (l : List IdW) : wsum (fun _ => true) l = rawTotal l := by
  induction l with
  | nil => rfl
  | cons a l ih => obtain ⟨i, w⟩ := a; simp [wsum, rawTotal, ih]

/-- `wsum` of one id is its raw weight -/
theorem wsum_single (l : List IdW) (id : Nat) : wsum (fun i => decide (i = id)) l = rawWeight l id := by
  induction l with
  | nil => rfl
  | cons a l ih => obtain ⟨i, w⟩ := a; simp [wsum, rawWeight, ih]

/-- ids strictly ascending (the btree scan order); in particular distinct -/
def Sorted (m : List IdW) : Prop := m.Pairwise (fun a b => a.1 < b.1)

theorem lookupW_none_of_lt {m : List IdW} {id : Nat} (h : ∀ e ∈ m, id < e.1) : lookupW m id = none := by
  induction m with
  | nil => rfl
  | cons a m ih =>
    obtain ⟨i, x⟩ := a
    have h1 := h (i, x) (by simp)
    have : ¬ i = id := by simp at h1; omega
    simp only [lookupW, this, if_false]
    exact ih (fun e he => h e (by simp [he]))

theorem mem_addWeight {m : List IdW} {id w : Nat} {e : IdW} (h : e ∈ addWeight m id w) :
    e.1 = id ∨ e ∈ m := by
  induction m with
  | nil => simp [addWeight] at h; left; simp [h]
  | cons a m ih =>
    obtain ⟨i, x⟩ := a
    simp only [addWeight] at h
    split at h
    · rename_i hi
      rcases List.mem_cons.1 h with h | h
      · left; simp [h, hi]
      · right; simp [h]
    · split at h
      · rcases List.mem_cons.1 h with h | h
        · left; simp [h]
        · right; exact h
      · rcases List.mem_cons.1 h with h | h
        · right; simp [h]
        · rcases ih h with h | h
          · left; exact h
          · right; simp [h]

theorem sorted_addWeight {m : List IdW} (hs : Sorted m) (id w : Nat) : Sorted (addWeight m id w) := by
  induction m with
  | nil => simp [addWeight, Sorted]
  | cons a m ih =>
    obtain ⟨i, x⟩ := a
    unfold Sorted at hs ih ⊢
    rw [List.pairwise_cons] at hs
    simp only [addWeight]
    split
    · rw [List.pairwise_cons]; exact ⟨hs.1, hs.2⟩
    · rename_i hne
      split
      · rename_i hlt
        rw [List.pairwise_cons]
        refine ⟨?_, List.pairwise_cons.2 hs⟩
        intro e he
        rcases List.mem_cons.1 he with he | he
        · simp [he]; exact hlt
        · have := hs.1 e he; simp at this ⊢; omega
      · rename_i hge
        rw [List.pairwise_cons]
        refine ⟨?_, ih hs.2⟩
        intro e he
        rcases mem_addWeight he with h | h
        · simp; omega
        · exact hs.1 e h

theorem lookupW_addWeight {m : List IdW} (hs : Sorted m) (id w id' : Nat) :
    lookupW (addWeight m id w) id' =
      if id' = id then some ((lookupW m id).getD 0 + w) else lookupW m id' := by
  induction m with
  | nil =>
    simp only [addWeight, lookupW]
    by_cases h : id' = id
    · subst h; simp
    · have : ¬ id = id' := fun e => h e.symm
      simp [h, this]
  | cons a m ih =>
    obtain ⟨i, x⟩ := a
    unfold Sorted at hs ih
    rw [List.pairwise_cons] at hs
    simp only [addWeight]
    by_cases h1 : id = i
    · subst h1
      simp only [if_true, lookupW]
      by_cases h : id' = id
      · subst h; simp
      · have : ¬ id = id' := fun e => h e.symm
        simp [h, this]
    · simp only [h1, if_false]
      by_cases h2 : id < i
      · simp only [h2, if_true, lookupW]
        by_cases h : id' = id
        · subst h
          have : ¬ i = id' := fun e => h1 e.symm
          have hn : lookupW m id' = none :=
            lookupW_none_of_lt (fun e he => by have := hs.1 e he; simp at this; omega)
          simp [this, hn]
        · have : ¬ id = id' := fun e => h e.symm
          simp [h, this]
      · simp only [h2, if_false, lookupW, ih hs.2]
        by_cases h : id' = id
        · subst h
          have : ¬ i = id' := fun e => h1 e.symm
          simp [this]
        · simp [h]

/-- every stored weight is positive -/
def PosInv (m : List IdW) : Prop := ∀ id x, lookupW m id = some x → 0 < x

theorem posInv_addWeight {m : List IdW} (hs : Sorted m) (h : PosInv m) (id w : Nat) (hw : 0 < w) :
    PosInv (addWeight m id w) := by
  intro id' x hx
  rw [lookupW_addWeight hs] at hx
  split at hx
  · simp at hx; omega
  · exact h id' x hx

/-- invariant of the `NewVoterSet` loop -/
theorem nvsLoop_spec : ∀ (ws : List IdW) (tot : Nat) (m : List IdW) (tot' : Nat) (m' : List IdW),
    nvsLoop ws tot m = some (tot', m') →
    tot' = tot + rawTotal ws ∧ (∀ f, wsum f m' = wsum f m + wsum f ws) ∧
    (Sorted m → Sorted m' ∧
      (∀ id, (lookupW m' id).getD 0 = (lookupW m id).getD 0 + rawWeight ws id) ∧
      (PosInv m → PosInv m')) := by
  intro ws
  induction ws with
  | nil =>
    intro tot m tot' m' h
    simp only [nvsLoop, Option.some.injEq, Prod.mk.injEq] at h
    obtain ⟨rfl, rfl⟩ := h
    simp [rawTotal, wsum, rawWeight]
  | cons a ws ih =>
    intro tot m tot' m' h
    obtain ⟨id, w⟩ := a
    simp only [nvsLoop] at h
    split at h
    · rename_i hw; subst hw
      obtain ⟨a, b, d⟩ := ih _ _ _ _ h
      refine ⟨by simp [rawTotal, a], ?_, ?_⟩
      · intro f; rw [b f]; simp [wsum]
      · intro hs
        obtain ⟨d1, d2, d3⟩ := d hs
        refine ⟨d1, ?_, d3⟩
        intro i; rw [d2 i]; simp [rawWeight]
    · rename_i hw
      split at h
      · simp at h
      · obtain ⟨a, b, d⟩ := ih _ _ _ _ h
        refine ⟨by simp only [rawTotal, a]; omega, ?_, ?_⟩
        · intro f; rw [b f, wsum_addWeight]; simp only [wsum]; omega
        · intro hs
          obtain ⟨d1, d2, d3⟩ := d (sorted_addWeight hs id w)
          refine ⟨d1, ?_, ?_⟩
          · intro i
            rw [d2 i, lookupW_addWeight hs]
            simp only [rawWeight]
            by_cases hi : i = id
            · subst hi; simp; omega
            · have : ¬ id = i := fun e => hi e.symm
              simp [hi, this]
          · intro hp; exact d3 (posInv_addWeight hs hp id w (by omega))

theorem nvsLoop_isSome : ∀ (ws : List IdW) (tot : Nat) (m : List IdW), tot < U64 →
    ((nvsLoop ws tot m).isSome = true ↔ tot + rawTotal ws < U64) := by
  intro ws
  induction ws with
  | nil => intro tot m h; simp [nvsLoop, rawTotal, h]
  | cons a ws ih =>
    intro tot m h
    obtain ⟨id, w⟩ := a
    simp only [nvsLoop, rawTotal]
    split
    · rename_i hw; subst hw; simpa using ih tot m h
    · split
      · rename_i ho; simp; omega
      · rename_i ho
        rw [ih (tot + w) _ (by omega)]; omega

/-- `NewVoterSet`: what the constructed set contains -/
theorem newVoterSet_spec {ws : List IdW} {vs : VoterSet} (h : newVoterSet ws = some vs) :
    vs.total = rawTotal ws ∧ vs.threshold = threshold (rawTotal ws) ∧ rawTotal ws < U64 ∧
    0 < rawTotal ws ∧
    (∀ f, wsum f vs.voters = wsum f ws) ∧
    (∀ id, vs.weight? id = if rawWeight ws id = 0 then none else some (rawWeight ws id)) ∧
    Sorted vs.voters := by
  unfold newVoterSet at h
  cases hl : nvsLoop ws 0 [] with
  | none => simp [hl] at h
  | some r =>
    obtain ⟨tot, m⟩ := r
    simp only [hl] at h
    split at h
    · simp at h
    · rename_i hne
      simp only [Option.some.injEq] at h
      subst h
      obtain ⟨a, b, d0⟩ := nvsLoop_spec _ _ _ _ _ hl
      obtain ⟨hsorted, d, e⟩ := d0 (by simp [Sorted])
      have hlt : 0 + rawTotal ws < U64 :=
        (nvsLoop_isSome ws 0 [] (by unfold U64; omega)).1 (by simp [hl])
      have hpos : PosInv m := e (by intro id x hx; simp [lookupW] at hx)
      simp only [Nat.zero_add] at a hlt
      have hw : ∀ id, lookupW m id = if rawWeight ws id = 0 then none else some (rawWeight ws id) := by
        intro id
        have := d id
        simp only [lookupW, Option.getD_none, Nat.zero_add] at this
        cases hx : lookupW m id with
        | none => simp [hx] at this; simp [← this]
        | some x =>
          have hp := hpos id x hx
          simp [hx] at this
          have : ¬ rawWeight ws id = 0 := by omega
          simp [this]; omega
      refine ⟨a, by simp [a], hlt, ?_, fun f => by simpa [wsum] using b f, hw, hsorted⟩
      -- non-empty map: some id has positive weight, so the total is positive
      subst a
      cases m with
      | nil => simp at hne
      | cons y ys =>
        obtain ⟨i, x⟩ := y
        have h1 := hw i
        simp only [lookupW, if_true] at h1
        have hx : rawWeight ws i ≠ 0 := by
          intro h0; simp [h0] at h1
        have := wsum_le_total (fun j => decide (j = i)) ws
        rw [wsum_single] at this
        omega

theorem newVoterSet_none {ws : List IdW} (h : newVoterSet ws = none) :
    U64 ≤ rawTotal ws ∨ rawTotal ws = 0 := by
  unfold newVoterSet at h
  cases hl : nvsLoop ws 0 [] with
  | none =>
    left
    have := (nvsLoop_isSome ws 0 [] (by unfold U64; omega))
    simp [hl] at this
    omega
  | some r =>
    obtain ⟨tot, m⟩ := r
    right
    simp only [hl] at h
    split at h
    · rename_i he
      obtain ⟨a, b, _⟩ := nvsLoop_spec _ _ _ _ _ hl
      have hm : m = [] := by simpa using he
      subst hm
      have := b (fun _ => true)
      simp [wsum, wsum_true] at this
      exact this.symm
    · simp at h

theorem contains_iff {ws : List IdW} {vs : VoterSet} (h : newVoterSet ws = some vs) (id : Nat) :
    vs.contains id = true ↔ 0 < rawWeight ws id := by
  unfold VoterSet.contains
  rw [(newVoterSet_spec h).2.2.2.2.2.1 id]
  split <;> simp <;> omega

end Gossamer.C19
