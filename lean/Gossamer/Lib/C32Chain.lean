/-
C32 — lemmas about chains of block data, fragments and the fragment pipeline of `Process`
(validate → absorb → sort → merge).  Used by Gossamer.Props.C32.
-/
import Gossamer.Model.C32
namespace Gossamer.C32

/-- what the importer needs of a block: the stated hash is the header's hash and there is a body -/
def GoodBlock (b : BD) : Prop := b.stated = b.id ∧ b.hasBody = true

/-- a fragment the import loop can work with: non-empty, hash-linked, made of good blocks -/
def GoodFrag (f : List BD) : Prop := f ≠ [] ∧ isChain f = true ∧ ∀ b ∈ f, GoodBlock b

/-! ### isChain -/

theorem isChain_cons_cons (a b : BD) (rest : List BD) :
    isChain (a :: b :: rest) = (isParent a b && isChain (b :: rest)) := rfl

theorem isChain_tail {a : BD} {l : List BD} (h : isChain (a :: l) = true) : isChain l = true := by
  cases l with
  | nil => rfl
  | cons b rest =>
    rw [isChain_cons_cons] at h
    simp only [Bool.and_eq_true] at h
    exact h.2

theorem isChain_suffix : ∀ (a b : List BD), isChain (a ++ b) = true → isChain b = true
  | [], _, h => h
  | x :: a, b, h => isChain_suffix a b (isChain_tail (l := a ++ b) h)

theorem isChain_dropWhile (p : BD → Bool) (l : List BD) (h : isChain l = true) :
    isChain (l.dropWhile p) = true := by
  have := List.takeWhile_append_dropWhile (p := p) (l := l)
  rw [← this] at h
  exact isChain_suffix _ _ h

theorem isChain_append : ∀ (a b : List BD), isChain a = true → isChain b = true →
    linked a b = true → isChain (a ++ b) = true
  | [], b, _, hb, _ => hb
  | [x], b, _, hb, hl => by
    cases b with
    | nil => rfl
    | cons y rest =>
      simp only [linked, List.getLast?_singleton, List.head?_cons] at hl
      show isChain (x :: y :: rest) = true
      rw [isChain_cons_cons, hl, hb]; rfl
  | x :: y :: a, b, ha, hb, hl => by
    rw [isChain_cons_cons] at ha
    simp only [Bool.and_eq_true] at ha
    have hl' : linked (y :: a) b = true := by
      simpa [linked, List.getLast?_cons_cons] using hl
    have := isChain_append (y :: a) b ha.2 hb hl'
    show isChain (x :: y :: (a ++ b)) = true
    rw [isChain_cons_cons, ha.1]
    exact this

theorem keepAbove_suffix (fin : Nat) (f : List BD) :
    ∃ pre, f = pre ++ keepAbove fin f := by
  refine ⟨(f.reverse.dropWhile (fun b => fin < b.num)).reverse, ?_⟩
  have := List.takeWhile_append_dropWhile (p := fun b : BD => fin < b.num) (l := f.reverse)
  have h2 := congrArg List.reverse this
  rw [List.reverse_append, List.reverse_reverse] at h2
  exact h2.symm

theorem validUnder_suffix (fin : Nat) (f : List BD) : ∃ pre, f = pre ++ validUnder fin f :=
  ⟨f.takeWhile (fun b => b.num ≤ fin), (List.takeWhile_append_dropWhile).symm⟩

/-! ### GoodFrag -/

theorem goodFrag_suffix {pre f : List BD} (h : GoodFrag (pre ++ f)) (hne : f ≠ []) : GoodFrag f :=
  ⟨hne, isChain_suffix _ _ h.2.1, fun b hb => h.2.2 b (List.mem_append_right _ hb)⟩

theorem goodFrag_append {a b : List BD} (ha : GoodFrag a) (hb : GoodFrag b)
    (hl : linked a b = true) : GoodFrag (a ++ b) :=
  ⟨by simp [ha.1], isChain_append a b ha.2.1 hb.2.1 hl, fun x hx => by
    rcases List.mem_append.mp hx with h | h
    · exact ha.2.2 x h
    · exact hb.2.2 x h⟩

theorem goodFrag_singleton {b : BD} (h : GoodBlock b) : GoodFrag [b] :=
  ⟨by simp, rfl, fun x hx => by simp at hx; subst hx; exact h⟩

/-! ### validateResults -/

theorem checkFields_none_body : ∀ (hdr : Bool) (l : List BD), checkFields hdr l = none →
    ∀ b ∈ l, b.hasBody = true
  | _, [], _, b, hb => by simp at hb
  | hdr, x :: rest, h, b, hb => by
    unfold checkFields at h
    split at h
    · simp at h
    · split at h
      · simp at h
      · split at h
        · simp at h
        · rename_i h3
          rcases List.mem_cons.mp hb with rfl | hb'
          · simpa using h3
          · exact checkFields_none_body hdr rest h b hb'

theorem checkFields_none_hdr : ∀ (l : List BD), checkFields true l = none →
    ∀ b ∈ l, b.hasHeader = true ∧ b.stated = b.id
  | [], _, b, hb => by simp at hb
  | x :: rest, h, b, hb => by
    unfold checkFields at h
    split at h
    · simp at h
    · rename_i h1
      split at h
      · simp at h
      · rename_i h2
        split at h
        · simp at h
        · rcases List.mem_cons.mp hb with rfl | hb'
          · constructor
            · simpa using h1
            · simpa using h2
          · exact checkFields_none_hdr rest h b hb'

/-- the block list a result is examined in (descending responses are reversed first) -/
def ordered (r : Result) : List BD := if r.kind = .desc then r.blocks.reverse else r.blocks

theorem validateOne_eq (bad : List Nat) (r : Result) : validateOne bad r =
    if !r.completed then .skip
    else if r.blocks.isEmpty then .skip
    else
      match checkFields r.kind.hdr (ordered r) with
      | some .nilBody => .reject none false
      | some _ => .reject (some .hdr) false
      | none =>
        if r.kind.hdr && !isChain (ordered r) then .reject (some .hdr) false
        else if (ordered r).any (fun b => bad.contains b.stated) then .reject (some .bad) true
        else .accept (ordered r) := rfl

theorem ordered_ne_nil {r : Result} (h : ¬ r.blocks.isEmpty = true) : ordered r ≠ [] := by
  unfold ordered
  split <;> simpa using h

theorem validateOne_accept {bad : List Nat} {r : Result} {bs : List BD}
    (h : validateOne bad r = .accept bs) :
    r.completed = true ∧ bs = ordered r ∧ bs ≠ [] ∧ checkFields r.kind.hdr bs = none ∧
    (r.kind.hdr = true → isChain bs = true) ∧ bs.any (fun b => bad.contains b.stated) = false := by
  rw [validateOne_eq] at h
  by_cases hc : (!r.completed) = true
  · simp [hc] at h
  · by_cases hne : r.blocks.isEmpty = true
    · simp [hne] at h
    · have hne' := ordered_ne_nil hne
      simp only [hc, hne, if_false, Bool.false_eq_true] at h
      generalize ordered r = o at h hne'
      cases hcf : checkFields r.kind.hdr o with
      | some e =>
        rw [hcf] at h
        cases e <;> simp at h
      | none =>
        rw [hcf] at h
        simp only [] at h
        by_cases hch : (r.kind.hdr && !isChain o) = true
        · simp [hch] at h
        · by_cases hbad : (o.any (fun b => bad.contains b.stated)) = true
          · rw [if_neg hch, if_pos hbad] at h
            simp at h
          · rw [if_neg hch, if_neg hbad] at h
            simp only [Verdict.accept.injEq] at h
            subst h
            refine ⟨by simpa using hc, rfl, hne', hcf, ?_, by simpa using hbad⟩
            intro hh
            simp only [hh, Bool.true_and, Bool.not_eq_true', Bool.not_eq_false] at hch
            simpa using hch

theorem validateResults_valid {bad : List Nat} : ∀ {rs : List Result} {k : Kind} {bs : List BD},
    (k, bs) ∈ (validateResults bad rs).valid →
    ∃ r ∈ rs, r.kind = k ∧ validateOne bad r = .accept bs
  | [], k, bs, h => by simp [validateResults] at h
  | r :: rest, k, bs, h => by
    unfold validateResults at h
    simp only [] at h
    split at h
    · obtain ⟨r', hr', h'⟩ := validateResults_valid (rs := rest) h
      exact ⟨r', List.mem_cons_of_mem _ hr', h'⟩
    · obtain ⟨r', hr', h'⟩ := validateResults_valid (rs := rest) h
      exact ⟨r', List.mem_cons_of_mem _ hr', h'⟩
    · rename_i bs' hacc
      rcases List.mem_cons.mp h with heq | h'
      · simp only [Prod.mk.injEq] at heq
        obtain ⟨rfl, rfl⟩ := heq
        exact ⟨r, List.mem_cons_self, rfl, hacc⟩
      · obtain ⟨r', hr', h''⟩ := validateResults_valid (rs := rest) h'
        exact ⟨r', List.mem_cons_of_mem _ hr', h''⟩

/-- what `Process` may assume of a validated response -/
structure ValidResp (v : Kind × List BD) : Prop where
  ne : v.2 ≠ []
  body : ∀ b ∈ v.2, b.hasBody = true
  hdr : v.1.hdr = true → GoodFrag v.2

theorem validResp_of_mem {bad : List Nat} {rs : List Result} {v : Kind × List BD}
    (h : v ∈ (validateResults bad rs).valid) : ValidResp v := by
  obtain ⟨k, bs⟩ := v
  obtain ⟨r, _, hk, hacc⟩ := validateResults_valid h
  obtain ⟨_, _, hne, hcf, hch, _⟩ := validateOne_accept hacc
  subst hk
  refine ⟨hne, checkFields_none_body _ _ hcf, ?_⟩
  intro hh
  simp only at hh
  rw [hh] at hcf
  exact ⟨hne, hch hh, fun b hb =>
    ⟨(checkFields_none_hdr _ hcf b hb).2, checkFields_none_body _ _ hcf b hb⟩⟩

end Gossamer.C32
