/-
C33: protobuf-go's parser (`goParse`) reads back what `proto.Marshal` writes (`Proto.encFields`),
for fields with a valid number, 64-bit varints and payloads shorter than 2^64.
-/
import Gossamer.Lib.C33Wire
namespace Gossamer.C33
open Gossamer Gossamer.Proto Gossamer.Scale

theorem uvar_varint (k : Nat) :
    ∀ (n : Nat) (r : Bytes), n < 128 ^ (k + 1) → uvar (k + 1) (varint n ++ r) = some (n, r) := by
  induction k with
  | zero =>
    intro n r h
    have hn : n < 128 := by simpa using h
    rw [varint_lt hn]
    have : (UInt8.ofNat n).toNat = n := toNat_ofNat_lt (by omega)
    simp [uvar, this, hn]
  | succ k ih =>
    intro n r h
    by_cases hn : n < 128
    · rw [varint_lt hn]
      have : (UInt8.ofNat n).toNat = n := toNat_ofNat_lt (by omega)
      simp [uvar, this, hn]
    · rw [varint_ge hn]
      have e : (UInt8.ofNat (128 + n % 128)).toNat = 128 + n % 128 := toNat_ofNat_lt (by omega)
      have hge : ¬ (128 + n % 128 < 128) := by omega
      have hq : n / 128 < 128 ^ (k + 1) := by
        rw [Nat.pow_succ] at h
        exact Nat.div_lt_of_lt_mul (by rw [Nat.mul_comm]; exact h)
      simp only [List.cons_append, uvar, e, hge, if_false, ih (n / 128) r hq]
      simp only [Option.some.injEq, Prod.mk.injEq, and_true]
      omega

theorem pow128_10 : (18446744073709551616 : Nat) ≤ 128 ^ 10 := by decide

theorem consumeVarint_varint (n : Nat) (r : Bytes) (h : n < 18446744073709551616) :
    consumeVarint (varint n ++ r) = some (n, r) := by
  unfold consumeVarint
  rw [uvar_varint 9 n r (Nat.lt_of_lt_of_le h pow128_10)]
  simp [h]

theorem consumeBytes_enc (b r : Bytes) (h : b.length < 18446744073709551616) :
    consumeBytes (varint b.length ++ (b ++ r)) = some (b, r) := by
  unfold consumeBytes
  rw [consumeVarint_varint _ _ h]
  simp

/-- what `proto.Marshal` can write: a valid field number, a 64-bit varint, a payload below 2^64 -/
def FieldOk (f : WField) : Prop :=
  1 ≤ f.num ∧ f.num ≤ maxValidNumber ∧
    match f.val with
    | .varint n => n < 18446744073709551616
    | .len b => b.length < 18446744073709551616

theorem parseLoop_encField (fuel : Nat) (f : WField) (rest : Bytes) (hf : FieldOk f) :
    parseLoop (fuel + 1) (encField f ++ rest) = (parseLoop fuel rest).map (fun fs => f :: fs) := by
  have hne : encField f ++ rest ≠ [] := by simp [encField_ne_nil]
  obtain ⟨num, val⟩ := f
  obtain ⟨h1, h2, h3⟩ := hf
  simp only at h1 h2 h3
  unfold maxValidNumber at h2
  rw [parseLoop]
  simp only [hne, if_false]
  cases val with
  | varint n =>
    simp only at h3
    have e1 : 8 * num / 8 = num := by omega
    have e2 : 8 * num % 8 = 0 := by omega
    have hb : ¬ (num < 1 ∨ num > maxValidNumber) := by unfold maxValidNumber; omega
    simp only [encField, List.append_assoc, consumeVarint_varint (8 * num) _ (by omega), e1, e2, hb,
      if_false, if_true, consumeVarint_varint n _ h3]
  | len b =>
    simp only at h3
    have e1 : (8 * num + 2) / 8 = num := by omega
    have e2 : (8 * num + 2) % 8 = 2 := by omega
    have hb : ¬ (num < 1 ∨ num > maxValidNumber) := by unfold maxValidNumber; omega
    have h20 : ¬ ((2 : Nat) = 0) := by omega
    simp only [encField, List.append_assoc, consumeVarint_varint (8 * num + 2) _ (by omega), e1, e2, hb,
      h20, if_false, if_true, consumeBytes_enc b _ h3]

theorem parseLoop_encFields (fs : List WField) (hf : ∀ f ∈ fs, FieldOk f) :
    ∀ fuel, fs.length ≤ fuel → parseLoop fuel (encFields fs) = some fs := by
  induction fs with
  | nil => intro fuel _; cases fuel <;> simp [encFields, parseLoop]
  | cons f fs ih =>
    intro fuel hl
    cases fuel with
    | zero => simp at hl
    | succ fuel =>
      simp only [encFields]
      rw [parseLoop_encField fuel f _ (hf f (by simp))]
      rw [ih (fun g hg => hf g (by simp [hg])) fuel (by simpa using hl)]
      rfl

/-- **wire round trip through protobuf-go's parser** -/
theorem goParse_encFields (fs : List WField) (hf : ∀ f ∈ fs, FieldOk f) :
    goParse (encFields fs) = some fs :=
  parseLoop_encFields fs hf _ (length_le_encFields fs)

/-! size facts used to discharge `FieldOk` from a bound on the whole encoding -/

theorem length_encField_len (k : Nat) (b : Bytes) : b.length ≤ (encField ⟨k, .len b⟩).length := by
  simp only [encField, List.length_append]; omega

theorem length_encFields_mem (fs : List WField) (f : WField) (h : f ∈ fs) :
    (encField f).length ≤ (encFields fs).length := by
  induction fs with
  | nil => simp at h
  | cons g gs ih =>
    simp only [encFields, List.length_append]
    simp only [List.mem_cons] at h
    rcases h with e | e
    · subst e; omega
    · have := ih e; omega

end Gossamer.C33
