/-
C28 support lemmas: the byte map (`put64`/`le64`), order arithmetic (`osize`, `orderFromSize`,
the bit-smearing `nextPowerOf2GT8`), `bump`.
-/
import Gossamer.Model.C28
namespace Gossamer.C28

/-- `omega` after unfolding the named constants of the model -/
macro "c28_omega" : tactic =>
  `(tactic| ((try simp only [U32, NIL, PAGE, MAX_PAGES, NUM_ORDERS, MAX_ALLOC, MIN_ALLOC, HDR, OCC] at *); omega))

/-! ## byte map -/

/-- the one law a byte store has to obey -/
structure Store.Lawful (S : Store) : Prop where
  get_set : ∀ (b : S.σ) (a v x : Nat), S.get (S.set b a v) x = if x = a then v else S.get b x

theorem funStore_lawful : funStore.Lawful := ⟨fun _ _ _ _ => rfl⟩

variable {S : Store}

theorem byteAt_set (hS : S.Lawful) (b : S.σ) (k v x : Nat) :
    byteAt (S.set b k v) x = if x = k then v else byteAt b x := hS.get_set b k v x

theorem byteAt_put64 (hS : S.Lawful) (b : S.σ) (a v x : Nat) :
    byteAt (put64 b a v) x = if a ≤ x ∧ x < a + 8 then (v / 256 ^ (x - a)) % 256 else byteAt b x := by
  unfold put64
  simp only [byteAt_set hS]
  by_cases h : a ≤ x ∧ x < a + 8
  · have : x = a ∨ x = a + 1 ∨ x = a + 2 ∨ x = a + 3 ∨ x = a + 4 ∨ x = a + 5 ∨ x = a + 6 ∨ x = a + 7 := by
      omega
    rcases this with rfl | rfl | rfl | rfl | rfl | rfl | rfl | rfl <;> simp
  · have h0 : ¬ x = a := by omega
    have h1 : ¬ x = a + 1 := by omega
    have h2 : ¬ x = a + 2 := by omega
    have h3 : ¬ x = a + 3 := by omega
    have h4 : ¬ x = a + 4 := by omega
    have h5 : ¬ x = a + 5 := by omega
    have h6 : ¬ x = a + 6 := by omega
    have h7 : ¬ x = a + 7 := by omega
    simp [h, h0, h1, h2, h3, h4, h5, h6, h7]

theorem byteAt_put64_other (hS : S.Lawful) (b : S.σ) (a v x : Nat) (h : x < a ∨ a + 8 ≤ x) :
    byteAt (put64 b a v) x = byteAt b x := by
  rw [byteAt_put64 hS, if_neg (by omega)]

/-- reading back the word just stored -/
theorem le64_put64_same (hS : S.Lawful) (b : S.σ) (a v : Nat) : le64 (put64 b a v) a = v % 18446744073709551616 := by
  unfold le64
  simp only [byteAt_put64 hS]
  simp
  omega

/-- a store does not change a word that does not overlap it -/
theorem le64_put64_other (hS : S.Lawful) (b : S.σ) (a v c : Nat) (h : c + 8 ≤ a ∨ a + 8 ≤ c) :
    le64 (put64 b a v) c = le64 b c := by
  unfold le64
  rw [byteAt_put64_other hS, byteAt_put64_other hS, byteAt_put64_other hS, byteAt_put64_other hS,
    byteAt_put64_other hS, byteAt_put64_other hS, byteAt_put64_other hS, byteAt_put64_other hS] <;> omega

/-! ## orders -/

theorem osize_eq (o : Nat) : osize o = 8 * 2 ^ o := by
  simp [osize, Nat.shiftLeft_eq]

theorem osize_pos (o : Nat) : 8 ≤ osize o := by
  rw [osize_eq]; have := Nat.two_pow_pos o; omega

theorem osize_mod8 (o : Nat) : osize o % 8 = 0 := by
  rw [osize_eq]; exact Nat.mul_mod_right 8 _

theorem osize_le (o : Nat) (h : o < 23) : osize o ≤ 33554432 := by
  rw [osize_eq]
  have : 2 ^ o ≤ 2 ^ 22 := Nat.pow_le_pow_right (by omega) (by omega)
  omega

theorem osize_succ (o : Nat) : osize (o + 1) = 2 * osize o := by
  rw [osize_eq, osize_eq, Nat.pow_succ]; omega

/-- `y` holds, at every bit position, the OR of the `w` bits of `x` starting there -/
def Win (x y w : Nat) : Prop := ∀ i, y.testBit i = true ↔ ∃ j, j < w ∧ x.testBit (i + j) = true

theorem win_one (x : Nat) : Win x x 1 := by
  intro i; constructor
  · intro h; exact ⟨0, by omega, by simpa using h⟩
  · rintro ⟨j, hj, h⟩; have : j = 0 := by omega
    subst this; simpa using h

theorem win_step (x y w : Nat) (h : Win x y w) : Win x (y ||| (y >>> w)) (w + w) := by
  intro i
  rw [Nat.testBit_or, Nat.testBit_shiftRight, Bool.or_eq_true, h i, h (w + i)]
  constructor
  · rintro (⟨j, hj, hb⟩ | ⟨j, hj, hb⟩)
    · exact ⟨j, by omega, hb⟩
    · refine ⟨w + j, by omega, ?_⟩
      rw [show i + (w + j) = w + i + j by omega]; exact hb
  · rintro ⟨j, hj, hb⟩
    by_cases hw : j < w
    · exact Or.inl ⟨j, hw, hb⟩
    · refine Or.inr ⟨j - w, by omega, ?_⟩
      rw [show w + i + (j - w) = i + j by omega]; exact hb

/-- the five or-shift steps of `nextPowerOf2GT8` -/
def smear (v : Nat) : Nat :=
  let v := v ||| (v >>> 1)
  let v := v ||| (v >>> 2)
  let v := v ||| (v >>> 4)
  let v := v ||| (v >>> 8)
  v ||| (v >>> 16)

theorem smear_win (x : Nat) : Win x (smear x) 32 := by
  have h1 := win_step x _ 1 (win_one x)
  have h2 := win_step x _ 2 h1
  have h4 := win_step x _ 4 h2
  have h8 := win_step x _ 8 h4
  exact win_step x _ 16 h8

theorem smear_eq (x k : Nat) (hk : k < 32) (lo : 2 ^ k ≤ x) (hi : x < 2 ^ (k + 1)) :
    smear x = 2 ^ (k + 1) - 1 := by
  apply Nat.eq_of_testBit_eq
  intro i
  rw [Nat.testBit_two_pow_sub_one]
  have hw := smear_win x i
  by_cases hik : i < k + 1
  · have : (smear x).testBit i = true := by
      rw [hw]
      obtain ⟨t, ht, hb⟩ := Nat.exists_ge_and_testBit_of_ge_two_pow lo
      have : t < k + 1 := by
        apply Decidable.byContradiction; intro hn
        have h2 : 2 ^ (k + 1) ≤ 2 ^ t := Nat.pow_le_pow_right (by omega) (by omega)
        have := Nat.testBit_lt_two_pow (x := x) (i := t) (by omega)
        simp [this] at hb
      have : t = k := by omega
      subst this
      exact ⟨t - i, by omega, by rw [show i + (t - i) = t by omega]; exact hb⟩
    simp [this, hik]
  · have : (smear x).testBit i = false := by
      apply Bool.eq_false_iff.mpr
      intro h
      rw [hw] at h
      obtain ⟨j, _, hb⟩ := h
      have h1 := Nat.ge_two_pow_of_testBit hb
      have h2 : 2 ^ (k + 1) ≤ 2 ^ (i + j) := Nat.pow_le_pow_right (by omega) (by omega)
      omega
    simp [this, hik]

theorem tz32_pow (j : Nat) (h : j < 32) : tz32 (2 ^ j) = j := by
  have : ∀ j, j < 32 → tz32 (2 ^ j) = j := by decide
  exact this j h

/-- `nextPowerOf2GT8 v` for `8 ≤ v ≤ 2^31`: the power of two `2^(k+1)` with `2^k < v ≤ 2^(k+1)` -/
theorem nextPow2_eq (v k : Nat) (hv : 8 ≤ v) (hk : k < 31) (lo : 2 ^ k < v) (hi : v ≤ 2 ^ (k + 1)) :
    nextPow2GT8 v = 2 ^ (k + 1) := by
  have hs := smear_eq (v - 1) k (by omega) (by omega) (by omega)
  unfold smear at hs
  unfold nextPow2GT8
  rw [if_neg (by omega)]
  simp only
  rw [hs]
  have h1 : 0 < 2 ^ (k + 1) := Nat.two_pow_pos _
  have h2 : 2 ^ (k + 1) ≤ 2 ^ 31 := Nat.pow_le_pow_right (by omega) (by omega)
  have : 2 ^ (k + 1) - 1 + 1 = 2 ^ (k + 1) := by omega
  rw [this]
  apply Nat.mod_eq_of_lt
  have : (2:Nat) ^ 31 = 2147483648 := by decide
  c28_omega

/-- `orderFromSize`: sizes above 32 MiB are refused; otherwise the order `o` is below 23, the block
    of `8 << o` bytes holds the request, and it is the smallest such block -/
theorem orderFromSize_spec (n o : Nat) (h : orderFromSize n = some o) :
    n ≤ MAX_ALLOC ∧ o < 23 ∧ n ≤ osize o ∧ (o = 0 ∨ osize o < 2 * n) := by
  unfold orderFromSize at h
  split at h
  · cases h
  · rename_i hle
    simp only [Option.some.injEq] at h
    have htz : tz32 MIN_ALLOC = 3 := by decide
    rw [htz] at h
    by_cases h8 : n ≤ 8
    · have : nextPow2GT8 (if n < MIN_ALLOC then MIN_ALLOC else n) = 8 := by
        split
        · decide
        · have : n = 8 := by c28_omega
          subst this; decide
      rw [this] at h
      have : tz32 8 = 3 := by decide
      rw [this] at h
      subst h
      refine ⟨by c28_omega, by omega, ?_, Or.inl rfl⟩
      simp [osize]; omega
    · rw [if_neg (by c28_omega)] at h
      -- k = log2 (n-1)
      have hk1 : 2 ^ (n - 1).log2 ≤ n - 1 := Nat.log2_self_le (by omega)
      have hk2 : n - 1 < 2 ^ ((n - 1).log2 + 1) := Nat.lt_log2_self
      generalize (n - 1).log2 = k at hk1 hk2
      have hk25 : k < 25 := by
        apply Decidable.byContradiction; intro hn
        have : 2 ^ 25 ≤ 2 ^ k := Nat.pow_le_pow_right (by omega) (by omega)
        have : (2:Nat) ^ 25 = 33554432 := by decide
        c28_omega
      have hk3 : 3 ≤ k := by
        apply Decidable.byContradiction; intro hn
        have : 2 ^ (k + 1) ≤ 2 ^ 3 := Nat.pow_le_pow_right (by omega) (by omega)
        omega
      rw [nextPow2_eq n k (by omega) (by omega) (by omega) (by omega), tz32_pow _ (by omega)] at h
      subst h
      have ho : osize (k + 1 - 3) = 2 ^ (k + 1) := by
        rw [osize_eq, show k + 1 = (k + 1 - 3) + 3 by omega, Nat.pow_add]
        simp; omega
      refine ⟨by c28_omega, by omega, by omega, Or.inr ?_⟩
      rw [ho, Nat.pow_succ]; omega

theorem orderFromSize_none (n : Nat) : orderFromSize n = none ↔ MAX_ALLOC < n := by
  unfold orderFromSize
  split <;> simp_all

end Gossamer.C28
