/-
C20 layer (b), proofs: how edges change when a block becomes a vote-node; bits of the uncompressed cumulative
vote; a non-node below a vote target lies inside the edge of a vote-node.
-/
import Gossamer.Lib.C20GraphContain
import Gossamer.Lib.C20Book
namespace Gossamer.C20

variable {t : Tree}

theorem takeThrough_congr {p q : Nat → Bool} : ∀ (l : List Nat),
    (∀ x, x ∈ takeThrough p l → q x = p x) → takeThrough q l = takeThrough p l := by
  intro l
  induction l with
  | nil => intro _; rfl
  | cons x xs ih =>
    intro hq
    simp only [takeThrough] at hq ⊢
    by_cases hp : p x = true
    · simp only [hp, if_true] at hq ⊢
      rw [hq x (by simp), hp]; rfl
    · have hp' : p x = false := by simpa using hp
      simp only [hp', Bool.false_eq_true, if_false] at hq ⊢
      rw [hq x (by simp), hp']
      simp only [Bool.false_eq_true, if_false]
      rw [ih (fun y hy => hq y (List.mem_cons_of_mem _ hy))]

theorem Tree.chain_nodup (h : t.WF) : ∀ b, (t.chain b).Nodup := by
  intro b
  induction b using Nat.strongRecOn with
  | _ b ih =>
    by_cases hb : b = 0
    · subst hb; simp [Tree.chain_zero]
    · have hb' : 0 < b := by omega
      rw [Tree.chain_pos h hb']
      refine List.nodup_cons.2 ⟨?_, ih _ (Tree.parent_lt h hb')⟩
      intro hm
      have := Tree.mem_chain_le h _ _ hm
      have := Tree.parent_lt h hb'
      omega

/-- adding `hash` to the node set: cut at `hash` when it occurs before the first node -/
theorem takeThrough_add (p : Nat → Bool) (hash : Nat) : ∀ (l : List Nat) (i : Nat), l.Nodup →
    (takeThrough p l)[i]? = some hash → p hash = false →
    takeThrough (fun b => p b || b == hash) l = (takeThrough p l).take (i + 1) ∧
    takeThrough p (l.drop (i + 1)) = (takeThrough p l).drop (i + 1) := by
  intro l
  induction l with
  | nil => intro i _ h _; simp [takeThrough] at h
  | cons x xs ih =>
    intro i hnd hi hp
    simp only [takeThrough] at hi ⊢
    by_cases hpx : p x = true
    · simp only [hpx, if_true] at hi
      cases i with
      | zero => simp at hi; subst hi; rw [hp] at hpx; cases hpx
      | succ i => simp at hi
    · have hpx' : p x = false := by simpa using hpx
      simp only [hpx', Bool.false_eq_true, if_false] at hi ⊢
      cases i with
      | zero =>
        simp at hi; subst hi
        simp
      | succ i =>
        simp only [List.getElem?_cons_succ] at hi
        have hmem : hash ∈ xs := (takeThrough_prefix p xs).subset (List.mem_of_getElem? hi)
        have hne : (x == hash) = false := by
          apply Bool.eq_false_iff.2
          intro he
          have : x = hash := by simpa using he
          subst this
          exact (List.nodup_cons.1 hnd).1 hmem
        obtain ⟨i1, i2⟩ := ih i (List.nodup_cons.1 hnd).2 hi hp
        simp only [Bool.false_or, hne, Bool.false_eq_true, if_false, List.take_succ_cons,
          List.drop_succ_cons]
        exact ⟨by rw [i1], i2⟩

end Gossamer.C20
