/-
C06, step 9: the insert and remove inspectors on a handle tree that is consistent with the
committed trie `T0` (persisted, cached and new nodes mixed): they compute the image of
`tInsert` / `tRemove`, keep consistency, and schedule for deletion only rows of positions the
new tree no longer refers to.
-/
import Gossamer.Lib.TrieDBPos
set_option linter.unusedSectionVars false
set_option linter.unusedSimpArgs false
namespace Gossamer.C06
open Gossamer Gossamer.Trie

/-- the handle is an in-memory leaf or branch -/
def Hd.isMem : Hd → Bool
  | .leaf _ _ _ => true
  | .branch _ _ _ _ => true
  | _ => false

/-- the stored node with the hash `h` kept (`CachedStoredNode{node, hash}`) -/
def Hd.withCache (h : Bytes) : Hd → Hd
  | .empty _ => .empty (some h)
  | .leaf _ pk v => .leaf (some h) pk v
  | .branch _ pk v cs => .branch (some h) pk v cs
  | x => x

theorem afterInspect_none {old : Hd} (h : old.cached = none) (pre : Nibs) (d : Death) (ch : Bool)
    (n : Hd) : afterInspect old pre d ch n = (n.asNew, ch, d) := by
  simp [afterInspect, h]

theorem afterInspect_changed {old : Hd} {hh : Bytes} (h : old.cached = some hh) (pre : Nibs)
    (d : Death) (n : Hd) : afterInspect old pre d true n = (n.asNew, true, rowKey pre hh :: d) := by
  simp [afterInspect, h]

theorem afterInspect_same {old : Hd} {hh : Bytes} (h : old.cached = some hh) (pre : Nibs)
    (d : Death) (n : Hd) : afterInspect old pre d false n = (n.withCache hh, false, d) := by
  simp only [afterInspect, h, Bool.false_eq_true, if_false]
  cases n <;> rfl

/-! ### values -/

theorem replaceOldValue_spec (ver : Ver) (H : Bytes → Bytes) (T0 : Trie) (d : Death) (fk : Nibs)
    (dv : DVal) (hv : OkV ver H T0 fk dv) :
    replaceOldValue d fk (some dv) =
      (if dv.isRef then [rowOf ver H T0 (.val fk)] else []) ++ d := by
  cases dv with
  | inl x => rfl
  | fresh x => rfl
  | ref h =>
    obtain ⟨v, hl, _, rfl⟩ := hv
    simp [replaceOldValue, DVal.isRef, rowOf, hl]

/-- what `nodeValue.equal` returning `true` means for the value of a consistent node against a
    `NewValue`: the same bytes, unless both are `newValueRef`s (which always compare equal) -/
theorem equal_new (ver : Ver) (H : Bytes → Bytes) (T0 : Trie) (fk : Nibs) (dv : DVal) (value : Bytes)
    (h : dv.equal (newValue ver value) = true) :
    dv.isRef = false ∧ (dv.isFresh = false → absV T0 fk dv = value ∧ (newValue ver value).isFresh = false) := by
  unfold newValue at h ⊢
  split at h
  · cases dv <;> simp_all [DVal.equal, DVal.isRef, DVal.isFresh]
  · cases dv <;> simp_all [DVal.equal, DVal.isRef, DVal.isFresh, absV]

/-! ### children functions -/

theorem ok_setKid {ver : Ver} {H : Bytes → Bytes} {T0 : Trie} {cs : Nib → Hd} {q : Nibs} {idx : Nib}
    {c : Hd} (h1 : ∀ i, Ok ver H T0 (cs i) (q ++ [i])) (h2 : Ok ver H T0 c (q ++ [idx])) :
    ∀ i, Ok ver H T0 (Hd.setKid cs idx c i) (q ++ [i]) := by
  intro i
  by_cases h : i = idx
  · subst h; simpa [Hd.setKid] using h2
  · simpa [Hd.setKid, h] using h1 i

theorem ok_noKids {ver : Ver} {H : Bytes → Bytes} {T0 : Trie} (q : Nibs) :
    ∀ i, Ok ver H T0 (Hd.noKids i) (q ++ [i]) := fun _ => trivial

theorem abs_setKid (T0 : Trie) (cs : Nib → Hd) (q : Nibs) (idx : Nib) (c : Hd) :
    (fun i => abs T0 (Hd.setKid cs idx c i) (q ++ [i])) =
      setChild (fun i => abs T0 (cs i) (q ++ [i])) idx (abs T0 c (q ++ [idx])) := by
  funext i
  by_cases h : i = idx
  · subst h; simp [Hd.setKid, setChild]
  · simp [Hd.setKid, setChild, h]

theorem abs_noKids (T0 : Trie) (q : Nibs) :
    (fun i => abs T0 (Hd.noKids i) (q ++ [i])) = noChildren := by
  funext i; rfl

theorem needs_setKid {cs : Nib → Hd} {q : Nibs} {idx : Nib} {c : Hd} {pos : Pos} {i : Nib}
    (h : Needs (Hd.setKid cs idx c i) (q ++ [i]) pos) :
    (i = idx ∧ Needs c (q ++ [idx]) pos) ∨ (i ≠ idx ∧ Needs (cs i) (q ++ [i]) pos) := by
  by_cases hi : i = idx
  · subst hi; left; simpa [Hd.setKid] using h
  · right; exact ⟨hi, by simpa [Hd.setKid, hi] using h⟩

theorem noFresh_setKid {cs : Nib → Hd} {idx : Nib} {c : Hd} (h1 : ∀ i, noFresh (cs i))
    (h2 : noFresh c) : ∀ i, noFresh (Hd.setKid cs idx c i) := by
  intro i
  by_cases h : i = idx
  · subst h; simpa [Hd.setKid] using h2
  · simpa [Hd.setKid, h] using h1 i

/-! ### what an inspector returns -/

/-- postcondition of an inspector run on the stored node `old` at `pre`: the returned node `n`
    is a consistent NEW node that stands for `target`; the rows scheduled for deletion (`news`)
    belong to positions below `pre` that `n` does not refer to; `n` refers to nothing that `old` did
    not refer to; an unchanged result has the same content (unless a `newValueRef` was involved) -/
structure InspPost (ver : Ver) (H : Bytes → Bytes) (T0 : Trie) (pre : Nibs) (old : Hd) (target : Trie)
    (ch : Bool) (n : Hd) (news : List Pos) : Prop where
  ok : Ok ver H T0 n pre
  abs : abs T0 n pre = target
  cached : n.cached = none
  mem : n.isMem = true
  fresh : ∀ pos ∈ news, Below pre pos ∧ ¬ Needs n pre pos
  mono : ∀ pos, Needs n pre pos → Needs old pre pos
  same : ch = false → news = [] ∧ (noFresh old → noFresh n ∧ target = C06.abs T0 old pre)
  valid : ∀ pos ∈ news, ValidPos ver H T0 pos

theorem validPos_of_ref {ver : Ver} {H : Bytes → Bytes} {T0 : Trie} {fk : Nibs} {dv : DVal}
    (hv : OkV ver H T0 fk dv) (hr : dv.isRef = true) : ValidPos ver H T0 (.val fk) := by
  cases dv with
  | inl x => cases hr
  | fresh x => cases hr
  | ref h => obtain ⟨v, h1, h2, _⟩ := hv; exact ⟨v, h1, h2⟩

theorem insertLeaf_sim (ver : Ver) (H : Bytes → Bytes) (T0 : Trie) (c : Option Bytes) (pre pk : Nibs)
    (lv : DVal) (key : Nibs) (value : Bytes) (d : Death) (hv : OkV ver H T0 (pre ++ pk) lv) :
    ∃ news, (insertLeaf ver pre pk lv key value d).2.2 = news.map (rowOf ver H T0) ++ d ∧
      InspPost ver H T0 pre (.leaf c pk lv) (tInsertLeaf pk (absV T0 (pre ++ pk) lv) key value)
        (insertLeaf ver pre pk lv key value d).1 (insertLeaf ver pre pk lv key value d).2.1 news := by
  unfold insertLeaf tInsertLeaf
  rw [lcpLen_eq]
  obtain ⟨cc, pa, ka, rfl, rfl, h3, h4⟩ := lcp_split pk key
  rw [h3]
  cases pa with
  | nil =>
    cases ka with
    | nil =>
      -- the key of the leaf: the value is replaced
      simp only [List.append_nil, and_self, if_true] at hv ⊢
      refine ⟨if lv.isRef then [.val (pre ++ cc)] else [], ?_, ?_⟩
      · rw [replaceOldValue_spec ver H T0 d _ lv hv]; split <;> rfl
      · refine ⟨⟨okV_new ver H T0 _ value, fun h hh => by cases hh⟩, by simp [abs, absV_new], rfl,
          rfl, ?_, ?_, ?_, ?_⟩
        · intro pos hpos
          split at hpos
          · simp only [List.mem_singleton] at hpos
            subst hpos
            refine ⟨List.prefix_append _ _, ?_⟩
            intro hn
            simp only [Needs] at hn
            rcases hn with ⟨h, _⟩ | ⟨h, _⟩
            · cases h
            · unfold newValue at h; split at h <;> cases h
          · cases hpos
        · intro pos hn
          simp only [Needs] at hn
          rcases hn with ⟨h, _⟩ | ⟨h, _⟩
          · cases h
          · unfold newValue at h; split at h <;> cases h
        · intro hch
          have heq : lv.equal (newValue ver value) = true := by simpa using hch
          obtain ⟨h1, h2⟩ := equal_new ver H T0 (pre ++ cc) lv value heq
          refine ⟨by simp [h1], fun hnf => ?_⟩
          obtain ⟨h5, h6⟩ := h2 hnf
          exact ⟨h6, by simp [abs, h5]⟩
        · intro pos hpos
          split at hpos
          · rename_i hr
            simp only [List.mem_singleton] at hpos
            subst hpos
            exact validPos_of_ref hv hr
          · cases hpos
    | cons j krest =>
      -- the new key extends the key of the leaf
      simp only [List.append_nil] at hv
      have hc1 : ¬ (cc.length = (cc ++ []).length ∧ cc.length = (cc ++ j :: krest).length) := by simp
      have hc1' : ¬ (True ∧ cc.length = (cc ++ j :: krest).length) := by simp
      have hc2 : ¬ (cc.length < (cc ++ []).length) := by simp
      have hc2' : ¬ (cc.length < cc.length) := by simp
      simp only [hc1, hc1', hc2, hc2', if_false, List.drop_left', List.append_nil]
      refine ⟨[], rfl, ?_⟩
      refine ⟨⟨?_, ?_, fun h hh => by cases hh⟩, ?_, rfl, rfl, by simp, ?_, by simp, by simp⟩
      · intro dv hdv; cases hdv; exact hv
      · exact ok_setKid (ok_noKids _) ⟨okV_new ver H T0 _ value, fun h hh => by cases hh⟩
      · simp only [abs, Option.map_some, abs_setKid, abs_noKids, absV_new]
      · intro pos hn
        simp only [Needs] at hn ⊢
        rcases hn with ⟨h, _⟩ | ⟨h, hp⟩ | ⟨i, hi⟩
        · cases h
        · exact Or.inr ⟨h, hp⟩
        · rcases needs_setKid hi with ⟨_, h⟩ | ⟨_, h⟩
          · simp only [Needs] at h
            rcases h with ⟨h, _⟩ | ⟨h, _⟩
            · cases h
            · unfold newValue at h; split at h <;> cases h
          · exact h.elim
  | cons i prest =>
    have hc1 : ∀ x, ¬ (cc.length = (cc ++ i :: prest).length ∧ x) := by
      intro x hx; simp at hx
    have hc2 : cc.length < (cc ++ i :: prest).length := by simp
    have hfk : pre ++ cc ++ [i] ++ prest = pre ++ (cc ++ i :: prest) := by simp
    have hmoved : Ok ver H T0 (.leaf none prest lv) (pre ++ cc ++ [i]) :=
      ⟨by rw [hfk]; exact hv, fun h hh => by cases hh⟩
    have hmovedN : ∀ pos, Needs (.leaf none prest lv) (pre ++ cc ++ [i]) pos →
        Needs (.leaf c (cc ++ i :: prest) lv) pre pos := by
      intro pos hn
      simp only [Needs] at hn ⊢
      rcases hn with ⟨h, _⟩ | ⟨h, hp⟩
      · cases h
      · right; rw [hfk] at hp; exact ⟨h, hp⟩
    simp only [hc1, hc2, if_false, if_true, List.drop_left', List.take_left']
    cases ka with
    | nil =>
      -- the new key ends where the keys diverge: the new branch holds the value
      simp only [List.append_nil, if_true]
      refine ⟨[], rfl, ?_⟩
      refine ⟨⟨?_, ?_, fun h hh => by cases hh⟩, ?_, rfl, rfl, by simp, ?_, by simp, by simp⟩
      · intro dv hdv; cases hdv; exact okV_new ver H T0 _ value
      · exact ok_setKid (ok_noKids _) hmoved
      · simp only [abs, Option.map_some, abs_setKid, abs_noKids, absV_new, hfk]
      · intro pos hn
        simp only [Needs] at hn
        rcases hn with ⟨h, _⟩ | ⟨h, _⟩ | ⟨i', hi⟩
        · cases h
        · simp only [optIsRef] at h; unfold newValue at h; split at h <;> cases h
        · rcases needs_setKid hi with ⟨_, h⟩ | ⟨_, h⟩
          · exact hmovedN pos h
          · exact h.elim
    | cons j krest =>
      have hc3 : ¬ ((cc ++ j :: krest).length = cc.length) := by simp
      simp only [hc3, if_false, List.drop_left']
      refine ⟨[], rfl, ?_⟩
      refine ⟨⟨?_, ?_, fun h hh => by cases hh⟩, ?_, rfl, rfl, by simp, ?_, by simp, by simp⟩
      · intro dv hdv; cases hdv
      · exact ok_setKid (ok_setKid (ok_noKids _) hmoved)
          ⟨okV_new ver H T0 _ value, fun h hh => by cases hh⟩
      · simp only [abs, Option.map_none, abs_setKid, abs_noKids, absV_new, hfk]
      · intro pos hn
        simp only [Needs] at hn
        rcases hn with ⟨h, _⟩ | ⟨h, _⟩ | ⟨i', hi⟩
        · cases h
        · cases h
        · rcases needs_setKid hi with ⟨_, h⟩ | ⟨_, h⟩
          · simp only [Needs] at h
            rcases h with ⟨h, _⟩ | ⟨h, _⟩
            · cases h
            · unfold newValue at h; split at h <;> cases h
          · rcases needs_setKid h with ⟨_, h⟩ | ⟨_, h⟩
            · exact hmovedN pos h
            · exact h.elim

/-! ### `inspect`: from the inspector's node to the stored node -/

theorem asNew_of_cached_none {n : Hd} (h : n.cached = none) (hm : n.isMem = true) : n.asNew = n := by
  cases n <;> simp_all [Hd.asNew, Hd.cached, Hd.isMem]

theorem abs_withCache (T0 : Trie) (h : Bytes) (n : Hd) (pre : Nibs) (hm : n.isMem = true) :
    abs T0 (n.withCache h) pre = abs T0 n pre := by
  cases n <;> simp_all [Hd.withCache, abs, Hd.isMem]

theorem noFresh_withCache (h : Bytes) (n : Hd) (hm : n.isMem = true) :
    noFresh (n.withCache h) ↔ noFresh n := by
  cases n <;> simp_all [Hd.withCache, noFresh, Hd.isMem]

theorem needs_withCache {h : Bytes} {n : Hd} {pre : Nibs} {pos : Pos} (hm : n.isMem = true)
    (hn : Needs (n.withCache h) pre pos) : Below pre pos ∨ Needs n pre pos := by
  cases n with
  | leaf c pk dv =>
    simp only [Hd.withCache, Needs] at hn ⊢
    rcases hn with ⟨_, hp⟩ | hr
    · exact Or.inl hp
    · exact Or.inr (Or.inr hr)
  | branch c pk dvo cs =>
    simp only [Hd.withCache, Needs] at hn ⊢
    rcases hn with ⟨_, hp⟩ | hr
    · exact Or.inl hp
    · exact Or.inr (Or.inr hr)
  | none => simp [Hd.isMem] at hm
  | persisted _ => simp [Hd.isMem] at hm
  | empty _ => simp [Hd.isMem] at hm

/-- a new in-memory node does not refer to its own row -/
theorem not_needs_self {n : Hd} {pre : Nibs} (hc : n.cached = none) (hm : n.isMem = true) :
    ¬ Needs n pre (.node pre) := by
  intro hn
  cases n with
  | leaf c pk dv =>
    simp only [Hd.cached] at hc
    simp only [Needs, hc] at hn
    rcases hn with ⟨h, _⟩ | ⟨_, h⟩ <;> cases h
  | branch c pk dvo cs =>
    simp only [Hd.cached] at hc
    simp only [Needs, hc] at hn
    rcases hn with ⟨h, _⟩ | ⟨_, h⟩ | ⟨i, hi⟩
    · cases h
    · cases h
    · exact below_child_ne_node (needs_below _ _ _ hi) rfl
  | none => simp [Hd.isMem] at hm
  | persisted _ => simp [Hd.isMem] at hm
  | empty _ => simp [Hd.isMem] at hm

theorem needs_self_of_cached {n : Hd} {pre : Nibs} {h : Bytes} (hc : n.cached = some h)
    (hm : n.isMem = true) {pos : Pos} (hb : Below pre pos) : Needs n pre pos := by
  cases n with
  | leaf c pk dv => simp only [Hd.cached] at hc; simp [Needs, hc, hb]
  | branch c pk dvo cs => simp only [Hd.cached] at hc; simp [Needs, hc, hb]
  | none => simp [Hd.isMem] at hm
  | persisted _ => simp [Hd.isMem] at hm
  | empty _ => simp [Hd.isMem] at hm

/-- consistency facts of a cached in-memory node -/
theorem ok_cached {ver : Ver} {H : Bytes → Bytes} {T0 : Trie} {n : Hd} {pre : Nibs} {h : Bytes}
    (hok : Ok ver H T0 n pre) (hc : n.cached = some h) (hm : n.isMem = true) :
    HashAt ver H T0 pre h ∧ abs T0 n pre = subAt T0 pre ∧ noFresh n := by
  cases n with
  | leaf c pk dv =>
    simp only [Hd.cached] at hc
    obtain ⟨_, hcl⟩ := hok
    obtain ⟨h1, h2, h3⟩ := hcl h hc
    exact ⟨h1, h2, h3⟩
  | branch c pk dvo cs =>
    simp only [Hd.cached] at hc
    obtain ⟨_, _, hcl⟩ := hok
    exact hcl h hc
  | none => simp [Hd.isMem] at hm
  | persisted _ => simp [Hd.isMem] at hm
  | empty _ => simp [Hd.isMem] at hm

/-- re-attaching the hash to an unchanged node -/
theorem ok_withCache {ver : Ver} {H : Bytes → Bytes} {T0 : Trie} {n : Hd} {pre : Nibs} {h : Bytes}
    (hok : Ok ver H T0 n pre) (hm : n.isMem = true) (hh : HashAt ver H T0 pre h)
    (habs : abs T0 n pre = subAt T0 pre) (hnf : noFresh n) : Ok ver H T0 (n.withCache h) pre := by
  cases n with
  | leaf c pk dv =>
    obtain ⟨hv, _⟩ := hok
    refine ⟨hv, fun h' hh' => ?_⟩
    cases hh'
    exact ⟨hh, habs, hnf⟩
  | branch c pk dvo cs =>
    obtain ⟨hv, hk, _⟩ := hok
    refine ⟨hv, hk, fun h' hh' => ?_⟩
    cases hh'
    exact ⟨hh, habs, hnf⟩
  | none => simp [Hd.isMem] at hm
  | persisted _ => simp [Hd.isMem] at hm
  | empty _ => simp [Hd.isMem] at hm

/-- postcondition of `insertAt` / of a surviving `removeAt` on the handle `hd` at `pre` -/
structure OpPost (ver : Ver) (H : Bytes → Bytes) (T0 : Trie) (pre : Nibs) (hd : Hd) (target : Trie)
    (ch : Bool) (hd' : Hd) (news : List Pos) : Prop where
  ok : Ok ver H T0 hd' pre
  abs : abs T0 hd' pre = target
  mem : hd'.isMem = true
  fresh : ∀ pos ∈ news, Below pre pos ∧ ¬ Needs hd' pre pos
  mono : ∀ pos, Needs hd' pre pos → Needs hd pre pos
  same : ch = false → news = [] ∧ (noFresh hd → noFresh hd' ∧ target = C06.abs T0 hd pre)
  valid : ∀ pos ∈ news, ValidPos ver H T0 pos

/-- `inspect` after an inspector that met its postcondition -/
theorem wrap_post {ver : Ver} {H : Bytes → Bytes} {T0 : Trie} {pre : Nibs} {stored : Hd}
    (hok : Ok ver H T0 stored pre) (hm : stored.isMem = true) {target : Trie} {ch : Bool} {n : Hd}
    {newsI : List Pos} (hp : InspPost ver H T0 pre stored target ch n newsI) (d : Death) :
    ∃ news, (afterInspect stored pre (newsI.map (rowOf ver H T0) ++ d) ch n).2.2 =
        news.map (rowOf ver H T0) ++ d ∧
      OpPost ver H T0 pre stored target (afterInspect stored pre (newsI.map (rowOf ver H T0) ++ d) ch n).2.1
        (afterInspect stored pre (newsI.map (rowOf ver H T0) ++ d) ch n).1 news := by
  cases hc : stored.cached with
  | none =>
    rw [afterInspect_none hc, asNew_of_cached_none hp.cached hp.mem]
    exact ⟨newsI, rfl, ⟨hp.ok, hp.abs, hp.mem, hp.fresh, hp.mono, hp.same, hp.valid⟩⟩
  | some h =>
    obtain ⟨hh, habs, hnf⟩ := ok_cached hok hc hm
    cases ch with
    | true =>
      rw [afterInspect_changed hc, asNew_of_cached_none hp.cached hp.mem]
      refine ⟨.node pre :: newsI, ?_, ⟨hp.ok, hp.abs, hp.mem, ?_, hp.mono, by simp, ?_⟩⟩
      · simp [rowOf, hh.2.1]
      · intro pos hpos
        rcases List.mem_cons.mp hpos with rfl | hpos
        · exact ⟨List.prefix_refl _, not_needs_self hp.cached hp.mem⟩
        · exact hp.fresh pos hpos
      · intro pos hpos
        rcases List.mem_cons.mp hpos with rfl | hpos
        · exact validPos_of_hashAt hh
        · exact hp.valid pos hpos
    | false =>
      rw [afterInspect_same hc]
      obtain ⟨hnews, hsame⟩ := hp.same rfl
      obtain ⟨hnf', htar⟩ := hsame hnf
      subst hnews
      refine ⟨[], rfl, ⟨?_, ?_, ?_, by simp, ?_, ?_, by simp⟩⟩
      · exact ok_withCache hp.ok hp.mem hh (by rw [hp.abs, htar, habs]) hnf'
      · rw [abs_withCache T0 h n pre hp.mem, hp.abs]
      · have hmem := hp.mem
        cases n <;> simp [Hd.withCache, Hd.isMem] at hmem ⊢
      · intro pos hn
        rcases needs_withCache hp.mem hn with hb | hn
        · exact needs_self_of_cached hc hm hb
        · exact hp.mono pos hn
      · intro _
        exact ⟨rfl, fun _ => ⟨(noFresh_withCache h n hp.mem).mpr hnf', htar⟩⟩

/-! ### insert -/

theorem replaceOldValue_opt (ver : Ver) (H : Bytes → Bytes) (T0 : Trie) (d : Death) (fk : Nibs)
    (bv : Option DVal) (hv : ∀ dv, bv = some dv → OkV ver H T0 fk dv) :
    replaceOldValue d fk bv = (if optIsRef bv then [rowOf ver H T0 (.val fk)] else []) ++ d := by
  cases bv with
  | none => rfl
  | some dv => exact replaceOldValue_spec ver H T0 d fk dv (hv dv rfl)

theorem newValue_notRef (ver : Ver) (v : Bytes) : (newValue ver v).isRef = false := by
  unfold newValue; split <;> rfl

theorem path3 (pre cc : Nibs) (ix : Nib) (prest : Nibs) :
    pre ++ cc ++ [ix] ++ prest = pre ++ (cc ++ ix :: prest) := by simp

theorem ok_of_triple {α β γ δ : Type} (x : α × β × List γ) (f : δ → γ) (news : List δ) (d : List γ)
    (h : x.2.2 = news.map f ++ d) : (Res.ok x : Res (α × β × List γ)) = .ok (x.1, x.2.1, news.map f ++ d) := by
  rw [← h]

/-- what the recursive call of an inspector must satisfy -/
def RecInsert (ver : Ver) (H : Bytes → Bytes) (T0 : Trie) (value : Bytes) (bound : Nat)
    (rec : Hd → Nibs → Nibs → Bytes → Death → Res (Hd × Bool × Death)) : Prop :=
  ∀ (hd : Hd) (q k : Nibs) (d0 : Death), k.length < bound → Ok ver H T0 hd q → hd.isNone = false →
    ∃ hd' ch news, rec hd q k value d0 = .ok (hd', ch, news.map (rowOf ver H T0) ++ d0) ∧
      OpPost ver H T0 q hd (tInsert (abs T0 hd q) k value) ch hd' news

theorem insertNode_sim (e : Env) (T0 : Trie)
    (rec : Hd → Nibs → Nibs → Bytes → Death → Res (Hd × Bool × Death))
    (stored : Hd) (pre key : Nibs) (value : Bytes) (d : Death)
    (hm : stored.isMem = true) (hok : Ok e.ver e.H T0 stored pre)
    (hrec : RecInsert e.ver e.H T0 value key.length rec) :
    ∃ hd' ch news, insertNode e rec stored pre key value d =
        .ok (hd', ch, news.map (rowOf e.ver e.H T0) ++ d) ∧
      OpPost e.ver e.H T0 pre stored (tInsert (abs T0 stored pre) key value) ch hd' news := by
  cases stored with
  | none => simp [Hd.isMem] at hm
  | persisted _ => simp [Hd.isMem] at hm
  | empty _ => simp [Hd.isMem] at hm
  | leaf c pk lv =>
    obtain ⟨newsI, hd1, hp⟩ := insertLeaf_sim e.ver e.H T0 c pre pk lv key value d hok.1
    obtain ⟨news, hd2, hpost⟩ := wrap_post hok hm hp d
    refine ⟨_, _, news, ?_, hpost⟩
    simp only [insertNode]
    rw [hd1]
    exact ok_of_triple _ _ _ _ hd2
  | branch c pk bv cs =>
    obtain ⟨hvals, hkids, hcl⟩ := hok
    have hok' : Ok e.ver e.H T0 (.branch c pk bv cs) pre := ⟨hvals, hkids, hcl⟩
    -- every case: build the inspector postcondition, then `inspect`
    suffices hI : ∃ (ch : Bool) (n : Hd) (newsI : List Pos),
        insertNode e rec (.branch c pk bv cs) pre key value d =
          .ok (afterInspect (.branch c pk bv cs) pre (newsI.map (rowOf e.ver e.H T0) ++ d) ch n) ∧
        InspPost e.ver e.H T0 pre (.branch c pk bv cs)
          (tInsert (abs T0 (.branch c pk bv cs) pre) key value) ch n newsI by
      obtain ⟨ch, n, newsI, heq, hp⟩ := hI
      obtain ⟨news, hd2, hpost⟩ := wrap_post hok' hm hp d
      refine ⟨_, _, news, ?_, hpost⟩
      rw [heq]
      exact ok_of_triple _ _ _ _ hd2
    simp only [insertNode, abs, tInsert]
    rw [lcpLen_eq]
    obtain ⟨cc, ka, pa, rfl, rfl, h3, h4⟩ := lcp_split key pk
    rw [h3]
    cases pa with
    | nil =>
      simp only [List.append_nil] at hvals hkids hcl hok' ⊢
      cases ka with
      | nil =>
        -- the key of the branch: the value is replaced
        simp only [List.append_nil, and_self, if_true]
        refine ⟨!(optEqual bv (newValue e.ver value)), .branch none cc (some (newValue e.ver value)) cs,
          if optIsRef bv then [.val (pre ++ cc)] else [], ?_, ?_⟩
        · rw [replaceOldValue_opt e.ver e.H T0 d _ bv hvals]
          congr 2; split <;> rfl
        · refine ⟨⟨?_, hkids, fun h hh => by cases hh⟩, by simp [abs, absV_new], rfl, rfl, ?_, ?_, ?_, ?_⟩
          · intro dv hdv; cases hdv; exact okV_new e.ver e.H T0 _ value
          · intro pos hpos
            split at hpos
            · simp only [List.mem_singleton] at hpos
              subst hpos
              refine ⟨List.prefix_append _ _, ?_⟩
              intro hn
              simp only [Needs] at hn
              rcases hn with ⟨h, _⟩ | ⟨h, _⟩ | ⟨i, hi⟩
              · cases h
              · simp [optIsRef, newValue_notRef] at h
              · exact below_child_ne_val (needs_below _ _ _ hi) rfl
            · cases hpos
          · intro pos hn
            simp only [Needs] at hn ⊢
            rcases hn with ⟨h, _⟩ | ⟨h, _⟩ | hi
            · cases h
            · simp [optIsRef, newValue_notRef] at h
            · exact Or.inr (Or.inr hi)
          · intro hch
            have heq : optEqual bv (newValue e.ver value) = true := by simpa using hch
            cases bv with
            | none => simp [optEqual] at heq
            | some lv =>
              simp only [optEqual] at heq
              obtain ⟨h1, h2⟩ := equal_new e.ver e.H T0 (pre ++ cc) lv value heq
              refine ⟨by simp [optIsRef, h1], fun hnf => ?_⟩
              obtain ⟨hnfv, hnfk⟩ := hnf
              obtain ⟨h5, h6⟩ := h2 (hnfv lv rfl)
              refine ⟨⟨?_, hnfk⟩, by simp [abs, h5]⟩
              intro dv hdv; cases hdv; exact h6
          · intro pos hpos
            split at hpos
            · rename_i hr
              simp only [List.mem_singleton] at hpos
              subst hpos
              cases bv with
              | none => cases hr
              | some lv => exact validPos_of_ref (hvals lv rfl) hr
            · cases hpos
      | cons idx krest =>
        -- the key leads into child `idx`
        have hc1 : ¬ (cc.length = cc.length ∧ cc.length = (cc ++ idx :: krest).length) := by simp
        have hc1' : ¬ (True ∧ cc.length = (cc ++ idx :: krest).length) := by simp
        have hc2 : ¬ (cc.length < cc.length) := by simp
        simp only [hc1, hc1', hc2, if_false, List.drop_left']
        by_cases hnil : (cs idx).isNone = true
        · -- no child there: a new leaf
          have hc : cs idx = Hd.none := by cases h : cs idx <;> simp_all [Hd.isNone]
          simp only [hnil, if_true]
          refine ⟨true, _, [], rfl, ?_⟩
          refine ⟨⟨hvals, ok_setKid hkids ⟨okV_new e.ver e.H T0 _ value, fun h hh => by cases hh⟩,
            fun h hh => by cases hh⟩, ?_, rfl, rfl, by simp, ?_, by simp, by simp⟩
          · simp only [abs, abs_setKid, absV_new, hc, tInsert]
          · intro pos hn
            simp only [Needs] at hn ⊢
            rcases hn with ⟨h, _⟩ | hv | ⟨i, hi⟩
            · cases h
            · exact Or.inr (Or.inl hv)
            · rcases needs_setKid hi with ⟨_, h⟩ | ⟨_, h⟩
              · simp only [Needs] at h
                rcases h with ⟨h, _⟩ | ⟨h, _⟩
                · cases h
                · simp [newValue_notRef] at h
              · exact Or.inr (Or.inr ⟨i, h⟩)
        · -- descend into the child
          have hnil' : (cs idx).isNone = false := by simpa using hnil
          obtain ⟨c', ch, newsC, hrc, hpc⟩ := hrec (cs idx) (pre ++ cc ++ [idx]) krest d
            (by simp; omega) (hkids idx) hnil'
          simp only [hnil', Bool.false_eq_true, if_false, hrc]
          refine ⟨ch, _, newsC, rfl, ?_⟩
          refine ⟨⟨hvals, ok_setKid hkids hpc.ok, fun h hh => by cases hh⟩, ?_, rfl, rfl, ?_, ?_, ?_,
            hpc.valid⟩
          · simp only [abs, abs_setKid, hpc.abs]
          · intro pos hpos
            obtain ⟨hb, hnn⟩ := hpc.fresh pos hpos
            refine ⟨below_trans (by rw [List.append_assoc]; exact List.prefix_append _ _) hb, ?_⟩
            intro hn
            simp only [Needs] at hn
            rcases hn with ⟨h, _⟩ | ⟨_, hp⟩ | ⟨i, hi⟩
            · cases h
            · exact below_child_ne_val hb hp
            · rcases needs_setKid hi with ⟨_, h⟩ | ⟨hne, h⟩
              · exact hnn h
              · exact hne (below_disjoint (needs_below _ _ _ h) hb)
          · intro pos hn
            simp only [Needs] at hn ⊢
            rcases hn with ⟨h, _⟩ | hv | ⟨i, hi⟩
            · cases h
            · exact Or.inr (Or.inl hv)
            · rcases needs_setKid hi with ⟨rfl, h⟩ | ⟨_, h⟩
              · exact Or.inr (Or.inr ⟨_, hpc.mono pos h⟩)
              · exact Or.inr (Or.inr ⟨i, h⟩)
          · intro hch
            obtain ⟨hn0, hs⟩ := hpc.same hch
            refine ⟨hn0, fun hnf => ?_⟩
            obtain ⟨hnfv, hnfk⟩ := hnf
            obtain ⟨hnc, htc⟩ := hs (hnfk idx)
            refine ⟨⟨hnfv, noFresh_setKid hnfk hnc⟩, ?_⟩
            rw [htc]
            congr 1
            funext i
            by_cases hi : i = idx
            · subst hi; simp [setChild]
            · simp [setChild, hi]
    | cons ix prest =>
      -- the keys diverge inside the partial key: a new branch in between
      have hc1 : ∀ x, ¬ (cc.length = (cc ++ ix :: prest).length ∧ x) := by
        intro x hx; simp at hx
      have hc2 : cc.length < (cc ++ ix :: prest).length := by simp
      have hp3 := path3 pre cc ix prest
      have hlower : Ok e.ver e.H T0 (.branch none prest bv cs) (pre ++ cc ++ [ix]) := by
        refine ⟨?_, ?_, fun h hh => by cases hh⟩
        · rw [hp3]; exact hvals
        · intro i; rw [hp3]; exact hkids i
      have hlowerN : ∀ pos, Needs (.branch none prest bv cs) (pre ++ cc ++ [ix]) pos →
          Needs (.branch c (cc ++ ix :: prest) bv cs) pre pos := by
        intro pos hn
        simp only [Needs] at hn ⊢
        rcases hn with ⟨h, _⟩ | hv | hk
        · cases h
        · rw [hp3] at hv; exact Or.inr (Or.inl hv)
        · rw [hp3] at hk; exact Or.inr (Or.inr hk)
      have hlowerA : abs T0 (.branch none prest bv cs) (pre ++ cc ++ [ix]) =
          branch prest (bv.map (absV T0 (pre ++ (cc ++ ix :: prest))))
            (fun i => abs T0 (cs i) (pre ++ (cc ++ ix :: prest) ++ [i])) := by
        simp only [abs, hp3]
      simp only [hc1, hc2, if_false, if_true, List.drop_left', List.take_left']
      cases ka with
      | nil =>
        simp only [List.append_nil, if_true]
        refine ⟨true, _, [], rfl, ?_⟩
        refine ⟨⟨?_, ok_setKid (ok_noKids _) hlower, fun h hh => by cases hh⟩, ?_, rfl, rfl, by simp,
          ?_, by simp, by simp⟩
        · intro dv hdv; cases hdv; exact okV_new e.ver e.H T0 _ value
        · simp only [abs, Option.map_some, abs_setKid, abs_noKids, absV_new, hp3]
        · intro pos hn
          simp only [Needs] at hn
          rcases hn with ⟨h, _⟩ | ⟨h, _⟩ | ⟨i', hi⟩
          · cases h
          · simp [optIsRef, newValue_notRef] at h
          · rcases needs_setKid hi with ⟨_, h⟩ | ⟨_, h⟩
            · exact hlowerN pos h
            · exact h.elim
      | cons j krest =>
        have hc3 : ¬ ((cc ++ j :: krest).length = cc.length) := by simp
        simp only [hc3, if_false, List.drop_left']
        refine ⟨true, _, [], rfl, ?_⟩
        refine ⟨⟨?_, ok_setKid (ok_setKid (ok_noKids _) hlower)
            ⟨okV_new e.ver e.H T0 _ value, fun h hh => by cases hh⟩, fun h hh => by cases hh⟩,
          ?_, rfl, rfl, by simp, ?_, by simp, by simp⟩
        · intro dv hdv; cases hdv
        · simp only [abs, Option.map_none, abs_setKid, abs_noKids, absV_new, hp3]
        · intro pos hn
          simp only [Needs] at hn
          rcases hn with ⟨h, _⟩ | ⟨h, _⟩ | ⟨i', hi⟩
          · cases h
          · cases h
          · rcases needs_setKid hi with ⟨_, h⟩ | ⟨_, h⟩
            · simp only [Needs] at h
              rcases h with ⟨h, _⟩ | ⟨h, _⟩
              · cases h
              · simp [newValue_notRef] at h
            · rcases needs_setKid h with ⟨_, h⟩ | ⟨_, h⟩
              · exact hlowerN pos h
              · exact h.elim

theorem loadedImg_isMem (ver : Ver) (H : Bytes → Bytes) (h : Bytes) (t : Trie) (ht : t ≠ nil) :
    (loadedImg ver H h t).isMem = true := by
  cases t with
  | nil => exact absurd rfl ht
  | leaf pk v => rfl
  | branch pk v cs => rfl

/-- resolving a consistent handle: the stored node is a consistent in-memory node for the same
    trie that refers to nothing new -/
theorem resolve_sim (e : Env) (T0 : Trie) (hdb : DbOk e T0) (hd : Hd) (q : Nibs)
    (hok : Ok e.ver e.H T0 hd q) (hn : hd.isNone = false) :
    ∃ stored, e.resolve q hd = .ok stored ∧ stored.isMem = true ∧ Ok e.ver e.H T0 stored q ∧
      abs T0 stored q = abs T0 hd q ∧ (∀ pos, Needs stored q pos → Needs hd q pos) ∧
      (noFresh hd → noFresh stored) := by
  cases hd with
  | none => simp [Hd.isNone] at hn
  | empty c => exact hok.elim
  | persisted h =>
    have hl := load_eq e T0 hdb q h hok
    obtain ⟨h1, h2, h3, _⟩ := loaded_props e.ver e.H hdb.hlen T0 q h hok
    refine ⟨_, by simp only [Env.resolve, hl], loadedImg_isMem _ _ _ _ hok.1, h1, h2, ?_, fun _ => h3⟩
    intro pos hp
    exact needs_below _ _ _ hp
  | leaf c pk dv => exact ⟨_, rfl, rfl, hok, rfl, fun _ h => h, fun h => h⟩
  | branch c pk dvo cs => exact ⟨_, rfl, rfl, hok, rfl, fun _ h => h, fun h => h⟩

/-- **insert on a consistent handle tree** -/
theorem insertAt_sim (e : Env) (T0 : Trie) (hdb : DbOk e T0) (value : Bytes) :
    ∀ fuel, RecInsert e.ver e.H T0 value fuel (insertAt e fuel) := by
  intro fuel
  induction fuel with
  | zero => intro hd q k d0 hk; omega
  | succ f ih =>
    intro hd q k d0 hk hok hn
    obtain ⟨stored, hres, hm, hoks, habs, hmono, hnf⟩ := resolve_sim e T0 hdb hd q hok hn
    have hrec : RecInsert e.ver e.H T0 value k.length (insertAt e f) := by
      intro hd' q' k' d' hk'
      exact ih hd' q' k' d' (by omega)
    obtain ⟨hd', ch, news, heq, hp⟩ := insertNode_sim e T0 (insertAt e f) stored q k value d0 hm hoks hrec
    refine ⟨hd', ch, news, by simp only [insertAt, hres, heq], ?_⟩
    rw [habs] at hp
    exact ⟨hp.ok, hp.abs, hp.mem, hp.fresh, fun pos h => hmono pos (hp.mono pos h), fun hch => by
      obtain ⟨h1, h2⟩ := hp.same hch
      exact ⟨h1, fun hh => by
        obtain ⟨h3, h4⟩ := h2 (hnf hh)
        exact ⟨h3, by rw [h4, habs]⟩⟩, hp.valid⟩

end Gossamer.C06
