/-
Lib.Monitor — lock discipline of a Go object guarded by one sync.Mutex / sync.RWMutex.

Part 1 (executable, used by the drivers): the per-method lock table extracted from the Go source
  (method, lock mode, access to the guarded fields) and the decidable checks `disciplined` /
  `raceFree` over it.
Part 2 (theorems): an operational model of invocations running concurrently under a
  reader/writer lock.  Every invocation is `acquire ; micro-step* ; release`; micro-steps of
  different invocations interleave arbitrarily, subject only to the lock semantics.
  `linearizable`: if readers (RLock holders) do not modify the shared state, every complete
  concurrent execution has the same final shared state and the same per-invocation results as
  the sequential execution of the invocations in the order of their release events.
  `no_conflict`: two distinct invocations are never inside their critical sections together
  unless both hold the read lock.

What this does NOT model: the Go memory model, real goroutine schedules, or code that touches
the shared state outside a critical section (that is what the lock table is checked for).
Core Lean only.
-/
namespace Gossamer.Monitor

/-! ## Part 1: lock table -/

inductive Mode | none | rlock | lock
deriving DecidableEq, Repr

inductive Access | pure | reads | writes
deriving DecidableEq, Repr

structure Method where
  name : String
  mode : Mode
  access : Access
deriving DecidableEq, Repr

/-- two lock modes of the same RWMutex exclude each other iff one is exclusive and both lock -/
def excludes (a b : Mode) : Bool :=
  (a == .lock && b != .none) || (b == .lock && a != .none)

/-- two accesses to the same data conflict iff one writes and the other touches it -/
def conflict (a b : Access) : Bool :=
  (a == .writes && b != .pure) || (b == .writes && a != .pure)

/-- no two (not necessarily distinct) methods can conflict without excluding each other -/
def raceFree (t : List Method) : Bool :=
  t.all fun m1 => t.all fun m2 => !conflict m1.access m2.access || excludes m1.mode m2.mode

/-- the monitor rule for one method: writers hold the exclusive lock, readers hold some lock -/
def wellLocked (m : Method) : Bool :=
  match m.access with
  | .pure => true
  | .reads => m.mode != .none
  | .writes => m.mode == .lock

def disciplined (t : List Method) : Bool := t.all wellLocked

theorem wellLocked_pair (m1 m2 : Method) (w1 : wellLocked m1 = true) (w2 : wellLocked m2 = true) :
    (!conflict m1.access m2.access || excludes m1.mode m2.mode) = true := by
  obtain ⟨n1, mo1, a1⟩ := m1
  obtain ⟨n2, mo2, a2⟩ := m2
  revert w1 w2
  cases a1 <;> cases a2 <;> cases mo1 <;> cases mo2 <;> simp [wellLocked, conflict, excludes]

theorem disciplined_raceFree (t : List Method) (h : disciplined t = true) : raceFree t = true := by
  simp only [raceFree, disciplined, List.all_eq_true] at *
  intro m1 h1 m2 h2
  exact wellLocked_pair m1 m2 (h m1 h1) (h m2 h2)

theorem raceFree_pair (m w : Method) (hwa : w.access = .writes)
    (a : (!conflict m.access w.access || excludes m.mode w.mode) = true)
    (b : (!conflict w.access w.access || excludes w.mode w.mode) = true)
    (c : (!conflict m.access m.access || excludes m.mode m.mode) = true) : wellLocked m = true := by
  obtain ⟨n1, mo1, a1⟩ := m
  obtain ⟨n2, mo2, a2⟩ := w
  simp only at hwa
  subst hwa
  revert a b c
  cases a1 <;> cases mo1 <;> cases mo2 <;> simp [wellLocked, conflict, excludes]

/-- conversely, as soon as some method writes, race freedom forces the monitor rule on all -/
theorem raceFree_disciplined (t : List Method) (h : raceFree t = true)
    (hw : ∃ m ∈ t, m.access = .writes) : disciplined t = true := by
  simp only [raceFree, disciplined, List.all_eq_true] at *
  obtain ⟨w, hwt, hwa⟩ := hw
  intro m hm
  exact raceFree_pair m w hwa (h m hm w hwt) (h w hwt w hwt) (h m hm m hm)

def Mode.ofString? : String → Option Mode
  | "none" => some .none | "RLock" => some .rlock | "Lock" => some .lock | _ => Option.none

def Access.ofString? : String → Option Access
  | "pure" => some .pure | "reads" => some .reads | "writes" => some .writes | _ => Option.none

def Mode.toString : Mode → String
  | .none => "none" | .rlock => "RLock" | .lock => "Lock"

def Access.toString : Access → String
  | .pure => "pure" | .reads => "reads" | .writes => "writes"

def Access.rank : Access → Nat
  | .pure => 0 | .reads => 1 | .writes => 2

/-- strongest access of a list of (mode, access) segments -/
def maxAccess : List (Mode × Access) → Access
  | [] => .pure
  | (_, a) :: r => let b := maxAccess r; if a.rank ≥ b.rank then a else b

def parseSegs : List String → Option (List (Mode × Access))
  | [] => some []
  | [_] => Option.none
  | m :: a :: rest => do
    let m ← Mode.ofString? m
    let a ← Access.ofString? a
    let r ← parseSegs rest
    pure ((m, a) :: r)

/-- one table entry as printed by the harness: `<mode> <access>`, or
    `split <mode> <access> <mode> <access> …` when the guarded fields are touched in more than
    one lock region.  A split method is not one critical section, so it counts as unlocked. -/
def Method.parse? (name : String) (ws : List String) : Option Method :=
  match ws with
  | [m, a] => do
    let m ← Mode.ofString? m
    let a ← Access.ofString? a
    pure { name, mode := m, access := a }
  | "split" :: rest => do
    let segs ← parseSegs rest
    pure { name, mode := .none, access := maxAccess segs }
  | _ => Option.none

/-- table text: entries `Name:<mode> <access>` joined by `,` -/
def parseTable (s : String) : Option (List Method) :=
  (s.splitOn ",").mapM fun ent =>
    match ent.splitOn ":" with
    | [n, body] => Method.parse? n ((body.splitOn " ").filter (· ≠ ""))
    | _ => Option.none

def Method.render (m : Method) : String := s!"{m.mode.toString} {m.access.toString}"

/-- verdict over a table extracted from the current source: `safe` iff `raceFree` (the decidable
    predicate the theorems `disciplined_raceFree` / `raceFree_disciplined` / `linearizable` are
    about); otherwise `racy <first method that breaks the monitor rule>`.  A method split into
    several critical sections was parsed as unlocked, so check-then-act shows up here. -/
def verdict (t : List Method) : String :=
  if raceFree t then "safe"
  else match t.find? (fun m => !wellLocked m) with
    | some m => s!"racy {m.name}"
    | Option.none => "racy"

def ofTriples (t : List (String × String × String)) : Option (List Method) :=
  t.mapM fun (n, m, a) => do
    let m ← Mode.ofString? m
    let a ← Access.ofString? a
    pure { name := n, mode := m, access := a }

/-- lock mode / access of the method called `name` in a table (absent: no lock, no access) -/
def modeIn (t : List Method) (name : String) : Mode :=
  match t.find? (·.name == name) with
  | some m => m.mode
  | Option.none => .none

def accessIn (t : List Method) (name : String) : Access :=
  match t.find? (·.name == name) with
  | some m => m.access
  | Option.none => .pure

theorem writer_of_accessIn {t : List Method} {name : String} (h : accessIn t name = .writes) :
    ∃ m ∈ t, m.access = .writes := by
  unfold accessIn at h
  cases hf : t.find? (·.name == name) with
  | none => rw [hf] at h; cases h
  | some m => rw [hf] at h; exact ⟨m, List.mem_of_find?_eq_some hf, h⟩

/-- in a race-free table a method classified as a writer holds the exclusive lock -/
theorem modeIn_lock {t : List Method} (hrf : raceFree t = true) {name : String}
    (h : accessIn t name = .writes) : modeIn t name = .lock := by
  have hd := raceFree_disciplined t hrf (writer_of_accessIn h)
  unfold accessIn at h
  unfold modeIn
  cases hf : t.find? (·.name == name) with
  | none => rw [hf] at h; cases h
  | some m =>
    rw [hf] at h
    simp only [disciplined, List.all_eq_true] at hd
    have hw := hd m (List.mem_of_find?_eq_some hf)
    obtain ⟨n, mo, ac⟩ := m
    simp only at h
    subst h
    simpa [wellLocked] using hw

/-- in a race-free table that has a writer, a method classified as a reader holds some lock -/
theorem modeIn_ne_none {t : List Method} (hrf : raceFree t = true) (hw : ∃ m ∈ t, m.access = .writes)
    {name : String} (h : accessIn t name = .reads) : modeIn t name ≠ .none := by
  have hd := raceFree_disciplined t hrf hw
  unfold accessIn at h
  unfold modeIn
  cases hf : t.find? (·.name == name) with
  | none => rw [hf] at h; cases h
  | some m =>
    rw [hf] at h
    simp only [disciplined, List.all_eq_true] at hd
    have hw := hd m (List.mem_of_find?_eq_some hf)
    obtain ⟨n, mo, ac⟩ := m
    simp only at h
    subst h
    simpa [wellLocked] using hw

/-! ## Part 2: concurrent executions under a reader/writer lock -/

/-- an invocation of a method: the lock it takes and its body split into atomic micro-steps
    over the shared state `σ` and a local store `ρ` (the final local store is the result) -/
structure Inv (σ ρ : Type) where
  mode : Mode
  body : List (σ → ρ → σ × ρ)
  init : ρ

inductive Ev | acq (i : Nat) | step (i : Nat) | rel (i : Nat)

/-- configuration: shared state, in-flight invocations (program counter, local store), and the
    log of released invocations (most recent first) with their results -/
structure Cfg (σ ρ : Type) where
  shared : σ
  fl : Nat → Option (Nat × ρ)
  log : List (Nat × ρ)

def upd {α : Type} (f : Nat → Option α) (i : Nat) (v : Option α) : Nat → Option α :=
  fun j => if j = i then v else f j

@[simp] theorem upd_same {α : Type} (f : Nat → Option α) (i : Nat) (v : Option α) : upd f i v i = v := by
  simp [upd]

theorem upd_other {α : Type} (f : Nat → Option α) (i j : Nat) (v : Option α) (h : j ≠ i) :
    upd f i v j = f j := by simp [upd, h]

/-- one atomic transition.  `acq` follows sync.RWMutex: an exclusive acquire needs nobody
    inside, a shared acquire needs no exclusive holder inside.  Micro-steps and release are only
    possible for an invocation that is inside. -/
inductive Step {σ ρ : Type} (invs : Nat → Inv σ ρ) : Cfg σ ρ → Ev → Cfg σ ρ → Prop
  | acq (c : Cfg σ ρ) (i : Nat)
      (hfree : c.fl i = none)
      (hmode : (invs i).mode ≠ .none)
      (hexcl : (invs i).mode = .lock → ∀ j, c.fl j = none)
      (hshared : ∀ j, c.fl j ≠ none → (invs j).mode ≠ .lock) :
      Step invs c (.acq i) { c with fl := upd c.fl i (some (0, (invs i).init)) }
  | step (c : Cfg σ ρ) (i pc : Nat) (l : ρ) (f : σ → ρ → σ × ρ)
      (hin : c.fl i = some (pc, l))
      (hf : (invs i).body[pc]? = some f) :
      Step invs c (.step i)
        { c with shared := (f c.shared l).1, fl := upd c.fl i (some (pc + 1, (f c.shared l).2)) }
  | rel (c : Cfg σ ρ) (i pc : Nat) (l : ρ)
      (hin : c.fl i = some (pc, l))
      (hend : pc = (invs i).body.length) :
      Step invs c (.rel i) { c with fl := upd c.fl i none, log := (i, l) :: c.log }

inductive Steps {σ ρ : Type} (invs : Nat → Inv σ ρ) : Cfg σ ρ → List Ev → Cfg σ ρ → Prop
  | nil (c : Cfg σ ρ) : Steps invs c [] c
  | cons (c c1 c2 : Cfg σ ρ) (e : Ev) (es : List Ev) :
      Step invs c e c1 → Steps invs c1 es c2 → Steps invs c (e :: es) c2

/-- sequential execution of a body -/
def runBody {σ ρ : Type} (body : List (σ → ρ → σ × ρ)) (s : σ) (l : ρ) : σ × ρ :=
  body.foldl (fun p f => f p.1 p.2) (s, l)

/-- sequential execution of invocations in the given order: final state and results in order -/
def seqRun {σ ρ : Type} (invs : Nat → Inv σ ρ) (s : σ) : List Nat → σ × List (Nat × ρ)
  | [] => (s, [])
  | i :: is =>
    let p := runBody (invs i).body s (invs i).init
    let q := seqRun invs p.1 is
    (q.1, (i, p.2) :: q.2)

theorem seqRun_append {σ ρ : Type} (invs : Nat → Inv σ ρ) (s : σ) (a b : List Nat) :
    seqRun invs s (a ++ b) =
      ((seqRun invs (seqRun invs s a).1 b).1, (seqRun invs s a).2 ++ (seqRun invs (seqRun invs s a).1 b).2) := by
  induction a generalizing s with
  | nil => simp [seqRun]
  | cons i is ih => simp [seqRun, ih]

/-- the monitor rule, semantically: holders of the read lock leave the shared state unchanged -/
def ReadersPure {σ ρ : Type} (invs : Nat → Inv σ ρ) : Prop :=
  ∀ i, (invs i).mode = .rlock → ∀ f ∈ (invs i).body, ∀ s l, (f s l).1 = s

theorem runBody_pure {σ ρ : Type} (body : List (σ → ρ → σ × ρ))
    (h : ∀ f ∈ body, ∀ s l, (f s l).1 = s) (s : σ) (l : ρ) : (runBody body s l).1 = s := by
  induction body generalizing l with
  | nil => rfl
  | cons f fs ih =>
    simp only [runBody, List.foldl_cons]
    have hf := h f (by simp) s l
    have : f s l = (s, (f s l).2) := Prod.ext hf rfl
    rw [this]
    exact ih (fun g hg => h g (by simp [hg])) _

theorem runBody_snoc {σ ρ : Type} (body : List (σ → ρ → σ × ρ)) (f : σ → ρ → σ × ρ) (s : σ) (l : ρ) :
    runBody (body ++ [f]) s l = f (runBody body s l).1 (runBody body s l).2 := by
  simp [runBody, List.foldl_append]

/-- simulation invariant: `sA` is the state of the sequential execution of the released
    invocations; every in-flight invocation has executed a prefix of its body from `sA` -/
structure SimInv {σ ρ : Type} (invs : Nat → Inv σ ρ) (s0 : σ) (c : Cfg σ ρ) : Prop where
  seq : seqRun invs s0 (c.log.reverse.map (·.1)) = ((seqRun invs s0 (c.log.reverse.map (·.1))).1, c.log.reverse)
  mode_in : ∀ i, c.fl i ≠ none → (invs i).mode ≠ .none
  excl : ∀ i j, c.fl i ≠ none → c.fl j ≠ none → i ≠ j → (invs i).mode = .rlock ∧ (invs j).mode = .rlock
  prog : ∀ i pc l, c.fl i = some (pc, l) →
    runBody ((invs i).body.take pc) (seqRun invs s0 (c.log.reverse.map (·.1))).1 (invs i).init = (c.shared, l)
  quiet : (∀ j, c.fl j ≠ none → (invs j).mode = .rlock) →
    c.shared = (seqRun invs s0 (c.log.reverse.map (·.1))).1

theorem mode_cases (m : Mode) : m = .none ∨ m = .rlock ∨ m = .lock := by cases m <;> simp

theorem simInv_step {σ ρ : Type} (invs : Nat → Inv σ ρ) (hp : ReadersPure invs) (s0 : σ)
    (c c' : Cfg σ ρ) (e : Ev) (hI : SimInv invs s0 c) (hs : Step invs c e c') : SimInv invs s0 c' := by
  cases hs with
  | acq i hfree hmode hexcl hshared =>
    have hq : c.shared = (seqRun invs s0 (c.log.reverse.map (·.1))).1 := by
      apply hI.quiet
      intro j hj
      rcases mode_cases (invs j).mode with h | h | h
      · exact absurd h (hI.mode_in j hj)
      · exact h
      · exact absurd h (hshared j hj)
    refine ⟨hI.seq, ?_, ?_, ?_, ?_⟩
    · intro j hj
      by_cases hji : j = i
      · subst hji; exact hmode
      · exact hI.mode_in j (by simpa [upd, hji] using hj)
    · intro a b ha hb hab
      by_cases hai : a = i
      · subst hai
        have hb' : c.fl b ≠ none := by simpa [upd, Ne.symm hab] using hb
        have hbm := hshared b hb'
        have hbn := hI.mode_in b hb'
        have ham : (invs a).mode ≠ .lock := fun h => hb' (hexcl h b)
        rcases mode_cases (invs a).mode with h | h | h
        · exact absurd h hmode
        · rcases mode_cases (invs b).mode with h2 | h2 | h2
          · exact absurd h2 hbn
          · exact ⟨h, h2⟩
          · exact absurd h2 hbm
        · exact absurd h ham
      · by_cases hbi : b = i
        · subst hbi
          have ha' : c.fl a ≠ none := by simpa [upd, hai] using ha
          have ham := hshared a ha'
          have han := hI.mode_in a ha'
          have hbm : (invs b).mode ≠ .lock := fun h => ha' (hexcl h a)
          rcases mode_cases (invs b).mode with h | h | h
          · exact absurd h hmode
          · rcases mode_cases (invs a).mode with h2 | h2 | h2
            · exact absurd h2 han
            · exact ⟨h2, h⟩
            · exact absurd h2 ham
          · exact absurd h hbm
        · exact hI.excl a b (by simpa [upd, hai] using ha) (by simpa [upd, hbi] using hb) hab
    · intro j pc l hj
      by_cases hji : j = i
      · subst hji
        simp only [upd_same, Option.some.injEq, Prod.mk.injEq] at hj
        obtain ⟨h1, h2⟩ := hj
        subst h1; subst h2
        simp [runBody, hq]
      · exact hI.prog j pc l (by simpa [upd, hji] using hj)
    · intro hall
      exact hq
  | step i pc l f hin hf =>
    have hpc : pc < (invs i).body.length := by
      rcases Nat.lt_or_ge pc (invs i).body.length with h | h
      · exact h
      · rw [List.getElem?_eq_none h] at hf; cases hf
    have hfm : f ∈ (invs i).body := List.mem_of_getElem? hf
    have hi_in : c.fl i ≠ none := by rw [hin]; simp
    refine ⟨hI.seq, ?_, ?_, ?_, ?_⟩
    · intro j hj
      by_cases hji : j = i
      · subst hji; exact hI.mode_in j hi_in
      · exact hI.mode_in j (by simpa [upd, hji] using hj)
    · intro a b ha hb hab
      have ha' : c.fl a ≠ none := by
        by_cases h : a = i
        · subst h; exact hi_in
        · simpa [upd, h] using ha
      have hb' : c.fl b ≠ none := by
        by_cases h : b = i
        · subst h; exact hi_in
        · simpa [upd, h] using hb
      exact hI.excl a b ha' hb' hab
    · intro j pc' l' hj
      by_cases hji : j = i
      · subst hji
        simp only [upd_same, Option.some.injEq, Prod.mk.injEq] at hj
        obtain ⟨h1, h2⟩ := hj
        subst h1; subst h2
        have := hI.prog j pc l hin
        have htake : (invs j).body.take (pc + 1) = (invs j).body.take pc ++ [f] := by
          rw [List.take_add_one, hf]; rfl
        rw [htake, runBody_snoc, this]
      · have hj' : c.fl j = some (pc', l') := by simpa [upd, hji] using hj
        have hjn : c.fl j ≠ none := by rw [hj']; simp
        have hr := (hI.excl i j hi_in hjn (Ne.symm hji)).1
        have hpure := hp i hr f hfm c.shared l
        have := hI.prog j pc' l' hj'
        simp only [hpure]
        exact this
    · intro hall
      have hr : (invs i).mode = .rlock := hall i (by simp)
      have hpure := hp i hr f hfm c.shared l
      simp only [hpure]
      apply hI.quiet
      intro j hj
      by_cases hji : j = i
      · subst hji; exact hr
      · exact hall j (by simpa [upd, hji] using hj)
  | rel i pc l hin hend =>
    have hi_in : c.fl i ≠ none := by rw [hin]; simp
    have hprog := hI.prog i pc l hin
    rw [hend, List.take_length] at hprog
    -- the sequential run extended by `i`
    have hlog : ((i, l) :: c.log).reverse.map (·.1) = c.log.reverse.map (·.1) ++ [i] := by simp
    have hseq' : seqRun invs s0 (((i, l) :: c.log).reverse.map (·.1)) = (c.shared, c.log.reverse ++ [(i, l)]) := by
      rw [hlog, seqRun_append]
      have h1 := hI.seq
      simp only [seqRun, hprog]
      rw [show (seqRun invs s0 (c.log.reverse.map (·.1))).2 = c.log.reverse from by
        have := congrArg Prod.snd h1; simpa using this]
    have hfst : (seqRun invs s0 (((i, l) :: c.log).reverse.map (·.1))).1 = c.shared := by rw [hseq']
    refine ⟨?_, ?_, ?_, ?_, ?_⟩
    · show seqRun invs s0 (((i, l) :: c.log).reverse.map (·.1)) = _
      rw [hfst, hseq']; simp
    · intro j hj
      by_cases hji : j = i
      · subst hji; simp [upd] at hj
      · exact hI.mode_in j (by simpa [upd, hji] using hj)
    · intro a b ha hb hab
      have ha' : c.fl a ≠ none := by
        by_cases h : a = i
        · subst h; simp [upd] at ha
        · simpa [upd, h] using ha
      have hb' : c.fl b ≠ none := by
        by_cases h : b = i
        · subst h; simp [upd] at hb
        · simpa [upd, h] using hb
      exact hI.excl a b ha' hb' hab
    · intro j pc' l' hj
      show runBody _ (seqRun invs s0 (((i, l) :: c.log).reverse.map (·.1))).1 _ = _
      by_cases hji : j = i
      · subst hji; simp [upd] at hj
      · have hj' : c.fl j = some (pc', l') := by simpa [upd, hji] using hj
        have hjn : c.fl j ≠ none := by rw [hj']; simp
        have hr := (hI.excl i j hi_in hjn (Ne.symm hji)).1
        have hpure : (runBody (invs i).body (seqRun invs s0 (c.log.reverse.map (·.1))).1 (invs i).init).1
            = (seqRun invs s0 (c.log.reverse.map (·.1))).1 :=
          runBody_pure _ (hp i hr) _ _
        rw [hprog] at hpure
        rw [hfst]
        have := hI.prog j pc' l' hj'
        rw [← hpure] at this
        exact this
    · intro _
      show c.shared = (seqRun invs s0 (((i, l) :: c.log).reverse.map (·.1))).1
      rw [hfst]

theorem simInv_steps {σ ρ : Type} (invs : Nat → Inv σ ρ) (hp : ReadersPure invs) (s0 : σ)
    (c c' : Cfg σ ρ) (es : List Ev) (hI : SimInv invs s0 c) (hs : Steps invs c es c') :
    SimInv invs s0 c' := by
  induction hs with
  | nil c => exact hI
  | cons c c1 c2 e es h1 _ ih => exact ih (simInv_step invs hp s0 c c1 e hI h1)

/-- the initial configuration: nobody inside, nothing released -/
def Cfg.init {σ ρ : Type} (s0 : σ) : Cfg σ ρ := { shared := s0, fl := fun _ => none, log := [] }

theorem simInv_init {σ ρ : Type} (invs : Nat → Inv σ ρ) (s0 : σ) : SimInv invs s0 (Cfg.init s0) := by
  refine ⟨?_, ?_, ?_, ?_, ?_⟩ <;> simp [Cfg.init, seqRun]

/-- **Monitor theorem.**  Under the reader/writer lock semantics, if read-lock holders do not
    modify the shared state, then after any concurrent execution that ends with nobody inside a
    critical section, the shared state and the result of every invocation are those of the
    sequential execution of the invocations in the order of their release events.  The release
    order extends real-time order (an invocation released before another one acquires is
    released before it), so this is linearizability with the release as linearization point. -/
theorem linearizable {σ ρ : Type} (invs : Nat → Inv σ ρ) (hp : ReadersPure invs) (s0 : σ)
    (es : List Ev) (c : Cfg σ ρ) (hs : Steps invs (Cfg.init s0) es c) (hq : ∀ j, c.fl j = none) :
    seqRun invs s0 (c.log.reverse.map (·.1)) = (c.shared, c.log.reverse) := by
  have hI := simInv_steps invs hp s0 _ c es (simInv_init invs s0) hs
  have h := hI.seq
  have hsh := hI.quiet (fun j hj => absurd (hq j) hj)
  rw [h, ← hsh]

/-- at every reachable configuration two distinct invocations are inside together only if both
    hold the read lock (hence, with `ReadersPure`, no two conflicting accesses are concurrent) -/
theorem no_conflict {σ ρ : Type} (invs : Nat → Inv σ ρ) (hp : ReadersPure invs) (s0 : σ)
    (es : List Ev) (c : Cfg σ ρ) (hs : Steps invs (Cfg.init s0) es c)
    (i j : Nat) (hi : c.fl i ≠ none) (hj : c.fl j ≠ none) (hij : i ≠ j) :
    (invs i).mode = .rlock ∧ (invs j).mode = .rlock :=
  (simInv_steps invs hp s0 _ c es (simInv_init invs s0) hs).excl i j hi hj hij

/-- prefixes too: at every reachable configuration, when no exclusive holder is inside, the
    shared state is the state of the sequential execution of the released invocations -/
theorem prefix_consistent {σ ρ : Type} (invs : Nat → Inv σ ρ) (hp : ReadersPure invs) (s0 : σ)
    (es : List Ev) (c : Cfg σ ρ) (hs : Steps invs (Cfg.init s0) es c)
    (hq : ∀ j, c.fl j ≠ none → (invs j).mode = .rlock) :
    c.shared = (seqRun invs s0 (c.log.reverse.map (·.1))).1 :=
  (simInv_steps invs hp s0 _ c es (simInv_init invs s0) hs).quiet hq

/-! ### non-vacuity -/

/-- non-vacuity: an invocation with a one-step body can run alone from the initial
    configuration (acquire, step, release) and ends with nobody inside -/
theorem solo_one {σ ρ : Type} (invs : Nat → Inv σ ρ) (i : Nat) (f : σ → ρ → σ × ρ)
    (hbody : (invs i).body = [f]) (hmode : (invs i).mode ≠ .none) (s0 : σ) :
    ∃ c, Steps invs (Cfg.init s0) [.acq i, .step i, .rel i] c ∧ (∀ j, c.fl j = none) ∧
      c.log = [(i, (f s0 (invs i).init).2)] ∧ c.shared = (f s0 (invs i).init).1 := by
  let l0 := (invs i).init
  let r := f s0 l0
  let c1 : Cfg σ ρ := ⟨s0, upd (fun _ => none) i (some (0, l0)), []⟩
  let c2 : Cfg σ ρ := ⟨r.1, upd c1.fl i (some (0 + 1, r.2)), []⟩
  let c3 : Cfg σ ρ := ⟨r.1, upd c2.fl i none, [(i, r.2)]⟩
  have h1 : Step invs (Cfg.init s0) (.acq i) c1 :=
    Step.acq (Cfg.init s0) i rfl hmode (fun _ _ => rfl) (fun j hj => absurd rfl hj)
  have h2 : Step invs c1 (.step i) c2 :=
    Step.step c1 i 0 l0 f (by simp [c1]) (by rw [hbody]; rfl)
  have h3 : Step invs c2 (.rel i) c3 :=
    Step.rel c2 i (0 + 1) r.2 (by simp [c2]) (by rw [hbody]; rfl)
  refine ⟨c3, Steps.cons _ _ _ _ _ h1 (Steps.cons _ _ _ _ _ h2 (Steps.cons _ _ _ _ _ h3 (Steps.nil _))), ?_, rfl, rfl⟩
  intro j
  by_cases hj : j = i
  · simp [c3, hj]
  · simp [c3, c2, c1, upd, hj]

/-- non-vacuity of concurrency: two read-lock holders are inside together -/
example : ∃ c : Cfg Nat Unit,
    Steps (fun _ => ({ mode := .rlock, body := [], init := () } : Inv Nat Unit)) (Cfg.init 7)
      [.acq 0, .acq 1] c ∧ c.fl 0 ≠ none ∧ c.fl 1 ≠ none := by
  let invs : Nat → Inv Nat Unit := fun _ => { mode := .rlock, body := [], init := () }
  let c0 : Cfg Nat Unit := Cfg.init 7
  have h1 : Step invs c0 (.acq 0) { c0 with fl := upd c0.fl 0 (some (0, ())) } :=
    Step.acq c0 0 rfl (by simp [invs]) (fun h => by simp [invs] at h) (fun j _ => by simp [invs])
  let c1 : Cfg Nat Unit := { c0 with fl := upd c0.fl 0 (some (0, ())) }
  have h2 : Step invs c1 (.acq 1) { c1 with fl := upd c1.fl 1 (some (0, ())) } :=
    Step.acq c1 1 (by simp [c1, upd, c0, Cfg.init]) (by simp [invs]) (fun h => by simp [invs] at h)
      (fun j _ => by simp [invs])
  exact ⟨_, Steps.cons _ _ _ _ _ h1 (Steps.cons _ _ _ _ _ h2 (Steps.nil _)), by simp [upd, c1], by simp [upd]⟩

end Gossamer.Monitor
