/-
The invariant of the block tree and its preservation by AddBlock / Prune.
-/
import Gossamer.Lib.BlockTreeStatic

namespace Gossamer.BlockTree

/-- what holds of every reachable tree -/
structure Inv (bt : BT) : Prop where
  /-- block hashes are unique -/
  nodup : (descF [bt.root]).Nodup
  /-- a child's number is its parent's number + 1 -/
  nums : numOKF bt.root.info.number bt.root.children
  /-- the leaf map has one entry per key -/
  leavesNodup : (bt.leaves.map (·.hash)).Nodup
  /-- the leaf map holds exactly the childless nodes -/
  leavesMem : ∀ x, x ∈ bt.leaves ↔ x ∈ leavesF [bt.root]

theorem inv_init (h n a : Nat) : Inv (NewBlockTreeFromRoot h n a) := by
  constructor <;> simp [NewBlockTreeFromRoot, descF, numOKF, leavesF]

theorem leavesF_sublist : ∀ f, (leavesF f).Sublist (infosF f) := by
  intro f
  induction f using forest_ind with
  | nil => simp [leavesF, infosF]
  | cons i cs rest ih1 ih2 =>
    simp only [leavesF, infosF]
    split
    · simp only [List.cons_append, List.nil_append]
      exact (List.Sublist.append ih1 ih2).cons₂ _
    · simp only [List.nil_append]
      exact (List.Sublist.append ih1 ih2).trans (List.sublist_cons_self _ _)

theorem leaves_hash_nodup {f : Forest} (hd : (descF f).Nodup) : ((leavesF f).map (·.hash)).Nodup := by
  rw [descF_eq_map_infos] at hd
  exact ((leavesF_sublist f).map _).nodup hd

theorem leafReplace_eq {l : List Info} {p n : Info} (hn : n.hash ∉ l.map (·.hash)) :
    leafReplace l p n = l.filter (fun x => x.hash ≠ p.hash) ++ [n] := by
  unfold leafReplace leafStore leafDelete
  have : (l.filter (fun x => decide (x.hash ≠ p.hash))).any (fun x => decide (x.hash = n.hash)) = false := by
    rw [List.any_eq_false]
    intro x hx
    simp only [List.mem_map, not_exists, not_and] at hn
    have := hn x (List.mem_filter.1 hx).1
    simpa using this
  rw [if_neg (by rw [this]; simp)]

theorem numOK_snoc {k : Nat} {n : Info} (hn : n.number = k + 1) : ∀ (g : Forest), numOKF k g →
    numOKF k (g ++ [.mk n []]) := by
  intro g
  induction g with
  | nil => intro _; simp [numOKF, hn]
  | cons c g ih => intro hg; cases c; simp only [List.cons_append, numOKF] at hg ⊢; exact ⟨hg.1, hg.2.1, ih hg.2.2⟩

/-- what a successful AddBlock did -/
theorem addBlock_ok {bt bt' : BT} {hd : Header} {arr : Nat} (h : bt.addBlock hd arr = .ok bt') :
    ∃ p prim, findF hd.parent [bt.root] = some p ∧ findF hd.hash [bt.root] = none ∧
      p.info.number + 1 = hd.number ∧ hd.kind = some prim ∧
      bt' = ⟨bt.root.addChild hd.parent (.mk ⟨hd.hash, hd.number, arr, prim⟩ []),
             leafReplace bt.leaves p.info ⟨hd.hash, hd.number, arr, prim⟩⟩ := by
  unfold BT.addBlock BT.getNode at h
  cases hp : findF hd.parent [bt.root] with
  | none => simp [hp] at h
  | some p =>
    simp only [hp] at h
    cases hh : findF hd.hash [bt.root] with
    | some x => simp [hh] at h
    | none =>
      simp only [hh, Option.isSome_none, Bool.false_eq_true, if_false] at h
      by_cases hnum : p.info.number + 1 = hd.number
      · have h0 : hd.number ≠ 0 := by omega
        simp only [hnum, ne_eq, not_true_eq_false, if_false, h0, not_false_eq_true, if_true] at h
        cases hk : hd.kind with
        | none => simp [hk] at h
        | some prim =>
          simp only [hk] at h
          cases h
          exact ⟨p, prim, rfl, rfl, hnum, rfl, rfl⟩
      · simp [hnum] at h

theorem inv_add {bt bt' : BT} {hd : Header} {arr : Nat} (hi : Inv bt) (h : bt.addBlock hd arr = .ok bt') :
    Inv bt' := by
  obtain ⟨p, prim, hp, hh, hnum, hk, rfl⟩ := addBlock_ok h
  obtain ⟨hps, hph⟩ := findF_some _ _ hp
  have hpm : hd.parent ∈ descF [bt.root] := hph ▸ mem_subs_hash_mem hps
  have hfresh : hd.hash ∉ descF [bt.root] := (findF_none _).1 hh
  let n : Info := ⟨hd.hash, hd.number, arr, prim⟩
  have hroot : [bt.root.addChild hd.parent (.mk n [])] = addChildF hd.parent (.mk n []) [bt.root] :=
    addChild_eq _ _ _
  constructor
  · show (descF [bt.root.addChild hd.parent (.mk n [])]).Nodup
    rw [hroot]
    apply nodup_add _ hi.nodup (by simp [descF])
    intro x hx; simp only [descF, List.append_nil, List.mem_singleton] at hx; subst hx; exact hfresh
  · show numOKF (bt.root.addChild hd.parent (.mk n [])).info.number (bt.root.addChild hd.parent (.mk n [])).children
    have hnums := hi.nums
    cases hr : bt.root with
    | mk i cs =>
      rw [hr] at hp hnums
      simp only [Node.info_mk, Node.children_mk] at hnums
      simp only [Node.addChild]
      rw [findF_root] at hp
      split
      · next he =>
        simp only [he, if_true] at hp
        cases hp
        simp only [Node.info_mk, Node.children_mk]
        exact numOK_snoc (n := n) (by simp only [Node.info_mk] at hnum; exact hnum.symm) cs hnums
      · next he =>
        simp only [he, if_false] at hp
        simp only [Node.info_mk, Node.children_mk]
        apply numOK_add cs _ hnums
        intro pnode hf
        rw [hp] at hf; cases hf
        exact hnum.symm
  · show ((leafReplace bt.leaves p.info n).map (·.hash)).Nodup
    have hnl : n.hash ∉ bt.leaves.map (·.hash) := by
      intro hm
      obtain ⟨x, hx, he⟩ := List.mem_map.1 hm
      have := leaf_hash_mem ((hi.leavesMem x).1 hx)
      rw [he] at this
      exact hfresh this
    rw [leafReplace_eq hnl]
    simp only [List.map_append, List.map_cons, List.map_nil]
    rw [List.nodup_append]
    refine ⟨((List.filter_sublist).map _).nodup hi.leavesNodup, by simp, ?_⟩
    intro a ha b hb hab
    simp only [List.mem_singleton] at hb
    subst hb; subst hab
    apply hnl
    obtain ⟨x, hx, he⟩ := List.mem_map.1 ha
    exact List.mem_map.2 ⟨x, (List.mem_filter.1 hx).1, he⟩
  · intro x
    show x ∈ leafReplace bt.leaves p.info n ↔ x ∈ leavesF [bt.root.addChild hd.parent (.mk n [])]
    have hnl : n.hash ∉ bt.leaves.map (·.hash) := by
      intro hm
      obtain ⟨y, hy, he⟩ := List.mem_map.1 hm
      have := leaf_hash_mem ((hi.leavesMem y).1 hy)
      rw [he] at this
      exact hfresh this
    rw [leafReplace_eq hnl, hroot, mem_leaves_add [bt.root] hi.nodup hpm]
    simp only [List.mem_append, List.mem_filter, List.mem_singleton, hi.leavesMem, hph]
    simp

theorem prune_cases (bt : BT) (fh : Hash) :
    (fh = bt.root.info.hash ∨ findF fh [bt.root] = none) ∧ bt.prune fh = (bt, []) ∨
    ∃ n, fh ≠ bt.root.info.hash ∧ findF fh [bt.root] = some n ∧
      bt.prune fh = (⟨n, (leavesF [n]).foldl (fun m l => leafStore l m) []⟩, pruneF n [bt.root]) := by
  unfold BT.prune BT.getNode
  by_cases h : fh = bt.root.info.hash
  · simp [h]
  · cases hf : findF fh [bt.root] with
    | none => simp [h]
    | some n => exact Or.inr ⟨n, h, rfl, by simp [h]⟩

/-- below the root a found node is a node of the children forest -/
theorem findF_below_root {i : Info} {cs : Forest} {fh : Hash} {n : Node} (hne : fh ≠ i.hash)
    (hf : findF fh [.mk i cs] = some n) : findF fh cs = some n ∧ n ∈ subsF cs := by
  rw [findF_root] at hf
  have : ¬ i.hash = fh := fun e => hne e.symm
  simp only [this, if_false] at hf
  exact ⟨hf, (findF_some cs n hf).1⟩

theorem inv_prune {bt : BT} (hi : Inv bt) (fh : Hash) : Inv (bt.prune fh).1 := by
  rcases prune_cases bt fh with ⟨_, h⟩ | ⟨n, hne, hf, h⟩
  · rw [h]; exact hi
  · rw [h]
    have hns : n ∈ subsF [bt.root] := (findF_some _ _ hf).1
    have hnd : (descF [n]).Nodup := subs_nodup hns hi.nodup
    have hl := foldl_store (leavesF [n]) [] (by simpa using leaves_hash_nodup hnd)
    constructor
    · exact hnd
    · show numOKF n.info.number n.children
      have hnums := hi.nums
      cases hr : bt.root with
      | mk i cs =>
        rw [hr] at hf hnums hne
        exact numOK_subs cs _ n hnums (findF_below_root hne hf).2
    · show (((leavesF [n]).foldl (fun m l => leafStore l m) []).map (·.hash)).Nodup
      rw [hl]; simpa using leaves_hash_nodup hnd
    · intro x
      show x ∈ (leavesF [n]).foldl (fun m l => leafStore l m) [] ↔ x ∈ leavesF [n]
      rw [hl]; simp

end Gossamer.BlockTree
