/-
C20: structure of the set of blocks with a supermajority for a tolerant vote set:
it is a chain (no two incomparable blocks), its members have a first-vote below them (so they are in the vote
graph), and they are blocks of the tree.
-/
import Gossamer.Lib.C20Weights
namespace Gossamer.C20

variable {t : Tree} {ws : List Nat}

theorem thr_gt_faulty (h0 : 0 < total ws) : faulty ws < threshold (total ws) := by
  have := three_faulty_lt h0
  have := threshold_le (total ws)
  unfold faulty
  omega

/-- two blocks with a supermajority of a tolerant vote set are comparable -/
theorem superm_comparable (h : t.WF) (h0 : 0 < total ws) {ops : List Op} {ph : Bool}
    (htol : tolerant ws ops ph = true) {A B : Nat}
    (hA : superm t ws ops ph A = true) (hB : superm t ws ops ph B = true) :
    A ∈ t.chain B ∨ B ∈ t.chain A := by
  apply Classical.byContradiction
  intro hnc
  have hnA : ¬ A ∈ t.chain B := fun x => hnc (Or.inl x)
  have hnB : ¬ B ∈ t.chain A := fun x => hnc (Or.inr x)
  -- whoever counts for both blocks equivocates
  have hpt : ∀ v, v < ws.length →
      ((isEquiv ops ph v || votesGE t ops ph v A) && (isEquiv ops ph v || votesGE t ops ph v B)) = true →
      isEquiv ops ph v = true := by
    intro v _ hv
    cases he : isEquiv ops ph v
    · exfalso
      simp only [he, Bool.false_or, Bool.and_eq_true] at hv
      obtain ⟨hgA, hgB⟩ := hv
      unfold votesGE at hgA hgB
      obtain ⟨x, hx, hpx⟩ := List.any_eq_true.1 hgA
      obtain ⟨y, hy, hpy⟩ := List.any_eq_true.1 hgB
      simp only [Bool.and_eq_true, decide_eq_true_eq, Tree.le_iff] at hpx hpy
      by_cases hxy : x = y
      · subst hxy
        exact hnc (Tree.comparable h hpx.2 hpy.2)
      · have : isEquiv ops ph v = true := (isEquiv_iff _ _ _).2 ⟨x, hx, y, hy, hxy⟩
        rw [he] at this; exact Bool.noConfusion this
    · rfl
  have hsum := wsum_or_and ws (fun v => isEquiv ops ph v || votesGE t ops ph v A)
    (fun v => isEquiv ops ph v || votesGE t ops ph v B)
  have h1 := wsum_le_total ws (fun j => (isEquiv ops ph j || votesGE t ops ph j A) ||
    (isEquiv ops ph j || votesGE t ops ph j B))
  have h2 : wsum ws (fun j => (isEquiv ops ph j || votesGE t ops ph j A) &&
      (isEquiv ops ph j || votesGE t ops ph j B)) ≤ equivWeight ws ops ph := by
    unfold equivWeight
    exact wsum_mono hpt
  unfold superm weightFor at hA hB
  unfold tolerant faulty at htol
  simp only [decide_eq_true_eq] at hA hB htol
  have h3 := three_faulty_lt h0
  have h4 := threshold_le (total ws)
  omega

/-- a block with a supermajority of a tolerant vote set has a voter whose first vote is at or below it -/
theorem superm_firstGE (h0 : 0 < total ws) {ops : List Op} {ph : Bool}
    (htol : tolerant ws ops ph = true) {B : Nat} (hB : superm t ws ops ph B = true) :
    ∃ v, v < ws.length ∧ firstGE t ops ph v B = true := by
  apply Classical.byContradiction
  intro hn
  have hall : ∀ v, v < ws.length → firstGE t ops ph v B = false := by
    intro v hv
    cases hf : firstGE t ops ph v B
    · rfl
    · exact absurd ⟨v, hv, hf⟩ hn
  have : weightFor t ws ops ph B = equivWeight ws ops ph := by
    unfold weightFor equivWeight
    apply wsum_congr
    intro v hv
    rw [equiv_or_votesGE, hall v hv]; simp
  unfold superm at hB
  unfold tolerant at htol
  simp only [decide_eq_true_eq] at hB htol
  have := thr_gt_faulty h0
  omega

theorem firstGE_lt (h : t.WF) {ops : List Op} {ph : Bool} {v B : Nat} (hf : firstGE t ops ph v B = true) :
    B < t.size := by
  unfold firstGE at hf
  split at hf
  · rename_i sv _
    simp only [Bool.and_eq_true, decide_eq_true_eq, Tree.le_iff] at hf
    have := Tree.mem_chain_le h _ _ hf.2
    omega
  · exact Bool.noConfusion hf

theorem superm_lt_size (h : t.WF) (h0 : 0 < total ws) {ops : List Op} {ph : Bool}
    (htol : tolerant ws ops ph = true) {B : Nat} (hB : superm t ws ops ph B = true) : B < t.size := by
  obtain ⟨v, _, hf⟩ := superm_firstGE h0 htol hB
  exact firstGE_lt h hf

/-- … and therefore lies in the vote graph -/
theorem superm_inGraph (h0 : 0 < total ws) {ops : List Op} {ph : Bool}
    (htol : tolerant ws ops ph = true) {B : Nat} (hB : superm t ws ops ph B = true) :
    inGraph (run t ws ops).cum B = true := by
  obtain ⟨v, hv, hf⟩ := superm_firstGE h0 htol hB
  have inv := bookInv_run t ws ops
  have hbit : ((run t ws ops).cum B).testBit (bitPos v (phN ph)) = true := by
    rw [inv.cum]; simp [hv, hf]
  have : (run t ws ops).cum B ≠ 0 := mask_ne_zero.2 ⟨_, hbit⟩
  simp [inGraph, this]

end Gossamer.C20
