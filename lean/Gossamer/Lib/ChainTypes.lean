/-
Chain data structures of the Polkadot specification as SCALE type descriptors over the shared
SCALE development (`Gossamer.Lib.Scale`).  Together with `Spec.codec` (the canonical SCALE codec)
this is the INDEPENDENT REFERENCE ENCODER of property C14: it is written from the specification
(Polkadot spec: block header & digests §"Block format", BABE §"Pre-digest"/"Consensus message",
GRANDPA §"Messages"/"Justification"; paritytech/finality-grandpa `Commit`, `SignedPrecommit`,
`Message`; sp-consensus-grandpa `GrandpaJustification`), not from the Go code.

`CTy` is `Ty` plus field / variant LABELS.  The labels are the names of the corresponding Go
declarations: the harness prints every value with its Go field names and the driver's text layer
checks them against these descriptors, so a swapped pair of same-typed fields or a renumbered
variant is seen even when the bytes have the same shape.  `CTy.toTy` forgets the labels.

Self-contained (imports only the SCALE library); used by C14 and importable by C09/C33.
-/
import Gossamer.Lib.Scale
namespace Gossamer.Chain
open Gossamer Gossamer.Scale

/-- labelled type descriptors; like `Ty` a struct is a `field … unit` chain and a varying data
    type a `variant … enumNil` chain, so plain structural recursion works -/
inductive CTy
  | prim (p : Prim)
  | unit
  | field (name : String) (t : CTy) (rest : CTy)
  | option (t : CTy)
  | array (n : Nat) (t : CTy)
  | seq (t : CTy)
  | enumNil
  | variant (idx : Nat) (name : String) (t : CTy) (rest : CTy)
deriving Repr, Inhabited

def CTy.toTy : CTy → Ty
  | .prim p => .prim p
  | .unit => .unit
  | .field _ t rest => .pair t.toTy rest.toTy
  | .option t => .option t.toTy
  | .array n t => .array n t.toTy
  | .seq t => .seq t.toTy
  | .enumNil => .enumNil
  | .variant i _ t rest => .enumCons i t.toTy rest.toTy

/-- a struct from its labelled fields, in encoding order -/
def st (fs : List (String × CTy)) : CTy := fs.foldr (fun f acc => .field f.1 f.2 acc) .unit
/-- a varying data type from its (index, label, payload) variants -/
def en (vs : List (Nat × String × CTy)) : CTy :=
  vs.foldr (fun v acc => .variant v.1 v.2.1 v.2.2 acc) .enumNil

/-- the variant table `index:label,…` of an enum descriptor (tied to the Go `IndexValue`/`ValueAt`
    tables by the harness's `idx` cases) -/
def CTy.table : CTy → List (Nat × String)
  | .variant i n _ rest => (i, n) :: rest.table
  | _ => []

def u8 : CTy := .prim .u8
def u32 : CTy := .prim .u32
def u64 : CTy := .prim .u64
/-- `Compact<BlockNumber>`; the Go field is a `uint`, so values up to 2^64-1 are expressible -/
def compact : CTy := .prim .compact
/-- `Vec<u8>`: compact length then the bytes -/
def bytes : CTy := .prim .bytes
/-- `[u8; n]` -/
def bytesN (n : Nat) : CTy := .array n u8
def h256 : CTy := bytesN 32
def sig64 : CTy := bytesN 64
def pub32 : CTy := bytesN 32

/-! ## block header and digest (spec "Block format") -/

/-- `(ConsensusEngineId [u8;4], Vec<u8>)` payload of PreRuntime / Consensus / Seal items -/
def enginePayload : CTy := st [("ConsensusEngineID", bytesN 4), ("Data", bytes)]

/-- the variants every implementation has: 4 Consensus, 5 Seal, 6 PreRuntime,
    8 RuntimeEnvironmentUpdated -/
def digestItemCore : CTy :=
  en [(4, "ConsensusDigest", enginePayload), (5, "SealDigest", enginePayload),
      (6, "PreRuntimeDigest", enginePayload), (8, "RuntimeEnvironmentUpdated", .unit)]

/-- spec `DigestItem`: 0 Other(Vec<u8>), 4 Consensus, 5 Seal, 6 PreRuntime,
    8 RuntimeEnvironmentUpdated -/
def digestItem : CTy := .variant 0 "Other" bytes digestItemCore

def digestOf (item : CTy) : CTy := .seq item
def digest : CTy := digestOf digestItem

/-- header: parent hash, Compact number, state root, extrinsics root, digest -/
def headerOf (item : CTy) : CTy :=
  st [("ParentHash", h256), ("Number", compact), ("StateRoot", h256), ("ExtrinsicsRoot", h256),
      ("Digest", digestOf item)]
def header : CTy := headerOf digestItem

/-- block body: `Vec<Extrinsic>`, each extrinsic an opaque `Vec<u8>` -/
def body : CTy := .seq bytes

/-! ## BABE (spec "BABE": pre-digest, consensus messages) -/

def babePrimary : CTy :=
  st [("AuthorityIndex", u32), ("SlotNumber", u64), ("VRFOutput", bytesN 32), ("VRFProof", bytesN 64)]
def babeSecondaryPlain : CTy := st [("AuthorityIndex", u32), ("SlotNumber", u64)]
def babeSecondaryVRF : CTy :=
  st [("AuthorityIndex", u32), ("SlotNumber", u64), ("VrfOutput", bytesN 32), ("VrfProof", bytesN 64)]

/-- BABE pre-digest: 1 primary, 2 secondary plain, 3 secondary VRF -/
def babePreDigest : CTy :=
  en [(1, "BabePrimaryPreDigest", babePrimary), (2, "BabeSecondaryPlainPreDigest", babeSecondaryPlain),
      (3, "BabeSecondaryVRFPreDigest", babeSecondaryVRF)]

/-- `(AuthorityId, BabeAuthorityWeight)` -/
def babeAuthority : CTy := st [("Key", pub32), ("Weight", u64)]
def nextEpochData : CTy := st [("Authorities", .seq babeAuthority), ("Randomness", bytesN 32)]
/-- `NextConfigDescriptor::V1 { c: (u64, u64), allowed_slots: u8-coded enum }` -/
def nextConfigDataV1 : CTy := st [("C1", u64), ("C2", u64), ("SecondarySlots", u8)]
def versionedNextConfigData : CTy := en [(1, "NextConfigDataV1", nextConfigDataV1)]

/-- BABE consensus message: 1 next epoch data, 2 on disabled, 3 next config data -/
def babeConsensusDigest : CTy :=
  en [(1, "NextEpochData", nextEpochData), (2, "BABEOnDisabled", st [("ID", u32)]),
      (3, "VersionedNextConfigData", versionedNextConfigData)]

/-! ## GRANDPA consensus messages (spec "GRANDPA": consensus message) -/

/-- `(AuthorityId, AuthorityWeight)` -/
def grandpaAuthority : CTy := st [("Key", pub32), ("ID", u64)]
def scheduledChange : CTy := st [("Auths", .seq grandpaAuthority), ("Delay", u32)]
def forcedChange : CTy :=
  st [("BestFinalizedBlock", u32), ("Auths", .seq grandpaAuthority), ("Delay", u32)]

/-- 1 scheduled change, 2 forced change, 3 on disabled, 4 pause, 5 resume -/
def grandpaConsensusDigest : CTy :=
  en [(1, "GrandpaScheduledChange", scheduledChange), (2, "GrandpaForcedChange", forcedChange),
      (3, "GrandpaOnDisabled", st [("ID", u64)]), (4, "GrandpaPause", st [("Delay", u32)]),
      (5, "GrandpaResume", st [("Delay", u32)])]

/-! ## GRANDPA votes, commits, justifications, network messages -/

/-- vote: block hash, block number (u32) -/
def vote : CTy := st [("Hash", h256), ("Number", u32)]
def signedVote : CTy := st [("Vote", vote), ("Signature", sig64), ("AuthorityID", pub32)]
/-- the signed payload: message kind (0 prevote, 1 precommit, 2 primary propose) and vote, round, set id -/
def fullVote : CTy := st [("Stage", u8), ("Vote", vote), ("Round", u64), ("SetID", u64)]
def signedMessage : CTy :=
  st [("Stage", u8), ("BlockHash", h256), ("Number", u32), ("Signature", sig64), ("AuthorityID", pub32)]
def voteMessage : CTy := st [("Round", u64), ("SetID", u64), ("Message", signedMessage)]
def authData : CTy := st [("Signature", sig64), ("AuthorityID", pub32)]
/-- compact commit: round, set id, target, precommits, their signatures -/
def commitMessage : CTy :=
  st [("Round", u64), ("SetID", u64), ("Vote", vote), ("Precommits", .seq vote), ("AuthData", .seq authData)]
def neighbourPacketV1 : CTy := st [("Round", u64), ("SetID", u64), ("Number", u32)]
def versionedNeighbourPacket : CTy := en [(1, "NeighbourPacketV1", neighbourPacketV1)]
def catchUpRequest : CTy := st [("Round", u64), ("SetID", u64)]
def catchUpResponse : CTy :=
  st [("SetID", u64), ("Round", u64), ("PreVoteJustification", .seq signedVote),
      ("PreCommitJustification", .seq signedVote), ("Hash", h256), ("Number", u32)]
/-- GRANDPA gossip message: 0 vote, 1 commit, 2 neighbour, 3 catch-up request, 4 catch-up response -/
def grandpaMessage : CTy :=
  en [(0, "VoteMessage", voteMessage), (1, "CommitMessage", commitMessage),
      (2, "VersionedNeighbourPacket", versionedNeighbourPacket), (3, "CatchUpRequest", catchUpRequest),
      (4, "CatchUpResponse", catchUpResponse)]
def commit : CTy := st [("Hash", h256), ("Number", u32), ("Precommits", .seq signedVote)]
/-- justification as stored / sent by lib/grandpa: round and commit -/
def justification : CTy := st [("Round", u64), ("Commit", commit)]

/-- equivocation proof (sp-consensus-grandpa) -/
def equivocation : CTy :=
  st [("RoundNumber", u64), ("ID", pub32), ("FirstVote", vote), ("FirstSignature", sig64),
      ("SecondVote", vote), ("SecondSignature", sig64)]
def equivocationProof : CTy :=
  st [("SetID", u64), ("Equivocation", en [(0, "PreVote", equivocation), (1, "PreCommit", equivocation)])]

/-! ## finality-grandpa / sp-consensus-grandpa types, generic in the block-number type -/

def fgTarget (n : CTy) : CTy := st [("TargetHash", h256), ("TargetNumber", n)]
/-- `finality_grandpa::Message`: 0 prevote, 1 precommit, 2 primary propose -/
def fgMessage (n : CTy) : CTy :=
  en [(0, "Prevote", fgTarget n), (1, "Precommit", fgTarget n), (2, "PrimaryPropose", fgTarget n)]
def fgSignedMessage (n : CTy) : CTy := st [("Message", fgMessage n), ("Signature", sig64), ("ID", pub32)]
def fgSignedPrecommit (n : CTy) : CTy := st [("Precommit", fgTarget n), ("Signature", sig64), ("ID", pub32)]
def fgCommit (n : CTy) : CTy :=
  st [("TargetHash", h256), ("TargetNumber", n), ("Precommits", .seq (fgSignedPrecommit n))]
/-- `GrandpaJustification`: round, commit, ancestry headers -/
def fgJustification (n : CTy) : CTy :=
  st [("Round", u64), ("Commit", fgCommit n), ("VoteAncestries", .seq header)]
def fgScheduledChange (n : CTy) : CTy :=
  st [("NextAuthorities", .seq (st [("AuthorityID", pub32), ("AuthorityWeight", u64)])), ("Delay", n)]
/-- the payload a GRANDPA voter signs: `(message, round, set_id)` -/
def localizedPayload (n : CTy) : CTy := st [("Message", fgMessage n), ("Round", u64), ("SetID", u64)]

/-! ## constants -/

def babeEngineID : Bytes := [0x42, 0x41, 0x42, 0x45]      -- "BABE"
def grandpaEngineID : Bytes := [0x46, 0x52, 0x4e, 0x4b]   -- "FRNK"

/-! ## the reference encoder / decoder -/

/-- reference encoder of a described type -/
def enc (c : CTy) (v : Val) : Bytes := encode Spec.codec c.toTy v
/-- reference decoder -/
def dec (c : CTy) (bs : Bytes) : Option (Val × Bytes) := decode Spec.codec c.toTy bs
/-- values of a described type -/
def wtc (c : CTy) (v : Val) : Bool := wt c.toTy v

/-- every described type round-trips through its reference encoding -/
theorem roundtrip (c : CTy) (v : Val) (r : Bytes) (h : wtc c v = true) :
    dec c (enc c v ++ r) = some (v, r) := Spec.roundtrip c.toTy v r h

/-- reference encodings are injective -/
theorem enc_inj (c : CTy) (v w : Val) (hv : wtc c v = true) (hw : wtc c w = true)
    (h : enc c v = enc c w) : v = w := encode_inj Spec.codec Spec.rt c.toTy v w hv hw h

/-- a successful reference decode consumed exactly a reference encoding (for well-formed
    descriptors: every enum tail is an enum) -/
theorem sound (c : CTy) (hwf : c.toTy.wf = true) (bs : Bytes) (v : Val) (r : Bytes)
    (h : dec c bs = some (v, r)) : wtc c v = true ∧ bs = enc c v ++ r :=
  Spec.sound c.toTy hwf bs v r h

end Gossamer.Chain
