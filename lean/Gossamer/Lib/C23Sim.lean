/-
C23: the model state simulates the specification state.  One step of the model (`imp` of a block not yet in
the block tree with a well-formed header, or `fin`) whose result is not one of the two refused imports of
finding `failed-import-keeps-block` is matched by the same step of the specification.  Core Lean only.
-/
import Gossamer.Lib.C23SimBase
namespace Gossamer.C23

/-- model state `s` represents specification state `p` -/
structure Sim (t : Tree) (s : St) (p : Spec) : Prop where
  live : p.known = s.live
  root : p.fin = s.root
  setId : p.setId = s.setId
  authsLen : p.auths.length = s.setId + 1
  startsLen : p.starts.length = s.setId + 1
  auths : ∀ i, i ≤ s.setId → lookup s.auths i = p.auths[i]?
  starts : ∀ i, i ≤ s.setId → lookup s.change i = p.starts[i]?
  forced : s.forced.Perm p.forced
  std : p.std = s.roots.filter (fun r => s.live.contains r.ann.blk)

/-- the same while block `b` is being imported: the model already holds `b`, the specification not yet -/
structure PreSim (t : Tree) (s : St) (p : Spec) (b : Nat) : Prop where
  live : p.known ++ [b] = s.live
  root : p.fin = s.root
  setId : p.setId = s.setId
  authsLen : p.auths.length = s.setId + 1
  startsLen : p.starts.length = s.setId + 1
  auths : ∀ i, i ≤ s.setId → lookup s.auths i = p.auths[i]?
  starts : ∀ i, i ≤ s.setId → lookup s.change i = p.starts[i]?
  forced : s.forced.Perm p.forced
  std : p.std = s.roots.filter (fun r => s.live.contains r.ann.blk)

structure Inv (t : Tree) (s : St) : Prop where
  live : LiveInv t s
  forced : FInv t s
  keys : KeysOK s
  roots : RInv t s

theorem sim_init (t : Tree) : Sim t St.init Spec.init := by
  refine ⟨rfl, rfl, rfl, rfl, rfl, ?_, ?_, List.Perm.refl _, rfl⟩ <;>
  · intro i hi
    have : i = 0 := by simpa [St.init] using hi
    subst this; rfl

theorem inv_init {t : Tree} (wf : t.WF) : Inv t St.init :=
  ⟨liveInv_init wf, fInv_init t, keysOK_init, rInv_init t⟩

/-! ### the forced change that becomes effective at the imported block -/

theorem forced_unique {t : Tree} (wf : t.WF) {s : St} (hf : FInv t s) (b n : Nat) :
    ∀ a ∈ s.forced, ∀ c ∈ s.forced, (anc t a.blk b && decide (eff t a = n)) = true →
      (anc t c.blk b && decide (eff t c = n)) = true → a = c := by
  intro a ha c hc h1 h2
  simp only [Bool.and_eq_true] at h1 h2
  rcases pairwise_mem hf.2 ha hc with e | h | h
  · exact e
  · rcases anc_linear wf b _ _ h1.1 h2.1 with h' | h'
    · rw [h.1] at h'; exact absurd h' (by simp)
    · rw [h.2] at h'; exact absurd h' (by simp)
  · rcases anc_linear wf b _ _ h1.1 h2.1 with h' | h'
    · rw [h.2] at h'; exact absurd h' (by simp)
    · rw [h.1] at h'; exact absurd h' (by simp)

theorem sim_enactForced {t : Tree} (wf : t.WF) {s1 : St} {p1 : Spec} {b : Nat} (hp : PreSim t s1 p1 b)
    (hl : LiveInv t s1) (hf : FInv t s1) (hr : RInv t s1) (hb : inBt t s1 b = true) (p : Spec) :
    match applyForced t s1 b with
    | .error e => e = .pending
    | .ok s2 => (Spec.enactForced t p p1 b).2 = .ok ∧ Sim t s2 (Spec.enactForced t p p1 b).1 := by
  have hfind : forcedFind t (isDesc t s1) b (num t b) s1.forced =
      .ok (p1.forced.find? (fun c => anc t c.blk b && decide (eff t c = num t b))) := by
    rw [forcedFind_eq wf _ _ _ _ (fun c hc =>
      isDesc_eq_anc wf hl (Or.inl ((inBt_iff t s1 _).1 (hf.1 c hc)).1) hb)]
    rw [find?_perm_unique _ hp.forced (forced_unique wf hf b (num t b))]
  unfold applyForced Spec.enactForced
  rw [hfind]
  cases hfc : p1.forced.find? (fun c => anc t c.blk b && decide (eff t c = num t b)) with
  | none =>
    refine ⟨rfl, ?_⟩
    exact ⟨hp.live, hp.root, hp.setId, hp.authsLen, hp.startsLen, hp.auths, hp.starts, hp.forced, hp.std⟩
  | some fc =>
    have hfcm : fc ∈ s1.forced := hp.forced.symm.subset (List.mem_of_find?_eq_some hfc)
    have hfcb : inBt t s1 fc.blk = true := hf.1 fc hfcm
    dsimp only
    have hdep : lookupRoots (depCond t s1 fc) s1.roots =
        .ok (s1.roots.find? (fun r => decide (eff t r.ann ≤ fc.best) && anc t r.ann.blk fc.blk)) := by
      rw [← lookupRoots_pure]
      apply lookupRoots_congr
      intro r hrm
      unfold depCond
      rw [isDesc_eq_anc wf hl (hr _ (mem_blocksF_of_mem hrm)) hfcb]
      by_cases h1 : eff t r.ann > fc.best
      · have : ¬ eff t r.ann ≤ fc.best := by omega
        simp [h1, this]
      · have : eff t r.ann ≤ fc.best := by omega
        simp [h1, this]
    rw [hdep]
    cases hd : s1.roots.find? (fun r => decide (eff t r.ann ≤ fc.best) && anc t r.ann.blk fc.blk) with
    | some r => rfl
    | none =>
      have hany : p1.std.any (fun r => decide (eff t r.ann ≤ fc.best) && anc t r.ann.blk fc.blk) = false := by
        rw [hp.std]; exact any_filter_of_find_none _ _ _ hd
      simp only [hany, Bool.false_eq_true, if_false]
      refine ⟨trivial, ?_⟩
      refine ⟨hp.live, hp.root, ?_, ?_, ?_, ?_, ?_, List.Perm.refl _, rfl⟩
      · simp [Spec.enact, startNext, hp.setId]
      · simp [Spec.enact, startNext, hp.authsLen]
      · simp [Spec.enact, startNext, hp.startsLen]
      · exact lookup_enact s1.auths p1.auths s1.setId fc.tag hp.authsLen hp.auths
      · exact lookup_enact s1.change p1.starts s1.setId fc.best hp.startsLen hp.starts

/-! ### the change announced by the imported block -/

theorem forcedGuard_err (isD : IsD) (pc : Ann) (hD : ∀ a d, isD a d ≠ none) : ∀ (oc : List Ann) (e : Err),
    (∀ c ∈ oc, c.blk ≠ pc.blk) → forcedGuard isD pc oc = .error e → e = .already := by
  intro oc
  induction oc with
  | nil => intro e _ h; simp [forcedGuard] at h
  | cons c cs ih =>
    intro e hne h
    simp only [forcedGuard] at h
    split at h
    · rename_i heq; exact absurd heq (hne c (by simp))
    · split at h
      · rename_i hn; exact absurd hn (hD _ _)
      · simp only [Except.error.injEq] at h; exact h.symm
      · exact ih e (fun x hx => hne x (by simp [hx])) h

theorem contains_append_ne (l : List Nat) (b x : Nat) (h : x ≠ b) : (l ++ [b]).contains x = l.contains x := by
  simp [h]

theorem sim_addChange {t : Tree} (wf : t.WF) {s : St} {p : Spec} (hs : Sim t s p) (hi : Inv t s) {b : Nat}
    (hfr : FreshImp t s b) (hhdr : malformed t b = false) :
    match handleDigests t { s with live := s.live ++ [b] } (filterDigests (t.anns.filter (·.blk = b))) with
    | .error e => e = .already
    | .ok s1 => ∃ p1, p.addChange t b = .ok p1 ∧ PreSim t s1 p1 b := by
  have hl0 := liveInv_add wf hi.live hfr
  have hpos := freshImp_pos wf hfr
  have hp := (inBt_iff t s _).1 hfr.parent
  have hnl := freshImp_not_live wf hi.live hfr
  have hb0 : inBt t { s with live := s.live ++ [b] } b = true := by
    rw [inBt_iff]; exact ⟨by simp, anc_trans wf _ _ _ hp.2 (anc_par wf hpos)⟩
  -- blocks already in the change tree differ from `b` and keep their status
  have hblk : ∀ x ∈ blocksF s.roots, (x ∈ s.live ++ [b] ∨ cmp t s.root x = false) ∧ x ≠ b := by
    intro x hx
    rcases hi.roots x hx with h | h
    · exact ⟨Or.inl (by simp [h]), fun e => hnl (e ▸ h)⟩
    · refine ⟨Or.inr h, fun e => ?_⟩
      subst e
      have : cmp t s.root x = true := by simp [cmp, anc_trans wf _ _ _ hp.2 (anc_par wf hpos)]
      rw [h] at this; exact absurd this (by simp)
  have hfilt : s.roots.filter (fun r => (s.live ++ [b]).contains r.ann.blk) =
      s.roots.filter (fun r => s.live.contains r.ann.blk) := by
    apply List.filter_congr
    intro r hrm
    exact contains_append_ne _ _ _ (hblk _ (mem_blocksF_of_mem hrm)).2
  have base : PreSim t { s with live := s.live ++ [b] } p b :=
    ⟨by rw [hs.live], hs.root, hs.setId, hs.authsLen, hs.startsLen, hs.auths, hs.starts, hs.forced,
      by rw [hs.std]; exact hfilt.symm⟩
  rw [digests_of_header t b hhdr]
  unfold Spec.addChange
  cases hsig : signalled t b with
  | none =>
    simp only [Option.toList, handleDigests]
    exact ⟨p, rfl, base⟩
  | some d =>
    have hd := signalled_blk t b d hsig
    simp only [Option.toList, handleDigests]
    cases hdf : d.forced with
    | true =>
      simp only [if_true]
      have hne : ∀ c ∈ s.forced, c.blk ≠ d.blk := by
        intro c hc e
        have := ((inBt_iff t s _).1 (hi.forced.1 c hc)).1
        rw [e, hd] at this; exact hnl this
      cases hfi : forcedImport t (isDesc t { s with live := s.live ++ [b] }) d s.forced with
      | error e =>
        unfold forcedImport at hfi
        split at hfi
        · rename_i e' hg
          simp only [Except.error.injEq] at hfi; subst hfi
          exact forcedGuard_err _ d (isDesc_ne_none t _) _ _ hne hg
        · exact absurd hfi (by simp)
      | ok f =>
        obtain ⟨⟨i, rfl⟩, hg⟩ := forcedImport_ok t _ d s.forced f hfi
        have hnone : p.forced.any (fun f => anc t f.blk b) = false := by
          rw [List.any_eq_false]
          intro c hc
          have hcm := hs.forced.symm.subset hc
          have hcl := ((inBt_iff t s _).1 (hi.forced.1 c hcm)).1
          have := (hg c hcm).2
          rw [hd, isDesc_live (by simp [hcl]) (by simp) (by rw [← hd]; exact hne c hcm)] at this
          simpa using this
        simp only [hnone, Bool.false_eq_true, if_false, handleDigests]
        refine ⟨_, rfl, ?_⟩
        refine ⟨base.live, base.root, base.setId, base.authsLen, base.startsLen, base.auths, base.starts, ?_, base.std⟩
        show (s.forced.take i ++ d :: s.forced.drop i).Perm (p.forced ++ [d])
        have h1 : (s.forced.take i ++ d :: s.forced.drop i).Perm (d :: (s.forced.take i ++ s.forced.drop i)) :=
          List.perm_middle
        rw [List.take_append_drop] at h1
        exact h1.trans ((List.Perm.cons d hs.forced).trans (List.perm_append_singleton d p.forced).symm)
    | false =>
      simp only [Bool.false_eq_true, if_false]
      have hd' : inBt t { s with live := s.live ++ [b] } d.blk = true := by rw [hd]; exact hb0
      have himp := schedImport_eq wf hl0 d hd' s.roots (fun x hx => by rw [hd]; exact hblk x hx)
      rw [himp]
      simp only [handleDigests]
      refine ⟨_, rfl, ?_⟩
      refine ⟨base.live, base.root, base.setId, base.authsLen, base.startsLen, base.auths, base.starts, base.forced, ?_⟩
      show specImportStd t d p.std = (specImportStd t d s.roots).filter (fun r => (s.live ++ [b]).contains r.ann.blk)
      rw [hs.std, ← hfilt]
      -- the import commutes with dropping the roots whose block is not known
      have hk : ∀ (c : Ann) (k1 k2 : List Node),
          (fun r : Node => (s.live ++ [b]).contains r.ann.blk) (.mk c k1) =
          (fun r : Node => (s.live ++ [b]).contains r.ann.blk) (.mk c k2) := fun _ _ _ => rfl
      have hdead : ∀ r ∈ s.roots, (s.live ++ [b]).contains r.ann.blk = false → anc t r.ann.blk d.blk = false := by
        intro r hrm hc
        have hx := (hblk _ (mem_blocksF_of_mem hrm)).1
        rcases hx with hx | hx
        · have : (s.live ++ [b]).contains r.ann.blk = true := by simpa using hx
          rw [hc] at this; exact absurd this (by simp)
        · rw [hd]; exact dead_anc_false wf hx (anc_trans wf _ _ _ hp.2 (anc_par wf hpos))
      unfold specImportStd
      rw [specImportKids_filter' d _ hk s.roots hdead]
      cases specImportKids t d s.roots with
      | some l => rfl
      | none =>
        simp only [Option.map, List.filter_append]
        simp [List.filter, Node.ann, hd]

end Gossamer.C23
