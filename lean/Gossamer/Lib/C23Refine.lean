/-
C23: the simulation through `imp` and `fin`, and along whole histories.  Core Lean only.
-/
import Gossamer.Lib.C23Sim
namespace Gossamer.C23

theorem handleDigests_frame (t : Tree) (ds : List Ann) (s s' : St) (h : handleDigests t s ds = .ok s') :
    s'.live = s.live ∧ s'.root = s.root :=
  ⟨(handleDigests_core t ds s s' h).2.2.2.1, (handleDigests_core t ds s s' h).2.2.2.2⟩

/-- `imp b` of a block that is not in the block tree, with a well-formed header, not refused -/
theorem sim_import {t : Tree} (wf : t.WF) {s : St} {p : Spec} (hs : Sim t s p) (hi : Inv t s) (b : Nat)
    (hfresh : inBt t s b = false) (hhdr : malformed t b = false)
    (hres : (importBlock t s b).2 ≠ .eDigest .already ∧ (importBlock t s b).2 ≠ .eForced .pending) :
    (p.importBlock t b).2 = (importBlock t s b).2 ∧ Sim t (importBlock t s b).1 (p.importBlock t b).1 := by
  have hcond : (p.known.contains (par t b) && anc t p.fin (par t b)) = inBt t s (par t b) := by
    rw [hs.live, hs.root]; rfl
  by_cases hpar : inBt t s (par t b) = true
  · have hfr : FreshImp t s b := ⟨hpar, hfresh⟩
    have hA := sim_addChange wf hs hi hfr hhdr
    have hl0 := liveInv_add wf hi.live hfr
    have hpos := freshImp_pos wf hfr
    have hp := (inBt_iff t s _).1 hpar
    have hb0 : inBt t { s with live := s.live ++ [b] } b = true := by
      rw [inBt_iff]; exact ⟨by simp, anc_trans wf _ _ _ hp.2 (anc_par wf hpos)⟩
    have ctx : TipCtx t { s with live := s.live ++ [b] } b := by
      refine ⟨hl0, hb0, ?_⟩
      intro x hx hbx
      simp only [List.mem_append, List.mem_singleton] at hx
      rcases hx with hx | hx
      · have := freshImp_tip wf hi.live hfr x hx
        rw [this] at hbx; exact absurd hbx (by simp)
      · exact hx
    have hf0 : FInv t { s with live := s.live ++ [b] } := by
      refine ⟨?_, hi.forced.2⟩
      intro c hc
      have := (inBt_iff t s _).1 (hi.forced.1 c hc)
      rw [inBt_iff]
      exact ⟨by simp [this.1], this.2⟩
    unfold importBlock at hres ⊢
    unfold Spec.importBlock
    simp only [hcond, hpar, hfresh, Bool.not_true, Bool.false_eq_true, if_false] at hres ⊢
    cases hd : handleDigests t { s with live := s.live ++ [b] } (filterDigests (t.anns.filter (·.blk = b))) with
    | error e =>
      rw [hd] at hA
      simp only [hd] at hres
      simp only at hA
      subst hA
      exact absurd rfl hres.1
    | ok s1 =>
      rw [hd] at hA
      simp only [hd] at hres ⊢
      obtain ⟨p1, hadd, hpre⟩ := hA
      simp only [hadd]
      have hfrm := handleDigests_frame t _ _ _ hd
      have hl1 : LiveInv t s1 := ⟨by rw [hfrm.1, hfrm.2]; exact hl0.1, by rw [hfrm.1, hfrm.2]; exact hl0.2.1,
        by rw [hfrm.1]; exact hl0.2.2⟩
      have hf1 : FInv t s1 := fInv_handleDigests _ _ _ (filterDigests_blk t b) ctx hf0 hd
      have hr1 : RInv t s1 := by
        intro x hx
        rw [hfrm.1, hfrm.2]
        rcases handleDigests_blocks _ { s with live := s.live ++ [b] } _ (filterDigests_blk t b) hd x hx with rfl | h'
        · exact Or.inl (by simp)
        · rcases hi.roots x h' with h'' | h''
          · exact Or.inl (by simp [h''])
          · exact Or.inr h''
      have hb1 : inBt t s1 b = true := by
        have := hb0
        simp only [inBt] at this ⊢
        rw [hfrm.1, hfrm.2]; exact this
      have hE := sim_enactForced wf hpre hl1 hf1 hr1 hb1 p
      cases hap : applyForced t s1 b with
      | error e =>
        rw [hap] at hE
        simp only [hap] at hres
        simp only at hE
        subst hE
        exact absurd rfl hres.2
      | ok s2 =>
        rw [hap] at hE
        simp only at hE ⊢
        exact ⟨hE.1, hE.2⟩
  · have hpar' : inBt t s (par t b) = false := by simpa using hpar
    unfold importBlock Spec.importBlock
    simp only [hcond, hpar', Bool.not_false, if_true]
    exact ⟨by first | rfl | trivial, hs⟩

/-! ### finalisation -/

theorem mem_live1 (t : Tree) (s : St) (b x : Nat) :
    (s.live.filter (fun y => anc t b y || anc t y b)).contains x = (s.live.contains x && cmp t b x) := by
  rw [Bool.eq_iff_iff]
  simp [cmp, List.mem_filter]

/-- the forced changes kept by `pruneChanges` at a finalisation of `b` are those announced at or below `b` -/
theorem forcedPrune_fin {t : Tree} (wf : t.WF) {s : St} (hl : LiveInv t s) {b : Nat} (hb : inBt t s b = true)
    (c : Ann) (hc : inBt t s c.blk = true) :
    (isDesc t { s with live := s.live.filter (fun y => anc t b y || anc t y b), root := b } b c.blk == some true) =
      anc t b c.blk := by
  have hb' := (inBt_iff t s b).1 hb
  have hc' := (inBt_iff t s c.blk).1 hc
  by_cases e : b = c.blk
  · rw [← e]; simp [isDesc, anc_refl wf]
  · have hbl : b ∈ s.live.filter (fun y => anc t b y || anc t y b) := by
      simp [List.mem_filter, hb'.1, anc_refl wf]
    cases ha : anc t b c.blk with
    | true =>
      have hcl : c.blk ∈ s.live.filter (fun y => anc t b y || anc t y b) := by
        simp [List.mem_filter, hc'.1, ha]
      rw [isDesc_live hbl hcl e, ha]; rfl
    | false =>
      by_cases hcl : c.blk ∈ s.live.filter (fun y => anc t b y || anc t y b)
      · rw [isDesc_live hbl hcl e, ha]; rfl
      · rw [isDesc_dead (Or.inr hcl) e]; rfl

theorem sim_fin {t : Tree} (wf : t.WF) {s : St} {p : Spec} (hs : Sim t s p) (hi : Inv t s) (b : Nat) :
    (p.finalise t b).2 = (finalise t s b).2 ∧ Sim t (finalise t s b).1 (p.finalise t b).1 := by
  have hcond : (p.known.contains b && anc t p.fin b) = inBt t s b := by
    rw [hs.live, hs.root]; rfl
  by_cases hb : inBt t s b = true
  · have hb' := (inBt_iff t s b).1 hb
    -- the state after `SetFinalisedHash`
    have hl1 := liveInv_fin wf hi.live hb
    have hr1 := rInv_setFinalised wf hi.roots hb
    have hb1 : inBt t { s with live := s.live.filter (fun x => anc t b x || anc t x b), root := b } b = true := by
      rw [inBt_iff]; exact ⟨hl1.1, anc_refl wf b⟩
    -- the forced slice after pruning
    have hforced : s.forced.filter (fun c => isDesc t
          { s with live := s.live.filter (fun x => anc t b x || anc t x b), root := b } b c.blk == some true) =
        s.forced.filter (fun c => anc t b c.blk) := by
      apply List.filter_congr
      intro c hc
      exact forcedPrune_fin wf hi.live hb c (hi.forced.1 c hc)
    have hpf : (s.forced.filter (fun c => anc t b c.blk)).Perm (p.forced.filter (fun f => anc t b f.blk)) :=
      hs.forced.filter _
    -- ancestry towards `b` for every block of the change tree
    have hanc : ∀ x ∈ blocksF s.roots, isDesc t
        { s with live := s.live.filter (fun x => anc t b x || anc t x b), root := b } x b = some (anc t x b) :=
      fun x hx => isDesc_eq_anc wf hl1 (hr1 x hx) hb1
    -- the three filters
    have hL1 : ∀ (l : List Node), (l.filter (fun r => s.live.contains r.ann.blk)).filter (fun r => cmp t b r.ann.blk) =
        l.filter (fun r => (s.live.filter (fun x => anc t b x || anc t x b)).contains r.ann.blk) := by
      intro l
      rw [List.filter_filter]
      apply List.filter_congr
      intro r _
      rw [mem_live1, Bool.and_comm]
    have hkids : ∀ r ∈ s.roots, r.kids.filter (fun k => cmp t b k.ann.blk) =
        r.kids.filter (fun k => (s.live.filter (fun x => anc t b x || anc t x b)).contains k.ann.blk) := by
      intro r hr
      apply List.filter_congr
      intro k hk
      rw [mem_live1]
      rcases hi.roots _ (mem_blocksF_kids hr (mem_blocksF_of_mem hk)) with h | h
      · have : s.live.contains k.ann.blk = true := by simpa using h
        rw [this, Bool.true_and]
      · rw [dead_stays_dead wf h hb'.2]; simp
    have hfind : p.std.find? (fun r => decide (eff t r.ann ≤ num t b) && anc t r.ann.blk b) =
        s.roots.find? (dueOn t b (num t b)) := by
      rw [hs.std]
      apply find?_filter_of_imp
      intro r hr hdue
      simp only [dueOn, Bool.and_eq_true] at hdue
      rcases hi.roots _ (mem_blocksF_of_mem hr) with h | h
      · simpa using h
      · rw [dead_anc_false wf h hb'.2] at hdue; exact absurd hdue.2 (by simp)
    unfold finalise Spec.finalise setFinalised
    simp only [hcond, hb, Bool.not_true, Bool.false_eq_true, if_false, if_true]
    unfold applyScheduled applyScheduledPartial
    rw [forcedPrune_eq _ _ (isDesc_ne_none t _), hforced]
    dsimp only
    by_cases hemp : s.roots.isEmpty = true
    · have hnil : s.roots = [] := by simpa using hemp
      simp only [hemp, if_true]
      have hstd : p.std = [] := by rw [hs.std, hnil]; rfl
      simp only [hstd, List.find?, List.filter]
      refine ⟨by first | rfl | trivial, ?_⟩
      exact ⟨by rw [hs.live]; rfl, rfl, hs.setId, hs.authsLen, hs.startsLen, hs.auths, hs.starts, hpf,
        by rw [hnil]; rfl⟩
    · simp only [hemp, Bool.false_eq_true, if_false]
      unfold schedFindApplicable
      have hcg : ∀ (f' : List Ann), isDesc t
          { live := s.live.filter (fun x => anc t b x || anc t x b), root := b, forced := f', roots := s.roots,
            setId := s.setId, auths := s.auths, change := s.change } =
          isDesc t { s with live := s.live.filter (fun x => anc t b x || anc t x b), root := b } :=
        fun f' => isDesc_congr t _ _ rfl
      simp only [hcg]
      rw [lookupRoots_applicable_eq wf _ b (num t b) s.roots (fun r hr =>
        ⟨hanc _ (mem_blocksF_of_mem hr), fun k hk => hanc _ (mem_blocksF_kids hr (mem_blocksF_of_mem hk))⟩)]
      rw [hfind]
      cases hfd : s.roots.find? (dueOn t b (num t b)) with
      | none =>
        simp only
        rw [schedPrune_eq _ _ (isDesc_ne_none t _)]
        simp only
        refine ⟨by first | rfl | trivial, ?_⟩
        refine ⟨by rw [hs.live]; rfl, rfl, hs.setId, hs.authsLen, hs.startsLen, hs.auths, hs.starts, hpf, ?_⟩
        show p.std.filter (fun r => cmp t b r.ann.blk) = _
        rw [hs.std, hL1, List.filter_filter]
        apply List.filter_congr
        intro r hr
        -- a root kept by `pruneChanges` is one whose block is still known
        have hx := hr1 _ (mem_blocksF_of_mem hr)
        by_cases hrl : r.ann.blk ∈ s.live.filter (fun x => anc t b x || anc t x b)
        · have hc : (s.live.filter (fun x => anc t b x || anc t x b)).contains r.ann.blk = true := by simpa using hrl
          rw [hc, Bool.true_and]
          by_cases e : b = r.ann.blk
          · rw [← e]; simp [isDesc]
          · rw [isDesc_live hl1.1 hrl e, isDesc_live hrl hl1.1 (Ne.symm e)]
            have := hl1.2.1 _ hrl
            simp only [cmp, Bool.or_eq_true] at this
            rcases this with h | h <;> simp [h]
        · have hc : (s.live.filter (fun x => anc t b x || anc t x b)).contains r.ann.blk = false := by simpa using hrl
          rw [hc, Bool.false_and]
      | some r =>
        have hrm := List.mem_of_find?_eq_some hfd
        simp only
        cases hsk : r.kids.any (skipped t b (num t b)) with
        | true =>
          have : r.kids.any (fun k => decide (num t k.ann.blk ≤ num t b) && anc t k.ann.blk b) = true := hsk
          simp only [this, if_true]
          refine ⟨by first | rfl | trivial, ?_⟩
          refine ⟨by rw [hs.live]; rfl, rfl, hs.setId, hs.authsLen, hs.startsLen, hs.auths, hs.starts, hpf, ?_⟩
          show p.std.filter (fun r => cmp t b r.ann.blk) = _
          rw [hs.std, hL1]
        | false =>
          have : r.kids.any (fun k => decide (num t k.ann.blk ≤ num t b) && anc t k.ann.blk b) = false := hsk
          simp only [this, Bool.false_eq_true, if_false]
          refine ⟨by first | rfl | trivial, ?_⟩
          refine ⟨by rw [hs.live]; rfl, rfl, ?_, ?_, ?_, ?_, ?_, hpf, ?_⟩
          · simp [Spec.enact, startNext, hs.setId]
          · simp [Spec.enact, startNext, hs.authsLen]
          · simp [Spec.enact, startNext, hs.startsLen]
          · exact lookup_enact s.auths p.auths s.setId r.ann.tag hs.authsLen hs.auths
          · exact lookup_enact s.change p.starts s.setId (num t b) hs.startsLen hs.starts
          · exact hkids r hrm
  · have hb' : inBt t s b = false := by simpa using hb
    unfold finalise Spec.finalise setFinalised
    simp only [hcond, hb', Bool.not_false, if_true, Bool.false_eq_true, if_false]
    exact ⟨by first | rfl | trivial, hs⟩

/-! ### whole histories -/

/-- an operation within the specification's scope: an `imp` names a block that is not in the block tree
    (every block is imported once) and whose header carries at most one change of each kind -/
def InScope (t : Tree) (s : St) : Op → Prop
  | .imp b => inBt t s b = false ∧ malformed t b = false
  | .fin _ => True

instance (t : Tree) (s : St) (op : Op) : Decidable (InScope t s op) := by
  cases op <;> unfold InScope <;> exact inferInstance

/-- the two import results of finding `failed-import-keeps-block` -/
def Refused (r : Res) : Prop := r = .eDigest .already ∨ r = .eForced .pending

instance (r : Res) : Decidable (Refused r) := by unfold Refused; exact inferInstance

/-- a history all of whose operations are in scope and none of whose imports is refused by the code -/
def Scoped (t : Tree) : St → List Op → Prop
  | _, [] => True
  | s, op :: ops => InScope t s op ∧ ¬ Refused (step t s op).2 ∧ Scoped t (step t s op).1 ops

instance (t : Tree) : ∀ (s : St) (ops : List Op), Decidable (Scoped t s ops)
  | _, [] => by unfold Scoped; exact inferInstance
  | s, op :: ops => by
    unfold Scoped
    have := instDecidableScoped t (step t s op).1 ops
    exact inferInstance

theorem inScope_fresh {t : Tree} {s : St} {op : Op} (h : InScope t s op) : FreshOp t s op := by
  cases op with
  | imp b => exact h.1
  | fin b => trivial

theorem scoped_fresh {t : Tree} : ∀ (ops : List Op) (s : St), Scoped t s ops → Fresh t s ops
  | [], _, _ => trivial
  | op :: ops, s, h => ⟨inScope_fresh h.1, scoped_fresh ops _ h.2.2⟩

theorem inv_step {t : Tree} (wf : t.WF) {s : St} (hi : Inv t s) (op : Op) (hf : FreshOp t s op) :
    Inv t (step t s op).1 :=
  ⟨liveInv_step wf s op hi.live, fInv_step wf s op hi.live hf hi.forced, keysOK_step t s op hi.keys,
    rInv_step wf s op hi.live hf hi.roots⟩

theorem inv_run {t : Tree} (wf : t.WF) : ∀ (ops : List Op) (s : St), Inv t s → Fresh t s ops → Inv t (run t s ops)
  | [], _, hi, _ => hi
  | op :: ops, s, hi, hf => inv_run wf ops _ (inv_step wf hi op hf.1) hf.2

theorem sim_step {t : Tree} (wf : t.WF) {s : St} {p : Spec} (hs : Sim t s p) (hi : Inv t s) (op : Op)
    (hsc : InScope t s op) (hres : ¬ Refused (step t s op).2) :
    (p.step t op).2 = (step t s op).2 ∧ Sim t (step t s op).1 (p.step t op).1 := by
  cases op with
  | imp b =>
    have h1 : (importBlock t s b).2 ≠ .eDigest .already := fun e => hres (Or.inl e)
    have h2 : (importBlock t s b).2 ≠ .eForced .pending := fun e => hres (Or.inr e)
    exact sim_import wf hs hi b hsc.1 hsc.2 ⟨h1, h2⟩
  | fin b => exact sim_fin wf hs hi b

/-- the specification run on a history -/
def Spec.run (t : Tree) (p : Spec) (ops : List Op) : Spec := ops.foldl (fun p op => (p.step t op).1) p

/-- the result classes of a history -/
def trace (t : Tree) : St → List Op → List Res
  | _, [] => []
  | s, op :: ops => (step t s op).2 :: trace t (step t s op).1 ops

def Spec.trace (t : Tree) : Spec → List Op → List Res
  | _, [] => []
  | p, op :: ops => (p.step t op).2 :: Spec.trace t (p.step t op).1 ops

theorem sim_run {t : Tree} (wf : t.WF) : ∀ (ops : List Op) (s : St) (p : Spec), Sim t s p → Inv t s →
    Scoped t s ops → Spec.trace t p ops = trace t s ops ∧ Sim t (run t s ops) (Spec.run t p ops)
  | [], _, _, hs, _, _ => ⟨rfl, hs⟩
  | op :: ops, s, p, hs, hi, hsc => by
    have h1 := sim_step wf hs hi op hsc.1 hsc.2.1
    have h2 := sim_run wf ops _ _ h1.2 (inv_step wf hi op (inScope_fresh hsc.1)) hsc.2.2
    refine ⟨?_, h2.2⟩
    simp only [Spec.trace, trace, h1.1, h2.1]

/-! ### observables -/

theorem topBelow_congr (f g : Nat → Nat) (n : Nat) : ∀ (k : Nat), (∀ i, i ≤ k → f i = g i) →
    topBelow f n k = topBelow g n k := by
  intro k
  induction k with
  | zero => intro _; rfl
  | succ k ih =>
    intro h
    simp only [topBelow, h (k + 1) (Nat.le_refl _), ih (fun i hi => h i (by omega))]

/-- `GetSetIDByBlockNumber` of the model state is the specification's `setIdAt` -/
theorem sim_setIdAt {t : Tree} {s : St} {p : Spec} (hs : Sim t s p) (hk : KeysOK s) (n : Nat) :
    setIdAt s n = some (p.setIdAt n) := by
  rw [setIdAt_eq s hk n]
  unfold Spec.setIdAt
  rw [hs.setId]
  congr 1
  apply topBelow_congr
  intro i hi
  rw [hs.starts i hi]
  simp [List.getD_eq_getElem?_getD]

end Gossamer.C23
