/-
C08: limited removals.  The loop of `storageDiff.clearPrefix` / `deleteChildLimit` and the loop of
the specification walk the same ascending candidate list and take the same initial segment.
-/
import Gossamer.Lib.C08Writes3
set_option linter.unusedSectionVars false
set_option linter.unusedSimpArgs false
namespace Gossamer.C08
open Gossamer

/-- the candidates processed before the limit is used up; `isOld k` = the key is in the committed
    trie (consumes one unit) -/
def takeLim (isOld : Bytes → Bool) : List Bytes → Option Nat → List Bytes
  | [], _ => []
  | k :: r, limit =>
    if limit = some 0 then []
    else k :: takeLim isOld r (if isOld k then limit.map (· - 1) else limit)

theorem takeLim_subset (isOld : Bytes → Bool) (ks : List Bytes) :
    ∀ limit x, x ∈ takeLim isOld ks limit → x ∈ ks := by
  induction ks with
  | nil => intro limit x h; simp [takeLim] at h
  | cons k r ih =>
    intro limit x h
    simp only [takeLim] at h
    split at h
    · simp at h
    · rcases List.mem_cons.mp h with h | h
      · simp [h]
      · exact List.mem_cons_of_mem _ (ih _ x h)

theorem limitLoop_take {σ : Type} (del : σ → Bytes → σ) (sel : Bytes → Bool) (nk : List Bytes)
    (isOld : Bytes → Bool) (ks : List Bytes) (hsel : ∀ k ∈ ks, sel k = true)
    (hnew : ∀ k ∈ ks, nk.contains k = !isOld k) :
    ∀ (limit : Option Nat) (s : σ) (n : Nat),
      limitLoop del sel nk ks limit s n =
        ((takeLim isOld ks limit).foldl del s, n + (takeLim isOld ks limit).length) := by
  induction ks with
  | nil => intro limit s n; rfl
  | cons k r ih =>
    intro limit s n
    have h1 := hsel k (by simp)
    have h2 := hnew k (by simp)
    simp only [limitLoop, takeLim]
    by_cases h0 : limit = some 0
    · simp [h0]
    · simp only [h0, if_false, h1, if_true, List.foldl_cons, List.length_cons]
      have e : (if nk.contains k = true then limit else Option.map (· - 1) limit) =
          (if isOld k = true then Option.map (· - 1) limit else limit) := by
        rw [h2]; cases isOld k <;> simp
      rw [e, ih (fun x hx => hsel x (by simp [hx])) (fun x hx => hnew x (by simp [hx]))]
      simp only [Prod.mk.injEq, true_and]
      omega

theorem specLoop_take (back : Entries) (isOld : Bytes → Bool) (ks : List Bytes)
    (h : ∀ k ∈ ks, (OMap.get k back).isSome = isOld k) :
    ∀ (limit : Option Nat) (t : Entries) (n : Nat),
      specLoop back ks limit t n =
        ((takeLim isOld ks limit).foldl (fun t k => OMap.erase k t) t,
          n + (takeLim isOld ks limit).length) := by
  induction ks with
  | nil => intro limit t n; rfl
  | cons k r ih =>
    intro limit t n
    have h1 := h k (by simp)
    simp only [specLoop, takeLim]
    by_cases h0 : limit = some 0
    · simp [h0]
    · simp only [h0, if_false, List.foldl_cons, List.length_cons, h1]
      rw [ih (fun x hx => h x (by simp [hx]))]
      simp only [Prod.mk.injEq, true_and]
      omega

/-! ### candidate lists -/

theorem kset_ext {a b : List Bytes} (ha : KSet.Sorted a) (hb : KSet.Sorted b)
    (h : ∀ x, x ∈ a ↔ x ∈ b) : a = b := by
  induction a generalizing b with
  | nil =>
    cases b with
    | nil => rfl
    | cons y r => have := (h y).mpr (by simp); simp at this
  | cons x a' ih =>
    cases b with
    | nil => have := (h x).mp (by simp); simp at this
    | cons y b' =>
      have hxy : x = y := by
        rcases klt_trichotomy x y with hlt | heq | hgt
        · have hx := (h x).mp (by simp)
          rcases List.mem_cons.mp hx with e | e
          · exact e
          · have := klt_asymm (hb.1 x e); rw [hlt] at this; cases this
        · exact heq
        · have hy := (h y).mpr (by simp)
          rcases List.mem_cons.mp hy with e | e
          · exact e.symm
          · have := klt_asymm (ha.1 y e); rw [hgt] at this; cases this
      subst hxy
      congr 1
      apply ih ha.2 hb.2
      intro z
      constructor
      · intro hz
        have := (h z).mp (by simp [hz])
        rcases List.mem_cons.mp this with e | e
        · subst e; have := ha.1 z hz; simp [klt_irrefl] at this
        · exact e
      · intro hz
        have := (h z).mpr (by simp [hz])
        rcases List.mem_cons.mp this with e | e
        · subst e; have := hb.1 z hz; simp [klt_irrefl] at this
        · exact e

theorem sorted_insDup {k : Bytes} {l : List Bytes} (hs : KSet.Sorted l) (hk : k ∉ l) :
    KSet.Sorted (insDup k l) := by
  induction l with
  | nil => exact ⟨fun _ h => by simp at h, trivial⟩
  | cons e r ih =>
    simp only [insDup]
    have hne : k ≠ e := fun h => hk (by simp [h])
    split
    · rename_i hlt
      refine ⟨?_, ih hs.2 (fun h => hk (by simp [h]))⟩
      intro x hx
      rcases (mem_insDup k x r).mp hx with hx | hx
      · subst hx; exact hlt
      · exact hs.1 x hx
    · rename_i hlt
      have hke : klt k e = true := by
        rcases klt_trichotomy k e with h | h | h
        · exact h
        · exact absurd h hne
        · exact absurd h hlt
      refine ⟨?_, hs⟩
      intro x hx
      rcases List.mem_cons.mp hx with hx | hx
      · subst hx; exact hke
      · exact klt_trans hke (hs.1 x hx)

theorem sorted_sortKeys {l : List Bytes} (h : l.Nodup) : KSet.Sorted (sortKeys l) := by
  induction l with
  | nil => trivial
  | cons e r ih =>
    simp only [List.nodup_cons] at h
    have : sortKeys (e :: r) = insDup e (sortKeys r) := rfl
    rw [this]
    exact sorted_insDup (ih h.2) (fun hm => h.1 ((mem_sortKeys e r).mp hm))

theorem sorted_unionKeys (a b : List Bytes) : KSet.Sorted (unionKeys a b) := by
  unfold unionKeys
  have : ∀ (l : List Bytes) (s : KSet), KSet.Sorted s → KSet.Sorted (l.foldl (fun s k => KSet.ins k s) s) := by
    intro l
    induction l with
    | nil => intro s hs; exact hs
    | cons e r ih => intro s hs; exact ih _ (KSet.sorted_ins e hs)
  exact this _ _ trivial

theorem mem_unionKeys (a b : List Bytes) (x : Bytes) : x ∈ unionKeys a b ↔ (x ∈ a ∨ x ∈ b) := by
  unfold unionKeys
  have : ∀ (l : List Bytes) (s : KSet), x ∈ l.foldl (fun s k => KSet.ins k s) s ↔ (x ∈ l ∨ x ∈ s) := by
    intro l
    induction l with
    | nil => intro s; simp
    | cons e r ih =>
      intro s
      simp only [List.foldl_cons, ih, KSet.mem_ins, List.mem_cons]
      constructor
      · rintro (h | h | h)
        · exact Or.inl (Or.inr h)
        · exact Or.inl (Or.inl h)
        · exact Or.inr h
      · rintro ((h | h) | h)
        · exact Or.inr (Or.inl h)
        · exact Or.inl h
        · exact Or.inr (Or.inr h)
  rw [this]
  simp [List.mem_append]

theorem foldl_erase_eq_filter (T : List Bytes) {es : Entries} (hs : OMap.Sorted es) :
    T.foldl (fun t k => OMap.erase k t) es = es.filter (fun e => !(T.contains e.1)) := by
  apply OMap.sorted_ext (sorted_foldl_erase T hs) (OMap.sorted_filter _ hs)
  intro k
  rw [get_foldl_erase]
  have := OMap.get_filter_key (fun y => !(T.contains y)) es k
  rw [this]
  by_cases h : k ∈ T <;> simp [h]

end Gossamer.C08
