/-
C17 — basic lemmas about the list-backed maps of Model/C17 (`findB`, `deleteB`, `storeB`, `putN`) and about
the parent walk (`pathUp`, `upList`).  Core Lean only.
-/
import Gossamer.Model.C17
namespace Gossamer.C17

/-! ### findB -/

theorem findB_some {l : List Blk} {h : Nat} {b : Blk} (hb : findB l h = some b) : b ∈ l ∧ b.hash = h := by
  unfold findB at hb
  exact ⟨List.mem_of_find?_eq_some hb, by simpa using List.find?_some hb⟩

theorem findB_none {l : List Blk} {h : Nat} (hb : findB l h = none) : ∀ b ∈ l, b.hash ≠ h := by
  unfold findB at hb
  intro b hm heq
  have := List.find?_eq_none.mp hb b hm
  simp [heq] at this

theorem findB_isSome_of_mem {l : List Blk} {b : Blk} (hb : b ∈ l) : (findB l b.hash).isSome := by
  cases h : findB l b.hash with
  | some x => rfl
  | none => exact absurd rfl (findB_none h b hb)

theorem findB_nil (h : Nat) : findB [] h = none := rfl

theorem findB_cons (a : Blk) (l : List Blk) (h : Nat) :
    findB (a :: l) h = if a.hash = h then some a else findB l h := by
  unfold findB
  by_cases ha : a.hash = h <;> simp [ha]

theorem findB_append (l₁ l₂ : List Blk) (h : Nat) :
    findB (l₁ ++ l₂) h = match findB l₁ h with
      | some b => some b
      | none => findB l₂ h := by
  unfold findB
  rw [List.find?_append]
  cases l₁.find? (fun b => decide (b.hash = h)) <;> rfl

/-- find in a filtered list: an element that passes the filter is still found when hashes are unique -/
theorem findB_filter (l : List Blk) (p : Blk → Bool) (h : Nat) :
    findB (l.filter p) h = l.find? (fun b => p b && decide (b.hash = h)) := by
  unfold findB
  rw [List.find?_filter]
  congr 1
  funext a
  cases p a <;> simp

/-- every member is the one its hash finds -/
def Uniq (l : List Blk) : Prop := ∀ b ∈ l, findB l b.hash = some b

theorem Uniq.eq_of_hash {l : List Blk} (hu : Uniq l) {a b : Blk} (ha : a ∈ l) (hb : b ∈ l)
    (h : a.hash = b.hash) : a = b := by
  have h1 := hu a ha
  have h2 := hu b hb
  rw [h, h2] at h1
  exact (Option.some.inj h1).symm

theorem findB_filter_of_uniq {l : List Blk} (hu : Uniq l) (p : Blk → Bool) {b : Blk} (hb : b ∈ l)
    (hp : p b = true) : findB (l.filter p) b.hash = some b := by
  have hm : b ∈ l.filter p := List.mem_filter.mpr ⟨hb, hp⟩
  cases hf : findB (l.filter p) b.hash with
  | none => exact absurd rfl (findB_none hf b hm)
  | some c =>
    have hc := findB_some hf
    have hcl : c ∈ l := (List.mem_filter.mp hc.1).1
    rw [hu.eq_of_hash hcl hb hc.2]

theorem findB_filter_none {l : List Blk} (p : Blk → Bool) {h : Nat}
    (hn : ∀ b ∈ l, b.hash = h → p b = false) : findB (l.filter p) h = none := by
  cases hf : findB (l.filter p) h with
  | none => rfl
  | some c =>
    have hc := findB_some hf
    have hm := List.mem_filter.mp hc.1
    rw [hn c hm.1 hc.2] at hm
    exact absurd hm.2 (by simp)

theorem Uniq.filter {l : List Blk} (hu : Uniq l) (p : Blk → Bool) : Uniq (l.filter p) := by
  intro b hb
  have hm := List.mem_filter.mp hb
  exact findB_filter_of_uniq hu p hm.1 hm.2

theorem findB_deleteB (l : List Blk) (h x : Nat) :
    findB (deleteB l h) x = if x = h then none else findB l x := by
  unfold deleteB
  rw [findB_filter]
  by_cases hx : x = h
  · subst hx
    simp only [if_true]
    apply List.find?_eq_none.mpr
    intro b _
    by_cases hb : b.hash = x <;> simp [hb]
  · simp only [hx, if_false]
    unfold findB
    congr 1
    funext b
    by_cases hb : b.hash = x
    · have : b.hash ≠ h := by omega
      simp [hb, hx]
    · simp [hb]

theorem mem_deleteB {l : List Blk} {h : Nat} {b : Blk} : b ∈ deleteB l h ↔ b ∈ l ∧ b.hash ≠ h := by
  unfold deleteB
  simp [List.mem_filter]

theorem findB_storeB (l : List Blk) (b : Blk) (x : Nat) :
    findB (storeB l b) x = if x = b.hash then some b else findB l x := by
  unfold storeB
  rw [findB_append]
  have := findB_deleteB l b.hash x
  unfold deleteB at this
  rw [this]
  by_cases hx : x = b.hash
  · simp [hx, findB_cons]
  · simp only [hx, if_false]
    cases findB l x with
    | some c => rfl
    | none => simp [findB_cons, findB_nil, Ne.symm hx]

theorem mem_storeB {l : List Blk} {b c : Blk} : c ∈ storeB l b ↔ (c ∈ l ∧ c.hash ≠ b.hash) ∨ c = b := by
  unfold storeB
  simp [List.mem_filter]

/-! ### the number table -/

theorem lookupN_putN (m : List (Nat × Nat)) (k v x : Nat) :
    lookupN (putN m k v) x = if x = k then some v else lookupN m x := by
  unfold putN lookupN
  by_cases hx : x = k
  · subst hx; simp
  · have hk : ¬ k = x := fun h => hx h.symm
    simp only [List.find?_cons, hk, decide_false, hx, if_false]
    rw [List.find?_filter]
    congr 1
    congr 1
    funext p
    by_cases hp : p.1 = x
    · simp [hp, hx]
    · simp [hp]

/-- flushing a batch whose keys are all different from `x` leaves `x` alone -/
theorem lookupN_flush_other (batch : List (Nat × Nat)) (m : List (Nat × Nat)) (x : Nat)
    (hx : ∀ p ∈ batch, p.1 ≠ x) :
    lookupN (batch.foldl (fun m p => putN m p.1 p.2) m) x = lookupN m x := by
  induction batch generalizing m with
  | nil => rfl
  | cons p rest ih =>
    rw [List.foldl_cons, ih _ (fun q hq => hx q (List.mem_cons_of_mem _ hq)), lookupN_putN]
    have := hx p (List.mem_cons_self ..)
    simp [Ne.symm this]

/-- flushing a batch with pairwise different keys stores every entry -/
theorem lookupN_flush_mem (batch : List (Nat × Nat)) (m : List (Nat × Nat))
    (hnd : (batch.map (·.1)).Nodup) {p : Nat × Nat} (hp : p ∈ batch) :
    lookupN (batch.foldl (fun m p => putN m p.1 p.2) m) p.1 = some p.2 := by
  induction batch generalizing m with
  | nil => simp at hp
  | cons q rest ih =>
    rw [List.map_cons, List.nodup_cons] at hnd
    rw [List.foldl_cons]
    rcases List.mem_cons.mp hp with rfl | hr
    · rw [lookupN_flush_other _ _ _ (fun r hr hk => hnd.1 (List.mem_map.mpr ⟨r, hr, hk⟩)), lookupN_putN]
      simp
    · exact ih _ hnd.2 hr

end Gossamer.C17
