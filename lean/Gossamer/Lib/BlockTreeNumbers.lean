/-
Block numbers: `hashesAtNumber` and the bound by the deepest leaf.
-/
import Gossamer.Lib.BlockTreeSim

namespace Gossamer.BlockTree

theorem hashesAtF_sublist (num : Nat) : ∀ f, (hashesAtF num f).Sublist (descF f) := by
  intro f
  induction f using forest_ind with
  | nil => simp [hashesAtF, descF]
  | cons i cs rest ih1 ih2 =>
    simp only [hashesAtF, descF]
    split
    · simp only [List.cons_append, List.nil_append]
      exact ((List.nil_sublist _).append ih2).cons₂ _
    · split
      · exact (List.Sublist.append ih1 ih2).trans (List.sublist_cons_self _ _)
      · simp only [List.nil_append]
        exact (ih2.trans (List.sublist_append_right _ _)).trans (List.sublist_cons_self _ _)

theorem numOK_gt : ∀ f pn, numOKF pn f → ∀ x ∈ infosF f, pn < x.number := by
  intro f
  induction f using forest_ind with
  | nil => simp [infosF]
  | cons i cs rest ih1 ih2 =>
    intro pn hn x hx
    simp only [numOKF] at hn
    simp only [infosF, List.mem_cons, List.mem_append] at hx
    rcases hx with rfl | hx | hx
    · omega
    · have := ih1 _ hn.2.1 x hx; omega
    · exact ih2 _ hn.2.2 x hx

theorem mem_hashesAtF {num : Nat} {h : Hash} : ∀ f pn, numOKF pn f →
    (h ∈ hashesAtF num f ↔ ∃ x ∈ infosF f, x.hash = h ∧ x.number = num) := by
  intro f
  induction f using forest_ind with
  | nil => simp [hashesAtF, infosF]
  | cons i cs rest ih1 ih2 =>
    intro pn hn
    simp only [numOKF] at hn
    have i1 := ih1 _ hn.2.1
    have i2 := ih2 _ hn.2.2
    have gt := numOK_gt cs _ hn.2.1
    simp only [hashesAtF, infosF, List.mem_append, List.mem_cons, i2]
    constructor
    · rintro (h1 | ⟨x, hx, hh, hnum⟩)
      · split at h1
        · next he => simp only [List.mem_singleton] at h1; exact ⟨i, Or.inl rfl, h1.symm, he.symm⟩
        · split at h1
          · obtain ⟨x, hx, hh, hnum⟩ := i1.1 h1
            exact ⟨x, Or.inr (Or.inl hx), hh, hnum⟩
          · simp at h1
      · exact ⟨x, Or.inr (Or.inr hx), hh, hnum⟩
    · rintro ⟨x, hx, hh, hnum⟩
      rcases hx with rfl | hx | hx
      · left; simp [hnum, hh]
      · left
        have := gt x hx
        have h1 : ¬ num = i.number := by omega
        have h2 : num > i.number := by omega
        simp only [h1, if_false, h2, if_true]
        exact i1.2 ⟨x, hx, hh, hnum⟩
      · exact Or.inr ⟨x, hx, hh, hnum⟩

/-- below (or at) every node there is a leaf -/
theorem leaf_above : ∀ f pn, numOKF pn f → ∀ x ∈ infosF f, ∃ l ∈ leavesF f, x.number ≤ l.number := by
  intro f
  induction f using forest_ind with
  | nil => simp [infosF]
  | cons i cs rest ih1 ih2 =>
    intro pn hn x hx
    simp only [numOKF] at hn
    simp only [infosF, List.mem_cons, List.mem_append] at hx
    simp only [leavesF, List.mem_append]
    rcases hx with rfl | hx | hx
    · cases cs with
      | nil => exact ⟨x, Or.inl (by simp), Nat.le_refl _⟩
      | cons c cs' =>
        cases c with
        | mk ci ccs =>
          have hci : ci ∈ infosF (.mk ci ccs :: cs') := by simp [infosF]
          obtain ⟨l, hl, hle⟩ := ih1 _ hn.2.1 ci hci
          have := numOK_gt _ _ hn.2.1 ci hci
          exact ⟨l, Or.inr (Or.inl hl), by omega⟩
    · obtain ⟨l, hl, hle⟩ := ih1 _ hn.2.1 x hx
      exact ⟨l, Or.inr (Or.inl hl), hle⟩
    · obtain ⟨l, hl, hle⟩ := ih2 _ hn.2.2 x hx
      exact ⟨l, Or.inr (Or.inr hl), hle⟩

theorem foldl_max_ge (ls : List Info) : ∀ (acc : Nat),
    acc ≤ ls.foldl (fun hi l => if l.number > hi then l.number else hi) acc ∧
    ∀ l ∈ ls, l.number ≤ ls.foldl (fun hi l => if l.number > hi then l.number else hi) acc := by
  induction ls with
  | nil => simp
  | cons x xs ih =>
    intro acc
    simp only [List.foldl_cons, List.mem_cons]
    have := ih (if x.number > acc then x.number else acc)
    by_cases hx : x.number > acc
    · simp only [hx, if_true] at this ⊢
      refine ⟨by have := this.1; omega, ?_⟩
      rintro l (rfl | hl)
      · exact this.1
      · exact this.2 l hl
    · simp only [hx, if_false] at this ⊢
      refine ⟨this.1, ?_⟩
      rintro l (rfl | hl)
      · have := this.1; omega
      · exact this.2 l hl

theorem findF_info_iff {f : Forest} (hd : (descF f).Nodup) {h : Hash} {i : Info} :
    (findF h f).map (·.info) = some i ↔ i ∈ infosF f ∧ i.hash = h := by
  constructor
  · intro hm
    cases hf : findF h f with
    | none => simp [hf] at hm
    | some n =>
      simp only [hf, Option.map_some, Option.some.injEq] at hm
      obtain ⟨hn, hh⟩ := findF_some f n hf
      subst hm
      exact ⟨by rw [← subsF_map_info]; exact List.mem_map.2 ⟨n, hn, rfl⟩, hh⟩
  · rintro ⟨hi, hh⟩
    rw [← subsF_map_info] at hi
    obtain ⟨n, hn, rfl⟩ := List.mem_map.1 hi
    rw [← hh, findF_of_mem hd hn]; rfl

end Gossamer.BlockTree
