/-
C20 layer (b): the round of `Model/C20.lean` running on the COMPRESSED vote graph (`C20Graph*.lean`) – the data
structure round.go really uses.  Same code as `update` / `importVote` / `precommitGhost`, with
`VoteGraph.Insert / FindGHOST / FindAncestor` of the compressed model; blocks are remembered as
(hash, number) pairs like `HashNumber`.
-/
import Gossamer.Lib.C20GraphFind
namespace Gossamer.C20

structure RoundC where
  trk : Bool → Nat → Option VM
  cur : Bool → Nat
  eqv : Mask
  graph : Graph
  ghost : Option (Nat × Nat)
  pcGhost : Option (Nat × Nat)
  fin : Option (Nat × Nat)
  est : Option (Nat × Nat)
  compl : Bool

def RoundC.init : RoundC :=
  { trk := fun _ _ => none, cur := fun _ => 0, eqv := 0, graph := Graph.init,
    ghost := none, pcGhost := none, fin := none, est := none, compl := false }

/-- `Round.update` on the compressed graph -/
def updateC (key : Nat → Nat) (t : Tree) (ws : List Nat) (r : RoundC) : RoundC :=
  let thr := threshold (total ws)
  let fuel := t.size + 1
  if r.cur false < thr then r else
  match r.ghost with
  | none => r
  | some g =>
    let fin := if r.cur true ≥ thr
      then r.graph.findAncestor key fuel (supermCond ws r.eqv true) fuel g.1 g.2 else r.fin
    if r.cur true ≥ thr then
      let est := r.graph.findAncestor key fuel (possibleToPrecommit ws (r.cur true) r.eqv) fuel g.1 g.2
      let compl := match est with
        | none => false
        | some e => (e.1 != g.1) ||
            (match r.graph.findGhost key fuel (some e) (possibleToPrecommit ws (r.cur true) r.eqv) with
             | none => true
             | some x => x == g)
      { r with fin := fin, est := est, compl := compl }
    else
      { r with fin := fin, est := some g }

def ghostStepC (key : Nat → Nat) (t : Tree) (ws : List Nat) (ph : Bool) (r : RoundC) : RoundC :=
  if ph = false ∧ r.cur false ≥ threshold (total ws)
  then { r with ghost := r.graph.findGhost key (t.size + 1) r.ghost (supermCond ws r.eqv false) }
  else r

/-- `Round.importPrevote` / `importPrecommit` on the compressed graph -/
def importVoteC (key : Nat → Nat) (t : Tree) (ws : List Nat) (r : RoundC) (ph : Bool) (v : Nat) (sv : SV) :
    ImportRes × RoundC :=
  if v ≥ ws.length then (.notVoter, r) else
  match addVote (r.trk ph v) sv with
  | (.dup, _) => (.dup, r)
  | (.ignored, _) => (.ok, r)
  | (.fresh, slot) =>
    let r1 := { r with trk := fun p u => if p = ph ∧ u = v then slot else r.trk p u,
                       cur := fun p => if p = ph then r.cur p + ws.getD v 0 else r.cur p }
    if sv.blk ≥ t.size then (.err, r1) else
    let r2 := { r1 with graph := r1.graph.insert key t sv.blk (bitPos v (phN ph)) }
    (.ok, updateC key t ws (ghostStepC key t ws ph r2))
  | (.equivocated a b, slot) =>
    let r1 := { r with trk := fun p u => if p = ph ∧ u = v then slot else r.trk p u }
    let r2 := { r1 with eqv := setBit r1.eqv (bitPos v (phN ph)) }
    (.equivocation a b, updateC key t ws (ghostStepC key t ws ph r2))

/-- `Round.PrecommitGHOST` on the compressed graph -/
def precommitGhostC (key : Nat → Nat) (t : Tree) (ws : List Nat) (r : RoundC) : RoundC :=
  if r.cur true ≥ threshold (total ws)
  then { r with pcGhost := r.graph.findGhost key (t.size + 1) r.pcGhost (supermCond ws r.eqv true) }
  else r

def stepC (key : Nat → Nat) (t : Tree) (ws : List Nat) (r : RoundC) (o : Op) : RoundC :=
  (importVoteC key t ws r o.ph o.v o.sv).2

def runC (key : Nat → Nat) (t : Tree) (ws : List Nat) (ops : List Op) : RoundC :=
  ops.foldl (stepC key t ws) RoundC.init

end Gossamer.C20
