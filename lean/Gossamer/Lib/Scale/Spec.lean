/-
The canonical SCALE codec (`Spec.codec`): fixed-width little-endian integers, two's complement,
canonical compact integers, strict booleans / option / result tags, length-prefixed byte strings.
`Spec.lawful` proves the primitive laws, so `roundtrip`, `sound`, `truncated` of `Codec.lean` hold.
-/
import Gossamer.Lib.Scale.Codec
namespace Gossamer.Scale
open Gossamer

namespace Spec

/-- two's complement residue of `i` in `w` bytes -/
def twos (w : Nat) (i : Int) : Nat := if 0 ≤ i then i.toNat else (i + (256 ^ w : Nat)).toNat

/-- signed reading of a `w`-byte residue -/
def untwos (w : Nat) (n : Nat) : Int := if n < 256 ^ w / 2 then (n : Int) else (n : Int) - (256 ^ w : Nat)

def encKind : PKind → Val → Bytes
  | .uint w, .nat n => leBytes w n
  | .sint w, .int i => leBytes w (twos w i)
  | .compact _, .nat n => compactEnc n
  | .bool, .bool b => [if b then 1 else 0]
  | .bytes, .bytes b => compactEnc b.length ++ b
  | _, _ => []

def decKind : PKind → Bytes → Option (Val × Bytes)
  | .uint w, bs =>
    if bs.length < w then none else some (.nat (natOfLE (bs.take w)), bs.drop w)
  | .sint w, bs =>
    if bs.length < w then none else some (.int (untwos w (natOfLE (bs.take w))), bs.drop w)
  | .compact m, bs =>
    match compactDec bs with
    | none => none
    | some (n, r) => if n < 256 ^ m then some (.nat n, r) else none
  | .bool, [] => none
  | .bool, b :: r =>
    if b = 0 then some (.bool false, r) else if b = 1 then some (.bool true, r) else none
  | .bytes, bs =>
    match compactDec bs with
    | none => none
    | some (n, r) =>
      if n < maxBytesLen ∧ n ≤ r.length then some (.bytes (r.take n), r.drop n) else none

def decLen (bs : Bytes) : Option (Nat × Bytes) :=
  match compactDec bs with
  | none => none
  | some (n, r) => if n < maxSeqLen then some (n, r) else none

/-- the canonical codec -/
def codec : Codec where
  encP p v := encKind p.kind v
  decP p bs := decKind p.kind bs
  encLen := compactEnc
  decLen := decLen

end Spec

/-! ### laws of the canonical primitives -/

theorem take_leBytes_append (w n : Nat) (r : Bytes) : (leBytes w n ++ r).take w = leBytes w n := by
  rw [List.take_append_of_le_length (by simp [length_leBytes])]
  rw [List.take_of_length_le (by simp [length_leBytes])]

theorem drop_leBytes_append (w n : Nat) (r : Bytes) : (leBytes w n ++ r).drop w = r := by
  rw [List.drop_append_of_le_length (by simp [length_leBytes])]
  rw [List.drop_of_length_le (by simp [length_leBytes])]; simp

theorem pow256_even (w : Nat) (hw : 0 < w) : 256 ^ w = 2 * (256 ^ w / 2) := by
  cases w with
  | zero => omega
  | succ k => rw [Nat.pow_succ]; omega

theorem Spec.untwos_twos (w : Nat) (hw : 0 < w) (i : Int)
    (h1 : - ((256 ^ w / 2 : Nat) : Int) ≤ i) (h2 : i < ((256 ^ w / 2 : Nat) : Int)) :
    Spec.twos w i < 256 ^ w ∧ Spec.untwos w (Spec.twos w i) = i := by
  have he := pow256_even w hw
  unfold Spec.twos Spec.untwos
  generalize 256 ^ w / 2 = hf at *
  generalize 256 ^ w = M at *
  subst he
  by_cases hi : 0 ≤ i
  · simp only [hi, if_true]
    constructor
    · omega
    · split <;> omega
  · simp only [hi, if_false]
    constructor
    · omega
    · split <;> omega

theorem Spec.twos_untwos (w : Nat) (hw : 0 < w) (n : Nat) (hn : n < 256 ^ w) :
    - ((256 ^ w / 2 : Nat) : Int) ≤ Spec.untwos w n ∧ Spec.untwos w n < ((256 ^ w / 2 : Nat) : Int) ∧
      Spec.twos w (Spec.untwos w n) = n := by
  have he := pow256_even w hw
  unfold Spec.twos Spec.untwos
  generalize 256 ^ w / 2 = hf at *
  generalize 256 ^ w = M at *
  subst he
  by_cases hlt : n < hf
  · simp only [hlt, if_true]
    refine ⟨by omega, by omega, ?_⟩
    have : (0:Int) ≤ (n:Int) := by omega
    simp [this]
  · simp only [hlt, if_false]
    refine ⟨by omega, by omega, ?_⟩
    have : ¬ (0:Int) ≤ (n:Int) - ((2 * hf : Nat) : Int) := by omega
    simp only [this, if_false]; omega

theorem Spec.rt_uint (w n : Nat) (r : Bytes) (h : n < 256 ^ w) :
    Spec.decKind (.uint w) (Spec.encKind (.uint w) (.nat n) ++ r) = some (.nat n, r) := by
  simp only [Spec.encKind, Spec.decKind, take_leBytes_append, drop_leBytes_append,
    natOfLE_leBytes_lt h]
  simp [length_leBytes]

theorem Spec.rt_sint (w : Nat) (hw : 0 < w) (i : Int) (r : Bytes)
    (h1 : - ((256 ^ w / 2 : Nat) : Int) ≤ i) (h2 : i < ((256 ^ w / 2 : Nat) : Int)) :
    Spec.decKind (.sint w) (Spec.encKind (.sint w) (.int i) ++ r) = some (.int i, r) := by
  have ⟨hlt, he⟩ := Spec.untwos_twos w hw i h1 h2
  simp only [Spec.encKind, Spec.decKind, take_leBytes_append, drop_leBytes_append,
    natOfLE_leBytes_lt hlt, he]
  simp [length_leBytes]

theorem Spec.rt_compact (m n : Nat) (r : Bytes) (hm : m ≤ 67) (h : n < 256 ^ m) :
    Spec.decKind (.compact m) (Spec.encKind (.compact m) (.nat n) ++ r) = some (.nat n, r) := by
  simp only [Spec.encKind, Spec.decKind, compactDec_enc n (lt_pow67 hm h) r, h, if_true]

theorem Spec.rt_bool (b : Bool) (r : Bytes) :
    Spec.decKind .bool (Spec.encKind .bool (.bool b) ++ r) = some (.bool b, r) := by
  cases b <;> simp [Spec.encKind, Spec.decKind]

theorem maxBytesLen_lt : maxBytesLen ≤ 256 ^ 67 := by
  have : maxBytesLen = 256 ^ 4 := by decide
  rw [this]; exact pow256_mono (by decide)

theorem maxSeqLen_lt : maxSeqLen ≤ 256 ^ 67 := by
  have : maxSeqLen = 256 ^ 8 := by decide
  rw [this]; exact pow256_mono (by decide)

theorem Spec.rt_bytes (b r : Bytes) (h : b.length < maxBytesLen) :
    Spec.decKind .bytes (Spec.encKind .bytes (.bytes b) ++ r) = some (.bytes b, r) := by
  simp only [Spec.encKind, Spec.decKind, List.append_assoc,
    compactDec_enc b.length (Nat.lt_of_lt_of_le h maxBytesLen_lt) (b ++ r)]
  simp [h]

theorem Spec.snd_uint (w : Nat) (bs : Bytes) (v : Val) (r : Bytes)
    (h : Spec.decKind (.uint w) bs = some (v, r)) :
    wtKind (.uint w) v = true ∧ bs = Spec.encKind (.uint w) v ++ r := by
  simp only [Spec.decKind] at h
  by_cases hl : bs.length < w
  · simp [hl] at h
  · simp only [hl, if_false, Option.some.injEq, Prod.mk.injEq] at h
    obtain ⟨h1, h2⟩ := h; subst h1; subst h2
    have hlen : (bs.take w).length = w := by simp; omega
    have key : leBytes w (natOfLE (bs.take w)) = bs.take w := by
      have := leBytes_natOfLE (bs.take w); rwa [hlen] at this
    constructor
    · have := natOfLE_lt (bs.take w); rw [hlen] at this; simp [wtKind, this]
    · simp only [Spec.encKind, key]; simp

theorem Spec.snd_sint (w : Nat) (hw : 0 < w) (bs : Bytes) (v : Val) (r : Bytes)
    (h : Spec.decKind (.sint w) bs = some (v, r)) :
    wtKind (.sint w) v = true ∧ bs = Spec.encKind (.sint w) v ++ r := by
  simp only [Spec.decKind] at h
  by_cases hl : bs.length < w
  · simp [hl] at h
  · simp only [hl, if_false, Option.some.injEq, Prod.mk.injEq] at h
    obtain ⟨h1, h2⟩ := h; subst h1; subst h2
    have hlen : (bs.take w).length = w := by simp; omega
    have hn := natOfLE_lt (bs.take w); rw [hlen] at hn
    have ⟨a, b, c⟩ := Spec.twos_untwos w hw _ hn
    have key : leBytes w (natOfLE (bs.take w)) = bs.take w := by
      have := leBytes_natOfLE (bs.take w); rwa [hlen] at this
    constructor
    · simp only [wtKind, decide_eq_true_eq]; exact ⟨a, b⟩
    · simp only [Spec.encKind, c, key]; simp

theorem Spec.snd_compact (m : Nat) (bs : Bytes) (v : Val) (r : Bytes)
    (h : Spec.decKind (.compact m) bs = some (v, r)) :
    wtKind (.compact m) v = true ∧ bs = Spec.encKind (.compact m) v ++ r := by
  simp only [Spec.decKind] at h
  cases hc : compactDec bs with
  | none => simp [hc] at h
  | some q =>
    obtain ⟨n, r0⟩ := q
    simp only [hc] at h
    by_cases hn : n < 256 ^ m
    · simp only [hn, if_true, Option.some.injEq, Prod.mk.injEq] at h
      obtain ⟨h1, h2⟩ := h; subst h1; subst h2
      exact ⟨by simp [wtKind, hn], (compactDec_sound hc).2⟩
    · simp [hn] at h

theorem Spec.snd_bool (bs : Bytes) (v : Val) (r : Bytes)
    (h : Spec.decKind .bool bs = some (v, r)) :
    wtKind .bool v = true ∧ bs = Spec.encKind .bool v ++ r := by
  cases bs with
  | nil => simp [Spec.decKind] at h
  | cons b r0 =>
    simp only [Spec.decKind] at h
    by_cases h0 : b = 0
    · simp only [h0, if_true, Option.some.injEq, Prod.mk.injEq] at h
      obtain ⟨h1, h2⟩ := h; subst h1; subst h2; subst h0
      simp [wtKind, Spec.encKind]
    · by_cases h1 : b = 1
      · subst h1
        simp only [h0, if_false, if_true, Option.some.injEq, Prod.mk.injEq] at h
        obtain ⟨h1, h2⟩ := h; subst h1; subst h2
        simp [wtKind, Spec.encKind]
      · simp [h0, h1] at h

theorem Spec.snd_bytes (bs : Bytes) (v : Val) (r : Bytes)
    (h : Spec.decKind .bytes bs = some (v, r)) :
    wtKind .bytes v = true ∧ bs = Spec.encKind .bytes v ++ r := by
  simp only [Spec.decKind] at h
  cases hc : compactDec bs with
  | none => simp [hc] at h
  | some q =>
    obtain ⟨n, r0⟩ := q
    simp only [hc] at h
    by_cases hn : n < maxBytesLen ∧ n ≤ r0.length
    · simp only [hn, and_self, if_true, Option.some.injEq, Prod.mk.injEq] at h
      obtain ⟨h1, h2⟩ := h; subst h1; subst h2
      have hlen : (r0.take n).length = n := by simp; omega
      constructor
      · simp [wtKind, hlen, hn.1]
      · simp only [Spec.encKind, hlen, List.append_assoc, List.take_append_drop]
        exact (compactDec_sound hc).2
    · simp [hn] at h

theorem Spec.rt : Spec.codec.RT where
  rtP := by
    intro p v r h
    cases p <;> simp only [Prim.kind] at h <;> cases v <;> simp only [wtKind, decide_eq_true_eq,
      Bool.false_eq_true] at h
    case u8.nat n => exact Spec.rt_uint 1 n r h
    case u16.nat n => exact Spec.rt_uint 2 n r h
    case u32.nat n => exact Spec.rt_uint 4 n r h
    case u64.nat n => exact Spec.rt_uint 8 n r h
    case u128.nat n => exact Spec.rt_uint 16 n r h
    case i8.int i => exact Spec.rt_sint 1 (by decide) i r h.1 h.2
    case i16.int i => exact Spec.rt_sint 2 (by decide) i r h.1 h.2
    case i32.int i => exact Spec.rt_sint 4 (by decide) i r h.1 h.2
    case i64.int i => exact Spec.rt_sint 8 (by decide) i r h.1 h.2
    case compact.nat n => exact Spec.rt_compact 8 n r (by decide) h
    case big.nat n => exact Spec.rt_compact 67 n r (by decide) h
    case bool.bool b => exact Spec.rt_bool b r
    case bytes.bytes b => exact Spec.rt_bytes b r h
    case str.bytes b => exact Spec.rt_bytes b r h
  rtLen := by
    intro n r h
    show Spec.decLen (compactEnc n ++ r) = some (n, r)
    simp only [Spec.decLen, compactDec_enc n (Nat.lt_of_lt_of_le h maxSeqLen_lt) r, h, if_true]

theorem Spec.snd : Spec.codec.Snd where
  sndP := by
    intro p bs v r h
    cases p
    case u8 => exact Spec.snd_uint 1 bs v r h
    case u16 => exact Spec.snd_uint 2 bs v r h
    case u32 => exact Spec.snd_uint 4 bs v r h
    case u64 => exact Spec.snd_uint 8 bs v r h
    case u128 => exact Spec.snd_uint 16 bs v r h
    case i8 => exact Spec.snd_sint 1 (by decide) bs v r h
    case i16 => exact Spec.snd_sint 2 (by decide) bs v r h
    case i32 => exact Spec.snd_sint 4 (by decide) bs v r h
    case i64 => exact Spec.snd_sint 8 (by decide) bs v r h
    case compact => exact Spec.snd_compact 8 bs v r h
    case big => exact Spec.snd_compact 67 bs v r h
    case bool => exact Spec.snd_bool bs v r h
    case bytes => exact Spec.snd_bytes bs v r h
    case str => exact Spec.snd_bytes bs v r h
  sndLen := by
    intro bs n r h
    simp only [Spec.codec, Spec.decLen] at h
    cases hc : compactDec bs with
    | none => simp [hc] at h
    | some q =>
      obtain ⟨n0, r0⟩ := q
      simp only [hc] at h
      by_cases hn : n0 < maxSeqLen
      · simp only [hn, if_true, Option.some.injEq, Prod.mk.injEq] at h
        obtain ⟨h1, h2⟩ := h; subst h1; subst h2
        exact ⟨hn, (compactDec_sound hc).2⟩
      · simp [hn] at h

theorem Spec.lawful : Spec.codec.Lawful := { Spec.rt, Spec.snd with }

/-! ### the canonical codec: headline theorems -/

theorem Spec.roundtrip (t : Ty) (v : Val) (r : Bytes) (h : wt t v = true) :
    decode Spec.codec t (encode Spec.codec t v ++ r) = some (v, r) :=
  Scale.roundtrip Spec.codec Spec.rt t v r h

theorem Spec.sound (t : Ty) (hwf : t.wf = true) (bs : Bytes) (v : Val) (r : Bytes)
    (h : decode Spec.codec t bs = some (v, r)) :
    wt t v = true ∧ bs = encode Spec.codec t v ++ r :=
  Scale.sound Spec.codec Spec.snd t hwf bs v r h

theorem Spec.truncated (t : Ty) (hwf : t.wf = true) (v : Val) (p s : Bytes)
    (hw : wt t v = true) (he : encode Spec.codec t v = p ++ s) (hs : s ≠ []) :
    decode Spec.codec t p = none :=
  Scale.truncated Spec.codec Spec.lawful t hwf v p s hw he hs

end Gossamer.Scale
